(* Proofs/IterCG.v -- round two, package iter2: the conjugate-gradient theory of the MODEL's solve_cg
   (Model/Iter.v: cg_body, statement by statement the loop of src/sparse.rs:441-487) in exact arithmetic:
   over any field (FieldLaws), any square-root function, any matrix given by a total linear product
   that is symmetric with respect to the code's dot product ([SymOp]).

   * [cg_body_eq]: under the size invariant the body is the textbook step
       rho = <r,r>; p = r (first step) | r + (rho/rho_1) p;  q = A p;  alpha = rho/<p,q>;
       x += alpha p;  r -= alpha q;   test ||r||/||b||' <= tol;
   * [cg_hist]: the ghost history of a run -- the list R of all earlier residuals and the list P of all
     search directions, newest first, tied to the loop by its own Continue steps;
   * [cg_hist_inv]: along every run, at every iteration (whatever tol, budget, guess): the residuals are
     mutually orthogonal, the directions mutually A-conjugate, the current residual is orthogonal to every
     direction (the full conjugacy invariant of CG) -- hence in particular r_{k+1} _|_ p_k, r_{k+1} _|_ r_k.
   A division by zero is a panic of the model (DivZero), so the statements speak about every run in which
   no breakdown division occurs -- for SPD matrices over R none can occur (Proofs/IterCGR.v). *)
From Coq Require Import List Arith Lia Bool Ring Field.
From OV Require Import Base.Panic Base.Arith Model.Vector Model.Iter Proofs.Iter Proofs.IterField
  Proofs.SparseMul Proofs.IterSparse Proofs.IterCGVec Proofs.IterCGDim Proofs.IterSparseBreakdown.
Import ListNotations.

(* a product that is symmetric with respect to the code's inner product:  <u, A v> = <A u, v> *)
Definition SymOp {A : Arith} (n : nat) (mulA : list A -> res (list A)) : Prop :=
  forall u v au av, length u = n -> length v = n -> mulA u = Ok au -> mulA v = Ok av ->
    dot_raw u av = dot_raw au v.

Lemma FOP_cons_inv {X} (R : X -> X -> Prop) a l : ForallOrdPairs R (a :: l) -> Forall (R a) l /\ ForallOrdPairs R l.
Proof. intros H. inversion H; subst. auto. Qed.

Section CGStep.
Context {A : SArith}.
Notation F := (T (SA A)).
Variable FL : FieldLaws (SA A).
Add Field FFcg : (fl_field (SA A) FL).
Variables (n : nat) (mulA : list F -> res (list F)).
Hypothesis LO : LinOp n mulA.

Notation finv := (fl_inv (SA A) FL).

(* ---------------------------------------------------------------- the body, simplified *)
Definition cg_dir (i : nat) (s : @cg_st A) : res (list F) :=
  if i =? 1 then Ok (cg_r s)
  else let* beta := div (dot_raw (cg_r s) (cg_r s)) (cg_rho1 s) in Ok (zipw add (cg_r s) (vscale (cg_p s) beta)).

Definition cg_tail (tol normb : F) (i : nat) (s : @cg_st A) (p : list F) : res (step_out cg_st) :=
  let r := cg_r s in
  let rho := dot_raw r r in
  let* q := mulA p in
  let pq := dot_raw p q in
  let* alpha := div rho pq in
  let u := vscale p alpha in
  let x := zipw add (cg_x s) u in
  let r' := zipw sub r (vscale q alpha) in
  let* resid := div (norm2 r') normb in
  let X := see (track (pivot (cg_X s) (cosq pq p q)) u x) resid tol in
  if leb resid tol then Ok (Return (IOk i, x, mkG r' X 1))
  else Ok (Continue (mkCG x r' p r rho resid X)).

Lemma zs_len (f : F -> F -> F) (u v : list F) c : length u = n -> length v = n -> length (zipw f u (vscale v c)) = n.
Proof. intros Hu Hv. rewrite zipw_length; auto. rewrite vscale_length. lia. Qed.

Lemma cg_dir_len i s p : length (cg_r s) = n -> length (cg_p s) = n -> cg_dir i s = Ok p -> length p = n.
Proof.
  intros Hr Hp. unfold cg_dir. destruct (i =? 1).
  - intros E; injection E as <-; auto.
  - intros E. apply bind_ok in E as (beta & _ & E). injection E as <-.
    now apply zs_len.
Qed.

Lemma cg_body_eq tol normb i s :
  length (cg_x s) = n -> length (cg_r s) = n -> length (cg_p s) = n -> length (cg_z s) = n ->
  cg_body mulA n tol normb i s = let* p := cg_dir i s in cg_tail tol normb i s p.
Proof.
  intros Hx Hr Hp Hz. unfold cg_body. rewrite ident_pre_ok by auto. cbn [bind].
  rewrite dot_ok by reflexivity. cbn [bind]. unfold cg_dir.
  assert (Htail : forall p, length p = n ->
    (let* q := mulA p in
     let* pq := dot p q in
     let* alpha := div (dot_raw (cg_r s) (cg_r s)) pq in
     let u := vscale p alpha in
     let* x := vadd (cg_x s) u in
     let* r := vsub (cg_r s) (vscale q alpha) in
     let* resid := div (norm2 r) normb in
     let X := see (track (pivot (cg_X s) (cosq pq p q)) u x) resid tol in
     if leb resid tol then Ok (Return (IOk i, x, mkG r X 1))
     else Ok (Continue (mkCG x r p (cg_r s) (dot_raw (cg_r s) (cg_r s)) resid X))) = cg_tail tol normb i s p).
  { intros p Hpl. unfold cg_tail. destruct (mulA p) as [q|e] eqn:Eq; cbn [bind]; [|reflexivity].
    assert (Hq : length q = n) by (eapply mulA_len; eauto).
    rewrite dot_ok by lia. cbn [bind].
    destruct (div (dot_raw (cg_r s) (cg_r s)) (dot_raw p q)) as [alpha|e] eqn:Ea; cbn [bind]; [|reflexivity].
    unfold vadd, vsub. rewrite !vscale_length, Hx, Hr, Hpl, Hq, Nat.eqb_refl. cbn [bind]. reflexivity. }
  destruct (i =? 1).
  - cbn [bind]. now apply Htail.
  - destruct (div (dot_raw (cg_r s) (cg_r s)) (cg_rho1 s)) as [beta|e]; cbn [bind]; [|reflexivity].
    unfold vadd. rewrite vscale_length, Hr, Hp, Nat.eqb_refl. cbn [bind].
    apply Htail. now apply zs_len.
Qed.

(* ---------------------------------------------------------------- one step, as a relation *)
Definition cg_step (i : nat) (x r pold : list F) (rho1 : F) (x' r' p : list F) (rho : F) : Prop :=
  rho = dot_raw r r /\
  (if i =? 1 then p = r else exists beta, div rho rho1 = Ok beta /\ p = zipw add r (vscale pold beta)) /\
  exists q alpha, mulA p = Ok q /\ div rho (dot_raw p q) = Ok alpha /\
    x' = zipw add x (vscale p alpha) /\ r' = zipw sub r (vscale q alpha).

(* what the body returns: a step, and either the next state or Ok i with the stepped x and r *)
Lemma cg_body_step tol normb i s out :
  length (cg_x s) = n -> length (cg_r s) = n -> length (cg_p s) = n -> length (cg_z s) = n ->
  cg_body mulA n tol normb i s = Ok out ->
  exists x' r' p rho resid X, cg_step i (cg_x s) (cg_r s) (cg_p s) (cg_rho1 s) x' r' p rho /\
    div (norm2 r') normb = Ok resid /\
    out = if leb resid tol then Return (IOk i, x', mkG r' X 1) else Continue (mkCG x' r' p (cg_r s) rho resid X).
Proof.
  intros Hx Hr Hp Hz. rewrite cg_body_eq by auto. intros H.
  apply bind_ok in H as (p & Edir & H). unfold cg_tail in H.
  apply bind_ok in H as (q & Eq & H). cbv zeta in H. apply bind_ok in H as (alpha & Ea & H).
  apply bind_ok in H as (resid & Eres & H).
  exists (zipw add (cg_x s) (vscale p alpha)), (zipw sub (cg_r s) (vscale q alpha)), p,
         (dot_raw (cg_r s) (cg_r s)), resid.
  eexists. split; [|split; [exact Eres|]].
  - split; [reflexivity|]. split.
    + unfold cg_dir in Edir. destruct (i =? 1).
      * now injection Edir as <-.
      * apply bind_ok in Edir as (beta & Eb & Edir). injection Edir as <-. eauto.
    + exists q, alpha. auto.
  - destruct (leb resid tol); injection H as <-; reflexivity.
Qed.

(* ---------------------------------------------------------------- the full conjugacy invariant *)
Hypothesis SYM : SymOp n mulA.

Definition lenn (v : list F) : Prop := length v = n.
Definition orth (u v : list F) : Prop := dot_raw u v = zero.
Definition conjA (p1 p2 : list F) : Prop := exists q2, mulA p2 = Ok q2 /\ dot_raw p1 q2 = zero.

(* x, r: current iterate and residual; p: last direction; z: previous residual; rho1 = <z,z>;
   R = z :: earlier residuals; P = p :: earlier directions *)
Definition cgI (x r p z : list F) (rho1 : F) (R P : list (list F)) : Prop :=
  length x = n /\ length r = n /\ Forall lenn R /\ Forall lenn P /\
  (exists R' P', R = z :: R' /\ P = p :: P' /\ rho1 = dot_raw z z /\
     (exists q alpha, mulA p = Ok q /\ r = zipw sub z (vscale q alpha) /\
                      mul alpha (dot_raw p q) = rho1 /\ dot_raw p q <> zero) /\
     Forall (fun p' => exists q', mulA p' = Ok q' /\ forall w, lenn w -> Forall (orth w) R -> orth w q') P') /\
  Forall (orth r) P /\
  ForallOrdPairs orth (r :: R) /\
  (forall w, lenn w -> Forall (orth w) P -> Forall (orth w) R) /\
  ForallOrdPairs conjA P.

Lemma orth_sym u v : orth u v -> orth v u.
Proof. unfold orth. now rewrite (dot_raw_comm FL). Qed.

Lemma mulA_len' v w : mulA v = Ok w -> length v = n -> length w = n.
Proof. intros E Hv. destruct (lo_ok n mulA LO v Hv) as (w' & E' & Hw). congruence. Qed.

(* the first step *)
Lemma cg_first_step x r pold rho1 x' r' p rho :
  length x = n -> length r = n ->
  cg_step 1 x r pold rho1 x' r' p rho -> cgI x' r' p r rho [r] [p].
Proof.
  intros Hx Hr (-> & Hp & q & alpha & Eq & Ea & -> & ->). cbn in Hp. subst p.
  assert (Hq : length q = n) by (eapply mulA_len'; eauto).
  apply (div_Ok_inv FL) in Ea as (Hpq & ->).
  assert (Hrr' : orth (zipw sub r (vscale q (mul (dot_raw r r) (finv (dot_raw r q))))) r).
  { unfold orth. rewrite (dot_raw_sub_l FL) by (now rewrite vscale_length; lia).
    rewrite (dot_raw_scale_l FL), (dot_raw_comm FL q r). field. exact Hpq. }
  unfold cgI. repeat split.
  - now apply zs_len.
  - now apply zs_len.
  - repeat constructor; exact Hr.
  - repeat constructor; exact Hr.
  - exists [], []. repeat split; auto.
    exists q, (mul (dot_raw r r) (finv (dot_raw r q))). repeat split; auto. field. exact Hpq.
  - repeat constructor. exact Hrr'.
  - repeat constructor. exact Hrr'.
  - intros w Hw HP. exact HP.
  - repeat constructor.
Qed.

(* a later step *)
Lemma cg_next_step i x r p z rho1 R P x' r' pn rho :
  (i =? 1) = false -> cgI x r p z rho1 R P ->
  cg_step i x r p rho1 x' r' pn rho -> cgI x' r' pn r rho (r :: R) (pn :: P).
Proof.
  intros Hi (Hx & Hr & HlR & HlP & (R' & P' & -> & -> & Hrho1 & (q & alpha & Eq & Er & Hapq & Hpq) & I5) & I1 & OR & I3 & CP).
  intros (-> & Hpn & qn & alpha' & Eqn & Ea' & -> & ->). rewrite Hi in Hpn.
  destruct Hpn as (beta & Eb & ->).
  assert (Hz : length z = n) by (inversion HlR; auto).
  assert (Hp : length p = n) by (inversion HlP; auto).
  assert (Hq : length q = n) by (eapply mulA_len'; eauto).
  set (pn := zipw add r (vscale p beta)) in *.
  assert (Hpnl : length pn = n) by (unfold pn; now apply zs_len).
  assert (Hqn : length qn = n) by (eapply mulA_len'; eauto).
  apply (div_Ok_inv FL) in Eb as (Hrho1nz & ->).
  apply (div_Ok_inv FL) in Ea' as (Hpqn & ->).
  set (rr := dot_raw r r) in *.
  set (beta := mul rr (finv rho1)) in *.
  set (alpha' := mul rr (finv (dot_raw pn qn))) in *.
  (* expansions of inner products along the three vector identities *)
  assert (Xr : forall w, dot_raw w r = sub (dot_raw w z) (mul (dot_raw w q) alpha)).
  { intros w. rewrite Er at 1. rewrite (dot_raw_sub_r FL) by (rewrite vscale_length; lia).
    now rewrite (dot_raw_scale_r FL). }
  assert (Xpn : forall w, dot_raw w pn = add (dot_raw w r) (mul (dot_raw w p) beta)).
  { intros w. unfold pn. rewrite (dot_raw_add_r FL) by (rewrite vscale_length; lia).
    now rewrite (dot_raw_scale_r FL). }
  set (rn := zipw sub r (vscale qn alpha')) in *.
  assert (Xrn : forall w, dot_raw rn w = sub (dot_raw r w) (mul (dot_raw qn w) alpha')).
  { intros w. unfold rn. rewrite (dot_raw_sub_l FL) by (rewrite vscale_length; lia).
    now rewrite (dot_raw_scale_l FL). }
  (* the scalar facts of the state *)
  assert (Hrz : dot_raw r z = zero).
  { apply FOP_cons_inv in OR as (Hh & _). exact (Forall_inv Hh). }
  assert (Hrp : dot_raw r p = zero) by exact (Forall_inv I1).
  assert (Halpha : alpha <> zero).
  { intros ->. apply Hrho1nz. rewrite <- Hapq. ring. }
  assert (Hrq : mul alpha (dot_raw r q) = neg rr).
  { pose proof (Xr r) as E. fold rr in E. rewrite Hrz in E. rewrite E. ring. }
  (* conjugacy of the new direction to every earlier one *)
  assert (Cq : dot_raw pn q = zero).
  { apply (mul_zero_inv FL alpha); auto.
    rewrite (dot_raw_comm FL pn q), Xpn, (dot_raw_comm FL q r), (dot_raw_comm FL q p).
    replace (mul alpha (add (dot_raw r q) (mul (dot_raw p q) beta)))
      with (add (mul alpha (dot_raw r q)) (mul (mul alpha (dot_raw p q)) beta)) by ring.
    rewrite Hrq, Hapq. unfold beta. field. exact Hrho1nz. }
  assert (ROR : Forall (orth r) (z :: R')).
  { apply FOP_cons_inv in OR as (Hh & _). exact Hh. }
  assert (CP' : Forall (conjA pn) (p :: P')).
  { constructor.
    - exists q. auto.
    - apply FOP_cons_inv in CP as (Chd & Ctl). rewrite Forall_forall in *.
      intros p' Hin. destruct (I5 p' Hin) as (q' & Eq' & Hspan). exists q'. split; auto.
      rewrite (dot_raw_comm FL), Xpn, (dot_raw_comm FL q' r), (dot_raw_comm FL q' p).
      rewrite (Hspan r Hr).
      2:{ apply Forall_forall. intros u Hu. apply ROR; auto. }
      destruct (Chd p' Hin) as (q'' & Eq'' & Hc). assert (q'' = q') by congruence. subst q''.
      rewrite Hc. ring. }
  (* the new product is orthogonal to every earlier direction (symmetry) *)
  assert (QP : Forall (orth qn) (p :: P')).
  { rewrite Forall_forall in *. intros p' Hin. destruct (CP' p' Hin) as (q' & Eq' & Hc).
    unfold orth. rewrite <- (SYM pn p' qn q'); auto. apply HlP; auto. }
  assert (Hqnp : dot_raw qn p = zero) by exact (Forall_inv QP).
  assert (Hrpn : dot_raw r pn = rr).
  { rewrite Xpn, Hrp. fold rr. ring. }
  assert (Hqnr : dot_raw qn r = dot_raw pn qn).
  { pose proof (Xpn qn) as E. rewrite Hqnp in E. rewrite (dot_raw_comm FL pn qn), E. ring. }
  assert (Hrnr : orth rn r).
  { unfold orth. rewrite Xrn, Hqnr. fold rr. unfold alpha'. field. exact Hpqn. }
  assert (Hrnpn : orth rn pn).
  { unfold orth. rewrite Xrn, Hrpn, (dot_raw_comm FL qn pn). unfold alpha'. field. exact Hpqn. }
  assert (QR : Forall (orth qn) (z :: R')).
  { apply I3; auto. }
  unfold cgI. repeat split.
  - now apply zs_len.
  - unfold rn. now apply zs_len.
  - constructor; auto.
  - constructor; auto.
  - exists (z :: R'), (p :: P'). repeat split; auto.
    + exists qn, alpha'. repeat split; auto. unfold alpha'. field. exact Hpqn.
    + constructor.
      * exists q. split; auto. intros w Hw HwR. pose proof (Forall_inv HwR) as Hwr.
        pose proof (Forall_inv (Forall_inv_tail HwR)) as Hwz. unfold orth in *.
        apply (mul_zero_inv FL alpha); auto.
        pose proof (Xr w) as E. rewrite Hwr, Hwz in E.
        replace (mul alpha (dot_raw w q)) with (sub zero (sub zero (mul (dot_raw w q) alpha))) by ring.
        rewrite <- E. ring.
      * rewrite Forall_forall in *. intros p' Hin. destruct (I5 p' Hin) as (q' & Eq' & Hspan).
        exists q'. split; auto. intros w Hw HwR. apply Hspan; auto.
        apply Forall_forall. intros u Hu. apply (proj1 (Forall_forall _ _) HwR). now right.
  - constructor; auto. rewrite Forall_forall in *. intros p' Hin. unfold orth.
    rewrite Xrn. rewrite (I1 p' Hin), (QP p' Hin). ring.
  - constructor; auto. constructor; auto.
    rewrite Forall_forall in *. intros u Hu. unfold orth. rewrite Xrn, (ROR u Hu), (QR u Hu). ring.
  - intros w Hw HwP. pose proof (Forall_inv HwP) as Hwpn. pose proof (Forall_inv_tail HwP) as HwP'. constructor.
    + unfold orth in *. pose proof (Xpn w) as E. rewrite Hwpn in E.
      pose proof (Forall_inv HwP') as Hwp. rewrite Hwp in E.
      replace (dot_raw w r) with (sub (add (dot_raw w r) (mul zero beta)) (mul zero beta)) by ring.
      rewrite <- E. ring.
    + apply I3; auto.
  - constructor; auto.
Qed.

End CGStep.

(* ---------------------------------------------------------------- along a run *)
Section CGRun.
Context {A : SArith}.
Notation F := (T (SA A)).
Variable FL : FieldLaws (SA A).
Add Field FFcg2 : (fl_field (SA A) FL).
Variables (n : nat) (mulA : list F -> res (list F)).
Hypothesis LO : LinOp n mulA.
Hypothesis SYM : SymOp n mulA.

(* the ghost history of a run of the loop: R = the residuals of all earlier iterations, P = all search
   directions used so far, newest first; tied to the loop by its own Continue steps *)
Inductive cg_hist (body : nat -> @cg_st A -> res (@step_out A (@cg_st A))) (s0 : @cg_st A) :
    nat -> @cg_st A -> list (list F) -> list (list F) -> Prop :=
| cgh_start : cg_hist body s0 1 s0 [] []
| cgh_step i s s' R P : cg_hist body s0 i s R P -> body i s = Ok (Continue s') ->
    cg_hist body s0 (S i) s' (cg_r s :: R) (cg_p s' :: P).

Lemma cg_hist_reaches body s0 i s R P : cg_hist body s0 i s R P -> reaches body 1 s0 i s.
Proof. induction 1; [constructor | econstructor; eauto]. Qed.
Lemma reaches_cg_hist body s0 i s : reaches body 1 s0 i s -> exists R P, cg_hist body s0 i s R P.
Proof.
  induction 1 as [|i s s' _ (R & P & IH) Eb].
  - exists [], []. constructor.
  - eexists _, _. econstructor; eauto.
Qed.

Definition cg_lens (s : @cg_st A) : Prop :=
  length (cg_x s) = n /\ length (cg_r s) = n /\ length (cg_p s) = n /\ length (cg_z s) = n.

(* the state invariant: at the first iteration nothing, afterwards the full conjugacy invariant *)
Definition cg_state_inv (s0 : @cg_st A) (i : nat) (s : @cg_st A) (R P : list (list F)) : Prop :=
  cg_lens s /\ length R = i - 1 /\ length P = i - 1 /\
  ((i = 1 /\ s = s0 /\ R = [] /\ P = []) \/
   (2 <= i /\ cgI n mulA (cg_x s) (cg_r s) (cg_p s) (cg_z s) (cg_rho1 s) R P)).

(* one iteration from a state satisfying the invariant: the stepped x, r, direction p and rho satisfy the
   conjugacy invariant with the history extended, whether the loop continues or returns Ok i *)
Lemma cg_body_post tol normb s0 i s R P out :
  cg_state_inv s0 i s R P -> cg_body mulA n tol normb i s = Ok out ->
  exists x' r' p rho resid X,
    cg_step mulA i (cg_x s) (cg_r s) (cg_p s) (cg_rho1 s) x' r' p rho /\
    cgI n mulA x' r' p (cg_r s) rho (cg_r s :: R) (p :: P) /\
    div (norm2 r') normb = Ok resid /\
    out = if leb resid tol then Return (IOk i, x', mkG r' X 1) else Continue (mkCG x' r' p (cg_r s) rho resid X).
Proof.
  intros ((Hx & Hr & Hp & Hz) & HlR & HlP & HI) Eb.
  destruct (cg_body_step n mulA LO tol normb i s out Hx Hr Hp Hz Eb) as (x' & r' & p & rho & resid & X & Hs & Er & Eo).
  exists x', r', p, rho, resid, X. split; auto. split; auto.
  destruct HI as [(-> & -> & -> & ->)|(Hi & HI)].
  - apply (cg_first_step FL n mulA LO (cg_x s0) (cg_r s0) (cg_p s0) (cg_rho1 s0) x' r' p rho Hx Hr Hs).
  - apply (cg_next_step FL n mulA LO SYM i (cg_x s) (cg_r s) (cg_p s) (cg_z s) (cg_rho1 s) R P x' r' p rho);
      [apply Nat.eqb_neq; lia | exact HI | exact Hs].
Qed.

Lemma cgI_lens x r p z rho1 R P : cgI n mulA x r p z rho1 R P ->
  length x = n /\ length r = n /\ length p = n /\ length z = n.
Proof.
  intros (Hx & Hr & HlR & HlP & (R' & P' & -> & -> & _) & _).
  repeat split; auto; [exact (Forall_inv HlP) | exact (Forall_inv HlR)].
Qed.

Lemma cg_hist_inv tol normb s0 i s R P : cg_lens s0 ->
  cg_hist (cg_body mulA n tol normb) s0 i s R P -> cg_state_inv s0 i s R P.
Proof.
  intros H0. induction 1 as [|i s s' R P Hh IH Eb].
  - split; auto. split; auto. split; auto.
  - destruct (cg_body_post tol normb s0 i s R P _ IH Eb) as (x' & r' & p & rho & resid & X & Hs & HI & Er & Eo).
    destruct (leb resid tol); [discriminate Eo|]. injection Eo as ->. cbn [cg_x cg_r cg_p cg_z cg_rho1].
    destruct IH as (_ & HlR & HlP & Hcase).
    assert (Hi : 1 <= i) by (destruct Hcase as [(-> & _)|(Hi & _)]; lia).
    split; [|split; [|split]].
    + apply cgI_lens in HI. unfold cg_lens; cbn. tauto.
    + cbn [length]. lia.
    + cbn [length]. lia.
    + right. split; [lia | exact HI].
Qed.

(* (c) the full conjugacy invariant along every run: the residuals r_0 .. r_k are mutually orthogonal, the
   directions p_0 .. p_{k-1} mutually A-conjugate, and r_k is orthogonal to every direction *)
Theorem cg_hist_conjugacy tol normb s0 i s R P : cg_lens s0 ->
  cg_hist (cg_body mulA n tol normb) s0 i s R P ->
  ForallOrdPairs (@orth A) (cg_r s :: R) /\ ForallOrdPairs (conjA mulA) P /\ Forall (orth (cg_r s)) P /\
  length R = i - 1 /\ length P = i - 1.
Proof.
  intros H0 Hh. destruct (cg_hist_inv tol normb s0 i s R P H0 Hh) as (_ & HlR & HlP & [(-> & -> & -> & ->)|(Hi & HI)]).
  - repeat split; auto; repeat constructor.
  - destruct HI as (_ & _ & _ & _ & _ & I1 & OR & _ & CP). auto.
Qed.

(* (b) in particular, after every step: r_{k+1} _|_ p_k  and  r_{k+1} _|_ r_k
   (cg_p = the direction just used, cg_z = the residual before the step) *)
Theorem cg_hist_local_orth tol normb s0 i s R P : cg_lens s0 -> 2 <= i ->
  cg_hist (cg_body mulA n tol normb) s0 i s R P ->
  dot_raw (cg_r s) (cg_p s) = zero /\ dot_raw (cg_r s) (cg_z s) = zero.
Proof.
  intros H0 Hi Hh. destruct (cg_hist_inv tol normb s0 i s R P H0 Hh) as (_ & _ & _ & [(-> & _)|(_ & HI)]); [lia|].
  destruct HI as (_ & _ & _ & _ & (R' & P' & -> & -> & _) & I1 & OR & _).
  split; [exact (Forall_inv I1)|]. apply FOP_cons_inv in OR as (Hh' & _). exact (Forall_inv Hh').
Qed.

(* ... and for the answer of an iteration that returns Ok: the returned residual (ghost g_t) is orthogonal to
   every earlier residual and every direction, the direction of the last step included *)
Theorem cg_return_conjugacy tol normb s0 i s R P k x g : cg_lens s0 ->
  cg_hist (cg_body mulA n tol normb) s0 i s R P ->
  cg_body mulA n tol normb i s = Ok (Return (IOk k, x, g)) ->
  k = i /\ ForallOrdPairs (@orth A) (g_t g :: cg_r s :: R) /\
  exists p, ForallOrdPairs (conjA mulA) (p :: P) /\ Forall (orth (g_t g)) (p :: P).
Proof.
  intros H0 Hh Eb. pose proof (cg_hist_inv tol normb s0 i s R P H0 Hh) as HI.
  destruct (cg_body_post tol normb s0 i s R P _ HI Eb) as (x' & r' & p & rho & resid & X & Hs & HI' & Er & Eo).
  destruct (leb resid tol); [|discriminate Eo]. injection Eo as -> -> ->. cbn [g_t].
  destruct HI' as (_ & _ & _ & _ & _ & I1 & OR & _ & CP). split; auto. split; auto. exists p. auto.
Qed.

End CGRun.

(* ---------------------------------------------------------------- the error in the A-norm along a search line *)
Section CGEnergy.
Context {A : SArith}.
Notation F := (T (SA A)).
Variable FL : FieldLaws (SA A).
Add Field FFcg3 : (fl_field (SA A) FL).
Variables (n : nat) (mulA : list F -> res (list F)).
Hypothesis LO : LinOp n mulA.
Hypothesis SYM : SymOp n mulA.

(* <e, A e>, the square of the A-norm of e (zero where the product is undefined: never, for a LinOp) *)
Definition anorm2 (e : list F) : F := match mulA e with Ok ae => dot_raw e ae | Panic _ => zero end.

(* for the exact solution xs of A xs = b, an iterate x with residual r = b - A x, a direction p, q = A p and
   any step length t:   |xs - (x + t p)|_A^2 = |xs - x|_A^2 - 2 t <r,p> + t^2 <p,q> *)
Lemma anorm2_line (b xs x ax p q : list F) t :
  length xs = n -> length x = n -> length p = n -> length b = n ->
  mulA xs = Ok b -> mulA x = Ok ax -> mulA p = Ok q ->
  anorm2 (zipw sub xs (zipw add x (vscale p t))) =
  add (sub (anorm2 (zipw sub xs x)) (mul (add t t) (dot_raw (zipw sub b ax) p))) (mul (mul t t) (dot_raw p q)).
Proof.
  intros Hxs Hx Hp Hb Exs Ex Ep.
  assert (Hax : length ax = n) by (eapply mulA_len'; eauto).
  assert (Hq : length q = n) by (eapply mulA_len'; eauto).
  rewrite <- (zipw_sub_sub FL).
  set (e := zipw sub xs x).
  assert (He : length e = n) by (unfold e; rewrite zipw_length; lia).
  set (et := zipw sub e (vscale p t)).
  assert (Het : length et = n) by (unfold et; rewrite zipw_length; auto; rewrite vscale_length; lia).
  destruct (lo_ok n mulA LO e He) as (ae & Eae & Hae).
  destruct (lo_ok n mulA LO et Het) as (aet & Eaet & Haet).
  unfold anorm2. rewrite Eae, Eaet.
  assert (X1 : forall w, dot_raw et w = sub (dot_raw e w) (mul (dot_raw p w) t)).
  { intros w. unfold et. rewrite (dot_raw_sub_l FL) by (rewrite vscale_length; lia). now rewrite (dot_raw_scale_l FL). }
  assert (X2 : forall w, dot_raw w et = sub (dot_raw w e) (mul (dot_raw w p) t)).
  { intros w. rewrite (dot_raw_comm FL w et), X1. now rewrite (dot_raw_comm FL e w), (dot_raw_comm FL p w). }
  assert (Eq1 : dot_raw e aet = dot_raw ae et) by (apply SYM; auto).
  assert (Eq2 : dot_raw p aet = dot_raw q et) by (apply SYM; auto).
  assert (Eq3 : dot_raw e q = dot_raw ae p) by (apply SYM; auto).
  assert (Eq4 : dot_raw xs q = dot_raw b p) by (apply SYM; auto).
  assert (Eq5 : dot_raw x q = dot_raw ax p) by (apply SYM; auto).
  assert (Eq6 : dot_raw e q = dot_raw (zipw sub b ax) p).
  { unfold e. rewrite !(dot_raw_sub_l FL) by lia. now rewrite Eq4, Eq5. }
  rewrite X1, Eq1, Eq2, !X2, <- Eq3, (dot_raw_comm FL q e), (dot_raw_comm FL ae e), (dot_raw_comm FL q p), Eq6. ring.
Qed.

(* the direction of a CG step makes <r, p> = <r, r> *)
Lemma cg_step_rp s0 i s R P x' r' p rho :
  cg_state_inv n mulA s0 i s R P -> cg_step mulA i (cg_x s) (cg_r s) (cg_p s) (cg_rho1 s) x' r' p rho ->
  dot_raw (cg_r s) p = rho.
Proof.
  intros ((Hx & Hr & Hp & Hz) & _ & _ & HI) (-> & Hdir & _).
  destruct HI as [(-> & -> & _)|(Hi & HI)].
  - cbn in Hdir. now subst p.
  - replace (i =? 1) with false in Hdir by (symmetry; apply Nat.eqb_neq; lia).
    destruct Hdir as (beta & _ & ->).
    rewrite (dot_raw_add_r FL) by (rewrite vscale_length; lia). rewrite (dot_raw_scale_r FL).
    destruct HI as (_ & _ & _ & _ & (R' & P' & _ & -> & _) & I1 & _).
    pose proof (Forall_inv I1) as E. unfold orth in E. rewrite E. ring.
Qed.

Lemma cg_dir_rp s0 i s R P p :
  cg_state_inv n mulA s0 i s R P -> cg_dir i s = Ok p -> dot_raw (cg_r s) p = dot_raw (cg_r s) (cg_r s).
Proof.
  intros ((Hx & Hr & Hp & Hz) & _ & _ & HI) Hdir. unfold cg_dir in Hdir.
  destruct HI as [(-> & -> & _)|(Hi & HI)].
  - cbn in Hdir. now injection Hdir as <-.
  - replace (i =? 1) with false in Hdir by (symmetry; apply Nat.eqb_neq; lia).
    apply bind_ok in Hdir as (beta & _ & Hdir). injection Hdir as <-.
    rewrite (dot_raw_add_r FL) by (rewrite vscale_length; lia). rewrite (dot_raw_scale_r FL).
    destruct HI as (_ & _ & _ & _ & (R' & P' & _ & -> & _) & I1 & _).
    pose proof (Forall_inv I1) as E. unfold orth in E. rewrite E. ring.
Qed.

End CGEnergy.

(* ---------------------------------------------------------------- the solver as a whole *)
Section CGSolver.
Context {A : SArith}.
Notation F := (T (SA A)).
Variable FL : FieldLaws (SA A).
Variables (n : nat) (mulA : list F -> res (list F)).
Hypothesis LO : LinOp n mulA.
Hypothesis SYM : SymOp n mulA.

Lemma cg_hist_ge body s0 i s R P : @cg_hist A body s0 i s R P -> 1 <= i.
Proof. induction 1; lia. Qed.
Lemma cg_hist_one body s0 s R P : @cg_hist A body s0 1 s R P -> s = s0.
Proof.
  intros H. remember 1 as i eqn:Ei. destruct H as [|i s s' R P Hh Eb]; auto.
  apply cg_hist_ge in Hh. lia.
Qed.
(* the initial residual stays in the history *)
Lemma cg_hist_first_in body s0 i s R P : @cg_hist A body s0 i s R P -> 2 <= i -> In (cg_r s0) R.
Proof.
  induction 1 as [|i s s' R P Hh IH Eb]; intros Hi; [lia|].
  destruct (Nat.eq_dec i 1) as [->|Hne].
  - apply cg_hist_one in Hh. subst s. now left.
  - right. apply IH. apply cg_hist_ge in Hh. lia.
Qed.

(* solve_cg either accepts the guess at once or is its loop started from (x0, r0 = b - A x0) *)
Lemma solve_cg_inv cols (b x0 : list F) max tol o :
  solve_cg mulA n cols b x0 max tol = Ok o ->
  exists ax resid, length b = n /\ length x0 = n /\ mulA x0 = Ok ax /\ length (zipw sub b ax) = n /\
    ((exists X, o = (IOk 0, x0, mkG (zipw sub b ax) X 0)) \/
     iloop (cg_body mulA n tol (nz (norm2 b))) cg_final max 1
           (mkCG x0 (zipw sub b ax) (zeros n) (zeros n) one resid (trace0 x0 resid tol)) = Ok o).
Proof.
  unfold solve_cg. intros H.
  apply bind_ok in H as (u & Hg & H). apply guards_Ok in Hg as (Hb & Hc & Hx).
  apply bind_ok in H as (ax & Eax & H). apply bind_ok in H as (r0 & Er & H).
  apply bind_ok in H as (resid & Ed & H). cbv zeta in H.
  apply vsub_Ok in Er as (Hl & ->).
  exists ax, resid. split; [lia|]. split; [lia|]. split; auto. split; [rewrite zipw_length; lia|].
  destruct (leb resid tol).
  - left. injection H as <-. eauto.
  - right. exact H.
Qed.

(* whenever at least one iteration was performed, the final residual -- which is the true residual b - A x
   (residual_invariant_cg) -- is orthogonal to the initial residual b - A x0, whether the answer is Ok or Err *)
Theorem solve_cg_residual_orth_initial cols (b x0 : list F) max tol res x g :
  solve_cg mulA n cols b x0 max tol = Ok (res, x, g) ->
  g_exit g = 1 \/ (g_exit g = 2 /\ 1 <= max) ->
  exists ax0, mulA x0 = Ok ax0 /\ dot_raw (g_t g) (zipw sub b ax0) = zero.
Proof.
  intros H Hex. destruct (solve_cg_inv _ _ _ _ _ _ H) as (ax & resid & Hb & Hx & Eax & Hr0 & [(X & E)|Hloop]).
  { injection E as _ _ ->. cbn in Hex. destruct Hex as [Hex|(Hex & _)]; discriminate Hex. }
  exists ax. split; auto.
  set (s0 := mkCG x0 (zipw sub b ax) (zeros n) (zeros n) one resid (trace0 x0 resid tol)) in *.
  set (bd := cg_body mulA n tol (nz (norm2 b))) in *.
  assert (Hl0 : cg_lens n s0).
  { unfold cg_lens, s0; cbn. repeat split; auto; apply zeros_length. }
  apply iloop_reach in Hloop as [(i & s & Hi & Hr & Eb)|(s & Hr & E)].
  - apply reaches_cg_hist in Hr as (R & P & Hh).
    destruct res as [k|e].
    2:{ exfalso. pose proof (cg_hist_inv FL n mulA LO SYM tol _ s0 i s R P Hl0 Hh) as HI.
        destruct (cg_body_post FL n mulA LO SYM tol _ s0 i s R P _ HI Eb) as (x' & r' & p & rho & rs & X & _ & _ & _ & Eo).
        destruct (leb rs tol); discriminate Eo. }
    destruct (cg_return_conjugacy FL n mulA LO SYM tol _ s0 i s R P k x g Hl0 Hh Eb) as (_ & Ho & _).
    apply FOP_cons_inv in Ho as (Ho & _). rewrite Forall_forall in Ho. apply Ho.
    destruct (Nat.eq_dec i 1) as [->|Hne].
    + apply cg_hist_one in Hh. subst s. now left.
    + right. change (zipw sub b ax) with (cg_r s0). eapply cg_hist_first_in; eauto. lia.
  - unfold cg_final in E. injection E as -> -> ->. cbn [g_t g_exit] in *.
    destruct Hex as [Hex|(_ & Hmax)]; [discriminate Hex|].
    apply reaches_cg_hist in Hr as (R & P & Hh).
    destruct (cg_hist_conjugacy FL n mulA LO SYM tol _ s0 _ s R P Hl0 Hh) as (Ho & _).
    apply FOP_cons_inv in Ho as (Ho & _). rewrite Forall_forall in Ho. apply Ho.
    change (zipw sub b ax) with (cg_r s0). eapply cg_hist_first_in; eauto. lia.
Qed.

(* ANY field (no order, no square-root law), A symmetric: breakdown or termination.  A run that starts iteration i >= 2 without
   a panic has divided by rho_{i-2} = <r_{i-2}, r_{i-2}>, so r_0 .. r_{i-2} are mutually orthogonal and non-isotropic, hence at most
   n (orth_family_bound): whenever solve_cg returns at all with a budget >= n+2 it returns Ok k with k <= n+1 *)
Theorem cg_breakdown_or_terminates cols (b x0 : list F) max tol res x g :
  n + 2 <= max ->
  solve_cg mulA n cols b x0 max tol = Ok (res, x, g) ->
  exists k, res = IOk k /\ k <= n + 1.
Proof.
  intros Hmax H. destruct (solve_cg_inv _ _ _ _ _ _ H) as (ax & resid & Hb & Hx & Eax & Hr0 & [(X & E)|Hloop]).
  { injection E as -> _ _. exists 0. split; [reflexivity | lia]. }
  set (s0 := mkCG x0 (zipw sub b ax) (zeros n) (zeros n) one resid (trace0 x0 resid tol)) in *.
  set (bd := cg_body mulA n tol (nz (norm2 b))) in *.
  assert (Hl0 : cg_lens n s0).
  { unfold cg_lens, s0; cbn. repeat split; auto; apply zeros_length. }
  set (Inv := fun (i : nat) (s : @cg_st A) =>
         exists R P, cg_hist bd s0 i s R P /\ Forall (fun u => dot_raw u u <> zero) (tl R)).
  assert (Hnz : forall i s R P, cg_hist bd s0 i s R P -> 2 <= i -> forall out, bd i s = Ok out ->
                  Forall (fun u => dot_raw u u <> zero) (tl R) -> Forall (fun u => dot_raw u u <> zero) R).
  { intros i s R P Hh Hi out Eb Htl.
    pose proof (cg_hist_inv FL n mulA LO SYM tol _ s0 i s R P Hl0 Hh) as HI.
    destruct (cg_body_post FL n mulA LO SYM tol _ s0 i s R P _ HI Eb) as (x' & r' & p & rho & rs & X & Hs & _).
    destruct HI as (_ & _ & _ & [(-> & _)|(_ & HI)]); [lia|].
    destruct HI as (_ & _ & _ & _ & (R' & P' & -> & _ & Hrho1 & _) & _).
    destruct Hs as (_ & Hdir & _). replace (i =? 1) with false in Hdir by (symmetry; apply Nat.eqb_neq; lia).
    destruct Hdir as (beta & Ebeta & _). apply (div_Ok_inv FL) in Ebeta as (Hne & _).
    constructor; [now rewrite <- Hrho1 | exact Htl]. }
  assert (Hbound : forall i s R P, cg_hist bd s0 i s R P -> Forall (fun u => dot_raw u u <> zero) R -> length R <= n).
  { intros i s R P Hh Han.
    destruct (cg_hist_conjugacy FL n mulA LO SYM tol _ s0 i s R P Hl0 Hh) as (Horth & _).
    apply FOP_cons_inv in Horth as (_ & Horth).
    apply (orth_family_bound FL n R); auto.
    pose proof (cg_hist_inv FL n mulA LO SYM tol _ s0 i s R P Hl0 Hh) as (_ & _ & _ & [(_ & _ & -> & _)|(_ & HI)]); [constructor|].
    destruct HI as (_ & _ & HlR & _). exact HlR. }
  assert (Hstep : forall i s s', Inv i s -> bd i s = Ok (Continue s') -> Inv (S i) s').
  { intros i s s' (R & P & Hh & Htl) Eb. exists (cg_r s :: R), (cg_p s' :: P). split; [econstructor; eauto|].
    cbn [tl]. destruct (Nat.eq_dec i 1) as [->|Hne].
    - pose proof (cg_hist_conjugacy FL n mulA LO SYM tol _ s0 1 s R P Hl0 Hh) as (_ & _ & _ & HlR & _).
      destruct R; [constructor | discriminate HlR].
    - apply (Hnz i s R P Hh) with (out := Continue s'); auto. apply cg_hist_ge in Hh. lia. }
  assert (H0 : Inv 1 s0) by (exists [], []; split; constructor).
  destruct (iloop_char bd cg_final Inv Hstep max 1 s0 _ H0 Hloop) as [(i & s & Hi & (R & P & Hh & Htl) & Eb)|(s & (R & P & Hh & Htl) & E)].
  - pose proof (cg_hist_inv FL n mulA LO SYM tol _ s0 i s R P Hl0 Hh) as HI.
    destruct (cg_body_post FL n mulA LO SYM tol _ s0 i s R P _ HI Eb) as (x' & r' & p & rho & rs & X & _ & _ & _ & Eo).
    destruct (leb rs tol); [|discriminate Eo]. injection Eo as -> _ _. exists i. split; [reflexivity|].
    destruct (cg_hist_conjugacy FL n mulA LO SYM tol _ s0 i s R P Hl0 Hh) as (_ & _ & _ & HlR & _).
    destruct (Nat.eq_dec i 1) as [->|Hne]; [lia|].
    assert (Hall : Forall (fun u => dot_raw u u <> zero) R) by (apply (Hnz i s R P Hh) with (out := Return (IOk i, x, g)); auto; lia).
    pose proof (Hbound i s R P Hh Hall). lia.
  - exfalso. destruct (cg_hist_conjugacy FL n mulA LO SYM tol _ s0 _ s R P Hl0 Hh) as (Horth & _ & _ & HlR & _).
    assert (Hb2 : length (tl R) <= n).
    { apply (orth_family_bound FL n (tl R)); auto.
      - pose proof (cg_hist_inv FL n mulA LO SYM tol _ s0 _ s R P Hl0 Hh) as (_ & _ & _ & [(Hi & _)|(_ & HI)]); [lia|].
        destruct HI as (_ & _ & HlRn & _). destruct R; cbn [tl]; [constructor | exact (Forall_inv_tail HlRn)].
      - apply FOP_cons_inv in Horth as (_ & Horth). destruct R; cbn [tl]; [constructor|].
        apply FOP_cons_inv in Horth. tauto. }
    destruct R; cbn [tl length] in *; lia.
Qed.

End CGSolver.
