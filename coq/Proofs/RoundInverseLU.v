(* Proofs/RoundInverseLU.v -- the backward error of the matrix inverse of Model/Solve.v as a whole, in the STANDARD MODEL
   of floating-point arithmetic (the same Gallina [inverse] at ARm):

     inverse_backward_error_lemma   (Higham, Accuracy and Stability of Numerical Algorithms, sec. 14.1):
        every column x_j of the computed inverse X^ is the EXACT j-th column of the inverse of a nearby matrix,
              (A + dA_j) x_j = e_j ,      |dA_j| <= (3 gam n + gam n ^2) P^T |L^| |U^| ,
        with its own perturbation dA_j per column (rows listed through the computed permutation tau; the right-hand
        side is exact because the sweeps start from the permutation matrix itself).

   It combines Proofs/RoundLUError.v (Thm 9.3) with the column-wise triangular sweeps of Proofs/RoundInverse.v through
   the assembly lemma [lu_assemble].  As for solve_lu, the bound is in terms of the computed |L^||U^|; comparing it with
   |A| (growth factor) is not done.  Since the perturbation differs from column to column, nothing is claimed about
   X^ A - I or A X^ - I as matrices. *)
From Coq Require Import List Arith Lia Bool Reals Lra Psatz.
From OV Require Import Base.Panic Base.Arith Base.RoundModel Model.Vector Model.Matrix Model.Solve
  Proofs.Matrix Proofs.LUPrim Proofs.RoundDot Proofs.RoundMatvec Proofs.RoundBacksolve
  Proofs.RoundLUFun Proofs.RoundLUTrace Proofs.RoundLUError Proofs.RoundSolveLU Proofs.RoundInverse.
Import ListNotations.
Local Open Scope R_scope.

(* the algebra of Higham's Theorem 9.4, on entry functions *)
Lemma lu_assemble (n : nat) (g : R) (PA L U dL dU : nat -> nat -> R) (xv yv pbv : nat -> R) :
  0 <= g ->
  (forall i c, (i < n)%nat -> (c < n)%nat ->
     exists th : nat -> R, (forall k, (k < n)%nat -> Rabs (th k) <= g) /\
       PA i c = Rsum n (fun k => L i k * U k c * (1 + th k))) ->
  (forall i k, (i < n)%nat -> (k < n)%nat -> Rabs (dL i k) <= g * Rabs (L i k)) ->
  (forall k c, (k < n)%nat -> (c < n)%nat -> Rabs (dU k c) <= g * Rabs (U k c)) ->
  (forall i, (i < n)%nat -> Rsum n (fun k => (L i k + dL i k) * yv k) = pbv i) ->
  (forall k, (k < n)%nat -> Rsum n (fun c => (U k c + dU k c) * xv c) = yv k) ->
  exists dA : nat -> nat -> R,
    (forall i c, (i < n)%nat -> (c < n)%nat ->
       Rabs (dA i c) <= (3 * g + g * g) * Rsum n (fun k => Rabs (L i k) * Rabs (U k c))) /\
    forall i, (i < n)%nat -> Rsum n (fun c => (PA i c + dA i c) * xv c) = pbv i.
Proof.
  intros Hg Hfac HdL HdU RowsL RowsU.
  exists (fun i c => Rsum n (fun k => (L i k + dL i k) * (U k c + dU k c)) - PA i c). split.
  - intros i c Hi Hc. destruct (Hfac i c Hi Hc) as (th & Hth & Ef). rewrite Ef, <- Rsum_minus.
    eapply Rle_trans; [apply Rsum_abs|]. rewrite <- Rsum_scal. apply Rsum_le. intros k Hk.
    apply lu_term_bound; [exact Hg|now apply Hth|now apply HdL|now apply HdU].
  - intros i Hi.
    rewrite (Rsum_ext n _ (fun c => Rsum n (fun k => (L i k + dL i k) * ((U k c + dU k c) * xv c)))).
    2:{ intros c Hc. replace (PA i c + (Rsum n (fun k => (L i k + dL i k) * (U k c + dU k c)) - PA i c))
          with (Rsum n (fun k => (L i k + dL i k) * (U k c + dU k c))) by ring.
        rewrite Rmult_comm, <- Rsum_scal. apply Rsum_ext. intros k Hk. ring. }
    rewrite <- (Rsum_swap n n (fun k c => (L i k + dL i k) * ((U k c + dU k c) * xv c))).
    rewrite (Rsum_ext n _ (fun k => (L i k + dL i k) * yv k)).
    2:{ intros k Hk. rewrite Rsum_scal. f_equal. exact (RowsU k Hk). }
    exact (RowsL i Hi).
Qed.

Section InverseLU.
Variable u : R.
Hypothesis u_range : 0 <= u < 1.
Variables fadd fsub fmul fdiv : R -> R -> R.
Hypothesis fsub_ok : forall x y, exists d, Rabs d <= u /\ fsub x y = (x - y) * (1 + d).
Hypothesis fmul_ok : forall x y, exists d, Rabs d <= u /\ fmul x y = x * y * (1 + d).
Hypothesis fdiv_ok : forall x y, y <> 0 -> exists d, Rabs d <= u /\ fdiv x y = x / y * (1 + d).

Notation AR := (ARm fadd fsub fmul fdiv).
Notation gam := (gam u).
Notation rentry := (rentry fadd fsub fmul fdiv).
Notation triu := (triu fadd fsub fmul fdiv).
Notation tril1 := (tril1 fadd fsub fmul fdiv).

Theorem inverse_backward_error_lemma (m lu perm inv : matrix AR) (piv : nat) :
  wf m -> INR (rows m) * u < 1 ->
  lu_decomp m = Ok (lu, piv, perm) ->
  (forall k, (k < rows m)%nat -> rentry lu k k <> 0) ->
  inverse m = Ok inv ->
  wf inv /\ rows inv = rows m /\ cols inv = rows m /\
  exists tau : nat -> nat,
    (forall r, (r < rows m)%nat -> (tau r < rows m)%nat) /\
    (forall r r', (r < rows m)%nat -> (r' < rows m)%nat -> tau r = tau r' -> r = r') /\
    forall j, (j < rows m)%nat ->
      exists dA : nat -> nat -> R,
        (forall i c, (i < rows m)%nat -> (c < rows m)%nat ->
           Rabs (dA i c) <= (3 * gam (rows m) + gam (rows m) * gam (rows m))
                            * Rsum (rows m) (fun k => Rabs (tril1 lu i k) * Rabs (triu lu k c))) /\
        forall i, (i < rows m)%nat ->
          Rsum (rows m) (fun c => (rentry m (tau i) c + dA i c) * rentry inv c j)
          = if (j =? tau i)%nat then 1 else 0.
Proof using u_range fsub_ok fmul_ok fdiv_ok.
  intros W Hn ELU Dg E. set (n := rows m) in *.
  destruct (inverse_columns_backward_error_lemma u u_range fadd fsub fmul fdiv fsub_ok fmul_ok fdiv_ok
              m lu perm inv piv W Hn ELU Dg E) as (WI & RI & CI & Cols).
  fold n in RI, CI, Cols. split; [exact WI|]. split; [exact RI|]. split; [exact CI|].
  destruct (lu_factor_backward_error_lemma u u_range fadd fsub fmul fdiv fsub_ok fmul_ok fdiv_ok m lu perm piv
              W Hn ELU Dg) as (SL & SP & tau & (T1 & T2 & T3) & Hfac).
  fold n in SL, SP, T1, T2, T3, Hfac.
  exists tau. split; [exact T1|]. split; [exact T2|].
  intros j Hj. destruct (Cols j Hj) as (y & dL & dU & Ly & HdL & HdU & RowsL & RowsU).
  assert (Hg : 0 <= gam n) by now apply (gam_nonneg u u_range).
  destruct (lu_assemble n (gam n) (fun i c => rentry m (tau i) c) (tril1 lu) (triu lu) dL dU
              (fun c => rentry inv c j) (fun k => nth k y 0) (fun i => rentry perm i j)
              Hg Hfac HdL HdU RowsL RowsU) as (dA & HdA & Eq).
  exists dA. split; [exact HdA|]. intros i Hi. rewrite (Eq i Hi).
  change (rentry perm i j) with (ent (A := AR) perm i j). exact (T3 i j Hi Hj).
Qed.

End InverseLU.
