(* Proofs/JacExactFloatRound.v -- package jacexact (C18): the rounding floor and the restoration drift AT IEEE BINARY64 ITSELF
   (the primitive-float instance NReal AF that the correspondence check runs bit-exactly against the Rust code), for ANY user
   function.  Proofs/JacExactRound.v proves them in the standard model; here the standard-model hypotheses are DISCHARGED through
   Flocq's specification of Coq's primitive floats (the total standard-model arithmetic A64r of Proofs/RoundDotFloat.v: an addition /
   subtraction of two binary64 numbers always has relative error <= 2^-53, underflow included; a quotient has it unless it underflows),
   in the style "whenever the computed value is finite" (a finite result has only finite operands and no overflow happened on the way).
   u64 = 2^-53, FR = real value, ffinite = finite.

   restore_drift_float               (x (+) d) (-) d finite  =>  x, d finite and  |FR ((x (+) d) (-) d) - FR x| <= (2u + u^2)(|FR x| + |FR d|).
   jacobian_call_points_drift_float  all columns of Mat64::jacobian at binary64: if the state the loop ends with is finite in every coordinate,
                                     then coordinate k of the j-th call point is within  u |x_j + d| (k = j),  (2u + u^2)(|x_k| + |d|) (k < j),
                                     0 (k > j)  of  x + d e_j,  and so is the final state of x.
   jacobian_entry_floor_float        the entry:  q = ((a (-) b) (/) d),  a = f^_i(p_j), b = f^_i(x) the values the closure returned.
                                     If q is finite, FR d <> 0 and the quotient does not underflow (it is 0 or >= 2^-1022 in size):
                                       |FR q - (A - B) / FR d| <= ( (2u + u^2)|A - B| + eps (1+u)^2 (|A| + |B|) ) / |FR d|
                                     for any reals A, B (the exact values of f_i) with |FR a - A| <= eps |A|, |FR b - B| <= eps |B|;
                                     eps = 0, A = FR a, B = FR b:  the quotient of the two returned values is computed to 2u + u^2. *)
From Coq Require Import ZArith Reals Lra Lia List Floats Bool Arith.
From Flocq Require Import Core BinarySingleNaN PrimFloat.
From OV Require Import Base.Panic Base.Arith Base.RoundModel Model.Vector Model.Matrix Model.Newton Inst.FloatInst
  Proofs.Matrix Proofs.Newton Proofs.NewtonJac Proofs.ComplexRound Proofs.RoundDotFloat Proofs.RoundTriFloat
  Proofs.Newton2Jac Proofs.JacExactGen Proofs.JacExactRound.
Import ListNotations.
Local Open Scope R_scope.

Local Notation OF := (NReal AF).

Lemma restore_drift_float (x d : PrimFloat.float) : ffinite ((x + d) - d)%float ->
  ffinite x /\ ffinite d /\ ffinite (x + d)%float /\
  Rabs (FR ((x + d) - d)%float - FR x) <= (2 * u64 + u64 * u64) * (Rabs (FR x) + Rabs (FR d)).
Proof.
  intros H. destruct (fsub_finite_inv _ _ H) as (Fs & Fd & Es). destruct (fadd_finite_inv _ _ Fs) as (Fx & _ & Ea).
  split; [exact Fx|]. split; [exact Fd|]. split; [exact Fs|].
  rewrite Es, Ea. rewrite <- (Fadd_fmt (FR x) (FR d)) by apply FR_fmt.
  assert (Ff : fmt (Fadd (FR x) (FR d))) by (rewrite Fadd_fmt by apply FR_fmt; apply rnd64_fmt).
  rewrite <- (Fsub_fmt _ (FR d) Ff (FR_fmt d)).
  exact (proj2 (restore_drift_lemma u64 u64_range Fadd Fsub Fadd_ok Fsub_ok (FR x) (FR d))).
Qed.

Lemma fadd_err_float (x d : PrimFloat.float) : ffinite (x + d)%float ->
  Rabs (FR (x + d)%float - (FR x + FR d)) <= u64 * Rabs (FR x + FR d).
Proof.
  intros H. destruct (fadd_finite_inv _ _ H) as (_ & _ & Ea). rewrite Ea.
  rewrite <- (Fadd_fmt (FR x) (FR d)) by apply FR_fmt. exact (fadd_err u64 Fadd Fadd_ok (FR x) (FR d)).
Qed.

Lemma FR_zero : FR 0%float = 0.
Proof. reflexivity. Qed.

(* all columns, at binary64 *)
Lemma jacobian_call_points_drift_float_lemma (F : list PrimFloat.float -> res (list PrimFloat.float))
    (x : list PrimFloat.float) (d : PrimFloat.float) (st : list PrimFloat.float) (J : matrix AF) (evs : list (list PrimFloat.float)) :
  jacobian_tr OF F x d = Ok (st, J, evs) ->
  (forall k, (k < length x)%nat -> ffinite (nth k st 0%float)) ->
  evs = x :: map (call_pt OF x d) (seq 0 (length x)) /\ length st = length x /\
  (forall k, (k < length x)%nat -> ffinite (nth k x 0%float) /\ ffinite (nth k x 0 + d)%float) /\
  (forall j k, (j < length x)%nat -> (k < length x)%nat ->
     Rabs (FR (nth k (call_pt OF x d j) 0%float) - (if k =? j then FR (nth j x 0%float) + FR d else FR (nth k x 0%float))) <=
       (if k =? j then u64 * Rabs (FR (nth k x 0%float) + FR d)
        else if k <? j then (2 * u64 + u64 * u64) * (Rabs (FR (nth k x 0%float)) + Rabs (FR d)) else 0)) /\
  (forall k, (k < length x)%nat ->
     Rabs (FR (nth k st 0%float) - FR (nth k x 0%float)) <= (2 * u64 + u64 * u64) * (Rabs (FR (nth k x 0%float)) + Rabs (FR d))).
Proof.
  intros H Hfin. apply jacobian_tr_gen in H as (-> & -> & _).
  assert (Hcp : forall j k, (j < length x)%nat ->
            nth k (call_pt OF x d j) 0%float =
              if k =? j then (nth j x 0 + d)%float else if k <? j then (nth k x 0 + d - d)%float else nth k x 0%float)
    by exact (call_pt_nth OF x d).
  assert (Hst : forall k, (k < length x)%nat -> nth k (state_at OF x d (length x)) 0%float = (nth k x 0 + d - d)%float).
  { intros k Hk. pose proof (state_at_nth OF x d (length x) k (le_n _)) as E.
    destruct (Nat.ltb_spec k (length x)) as [_|]; [exact E|lia]. }
  assert (Ls : length (state_at OF x d (length x)) = length x) by exact (state_at_length OF x d (length x)).
  assert (Hr : forall k, (k < length x)%nat -> ffinite (nth k x 0 + d - d)%float).
  { intros k Hk. exact (eq_ind _ (fun t => ffinite t) (Hfin k Hk) _ (Hst k Hk)). }
  split; [reflexivity|]. split; [exact Ls|]. split; [|split].
  - intros k Hk. destruct (restore_drift_float _ _ (Hr k Hk)) as (Fx & _ & Fs & _). split; assumption.
  - intros j k Hj Hk. rewrite (Hcp j k Hj).
    destruct (k =? j) eqn:Ekj.
    + apply Nat.eqb_eq in Ekj. subst k. destruct (restore_drift_float _ _ (Hr j Hj)) as (_ & _ & Fs & _).
      exact (fadd_err_float _ _ Fs).
    + destruct (k <? j).
      * destruct (restore_drift_float _ _ (Hr k Hk)) as (_ & _ & _ & G). exact G.
      * rewrite Rminus_diag_eq by reflexivity. rewrite Rabs_R0. lra.
  - intros k Hk. destruct (restore_drift_float _ _ (Hr k Hk)) as (_ & _ & _ & G).
    exact (eq_ind_r (fun t => Rabs (FR t - FR (nth k x 0%float)) <=
                               (2 * u64 + u64 * u64) * (Rabs (FR (nth k x 0%float)) + Rabs (FR d))) G (Hst k Hk)).
Qed.

(* one quotient at binary64 *)
Lemma fd_quotient_error_float (a b d : PrimFloat.float) (A B0 eps : R) :
  ffinite ((a - b) / d)%float -> FR d <> 0 -> no_underflow (FR (a - b)%float / FR d) -> 0 <= eps ->
  Rabs (FR a - A) <= eps * Rabs A -> Rabs (FR b - B0) <= eps * Rabs B0 ->
  ffinite a /\ ffinite b /\
  Rabs (FR ((a - b) / d)%float - (A - B0) / FR d) <=
    ((2 * u64 + u64 * u64) * Rabs (A - B0) + eps * ((1 + u64) * (1 + u64)) * (Rabs A + Rabs B0)) / Rabs (FR d).
Proof.
  intros Fq Hd Hu He Ha Hb.
  destruct (fdiv_finite_inv _ _ Fq Hd) as (Fs & Eq). destruct (fsub_finite_inv _ _ Fs) as (Fa & Fb & Es).
  split; [exact Fa|]. split; [exact Fb|].
  rewrite Eq. rewrite <- (Fdiv_nounder _ _ Hu). rewrite Es. rewrite <- (Fsub_fmt _ _ (FR_fmt a) (FR_fmt b)).
  exact (fd_quotient_error u64 u64_range Fsub Fdiv Fsub_ok Fdiv_ok (FR a) (FR b) A B0 (FR d) eps Hd He Ha Hb).
Qed.

(* the entries of Mat64::jacobian at binary64, any function *)
Lemma jacobian_entry_floor_float_lemma (F : list PrimFloat.float -> res (list PrimFloat.float))
    (x : list PrimFloat.float) (d : PrimFloat.float) (J : matrix AF) (evs : list (list PrimFloat.float)) :
  jacobian OF F x d = Ok (J, evs) ->
  exists f0, F x = Ok f0 /\ rows J = length f0 /\ cols J = length x /\
  forall i j, (i < length f0)%nat -> (j < length x)%nat ->
    exists fj q, F (call_pt OF x d j) = Ok fj /\ mget J i j = Ok q /\
      q = ((nth i fj 0 - nth i f0 0) / d)%float /\
      forall (A B0 eps : R),
        ffinite q -> FR d <> 0 -> no_underflow (FR (nth i fj 0 - nth i f0 0)%float / FR d) -> 0 <= eps ->
        Rabs (FR (nth i fj 0%float) - A) <= eps * Rabs A -> Rabs (FR (nth i f0 0%float) - B0) <= eps * Rabs B0 ->
        Rabs (FR q - (A - B0) / FR d) <=
          ((2 * u64 + u64 * u64) * Rabs (A - B0) + eps * ((1 + u64) * (1 + u64)) * (Rabs A + Rabs B0)) / Rabs (FR d).
Proof.
  intros H. apply jacobian_gen_lemma in H as (_ & f0 & E0 & _ & Rw & Cl & Hent).
  exists f0. split; [exact E0|]. split; [exact Rw|]. split; [exact Cl|].
  intros i j Hi Hj. destruct (Hent i j Hi Hj) as (fj & q & Ej & _ & Eq & Em).
  exists fj, q. split; [exact Ej|]. split; [exact Em|].
  cbn [NA NReal div sub AF zero] in Eq. injection Eq as <-. split; [reflexivity|].
  intros A B0 eps Fq Hd Hu He Ha Hb.
  exact (proj2 (proj2 (fd_quotient_error_float _ _ d A B0 eps Fq Hd Hu He Ha Hb))).
Qed.

(* truncation + floor + drift at binary64: the total error of an entry against the partial derivative of the exact function f_i at the
   real point FR x (FRl = real values of a float vector) *)
Definition FRl (p : list PrimFloat.float) : list R := map FR p.

Lemma total_error_triangle (q A B0 G1 d l T Fl Dr : R) : d <> 0 ->
  Rabs (q - (A - B0) / d) <= Fl -> Rabs ((G1 - B0) / d - l) <= T -> Rabs (A - G1) <= Dr ->
  Rabs (q - l) <= T + Fl + Dr / Rabs d.
Proof.
  intros Hd H1 H2 H3.
  replace (q - l) with ((q - (A - B0) / d) + (A - G1) / d + ((G1 - B0) / d - l)) by (field; exact Hd).
  eapply Rle_trans; [apply Rabs_triang|]. eapply Rle_trans; [apply Rplus_le_compat_r, Rabs_triang|].
  assert (D2 : Rabs ((A - G1) / d) <= Dr / Rabs d).
  { unfold Rdiv. rewrite Rabs_mult, Rabs_inv. apply Rmult_le_compat_r; [|exact H3].
    apply Rlt_le, Rinv_0_lt_compat, Rabs_pos_lt; exact Hd. }
  lra.
Qed.

Lemma jacobian_total_error_float_lemma (F : list PrimFloat.float -> res (list PrimFloat.float))
    (x : list PrimFloat.float) (d : PrimFloat.float) (J : matrix AF) (evs : list (list PrimFloat.float)) :
  jacobian OF F x d = Ok (J, evs) ->
  exists f0, F x = Ok f0 /\ rows J = length f0 /\ cols J = length x /\
  forall i j, (i < length f0)%nat -> (j < length x)%nat ->
    exists fj q, F (call_pt OF x d j) = Ok fj /\ mget J i j = Ok q /\
      forall (fi : list R -> R) (eps Dr : R) (g1 g2 : R -> R) (B : R),
        ffinite q -> FR d <> 0 -> no_underflow (FR (nth i fj 0 - nth i f0 0)%float / FR d) -> 0 <= eps ->
        Rabs (FR (nth i fj 0%float) - fi (FRl (call_pt OF x d j))) <= eps * Rabs (fi (FRl (call_pt OF x d j))) ->
        Rabs (FR (nth i f0 0%float) - fi (FRl x)) <= eps * Rabs (fi (FRl x)) ->
        (forall t, Rmin 0 (FR d) <= t <= Rmax 0 (FR d) -> derivable_pt_lim (fun t => fi (xpt (FRl x) j t)) t (g1 t)) ->
        (forall t, Rmin 0 (FR d) <= t <= Rmax 0 (FR d) -> derivable_pt_lim g1 t (g2 t)) ->
        (forall t, Rmin 0 (FR d) <= t <= Rmax 0 (FR d) -> Rabs (g2 t) <= B) ->
        Rabs (fi (FRl (call_pt OF x d j)) - fi (xpt (FRl x) j (FR d))) <= Dr ->
        Rabs (FR q - g1 0) <=
          Rabs (FR d) / 2 * B +
          ((2 * u64 + u64 * u64) * Rabs (fi (FRl (call_pt OF x d j)) - fi (FRl x)) +
           eps * ((1 + u64) * (1 + u64)) * (Rabs (fi (FRl (call_pt OF x d j))) + Rabs (fi (FRl x)))) / Rabs (FR d) +
          Dr / Rabs (FR d).
Proof.
  intros H. destruct (jacobian_entry_floor_float_lemma F x d J evs H) as (f0 & E0 & Rw & Cl & Hent).
  exists f0. split; [exact E0|]. split; [exact Rw|]. split; [exact Cl|].
  intros i j Hi Hj. destruct (Hent i j Hi Hj) as (fj & q & Ej & Em & Eq & Hq).
  exists fj, q. split; [exact Ej|]. split; [exact Em|].
  intros fi eps Dr g1 g2 B Fq Hd Hu He Ha Hb Hg1 Hg2 HB HDr.
  pose proof (Hq _ _ eps Fq Hd Hu He Ha Hb) as G.
  pose proof (Newton2Jac.fwd_diff_trunc (fun t => fi (xpt (FRl x) j t)) g1 g2 (FR d) B Hg1 Hg2 HB Hd) as T. cbv beta in T.
  rewrite xpt_0 in T.
  exact (total_error_triangle _ _ _ _ _ _ _ _ _ Hd G T HDr).
Qed.

(* the drift term at binary64 from coordinate-wise Lipschitz constants of f_i around FR x + FR d e_j *)
Lemma drift_lipschitz_float_lemma (F : list PrimFloat.float -> res (list PrimFloat.float))
    (x : list PrimFloat.float) (d : PrimFloat.float) (st : list PrimFloat.float) (J : matrix AF) (evs : list (list PrimFloat.float))
    (j : nat) (fi : list R -> R) (L : nat -> R) :
  jacobian_tr OF F x d = Ok (st, J, evs) ->
  (forall k, (k < length x)%nat -> ffinite (nth k st 0%float)) ->
  (j < length x)%nat -> (forall k, 0 <= L k) ->
  (forall p, length p = length x ->
     Rabs (fi p - fi (xpt (FRl x) j (FR d))) <= Rsum (length x) (fun k => L k * Rabs (nth k p 0 - nth k (xpt (FRl x) j (FR d)) 0))) ->
  Rabs (fi (FRl (call_pt OF x d j)) - fi (xpt (FRl x) j (FR d))) <=
    Rsum (length x) (fun k => L k * drift_bound u64 (FRl x) (FR d) j k).
Proof.
  intros H Hfin Hj HL Hlip.
  destruct (jacobian_call_points_drift_float_lemma F x d st J evs H Hfin) as (_ & _ & _ & Hd & _).
  assert (Lp : length (FRl (call_pt OF x d j)) = length x).
  { unfold FRl. rewrite map_length. exact (call_pt_length OF x d j). }
  assert (Hjr : (j < length (FRl x))%nat) by (unfold FRl; rewrite map_length; exact Hj).
  assert (Nth : forall (p : list PrimFloat.float) k, nth k (FRl p) 0 = FR (nth k p 0%float)).
  { intros p k. unfold FRl. rewrite <- FR_zero. apply map_nth. }
  eapply Rle_trans; [apply Hlip; exact Lp|].
  apply Rsum_le. intros k Hk. apply Rmult_le_compat_l; [apply HL|].
  rewrite xpt_nth by exact Hjr. rewrite !Nth. unfold drift_bound. rewrite !Nth.
  exact (Hd j k Hj Hk).
Qed.

(* ---------------------------------------------------------------- non-vacuity: the identity on R^1 at x = 1 with the NON-dyadic step 0.1
   (the binary64 number 0x1.999999999999ap-4): fl(1 + 0.1) = 1.1000000000000001, the difference 0.10000000000000009 is exact, the
   entry is 1.0000000000000009 instead of 1 (error 4 u: the floor u |f| / delta with |f| ~ 1, delta ~ 0.1, eps = 0) *)
From OV Require Import Proofs.ParDotFloat Proofs.Round2Lin.
Definition exf_F (p : list PrimFloat.float) : res (list PrimFloat.float) := Ok p.
Definition exf_x : list PrimFloat.float := [1%float].
Definition exf_d : PrimFloat.float := 0x1.999999999999ap-4%float.

Lemma exf_run : jacobian_tr OF exf_F exf_x exf_d =
  Ok ([1%float], @mkM AF [0x1.0000000000004p+0%float] 1 1, [[1%float]; [0x1.199999999999ap+0%float]]).
Proof. vm_compute. reflexivity. Qed.

Lemma exf_diff : Dy (0x1.199999999999ap+0 - 1)%float 7205759403792800 (-56).
Proof. dyw. Qed.
Lemma exf_d_dy : Dy exf_d 7205759403792794 (-56).
Proof. dyw. Qed.

Lemma exf_conditions :
  (forall k, (k < length exf_x)%nat -> ffinite (nth k [1%float] 0%float)) /\
  ffinite ((0x1.199999999999ap+0 - 1) / exf_d)%float /\ FR exf_d <> 0 /\
  no_underflow (FR (0x1.199999999999ap+0 - 1)%float / FR exf_d) /\
  PrimFloat.ltb 1 ((0x1.199999999999ap+0 - 1) / exf_d)%float = true.
Proof.
  split; [|split; [|split; [|split]]].
  - intros [|k] Hk; [apply ffinite_SF; vm_compute; reflexivity|cbn in Hk; lia].
  - apply ffinite_SF. vm_compute. reflexivity.
  - rewrite (Dy_FR _ _ _ exf_d_dy). simpl. lra.
  - apply no_underflow_ge1. rewrite (Dy_FR _ _ _ exf_diff), (Dy_FR _ _ _ exf_d_dy). simpl.
    rewrite Rabs_pos_eq; lra.
  - vm_compute. reflexivity.
Qed.

(* named constants for the pinned statements *)
Definition exf_J : matrix AF := @mkM AF [0x1.0000000000004p+0%float] 1 1.
Definition exf_p0 : PrimFloat.float := 0x1.199999999999ap+0%float.

(* the same run, for the total-error theorem: f_0 = first coordinate, eps = 0, g(t) = 1 + t, g' = 1, g'' = 0 = B,
   Dr = u |1 + delta| (the rounding of the call point 1 (+) 0.1) *)
From OV Require Import Proofs.Newton2Deriv.
Lemma exf_total_conditions :
  (forall t, derivable_pt_lim (fun t => nth 0 (xpt (FRl exf_x) 0 t) 0) t 1) /\
  (forall t, derivable_pt_lim (fun _ : R => 1) t 0) /\ Rabs 0 <= 0 /\
  Rabs (nth 0 (FRl (call_pt OF exf_x exf_d 0)) 0 - nth 0 (xpt (FRl exf_x) 0 (FR exf_d)) 0) <= u64 * Rabs (FR 1%float + FR exf_d).
Proof.
  split; [|split; [|split]].
  - intros t. change (fun t0 : R => nth 0 (xpt (FRl exf_x) 0 t0) 0) with (fun t0 : R => FR 1%float + t0). dpoly.
  - intros t. apply derivable_pt_lim_const.
  - rewrite Rabs_R0. lra.
  - change (nth 0 (FRl (call_pt OF exf_x exf_d 0)) 0) with (FR (1 + exf_d)%float).
    change (nth 0 (xpt (FRl exf_x) 0 (FR exf_d)) 0) with (FR 1%float + FR exf_d).
    apply fadd_err_float. apply ffinite_SF. vm_compute. reflexivity.
Qed.
