(* Proofs/GuardsModelSolve.v -- C20 entry contracts of the five guarded entries of src/matrix/solve.rs
   (solve_basic, lu_decomp_in_place, solve_lu, inverse, determinant) on the model functions of Model/Solve.v.
   rejects_*: the size guards are the first statements; no hypothesis at all.
   accepts_*: these algorithms divide, so a DATA-dependent panic is legitimate on the exact types.  The
   precondition is named in each statement:
     lu_decomp, determinant : none (total on every well-formed square matrix, singular included)
     solve_basic            : 1 <= n; the ONLY panic is DivZero (no index / underflow / guard for any size); it returns
                              whenever the matrix has a left inverse
     solve_lu, inverse      : the code's own determinant is non-zero  (solve_lu additionally 1 <= n: on the 0x0
                              system `rows - 1` underflows -- the dontcare tuple r = 0 of driver/guardtable.py)
   over any field (FieldLaws) with a magnitude (PivLaws): Qc, R, C are instances (Proofs/LUQc.v, LUReal.v). *)
From Coq Require Import ZArith Bool Lia ZifyBool List Arith.
From OV Require Import Base.Panic Base.Arith Model.Vector Model.Matrix Model.Solve gen.GuardTable Model.Guards
  Proofs.Guards Proofs.GuardsModelBase Proofs.Matrix.
From OV Require Proofs.LUPrim Proofs.LU Proofs.LUPanic Proofs.LUInvC Proofs.LUSolveC Proofs.SolveBase Proofs.Solve
  Proofs.SolvePanic Proofs.SolveComplete.
Import ListNotations.

Section SolveContracts.
Context {A : Arith}.
Notation matrix := (matrix A).
Implicit Types M : matrix.

Notation Zr m := (Z.of_nat (rows m)).
Notation Zc m := (Z.of_nat (cols m)).
Notation Zl l := (Z.of_nat (length l)).

(* ---------------- rejects: no hypothesis ---------------- *)
Lemma rejects_mat_solve_basic M (b : list A) :
  g_mat_solve_basic (Zr M) (Zc M) (Zl b) = true -> solve_basic M b = Panic Guard.
Proof.
  intros H. g_true H guard_mat_solve_basic_lemma ok_mat_solve_basic. unfold solve_basic. bdestr.
Qed.
Lemma rejects_mat_lu M : g_mat_lu (Zr M) (Zc M) = true -> lu_decomp M = Panic Guard.
Proof.
  intros H. g_true H guard_mat_lu_lemma ok_mat_lu. unfold lu_decomp, lu_gen. bdestr.
Qed.
Lemma rejects_mat_solve_lu M (b : list A) :
  g_mat_solve_lu (Zr M) (Zc M) (Zl b) = true -> solve_lu M b = Panic Guard.
Proof.
  intros H. g_true H guard_mat_solve_lu_lemma ok_mat_solve_lu. unfold solve_lu. bdestr.
Qed.
Lemma rejects_mat_inverse M : g_mat_inverse (Zr M) (Zc M) = true -> inverse M = Panic Guard.
Proof.
  intros H. g_true H guard_mat_inverse_lemma ok_mat_inverse. unfold inverse. bdestr.
Qed.
(* determinant has no guard of its own: it is protected by the guard of lu_decomp_in_place (guard_of in the table) *)
Lemma rejects_mat_determinant M : g_mat_determinant (Zr M) (Zc M) = true -> determinant M = Panic Guard.
Proof.
  intros H. g_true H guard_mat_determinant_lemma ok_mat_determinant.
  unfold determinant, determinant_gen, lu_gen. bdestr.
Qed.

(* ---------------- accepts ---------------- *)
Variable FL : FieldLaws A.

Lemma accepts_mat_lu M : LUPrim.PivLaws A -> wf M -> g_mat_lu (Zr M) (Zc M) = false ->
  exists LU piv P, lu_decomp M = Ok (LU, piv, P) /\
    LUPrim.shape LU (rows M) (rows M) /\ LUPrim.shape P (rows M) (rows M).
Proof.
  intros PL W H. g_false H guard_mat_lu_lemma ok_mat_lu.
  destruct (LU.lu_spec_lemma FL PL M W) as (LU & piv & P & sw & E & SL & SP & _); [lia|].
  exists LU, piv, P. auto.
Qed.

Lemma accepts_mat_determinant M : LUPrim.PivLaws A -> wf M -> g_mat_determinant (Zr M) (Zc M) = false ->
  exists d, determinant M = Ok d.
Proof.
  intros PL W H. g_false H guard_mat_determinant_lemma ok_mat_determinant.
  apply (LUPanic.determinant_total_lemma FL PL M W). lia.
Qed.

Lemma accepts_mat_inverse M : LUPrim.PivLaws A -> wf M -> g_mat_inverse (Zr M) (Zc M) = false ->
  exists d, determinant M = Ok d /\
    (d <> zero -> exists N, inverse M = Ok N) /\
    (1 <= rows M -> d = zero -> inverse M = Panic DivZero).
Proof.
  intros PL W H. g_false H guard_mat_inverse_lemma ok_mat_inverse.
  assert (Esq : rows M = cols M) by lia.
  destruct (LUPanic.determinant_total_lemma FL PL M W Esq) as (d & Ed). exists d. split; [exact Ed|]. split.
  - intros Hd. exact (LUInvC.inverse_complete_lemma FL PL M d W Esq Ed Hd).
  - intros Hn Hd. exact (proj1 (LUPanic.inverse_result_lemma FL PL M d W Esq Hn Ed) Hd).
Qed.

Lemma accepts_mat_solve_lu M (b : list A) : LUPrim.PivLaws A -> wf M ->
  g_mat_solve_lu (Zr M) (Zc M) (Zl b) = false -> 1 <= rows M ->
  forall d, determinant M = Ok d -> d <> zero -> exists x, solve_lu M b = Ok x.
Proof.
  intros PL W H Hn d Ed Hd. g_false H guard_mat_solve_lu_lemma ok_mat_solve_lu.
  apply (LUSolveC.solve_lu_complete_lemma FL PL M b d W); auto; lia.
Qed.

Lemma accepts_mat_solve_basic M (b : list A) : wf M ->
  g_mat_solve_basic (Zr M) (Zc M) (Zl b) = false -> 1 <= rows M ->
  (forall k, solve_basic M b = Panic k -> k = DivZero) /\
  (SolveBase.PivLaws A -> (exists N : nat -> nat -> A, Solve.left_inverse (rows M) N (entry M)) ->
   exists x, solve_basic M b = Ok x).
Proof.
  intros W H Hn. g_false H guard_mat_solve_basic_lemma ok_mat_solve_basic.
  assert (Esq : rows M = cols M) by lia. assert (Lb : length b = rows M) by lia. split.
  - intros k. exact (SolvePanic.solve_basic_panic_kind_lemma FL M b k W Esq Lb Hn).
  - intros PL LI. exact (SolveComplete.solve_basic_complete_lemma FL PL M b W Esq Lb Hn LI).
Qed.

End SolveContracts.
