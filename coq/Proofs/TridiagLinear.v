(* Proofs/TridiagLinear.v -- C05: the tridiagonal matrix-vector product (Model/Tridiag.v tmul: separate first and
   last rows, interior loop; src/tridiagonal.rs:410-428) is the dense twin's linear map: it is the textbook product
   dmulv of the dense entries, hence additive, homogeneous, maps zero to zero, and the product with the transpose
   (exchange of sub- and super-diagonal) is the adjoint:  <y, T x> = <T^T y, x>.  Ring laws only, every n >= 1. *)
From Coq Require Import List Arith Lia Bool Ring.
From OV Require Import Base.Panic Base.Arith Model.Vector Model.Matrix Model.Tridiag Model.Sparse
                       Proofs.SparseBase Proofs.SparseMul Proofs.SparseLinear Proofs.Tridiag.
Import ListNotations.
Local Open Scope arith_scope.

Section TriLin.
Context {A : Arith}.
Variable RL : RingLaws A.
Notation T := (T A).
Notation tridiag := (tridiag A).

(* the product is the textbook product of the dense twin *)
Lemma tmul_is_dmulv (t : tridiag) (v : list T) : wfT t -> 1 <= tn t -> length v = tn t ->
  tmul t v = Ok (dmulv (dense t) (tn t) (tn t) v).
Proof.
  intros Hwf Hn Hv. destruct (tmul_spec_lemma RL t v Hwf Hn Hv) as (w & Hw & Hl & Hnth).
  rewrite Hw. f_equal. apply (nth_ext _ _ zero zero).
  - unfold dmulv. now rewrite map_length, seq_length.
  - rewrite Hl. intros i Hi. unfold dmulv. rewrite nth_map_seq by auto. now apply Hnth.
Qed.

Theorem tmul_add_lemma (t : tridiag) (x y : list T) : wfT t -> 1 <= tn t -> length x = tn t -> length y = tn t ->
  exists xy u v uv, vadd x y = Ok xy /\ tmul t x = Ok u /\ tmul t y = Ok v /\ vadd u v = Ok uv /\ tmul t xy = Ok uv.
Proof.
  intros Hwf Hn Hx Hy.
  exists (zipw add x y), (dmulv (dense t) (tn t) (tn t) x), (dmulv (dense t) (tn t) (tn t) y),
         (zipw add (dmulv (dense t) (tn t) (tn t) x) (dmulv (dense t) (tn t) (tn t) y)).
  split; [unfold vadd; now rewrite Hx, Hy, Nat.eqb_refl|].
  split; [now apply tmul_is_dmulv|]. split; [now apply tmul_is_dmulv|].
  split; [unfold vadd, dmulv; now rewrite !map_length, Nat.eqb_refl|].
  rewrite tmul_is_dmulv by (auto; rewrite zipw_length; congruence).
  f_equal. apply (dmulv_add RL). congruence.
Qed.

Theorem tmul_sub_lemma (t : tridiag) (x y : list T) : wfT t -> 1 <= tn t -> length x = tn t -> length y = tn t ->
  exists xy u v uv, vsub x y = Ok xy /\ tmul t x = Ok u /\ tmul t y = Ok v /\ vsub u v = Ok uv /\ tmul t xy = Ok uv.
Proof.
  intros Hwf Hn Hx Hy.
  exists (zipw sub x y), (dmulv (dense t) (tn t) (tn t) x), (dmulv (dense t) (tn t) (tn t) y),
         (zipw sub (dmulv (dense t) (tn t) (tn t) x) (dmulv (dense t) (tn t) (tn t) y)).
  split; [unfold vsub; now rewrite Hx, Hy, Nat.eqb_refl|].
  split; [now apply tmul_is_dmulv|]. split; [now apply tmul_is_dmulv|].
  split; [unfold vsub, dmulv; now rewrite !map_length, Nat.eqb_refl|].
  rewrite tmul_is_dmulv by (auto; rewrite zipw_length; congruence).
  f_equal. apply (dmulv_sub RL). congruence.
Qed.

Theorem tmul_scale_vec_lemma (t : tridiag) (x : list T) (a : T) : wfT t -> 1 <= tn t -> length x = tn t ->
  exists u, tmul t x = Ok u /\ tmul t (vscale x a) = Ok (vscale u a).
Proof.
  intros Hwf Hn Hx. exists (dmulv (dense t) (tn t) (tn t) x).
  split; [now apply tmul_is_dmulv|].
  rewrite tmul_is_dmulv by (auto; unfold vscale; now rewrite map_length).
  f_equal. apply (dmulv_scale RL).
Qed.

Theorem tmul_zero_lemma (t : tridiag) : wfT t -> 1 <= tn t ->
  tmul t (repeat zero (tn t)) = Ok (repeat zero (tn t)).
Proof.
  intros Hwf Hn. rewrite tmul_is_dmulv by (auto; now rewrite repeat_length).
  f_equal. apply (dmulv_zero RL).
Qed.

(* <y, T x> = <T^T y, x> *)
Theorem tmul_adjoint_lemma (t : tridiag) (x y : list T) : wfT t -> 1 <= tn t -> length x = tn t -> length y = tn t ->
  exists u w d, tmul t x = Ok u /\ tmul (ttranspose t) y = Ok w /\ dot y u = Ok d /\ dot w x = Ok d.
Proof.
  intros Hwf Hn Hx Hy.
  destruct (tridiag_views_lemma t Hwf Hn) as (_ & _ & _ & _ & HwfT & HnT & HdT).
  exists (dmulv (dense t) (tn t) (tn t) x), (dtmulv (dense t) (tn t) (tn t) y),
         (dot_raw y (dmulv (dense t) (tn t) (tn t) x)).
  split; [now apply tmul_is_dmulv|].
  split.
  - rewrite tmul_is_dmulv by (auto; rewrite HnT; auto). rewrite HnT. f_equal.
    unfold dtmulv, dmulv. apply map_ext. intros j. apply sum_n_ext. intros i Hi. now rewrite HdT.
  - unfold dot. unfold dmulv at 1. rewrite map_length, seq_length, Hy, Nat.eqb_refl.
    unfold dtmulv at 1. rewrite map_length, seq_length, Hx, Nat.eqb_refl.
    split; auto. f_equal. symmetry. now apply (dense_adjoint RL).
Qed.

End TriLin.
