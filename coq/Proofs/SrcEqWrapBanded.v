(* Proofs/SrcEqWrapBanded.v -- src/banded.rs: the consuming operator forms (each delegates to the by-reference form), empty, size, size_below, size_above, compact
   regenerated from the source of this run as gen/SrcWrapBanded.v and each proved equal to its hand-written model (package C04).
   Every consuming operator form computes exactly what the by-reference form computes; every Clone impl is the identity that
   the translation of `x.clone()` assumes. *)
From Coq Require Import List Arith ZArith Lia Bool.
From OV Require Import Base.Panic Base.Arith Model.Vector Model.Matrix Model.Tridiag Model.Banded Model.Poly Model.Newton gen.SrcPrelude gen.SrcWrapBanded Proofs.SrcEqBase.
Import ListNotations.

Section SrcEqWrapBanded.
Context {A : Arith}.

Lemma src_band_empty  : @s_band_empty A = Ok (mkB 0 0 0 mat_empty).
Proof. reflexivity. Qed.
Lemma src_band_size (B : banded A) : s_band_size B = Ok (bn B).
Proof. reflexivity. Qed.
Lemma src_band_size_below (B : banded A) : s_band_size_below B = Ok (bm1 B).
Proof. reflexivity. Qed.
Lemma src_band_size_above (B : banded A) : s_band_size_above B = Ok (bm2 B).
Proof. reflexivity. Qed.
Lemma src_band_compact (B : banded A) : s_band_compact B = Ok (compact B).
Proof. reflexivity. Qed.
Lemma src_band_neg_val (B : banded A) : s_band_neg_val B = band_neg B.
Proof. reflexivity. Qed.
Lemma src_band_add_val (B C : banded A) : s_band_add_val B C = band_add B C.
Proof. reflexivity. Qed.
Lemma src_band_sub_val (B C : banded A) : s_band_sub_val B C = band_sub B C.
Proof. reflexivity. Qed.
Lemma src_band_scale_val (B : banded A) (x : T A) : s_band_scale_val B x = band_scale B x.
Proof. reflexivity. Qed.
Lemma src_band_div_val (B : banded A) (x : T A) : s_band_div_val B x = band_div B x.
Proof. reflexivity. Qed.
Lemma src_band_add_assign_val (B C : banded A) : s_band_add_assign_val B C = band_add_assign B C.
Proof. reflexivity. Qed.
Lemma src_band_sub_assign_val (B C : banded A) : s_band_sub_assign_val B C = band_sub_assign B C.
Proof. reflexivity. Qed.
Lemma src_band_mul_val (B : banded A) (v : list (T A)) : s_band_mul_val B v = band_mul B v.
Proof. reflexivity. Qed.

Definition model_is_source_WrapBanded : Prop :=
  (@s_band_empty A = Ok (mkB 0 0 0 mat_empty)) /\
  (forall (B : banded A), s_band_size B = Ok (bn B)) /\
  (forall (B : banded A), s_band_size_below B = Ok (bm1 B)) /\
  (forall (B : banded A), s_band_size_above B = Ok (bm2 B)) /\
  (forall (B : banded A), s_band_compact B = Ok (compact B)) /\
  (forall (B : banded A), s_band_neg_val B = band_neg B) /\
  (forall (B C : banded A), s_band_add_val B C = band_add B C) /\
  (forall (B C : banded A), s_band_sub_val B C = band_sub B C) /\
  (forall (B : banded A) (x : T A), s_band_scale_val B x = band_scale B x) /\
  (forall (B : banded A) (x : T A), s_band_div_val B x = band_div B x) /\
  (forall (B C : banded A), s_band_add_assign_val B C = band_add_assign B C) /\
  (forall (B C : banded A), s_band_sub_assign_val B C = band_sub_assign B C) /\
  (forall (B : banded A) (v : list (T A)), s_band_mul_val B v = band_mul B v).
Lemma model_is_source_WrapBanded_lemma : model_is_source_WrapBanded.
Proof. exact (conj src_band_empty (conj src_band_size (conj src_band_size_below (conj src_band_size_above (conj src_band_compact (conj src_band_neg_val (conj src_band_add_val (conj src_band_sub_val (conj src_band_scale_val (conj src_band_div_val (conj src_band_add_assign_val (conj src_band_sub_assign_val src_band_mul_val)))))))))))). Qed.

End SrcEqWrapBanded.
