(* Proofs/Round2Mesh.v -- package round2, item 4 (C15/C19 exactness at binary64, part 2): Mesh1D<f64,f64>::trapezium.
   C19 says of the quadrature tests: "integer-valued, so f64 results are exact".  Here, for the model's trapezium1 at
   the primitive-float instance AF with the literal 0.5: if the node coordinates are dyadic on a common exponent
   (x_k = X_k 2^e, X_k integers -- e = 0: integer nodes) and the nodal data are dyadic on a common exponent
   (f_k = F_k 2^g -- g = 0: integer-valued data), every cell width, every F_k + F_{k+1} and the running sum of the
   |numerators| stay below 2^53, then NO operation of the loop rounds: the result is finite and its real value is
   exactly (1/2) Sum_k (x_{k+1} - x_k)(f_k + f_{k+1}), the value of the rule over the reals (Proofs/MeshQuad.v).
   The same for Mesh2D::trapezium (trapezium2 with the literal 0.25): coordinates X_i 2^ex, Y_j 2^ey, data F_ij 2^g.
   Built on the dyadic invariant Dy of Proofs/Round2Lin.v. *)
From Coq Require Import ZArith Reals Floats Lia Lra List Bool Arith.
From Flocq Require Import Core.Core IEEE754.BinarySingleNaN IEEE754.PrimFloat.
From OV Require Import Base.Panic Base.Arith Model.Vector Model.Mesh Inst.FloatInst Proofs.MeshBase Proofs.MeshQuad
                       Proofs.ParDotFloat Proofs.ComplexRound Proofs.Round2Lin.
Import ListNotations.
Local Open Scope Z_scope.

(* integer shadows: sum of the cell numerators and of their absolute values *)
Fixpoint zsum_n (n : nat) (f : nat -> Z) : Z := match n with O => 0 | S n' => zsum_n n' f + f n' end.

Lemma zsum_n_abs n f : Z.abs (zsum_n n f) <= zsum_n n (fun k => Z.abs (f k)).
Proof. induction n as [|n IH]; cbn [zsum_n]; lia. Qed.
Lemma zsum_n_abs_mono n n' f : (n <= n')%nat -> zsum_n n (fun k => Z.abs (f k)) <= zsum_n n' (fun k => Z.abs (f k)).
Proof. induction 1; cbn [zsum_n]; lia. Qed.

Lemma Dy_half : Dy 0.5%float 1 (-1).
Proof. dyw. Qed.

Lemma var_at_okF (vs : list (list PrimFloat.float)) nv k var :
  Forall (fun r => length r = nv) vs -> (k < length vs)%nat -> (var < nv)%nat ->
  @var_at AF vs k var = Ok (nth var (nth k vs []) 0%float).
Proof.
  intros HF Hk Hv. unfold var_at. change (T AF) with PrimFloat.float. rewrite (rd_ok vs k []) by exact Hk. cbn [bind].
  apply rd_ok. rewrite Forall_forall in HF. rewrite (HF (nth k vs [])); auto.
  apply nth_In; exact Hk.
Qed.

Definition nodeF (m : mesh1 AF PrimFloat.float) (k : nat) : PrimFloat.float := nth k (m1_nodes m) 0%float.
Definition valF (m : mesh1 AF PrimFloat.float) (var k : nat) : PrimFloat.float :=
  nth var (nth k (m1_vars m) []) 0%float.

Section Trap1F.
Variable m : mesh1 AF PrimFloat.float.
Variable var : nat.
Notation xs := (nodeF m).
Notation v := (valF m var).

Lemma trap1_cell_okF half k :
  wf1 m -> (var < m1_nvars m)%nat -> (k + 1 < length (m1_nodes m))%nat ->
  trap1_cell (A := AF) half m var k = Ok (half * (xs (k + 1)%nat - xs k) * (v k + v (k + 1)%nat))%float.
Proof.
  intros [Hlen HF] Hv Hk. unfold trap1_cell. change (T AF) with PrimFloat.float in *.
  rewrite (rd_ok (m1_nodes m) (k + 1) 0%float) by exact Hk. cbn [bind].
  rewrite (rd_ok (m1_nodes m) k 0%float) by lia. cbn [bind].
  rewrite (var_at_okF _ (m1_nvars m)); [|exact HF|lia|exact Hv]. cbn [bind].
  rewrite (var_at_okF _ (m1_nvars m)); [|exact HF|lia|exact Hv]. cbn [bind].
  reflexivity.
Qed.

Variables (X F : nat -> Z) (e g : Z).
Notation cz := (fun k => (X (k + 1)%nat - X k) * (F k + F (k + 1)%nat)).

Lemma trap1_cell_dy k :
  Dy (xs k) (X k) e -> Dy (xs (k + 1)%nat) (X (k + 1)%nat) e ->
  Dy (v k) (F k) g -> Dy (v (k + 1)%nat) (F (k + 1)%nat) g ->
  -1073 <= e <= 971 -> -1074 <= g <= 971 -> -1073 <= e + g <= 972 ->
  Z.abs (X (k + 1)%nat - X k) < 2 ^ 53 -> Z.abs (F k + F (k + 1)%nat) < 2 ^ 53 ->
  Z.abs (cz k) < 2 ^ 53 ->
  Dy (0.5 * (xs (k + 1)%nat - xs k) * (v k + v (k + 1)%nat))%float (cz k) (e + g - 1).
Proof.
  intros D0 D1 V0 V1 He Hg Heg Hdx Hs Hc.
  assert (Dd : Dy (xs (k + 1)%nat - xs k)%float (X (k + 1)%nat - X k) e)
    by (apply Dy_sub; auto; unfold erange; lia).
  assert (Dh : Dy (0.5 * (xs (k + 1)%nat - xs k))%float (1 * (X (k + 1)%nat - X k)) (-1 + e))
    by (apply Dy_mul; [exact Dy_half|exact Dd|lia|unfold erange; lia]).
  assert (Ds : Dy (v k + v (k + 1)%nat)%float (F k + F (k + 1)%nat) g)
    by (apply Dy_add; auto; unfold erange; lia).
  replace (e + g - 1) with (-1 + e + g) by lia.
  replace (cz k) with (1 * (X (k + 1)%nat - X k) * (F k + F (k + 1)%nat)) by (cbv beta; ring).
  apply Dy_mul; auto; [|unfold erange; lia].
  replace (1 * (X (k + 1)%nat - X k) * (F k + F (k + 1)%nat)) with (cz k) by (cbv beta; ring). exact Hc.
Qed.

(* C19: dyadic node coordinates X_k 2^e and dyadic nodal data F_k 2^g (integer-valued: g = 0): every operation of
   Mesh1D::trapezium is exact, the result is the exact rational value of the rule *)
Lemma trapezium1_dyadic_exact :
  wf1 m -> (var < m1_nvars m)%nat -> (1 <= length (m1_nodes m))%nat ->
  (forall k, (k < length (m1_nodes m))%nat -> Dy (xs k) (X k) e) ->
  (forall k, (k < length (m1_nodes m))%nat -> Dy (v k) (F k) g) ->
  -1073 <= e <= 971 -> -1074 <= g <= 971 -> -1073 <= e + g <= 972 ->
  (forall k, (k + 1 < length (m1_nodes m))%nat -> Z.abs (X (k + 1)%nat - X k) < 2 ^ 53) ->
  (forall k, (k + 1 < length (m1_nodes m))%nat -> Z.abs (F k + F (k + 1)%nat) < 2 ^ 53) ->
  zsum_n (length (m1_nodes m) - 1) (fun k => Z.abs (cz k)) < 2 ^ 53 ->
  exists r, trapezium1 (A := AF) 0.5%float m var = Ok r /\
            Dy r (zsum_n (length (m1_nodes m) - 1) cz) (e + g - 1).
Proof.
  intros Hwf Hv Hn HX HF He Hg Heg Hdx Hs Hb.
  unfold trapezium1, usub. change (T AF) with PrimFloat.float in *.
  destruct (Nat.leb_spec 1 (length (m1_nodes m))) as [_|]; [|lia]. cbn [bind].
  set (N := (length (m1_nodes m) - 1)%nat) in *.
  apply (for_inv (fun i s => Dy s (zsum_n i cz) (e + g - 1)) 0 N).
  - lia.
  - apply Dy_zero.
  - intros i s Hi Ds. rewrite trap1_cell_okF by (auto; lia). cbn [bind].
    eexists; split; [reflexivity|]. cbn [zsum_n].
    pose proof (zsum_n_abs_mono (S i) N cz ltac:(lia)) as M. cbn [zsum_n] in M.
    pose proof (zsum_n_abs i cz) as A1. pose proof (Z.abs_nonneg (zsum_n i cz)) as A0. cbv beta in *.
    apply Dy_add; [exact Ds| | |unfold erange; lia].
    + apply trap1_cell_dy; auto; try (apply HX; lia); try (apply HF; lia); try (apply Hdx; lia); try (apply Hs; lia).
      lia.
    + lia.
Qed.
End Trap1F.

Local Open Scope R_scope.

Lemma cell_value_R (X0 X1 F0 F1 e g : Z) :
  IZR ((X1 - X0) * (F0 + F1)) * bpow radix2 (e + g - 1) =
  / 2 * (IZR X1 * bpow radix2 e - IZR X0 * bpow radix2 e) * (IZR F0 * bpow radix2 g + IZR F1 * bpow radix2 g).
Proof.
  rewrite mult_IZR, minus_IZR, plus_IZR. unfold Zminus. rewrite !bpow_plus.
  change (bpow radix2 (- (1))) with (/ 2). ring.
Qed.

(* C19 ("integer-valued, so f64 results are exact"), Mesh1D::trapezium at binary64 *)
Lemma trapezium_exact_float_lemma (m : mesh1 AF PrimFloat.float) (var : nat) (X F : nat -> Z) (e g : Z) :
  let n := length (m1_nodes m) in
  let x := fun k => nth k (m1_nodes m) 0%float in
  let f := fun k => nth var (nth k (m1_vars m) []) 0%float in
  let c := fun k => ((X (k + 1)%nat - X k) * (F k + F (k + 1)%nat))%Z in
  wf1 m -> (var < m1_nvars m)%nat -> (1 <= n)%nat ->
  (forall k, (k < n)%nat -> ffinite (x k) /\ FR (x k) = IZR (X k) * bpow radix2 e) ->
  (forall k, (k < n)%nat -> ffinite (f k) /\ FR (f k) = IZR (F k) * bpow radix2 g) ->
  (-1073 <= e <= 971)%Z -> (-1074 <= g <= 971)%Z -> (-1073 <= e + g <= 972)%Z ->
  (forall k, (k + 1 < n)%nat -> (Z.abs (X (k + 1)%nat - X k) < 2 ^ 53)%Z) ->
  (forall k, (k + 1 < n)%nat -> (Z.abs (F k + F (k + 1)%nat) < 2 ^ 53)%Z) ->
  (zsum_n (n - 1) (fun k => Z.abs (c k)) < 2 ^ 53)%Z ->
  exists r, trapezium1 (A := AF) 0.5%float m var = Ok r /\ ffinite r /\
            FR r = sumR (n - 1) (fun k => / 2 * (FR (x (k + 1)%nat) - FR (x k)) * (FR (f k) + FR (f (k + 1)%nat))) /\
            FR r = IZR (zsum_n (n - 1) c) * bpow radix2 (e + g - 1).
Proof.
  intros n x f c Hwf Hv Hn HX HF He Hg Heg Hdx Hs Hb.
  destruct (trapezium1_dyadic_exact m var X F e g Hwf Hv Hn HX HF He Hg Heg Hdx Hs Hb) as (r & E & Fr & Rr).
  exists r. split; [exact E|]. split; [exact Fr|]. split; [|exact Rr].
  unfold FR at 1. rewrite Rr. fold n. fold c.
  assert (G : forall j, (j <= n - 1)%nat ->
     IZR (zsum_n j c) * bpow radix2 (e + g - 1) =
     sumR j (fun k => / 2 * (FR (x (k + 1)%nat) - FR (x k)) * (FR (f k) + FR (f (k + 1)%nat)))).
  { induction j as [|j IH]; intros Hj.
    - cbn [zsum_n]. rewrite sumR_0. ring.
    - cbn [zsum_n]. rewrite sumR_S, <- IH by lia. rewrite plus_IZR, Rmult_plus_distr_r. f_equal.
      destruct (HX j ltac:(lia)) as [_ ->]. destruct (HX (j + 1)%nat ltac:(lia)) as [_ ->].
      destruct (HF j ltac:(lia)) as [_ ->]. destruct (HF (j + 1)%nat ltac:(lia)) as [_ ->].
      apply cell_value_R. }
  apply G. lia.
Qed.

(* ---------------------------------------------------------------- non-vacuity: nodes on the grid 2^-2, integer data *)
Definition ex_tmesh : mesh1 AF PrimFloat.float :=
  mkM1 (A := AF) 1 [0; 0.25; 0.75; 2]%float [[3]; [-5]; [7]; [2]]%float.
Definition ex_tX (k : nat) : Z := nth k [0; 1; 3; 8]%Z 0%Z.
Definition ex_tF (k : nat) : Z := nth k [3; -5; 7; 2]%Z 0%Z.

Lemma Dy_unfold x m e : Dy x m e -> ffinite x /\ FR x = IZR m * bpow radix2 e.
Proof. exact (fun H => H). Qed.
Lemma ex_tmesh_wf : wf1 ex_tmesh.
Proof. split; [reflexivity|repeat constructor]. Qed.
Lemma ex_tmesh_nodes k : (k < 4)%nat ->
  ffinite (nth k (m1_nodes ex_tmesh) 0%float) /\ FR (nth k (m1_nodes ex_tmesh) 0%float) = IZR (ex_tX k) * bpow radix2 (-2).
Proof. intros Hk. do 4 (destruct k as [|k]; [apply Dy_unfold; cbn; dyw|]). lia. Qed.
Lemma ex_tmesh_vals k : (k < 4)%nat ->
  ffinite (nth 0 (nth k (m1_vars ex_tmesh) []) 0%float) /\
  FR (nth 0 (nth k (m1_vars ex_tmesh) []) 0%float) = IZR (ex_tF k) * bpow radix2 0.
Proof. intros Hk. do 4 (destruct k as [|k]; [apply Dy_unfold; cbn; dyw|]). lia. Qed.
Lemma ex_tmesh_dx k : (k + 1 < 4)%nat -> (Z.abs (ex_tX (k + 1) - ex_tX k) < 2 ^ 53)%Z.
Proof. intros Hk. do 3 (destruct k as [|k]; [cbn; lia|]). lia. Qed.
Lemma ex_tmesh_df k : (k + 1 < 4)%nat -> (Z.abs (ex_tF k + ex_tF (k + 1)) < 2 ^ 53)%Z.
Proof. intros Hk. do 3 (destruct k as [|k]; [cbn; lia|]). lia. Qed.
Example ex_tmesh_value : trapezium1 (A := AF) 0.5%float ex_tmesh 0 = Ok 5.875%float.
Proof. vm_compute. reflexivity. Qed.

(* ================================================================ Mesh2D::trapezium at binary64 *)
Local Open Scope Z_scope.
Lemma zsum_n_abs_nonneg n f : 0 <= zsum_n n (fun k => Z.abs (f k)).
Proof. induction n as [|n IH]; cbn [zsum_n]; lia. Qed.

Lemma zsum_n_mono_nonneg f a b : (forall k, 0 <= f k) -> (a <= b)%nat -> zsum_n a f <= zsum_n b f.
Proof. intros H. induction 1 as [|b Hab IH]; cbn [zsum_n]; [lia|]. specialize (H b). lia. Qed.

(* a loop whose every iteration adds an exactly-held term to an exactly-held running sum *)
Lemma for_sum_dy (body : nat -> PrimFloat.float -> res PrimFloat.float) (cf : nat -> PrimFloat.float) (cz : nat -> Z)
  (N : nat) (s0 : PrimFloat.float) (A E : Z) :
  erange E ->
  (forall k s, (k < N)%nat -> body k s = Ok (s + cf k)%float) ->
  (forall k, (k < N)%nat -> Dy (cf k) (cz k) E) ->
  Dy s0 A E -> Z.abs A + zsum_n N (fun k => Z.abs (cz k)) < 2 ^ 53 ->
  exists r, for_ 0 N body s0 = Ok r /\ Dy r (A + zsum_n N cz) E.
Proof.
  intros HE Hbody Hc Hs Hb.
  apply (for_inv (fun i s => Dy s (A + zsum_n i cz) E) 0 N).
  - lia.
  - cbn [zsum_n]. now rewrite Z.add_0_r.
  - intros i s Hi Ds. rewrite Hbody by lia. eexists; split; [reflexivity|]. cbn [zsum_n].
    rewrite Z.add_assoc. apply Dy_add; auto; [apply Hc; lia|].
    pose proof (zsum_n_abs_mono (S i) N cz ltac:(lia)) as M. cbn [zsum_n] in M.
    pose proof (zsum_n_abs i cz) as A1. cbv beta in *. lia.
Qed.

Lemma Dy_quarter : Dy 0.25%float 1 (-2).
Proof. dyw. Qed.

Definition nodexF (m : mesh2 AF PrimFloat.float) (i : nat) : PrimFloat.float := nth i (m2_x m) 0%float.
Definition nodeyF (m : mesh2 AF PrimFloat.float) (j : nat) : PrimFloat.float := nth j (m2_y m) 0%float.
Definition valF2 (m : mesh2 AF PrimFloat.float) (var i j : nat) : PrimFloat.float :=
  nth var (nth (i * m2_ny m + j) (m2_vars m) []) 0%float.
Definition cellF2 (m : mesh2 AF PrimFloat.float) (var i j : nat) : PrimFloat.float :=
  (0.25 * (nodexF m (i + 1) - nodexF m i) * (nodeyF m (j + 1) - nodeyF m j)
   * (valF2 m var i j + valF2 m var (i + 1) j + valF2 m var i (j + 1) + valF2 m var (i + 1) (j + 1)))%float.

Section Trap2F.
Variable m : mesh2 AF PrimFloat.float.
Variable var : nat.

Lemma trap2_cell_okF i j :
  wf2 m -> (var < m2_nvars m)%nat -> (i + 1 < m2_nx m)%nat -> (j + 1 < m2_ny m)%nat ->
  @trap2_cell AF 0.25%float (fun v => v) m var i j (nodexF m (i + 1) - nodexF m i)%float = Ok (cellF2 m var i j).
Proof.
  intros (Hx & Hy & Hlen & HF) Hv Hi Hj. unfold trap2_cell. change (T AF) with PrimFloat.float in *.
  rewrite (rd_ok (m2_y m) (j + 1) 0%float) by lia. cbn [bind].
  rewrite (rd_ok (m2_y m) j 0%float) by lia. cbn [bind].
  assert (Hb : ((i + 1) * m2_ny m + j + 1 < length (m2_vars m))%nat) by (change (T AF) with PrimFloat.float; rewrite Hlen; nia).
  change (T AF) with PrimFloat.float in Hb.
  rewrite (var_at_okF _ (m2_nvars m)); [|exact HF|nia|exact Hv]. cbn [bind].
  rewrite (var_at_okF _ (m2_nvars m)); [|exact HF|nia|exact Hv]. cbn [bind].
  rewrite (var_at_okF _ (m2_nvars m)); [|exact HF|nia|exact Hv]. cbn [bind].
  rewrite (var_at_okF _ (m2_nvars m)); [|exact HF|nia|exact Hv]. cbn [bind].
  unfold cellF2, valF2, nodeyF.
  replace (i * m2_ny m + (j + 1))%nat with (i * m2_ny m + j + 1)%nat by lia.
  replace ((i + 1) * m2_ny m + (j + 1))%nat with ((i + 1) * m2_ny m + j + 1)%nat by lia.
  reflexivity.
Qed.

Variables (X Y : nat -> Z) (F : nat -> nat -> Z) (ex ey g : Z).
Let Sz (i j : nat) : Z := F i j + F (i + 1)%nat j + F i (j + 1)%nat + F (i + 1)%nat (j + 1)%nat.
Let cz (i j : nat) : Z := (X (i + 1)%nat - X i) * (Y (j + 1)%nat - Y j) * Sz i j.

Hypothesis Hwf : wf2 m.
Hypothesis Hv : (var < m2_nvars m)%nat.
Hypothesis HX : forall i, (i < m2_nx m)%nat -> Dy (nodexF m i) (X i) ex.
Hypothesis HY : forall j, (j < m2_ny m)%nat -> Dy (nodeyF m j) (Y j) ey.
Hypothesis HF : forall i j, (i < m2_nx m)%nat -> (j < m2_ny m)%nat -> Dy (valF2 m var i j) (F i j) g.
Hypothesis Hex : -1072 <= ex <= 971.
Hypothesis Hey : -1074 <= ey <= 971.
Hypothesis Hg : -1074 <= g <= 971.
Hypothesis Hxy : -1072 <= ex + ey <= 973.
Hypothesis Hxyg : -1072 <= ex + ey + g <= 973.
Hypothesis Hdx : forall i, (i + 1 < m2_nx m)%nat -> Z.abs (X (i + 1)%nat - X i) < 2 ^ 53.
Hypothesis Hdy : forall j, (j + 1 < m2_ny m)%nat -> Z.abs (Y (j + 1)%nat - Y j) < 2 ^ 53.
Hypothesis Hdxy : forall i j, (i + 1 < m2_nx m)%nat -> (j + 1 < m2_ny m)%nat ->
  Z.abs ((X (i + 1)%nat - X i) * (Y (j + 1)%nat - Y j)) < 2 ^ 53.
Hypothesis HS : forall i j, (i + 1 < m2_nx m)%nat -> (j + 1 < m2_ny m)%nat ->
  Z.abs (F i j + F (i + 1)%nat j) < 2 ^ 53 /\ Z.abs (F i j + F (i + 1)%nat j + F i (j + 1)%nat) < 2 ^ 53 /\
  Z.abs (Sz i j) < 2 ^ 53.

Lemma cellF2_dy i j : (i + 1 < m2_nx m)%nat -> (j + 1 < m2_ny m)%nat -> Z.abs (cz i j) < 2 ^ 53 ->
  Dy (cellF2 m var i j) (cz i j) (ex + ey + g - 2).
Proof.
  intros Hi Hj Hc. unfold cellF2. destruct (HS i j Hi Hj) as (S1 & S2 & S3).
  assert (Ddx : Dy (nodexF m (i + 1) - nodexF m i)%float (X (i + 1)%nat - X i) ex)
    by (apply Dy_sub; [apply HX; lia|apply HX; lia|now apply Hdx|unfold erange; lia]).
  assert (Ddy : Dy (nodeyF m (j + 1) - nodeyF m j)%float (Y (j + 1)%nat - Y j) ey)
    by (apply Dy_sub; [apply HY; lia|apply HY; lia|now apply Hdy|unfold erange; lia]).
  assert (Dq : Dy (0.25 * (nodexF m (i + 1) - nodexF m i))%float (1 * (X (i + 1)%nat - X i)) (-2 + ex)).
  { apply Dy_mul; [exact Dy_quarter|exact Ddx| |unfold erange; lia]. rewrite Z.mul_1_l. now apply Hdx. }
  assert (Dqq : Dy (0.25 * (nodexF m (i + 1) - nodexF m i) * (nodeyF m (j + 1) - nodeyF m j))%float
                  (1 * (X (i + 1)%nat - X i) * (Y (j + 1)%nat - Y j)) (-2 + ex + ey)).
  { apply Dy_mul; [exact Dq|exact Ddy| |unfold erange; lia]. rewrite Z.mul_1_l. now apply Hdxy. }
  assert (D1 : Dy (valF2 m var i j + valF2 m var (i + 1) j)%float (F i j + F (i + 1)%nat j) g)
    by (apply Dy_add; [apply HF; lia|apply HF; lia|exact S1|unfold erange; lia]).
  assert (D2 : Dy (valF2 m var i j + valF2 m var (i + 1) j + valF2 m var i (j + 1))%float
                  (F i j + F (i + 1)%nat j + F i (j + 1)%nat) g)
    by (apply Dy_add; [exact D1|apply HF; lia|exact S2|unfold erange; lia]).
  assert (D3 : Dy (valF2 m var i j + valF2 m var (i + 1) j + valF2 m var i (j + 1) + valF2 m var (i + 1) (j + 1))%float
                  (Sz i j) g)
    by (apply Dy_add; [exact D2|apply HF; lia|exact S3|unfold erange; lia]).
  replace (ex + ey + g - 2) with (-2 + ex + ey + g) by lia.
  replace (cz i j) with (1 * (X (i + 1)%nat - X i) * (Y (j + 1)%nat - Y j) * Sz i j) by (unfold cz; ring).
  apply Dy_mul; [exact Dqq|exact D3| |unfold erange; lia].
  replace (1 * (X (i + 1)%nat - X i) * (Y (j + 1)%nat - Y j) * Sz i j) with (cz i j) by (unfold cz; ring). exact Hc.
Qed.

Notation NX := (m2_nx m - 1)%nat.
Notation NY := (m2_ny m - 1)%nat.
Let rowabs (i : nat) : Z := zsum_n NY (fun j => Z.abs (cz i j)).

Lemma trapezium2_dyadic_exact :
  (1 <= m2_nx m)%nat -> (1 <= m2_ny m)%nat ->
  zsum_n NX rowabs < 2 ^ 53 ->
  exists r, trapezium2 (A := AF) 0.25%float m var = Ok r /\
            Dy r (zsum_n NX (fun i => zsum_n NY (cz i))) (ex + ey + g - 2).
Proof.
  intros Hnx Hny Hb. pose proof Hwf as (Hx & Hy & Hlen & HFl).
  unfold trapezium2, trap2_gen, usub. change (T AF) with PrimFloat.float in *.
  destruct (Nat.leb_spec 1 (m2_nx m)) as [_|]; [|lia]. cbn [bind].
  apply (for_inv (fun i s => Dy s (zsum_n i (fun i' => zsum_n NY (cz i'))) (ex + ey + g - 2)) 0 NX).
  - lia.
  - apply Dy_zero.
  - intros i s Hi Ds.
    rewrite (rd_ok (m2_x m) (i + 1) 0%float) by lia. cbn [bind].
    rewrite (rd_ok (m2_x m) i 0%float) by lia. cbn [bind].
    destruct (Nat.leb_spec 1 (m2_ny m)) as [_|]; [|lia]. cbn [bind]. cbn [zsum_n].
    assert (R0 : forall i', 0 <= rowabs i') by (intros i'; apply zsum_n_abs_nonneg).
    pose proof (zsum_n_mono_nonneg rowabs (S i) NX R0 ltac:(lia)) as Mi. cbn [zsum_n] in Mi.
    assert (R1 : 0 <= zsum_n i rowabs) by (apply (zsum_n_mono_nonneg rowabs 0 i R0); lia).
    assert (Ai : Z.abs (zsum_n i (fun i' => zsum_n NY (cz i'))) <= zsum_n i rowabs).
    { clear. induction i as [|i IH]; cbn [zsum_n]; [lia|]. pose proof (zsum_n_abs NY (cz i)). unfold rowabs at 2. lia. }
    apply for_sum_dy with (cf := cellF2 m var i); auto.
    + unfold erange; lia.
    + intros j t Hj. change (@sub AF) with PrimFloat.sub.
      pose proof (trap2_cell_okF i j Hwf Hv ltac:(lia) ltac:(lia)) as E.
      unfold nodexF in E at 1 2. change (T AF) with PrimFloat.float in E. rewrite E. reflexivity.
    + intros j Hj. apply cellF2_dy; try lia.
      pose proof (zsum_n_abs_mono (S j) NY (cz i) ltac:(lia)) as M. cbn [zsum_n] in M.
      pose proof (zsum_n_abs_nonneg j (cz i)). unfold rowabs in Mi at 2. lia.
    + unfold rowabs in Mi at 2. lia.
Qed.
End Trap2F.

Local Open Scope R_scope.

Lemma cell2_value_R (X0 X1 Y0 Y1 F00 F10 F01 F11 ex ey g : Z) :
  IZR ((X1 - X0) * (Y1 - Y0) * (F00 + F10 + F01 + F11)) * bpow radix2 (ex + ey + g - 2) =
  / 4 * (IZR X1 * bpow radix2 ex - IZR X0 * bpow radix2 ex) * (IZR Y1 * bpow radix2 ey - IZR Y0 * bpow radix2 ey)
  * (IZR F00 * bpow radix2 g + IZR F10 * bpow radix2 g + IZR F01 * bpow radix2 g + IZR F11 * bpow radix2 g).
Proof.
  rewrite !mult_IZR, !minus_IZR, !plus_IZR. unfold Zminus. rewrite !bpow_plus.
  change (bpow radix2 (- (2))) with (/ 4). ring.
Qed.

Lemma zsum_sumR_ext n (cz : nat -> Z) (B : R) (f : nat -> R) :
  (forall k, (k < n)%nat -> IZR (cz k) * B = f k) -> IZR (zsum_n n cz) * B = sumR n f.
Proof.
  induction n as [|n IH]; intros H.
  - cbn [zsum_n]. rewrite sumR_0. ring.
  - cbn [zsum_n]. rewrite sumR_S, <- IH by (intros; apply H; lia). rewrite plus_IZR, Rmult_plus_distr_r. f_equal.
    apply H. lia.
Qed.

(* C19, Mesh2D::trapezium at binary64: node coordinates X_i 2^ex, Y_j 2^ey, nodal data F_ij 2^g *)
Lemma trapezium2_exact_float_lemma (m : mesh2 AF PrimFloat.float) (var : nat) (X Y : nat -> Z) (F : nat -> nat -> Z)
  (ex ey g : Z) :
  let nx := m2_nx m in let ny := m2_ny m in
  let x := fun i => nth i (m2_x m) 0%float in
  let y := fun j => nth j (m2_y m) 0%float in
  let f := fun i j => nth var (nth (i * m2_ny m + j) (m2_vars m) []) 0%float in
  let c := fun i j => ((X (i + 1)%nat - X i) * (Y (j + 1)%nat - Y j)
                       * (F i j + F (i + 1)%nat j + F i (j + 1)%nat + F (i + 1)%nat (j + 1)%nat))%Z in
  wf2 m -> (var < m2_nvars m)%nat -> (1 <= nx)%nat -> (1 <= ny)%nat ->
  (forall i, (i < nx)%nat -> ffinite (x i) /\ FR (x i) = IZR (X i) * bpow radix2 ex) ->
  (forall j, (j < ny)%nat -> ffinite (y j) /\ FR (y j) = IZR (Y j) * bpow radix2 ey) ->
  (forall i j, (i < nx)%nat -> (j < ny)%nat -> ffinite (f i j) /\ FR (f i j) = IZR (F i j) * bpow radix2 g) ->
  (-1072 <= ex <= 971)%Z -> (-1074 <= ey <= 971)%Z -> (-1074 <= g <= 971)%Z ->
  (-1072 <= ex + ey <= 973)%Z -> (-1072 <= ex + ey + g <= 973)%Z ->
  (forall i, (i + 1 < nx)%nat -> (Z.abs (X (i + 1)%nat - X i) < 2 ^ 53)%Z) ->
  (forall j, (j + 1 < ny)%nat -> (Z.abs (Y (j + 1)%nat - Y j) < 2 ^ 53)%Z) ->
  (forall i j, (i + 1 < nx)%nat -> (j + 1 < ny)%nat ->
     (Z.abs ((X (i + 1)%nat - X i) * (Y (j + 1)%nat - Y j)) < 2 ^ 53)%Z) ->
  (forall i j, (i + 1 < nx)%nat -> (j + 1 < ny)%nat ->
     (Z.abs (F i j + F (i + 1)%nat j) < 2 ^ 53 /\ Z.abs (F i j + F (i + 1)%nat j + F i (j + 1)%nat) < 2 ^ 53 /\
      Z.abs (F i j + F (i + 1)%nat j + F i (j + 1)%nat + F (i + 1)%nat (j + 1)%nat) < 2 ^ 53)%Z) ->
  (zsum_n (nx - 1) (fun i => zsum_n (ny - 1) (fun j => Z.abs (c i j))) < 2 ^ 53)%Z ->
  exists r, trapezium2 (A := AF) 0.25%float m var = Ok r /\ ffinite r /\
    FR r = sumR (nx - 1) (fun i => sumR (ny - 1) (fun j =>
             / 4 * (FR (x (i + 1)%nat) - FR (x i)) * (FR (y (j + 1)%nat) - FR (y j))
             * (FR (f i j) + FR (f (i + 1)%nat j) + FR (f i (j + 1)%nat) + FR (f (i + 1)%nat (j + 1)%nat)))) /\
    FR r = IZR (zsum_n (nx - 1) (fun i => zsum_n (ny - 1) (c i))) * bpow radix2 (ex + ey + g - 2).
Proof.
  intros nx ny x y f c Hwf Hv Hnx Hny HX HY HF Hex Hey Hg Hxy Hxyg Hdx Hdy Hdxy HS Hb.
  destruct (trapezium2_dyadic_exact m var X Y F ex ey g Hwf Hv HX HY HF Hex Hey Hg Hxy Hxyg Hdx Hdy Hdxy HS Hnx Hny Hb)
    as (r & E & Fr & Rr).
  exists r. split; [exact E|]. split; [exact Fr|]. split; [|exact Rr].
  unfold FR at 1. rewrite Rr. fold nx ny.
  apply zsum_sumR_ext. intros i Hi. apply zsum_sumR_ext. intros j Hj.
  destruct (HX i ltac:(lia)) as [_ ->]. destruct (HX (i + 1)%nat ltac:(lia)) as [_ ->].
  destruct (HY j ltac:(lia)) as [_ ->]. destruct (HY (j + 1)%nat ltac:(lia)) as [_ ->].
  destruct (HF i j ltac:(lia) ltac:(lia)) as [_ ->]. destruct (HF (i + 1)%nat j ltac:(lia) ltac:(lia)) as [_ ->].
  destruct (HF i (j + 1)%nat ltac:(lia) ltac:(lia)) as [_ ->].
  destruct (HF (i + 1)%nat (j + 1)%nat ltac:(lia) ltac:(lia)) as [_ ->].
  apply cell2_value_R.
Qed.

(* ---------------------------------------------------------------- non-vacuity: x in {0, 1/2}, y in {0, 1, 3}, integer data *)
Definition ex_tmesh2 : mesh2 AF PrimFloat.float :=
  mkM2 (A := AF) 1 2 3 [0; 0.5]%float [0; 1; 3]%float [[1]; [4]; [10]; [5]; [16]; [38]]%float.
Definition ex_t2X (i : nat) : Z := nth i [0; 1]%Z 0%Z.
Definition ex_t2Y (j : nat) : Z := nth j [0; 1; 3]%Z 0%Z.
Definition ex_t2F (i j : nat) : Z := nth (i * 3 + j) [1; 4; 10; 5; 16; 38]%Z 0%Z.

Lemma ex_tmesh2_wf : wf2 ex_tmesh2.
Proof. repeat split; repeat constructor. Qed.
Lemma ex_tmesh2_x i : (i < 2)%nat ->
  ffinite (nth i (m2_x ex_tmesh2) 0%float) /\ FR (nth i (m2_x ex_tmesh2) 0%float) = IZR (ex_t2X i) * bpow radix2 (-1).
Proof. intros Hk. do 2 (destruct i as [|i]; [apply Dy_unfold; cbn; dyw|]). lia. Qed.
Lemma ex_tmesh2_y j : (j < 3)%nat ->
  ffinite (nth j (m2_y ex_tmesh2) 0%float) /\ FR (nth j (m2_y ex_tmesh2) 0%float) = IZR (ex_t2Y j) * bpow radix2 0.
Proof. intros Hk. do 3 (destruct j as [|j]; [apply Dy_unfold; cbn; dyw|]). lia. Qed.
Lemma ex_tmesh2_f i j : (i < 2)%nat -> (j < 3)%nat ->
  ffinite (nth 0 (nth (i * m2_ny ex_tmesh2 + j) (m2_vars ex_tmesh2) []) 0%float) /\
  FR (nth 0 (nth (i * m2_ny ex_tmesh2 + j) (m2_vars ex_tmesh2) []) 0%float) = IZR (ex_t2F i j) * bpow radix2 0.
Proof.
  intros Hi Hj. do 2 (destruct i as [|i]; [do 3 (destruct j as [|j]; [apply Dy_unfold; cbn; dyw|]); lia|]). lia.
Qed.
Example ex_tmesh2_value : trapezium2 (A := AF) 0.25%float ex_tmesh2 0 = Ok 20.25%float.
Proof. vm_compute. reflexivity. Qed.
