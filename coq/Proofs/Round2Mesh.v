(* Proofs/Round2Mesh.v -- package round2, item 4 (C15/C19 exactness at binary64, part 2): Mesh1D<f64,f64>::trapezium.
   C19 says of the quadrature tests: "integer-valued, so f64 results are exact".  Here, for the model's trapezium1 at
   the primitive-float instance AF with the literal 0.5: if the node coordinates are dyadic on a common exponent
   (x_k = X_k 2^e, X_k integers -- e = 0: integer nodes) and the nodal data are dyadic on a common exponent
   (f_k = F_k 2^g -- g = 0: integer-valued data), every cell width, every F_k + F_{k+1} and the running sum of the
   |numerators| stay below 2^53, then NO operation of the loop rounds: the result is finite and its real value is
   exactly (1/2) Sum_k (x_{k+1} - x_k)(f_k + f_{k+1}), the value of the rule over the reals (Proofs/MeshQuad.v).
   Built on the dyadic invariant Dy of Proofs/Round2Lin.v. *)
From Coq Require Import ZArith Reals Floats Lia Lra List Bool Arith.
From Flocq Require Import Core.Core IEEE754.BinarySingleNaN IEEE754.PrimFloat.
From OV Require Import Base.Panic Base.Arith Model.Vector Model.Mesh Inst.FloatInst Proofs.MeshBase Proofs.MeshQuad
                       Proofs.ParDotFloat Proofs.ComplexRound Proofs.Round2Lin.
Import ListNotations.
Local Open Scope Z_scope.

(* integer shadows: sum of the cell numerators and of their absolute values *)
Fixpoint zsum_n (n : nat) (f : nat -> Z) : Z := match n with O => 0 | S n' => zsum_n n' f + f n' end.

Lemma zsum_n_abs n f : Z.abs (zsum_n n f) <= zsum_n n (fun k => Z.abs (f k)).
Proof. induction n as [|n IH]; cbn [zsum_n]; lia. Qed.
Lemma zsum_n_abs_mono n n' f : (n <= n')%nat -> zsum_n n (fun k => Z.abs (f k)) <= zsum_n n' (fun k => Z.abs (f k)).
Proof. induction 1; cbn [zsum_n]; lia. Qed.

Lemma Dy_half : Dy 0.5%float 1 (-1).
Proof. dyw. Qed.

Lemma var_at_okF (vs : list (list PrimFloat.float)) nv k var :
  Forall (fun r => length r = nv) vs -> (k < length vs)%nat -> (var < nv)%nat ->
  @var_at AF vs k var = Ok (nth var (nth k vs []) 0%float).
Proof.
  intros HF Hk Hv. unfold var_at. change (T AF) with PrimFloat.float. rewrite (rd_ok vs k []) by exact Hk. cbn [bind].
  apply rd_ok. rewrite Forall_forall in HF. rewrite (HF (nth k vs [])); auto.
  apply nth_In; exact Hk.
Qed.

Definition nodeF (m : mesh1 AF PrimFloat.float) (k : nat) : PrimFloat.float := nth k (m1_nodes m) 0%float.
Definition valF (m : mesh1 AF PrimFloat.float) (var k : nat) : PrimFloat.float :=
  nth var (nth k (m1_vars m) []) 0%float.

Section Trap1F.
Variable m : mesh1 AF PrimFloat.float.
Variable var : nat.
Notation xs := (nodeF m).
Notation v := (valF m var).

Lemma trap1_cell_okF half k :
  wf1 m -> (var < m1_nvars m)%nat -> (k + 1 < length (m1_nodes m))%nat ->
  trap1_cell (A := AF) half m var k = Ok (half * (xs (k + 1)%nat - xs k) * (v k + v (k + 1)%nat))%float.
Proof.
  intros [Hlen HF] Hv Hk. unfold trap1_cell. change (T AF) with PrimFloat.float in *.
  rewrite (rd_ok (m1_nodes m) (k + 1) 0%float) by exact Hk. cbn [bind].
  rewrite (rd_ok (m1_nodes m) k 0%float) by lia. cbn [bind].
  rewrite (var_at_okF _ (m1_nvars m)); [|exact HF|lia|exact Hv]. cbn [bind].
  rewrite (var_at_okF _ (m1_nvars m)); [|exact HF|lia|exact Hv]. cbn [bind].
  reflexivity.
Qed.

Variables (X F : nat -> Z) (e g : Z).
Notation cz := (fun k => (X (k + 1)%nat - X k) * (F k + F (k + 1)%nat)).

Lemma trap1_cell_dy k :
  Dy (xs k) (X k) e -> Dy (xs (k + 1)%nat) (X (k + 1)%nat) e ->
  Dy (v k) (F k) g -> Dy (v (k + 1)%nat) (F (k + 1)%nat) g ->
  -1073 <= e <= 971 -> -1074 <= g <= 971 -> -1073 <= e + g <= 972 ->
  Z.abs (X (k + 1)%nat - X k) < 2 ^ 53 -> Z.abs (F k + F (k + 1)%nat) < 2 ^ 53 ->
  Z.abs (cz k) < 2 ^ 53 ->
  Dy (0.5 * (xs (k + 1)%nat - xs k) * (v k + v (k + 1)%nat))%float (cz k) (e + g - 1).
Proof.
  intros D0 D1 V0 V1 He Hg Heg Hdx Hs Hc.
  assert (Dd : Dy (xs (k + 1)%nat - xs k)%float (X (k + 1)%nat - X k) e)
    by (apply Dy_sub; auto; unfold erange; lia).
  assert (Dh : Dy (0.5 * (xs (k + 1)%nat - xs k))%float (1 * (X (k + 1)%nat - X k)) (-1 + e))
    by (apply Dy_mul; [exact Dy_half|exact Dd|lia|unfold erange; lia]).
  assert (Ds : Dy (v k + v (k + 1)%nat)%float (F k + F (k + 1)%nat) g)
    by (apply Dy_add; auto; unfold erange; lia).
  replace (e + g - 1) with (-1 + e + g) by lia.
  replace (cz k) with (1 * (X (k + 1)%nat - X k) * (F k + F (k + 1)%nat)) by (cbv beta; ring).
  apply Dy_mul; auto; [|unfold erange; lia].
  replace (1 * (X (k + 1)%nat - X k) * (F k + F (k + 1)%nat)) with (cz k) by (cbv beta; ring). exact Hc.
Qed.

(* C19: dyadic node coordinates X_k 2^e and dyadic nodal data F_k 2^g (integer-valued: g = 0): every operation of
   Mesh1D::trapezium is exact, the result is the exact rational value of the rule *)
Lemma trapezium1_dyadic_exact :
  wf1 m -> (var < m1_nvars m)%nat -> (1 <= length (m1_nodes m))%nat ->
  (forall k, (k < length (m1_nodes m))%nat -> Dy (xs k) (X k) e) ->
  (forall k, (k < length (m1_nodes m))%nat -> Dy (v k) (F k) g) ->
  -1073 <= e <= 971 -> -1074 <= g <= 971 -> -1073 <= e + g <= 972 ->
  (forall k, (k + 1 < length (m1_nodes m))%nat -> Z.abs (X (k + 1)%nat - X k) < 2 ^ 53) ->
  (forall k, (k + 1 < length (m1_nodes m))%nat -> Z.abs (F k + F (k + 1)%nat) < 2 ^ 53) ->
  zsum_n (length (m1_nodes m) - 1) (fun k => Z.abs (cz k)) < 2 ^ 53 ->
  exists r, trapezium1 (A := AF) 0.5%float m var = Ok r /\
            Dy r (zsum_n (length (m1_nodes m) - 1) cz) (e + g - 1).
Proof.
  intros Hwf Hv Hn HX HF He Hg Heg Hdx Hs Hb.
  unfold trapezium1, usub. change (T AF) with PrimFloat.float in *.
  destruct (Nat.leb_spec 1 (length (m1_nodes m))) as [_|]; [|lia]. cbn [bind].
  set (N := (length (m1_nodes m) - 1)%nat) in *.
  apply (for_inv (fun i s => Dy s (zsum_n i cz) (e + g - 1)) 0 N).
  - lia.
  - apply Dy_zero.
  - intros i s Hi Ds. rewrite trap1_cell_okF by (auto; lia). cbn [bind].
    eexists; split; [reflexivity|]. cbn [zsum_n].
    pose proof (zsum_n_abs_mono (S i) N cz ltac:(lia)) as M. cbn [zsum_n] in M.
    pose proof (zsum_n_abs i cz) as A1. pose proof (Z.abs_nonneg (zsum_n i cz)) as A0. cbv beta in *.
    apply Dy_add; [exact Ds| | |unfold erange; lia].
    + apply trap1_cell_dy; auto; try (apply HX; lia); try (apply HF; lia); try (apply Hdx; lia); try (apply Hs; lia).
      lia.
    + lia.
Qed.
End Trap1F.

Local Open Scope R_scope.

Lemma cell_value_R (X0 X1 F0 F1 e g : Z) :
  IZR ((X1 - X0) * (F0 + F1)) * bpow radix2 (e + g - 1) =
  / 2 * (IZR X1 * bpow radix2 e - IZR X0 * bpow radix2 e) * (IZR F0 * bpow radix2 g + IZR F1 * bpow radix2 g).
Proof.
  rewrite mult_IZR, minus_IZR, plus_IZR. unfold Zminus. rewrite !bpow_plus.
  change (bpow radix2 (- (1))) with (/ 2). ring.
Qed.

(* C19 ("integer-valued, so f64 results are exact"), Mesh1D::trapezium at binary64 *)
Lemma trapezium_exact_float_lemma (m : mesh1 AF PrimFloat.float) (var : nat) (X F : nat -> Z) (e g : Z) :
  let n := length (m1_nodes m) in
  let x := fun k => nth k (m1_nodes m) 0%float in
  let f := fun k => nth var (nth k (m1_vars m) []) 0%float in
  let c := fun k => ((X (k + 1)%nat - X k) * (F k + F (k + 1)%nat))%Z in
  wf1 m -> (var < m1_nvars m)%nat -> (1 <= n)%nat ->
  (forall k, (k < n)%nat -> ffinite (x k) /\ FR (x k) = IZR (X k) * bpow radix2 e) ->
  (forall k, (k < n)%nat -> ffinite (f k) /\ FR (f k) = IZR (F k) * bpow radix2 g) ->
  (-1073 <= e <= 971)%Z -> (-1074 <= g <= 971)%Z -> (-1073 <= e + g <= 972)%Z ->
  (forall k, (k + 1 < n)%nat -> (Z.abs (X (k + 1)%nat - X k) < 2 ^ 53)%Z) ->
  (forall k, (k + 1 < n)%nat -> (Z.abs (F k + F (k + 1)%nat) < 2 ^ 53)%Z) ->
  (zsum_n (n - 1) (fun k => Z.abs (c k)) < 2 ^ 53)%Z ->
  exists r, trapezium1 (A := AF) 0.5%float m var = Ok r /\ ffinite r /\
            FR r = sumR (n - 1) (fun k => / 2 * (FR (x (k + 1)%nat) - FR (x k)) * (FR (f k) + FR (f (k + 1)%nat))) /\
            FR r = IZR (zsum_n (n - 1) c) * bpow radix2 (e + g - 1).
Proof.
  intros n x f c Hwf Hv Hn HX HF He Hg Heg Hdx Hs Hb.
  destruct (trapezium1_dyadic_exact m var X F e g Hwf Hv Hn HX HF He Hg Heg Hdx Hs Hb) as (r & E & Fr & Rr).
  exists r. split; [exact E|]. split; [exact Fr|]. split; [|exact Rr].
  unfold FR at 1. rewrite Rr. fold n. fold c.
  assert (G : forall j, (j <= n - 1)%nat ->
     IZR (zsum_n j c) * bpow radix2 (e + g - 1) =
     sumR j (fun k => / 2 * (FR (x (k + 1)%nat) - FR (x k)) * (FR (f k) + FR (f (k + 1)%nat)))).
  { induction j as [|j IH]; intros Hj.
    - cbn [zsum_n]. rewrite sumR_0. ring.
    - cbn [zsum_n]. rewrite sumR_S, <- IH by lia. rewrite plus_IZR, Rmult_plus_distr_r. f_equal.
      destruct (HX j ltac:(lia)) as [_ ->]. destruct (HX (j + 1)%nat ltac:(lia)) as [_ ->].
      destruct (HF j ltac:(lia)) as [_ ->]. destruct (HF (j + 1)%nat ltac:(lia)) as [_ ->].
      apply cell_value_R. }
  apply G. lia.
Qed.

(* ---------------------------------------------------------------- non-vacuity: nodes on the grid 2^-2, integer data *)
Definition ex_tmesh : mesh1 AF PrimFloat.float :=
  mkM1 (A := AF) 1 [0; 0.25; 0.75; 2]%float [[3]; [-5]; [7]; [2]]%float.
Definition ex_tX (k : nat) : Z := nth k [0; 1; 3; 8]%Z 0%Z.
Definition ex_tF (k : nat) : Z := nth k [3; -5; 7; 2]%Z 0%Z.

Lemma Dy_unfold x m e : Dy x m e -> ffinite x /\ FR x = IZR m * bpow radix2 e.
Proof. exact (fun H => H). Qed.
Lemma ex_tmesh_wf : wf1 ex_tmesh.
Proof. split; [reflexivity|repeat constructor]. Qed.
Lemma ex_tmesh_nodes k : (k < 4)%nat ->
  ffinite (nth k (m1_nodes ex_tmesh) 0%float) /\ FR (nth k (m1_nodes ex_tmesh) 0%float) = IZR (ex_tX k) * bpow radix2 (-2).
Proof. intros Hk. do 4 (destruct k as [|k]; [apply Dy_unfold; cbn; dyw|]). lia. Qed.
Lemma ex_tmesh_vals k : (k < 4)%nat ->
  ffinite (nth 0 (nth k (m1_vars ex_tmesh) []) 0%float) /\
  FR (nth 0 (nth k (m1_vars ex_tmesh) []) 0%float) = IZR (ex_tF k) * bpow radix2 0.
Proof. intros Hk. do 4 (destruct k as [|k]; [apply Dy_unfold; cbn; dyw|]). lia. Qed.
Lemma ex_tmesh_dx k : (k + 1 < 4)%nat -> (Z.abs (ex_tX (k + 1) - ex_tX k) < 2 ^ 53)%Z.
Proof. intros Hk. do 3 (destruct k as [|k]; [cbn; lia|]). lia. Qed.
Lemma ex_tmesh_df k : (k + 1 < 4)%nat -> (Z.abs (ex_tF k + ex_tF (k + 1)) < 2 ^ 53)%Z.
Proof. intros Hk. do 3 (destruct k as [|k]; [cbn; lia|]). lia. Qed.
Example ex_tmesh_value : trapezium1 (A := AF) 0.5%float ex_tmesh 0 = Ok 5.875%float.
Proof. vm_compute. reflexivity. Qed.
