(* Proofs/SrcEqVecCmplx.v -- src/vector/vec_cmplx.rs (conj, real, norm_inf of Vector<Complex<T>>), regenerated from the source
   of this run as gen/SrcVecCmplx.v, against Model/Vector.v (vconj, vreal) and the loop formulation of the complex infinity
   norm used by the Newton model (Model/Newton.v: norm_inf at NCplx F) -- package C15 (and the callee of C17's vector
   solvers).  The source reads self.vec[i] a second time inside the `if`; the model reads it once. *)
From Coq Require Import List Arith ZArith Lia Bool.
From OV Require Import Base.Panic Base.Arith Model.Complex Model.Vector Model.Matrix Model.Tridiag Model.Newton gen.SrcPrelude gen.SrcVecCmplx Proofs.SrcEqBase.
Import ListNotations.

Section SrcEqVecCmplx.
Context {F : SArith}.
Local Notation A := (SA F).
Local Notation CA := (CArith F).
Local Notation TC := (T (CArith F)).

Lemma tab_map {Y Z} (h : Y -> Z) (z0 : Z) (v : list Y) :
  for_ 0 (length v) (fun i acc => let* x := rd v i in upd acc i (h x)) (repeat z0 (length v)) = Ok (map h v).
Proof.
  unfold for_. rewrite Nat.sub_0_r.
  pose proof (for_from_tab (fun i => let* x := rd v i in Ok (h x)) (repeat z0 (length v)) []) as E.
  rewrite repeat_length in E. cbn [length app] in E.
  rewrite (for_from_ext _ _ _ (fun i acc => let* y := (let* x := rd v i in Ok (h x)) in upd acc i y)).
  2:{ intros i acc _. rewrite bind_assoc. reflexivity. }
  rewrite E, mapM_rd1, mapM_pure. reflexivity.
Qed.

Lemma src_vconj (v : list TC) : s_vconj v = Ok (vconj v).
Proof. unfold s_vconj, vconj. apply (tab_map (fun z : TC => (conj z : TC))). Qed.
Lemma src_vreal (v : list TC) : s_vreal v = Ok (vreal v).
Proof. unfold s_vreal, vreal. apply (tab_map (fun z : TC => re z)). Qed.

Lemma src_cnorm_inf (v : list TC) : s_cnorm_inf v = Newton.norm_inf (NCplx F) v.
Proof.
  unfold s_cnorm_inf, Newton.norm_inf. cbn [NCplx NA NR mag]. apply bind_ext; intros z0.
  apply for_ext; intros i r Hi. destruct (rd v i) as [z|k] eqn:E; cbn [bind]; [|reflexivity].
  destruct (ltb r (sqrt (abs_sqr z))); reflexivity.
Qed.

(* Tridiagonal::<Complex<T>>::conj: the three diagonals through Vector::conj, n unchanged *)
Lemma src_tconj (t : tridiag CA) :
  s_tconj t = Ok (@mkT CA (vconj (tsub t)) (vconj (tmain t)) (vconj (tsup t)) (tn t)).
Proof. reflexivity. Qed.

Definition model_is_source_VecCmplx : Prop :=
  (forall v : list TC, s_vconj v = Ok (vconj v)) /\
  (forall v : list TC, s_vreal v = Ok (vreal v)) /\
  (forall v : list TC, s_cnorm_inf v = Newton.norm_inf (NCplx F) v) /\
  (forall t : tridiag CA, s_tconj t = Ok (@mkT CA (vconj (tsub t)) (vconj (tmain t)) (vconj (tsup t)) (tn t))).
Lemma model_is_source_VecCmplx_lemma : model_is_source_VecCmplx.
Proof. exact (Coq.Init.Logic.conj src_vconj (Coq.Init.Logic.conj src_vreal (Coq.Init.Logic.conj src_cnorm_inf src_tconj))). Qed.

End SrcEqVecCmplx.
