(* Proofs/Newton2Scalar.v -- C17, success half of Newton<f64>::solve (the finite-difference scalar
   solve, Model/Newton.v newton_scalar at the real instance NRl) for a GENERAL differentiable
   function (package newton2).  Hypotheses on f throughout: on [a, b] f has derivative f',
   0 < m <= |f'| <= Mb, f' is L-Lipschitz (L bounds |f''|), r in [a, b] is a root.

   newton_ok_near_root_lemma   "Ok => close":  if the run answers Ok x and the pass that produced x
        started at y = last call point with [y - |delta|, y + |delta|] inside [a, b] then
        |y - r| <= (Mb/m) tol and |x - r| <= (L/m) ((Mb/m) tol) ((Mb/m) tol + |delta|).
   newton_basin_*              "inside the basin => Ok":  from |x0 - r| <= rho with
        q = (L/m)(rho + |delta|) < 1 and the rho + |delta| neighbourhood of r inside [a, b]:
        no panic for any max_iter; the k-th iterate is within q^k |x0 - r| of r; if
        (Mb/m) q^N rho <= tol and N < max_iter the answer is Ok x with the bound above. *)
From Coq Require Import List Arith Lia Reals Lra Psatz.
From OV Require Import Base.Panic Base.Arith Model.Newton
  Proofs.NewtonLoop Proofs.Newton Proofs.NewtonReal Proofs.Newton2Real.
Import ListNotations.
Local Open Scope R_scope.

(* ---- generic: a pass that is total on an invariant set never lets the loop panic ---- *)
Lemma nloop_total {X E} (step : X -> res (X * bool * list E)) (P : X -> Prop) :
  (forall x, P x -> exists x' b e, step x = Ok (x', b, e) /\ P x') ->
  forall n x0 evs0, P x0 -> exists res evs, nloop step n x0 evs0 = Ok (res, evs).
Proof.
  intros Hs. induction n as [|n IH]; intros x0 evs0 H0; cbn [nloop]; [eauto|].
  destruct (Hs x0 H0) as (x' & b & e & Es & P'). rewrite Es. cbn [bind].
  destruct b; [eauto|]. apply IH. exact P'.
Qed.

Lemma last_app3 {Y} (l : list Y) (u v w d : Y) : last (l ++ [u; v; w]) d = w.
Proof.
  change [u; v; w] with ([u; v] ++ [w]). rewrite app_assoc. apply last_last.
Qed.

Lemma R_div_Ok_inv x y q : R_div x y = Ok q -> y <> 0 /\ q = x / y.
Proof.
  unfold R_div. destruct (Req_EM_T y 0); [discriminate|]. intros H; injection H as <-. auto.
Qed.

(* one pass of the scalar solve over R on a total function, both directions *)
Section PassR.
Variable f : R -> R.
Let F (t : R) : res R := Ok (f t).
Definition cdq (y d : R) : R := (f (y + d) - f (y - d)) / (2 * d).      (* central difference quotient *)

Lemma scalar_pass_R tl dl y : dl <> 0 -> cdq y dl <> 0 ->
  scalar_step NRl tl dl F y =
    Ok (y - f y / cdq y dl, R_leb (Rabs (f y / cdq y dl)) tl, [y + dl; y - dl; y]).
Proof.
  intros Hd HD. exact (scalar_step_R tl dl F y _ _ _ eq_refl eq_refl eq_refl Hd HD).
Qed.

Lemma scalar_pass_R_inv tl dl y x' b e :
  scalar_step NRl tl dl F y = Ok (x', b, e) ->
  dl <> 0 /\ cdq y dl <> 0 /\ x' = y - f y / cdq y dl /\
  b = R_leb (Rabs (f y / cdq y dl)) tl /\ e = [y + dl; y - dl; y].
Proof.
  intros H. pose proof (scalar_step_calls NRl _ _ _ _ _ _ _ H) as He.
  apply scalar_step_inv in H as (fp & fm & deriv & fc & dx & Ep & Em & Ed & Ec & Ex & -> & ->).
  unfold F in *. cbn in Ep, Em, Ec. injection Ep as <-. injection Em as <-. injection Ec as <-.
  cbn in Ed. apply R_div_Ok_inv in Ed as [N2 ->].
  cbn in Ex. apply R_div_Ok_inv in Ex as [ND ->].
  replace ((1 + 1) * dl) with (2 * dl) in * by ring.
  fold (cdq y dl) in *.
  assert (dl <> 0) by (intros ->; apply N2; ring).
  repeat split; auto.
Qed.
End PassR.

Section General.
Variables (f f' : R -> R) (a b m Mb L r : R).
Hypothesis Hder : forall c, a <= c <= b -> derivable_pt_lim f c (f' c).
Hypothesis Hm : 0 < m.
Hypothesis HL : 0 <= L.
Hypothesis Hlo : forall c, a <= c <= b -> m <= Rabs (f' c).
Hypothesis Hhi : forall c, a <= c <= b -> Rabs (f' c) <= Mb.
Hypothesis Hlip : forall u v, a <= u <= b -> a <= v <= b -> Rabs (f' u - f' v) <= L * Rabs (u - v).
Hypothesis Hr : a <= r <= b.
Hypothesis Hroot : f r = 0.

Let F (t : R) : res R := Ok (f t).

Lemma ratio_pos : 0 < Mb / m.
Proof. apply Rdiv_lt_0_compat; [exact (Mb_pos f' a b m Mb r Hm Hlo Hhi Hr)|exact Hm]. Qed.

Lemma Lm_nonneg : 0 <= L / m.
Proof. unfold Rdiv. apply Rmult_le_pos; [exact HL|]. left. now apply Rinv_0_lt_compat. Qed.

(* the pass at which the test held *)
Lemma ok_pass_near_root tl dl y x e :
  scalar_step NRl tl dl F y = Ok (x, true, e) ->
  a <= y - Rabs dl -> y + Rabs dl <= b ->
  Rabs (y - r) <= Mb / m * tl /\
  Rabs (x - r) <= L / m * (Mb / m * tl * (Mb / m * tl + Rabs dl)).
Proof.
  intros H Ha Hb. apply scalar_pass_R_inv in H as (Hd & HD & -> & Ht & _).
  symmetry in Ht. apply R_leb_true in Ht.
  destruct (fd_pass_err f f' a b Hder m Mb L r Hm HL Hlo Hhi Hlip Hr Hroot y dl Hd Ha Hb) as (_ & H1 & H2 & H3).
  fold (cdq f y dl) in H1, H2, H3.
  pose proof ratio_pos as Hq. pose proof Lm_nonneg as HLm.
  pose proof (Rabs_pos (y - r)) as HA. pose proof (Rabs_pos dl) as Hdp.
  assert (HT : Rabs (y - r) <= Mb / m * tl).
  { eapply Rle_trans; [exact H3|]. apply Rmult_le_compat_l; lra. }
  split; [exact HT|].
  eapply Rle_trans; [exact H1|]. apply Rmult_le_compat_l; [exact HLm|].
  set (A := Rabs (y - r)) in *. set (T := Mb / m * tl) in *. nra.
Qed.

(* ---- 3. Ok => close to the root ---- *)
Lemma newton_ok_near_root_lemma tl dl n x0 x evs :
  newton_scalar NRl (mkCfg tl dl n x0) F = Ok (NOk x, evs) ->
  a <= last evs 0 - Rabs dl -> last evs 0 + Rabs dl <= b ->
  Rabs (last evs 0 - r) <= Mb / m * tl /\
  Rabs (x - r) <= L / m * (Mb / m * tl * (Mb / m * tl + Rabs dl)).
Proof.
  unfold newton_scalar. cbn [tol delta max_iter guess]. intros H.
  apply nloop_spec in H as [(es & x' & Hx & _)|(k & es & xk & x' & e & Hx & Hk & Rn & P & ->)]; [discriminate|].
  injection Hx as <-. unfold pass in P.
  pose proof (scalar_step_calls NRl _ _ _ _ _ _ _ P) as He. subst e.
  cbn [app]. rewrite last_app3. cbn [emb NRl NReal].
  intros Ha Hb. eapply ok_pass_near_root; eauto.
Qed.

(* ---- 4. the basin ---- *)
Variables (rho tl dl : R).
Hypothesis Hrho : 0 <= rho.
Hypothesis Hdl : dl <> 0.
Hypothesis Hin_a : a <= r - rho - Rabs dl.
Hypothesis Hin_b : r + rho + Rabs dl <= b.
Definition qrate : R := L / m * (rho + Rabs dl).
Hypothesis Hq : qrate < 1.

Lemma qrate_nonneg : 0 <= qrate.
Proof. unfold qrate. apply Rmult_le_pos; [exact Lm_nonneg|]. pose proof (Rabs_pos dl). lra. Qed.

Lemma ball_in y : Rabs (y - r) <= rho -> a <= y - Rabs dl /\ y + Rabs dl <= b.
Proof. intros H. unfold Rabs in H. destruct (Rcase_abs (y - r)); lra. Qed.

(* a pass started inside the ball is total, contracts the error by q, and its step is small *)
Lemma basin_pass y : Rabs (y - r) <= rho ->
  exists x' bt e, scalar_step NRl tl dl F y = Ok (x', bt, e) /\
    Rabs (x' - r) <= qrate * Rabs (y - r) /\ Rabs (x' - r) <= rho /\
    (bt = false -> tl < Mb / m * Rabs (y - r)).
Proof.
  intros Hy. destruct (ball_in y Hy) as [Ha Hb].
  destruct (fd_pass_err f f' a b Hder m Mb L r Hm HL Hlo Hhi Hlip Hr Hroot y dl Hdl Ha Hb) as (HD & H1 & H2 & _).
  fold (cdq f y dl) in HD, H1, H2.
  do 3 eexists. split; [apply scalar_pass_R; auto|].
  pose proof qrate_nonneg as Hq0. pose proof Lm_nonneg as HLm.
  pose proof (Rabs_pos (y - r)) as HA. pose proof (Rabs_pos dl) as Hdp.
  assert (Hc : Rabs (y - f y / cdq f y dl - r) <= qrate * Rabs (y - r)).
  { eapply Rle_trans; [exact H1|]. unfold qrate.
    replace (L / m * (rho + Rabs dl) * Rabs (y - r)) with (L / m * (Rabs (y - r) * (rho + Rabs dl))) by ring.
    apply Rmult_le_compat_l; [exact HLm|]. apply Rmult_le_compat_l; lra. }
  split; [exact Hc|]. split; [nra|].
  intros Hf. apply R_leb_false in Hf. lra.
Qed.

Lemma basin_pass_inv y x' bt e : Rabs (y - r) <= rho ->
  scalar_step NRl tl dl F y = Ok (x', bt, e) ->
  Rabs (x' - r) <= qrate * Rabs (y - r) /\ Rabs (x' - r) <= rho /\
  (bt = false -> tl < Mb / m * Rabs (y - r)).
Proof.
  intros Hy H. destruct (basin_pass y Hy) as (x1 & b1 & e1 & E & H1).
  rewrite E in H. injection H as <- <- _. exact H1.
Qed.

(* no panic, whatever max_iter *)
Lemma newton_basin_total_lemma n x0 : Rabs (x0 - r) <= rho ->
  exists res evs, newton_scalar NRl (mkCfg tl dl n x0) F = Ok (res, evs).
Proof.
  intros H0. unfold newton_scalar. cbn [tol delta max_iter guess].
  apply (nloop_total _ (fun y => Rabs (y - r) <= rho)); [|exact H0].
  intros y Hy. destruct (basin_pass y Hy) as (x' & bt & e & E & _ & H2 & _). eauto.
Qed.

(* linear contraction of the failed passes (the rate q shrinks with the radius: the quadratic
   regime of newton_update_err) *)
Lemma basin_run k x0 xk es :
  run (scalar_step NRl tl dl F) k x0 xk es -> Rabs (x0 - r) <= rho ->
  Rabs (xk - r) <= qrate ^ k * Rabs (x0 - r) /\ Rabs (xk - r) <= rho.
Proof.
  induction 1 as [x|k x x1 xk e es P Rn IH]; intros H0.
  - cbn. lra.
  - destruct (basin_pass_inv _ _ _ _ H0 P) as (H1 & H2 & _).
    destruct (IH H2) as [H3 H4]. split; [|exact H4].
    eapply Rle_trans; [exact H3|]. cbn [pow].
    replace (qrate * qrate ^ k * Rabs (x - r)) with (qrate ^ k * (qrate * Rabs (x - r))) by ring.
    apply Rmult_le_compat_l; [apply pow_le; exact qrate_nonneg|exact H1].
Qed.

Lemma newton_basin_iterates_lemma k x0 xk : Rabs (x0 - r) <= rho ->
  niter (scalar_step NRl tl dl F) k x0 = Ok xk -> Rabs (xk - r) <= qrate ^ k * Rabs (x0 - r).
Proof.
  revert x0. induction k as [|k IH]; intros x0 H0 H; cbn [niter] in H.
  - injection H as <-. cbn. lra.
  - apply bind_ok in H as ([[x1 b1] e1] & E & H). cbn [fst] in H.
    destruct (basin_pass_inv _ _ _ _ H0 E) as (H1 & H2 & _).
    specialize (IH x1 H2 H). eapply Rle_trans; [exact IH|]. cbn [pow].
    replace (qrate * qrate ^ k * Rabs (x0 - r)) with (qrate ^ k * (qrate * Rabs (x0 - r))) by ring.
    apply Rmult_le_compat_l; [apply pow_le; exact qrate_nonneg|exact H1].
Qed.

(* enough passes => Ok, with the distance bound *)
Lemma newton_basin_ok_lemma N n x0 : Rabs (x0 - r) <= rho ->
  Mb / m * (qrate ^ N * rho) <= tl -> (N < n)%nat ->
  exists x evs, newton_scalar NRl (mkCfg tl dl n x0) F = Ok (NOk x, evs) /\
    Rabs (x - r) <= rho /\
    Rabs (x - r) <= L / m * (Mb / m * tl * (Mb / m * tl + Rabs dl)).
Proof.
  intros H0 HN Hn. destruct (newton_basin_total_lemma n x0 H0) as (res & evs & H).
  pose proof H as H'. unfold newton_scalar in H'. cbn [tol delta max_iter guess] in H'.
  apply nloop_spec in H' as [(es & x' & -> & Rn & _)|(k & es & xk & x' & e & -> & Hk & Rn & P & _)].
  - exfalso. destruct (run_prefix _ _ _ _ _ N Rn Hn) as (xj & x1 & e1 & Rj & Pj).
    destruct (basin_run _ _ _ _ Rj H0) as [H1 H2].
    destruct (basin_pass_inv _ _ _ _ H2 Pj) as (_ & _ & Hf). specialize (Hf eq_refl).
    pose proof ratio_pos as Hrp. pose proof (pow_le qrate N qrate_nonneg) as Hqp.
    assert (Rabs (xj - r) <= qrate ^ N * rho).
    { eapply Rle_trans; [exact H1|]. apply Rmult_le_compat_l; auto. }
    assert (Mb / m * Rabs (xj - r) <= Mb / m * (qrate ^ N * rho)) by (apply Rmult_le_compat_l; lra).
    lra.
  - exists x', evs. split; [exact H|].
    destruct (basin_run _ _ _ _ Rn H0) as [_ H2]. unfold pass in P.
    destruct (basin_pass_inv _ _ _ _ H2 P) as (_ & H3 & _). split; [exact H3|].
    destruct (ball_in xk H2) as [Ha Hb].
    exact (proj2 (ok_pass_near_root _ _ _ _ _ P Ha Hb)).
Qed.

(* such an N exists as soon as tol > 0 *)
Lemma basin_N_exists_lemma : 0 < tl -> exists N : nat, Mb / m * (qrate ^ N * rho) <= tl.
Proof.
  intros Ht. pose proof ratio_pos as Hrp. pose proof qrate_nonneg as Hq0.
  destruct (Req_dec rho 0) as [->|Nr].
  - exists 0%nat. rewrite Rmult_0_r, Rmult_0_r. lra.
  - assert (Hpos : 0 < tl / (Mb / m * rho)).
    { apply Rdiv_lt_0_compat; [exact Ht|]. apply Rmult_lt_0_compat; lra. }
    assert (Hqa : Rabs qrate < 1) by (rewrite Rabs_right; lra).
    destruct (pow_lt_1_zero qrate Hqa _ Hpos) as (N & HN).
    exists N. specialize (HN N (Nat.le_refl N)). rewrite Rabs_right in HN by (apply Rle_ge, pow_le; exact Hq0).
    assert (Hc : 0 < Mb / m * rho) by (apply Rmult_lt_0_compat; lra).
    replace (Mb / m * (qrate ^ N * rho)) with (qrate ^ N * (Mb / m * rho)) by ring.
    set (C := Mb / m * rho) in *.
    left. apply (Rmult_lt_compat_r C) in HN; [|exact Hc].
    replace (tl / C * C) with tl in HN by (field; lra). exact HN.
Qed.

End General.
