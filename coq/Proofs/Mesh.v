(* Proofs/Mesh.v -- stub, to be filled in *)
