(* Proofs/ParSched.v -- lemmas about Model/ParSched.v (interleaving semantics of the threaded dot product, C16).

   Method: an invariant [Inv] that relates every reachable state to the per-worker prefixes
     - a running worker k holds exactly the slices of the partition and its accumulator is the sequential dot of
       the first n elements of its slices (n = its loop index);
     - a finished worker holds the dot of its whole slice;
     - main, while joining handle j, holds ((0 + d_0) + ... + d_(j-1)) and the handles < j are consumed;
   and a measure [mu] (the number of steps every thread still has to make) that EVERY transition decreases by
   exactly one.  Any arithmetic: nothing but the definitions of + and * is used (floats included). *)
From Coq Require Import List Arith Lia Permutation.
From OV Require Import Base.Panic Base.Arith Model.Vector Model.ParDot Model.ParSched Proofs.ParDot.
Import ListNotations.

(* ------------------------------------------------------------------ list facts *)
Lemma firstn_S_nth {X} (l : list X) n x : nth_error l n = Some x -> firstn (S n) l = firstn n l ++ [x].
Proof.
  revert n; induction l as [|h tl IH]; intros [|n] H; cbn in *; try discriminate.
  - now injection H as ->.
  - f_equal. now apply IH.
Qed.

Lemma length_concat_sum {X} (l : list (list X)) : length (concat l) = list_sum (map (@length X) l).
Proof. induction l as [|h tl IH]; cbn; auto. rewrite app_length, IH. reflexivity. Qed.

Lemma nth_error_repeat_inv {X} (x y : X) n k : nth_error (repeat x n) k = Some y -> y = x.
Proof. intros H. apply nth_error_In in H. now apply repeat_spec in H. Qed.

Section Sched.
Context {A : Arith}.
Notation T := (T A).
Variables (v w : list T) (t : nat).
Hypothesis Ht : 1 <= t.
Hypothesis Hl : length v = length w.

Notation fire := (fire v w t).
Notation exec := (exec v w t).
Notation terminal := (terminal v w t).
Notation init := (sched_init (A := A) t).

(* d_i: what worker i computes; psum j: what main holds before joining handle j *)
Definition part (i : nat) : T := dot_raw (slice_of v t i) (slice_of w t i).
Definition psum (j : nat) : T := fold_left (fun acc i => add acc (part i)) (seq 0 j) zero.

Lemma psum_S j : psum (S j) = add (psum j) (part j).
Proof. unfold psum. rewrite seq_S, fold_left_app. reflexivity. Qed.

Lemma pardot_psum : pardot t v w = Ok (psum t).
Proof. exact (pardot_closed_form_lemma t v w Ht Hl). Qed.

Lemma dot_raw_snoc (a b : list T) n p q : nth_error a n = Some p -> nth_error b n = Some q ->
  dot_raw (firstn (S n) a) (firstn (S n) b) = add (dot_raw (firstn n a) (firstn n b)) (mul p q).
Proof.
  intros Ha Hb. rewrite (firstn_S_nth a n p Ha), (firstn_S_nth b n q Hb). unfold dot_raw.
  rewrite combine_app_eq.
  - rewrite fold_left_app. reflexivity.
  - assert (n < length a) by (apply nth_error_Some; congruence).
    assert (n < length b) by (apply nth_error_Some; congruence).
    rewrite !firstn_length. lia.
Qed.

(* ------------------------------------------------------------------ the invariant *)
(* worker k is spawned, not yet joined, and its private state is the prefix computation on ITS slices *)
Definition wok (k : nat) (x : @wstate A) : Prop :=
  match x with
  | WRun a b n acc => a = slice_of v t k /\ b = slice_of w t k /\ n <= length a /\
                      acc = dot_raw (firstn n a) (firstn n b)
  | WDone r => r = part k
  | _ => False
  end.

Definition Inv (s : @state A) : Prop :=
  length (ws s) = t /\
  match main s with
  | MSpawn i => i <= t /\
      forall k x, nth_error (ws s) k = Some x -> (k < i -> wok k x) /\ (i <= k -> x = WIdle)
  | MJoin j acc => j <= t /\ acc = psum j /\
      forall k x, nth_error (ws s) k = Some x -> (k < j -> x = WJoined) /\ (j <= k -> wok k x)
  | MRet r => r = Ok (psum t) /\ forall k x, nth_error (ws s) k = Some x -> x = WJoined
  end.

(* remaining steps *)
Definition wrem (k : nat) (x : @wstate A) : nat :=
  match x with
  | WIdle => length (slice_of v t k) + 1
  | WRun a _ n _ => length a - n + 1
  | _ => 0
  end.
Fixpoint wrem_sum (k : nat) (l : list (@wstate A)) : nat :=
  match l with [] => 0 | x :: r => wrem k x + wrem_sum (S k) r end.
Definition mrem (m : @mstate A) : nat :=
  match m with MSpawn i => (t - i) + t + 2 | MJoin j _ => (t - j) + 1 | MRet _ => 0 end.
Definition mu (s : @state A) : nat := mrem (main s) + wrem_sum 0 (ws s).

(* one step of a well-formed worker: stays well-formed, never panics, one step less to go *)
Lemma wstep_spec k x x' : wok k x -> wstep x = Some x' ->
  wok k x' /\ wrem k x = S (wrem k x') /\ x' <> WPanicked.
Proof.
  destruct x as [|a b n acc|r| |]; cbn [wok wstep]; try discriminate.
  intros (Ea & Eb & Hn & Eacc).
  assert (Lab : length a = length b) by (subst a b; now apply slice_of_length_eq).
  destruct (Nat.ltb_spec n (length a)) as [Hlt|Hge].
  - destruct (nth_error a n) as [p|] eqn:Ep; [|apply nth_error_None in Ep; lia].
    destruct (nth_error b n) as [q|] eqn:Eq; [|apply nth_error_None in Eq; lia].
    unfold rd. rewrite Ep, Eq. intros E; injection E as <-. cbn [wok wrem].
    split; [|split; [lia|discriminate]].
    split; [exact Ea|split; [exact Eb|split; [lia|]]].
    rewrite (dot_raw_snoc a b n p q Ep Eq). now rewrite <- Eacc.
  - intros E; injection E as <-. cbn [wok wrem]. split; [|split; [lia|discriminate]].
    rewrite Eacc. rewrite !firstn_all2 by lia. unfold part. now rewrite <- Ea, <- Eb.
Qed.

Lemma wstep_enabled k x : wok k x -> (exists x', wstep x = Some x') \/ x = WDone (part k).
Proof.
  destruct x as [|a b n acc|r| |]; cbn [wok]; try contradiction.
  - intros _. left. cbn [wstep]. destruct (n <? length a); [|eauto].
    destruct (rd a n); destruct (rd b n); eauto.
  - intros ->. now right.
Qed.

Lemma Inv_init : Inv init.
Proof.
  split; [apply repeat_length|]. cbn [main sched_init]. split; [lia|].
  intros k x H. cbn [ws] in H. apply nth_error_repeat_inv in H. split; [lia|auto].
Qed.

Lemma wrem_sum_upd o l k x x' : nth_error l k = Some x ->
  wrem_sum o (upd_list l k x') + wrem (o + k) x = wrem_sum o l + wrem (o + k) x'.
Proof.
  revert o k; induction l as [|h tl IH]; intros o [|k] H; cbn in H; try discriminate.
  - injection H as ->. cbn [upd_list wrem_sum]. rewrite Nat.add_0_r. lia.
  - cbn [upd_list wrem_sum]. specialize (IH (S o) k H).
    replace (o + S k) with (S o + k) by lia. lia.
Qed.

Lemma nth_error_lt {X} (l : list X) k x : nth_error l k = Some x -> k < length l.
Proof. intros H. apply nth_error_Some. congruence. Qed.

(* THE step lemma: every transition out of an invariant state preserves the invariant and decreases mu by one *)
Lemma Inv_step th s s' : Inv s -> fire th s = Some s' -> Inv s' /\ mu s = S (mu s').
Proof.
  intros [HL HM] HF. destruct s as [m l]. cbn [ws main] in *. destruct th as [|k]; cbn [ParSched.fire main ws] in HF.
  - (* the main thread moves *)
    destruct m as [i|j acc|r]; [| |discriminate].
    + destruct HM as [Hi HW]. destruct (Nat.ltb_spec i t) as [Hlt|Hge].
      * rewrite (job_ok v w t i Ht Hlt Hl) in HF. injection HF as <-.
        assert (Ei : nth_error l i = Some WIdle).
        { destruct (nth_error l i) as [x|] eqn:E; [|apply nth_error_None in E; lia].
          f_equal. apply (HW i x E); lia. }
        split.
        -- split; cbn [ws main]; [now rewrite upd_list_length|]. split; [lia|].
           intros k x. rewrite nth_error_upd_list by lia.
           destruct (Nat.eqb_spec k i) as [->|Hne].
           ++ intros E; injection E as <-. split; [|lia]. intros _. cbn [wok].
              split; [reflexivity|split; [reflexivity|split; [lia|reflexivity]]].
           ++ intros E. destruct (HW k x E) as [H1 H2]. split; intros; [apply H1|apply H2]; lia.
        -- unfold mu; cbn [main ws mrem].
           pose proof (wrem_sum_upd 0 l i WIdle (WRun (slice_of v t i) (slice_of w t i) 0 zero) Ei) as HS.
           cbn [wrem plus] in HS. lia.
      * injection HF as <-. assert (i = t) by lia. subst i. split.
        -- split; cbn [ws main]; [exact HL|]. split; [lia|split; [reflexivity|]].
           intros k x E. split; [lia|]. intros _. apply (HW k x E). apply nth_error_lt in E. lia.
        -- unfold mu; cbn [main ws mrem]. lia.
    + destruct HM as (Hj & Eacc & HW). destruct (Nat.ltb_spec j t) as [Hlt|Hge].
      * destruct (nth_error l j) as [x|] eqn:Ej; [|discriminate].
        assert (Hx : wok j x) by (apply (HW j x Ej); lia).
        destruct x as [|a b n ac|r| |]; try discriminate; try contradiction.
        injection HF as <-. cbn [wok] in Hx. subst r. split.
        -- split; cbn [ws main]; [now rewrite upd_list_length|]. split; [lia|split].
           ++ rewrite psum_S. now rewrite Eacc.
           ++ intros k x. rewrite nth_error_upd_list by lia.
              destruct (Nat.eqb_spec k j) as [->|Hne].
              ** intros E; injection E as <-. split; [auto|lia].
              ** intros E. destruct (HW k x E) as [H1 H2]. split; intros; [apply H1|apply H2]; lia.
        -- unfold mu; cbn [main ws mrem].
           pose proof (wrem_sum_upd 0 l j (WDone (part j)) WJoined Ej) as HS. cbn [wrem plus] in HS. lia.
      * injection HF as <-. assert (j = t) by lia. subst j. split.
        -- split; cbn [ws main]; [exact HL|]. split; [now rewrite Eacc|].
           intros k x E. apply (HW k x E). apply nth_error_lt in E. lia.
        -- unfold mu; cbn [main ws mrem]. lia.
  - (* worker k moves *)
    destruct (nth_error l k) as [x|] eqn:Ek; [|discriminate].
    destruct (wstep x) as [x'|] eqn:Ex; [|discriminate]. injection HF as <-.
    pose proof (nth_error_lt _ _ _ Ek) as Hk.
    assert (Hx : wok k x).
    { destruct m as [i|j acc|r].
      - destruct HM as [Hi HW]. destruct (HW k x Ek) as [H1 H2].
        destruct (Nat.lt_ge_cases k i) as [Hlt|Hge]; [auto|]. rewrite (H2 Hge) in Ex. discriminate.
      - destruct HM as (Hj & Eacc & HW). destruct (HW k x Ek) as [H1 H2].
        destruct (Nat.lt_ge_cases k j) as [Hlt|Hge]; [|auto]. rewrite (H1 Hlt) in Ex. discriminate.
      - destruct HM as [Er HW]. rewrite (HW k x Ek) in Ex. discriminate. }
    destruct (wstep_spec k x x' Hx Ex) as (Hx' & Hrem & _).
    split.
    + split; cbn [ws main]; [now rewrite upd_list_length|].
      destruct m as [i|j acc|r].
      * destruct HM as [Hi HW]. split; [exact Hi|]. intros k0 x0. rewrite nth_error_upd_list by lia.
        destruct (Nat.eqb_spec k0 k) as [->|Hne]; [|apply HW].
        intros E; injection E as <-. destruct (HW k x Ek) as [H1 H2]. split; [auto|].
        intros Hge. rewrite (H2 Hge) in Hx. contradiction.
      * destruct HM as (Hj & Eacc & HW). split; [exact Hj|split; [exact Eacc|]].
        intros k0 x0. rewrite nth_error_upd_list by lia.
        destruct (Nat.eqb_spec k0 k) as [->|Hne]; [|apply HW].
        intros E; injection E as <-. destruct (HW k x Ek) as [H1 H2]. split; [|auto].
        intros Hlt. rewrite (H1 Hlt) in Hx. contradiction.
      * destruct HM as [Er HW]. rewrite (HW k x Ek) in Hx. contradiction.
    + unfold mu; cbn [main ws]. pose proof (wrem_sum_upd 0 l k x x' Ek) as HS. cbn [plus] in HS. lia.
Qed.

(* progress: from an invariant state some thread can move, unless main has returned the value of pardot *)
Lemma Inv_progress s : Inv s ->
  (exists th s', fire th s = Some s') \/ main s = MRet (Ok (psum t)).
Proof.
  intros [HL HM]. destruct s as [m l]. cbn [ws main] in *. destruct m as [i|j acc|r].
  - left. exists Main. cbn [ParSched.fire main ws]. destruct HM as [Hi HW].
    destruct (Nat.ltb_spec i t) as [Hlt|Hge]; [|eauto].
    rewrite (job_ok v w t i Ht Hlt Hl). eauto.
  - left. destruct HM as (Hj & Eacc & HW). destruct (Nat.ltb_spec j t) as [Hlt|Hge].
    + destruct (nth_error l j) as [x|] eqn:Ej; [|apply nth_error_None in Ej; lia].
      assert (Hx : wok j x) by (apply (HW j x Ej); lia).
      destruct (wstep_enabled j x Hx) as [[x' Ex]| ->].
      * exists (Wk j). cbn [ParSched.fire ws]. rewrite Ej, Ex. eauto.
      * exists Main. cbn [ParSched.fire main ws]. apply Nat.ltb_lt in Hlt as ->. rewrite Ej. eauto.
    + exists Main. cbn [ParSched.fire main ws]. apply Nat.ltb_ge in Hge as ->. eauto.
  - right. destruct HM as [-> _]. reflexivity.
Qed.

Lemma wrem_sum_joined o l : (forall k x, nth_error l k = Some x -> x = WJoined) -> wrem_sum o l = 0.
Proof.
  revert o; induction l as [|h tl IH]; intros o H; cbn [wrem_sum]; auto.
  rewrite (H 0 h eq_refl). cbn [wrem]. apply IH. intros k x E. exact (H (S k) x E).
Qed.

Lemma mu_final s : Inv s -> (exists r, main s = MRet r) -> mu s = 0.
Proof.
  intros [HL HM] [r Er]. unfold mu. rewrite Er in *. cbn [mrem]. destruct HM as [_ HW].
  now apply wrem_sum_joined.
Qed.

Lemma wrem_sum_idle o n :
  wrem_sum o (repeat WIdle n) = list_sum (map (fun k => length (slice_of v t k)) (seq o n)) + n.
Proof.
  revert o; induction n as [|n IH]; intros o; [reflexivity|].
  cbn [repeat wrem_sum wrem seq map]. rewrite IH. unfold list_sum; cbn [fold_right]. lia.
Qed.

Lemma mu_init : mu init = length v + 3 * t + 2.
Proof.
  unfold mu. cbn [main ws sched_init mrem]. rewrite wrem_sum_idle.
  assert (E : list_sum (map (fun k => length (slice_of v t k)) (seq 0 t)) = length v).
  { transitivity (length (concat (slices v t))); [|now rewrite (slices_concat v t Ht)].
    rewrite length_concat_sum, slices_map, map_map. reflexivity. }
  rewrite E. lia.
Qed.

(* along any schedule *)
Lemma exec_Inv sch s s' : Inv s -> exec sch s = Some s' -> Inv s' /\ mu s = length sch + mu s'.
Proof.
  revert s; induction sch as [|th rest IH]; intros s HI HE; cbn [ParSched.exec] in HE.
  - injection HE as <-. auto.
  - destruct (fire th s) as [s1|] eqn:E1; [|discriminate].
    destruct (Inv_step th s s1 HI E1) as [HI1 Hmu]. destruct (IH s1 HI1 HE) as [HI' Hmu'].
    split; [exact HI'|]. cbn [length]. lia.
Qed.

Lemma terminal_final s : Inv s -> terminal s -> main s = MRet (Ok (psum t)).
Proof.
  intros HI HT. destruct (Inv_progress s HI) as [(th & s' & E)|E]; [|exact E].
  rewrite (HT th) in E. discriminate.
Qed.

(* (a) every maximal execution, whatever the interleaving, has exactly len + 3t + 2 steps and ends with main
   holding the value of pardot *)
Lemma sched_deterministic_exec sch s' : exec sch init = Some s' -> terminal s' ->
  length sch = length v + 3 * t + 2 /\ main s' = MRet (pardot t v w).
Proof.
  intros HE HT. destruct (exec_Inv sch init s' Inv_init HE) as [HI Hmu].
  pose proof (terminal_final s' HI HT) as HF.
  rewrite mu_init in Hmu. rewrite (mu_final s' HI (ex_intro _ _ HF)) in Hmu.
  split; [lia|]. now rewrite pardot_psum.
Qed.

(* no execution is longer than that: there are no infinite interleavings *)
Lemma sched_bounded_exec sch s' : exec sch init = Some s' -> length sch <= length v + 3 * t + 2.
Proof.
  intros HE. destruct (exec_Inv sch init s' Inv_init HE) as [_ Hmu]. rewrite mu_init in Hmu. lia.
Qed.

Lemma exec_app sch1 sch2 s : exec (sch1 ++ sch2) s =
  match exec sch1 s with Some s1 => exec sch2 s1 | None => None end.
Proof.
  revert s; induction sch1 as [|th r IH]; intros s; cbn [app ParSched.exec]; auto.
  destruct (fire th s); auto.
Qed.

(* every partial execution extends to a maximal one (which is then the one of sched_deterministic_exec) *)
Lemma Inv_extends s : Inv s -> exists sch s', exec sch s = Some s' /\ terminal s' /\ length sch = mu s.
Proof.
  remember (mu s) as n eqn:En. revert s En. induction n as [|n IH]; intros s En HI.
  - exists [], s. split; [reflexivity|split; [|reflexivity]].
    intros th. destruct (fire th s) as [s1|] eqn:E; auto.
    destruct (Inv_step th s s1 HI E) as [_ H]. lia.
  - destruct (Inv_progress s HI) as [(th & s1 & E)|E].
    + destruct (Inv_step th s s1 HI E) as [HI1 H].
      destruct (IH s1 ltac:(lia) HI1) as (sch & s' & HE & HT & HLn).
      exists (th :: sch), s'. cbn [ParSched.exec length]. rewrite E. auto.
    + rewrite (mu_final s HI (ex_intro _ _ E)) in En. discriminate.
Qed.

Lemma sched_extends_exec sch s : exec sch init = Some s ->
  exists sch' s', exec (sch ++ sch') init = Some s' /\ terminal s'.
Proof.
  intros HE. destruct (exec_Inv sch init s Inv_init HE) as [HI _].
  destruct (Inv_extends s HI) as (sch' & s' & HE' & HT & _).
  exists sch', s'. rewrite exec_app, HE. auto.
Qed.

(* (b) no deadlock: in every reachable state either some thread can move or main has returned pardot;
   in particular a reachable state in which nobody can move is never "main blocked in join" *)
Lemma sched_no_deadlock_exec sch s : exec sch init = Some s ->
  (exists th s', fire th s = Some s') \/ main s = MRet (pardot t v w).
Proof.
  intros HE. destruct (exec_Inv sch init s Inv_init HE) as [HI _].
  rewrite pardot_psum. now apply Inv_progress.
Qed.

(* no reachable state contains a panic: no worker indexes out of range, no slice is out of range, no unwrap of Err *)
Lemma sched_no_panic_exec sch s : exec sch init = Some s ->
  (forall k, nth_error (ws s) k <> Some WPanicked) /\ (forall r, main s = MRet r -> r = pardot t v w).
Proof.
  intros HE. destruct (exec_Inv sch init s Inv_init HE) as [[HL HM] _]. split.
  - intros k E. destruct (main s) as [i|j acc|r].
    + destruct HM as [Hi HW]. destruct (HW k _ E) as [H1 H2].
      destruct (Nat.lt_ge_cases k i) as [Hlt|Hge]; [exact (H1 Hlt)|]. discriminate (H2 Hge).
    + destruct HM as (Hj & Eacc & HW). destruct (HW k _ E) as [H1 H2].
      destruct (Nat.lt_ge_cases k j) as [Hlt|Hge]; [discriminate (H1 Hlt)|exact (H2 Hge)].
    + destruct HM as [_ HW]. discriminate (HW k _ E).
  - intros r E. rewrite E in HM. destruct HM as [-> _]. now rewrite pardot_psum.
Qed.

(* ------------------------------------------------------------------ the relational presentation *)
Lemma steps_exec n s s' : steps v w t n s s' <-> exists sch, length sch = n /\ exec sch s = Some s'.
Proof.
  split.
  - induction 1 as [s|n s s1 s2 [th Hth] _ (sch & HLn & HE)].
    + exists []. auto.
    + exists (th :: sch). cbn [length ParSched.exec]. rewrite Hth. auto.
  - intros (sch & <- & HE). revert s HE. induction sch as [|th r IH]; intros s HE; cbn [ParSched.exec] in HE.
    + injection HE as <-. constructor.
    + destruct (fire th s) as [s1|] eqn:E; [|discriminate]. cbn [length].
      apply steps_S with s1; [now exists th|now apply IH].
Qed.

End Sched.

(* ------------------------------------------------------------------ the whole program: prelude + scope *)
Section Top.
Context {A : Arith}.
Notation T := (T A).

Lemma par_program_ok (v w : list T) t s0 : par_program v w t = Ok s0 ->
  1 <= t /\ length v = length w /\ s0 = sched_init t.
Proof.
  unfold par_program. destruct (Nat.eqb_spec (length v) (length w)) as [E|]; [|discriminate].
  destruct (Nat.eqb_spec t 0) as [|Hne]; [discriminate|]. intros H; injection H as <-. repeat split; auto. lia.
Qed.

(* the prelude panics exactly as pardot does: size guard first, then the division by the worker count *)
Lemma par_program_panic (v w : list T) t k : par_program v w t = Panic k -> pardot t v w = Panic k.
Proof.
  unfold par_program, pardot. destruct (length v =? length w); [|intros H; now injection H as <-].
  destruct (t =? 0); [intros H; now injection H as <-|discriminate].
Qed.

Lemma sched_deterministic_lemma (v w : list T) t s0 n s :
  par_program v w t = Ok s0 -> steps v w t n s0 s -> terminal v w t s ->
  n = length v + 3 * t + 2 /\ main s = MRet (pardot t v w).
Proof.
  intros HP HS HT. apply par_program_ok in HP as (Ht & Hl & ->).
  apply steps_exec in HS as (sch & <- & HE). now apply sched_deterministic_exec.
Qed.

Lemma sched_terminates_lemma (v w : list T) t s0 n s :
  par_program v w t = Ok s0 -> steps v w t n s0 s ->
  n <= length v + 3 * t + 2 /\ exists m s', steps v w t m s s' /\ terminal v w t s'.
Proof.
  intros HP HS. apply par_program_ok in HP as (Ht & Hl & ->).
  apply steps_exec in HS as (sch & <- & HE). split; [now apply (sched_bounded_exec v w t Ht Hl sch s)|].
  destruct (exec_Inv v w t Ht Hl sch _ s (Inv_init v w t Ht Hl) HE) as [HI _].
  destruct (Inv_extends v w t Ht Hl s HI) as (sch' & s' & HE' & HT & _).
  exists (length sch'), s'. split; [|exact HT]. apply steps_exec. now exists sch'.
Qed.

Lemma sched_no_deadlock_lemma (v w : list T) t s0 n s :
  par_program v w t = Ok s0 -> steps v w t n s0 s ->
  (exists s', step v w t s s') \/ main s = MRet (pardot t v w).
Proof.
  intros HP HS. apply par_program_ok in HP as (Ht & Hl & ->).
  apply steps_exec in HS as (sch & _ & HE).
  destruct (sched_no_deadlock_exec v w t Ht Hl sch s HE) as [(th & s' & E)|E]; [left|now right].
  exists s', th. exact E.
Qed.

Lemma sched_no_panic_lemma (v w : list T) t s0 n s :
  par_program v w t = Ok s0 -> steps v w t n s0 s ->
  (forall k, nth_error (ws s) k <> Some WPanicked) /\ (forall r, main s = MRet r -> exists x, r = Ok x).
Proof.
  intros HP HS. apply par_program_ok in HP as (Ht & Hl & ->).
  apply steps_exec in HS as (sch & _ & HE).
  destruct (sched_no_panic_exec v w t Ht Hl sch s HE) as [H1 H2]. split; [exact H1|].
  intros r Er. rewrite (H2 r Er), (pardot_psum v w t Ht Hl). eauto.
Qed.

(* ---- the worker count: every t >= 1 is safe for every length; t = 0 is the division panic ---- *)
Lemma pardot_any_workers_total_lemma t (v w : list T) : 1 <= t -> length v = length w ->
  (forall i, i < t -> exists a b, job v w t i = Ok (a, b) /\ length a = length b) /\
  exists x, pardot t v w = Ok x.
Proof.
  intros Ht Hl. split.
  - intros i Hi. exists (slice_of v t i), (slice_of w t i). split; [now apply job_ok|now apply slice_of_length_eq].
  - rewrite (pardot_closed_form_lemma t v w Ht Hl). eauto.
Qed.

Lemma pardot_outcomes_lemma t (v w : list T) :
  (length v <> length w -> pardot t v w = Panic Guard) /\
  (length v = length w -> t = 0 -> pardot t v w = Panic DivZero) /\
  (length v = length w -> 1 <= t -> exists x, pardot t v w = Ok x).
Proof.
  split; [|split].
  - intros H. unfold pardot. now apply Nat.eqb_neq in H as ->.
  - intros H ->. unfold pardot. now rewrite H, Nat.eqb_refl.
  - intros H Ht. now apply pardot_any_workers_total_lemma.
Qed.

End Top.
