(* Proofs/ParSchedFine.v -- the statement-level granularity of Model/ParSched.v loses nothing: in the semantics whose
   worker iteration is four separate transitions (load, checked load, multiply, add-and-advance; fire_fine)
     - every fine transition is either a transition of the coarse semantics between the abstracted states or leaves
       the abstracted state unchanged (a stutter inside one worker)              [fire_fine_sim, exec_fine_abs]
     - a thread can move in a fine state iff it can move in the abstracted state    [fine_enabled]
     - hence every maximal fine execution -- any interleaving of the individual loads, multiplications and additions
       of all threads, any arithmetic -- has exactly 4 len + 3t + 2 steps and returns pardot  [sched_fine_deterministic]
   The reason is the one stated as the modelling assumption: everything a worker touches between two of its
   iterations is private to it. *)
From Coq Require Import List Arith Lia.
From OV Require Import Base.Panic Base.Arith Model.Vector Model.ParDot Model.ParSched Proofs.ParDot Proofs.ParSched.
Import ListNotations.

Lemma map_upd_list {X Y} (f : X -> Y) (l : list X) k x : map f (upd_list l k x) = upd_list (map f l) k (f x).
Proof. revert k; induction l as [|h tl IH]; intros [|k]; cbn; auto. now rewrite IH. Qed.

Lemma upd_list_same {X} (l : list X) k x : nth_error l k = Some x -> upd_list l k x = l.
Proof.
  revert k; induction l as [|h tl IH]; intros [|k] H; cbn in *; try discriminate.
  - now injection H as ->.
  - now rewrite IH.
Qed.

Lemma Forall_upd_list {X} (P : X -> Prop) (l : list X) k x : Forall P l -> P x -> Forall P (upd_list l k x).
Proof.
  intros HF Hx. revert k; induction HF as [|h tl Hh HF IH]; intros [|k]; cbn; auto.
Qed.

Lemma map_repeat_c {X Y} (f : X -> Y) x n : map f (repeat x n) = repeat (f x) n.
Proof. induction n as [|n IH]; cbn; auto. now rewrite IH. Qed.

Section Fine.
Context {A : Arith}.
Notation T := (T A).
Variables (v w : list T) (t : nat).
Hypothesis Ht : 1 <= t.
Hypothesis Hl : length v = length w.

Notation fire := (fire v w t).
Notation exec := (exec v w t).
Notation fireF := (fire_fine v w t).
Notation execF := (exec_fine v w t).
Notation terminalF := (terminal_fine v w t).
Notation initF := (fine_init (A := A) t).
Notation Inv := (Inv v w t).
Notation wok := (wok v w t).

(* the registers of the current iteration hold what the iteration read *)
Definition phase_ok (x : @wstate A) (ph : @phase A) : Prop :=
  match ph with
  | P0 => True
  | P1 p => match x with WRun a b n acc => rd a n = Ok p | _ => False end
  | P2 p q => match x with WRun a b n acc => rd a n = Ok p /\ rd b n = Ok q | _ => False end
  | P3 m => match x with WRun a b n acc => exists p q, rd a n = Ok p /\ rd b n = Ok q /\ m = mul p q | _ => False end
  end.

Definition WF (s : @fstate A) : Prop := Forall (fun x => phase_ok (fw_st x) (fw_ph x)) (f_ws s).

Lemma rd_Ok_lt {X} (l : list X) n x : rd l n = Ok x -> n < length l.
Proof. unfold rd. destruct (nth_error l n) eqn:E; [|discriminate]. intros _. apply nth_error_Some. congruence. Qed.

(* one fine worker step: a stutter or the coarse step *)
Lemma fwstep_sim x x' : phase_ok (fw_st x) (fw_ph x) -> fwstep x = Some x' ->
  phase_ok (fw_st x') (fw_ph x') /\ (fw_st x' = fw_st x \/ wstep (fw_st x) = Some (fw_st x')).
Proof.
  destruct x as [st ph]. cbn [fw_st fw_ph]. unfold fwstep; cbn [fw_st fw_ph].
  destruct st as [|a b n acc|r| |]; try discriminate.
  destruct ph as [|p|p q|m]; cbn [phase_ok].
  - intros _. cbn [wstep]. destruct (n <? length a).
    + destruct (rd a n) as [p|pk] eqn:Ea; intros E; injection E as <-; cbn [fw_st fw_ph phase_ok]; auto.
    + intros E; injection E as <-; cbn [fw_st fw_ph phase_ok]; auto.
  - intros Ea. pose proof (rd_Ok_lt _ _ _ Ea) as Hn. apply Nat.ltb_lt in Hn.
    destruct (rd b n) as [q|pk] eqn:Eb; intros E; injection E as <-; cbn [fw_st fw_ph phase_ok wstep]; auto.
    split; [exact I|right]. now rewrite Hn, Ea, Eb.
  - intros [Ea Eb] E; injection E as <-; cbn [fw_st fw_ph phase_ok]. split; [eauto|auto].
  - intros (p & q & Ea & Eb & ->) E; injection E as <-; cbn [fw_st fw_ph phase_ok wstep].
    pose proof (rd_Ok_lt _ _ _ Ea) as Hn. apply Nat.ltb_lt in Hn. split; [exact I|right]. now rewrite Hn, Ea, Eb.
Qed.

Lemma fire_fine_sim th s s' : WF s -> fireF th s = Some s' ->
  WF s' /\ (fire th (abs_state s) = Some (abs_state s') \/ (abs_state s' = abs_state s /\ exists k, th = Wk k)).
Proof.
  intros HW HF. destruct s as [m l]. unfold WF, abs_state in *. cbn [f_ws f_main] in *.
  destruct th as [|k]; cbn [fire_fine ParSched.fire f_main f_ws main ws] in *.
  - destruct m as [i|j acc|r]; [| |discriminate].
    + destruct (i <? t).
      * destruct (job v w t i) as [[a b]|pk]; injection HF as <-; cbn [f_ws f_main].
        -- split; [apply Forall_upd_list; [exact HW|exact I]|left]. now rewrite map_upd_list.
        -- split; [exact HW|now left].
      * injection HF as <-. split; [exact HW|now left].
    + destruct (j <? t).
      * rewrite nth_error_map. destruct (nth_error l j) as [[st ph]|]; [|discriminate]. cbn [option_map fw_st].
        destruct st as [|a b n ac|r| |]; try discriminate; injection HF as <-; cbn [f_ws f_main].
        -- split; [apply Forall_upd_list; [exact HW|exact I]|left]. now rewrite map_upd_list.
        -- split; [exact HW|now left].
      * injection HF as <-. split; [exact HW|now left].
  - destruct (nth_error l k) as [x|] eqn:Ek; [|discriminate].
    destruct (fwstep x) as [x'|] eqn:Ex; [|discriminate]. injection HF as <-. cbn [f_ws f_main].
    assert (Hx : phase_ok (fw_st x) (fw_ph x)).
    { rewrite Forall_forall in HW. apply HW. eapply nth_error_In; eauto. }
    destruct (fwstep_sim x x' Hx Ex) as [Hx' [Es|Es]].
    + split; [now apply Forall_upd_list|right]. split; [|eauto]. f_equal.
      rewrite map_upd_list, Es. apply upd_list_same. now rewrite nth_error_map, Ek.
    + split; [now apply Forall_upd_list|left]. rewrite nth_error_map, Ek. cbn [option_map]. rewrite Es.
      now rewrite map_upd_list.
Qed.

Lemma WF_init : WF initF.
Proof. unfold WF; cbn [f_ws fine_init]. apply Forall_forall. intros x Hx. apply repeat_spec in Hx as ->. exact I. Qed.

Lemma abs_init : abs_state initF = sched_init t.
Proof. unfold abs_state; cbn [f_main f_ws fine_init]. now rewrite map_repeat_c. Qed.

(* every fine execution is a coarse execution with stutters removed *)
Lemma exec_fine_abs sch : forall s s', WF s -> execF sch s = Some s' ->
  WF s' /\ exists sch', exec sch' (abs_state s) = Some (abs_state s') /\ length sch' <= length sch.
Proof.
  induction sch as [|th rest IH]; intros s s' HW HE; cbn [exec_fine] in HE.
  - injection HE as <-. split; [exact HW|]. exists []. cbn. auto.
  - destruct (fireF th s) as [s1|] eqn:E1; [|discriminate].
    destruct (fire_fine_sim th s s1 HW E1) as [HW1 Hs]. destruct (IH s1 s' HW1 HE) as (HW' & sch' & HE' & HLn).
    split; [exact HW'|]. destruct Hs as [Hc|[Hst _]].
    + exists (th :: sch'). cbn [ParSched.exec length]. rewrite Hc. split; [exact HE'|lia].
    + exists sch'. rewrite <- Hst. split; [exact HE'|cbn [length]; lia].
Qed.

(* a thread can move in the fine state iff it can move in the state it stands for *)
Lemma fine_enabled th s : fireF th s = None <-> fire th (abs_state s) = None.
Proof.
  destruct s as [m l]. unfold abs_state. destruct th as [|k]; cbn [fire_fine ParSched.fire f_main f_ws main ws].
  - destruct m as [i|j acc|r]; [| |tauto].
    + destruct (i <? t); [|split; discriminate]. destruct (job v w t i) as [[a b]|pk]; split; discriminate.
    + destruct (j <? t); [|split; discriminate]. rewrite nth_error_map.
      destruct (nth_error l j) as [[st ph]|]; cbn [option_map fw_st]; [|tauto].
      destruct st; split; auto; discriminate.
  - rewrite nth_error_map. destruct (nth_error l k) as [[st ph]|]; cbn [option_map fw_st]; [|tauto].
    unfold fwstep; cbn [fw_st fw_ph]. destruct st as [|a b n acc|r| |]; try tauto.
    cbn [wstep]. split; intros H; exfalso.
    + destruct ph; [destruct (n <? length a); [destruct (rd a n)|]|destruct (rd b n)| |]; discriminate.
    + destruct (n <? length a); [destruct (rd a n); destruct (rd b n)|]; discriminate.
Qed.

Lemma terminal_fine_abs s : terminalF s -> terminal v w t (abs_state s).
Proof. intros H th. apply fine_enabled. apply H. Qed.

(* ------------------------------------------------------------------ the measure of the fine semantics *)
Definition idx (ph : @phase A) : nat := match ph with P0 => 0 | P1 _ => 1 | P2 _ _ => 2 | P3 _ => 3 end.
Definition frem (k : nat) (x : @fwstate A) : nat :=
  match fw_st x with
  | WIdle => 4 * length (slice_of v t k) + 1
  | WRun a _ n _ => 4 * (length a - n) + 1 - idx (fw_ph x)
  | _ => 0
  end.
Fixpoint frem_sum (k : nat) (l : list (@fwstate A)) : nat :=
  match l with [] => 0 | x :: r => frem k x + frem_sum (S k) r end.
Definition fmu (s : @fstate A) : nat := mrem t (f_main s) + frem_sum 0 (f_ws s).

Lemma frem_sum_upd o l k x x' : nth_error l k = Some x ->
  frem_sum o (upd_list l k x') + frem (o + k) x = frem_sum o l + frem (o + k) x'.
Proof.
  revert o k; induction l as [|h tl IH]; intros o [|k] H; cbn in H; try discriminate.
  - injection H as ->. cbn [upd_list frem_sum]. rewrite Nat.add_0_r. lia.
  - cbn [upd_list frem_sum]. specialize (IH (S o) k H). replace (o + S k) with (S o + k) by lia. lia.
Qed.

(* a well-formed worker never panics, and each of its fine steps is one step less to go *)
Lemma fwstep_meas k x x' : phase_ok (fw_st x) (fw_ph x) -> wok k (fw_st x) -> fwstep x = Some x' ->
  frem k x = S (frem k x').
Proof.
  destruct x as [st ph]. cbn [fw_st fw_ph]. unfold fwstep, frem; cbn [fw_st fw_ph].
  destruct st as [|a b n acc|r| |]; try discriminate. cbn [Proofs.ParSched.wok].
  intros Hp (Ea & Eb & Hn & Eacc).
  assert (Lab : length a = length b) by (subst a b; now apply slice_of_length_eq).
  destruct ph as [|p|p q|m]; cbn [phase_ok idx] in *.
  - destruct (Nat.ltb_spec n (length a)) as [Hlt|Hge].
    + destruct (nth_error a n) as [p|] eqn:Ep; [|apply nth_error_None in Ep; lia].
      unfold rd. rewrite Ep. intros E; injection E as <-. cbn [fw_st fw_ph idx]. lia.
    + intros E; injection E as <-. cbn [fw_st]. lia.
  - pose proof (rd_Ok_lt _ _ _ Hp) as Hlt.
    destruct (nth_error b n) as [q|] eqn:Eq; [|apply nth_error_None in Eq; lia].
    unfold rd at 1. rewrite Eq. intros E; injection E as <-. cbn [fw_st fw_ph idx]. lia.
  - destruct Hp as [Hp _]. pose proof (rd_Ok_lt _ _ _ Hp) as Hlt.
    intros E; injection E as <-. cbn [fw_st fw_ph idx]. lia.
  - destruct Hp as (p & q & Hp & _). pose proof (rd_Ok_lt _ _ _ Hp) as Hlt.
    intros E; injection E as <-. cbn [fw_st fw_ph idx]. lia.
Qed.

(* who may step: under the coarse invariant a worker that can move is spawned, unjoined and well-formed *)
Lemma Inv_movable_wok s k x : Inv s -> nth_error (ws s) k = Some x -> wstep x <> None -> wok k x.
Proof.
  intros [HL HM] Ek Hx. destruct (main s) as [i|j acc|r].
  - destruct HM as [Hi HW]. destruct (HW k x Ek) as [H1 H2].
    destruct (Nat.lt_ge_cases k i) as [Hlt|Hge]; [auto|]. rewrite (H2 Hge) in Hx. now contradiction Hx.
  - destruct HM as (Hj & Eacc & HW). destruct (HW k x Ek) as [H1 H2].
    destruct (Nat.lt_ge_cases k j) as [Hlt|Hge]; [|auto]. rewrite (H1 Hlt) in Hx. now contradiction Hx.
  - destruct HM as [Er HW]. rewrite (HW k x Ek) in Hx. now contradiction Hx.
Qed.

Lemma fmu_step th s s' : WF s -> Inv (abs_state s) -> fireF th s = Some s' -> fmu s = S (fmu s').
Proof.
  intros HW HI HF. destruct s as [m l]. unfold WF, abs_state, fmu in *. cbn [f_ws f_main] in *.
  destruct th as [|k]; cbn [fire_fine f_main f_ws] in HF.
  - destruct HI as [HL HM]. cbn [ws main] in HL, HM. rewrite map_length in HL.
    destruct m as [i|j acc|r]; [| |discriminate].
    + destruct HM as [Hi HWk]. destruct (Nat.ltb_spec i t) as [Hlt|Hge].
      * rewrite (job_ok v w t i Ht Hlt Hl) in HF. injection HF as <-. cbn [f_main f_ws mrem].
        destruct (nth_error l i) as [x|] eqn:Ei; [|apply nth_error_None in Ei; lia].
        assert (Ex : fw_st x = WIdle).
        { apply (HWk i (fw_st x)); [now rewrite nth_error_map, Ei|lia]. }
        pose proof (frem_sum_upd 0 l i x (FW (WRun (slice_of v t i) (slice_of w t i) 0 zero) P0) Ei) as HS.
        cbn [plus] in HS. unfold frem at 1 2 in HS. rewrite Ex in HS. cbn [fw_st fw_ph idx] in HS. lia.
      * injection HF as <-. cbn [f_main f_ws mrem]. lia.
    + destruct HM as (Hj & Eacc & HWk). destruct (Nat.ltb_spec j t) as [Hlt|Hge].
      * destruct (nth_error l j) as [[st ph]|] eqn:Ej; [|discriminate].
        destruct st as [|a b n ac|r| |]; try discriminate.
        -- injection HF as <-. cbn [f_main f_ws mrem].
           pose proof (frem_sum_upd 0 l j _ (FW WJoined P0) Ej) as HS. cbn [plus] in HS.
           unfold frem at 1 2 in HS. cbn [fw_st] in HS. lia.
        -- exfalso. assert (E : nth_error (map fw_st l) j = Some WPanicked) by now rewrite nth_error_map, Ej.
           destruct (HWk j _ E) as [_ H2]. exact (H2 (le_n j)).
      * injection HF as <-. cbn [f_main f_ws mrem]. lia.
  - destruct (nth_error l k) as [x|] eqn:Ek; [|discriminate].
    destruct (fwstep x) as [x'|] eqn:Ex; [|discriminate]. injection HF as <-. cbn [f_main f_ws].
    assert (Hp : phase_ok (fw_st x) (fw_ph x)).
    { rewrite Forall_forall in HW. apply HW. eapply nth_error_In; eauto. }
    assert (Hx : wok k (fw_st x)).
    { apply (Inv_movable_wok _ k (fw_st x) HI); [cbn [ws]; now rewrite nth_error_map, Ek|].
      unfold fwstep in Ex. destruct (fw_st x); try discriminate.
      cbn [wstep]. destruct (n <? length a); [destruct (rd a n); destruct (rd b n)|]; discriminate. }
    pose proof (fwstep_meas k x x' Hp Hx Ex) as Hr.
    pose proof (frem_sum_upd 0 l k x x' Ek) as HS. cbn [plus] in HS. lia.
Qed.

Lemma frem_sum_init o n :
  frem_sum o (repeat (FW WIdle P0) n) = 4 * list_sum (map (fun k => length (slice_of v t k)) (seq o n)) + n.
Proof.
  revert o; induction n as [|n IH]; intros o; [reflexivity|].
  cbn [repeat frem_sum seq map]. rewrite IH. unfold frem; cbn [fw_st]. unfold list_sum; cbn [fold_right]. lia.
Qed.

Lemma fmu_init : fmu initF = 4 * length v + 3 * t + 2.
Proof.
  unfold fmu; cbn [f_main f_ws fine_init mrem]. rewrite frem_sum_init.
  assert (E : list_sum (map (fun k => length (slice_of v t k)) (seq 0 t)) = length v).
  { transitivity (length (concat (slices v t))); [|now rewrite (slices_concat v t Ht)].
    rewrite length_concat_sum, slices_map, map_map. reflexivity. }
  rewrite E. lia.
Qed.

Lemma frem_sum_joined o l : (forall x, In x l -> fw_st x = WJoined) -> frem_sum o l = 0.
Proof.
  revert o; induction l as [|h tl IH]; intros o H; cbn [frem_sum]; auto.
  unfold frem at 1. rewrite (H h (or_introl eq_refl)). apply IH. intros x Hx. apply H. now right.
Qed.

Lemma exec_fine_meas sch : forall s s', WF s -> Inv (abs_state s) -> execF sch s = Some s' ->
  fmu s = length sch + fmu s'.
Proof.
  induction sch as [|th rest IH]; intros s s' HW HI HE; cbn [exec_fine] in HE.
  - injection HE as <-. reflexivity.
  - destruct (fireF th s) as [s1|] eqn:E1; [|discriminate].
    pose proof (fmu_step th s s1 HW HI E1) as Hm.
    destruct (fire_fine_sim th s s1 HW E1) as [HW1 Hs].
    assert (HI1 : Inv (abs_state s1)).
    { destruct Hs as [Hc|[Hst _]]; [exact (proj1 (Inv_step v w t Ht Hl th _ _ HI Hc))|now rewrite Hst]. }
    specialize (IH s1 s' HW1 HI1 HE). cbn [length]. lia.
Qed.

(* every maximal execution at the granularity of single loads, multiplications and additions *)
Lemma sched_fine_deterministic_exec sch s : execF sch initF = Some s -> terminalF s ->
  length sch = 4 * length v + 3 * t + 2 /\ f_main s = MRet (pardot t v w).
Proof.
  intros HE HT.
  destruct (exec_fine_abs sch initF s WF_init HE) as (HW & sch' & HE' & _). rewrite abs_init in HE'.
  pose proof (terminal_fine_abs s HT) as HT'.
  destruct (sched_deterministic_exec v w t Ht Hl sch' (abs_state s) HE' HT') as [_ Hm].
  destruct (exec_Inv v w t Ht Hl sch' _ _ (Inv_init v w t Ht Hl) HE') as [HI _].
  split; [|exact Hm].
  assert (HI0 : Inv (abs_state initF)) by (rewrite abs_init; apply (Inv_init v w t Ht Hl)).
  pose proof (exec_fine_meas sch initF s WF_init HI0 HE) as Hmu. rewrite fmu_init in Hmu.
  assert (Hz : fmu s = 0).
  { unfold fmu. cbn [abs_state main] in Hm. rewrite Hm. cbn [mrem]. apply frem_sum_joined.
    destruct HI as [_ HM]. cbn [abs_state main ws] in HM. rewrite Hm in HM. destruct HM as [_ HJ].
    intros x Hx. apply In_nth_error in Hx as [k Ek]. apply (HJ k). now rewrite nth_error_map, Ek. }
  lia.
Qed.

Lemma sched_fine_bounded_exec sch s : execF sch initF = Some s -> length sch <= 4 * length v + 3 * t + 2.
Proof.
  intros HE.
  assert (HI0 : Inv (abs_state initF)) by (rewrite abs_init; apply (Inv_init v w t Ht Hl)).
  pose proof (exec_fine_meas sch initF s WF_init HI0 HE) as Hmu. rewrite fmu_init in Hmu. lia.
Qed.

(* no deadlock at the fine granularity either *)
Lemma sched_fine_no_deadlock_exec sch s : execF sch initF = Some s ->
  (exists th s', fireF th s = Some s') \/ f_main s = MRet (pardot t v w).
Proof.
  intros HE. destruct (exec_fine_abs sch initF s WF_init HE) as (HW & sch' & HE' & _). rewrite abs_init in HE'.
  destruct (sched_no_deadlock_exec v w t Ht Hl sch' _ HE') as [(th & s1 & E)|E]; [left|now right].
  exists th. destruct (fireF th s) as [s'|] eqn:EF; [eauto|].
  apply fine_enabled in EF. rewrite EF in E. discriminate.
Qed.

End Fine.

Section FineTop.
Context {A : Arith}.

Lemma sched_fine_refines_lemma (v w : list A) t sch s : 1 <= t -> length v = length w ->
  exec_fine v w t sch (fine_init t) = Some s ->
  exists sch', exec v w t sch' (sched_init t) = Some (abs_state s) /\ length sch' <= length sch.
Proof.
  intros Ht Hl HE. destruct (exec_fine_abs v w t Ht Hl sch _ s (WF_init t) HE) as (_ & sch' & HE' & HLn).
  rewrite abs_init in HE'. eauto.
Qed.

End FineTop.

(* a concrete fine execution on binary64 (data of Proofs/ParSchedRefuted.v): after the three spawns the three workers
   advance in lock step, one micro-step each in turn: 4*3 + 3*3 + 2 = 23 steps *)
From OV Require Import Inst.FloatInst Proofs.ParSchedRefuted.
Definition cx_fine : list tid :=
  [Main; Main; Main] ++ concat (repeat [Wk 0; Wk 1; Wk 2] 5) ++ [Main; Main; Main; Main; Main].

Lemma cx_fine_execution :
  1 <= 3 /\ length cx_v = length cx_w /\ length cx_fine = 23 /\
  exists s, exec_fine cx_v cx_w 3 cx_fine (fine_init 3) = Some s /\ terminal_fine cx_v cx_w 3 s /\
            f_main s = MRet (pardot (A := AF) 3 cx_v cx_w).
Proof.
  split; [auto with arith|]. split; [reflexivity|]. split; [reflexivity|].
  destruct (exec_fine cx_v cx_w 3 cx_fine (fine_init 3)) as [s|] eqn:E; [|vm_compute in E; discriminate].
  exists s. split; [reflexivity|]. vm_compute in E. injection E as <-. split; [|vm_compute; reflexivity].
  intros th. destruct th as [|[|[|[|[|k]]]]]; reflexivity.
Qed.
