(* Proofs/TridiagTotal.v -- shape of Thomas solve over ANY arithmetic whose division answers whenever the
   divisor is not [eqb]-equal to zero (true of exact fields, of f64 and of Complex<f64>, whose division
   never panics): on well-formed input [tsolve] is [Ok u] with |u| = n or [Panic Guard] -- never a
   bounds failure, an underflow or a division panic.  No algebraic law is used. *)
From Coq Require Import List Arith Lia Bool.
From OV Require Import Base.Panic Base.Arith Model.Vector Model.Matrix Model.Tridiag Proofs.Tridiag.
Import ListNotations.

Section Total.
Context {A : Arith}.
Notation T := (T A).
Notation tridiag := (tridiag A).
Hypothesis div_answers : forall x y : T, eqb y zero = false -> exists z, div x y = Ok z.

Definition ShapeInv (n : nat) (s : list T * T * list T) : Prop :=
  let '(u, beta, gamma) := s in length u = n /\ length gamma = n /\ eqb beta zero = false.

Lemma fwd_step_shape (t : tridiag) (r : list T) j s : wfT t -> length r = tn t -> 1 <= j < tn t ->
  ShapeInv (tn t) s ->
  (exists s', thomas_fwd_body t r (vpush_front (tsub t) zero) (vpush (tsup t) zero) j s = Ok s' /\ ShapeInv (tn t) s') \/
  thomas_fwd_body t r (vpush_front (tsub t) zero) (vpush (tsup t) zero) j s = Panic Guard.
Proof.
  intros (Hm & Hs & Hp) Hr Hj Inv. destruct s as [[u beta] gamma]. destruct Inv as (Lu & Lg & Nz).
  unfold thomas_fwd_body, vpush_front, vpush.
  rewrite (rd_ok _ (j - 1) zero) by (rewrite app_length; cbn [length]; lia). cbn [bind].
  destruct (div_answers (nth (j - 1) (tsup t ++ [zero]) zero) beta Nz) as (g & Eg). rewrite Eg. cbn [bind].
  rewrite upd_ok by lia. cbn [bind].
  rewrite (rd_ok (tmain t) j zero) by lia. cbn [bind].
  rewrite (rd_ok (zero :: tsub t) j zero) by (cbn [length]; lia). cbn [bind].
  rewrite (rd_ok _ j zero) by (rewrite upd_list_length; lia). cbn [bind].
  match goal with |- context [eqb ?b zero] => destruct (eqb b zero) eqn:Ez end.
  - right. reflexivity.
  - left. rewrite (rd_ok r j zero) by lia. cbn [bind].
    rewrite (rd_ok u (j - 1) zero) by lia. cbn [bind].
    match goal with |- context [div ?x ?y] => destruct (div_answers x y Ez) as (q & Eq) end.
    rewrite Eq. cbn [bind]. rewrite upd_ok by lia. cbn [bind].
    eexists; split; [reflexivity|]. unfold ShapeInv. rewrite !upd_list_length. auto.
Qed.

Lemma fwd_loop_shape (t : tridiag) (r : list T) m : wfT t -> length r = tn t -> forall j s,
  1 <= j -> j + m = tn t -> ShapeInv (tn t) s ->
  (exists s', for_from m j (thomas_fwd_body t r (vpush_front (tsub t) zero) (vpush (tsup t) zero)) s = Ok s'
              /\ ShapeInv (tn t) s') \/
  for_from m j (thomas_fwd_body t r (vpush_front (tsub t) zero) (vpush (tsup t) zero)) s = Panic Guard.
Proof.
  intros W Hr. induction m as [|m IH]; intros j s Hj Hm Inv.
  - left. exists s. split; [reflexivity|exact Inv].
  - cbn [for_from]. destruct (fwd_step_shape t r j s W Hr) as [(s' & E & Inv')|E]; [lia|exact Inv| |].
    + rewrite E. cbn [bind]. apply IH; [lia|lia|exact Inv'].
    + rewrite E. right. reflexivity.
Qed.

Lemma back_loop_shape (gamma u : list T) n : length gamma = n -> length u = n ->
  exists u', for_rev 0 (n - 1) (thomas_back_body gamma) u = Ok u' /\ length u' = n.
Proof.
  intros Lg Lu. unfold for_rev. rewrite Nat.sub_0_r.
  apply (for_rev_from_inv (fun (_ : nat) (w : list T) => length w = n)); [exact Lu|].
  intros k w Hk Lw. cbn [Nat.add]. unfold thomas_back_body.
  rewrite (rd_ok gamma (k + 1) zero) by lia. cbn [bind].
  rewrite (rd_ok w (k + 1) zero) by lia. cbn [bind].
  rewrite (rd_ok w k zero) by lia. cbn [bind].
  rewrite upd_ok by lia. eexists; split; [reflexivity|]. now rewrite upd_list_length.
Qed.

Lemma thomas_shape_lemma (t : tridiag) (r : list T) : wfT t -> 1 <= tn t -> length r = tn t ->
  (exists u, tsolve t r = Ok u /\ length u = tn t) \/ tsolve t r = Panic Guard.
Proof.
  intros W Hn Hr. pose proof W as (Hm & Hs & Hp).
  unfold tsolve. rewrite Hr, Nat.eqb_refl. cbn [negb].
  rewrite (rd_ok (tmain t) 0 zero) by lia. cbn [bind].
  destruct (eqb (nth 0 (tmain t) zero) zero) eqn:E0; [right; reflexivity|].
  rewrite (rd_ok r 0 zero) by lia. cbn [bind].
  destruct (div_answers (nth 0 r zero) (nth 0 (tmain t) zero) E0) as (q & Eq). rewrite Eq. cbn [bind].
  rewrite upd_ok by (rewrite repeat_length; lia). cbn [bind]. unfold for_.
  destruct (fwd_loop_shape t r (tn t - 1) W Hr 1
              (upd_list (repeat zero (tn t)) 0 q, nth 0 (tmain t) zero, repeat zero (tn t)))
    as [(s' & Es & Inv')|Es]; [lia|lia| | |].
  - unfold ShapeInv. rewrite upd_list_length, !repeat_length. auto.
  - rewrite Es. cbn [bind]. destruct s' as [[u beta] gamma]. destruct Inv' as (Lu & Lg & _).
    unfold usub. destruct (Nat.leb_spec 1 (tn t)); [|lia]. cbn [bind].
    destruct (back_loop_shape gamma u (tn t) Lg Lu) as (u' & Eu & Lu').
    left. exists u'. split; assumption.
  - rewrite Es. right. reflexivity.
Qed.

End Total.
