(* Proofs/IterField.v -- the solvers of Model/Iter.v over a field (FieldLaws) with ANY square-root
   function, the matrix given by linear products: the recurrence residual is the true residual
   b - A x at every exit of every solver (for QMR also s = A d); hence Ok means solved. *)
From Coq Require Import List Arith Lia Bool Ring Field.
From OV Require Import Base.Panic Base.Arith Model.Vector Model.Iter Proofs.Iter.
Import ListNotations.

(* a (partial) operator on vectors of length n that is total and linear there *)
Record LinOp {A : Arith} (n : nat) (mulA : list A -> res (list A)) : Prop := {
  lo_ok : forall v, length v = n -> exists w, mulA v = Ok w /\ length w = n;
  lo_add : forall u v a b, length u = n -> length v = n -> mulA u = Ok a -> mulA v = Ok b ->
           mulA (zipw add u v) = Ok (zipw add a b);
  lo_scale : forall c v a, length v = n -> mulA v = Ok a -> mulA (vscale v c) = Ok (vscale a c) }.

Section VecAlg.
Context {A : SArith}.
Notation F := (T (SA A)).
Variable FL : FieldLaws (SA A).
Add Field FF : (fl_field (SA A) FL).

Lemma zipw_sub_sub (a b c : list F) :
  zipw sub (zipw sub a b) c = zipw sub a (zipw add b c).
Proof.
  revert b c; induction a as [|x a IH]; intros [|y b] [|z c]; cbn; auto.
  f_equal; [ring | apply IH].
Qed.

Lemma zipw_add_assoc (a b c : list F) :
  zipw add (zipw add a b) c = zipw add a (zipw add b c).
Proof.
  revert b c; induction a as [|x a IH]; intros [|y b] [|z c]; cbn; auto.
  f_equal; [ring | apply IH].
Qed.

Lemma vscale_l_eq (c : F) (v : list F) : vscale_l c v = vscale v c.
Proof. unfold vscale_l, vscale. apply map_ext. intros x. ring. Qed.

Lemma vscale_zero (v : list F) : vscale v zero = repeat zero (length v).
Proof. induction v as [|x v IH]; cbn; auto. f_equal; [ring | apply IH]. Qed.

Lemma zipw_sub_self (v : list F) : zipw sub v v = repeat zero (length v).
Proof. induction v as [|x v IH]; cbn; auto. f_equal; [ring | apply IH]. Qed.

Lemma zipw_sub_zero_r (v : list F) : zipw sub v (repeat zero (length v)) = v.
Proof. induction v as [|x v IH]; cbn; auto. f_equal; [ring | apply IH]. Qed.

Lemma repeat_zero_vscale (n : nat) : vscale (repeat (@zero (SA A)) n) zero = repeat zero n.
Proof. rewrite vscale_zero. now rewrite repeat_length. Qed.

End VecAlg.

Section Invariants.
Context {A : SArith}.
Notation F := (T (SA A)).
Variable FL : FieldLaws (SA A).
Add Field FF2 : (fl_field (SA A) FL).
Variables (n : nat) (mulA mulAT : list F -> res (list F)).
Hypothesis LO : LinOp n mulA.

Lemma mulA_len v w : mulA v = Ok w -> length v = n -> length w = n.
Proof. intros E Hv. destruct (lo_ok n mulA LO v Hv) as (w' & E' & Hw). congruence. Qed.

Lemma vadd_n (u v w : list F) : vadd u v = Ok w -> length u = n ->
  w = zipw add u v /\ length v = n /\ length w = n.
Proof.
  intros E Hu. apply vadd_Ok in E as (Hl & ->). split; auto. split; [lia|].
  rewrite zipw_length; auto.
Qed.
Lemma vadd_n' (u v w : list F) : vadd u v = Ok w -> length v = n ->
  w = zipw add u v /\ length u = n /\ length w = n.
Proof.
  intros E Hv. apply vadd_Ok in E as (Hl & ->). split; auto. split; [lia|].
  rewrite zipw_length; auto. lia.
Qed.
Lemma vsub_n (u v w : list F) : vsub u v = Ok w -> length u = n ->
  w = zipw sub u v /\ length v = n /\ length w = n.
Proof.
  intros E Hu. apply vsub_Ok in E as (Hl & ->). split; auto. split; [lia|].
  rewrite zipw_length; auto.
Qed.

(* x' = x + p*alpha  with  q = A p :  A x' = A x + q*alpha *)
Lemma lin_axpy (x p ax q : list F) alpha :
  length x = n -> length p = n -> mulA x = Ok ax -> mulA p = Ok q ->
  mulA (zipw add x (vscale p alpha)) = Ok (zipw add ax (vscale q alpha)).
Proof.
  intros Hx Hp Ex Ep. apply (lo_add n mulA LO); auto.
  - now rewrite vscale_length.
  - now apply (lo_scale n mulA LO).
Qed.

(* the true residual of the state: A x is defined and r = b - A x *)
Definition tracks (b x r : list F) : Prop := exists ax, mulA x = Ok ax /\ r = zipw sub b ax.

Lemma tracks_axpy b x r p q alpha :
  length x = n -> length p = n -> tracks b x r -> mulA p = Ok q ->
  tracks b (zipw add x (vscale p alpha)) (zipw sub r (vscale q alpha)).
Proof.
  intros Hx Hp (ax & Ex & ->) Ep. exists (zipw add ax (vscale q alpha)). split.
  - now apply lin_axpy.
  - apply (zipw_sub_sub FL).
Qed.

(* ---------------------------------------------------------------- CG *)
Definition cg_inv (b : list F) (s : cg_st) : Prop :=
  length (cg_x s) = n /\ length (cg_r s) = n /\ length (cg_z s) = n /\ tracks b (cg_x s) (cg_r s).

Definition out_tracks (b : list F) (o : iout A) : Prop :=
  let '(_, x, g) := o in tracks b x (g_t g).

Ltac solve_len :=
  repeat (rewrite vscale_length || rewrite vscale_l_length); first [assumption | symmetry; assumption].

(* saturate the context with the shapes and lengths of the vectors an inverted body computed *)
Ltac len_step :=
  match goal with
  | E : Ok (?a, ?b, ?c) = Ok (?d, ?e, ?f) |- _ => is_var d; is_var e; is_var f; injection E as <- <- <-
  | E : Ok (?a, ?b) = Ok (?c, ?d) |- _ => is_var c; is_var d; injection E as <- <-
  | E : Ok ?a = Ok ?b |- _ => first [is_var b; injection E as <- | is_var a; injection E as ->]
  | E : ident_pre _ ?u ?v = Ok ?w |- _ => apply ident_pre_Ok in E as (-> & _); [|solve_len]
  | E : vadd ?u ?v = Ok ?w |- _ =>
      first [ apply vadd_n in E; [destruct E as (-> & ? & ?) | solve_len]
            | apply vadd_n' in E; [destruct E as (-> & ? & ?) | solve_len] ]
  | E : vsub ?u ?v = Ok ?w |- _ => apply vsub_n in E; [destruct E as (-> & ? & ?) | solve_len]
  | E : mulA ?v = Ok ?w |- _ =>
      lazymatch goal with
      | H : length w = n |- _ => fail
      | _ => assert (length w = n) by (apply (mulA_len v w E); solve_len)
      end
  end.
Ltac lens := repeat len_step.

Lemma cg_body_inv b tol normb i s out :
  cg_inv b s -> cg_body mulA n tol normb i s = Ok out ->
  match out with Continue s' => cg_inv b s' | Return o => out_tracks b o end.
Proof.
  intros (Hx & Hr & Hz & Htr). unfold cg_body. intros H. inv_res.
  all: lens; cbn; unfold cg_inv; cbn; repeat split; auto; apply tracks_axpy; auto.
Qed.

(* generic: every exit of a loop whose body preserves an invariant that implies [tracks] *)
Lemma loop_tracks {S} (body : nat -> S -> res (step_out S)) (final : S -> iout A) (Inv : S -> Prop) b fuel s0 o :
  (forall i s out, Inv s -> body i s = Ok out ->
     match out with Continue s' => Inv s' | Return o => out_tracks b o end) ->
  (forall s, Inv s -> out_tracks b (final s)) ->
  Inv s0 -> iloop body final fuel 1 s0 = Ok o -> out_tracks b o.
Proof.
  intros Hb Hf H0 E.
  destruct (iloop_char body final (fun _ s => Inv s)
              (fun i s s' HI Eb => Hb i s (Continue s') HI Eb) fuel 1 s0 o H0 E)
    as [(i & s & _ & HI & Eb)|(s & HI & ->)].
  - exact (Hb i s (Return o) HI Eb).
  - now apply Hf.
Qed.

Lemma tracks_start b x ax r : mulA x = Ok ax -> r = zipw sub b ax -> tracks b x r.
Proof. intros E ->. now exists ax. Qed.

Theorem solve_cg_tracks cols b x0 max tol o :
  solve_cg mulA n cols b x0 max tol = Ok o -> out_tracks b o.
Proof.
  unfold solve_cg. intros H. inv_res.
  all: match goal with E : guards _ _ _ _ = Ok _ |- _ => apply guards_Ok in E as (Hb & Hc & Hx) end.
  all: assert (Hx0 : length x0 = n) by lia; assert (Hb' : length b = n) by lia.
  all: lens.
  - cbn. eapply tracks_start; eauto.
  - eapply (loop_tracks _ _ (cg_inv b)); [| | |exact H].
    + intros i s out. apply cg_body_inv.
    + intros s (_ & _ & _ & Ht). exact Ht.
    + unfold cg_inv; cbn. repeat split; auto; try apply zeros_length. eapply tracks_start; eauto.
Qed.

(* ---------------------------------------------------------------- BiCG *)
Definition bicg_inv (b : list F) (s : bicg_st) : Prop :=
  length (bi_x s) = n /\ length (bi_r s) = n /\ length (bi_z s) = n /\ bi_z s = bi_r s /\
  tracks b (bi_x s) (bi_r s).

Lemma bicg_body_inv b itol tol bnrm i s out :
  bicg_inv b s -> bicg_body mulA mulAT n itol tol bnrm i s = Ok out ->
  match out with Continue s' => bicg_inv b s' | Return o => out_tracks b o end.
Proof.
  intros (Hx & Hr & Hz & Hzr & Htr). unfold bicg_body. intros H. inv_res.
  all: lens; cbn; try destruct (itol =? 2); unfold bicg_inv; cbn; repeat split; auto; apply tracks_axpy; auto.
Qed.

Theorem solve_bicg_tracks cols itol b x0 max tol o :
  solve_bicg mulA mulAT n cols itol b x0 max tol = Ok o -> out_tracks b o.
Proof.
  unfold solve_bicg, bicg_start. intros H. inv_res.
  all: match goal with E : guards _ _ _ _ = Ok _ |- _ => apply guards_Ok in E as (Hb & Hc & Hx) end.
  all: assert (Hx0 : length x0 = n) by lia; assert (Hb' : length b = n) by lia.
  all: assert (Hzl := @zeros_length A n).
  all: lens; cbn in *.
  1, 3: eapply tracks_start; eauto.
  all: eapply (loop_tracks _ _ (bicg_inv b)); [| | |eassumption].
  all: try (intros i s out; apply bicg_body_inv).
  all: try (intros s (_ & _ & _ & Hzr & Ht); unfold bicg_final, out_tracks; cbn; rewrite Hzr; destruct (itol =? 2); exact Ht).
  all: unfold bicg_inv; cbn; repeat split; auto; eapply tracks_start; eauto.
Qed.

(* ---------------------------------------------------------------- BiCGSTAB *)
Lemma tracks_axpy_l b x r p q alpha :
  length x = n -> length p = n -> tracks b x r -> mulA p = Ok q ->
  tracks b (zipw add x (vscale_l alpha p)) (zipw sub r (vscale q alpha)).
Proof. intros. rewrite (vscale_l_eq FL). now apply tracks_axpy. Qed.

Definition stab_inv (b : list F) (s : stab_st) : Prop :=
  length (st_x s) = n /\ length (st_r s) = n /\ length (st_phat s) = n /\ length (st_shat s) = n /\
  tracks b (st_x s) (st_r s).

Lemma stab_body_inv b rtilde tol normb i s out :
  stab_inv b s -> stab_body mulA n rtilde tol normb i s = Ok out ->
  match out with Continue s' => stab_inv b s' | Return o => out_tracks b o end.
Proof.
  intros (Hx & Hr & Hp & Hs & Htr). unfold stab_body. intros H. inv_res.
  all: lens; cbn; unfold stab_inv; cbn; repeat split; auto.
  all: try (apply tracks_axpy; auto).
  all: apply tracks_axpy_l; auto; apply tracks_axpy_l; auto.
Qed.

Theorem solve_bicgstab_tracks cols b x0 max tol o :
  solve_bicgstab mulA n cols b x0 max tol = Ok o -> out_tracks b o.
Proof.
  unfold solve_bicgstab. intros H. inv_res.
  all: match goal with E : guards _ _ _ _ = Ok _ |- _ => apply guards_Ok in E as (Hb & Hc & Hx) end.
  all: assert (Hx0 : length x0 = n) by lia; assert (Hb' : length b = n) by lia.
  all: assert (Hzl := @zeros_length A n).
  all: lens; cbn in *.
  - eapply tracks_start; eauto.
  - eapply (loop_tracks _ _ (stab_inv b)); [| | |eassumption].
    + intros i s out. apply stab_body_inv.
    + intros s (_ & _ & _ & _ & Ht). exact Ht.
    + unfold stab_inv; cbn; repeat split; auto. eapply tracks_start; eauto.
Qed.

(* ---------------------------------------------------------------- QMR *)
Lemma mapM_length {X Y} (f : X -> res Y) (l : list X) (l' : list Y) :
  mapM f l = Ok l' -> length l' = length l.
Proof.
  revert l'; induction l as [|x l IH]; cbn; intros l' E.
  - injection E as <-; auto.
  - apply bind_ok in E as (y & _ & E). apply bind_ok in E as (t & Et & E). injection E as <-.
    cbn. f_equal. now apply IH.
Qed.
Lemma vdiv_n (u w : list F) c : vdiv u c = Ok w -> length u = n -> length w = n.
Proof. intros E Hu. apply mapM_length in E. lia. Qed.

Lemma mulA_zeros : mulA (zeros n) = Ok (zeros n).
Proof.
  destruct (lo_ok n mulA LO (zeros n) (zeros_length n)) as (w & Ew & Hw).
  pose proof (lo_scale n mulA LO zero (zeros n) w (zeros_length n) Ew) as E.
  unfold zeros in *. rewrite (repeat_zero_vscale FL) in E. rewrite (vscale_zero FL), Hw in E. exact E.
Qed.

(* x' = x + d, r' = r - s  with  s = A d *)
Lemma tracks_add b x r d s :
  length x = n -> length d = n -> tracks b x r -> mulA d = Ok s ->
  tracks b (zipw add x d) (zipw sub r s).
Proof.
  intros Hx Hd (ax & Ex & ->) Ed. exists (zipw add ax s). split.
  - now apply (lo_add n mulA LO).
  - apply (zipw_sub_sub FL).
Qed.

Lemma lin_comb (p pt d s : list F) eta c :
  length p = n -> length d = n -> mulA p = Ok pt -> mulA d = Ok s ->
  mulA (zipw add (vscale_l eta p) (vscale_l c d)) = Ok (zipw add (vscale_l eta pt) (vscale_l c s)).
Proof.
  intros Hp Hd Ep Ed. rewrite !(vscale_l_eq FL). apply (lo_add n mulA LO).
  - now rewrite vscale_length.
  - now rewrite vscale_length.
  - now apply (lo_scale n mulA LO).
  - now apply (lo_scale n mulA LO).
Qed.
Lemma lin_scale_l (p pt : list F) eta :
  length p = n -> mulA p = Ok pt -> mulA (vscale_l eta p) = Ok (vscale_l eta pt).
Proof. intros Hp Ep. rewrite !(vscale_l_eq FL). now apply (lo_scale n mulA LO). Qed.

Definition qmr_inv (b : list F) (s : qmr_st) : Prop :=
  length (q_x s) = n /\ length (q_r s) = n /\ length (q_y s) = n /\ length (q_d s) = n /\
  mulA (q_d s) = Ok (q_s s) /\ tracks b (q_x s) (q_r s).

Lemma qmr_body_inv b tol normb i s out :
  qmr_inv b s -> qmr_body mulA mulAT tol normb i s = Ok out ->
  match out with Continue s' => qmr_inv b s' | Return o => out_tracks b o end.
Proof.
  intros (Hx & Hr & Hy & Hd & Hds & Htr). unfold qmr_body, qmr_exit. intros H. inv_res.
  all: repeat match goal with E : vdiv ?u _ = Ok ?w |- _ =>
         lazymatch goal with Hl : length u = n |- _ => apply vdiv_n in E; [|exact Hl] end end.
  all: lens; cbn; unfold qmr_inv; cbn; repeat split; auto.
  all: try (apply tracks_add; auto).
  all: first [apply lin_comb; auto | apply lin_scale_l; auto].
Qed.

Theorem solve_qmr_tracks cols b x0 max tol o :
  solve_qmr mulA mulAT n cols b x0 max tol = Ok o -> out_tracks b o.
Proof.
  unfold solve_qmr. intros H. inv_res.
  all: match goal with E : guards _ _ _ _ = Ok _ |- _ => apply guards_Ok in E as (Hb & Hc & Hx) end.
  all: assert (Hx0 : length x0 = n) by lia; assert (Hb' : length b = n) by lia.
  all: assert (Hzl := @zeros_length A n).
  all: lens; cbn in *.
  - eapply tracks_start; eauto.
  - eapply (loop_tracks _ _ (qmr_inv b)); [| | |eassumption].
    + intros i s out. apply qmr_body_inv.
    + intros s (_ & _ & _ & _ & _ & Ht). exact Ht.
    + unfold qmr_inv; cbn; repeat split; auto; [apply mulA_zeros | eapply tracks_start; eauto].
Qed.

(* ---------------------------------------------------------------- all four at once *)
Theorem run_tracks cols sv b x0 max tol o :
  run mulA mulAT n cols sv b x0 max tol = Ok o -> out_tracks b o.
Proof.
  destruct sv as [|itol| |]; cbn [run].
  - apply solve_cg_tracks.
  - apply solve_bicg_tracks.
  - apply solve_bicgstab_tracks.
  - apply solve_qmr_tracks.
Qed.

(* Ok k: the TRUE residual b - A x passed the code's test *)
Theorem run_ok_solved cols sv b x0 max tol k x g :
  run mulA mulAT n cols sv b x0 max tol = Ok (IOk k, x, g) ->
  exists ax resid, mulA x = Ok ax /\
    div (norm2 (zipw sub b ax)) (nz (norm2 b)) = Ok resid /\
    (leb resid tol = true \/ ltb resid tol = true).
Proof.
  intros H. pose proof (run_tracks _ _ _ _ _ _ _ H) as (ax & Eax & Eg). cbn in Eg.
  destruct (proj2 (run_ok_inv _ _ _ _ _ _ _ _ _ _ _ _ H)) as (resid & Er & Ht).
  exists ax, resid. rewrite <- Eg. auto.
Qed.

End Invariants.

(* ------------------------------------------------------------------ degenerate starts (C09) *)
Record SqrtLaws (A : SArith) : Prop := {
  sl_sqrt0 : sqrt (@zero (SA A)) = zero;       (* all that is needed of the square root *)
  sl_abs0 : abs (@zero (SA A)) = zero }.

Section Degenerate.
Context {A : SArith}.
Notation F := (T (SA A)).
Variable FL : FieldLaws (SA A).
Variable SL : SqrtLaws A.
Add Field FF3 : (fl_field (SA A) FL).
Variables (n : nat) (mulA mulAT : list F -> res (list F)).
Hypothesis LO : LinOp n mulA.

Lemma norm2_zeros m : norm2 (repeat (@zero (SA A)) m) = zero.
Proof.
  unfold norm2.
  assert (E : fold_left (fun acc x : F => add acc (mul (abs x) (abs x))) (repeat zero m) zero = zero).
  { induction m as [|m IH]; cbn; auto. rewrite (sl_abs0 A SL).
    replace (add zero (mul zero zero)) with (@zero (SA A)) by ring. exact IH. }
  rewrite E. apply (sl_sqrt0 A SL).
Qed.

Lemma one_neq_zero : @one (SA A) <> zero.
Proof. exact (F_1_neq_0 (fl_field (SA A) FL)). Qed.

Lemma nz_nonzero (x : F) : eqb (nz x) zero = false.
Proof.
  unfold nz. destruct (eqb x zero) eqn:E; auto.
  destruct (eqb one zero) eqn:E1; auto. apply (fl_eqb (SA A) FL) in E1. now apply one_neq_zero in E1.
Qed.

Lemma div_zero_nz (x : F) : div zero (nz x) = Ok zero.
Proof.
  rewrite (fl_div (SA A) FL), nz_nonzero. f_equal. ring.
Qed.

Lemma guards_pass (b x : list F) : length b = n -> length x = n -> guards n n b x = Ok tt.
Proof. intros Hb Hx. unfold guards. rewrite Hb, Hx, Nat.eqb_refl. reflexivity. Qed.

(* a guess whose residual b - A x0 is the zero vector is returned at once, untouched *)
Theorem run_exact_guess sv b x0 max tol ax :
  (forall itol, sv = BiCG itol -> itol = 1 \/ itol = 2) ->
  length b = n -> length x0 = n -> mulA x0 = Ok ax -> zipw sub b ax = repeat zero n ->
  leb zero tol = true ->
  exists g, run mulA mulAT n n sv b x0 max tol = Ok (IOk 0, x0, g).
Proof.
  intros Hit Hb Hx Eax Er Htol.
  assert (Hax : length ax = n).
  { destruct (lo_ok n mulA LO x0 Hx) as (w & Ew & Hw). congruence. }
  assert (Evs : vsub b ax = Ok (repeat zero n)).
  { unfold vsub. rewrite Hb, Hax, Nat.eqb_refl. now rewrite Er. }
  destruct sv as [|itol| |]; cbn [run].
  - unfold solve_cg. rewrite guards_pass, Eax by auto. cbn [bind]. rewrite Evs. cbn [bind].
    rewrite norm2_zeros, div_zero_nz. cbn [bind]. rewrite Htol. eauto.
  - unfold solve_bicg, bicg_start. rewrite guards_pass, Eax by auto. cbn [bind]. rewrite Evs. cbn [bind].
    destruct (Hit itol eq_refl) as [-> | ->]; cbn [Nat.eqb].
    + rewrite ident_pre_ok by (rewrite ?repeat_length; auto; apply zeros_length). cbn [bind fst snd].
      rewrite norm2_zeros, div_zero_nz. cbn [bind]. rewrite Htol. eauto.
    + rewrite ident_pre_ok by (auto; apply zeros_length). cbn [bind].
      rewrite ident_pre_ok by (rewrite ?repeat_length; auto). cbn [bind fst snd].
      rewrite norm2_zeros, div_zero_nz. cbn [bind]. rewrite Htol. eauto.
  - unfold solve_bicgstab. rewrite guards_pass, Eax by auto. cbn [bind]. rewrite Evs. cbn [bind].
    rewrite norm2_zeros, div_zero_nz. cbn [bind]. rewrite Htol. eauto.
  - unfold solve_qmr. rewrite guards_pass, Eax by auto. cbn [bind]. rewrite Evs. cbn [bind].
    rewrite norm2_zeros, div_zero_nz. cbn [bind]. rewrite Htol. eauto.
Qed.

(* zero right-hand side with a zero guess *)
Theorem run_zero_rhs_zero_guess sv max tol :
  (forall itol, sv = BiCG itol -> itol = 1 \/ itol = 2) ->
  leb zero tol = true ->
  exists g, run mulA mulAT n n sv (repeat zero n) (repeat zero n) max tol = Ok (IOk 0, repeat zero n, g).
Proof.
  intros Hit Htol. apply (run_exact_guess sv _ _ max tol (repeat zero n)); auto using repeat_length.
  - exact (mulA_zeros FL n mulA LO).
  - rewrite <- (repeat_length (@zero (SA A)) n) at 3. rewrite (zipw_sub_self FL). now rewrite repeat_length.
Qed.

End Degenerate.
