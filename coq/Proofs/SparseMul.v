(* Proofs/SparseMul.v -- C07: the scatter loop of multiply and the gather loop of transpose_multiply
   are sums over the stored entries; hence dense products, the adjoint identity and scaling.
   Ring laws only (RingLaws A as a Section hypothesis, discharged at Qc in Props/C07.v). *)
From Coq Require Import List Arith Lia Bool Ring.
From OV Require Import Base.Panic Base.Arith Model.Vector Model.Matrix Model.Sparse Proofs.SparseBase.
Import ListNotations.
Local Open Scope arith_scope.

Section Defs.
Context {A : Arith}.
Notation T := (T A).
Notation sparse := (sparse A).

(* sum of a list in storage order (left fold from zero, as the += loops accumulate) *)
Definition suml (l : list T) : T := fold_left add l zero.

(* the (i,j) entry of the matrix a compressed-column structure denotes: the sum of the values of
   column segment j whose row index is i (one value, or none, when no position is stored twice) *)
Definition sp_entry (s : sparse) (i j : nat) : T :=
  suml (map (fun k => nth k (sp_val s) zero)
            (filter (fun k => nth k (sp_row_index s) 0 =? i) (seg (sp_col_start s) j))).

(* textbook products of an r x c matrix given by its entries *)
Definition dmulv (f : nat -> nat -> T) (r c : nat) (x : list T) : list T :=
  map (fun i => sum_n c (fun j => f i j * nth j x zero)) (seq 0 r).
Definition dtmulv (f : nat -> nat -> T) (r c : nat) (y : list T) : list T :=
  map (fun j => sum_n r (fun i => f i j * nth i y zero)) (seq 0 c).
End Defs.

(* ---------- list plumbing ---------- *)
Lemma fold_left_map_comp {S X Y} (f : S -> Y -> S) (h : X -> Y) l s :
  fold_left f (map h l) s = fold_left (fun s x => f s (h x)) l s.
Proof. revert s; induction l as [|x t IH]; intros s; cbn; auto. Qed.

Lemma filter_map_comm {X Y} (P : Y -> bool) (h : X -> Y) l :
  filter P (map h l) = map h (filter (fun x => P (h x)) l).
Proof. induction l as [|x t IH]; cbn; auto. destruct (P (h x)); cbn; now rewrite IH. Qed.

Lemma nth_map_seq {X} (f : nat -> X) n i d : i < n -> nth i (map f (seq 0 n)) d = f i.
Proof.
  intros H. rewrite (nth_indep _ d (f 0)) by (rewrite map_length, seq_length; auto).
  rewrite (map_nth f (seq 0 n) 0 i). now rewrite seq_nth.
Qed.

Section Scatter.
Context {A : Arith}.
Notation T := (T A).

(* res[i] += v for every (i, v) of a list: entry p accumulates, in order, the values sent to p *)
Definition scat (res : list T) (w : nat * T) : list T :=
  upd_list res (fst w) (nth (fst w) res zero + snd w).

Lemma scat_length ws (init : list T) : length (fold_left scat ws init) = length init.
Proof.
  revert init; induction ws as [|w t IH]; intros init; cbn; auto.
  rewrite IH. unfold scat. apply upd_list_length.
Qed.

Lemma scat_nth (ws : list (nat * T)) (init : list T) p :
  (forall w, In w ws -> fst w < length init) ->
  nth p (fold_left scat ws init) zero =
  fold_left add (map snd (filter (fun w => fst w =? p) ws)) (nth p init zero).
Proof.
  revert init; induction ws as [|w t IH]; intros init H; cbn; auto.
  rewrite IH.
  2:{ intros w' Hw'. unfold scat. rewrite upd_list_length. apply H; right; auto. }
  assert (Hw : fst w < length init) by (apply H; left; auto).
  unfold scat. rewrite nth_upd_list by auto.
  destruct (Nat.eqb_spec (fst w) p) as [E|E].
  - subst p. rewrite Nat.eqb_refl. cbn. reflexivity.
  - destruct (Nat.eqb_spec p (fst w)); [congruence|]. reflexivity.
Qed.
End Scatter.

Section Mul.
Context {A : Arith}.
Variable RL : RingLaws A.
Notation T := (T A).
Notation sparse := (sparse A).
Add Ring Aring : (rl_ring A RL).

(* ---------- sums ---------- *)
Lemma fold_add_acc (l : list T) a : fold_left add l a = a + suml l.
Proof.
  unfold suml. revert a; induction l as [|x t IH]; intros a; cbn.
  - ring.
  - rewrite IH, (IH (zero + x)). ring.
Qed.

Lemma suml_nil : suml (@nil T) = zero.
Proof. reflexivity. Qed.

Lemma suml_cons x (l : list T) : suml (x :: l) = x + suml l.
Proof. unfold suml at 1. cbn. rewrite fold_add_acc. ring. Qed.

Lemma suml_app (l1 l2 : list T) : suml (l1 ++ l2) = suml l1 + suml l2.
Proof. unfold suml at 1. rewrite fold_left_app. fold (suml l1). now rewrite fold_add_acc. Qed.

Lemma suml_scale_r {X} (f : X -> T) c l : suml (map (fun k => f k * c) l) = suml (map f l) * c.
Proof.
  induction l as [|x t IH]; cbn [map].
  - rewrite suml_nil. ring.
  - rewrite !suml_cons, IH. ring.
Qed.

Lemma sum_n_zero n : sum_n n (fun _ => @zero A) = zero.
Proof. induction n as [|n IH]; cbn; auto. rewrite IH. ring. Qed.

Lemma sum_n_add n (f g : nat -> T) : sum_n n (fun k => f k + g k) = sum_n n f + sum_n n g.
Proof. induction n as [|n IH]; cbn. - ring. - rewrite IH. ring. Qed.

Lemma sum_n_scale_r n (f : nat -> T) c : sum_n n (fun k => f k * c) = sum_n n f * c.
Proof. induction n as [|n IH]; cbn. - ring. - rewrite IH. ring. Qed.

Lemma sum_n_scale_l n (f : nat -> T) c : sum_n n (fun k => c * f k) = c * sum_n n f.
Proof. induction n as [|n IH]; cbn. - ring. - rewrite IH. ring. Qed.

Lemma sum_n_delta n p (v : T) : p < n -> sum_n n (fun i => if p =? i then v else zero) = v.
Proof.
  induction n as [|n IH]; intros H; [lia|]. cbn.
  destruct (Nat.eqb_spec p n) as [->|Hne].
  - rewrite (sum_n_ext n _ (fun _ => zero)).
    + rewrite sum_n_zero. ring.
    + intros k Hk. destruct (Nat.eqb_spec n k); [lia|auto].
  - rewrite IH by lia. ring.
Qed.

Lemma sum_n_shift n (f : nat -> T) : sum_n (S n) f = f 0 + sum_n n (fun k => f (S k)).
Proof.
  induction n as [|n IH].
  - cbn. ring.
  - change (sum_n (S (S n)) f) with (sum_n (S n) f + f (S n)). rewrite IH. cbn. ring.
Qed.

Lemma sum_n_swap n m (f : nat -> nat -> T) :
  sum_n n (fun i => sum_n m (fun j => f i j)) = sum_n m (fun j => sum_n n (fun i => f i j)).
Proof.
  induction n as [|n IH]; cbn.
  - now rewrite sum_n_zero.
  - rewrite IH. now rewrite <- sum_n_add.
Qed.

(* a sum over a list, split by a key with values below n *)
Lemma suml_partition (key : nat -> nat) (f : nat -> T) (l : list nat) n :
  (forall k, In k l -> key k < n) ->
  suml (map f l) = sum_n n (fun i => suml (map f (filter (fun k => key k =? i) l))).
Proof.
  induction l as [|a l IH]; intros H.
  - cbn. now rewrite sum_n_zero.
  - cbn [map]. rewrite suml_cons, IH by (intros; apply H; right; auto).
    rewrite <- (sum_n_delta n (key a) (f a)) at 1 by (apply H; left; auto).
    rewrite <- sum_n_add. apply sum_n_ext. intros i Hi. cbn [filter].
    destruct (key a =? i); cbn [map].
    + now rewrite suml_cons.
    + ring.
Qed.

(* a sum over the entries the column walk visits, grouped by column *)
Lemma suml_visits (F : nat -> nat -> T) (P : nat -> nat -> bool) cs n :
  suml (map (fun jk => F (fst jk) (snd jk)) (filter (fun jk => P (fst jk) (snd jk)) (visits cs n)))
  = sum_n n (fun j => suml (map (F j) (filter (P j) (seg cs j)))).
Proof.
  induction n as [|n IH].
  - reflexivity.
  - rewrite visits_S, filter_app, map_app, suml_app, IH. cbn [sum_n]. f_equal.
    rewrite filter_map_comm, map_map. reflexivity.
Qed.

(* dot product as an indexed sum *)
Lemma dot_raw_sum (u w : list T) : length u = length w ->
  dot_raw u w = sum_n (length u) (fun i => nth i u zero * nth i w zero).
Proof.
  unfold dot_raw.
  assert (G : forall (u w : list T) a, length u = length w ->
     fold_left (fun acc p => acc + fst p * snd p) (combine u w) a
     = a + sum_n (length u) (fun i => nth i u zero * nth i w zero)).
  { clear u w. induction u as [|x u IH]; intros [|y w] a Hl; cbn in Hl; try lia.
    - cbn. ring.
    - cbn [combine fold_left fst snd length]. rewrite IH by lia.
      rewrite (sum_n_shift (length u)). cbn [nth]. ring. }
  intros Hl. rewrite G by auto. ring.
Qed.

(* ---------- multiply: the scatter loop ---------- *)
Lemma sp_mul_fold (s : sparse) (x : list T) : wfS s -> length x = sp_cols s ->
  sp_mul s x = Ok (fold_left scat
     (map (fun jk => (nth (snd jk) (sp_row_index s) 0, nth (snd jk) (sp_val s) zero * nth (fst jk) x zero))
          (visits (sp_col_start s) (sp_cols s)))
     (repeat zero (sp_rows s))).
Proof.
  intros Hwf Hx. unfold sp_mul. rewrite <- Hx, Nat.eqb_refl. cbn [negb]. rewrite Hx.
  rewrite (for_cols_foldM _ _ _ (fun j => nth j x zero)).
  2:{ now apply wf_length_cs. }
  2:{ intros j Hj. apply rd_ok. lia. }
  rewrite fold_left_map_comp.
  apply (foldM_pure (fun res => length res = sp_rows s)).
  - apply repeat_length.
  - intros res jk Hres Hin.
    destruct (wf_visit_lt s jk Hwf Hin) as [Hj Hk]. pose proof (wf_row_lt s jk Hwf Hin) as Hr.
    destruct Hwf as (_ & _ & _ & _ & Hv & Hri & _).
    rewrite (rd_ok (sp_row_index s) (snd jk) 0) by lia. cbn [bind].
    rewrite (rd_ok (sp_val s) (snd jk) zero) by lia. cbn [bind].
    rewrite (rd_ok res _ zero) by lia. cbn [bind].
    rewrite upd_ok by lia. unfold scat. cbn [fst snd]. split; auto.
    now rewrite upd_list_length.
Qed.

Theorem sp_mul_spec_lemma (s : sparse) (x : list T) : wfS s -> length x = sp_cols s ->
  sp_mul s x = Ok (dmulv (sp_entry s) (sp_rows s) (sp_cols s) x).
Proof.
  intros Hwf Hx. rewrite sp_mul_fold by auto. f_equal.
  apply (nth_ext _ _ zero zero).
  - rewrite scat_length, repeat_length. unfold dmulv. now rewrite map_length, seq_length.
  - rewrite scat_length, repeat_length. intros i Hi.
    unfold dmulv. rewrite nth_map_seq by auto.
    rewrite scat_nth.
    2:{ intros w Hw. apply in_map_iff in Hw as (jk & <- & Hin). cbn [fst].
        rewrite repeat_length. now apply wf_row_lt. }
    rewrite nth_repeat. fold (suml (map snd (filter (fun w : nat * T => fst w =? i)
      (map (fun jk => (nth (snd jk) (sp_row_index s) 0, nth (snd jk) (sp_val s) zero * nth (fst jk) x zero))
           (visits (sp_col_start s) (sp_cols s)))))).
    rewrite filter_map_comm, map_map. cbn [fst snd].
    rewrite (suml_visits (fun j k => nth k (sp_val s) zero * nth j x zero)
                         (fun _ k => nth k (sp_row_index s) 0 =? i)).
    apply sum_n_ext. intros j Hj. unfold sp_entry. now rewrite suml_scale_r.
Qed.

(* ---------- transpose_multiply: the gather loop ---------- *)
Lemma sp_tmul_fold (s : sparse) (y : list T) : wfS s -> length y = sp_rows s ->
  sp_tmul s y = Ok (fold_left scat
     (map (fun jk => (fst jk, nth (snd jk) (sp_val s) zero * nth (nth (snd jk) (sp_row_index s) 0) y zero))
          (visits (sp_col_start s) (sp_cols s)))
     (repeat zero (sp_cols s))).
Proof.
  intros Hwf Hy. unfold sp_tmul. rewrite <- Hy, Nat.eqb_refl. cbn [negb].
  rewrite (for_cols_foldM _ _ _ (fun _ => tt)); auto.
  2:{ now apply wf_length_cs. }
  rewrite fold_left_map_comp.
  apply (foldM_pure (fun res => length res = sp_cols s)).
  - apply repeat_length.
  - intros res jk Hres Hin.
    destruct (wf_visit_lt s jk Hwf Hin) as [Hj Hk]. pose proof (wf_row_lt s jk Hwf Hin) as Hr.
    destruct Hwf as (_ & _ & _ & _ & Hv & Hri & _).
    rewrite (rd_ok (sp_val s) (snd jk) zero) by lia. cbn [bind].
    rewrite (rd_ok (sp_row_index s) (snd jk) 0) by lia. cbn [bind].
    rewrite (rd_ok y _ zero) by lia. cbn [bind].
    rewrite (rd_ok res _ zero) by lia. cbn [bind].
    rewrite upd_ok by lia. unfold scat. cbn [fst snd]. split; auto.
    now rewrite upd_list_length.
Qed.

Theorem sp_tmul_spec_lemma (s : sparse) (y : list T) : wfS s -> length y = sp_rows s ->
  sp_tmul s y = Ok (dtmulv (sp_entry s) (sp_rows s) (sp_cols s) y).
Proof.
  intros Hwf Hy. rewrite sp_tmul_fold by auto. f_equal.
  apply (nth_ext _ _ zero zero).
  - rewrite scat_length, repeat_length. unfold dtmulv. now rewrite map_length, seq_length.
  - rewrite scat_length, repeat_length. intros j Hj.
    unfold dtmulv. rewrite nth_map_seq by auto.
    rewrite scat_nth.
    2:{ intros w Hw. apply in_map_iff in Hw as (jk & <- & Hin). cbn [fst].
        rewrite repeat_length. now apply (wf_visit_lt s jk Hwf). }
    rewrite nth_repeat. fold (suml (map snd (filter (fun w : nat * T => fst w =? j)
      (map (fun jk => (fst jk, nth (snd jk) (sp_val s) zero * nth (nth (snd jk) (sp_row_index s) 0) y zero))
           (visits (sp_col_start s) (sp_cols s)))))).
    rewrite filter_map_comm, map_map. cbn [fst snd].
    rewrite (suml_visits (fun _ k => nth k (sp_val s) zero * nth (nth k (sp_row_index s) 0) y zero)
                         (fun j' _ => j' =? j)).
    (* only column j contributes *)
    rewrite (sum_n_ext _ _ (fun j' => if j =? j' then
         suml (map (fun k => nth k (sp_val s) zero * nth (nth k (sp_row_index s) 0) y zero) (seg (sp_col_start s) j))
         else zero)).
    2:{ intros j' Hj'. destruct (Nat.eqb_spec j j') as [<-|Hne].
        - rewrite Nat.eqb_refl. f_equal. f_equal. clear. induction (seg (sp_col_start s) j); cbn; congruence.
        - destruct (Nat.eqb_spec j' j); [congruence|].
          replace (filter (fun _ : nat => false) (seg (sp_col_start s) j')) with (@nil nat); auto.
          clear. induction (seg (sp_col_start s) j'); cbn; auto. }
    rewrite sum_n_delta by auto.
    (* split the column's sum by row index *)
    rewrite (suml_partition (fun k => nth k (sp_row_index s) 0) _ _ (sp_rows s)).
    2:{ intros k Hk. apply (wf_row_lt s (j, k) Hwf). apply visits_in. unfold seg in Hk. apply in_seq in Hk. lia. }
    apply sum_n_ext. intros i Hi. unfold sp_entry.
    rewrite <- suml_scale_r. f_equal. apply map_ext_in. intros k Hk.
    apply filter_In in Hk as [_ Hk]. apply Nat.eqb_eq in Hk. now rewrite Hk.
Qed.

(* ---------- adjoint identity ---------- *)
Lemma dense_adjoint (E : nat -> nat -> T) r c (x y : list T) : length x = c -> length y = r ->
  dot_raw y (dmulv E r c x) = dot_raw (dtmulv E r c y) x.
Proof.
  intros Hx Hy.
  rewrite dot_raw_sum by (unfold dmulv; now rewrite map_length, seq_length).
  rewrite dot_raw_sum by (unfold dtmulv; now rewrite map_length, seq_length).
  unfold dtmulv at 1. rewrite map_length, seq_length, Hy.
  rewrite (sum_n_ext r _ (fun i => sum_n c (fun j => nth i y zero * (E i j * nth j x zero)))).
  2:{ intros i Hi. unfold dmulv. rewrite nth_map_seq by auto. now rewrite sum_n_scale_l. }
  rewrite sum_n_swap. apply sum_n_ext. intros j Hj.
  unfold dtmulv. rewrite nth_map_seq by auto. rewrite <- sum_n_scale_r.
  apply sum_n_ext. intros i Hi. ring.
Qed.

Theorem sp_adjoint_lemma (s : sparse) (x y : list T) : wfS s -> length x = sp_cols s -> length y = sp_rows s ->
  exists u w d, sp_mul s x = Ok u /\ sp_tmul s y = Ok w /\ dot y u = Ok d /\ dot w x = Ok d.
Proof.
  intros Hwf Hx Hy.
  exists (dmulv (sp_entry s) (sp_rows s) (sp_cols s) x), (dtmulv (sp_entry s) (sp_rows s) (sp_cols s) y),
         (dot_raw y (dmulv (sp_entry s) (sp_rows s) (sp_cols s) x)).
  split; [now apply sp_mul_spec_lemma|]. split; [now apply sp_tmul_spec_lemma|].
  unfold dot. unfold dmulv at 1. rewrite map_length, seq_length, Hy, Nat.eqb_refl.
  unfold dtmulv at 1. rewrite map_length, seq_length, Hx, Nat.eqb_refl.
  split; auto. f_equal. symmetry. now apply dense_adjoint.
Qed.

(* ---------- scaling ---------- *)
Lemma sp_scale_ok (s : sparse) (a : T) : wfS s ->
  sp_scale s a = Ok (mkS (sp_rows s) (sp_cols s) (sp_nonzero s) (map (fun v => v * a) (sp_val s))
                         (sp_row_index s) (sp_col_start s)).
Proof.
  intros Hwf. unfold sp_scale.
  destruct Hwf as (_ & _ & _ & _ & Hv & _).
  destruct (for_inv (fun i v => length v = length (sp_val s) /\
              forall k, nth k v zero = if k <? i then nth k (sp_val s) zero * a else nth k (sp_val s) zero)
            0 (sp_nonzero s) (fun k v => let* x := rd v k in upd v k (x * a)) (sp_val s)) as (v' & E & Hlen & Hnth).
  - lia.
  - split; auto.
  - intros i v Hi (Hl & Hn).
    rewrite (rd_ok v i zero) by lia. cbn [bind]. rewrite upd_ok by lia.
    eexists; split; [reflexivity|]. split; [now rewrite upd_list_length|].
    intros k. rewrite nth_upd_list by lia. rewrite !Hn.
    destruct (Nat.eqb_spec k i) as [->|Hne].
    + rewrite Nat.ltb_irrefl. destruct (Nat.ltb_spec i (S i)); [auto|lia].
    + destruct (Nat.ltb_spec k i), (Nat.ltb_spec k (S i)); auto; lia.
  - rewrite E. cbn [bind]. do 2 f_equal.
    apply (nth_ext _ _ zero zero); [now rewrite map_length|].
    intros k Hk. rewrite Hnth. destruct (Nat.ltb_spec k (sp_nonzero s)); [|lia].
    rewrite (nth_indep (map _ _) zero (zero * a)) by (rewrite map_length; lia).
    now rewrite (map_nth (fun v => v * a)).
Qed.

Lemma sp_scale_wf (s : sparse) (a : T) s' : wfS s -> sp_scale s a = Ok s' -> wfS s'.
Proof.
  intros Hwf E. rewrite sp_scale_ok in E by auto. injection E as <-.
  destruct Hwf as (H1 & H2 & H3 & H4 & H5 & H6 & H7). unfold wfS; cbn. rewrite map_length. tauto.
Qed.

Lemma sp_entry_scale (s : sparse) (a : T) i j :
  sp_entry (mkS (sp_rows s) (sp_cols s) (sp_nonzero s) (map (fun v => v * a) (sp_val s))
                (sp_row_index s) (sp_col_start s)) i j = sp_entry s i j * a.
Proof.
  unfold sp_entry. cbn [sp_val sp_row_index sp_col_start]. rewrite <- suml_scale_r. f_equal.
  apply map_ext. intros k.
  destruct (Nat.lt_ge_cases k (length (sp_val s))) as [Hk|Hk].
  - rewrite (nth_indep _ zero (zero * a)) by (now rewrite map_length).
    now rewrite (map_nth (fun v => v * a)).
  - rewrite !nth_overflow by (try rewrite map_length; lia). ring.
Qed.

Theorem sp_scale_mul_lemma (s : sparse) (a : T) (x : list T) : wfS s -> length x = sp_cols s ->
  exists s' u, sp_scale s a = Ok s' /\ wfS s' /\ sp_mul s x = Ok u /\ sp_mul s' x = Ok (vscale u a).
Proof.
  intros Hwf Hx. eexists. exists (dmulv (sp_entry s) (sp_rows s) (sp_cols s) x).
  split; [now apply sp_scale_ok|].
  assert (Hwf' : wfS (mkS (sp_rows s) (sp_cols s) (sp_nonzero s) (map (fun v => v * a) (sp_val s))
                (sp_row_index s) (sp_col_start s))).
  { eapply sp_scale_wf; eauto. now apply sp_scale_ok. }
  split; auto. split; [now apply sp_mul_spec_lemma|].
  rewrite sp_mul_spec_lemma by auto. cbn [sp_rows sp_cols]. f_equal.
  unfold vscale, dmulv. rewrite map_map. apply map_ext. intros i.
  rewrite <- sum_n_scale_r. apply sum_n_ext. intros j Hj. rewrite sp_entry_scale. ring.
Qed.

End Mul.
