(* Proofs/ParDotFloat.v -- C16, P3: over IEEE binary64 (Coq's primitive floats, related to Flocq's binary_float by
   Flocq.IEEE754.PrimFloat), on integer-valued data whose products sum to less than 2^53 in absolute value the
   threaded dot product is BIT-IDENTICAL to the sequential one, for every worker count.
   Method: an "exactly holds the integer z" invariant (finite, real value IZR z, and an accumulator is never -0)
   preserved by the rounded * and + as long as the integer result stays below 2^53 (Bmult_correct / Bplus_correct +
   integers below 2^53 are in the format), carried through the sequential loop, each worker's loop and the main
   thread's loop of the closed form (Proofs/ParDot.v); both sides then hold the same integer, hence are equal. *)
From Coq Require Import ZArith Reals Floats Lia Lra List Bool Arith.
From Flocq Require Import Core.Core IEEE754.BinarySingleNaN IEEE754.PrimFloat.
From OV Require Import Base.Panic Base.Arith Model.Vector Model.ParDot Proofs.ParDot Inst.FloatInst.
Import ListNotations.


Notation HP := Flocq.IEEE754.PrimFloat.Hprec.
Notation HM := Flocq.IEEE754.PrimFloat.Hmax.
Notation fx := (FLT_exp (SpecFloat.emin prec emax) prec).

Local Open Scope Z_scope.
Lemma int_format (n : Z) : Z.abs n < 2 ^ 53 -> generic_format radix2 fx (IZR n).
Proof.
  intros H. apply generic_format_FLT. apply (FLT_spec radix2 _ prec (IZR n) (Float radix2 n 0)).
  - unfold F2R; simpl. ring.
  - simpl. exact H.
  - simpl. unfold SpecFloat.emin, emax, prec. lia.
Qed.

Lemma round_int (n : Z) : Z.abs n < 2 ^ 53 ->
  round radix2 (SpecFloat.fexp prec emax) (round_mode mode_NE) (IZR n) = IZR n.
Proof. intros H. change (SpecFloat.fexp prec emax) with fx. apply round_generic; [apply valid_rnd_N|]. now apply int_format. Qed.

Lemma int_lt_emax (n : Z) : Z.abs n < 2 ^ 53 -> (Rabs (IZR n) < bpow radix2 emax)%R.
Proof.
  intros H. rewrite <- abs_IZR. apply Rlt_trans with (IZR (2 ^ 53)); [now apply IZR_lt|].
  change (2 ^ 53) with (Zpower radix2 53). rewrite IZR_Zpower by lia. apply bpow_lt. unfold emax; lia.
Qed.

(* x holds the integer z exactly; W: weak (the sign of a zero is unknown) *)
Definition ExactW (x : PrimFloat.float) (z : Z) : Prop :=
  is_finite (Prim2B x) = true /\ B2R (Prim2B x) = IZR z.
Definition Exact (x : PrimFloat.float) (z : Z) : Prop :=
  ExactW x z /\ (z = 0 -> Bsign (Prim2B x) = false).

Lemma ExactW_mul x y a b : ExactW x a -> ExactW y b -> Z.abs (a * b) < 2 ^ 53 -> ExactW (x * y)%float (a * b).
Proof.
  intros [Fx Rx] [Fy Ry] Hb. unfold ExactW. rewrite mul_equiv.
  pose proof (Bmult_correct prec emax HP HM mode_NE (Prim2B x) (Prim2B y)) as H.
  rewrite Rx, Ry, <- mult_IZR, round_int in H by exact Hb.
  rewrite Rlt_bool_true in H by now apply int_lt_emax.
  destruct H as (H1 & H2 & _). rewrite H1, H2, Fx, Fy. auto.
Qed.

Lemma Exact_add acc p a b : Exact acc a -> ExactW p b -> Z.abs (a + b) < 2 ^ 53 -> Exact (acc + p)%float (a + b).
Proof.
  intros [[Fa Ra] Sa] [Fp Rp] Hb. unfold Exact, ExactW. rewrite add_equiv.
  pose proof (Bplus_correct prec emax HP HM mode_NE (Prim2B acc) (Prim2B p) Fa Fp) as H.
  rewrite Ra, Rp, <- plus_IZR, round_int in H by exact Hb.
  rewrite Rlt_bool_true in H by now apply int_lt_emax.
  destruct H as (H1 & H2 & H3). split; [split; auto|].
  intros Hz. rewrite H3, Hz. rewrite Rcompare_Eq by reflexivity.
  (* both summands signed negative and summing to 0: acc would be -0, excluded *)
  destruct (Bsign (Prim2B acc)) eqn:Sg; [|reflexivity].
  destruct (Bsign (Prim2B p)) eqn:Sp; [|reflexivity]. exfalso.
  (* acc negative-signed: IZR a <= 0; p negative-signed: IZR b <= 0; a + b = 0 -> a = 0 -> sign false *)
  assert (Ha : a <= 0).
  { apply le_IZR. rewrite <- Ra. destruct (Prim2B acc) as [s|s| |s m e B]; simpl in *; try discriminate; try lra.
    subst s. apply Rlt_le. now apply F2R_lt_0. }
  assert (Hb' : b <= 0).
  { apply le_IZR. rewrite <- Rp. destruct (Prim2B p) as [s|s| |s m e B]; simpl in *; try discriminate; try lra.
    subst s. apply Rlt_le. now apply F2R_lt_0. }
  assert (a = 0) by lia. discriminate (Sa H).
Qed.

Lemma Exact_zero : Exact 0%float 0.
Proof. unfold Exact, ExactW. split; [split|]; reflexivity. Qed.

Lemma Exact_unique x y z : Exact x z -> Exact y z -> x = y.
Proof.
  intros [[Fx Rx] Sx] [[Fy Ry] Sy]. apply Prim2B_inj.
  apply B2R_Bsign_inj; auto; [congruence|].
  destruct (Z.eq_dec z 0) as [->|Hz]; [now rewrite Sx, Sy|].
  (* nonzero: the sign is the sign of the value *)
  assert (Hs : forall (f : binary_float prec emax), is_finite f = true -> B2R f = IZR z -> Bsign f = (z <? 0)).
  { intros f Ff Rf. destruct f as [s|s| |s m e B]; simpl in *; try discriminate.
    - exfalso. apply Hz. apply eq_IZR. now rewrite <- Rf.
    - destruct s.
      + assert (IZR z < 0)%R by (rewrite <- Rf; now apply F2R_lt_0). apply lt_IZR in H. symmetry. now apply Z.ltb_lt.
      + assert (0 < IZR z)%R by (rewrite <- Rf; now apply F2R_gt_0). apply lt_IZR in H. symmetry. apply Z.ltb_ge. lia. }
  now rewrite (Hs _ Fx Rx), (Hs _ Fy Ry).
Qed.

Local Open Scope Z_scope.


(* integer shadows of the float computation *)
Fixpoint zdot (zs ws : list Z) : Z :=
  match zs, ws with z :: zs', w :: ws' => z * w + zdot zs' ws' | _, _ => 0 end.
Fixpoint zadot (zs ws : list Z) : Z :=
  match zs, ws with z :: zs', w :: ws' => Z.abs (z * w) + zadot zs' ws' | _, _ => 0 end.

Lemma zadot_nonneg zs ws : 0 <= zadot zs ws.
Proof. revert ws; induction zs as [|z zs IH]; intros [|w ws]; cbn; try lia. specialize (IH ws). lia. Qed.

Lemma zdot_abs_le zs ws : Z.abs (zdot zs ws) <= zadot zs ws.
Proof. revert ws; induction zs as [|z zs IH]; intros [|w ws]; cbn; try lia. specialize (IH ws). lia. Qed.

Lemma zdot_app l1 l2 m1 m2 : length l1 = length m1 -> zdot (l1 ++ l2) (m1 ++ m2) = zdot l1 m1 + zdot l2 m2.
Proof. revert m1; induction l1 as [|a l1 IH]; intros [|b m1] H; cbn in *; try discriminate; auto. rewrite IH by lia. lia. Qed.
Lemma zadot_app l1 l2 m1 m2 : length l1 = length m1 -> zadot (l1 ++ l2) (m1 ++ m2) = zadot l1 m1 + zadot l2 m2.
Proof. revert m1; induction l1 as [|a l1 IH]; intros [|b m1] H; cbn in *; try discriminate; auto. rewrite IH by lia. lia. Qed.

(* the sequential loop from an exact accumulator *)
Lemma dot_from_exact (v w : list PrimFloat.float) zs ws acc a :
  Forall2 ExactW v zs -> Forall2 ExactW w ws -> Exact acc a ->
  Z.abs a + zadot zs ws < 2 ^ 53 ->
  Exact (dot_from (A := AF) acc v w) (a + zdot zs ws).
Proof.
  intros Hv; revert w ws acc a. induction Hv as [|x z v zs Hx Hv IH]; intros w ws acc a Hw Ha Hb.
  - cbn. now rewrite Z.add_0_r.
  - destruct Hw as [|y u w ws Hy Hw].
    + cbn. now rewrite Z.add_0_r.
    + cbn [zdot zadot] in *. unfold dot_from. cbn [combine fold_left fst snd].
      pose proof (zadot_nonneg zs ws).
      assert (Hm : ExactW (x * y)%float (z * u)) by (apply ExactW_mul; auto; lia).
      assert (Hs : Exact (acc + x * y)%float (a + z * u)) by (apply Exact_add; auto; lia).
      specialize (IH w ws _ _ Hw Hs ltac:(lia)).
      replace (a + (z * u + zdot zs ws)) with (a + z * u + zdot zs ws) by lia. exact IH.
Qed.


Lemma Forall2_firstn {X Y} (R : X -> Y -> Prop) n l m : Forall2 R l m -> Forall2 R (firstn n l) (firstn n m).
Proof. intros H; revert n; induction H; intros [|n]; cbn; constructor; auto. Qed.
Lemma Forall2_skipn {X Y} (R : X -> Y -> Prop) n l m : Forall2 R l m -> Forall2 R (skipn n l) (skipn n m).
Proof. intros H; revert n; induction H; intros [|n]; cbn; auto. Qed.
Lemma Forall2_len {X Y} (R : X -> Y -> Prop) l m : Forall2 R l m -> length l = length m.
Proof. induction 1; cbn; auto. Qed.

Lemma slice_of_Forall2 {X Y} (R : X -> Y -> Prop) (l : list X) (m : list Y) t i :
  Forall2 R l m -> Forall2 R (slice_of l t i) (slice_of m t i).
Proof.
  intros H. unfold slice_of. rewrite <- (Forall2_len R l m H).
  destruct (chunk_bounds (length l) t i) as [s e]. now apply Forall2_firstn, Forall2_skipn.
Qed.

Lemma slice_of_len_eq {X Y} (l : list X) (m : list Y) t i : length l = length m ->
  length (slice_of l t i) = length (slice_of m t i).
Proof.
  intros H. unfold slice_of. rewrite <- H. destruct (chunk_bounds (length l) t i) as [s e].
  rewrite !firstn_length, !skipn_length. lia.
Qed.

(* sums over a list of worker indices *)
Fixpoint zsum (f : nat -> Z) (l : list nat) : Z := match l with [] => 0 | i :: r => f i + zsum f r end.

Lemma zsum_zdot_concat (zs ws : list Z) t (l : list nat) : length zs = length ws ->
  zsum (fun i => zdot (slice_of zs t i) (slice_of ws t i)) l
  = zdot (concat (map (slice_of zs t) l)) (concat (map (slice_of ws t) l)).
Proof.
  intros H. induction l as [|i r IH]; cbn [zsum map concat]; auto.
  rewrite zdot_app by now apply slice_of_len_eq. now rewrite IH.
Qed.
Lemma zsum_zadot_concat (zs ws : list Z) t (l : list nat) : length zs = length ws ->
  zsum (fun i => zadot (slice_of zs t i) (slice_of ws t i)) l
  = zadot (concat (map (slice_of zs t) l)) (concat (map (slice_of ws t) l)).
Proof.
  intros H. induction l as [|i r IH]; cbn [zsum map concat]; auto.
  rewrite zadot_app by now apply slice_of_len_eq. now rewrite IH.
Qed.

Lemma zsum_nonneg f l : (forall i, 0 <= f i) -> 0 <= zsum f l.
Proof. intros H; induction l as [|i r IH]; cbn; [lia|]. specialize (H i). lia. Qed.

(* the main thread's loop over the workers, from an exact accumulator *)
Lemma outer_exact (v w : list PrimFloat.float) zs ws t (l : list nat) acc a :
  Forall2 ExactW v zs -> Forall2 ExactW w ws -> Exact acc a ->
  Z.abs a + zsum (fun i => zadot (slice_of zs t i) (slice_of ws t i)) l < 2 ^ 53 ->
  Exact (fold_left (fun acc i => (acc + dot_raw (A := AF) (slice_of v t i) (slice_of w t i))%float) l acc)
        (a + zsum (fun i => zdot (slice_of zs t i) (slice_of ws t i)) l).
Proof.
  intros Hv Hw. revert acc a. induction l as [|i r IH]; intros acc a Ha Hb; cbn [fold_left zsum] in *.
  - now rewrite Z.add_0_r.
  - set (Si := zdot (slice_of zs t i) (slice_of ws t i)) in *.
    set (Mi := zadot (slice_of zs t i) (slice_of ws t i)) in *.
    assert (Hr : 0 <= zsum (fun i => zadot (slice_of zs t i) (slice_of ws t i)) r)
      by (apply zsum_nonneg; intros; apply zadot_nonneg).
    assert (HM : 0 <= Mi) by apply zadot_nonneg.
    assert (HS : Z.abs Si <= Mi) by apply zdot_abs_le.
    assert (Hd : Exact (dot_raw (A := AF) (slice_of v t i) (slice_of w t i)) Si).
    { change (dot_raw (A := AF) (slice_of v t i) (slice_of w t i))
        with (dot_from (A := AF) 0%float (slice_of v t i) (slice_of w t i)).
      replace Si with (0 + Si) by lia. apply dot_from_exact.
      - now apply slice_of_Forall2.
      - now apply slice_of_Forall2.
      - exact Exact_zero.
      - fold Mi. change (Z.abs 0) with 0. pose proof (Z.abs_nonneg a). lia. }
    assert (Hs : Exact (acc + dot_raw (A := AF) (slice_of v t i) (slice_of w t i))%float (a + Si))
      by (apply Exact_add; [exact Ha|exact (proj1 Hd)|lia]).
    specialize (IH _ _ Hs ltac:(lia)).
    replace (a + (Si + zsum (fun i => zdot (slice_of zs t i) (slice_of ws t i)) r))
      with (a + Si + zsum (fun i => zdot (slice_of zs t i) (slice_of ws t i)) r) by lia.
    exact IH.
Qed.

Lemma dot_ok {A : Arith} (u w : list A) : length u = length w -> dot u w = Ok (dot_raw u w).
Proof. intros H. unfold dot. now rewrite H, Nat.eqb_refl. Qed.

(* P3: on integer-valued data whose products sum to less than 2^53 in absolute value, the threaded product is
   bit-identical to the sequential one, for every worker count *)
Lemma pardot_exact_float_lemma t (v w : list PrimFloat.float) (zs ws : list Z) :
  (1 <= t)%nat -> Forall2 ExactW v zs -> Forall2 ExactW w ws -> length zs = length ws ->
  zadot zs ws < 2 ^ 53 ->
  pardot (A := AF) t v w = dot (A := AF) v w.
Proof.
  intros Ht Hv Hw Hl Hb.
  assert (Lv : length v = length w).
  { rewrite (Forall2_len _ _ _ Hv), (Forall2_len _ _ _ Hw). exact Hl. }
  rewrite (pardot_closed_form_lemma (A := AF) t v w Ht Lv).
  rewrite (dot_ok (A := AF) v w Lv). f_equal.
  apply (Exact_unique _ _ (zdot zs ws)).
  - pose proof (outer_exact v w zs ws t (seq 0 t) 0%float 0 Hv Hw Exact_zero) as H.
    rewrite zsum_zadot_concat, zsum_zdot_concat in H by exact Hl.
    rewrite <- !slices_map, !slices_concat in H by exact Ht.
    cbn [Z.abs Z.add] in H. apply H. exact Hb.
  - change (dot_raw (A := AF) v w) with (dot_from (A := AF) 0%float v w).
    replace (zdot zs ws) with (0 + zdot zs ws) by lia.
    apply dot_from_exact; auto. exact Exact_zero.
Qed.



Lemma ExactW_intro x z : is_finite_SF (Prim2SF x) = true -> SF2R radix2 (Prim2SF x) = IZR z -> ExactW x z.
Proof. intros H1 H2. unfold ExactW, Prim2B. now rewrite is_finite_SF2B, B2R_SF2B. Qed.

Ltac exactw := apply ExactW_intro; [vm_compute; reflexivity | vm_compute Prim2SF; unfold SF2R, F2R; simpl; lra].

Example ex1 : Forall2 ExactW [3; -2; 5; 0; 7]%float [3; -2; 5; 0; 7]%Z.
Proof. repeat constructor; exactw. Qed.

(* concrete data for the non-vacuity examples of Props/C16.v *)
Definition ex_fv : list PrimFloat.float := [3; -2; 5; 0; 7]%float.
Definition ex_fw : list PrimFloat.float := [4; 6; -1; 9; 2]%float.
Definition ex_zv : list Z := [3; -2; 5; 0; 7]%Z.
Definition ex_zw : list Z := [4; 6; -1; 9; 2]%Z.
Lemma ex_fv_exact : Forall2 ExactW ex_fv ex_zv.
Proof. repeat constructor; exactw. Qed.
Lemma ex_fw_exact : Forall2 ExactW ex_fw ex_zw.
Proof. repeat constructor; exactw. Qed.
Definition ex_sv : list PrimFloat.float := [0.5; 0.25; 1.5; 0.75]%float.
Definition ex_sw : list PrimFloat.float := [3; 3; 3; 3]%float.
