(* Proofs/TridiagSolve.v -- the Thomas algorithm of Model/Tridiag.v over an exact field:
   [tsolve t r] is either [Ok u] with  dense(t) * u = r  (and then every pivot is non-zero),
   or [Panic Guard] raised at the first zero pivot.  Never anything else on well-formed input. *)
From Coq Require Import List Arith Lia Bool Ring_theory Field_theory Ring Field.
From OV Require Import Base.Panic Base.Arith Model.Vector Model.Matrix Model.Tridiag Proofs.Tridiag.
Import ListNotations.

Section Thomas.
Context {A : Arith}.
Variable FL : FieldLaws A.
Notation T := (T A).
Notation tridiag := (tridiag A).
Notation inv := (fl_inv A FL).
Add Field Afield : (fl_field A FL).

Definition FL_RingLaws : RingLaws A := {| rl_ring := F_R (fl_field A FL) |}.

Lemma eqb_zero_false (x : T) : x <> zero -> eqb x zero = false.
Proof.
  intros H. destruct (eqb x zero) eqn:E; [|reflexivity].
  apply (fl_eqb A FL) in E. contradiction.
Qed.
Lemma eqb_zero_true (x : T) : eqb x zero = true -> x = zero.
Proof. apply (fl_eqb A FL). Qed.
Lemma div_nz (x y : T) : y <> zero -> div x y = Ok (x * inv y)%A.
Proof. intros H. rewrite (fl_div A FL), eqb_zero_false by exact H. reflexivity. Qed.
Lemma div_z (x : T) : div x zero = Panic DivZero.
Proof.
  rewrite (fl_div A FL). replace (eqb (@zero A) zero) with true; [reflexivity|].
  symmetry. now apply (fl_eqb A FL).
Qed.

(* ---------- division by a scalar: T / s and T /= s ---------- *)
Lemma mapM_div_nz (l : list T) (s : T) : s <> zero ->
  mapM (fun x => div x s) l = Ok (map (fun x => (x * inv s)%A) l).
Proof.
  intros H. induction l as [|x l IH]; [reflexivity|].
  cbn [mapM map]. rewrite div_nz by exact H. cbn [bind]. rewrite IH. reflexivity.
Qed.

Lemma mapM_div_z (l : list T) : l <> [] -> mapM (fun x => div x zero) l = Panic DivZero.
Proof. destruct l as [|x l]; [congruence|]. intros _. cbn [mapM]. now rewrite div_z. Qed.

Lemma tdiv_spec_lemma (d : tridiag) (s : T) : wfT d ->
  (s <> zero ->
     exists c, tdiv d s = Ok c /\ tdiv_assign_s d s = Ok c /\ wfT c /\ tn c = tn d /\
               forall i j, dense c i j = (dense d i j * inv s)%A) /\
  (s = zero -> 1 <= tn d -> tdiv d s = Panic DivZero /\ tdiv_assign_s d s = Panic DivZero).
Proof.
  intros W. split.
  - intros H. unfold tdiv, tdiv_assign_s, vdiv_scalar, vdiv. rewrite !mapM_div_nz by exact H. cbn [bind].
    eexists; split; [reflexivity|]. split; [reflexivity|]. split; [apply wfT_map3; exact W|]. split; [reflexivity|].
    intros i j. apply (dense_map3 (fun x => (x * inv s)%A)). ring.
  - intros -> Hd. destruct W as (Hm & Hs & Hp). unfold tdiv, tdiv_assign_s, vdiv_scalar, vdiv.
    assert (M : tmain d <> []) by (intros E; rewrite E in Hm; cbn in Hm; lia).
    destruct (tsub d) as [|x l] eqn:Es.
    + cbn [mapM bind]. rewrite (mapM_div_z _ M). split; reflexivity.
    + rewrite mapM_div_z by discriminate. split; reflexivity.
Qed.

(* ---------- the specification-level sequences ---------- *)
Variable t : tridiag.
Variable r : list T.
Hypothesis Wt : wfT t.
Hypothesis Hn : 1 <= tn t.
Hypothesis Hr : length r = tn t.

Notation n := (tn t).
Definition aT : list T := vpush_front (tsub t) zero.     (* a_temp *)
Definition cT : list T := vpush (tsup t) zero.           (* c_temp *)
Definition ca (k : nat) : T := nth k aT zero.
Definition cb (k : nat) : T := nth k (tmain t) zero.
Definition cc (k : nat) : T := nth k cT zero.
Definition cr (k : nat) : T := nth k r zero.

Fixpoint B (k : nat) : T :=
  match k with
  | 0 => cb 0
  | S k' => (cb (S k') - ca (S k') * (cc k' * inv (B k')))%A
  end.
Definition G (k : nat) : T := match k with 0 => zero | S k' => (cc k' * inv (B k'))%A end.
Fixpoint Y (k : nat) : T :=
  match k with
  | 0 => (cr 0 * inv (B 0))%A
  | S k' => ((cr (S k') - ca (S k') * Y k') * inv (B (S k')))%A
  end.

Lemma len_aT : length aT = n.
Proof using Wt Hn. clear Hr. destruct Wt as (Hm & Hs & Hp). unfold aT, vpush_front. cbn [length]. lia. Qed.
Lemma len_cT : length cT = n.
Proof using Wt Hn. clear Hr. destruct Wt as (Hm & Hs & Hp). unfold cT, vpush. rewrite app_length. cbn [length]. lia. Qed.
Lemma sup_cc k : k < n - 1 -> nth k (tsup t) zero = cc k.
Proof using Wt. clear Hn Hr. destruct Wt as (Hm & Hs & Hp). intros H. unfold cc, cT, vpush. now rewrite app_nth1 by lia. Qed.
Lemma sub_ca k : nth k (tsub t) zero = ca (S k).
Proof. reflexivity. Qed.

(* the pivots computed with the arithmetic's own division are the sequence B while no pivot vanishes *)
Lemma pivot_B k : k < n -> (forall i, i < k -> B i <> zero) -> thomas_pivot t k = Ok (B k).
Proof using FL Wt. clear Hn Hr.
  destruct Wt as (Hm & Hs & Hp).
  induction k as [|k IH]; intros Hk Hnz.
  - cbn [thomas_pivot B]. unfold cb. apply rd_ok. lia.
  - cbn [thomas_pivot]. rewrite IH by (try lia; intros; apply Hnz; lia). cbn [bind].
    rewrite (rd_ok _ _ zero) by lia. cbn [bind].
    rewrite div_nz by (apply Hnz; lia). cbn [bind].
    rewrite (rd_ok _ _ zero) by lia. cbn [bind].
    rewrite (rd_ok _ _ zero) by lia. cbn [bind].
    rewrite sup_cc by lia. rewrite sub_ca. reflexivity.
Qed.

(* ---------- forward sweep ---------- *)
Definition FwdInv (j : nat) (s : list T * T * list T) : Prop :=
  let '(u, beta, gamma) := s in
  length u = n /\ length gamma = n /\ beta = B (j - 1) /\
  (forall i, i < j -> B i <> zero) /\
  (forall i, i < j -> nth i u zero = Y i) /\
  (forall i, 1 <= i < j -> nth i gamma zero = G i).

Lemma fwd_step j s : 1 <= j < n -> FwdInv j s ->
  (B j <> zero /\ exists s', thomas_fwd_body t r aT cT j s = Ok s' /\ FwdInv (S j) s') \/
  (B j = zero /\ thomas_fwd_body t r aT cT j s = Panic Guard).
Proof.
  destruct Wt as (Hm & Hs & Hp).
  intros Hj Inv. destruct s as [[u beta] gamma]. destruct Inv as (Lu & Lg & Eb & Nz & Vu & Vg).
  destruct j as [|j]; [lia|]. replace (S j - 1) with j in * by lia.
  unfold thomas_fwd_body. replace (S j - 1) with j by lia.
  rewrite (rd_ok cT j zero) by (rewrite len_cT; lia). cbn [bind].
  rewrite Eb. rewrite div_nz by (apply Nz; lia). cbn [bind].
  rewrite upd_ok by lia. cbn [bind].
  rewrite (rd_ok (tmain t) (S j) zero) by lia. cbn [bind].
  rewrite (rd_ok aT (S j) zero) by (rewrite len_aT; lia). cbn [bind].
  rewrite (rd_ok _ (S j) zero) by (rewrite upd_list_length; lia). cbn [bind].
  rewrite nth_upd_list by lia. rewrite Nat.eqb_refl.
  fold (cc j). fold (cb (S j)). fold (ca (S j)).
  change (cb (S j) - ca (S j) * (cc j * inv (B j)))%A with (B (S j)).
  destruct (eqb (B (S j)) zero) eqn:Ez.
  - right. split; [now apply eqb_zero_true|reflexivity].
  - left. assert (NZ : B (S j) <> zero).
    { intros E. rewrite E in Ez. assert (eqb (@zero A) zero = true) by now apply (fl_eqb A FL). congruence. }
    split; [exact NZ|].
    rewrite (rd_ok r (S j) zero) by lia. cbn [bind].
    rewrite (rd_ok u j zero) by lia. cbn [bind].
    rewrite div_nz by exact NZ. cbn [bind].
    rewrite upd_ok by lia. cbn [bind].
    eexists; split; [reflexivity|].
    unfold FwdInv. replace (S (S j) - 1) with (S j) by lia.
    rewrite !upd_list_length. repeat split; auto.
    + intros i Hi. destruct (Nat.eq_dec i (S j)) as [->|]; [exact NZ|apply Nz; lia].
    + intros i Hi. rewrite nth_upd_list by lia.
      destruct (Nat.eqb_spec i (S j)) as [->|NE]; [|apply Vu; lia].
      cbn [Y]. rewrite (Vu j) by lia. reflexivity.
    + intros i Hi. rewrite nth_upd_list by lia.
      destruct (Nat.eqb_spec i (S j)) as [->|NE]; [reflexivity|apply Vg; lia].
Qed.

Lemma fwd_loop m : forall j s, 1 <= j -> j + m = n -> FwdInv j s ->
  (exists s', for_from m j (thomas_fwd_body t r aT cT) s = Ok s' /\ FwdInv n s') \/
  (for_from m j (thomas_fwd_body t r aT cT) s = Panic Guard /\
   exists k, j <= k < n /\ B k = zero /\ forall i, i < k -> B i <> zero).
Proof.
  induction m as [|m IH]; intros j s Hj Hm Inv.
  - left. exists s. cbn [for_from]. replace n with j by lia. auto.
  - cbn [for_from]. destruct (fwd_step j s) as [(NZ & s' & E & Inv') | (Z & E)]; [lia|exact Inv| |].
    + rewrite E. cbn [bind]. destruct (IH (S j) s') as [L|(E2 & k & Hk & Zk & Nk)]; [lia|lia|exact Inv'| |].
      * left; exact L.
      * right. split; [exact E2|]. exists k. repeat split; auto; lia.
    + rewrite E. cbn [bind]. right. split; [reflexivity|]. exists j. repeat split; auto; try lia.
      destruct s as [[u beta] gamma]. destruct Inv as (_ & _ & _ & Nz & _). exact Nz.
Qed.

(* ---------- back substitution ---------- *)
Definition BackInv (k : nat) (u : list T) : Prop :=
  length u = n /\ (forall i, i < k -> nth i u zero = Y i) /\ nth (n - 1) u zero = Y (n - 1) /\
  (forall i, k <= i -> i + 1 < n -> nth i u zero = (Y i - G (i + 1) * nth (i + 1) u zero)%A).

Lemma back_loop (gamma u : list T) : length gamma = n ->
  (forall i, 1 <= i < n -> nth i gamma zero = G i) ->
  length u = n -> (forall i, i < n -> nth i u zero = Y i) ->
  exists u', for_rev 0 (n - 1) (thomas_back_body gamma) u = Ok u' /\ BackInv 0 u'.
Proof.
  intros Lg Vg Lu Vu. unfold for_rev. rewrite Nat.sub_0_r.
  apply (for_rev_from_inv BackInv).
  - unfold BackInv. repeat split; auto.
    + intros i Hi. apply Vu; lia.
    + apply Vu; lia.
    + intros i H1 H2. lia.
  - intros k w Hk (Lw & V1 & V2 & V3). cbn [Nat.add]. unfold thomas_back_body.
    rewrite (rd_ok gamma (k + 1) zero) by lia. cbn [bind].
    rewrite (rd_ok w (k + 1) zero) by lia. cbn [bind].
    rewrite (rd_ok w k zero) by lia. cbn [bind].
    rewrite upd_ok by lia. eexists; split; [reflexivity|].
    unfold BackInv. rewrite upd_list_length. repeat split; auto.
    + intros i Hi. rewrite nth_upd_list by lia. destruct (Nat.eqb_spec i k); [lia|]. apply V1; lia.
    + rewrite nth_upd_list by lia. destruct (Nat.eqb_spec (n - 1) k); [lia|]. exact V2.
    + intros i H1 H2. rewrite !nth_upd_list by lia.
      destruct (Nat.eqb_spec (i + 1) k); [lia|].
      destruct (Nat.eqb_spec i k) as [->|NE].
      * rewrite (V1 k) by lia. rewrite Vg by lia. reflexivity.
      * apply V3; lia.
Qed.

(* ---------- the row identities ---------- *)
Lemma row_only (b0 r0 : T) : b0 <> zero -> (zero + b0 * (r0 * inv b0) + zero)%A = r0.
Proof. intros; field; auto. Qed.
Lemma row_first (b0 c0 r0 un : T) : b0 <> zero ->
  (zero + b0 * (r0 * inv b0 - c0 * inv b0 * un) + c0 * un)%A = r0.
Proof. intros; field; auto. Qed.
Lemma row_mid (a g bb c yp un ri : T) : bb <> zero ->
  let ui := ((ri - a * yp) * inv bb - c * inv bb * un)%A in
  (a * (yp - g * ui) + (bb + a * g) * ui + c * un)%A = ri.
Proof. intros H ui; subst ui; field; auto. Qed.
Lemma row_last (a g bb yp ri : T) : bb <> zero ->
  let ui := ((ri - a * yp) * inv bb)%A in
  (a * (yp - g * ui) + (bb + a * g) * ui + zero)%A = ri.
Proof. intros H ui; subst ui; field; auto. Qed.

Lemma B_succ k : cb (S k) = (B (S k) + ca (S k) * G (S k))%A.
Proof. cbn [B G]. ring. Qed.

Lemma rows_solved (u : list T) : (forall i, i < n -> B i <> zero) -> BackInv 0 u ->
  forall i, i < n -> row3 t u i = cr i.
Proof.
  destruct Wt as (Hm & Hs & Hp).
  intros Nz (Lu & _ & Vl & V) i Hi. unfold row3.
  destruct i as [|i].
  - (* first row *)
    cbn [Nat.leb]. fold (cb 0).
    destruct (Nat.ltb_spec (0 + 1) n) as [L|L].
    + rewrite (V 0) by lia. cbn [Nat.add]. rewrite sup_cc by lia.
      cbn [Y G B]. apply row_first. apply (Nz 0); lia.
    + assert (E : n - 1 = 0) by lia. rewrite E in Vl. rewrite Vl. cbn [Y B]. apply row_only. apply (Nz 0); lia.
  - destruct (Nat.leb_spec 1 (S i)); [|lia].
    replace (S i - 1) with i by lia. rewrite sub_ca. fold (cb (S i)).
    assert (Eprev : nth i u zero = (Y i - G (S i) * nth (S i) u zero)%A).
    { rewrite (V i) by lia. now replace (i + 1) with (S i) by lia. }
    rewrite Eprev. rewrite B_succ.
    destruct (Nat.ltb_spec (S i + 1) n) as [L|L].
    + rewrite (V (S i)) by lia. rewrite sup_cc by lia.
      replace (S i + 1) with (S (S i)) by lia.
      cbn [Y]. change (G (S (S i))) with (cc (S i) * inv (B (S i)))%A.
      apply (row_mid (ca (S i)) (G (S i)) (B (S i)) (cc (S i)) (Y i) (nth (S (S i)) u zero) (cr (S i))).
      apply Nz; lia.
    + assert (E : n - 1 = S i) by lia. rewrite E in Vl. rewrite Vl. cbn [Y].
      apply (row_last (ca (S i)) (G (S i)) (B (S i)) (Y i) (cr (S i))). apply Nz; lia.
Qed.

(* ---------- the theorem ---------- *)
Lemma thomas_lemma :
  (exists u, tsolve t r = Ok u /\ length u = n /\
     (forall i, i < n -> sum_n n (fun j => (dense t i j * nth j u zero)%A) = nth i r zero) /\
     (forall k, k < n -> exists p, thomas_pivot t k = Ok p /\ p <> zero)) \/
  (tsolve t r = Panic Guard /\ exists k, k < n /\ thomas_pivot t k = Ok zero).
Proof.
  destruct Wt as (Hm & Hs & Hp).
  unfold tsolve. rewrite Hr, Nat.eqb_refl. cbn [negb].
  rewrite (rd_ok (tmain t) 0 zero) by lia. cbn [bind]. fold (cb 0). change (cb 0) with (B 0).
  destruct (eqb (B 0) zero) eqn:E0.
  { right. split; [reflexivity|]. exists 0. split; [lia|].
    rewrite pivot_B by (try lia; intros; lia). f_equal. now apply eqb_zero_true. }
  assert (NZ0 : B 0 <> zero).
  { intros E. rewrite E in E0. assert (eqb (@zero A) zero = true) by now apply (fl_eqb A FL). congruence. }
  rewrite (rd_ok r 0 zero) by lia. cbn [bind]. rewrite div_nz by exact NZ0. cbn [bind].
  rewrite upd_ok by (rewrite repeat_length; lia). cbn [bind].
  fold aT. fold cT. unfold for_.
  set (s0 := (upd_list (repeat zero n) 0 (nth 0 r zero * inv (B 0))%A, B 0, repeat zero n)).
  assert (Inv1 : FwdInv 1 s0).
  { unfold FwdInv, s0. rewrite upd_list_length, !repeat_length. repeat split; auto.
    - intros i Hi. assert (i = 0) as -> by lia. exact NZ0.
    - intros i Hi. assert (i = 0) as -> by lia. rewrite nth_upd_list by (rewrite repeat_length; lia). reflexivity.
    - intros i Hi. lia. }
  destruct (fwd_loop (n - 1) 1 s0) as [(s' & Es & Inv')|(Es & k & Hk & Zk & Nk)]; [lia|lia|exact Inv1| |].
  - (* the forward sweep met no zero pivot *)
    rewrite Es. cbn [bind]. destruct s' as [[u beta] gamma].
    destruct Inv' as (Lu & Lg & _ & Nz & Vu & Vg).
    unfold usub. destruct (Nat.leb_spec 1 n); [|lia]. cbn [bind].
    destruct (back_loop gamma u Lg Vg Lu Vu) as (u' & Eu & BI).
    left. exists u'. split; [exact Eu|]. split; [apply BI|]. split.
    + intros i Hi. rewrite (dense_row_sum FL_RingLaws t u' i Hi). now apply rows_solved.
    + intros k Hk. exists (B k). split; [|now apply Nz].
      apply pivot_B; [exact Hk|]. intros i Hi. apply Nz; lia.
  - (* refusal at the first zero pivot *)
    rewrite Es. cbn [bind]. right. split; [reflexivity|]. exists k. split; [lia|].
    rewrite pivot_B by (try lia; exact Nk). now f_equal.
Qed.

End Thomas.
