(* Proofs/SrcEqMatrix.v -- the hand-written model of src/matrix/operations.rs (Model/Matrix.v) IS the code:
   every definition s_<f> of gen/SrcMatrix.v (regenerated from the Rust source by driver/rust2coq.py on this run)
   equals its hand-written counterpart, for every arithmetic, every shape and every value.
   `reflexivity` = the regenerated definition is convertible with the model (same statements, same combinators). *)
From Coq Require Import List Arith ZArith Lia Bool.
From OV Require Import Base.Panic Base.Arith Model.Vector Model.Matrix gen.SrcPrelude gen.SrcMatrix Proofs.SrcEqBase.
Import ListNotations.

Section SrcEqMatrix.
Context {A : Arith}.
Implicit Types (m : matrix A) (v : list (T A)) (x l d u : T A) (r c i j n : nat).

Lemma src_get_row m r : s_get_row m r = get_row m r. Proof. reflexivity. Qed.
Lemma src_get_col m c : s_get_col m c = get_col m c. Proof. reflexivity. Qed.
Lemma src_set_row m r v : s_set_row m r v = set_row m r v. Proof. reflexivity. Qed.
Lemma src_set_col m c v : s_set_col m c v = set_col m c v. Proof. reflexivity. Qed.
Lemma src_multiply m v : s_multiply m v = multiply m v. Proof. reflexivity. Qed.
Lemma src_eye n : @s_eye A n = eye n. Proof. reflexivity. Qed.
Lemma src_resize m r c : s_resize m r c = resize m r c. Proof. reflexivity. Qed.
Lemma src_transpose_in_place m : s_transpose_in_place m = transpose_in_place m. Proof. reflexivity. Qed.
Lemma src_transpose m : s_transpose m = transpose m. Proof. reflexivity. Qed.
Lemma src_swap_rows m i j : s_swap_rows m i j = swap_rows m i j. Proof. reflexivity. Qed.
Lemma src_swap_elem m r c i j : s_swap_elem m r c i j = swap_elem m r c i j. Proof. reflexivity. Qed.
Lemma src_fill m x : s_fill m x = fill m x. Proof. reflexivity. Qed.
Lemma src_fill_diag m x : s_fill_diag m x = fill_diag m x. Proof. reflexivity. Qed.
Lemma src_fill_tridiag m l d u : s_fill_tridiag m l d u = fill_tridiag m l d u. Proof. reflexivity. Qed.
Lemma src_fill_row m r x : s_fill_row m r x = fill_row m r x. Proof. reflexivity. Qed.
Lemma src_fill_col m c x : s_fill_col m c x = fill_col m c x. Proof. reflexivity. Qed.

(* delete_row: the source drains the range and then decrements `rows` with a checked subtraction; the model tests the
   upper end of the range only and writes `rows m - 1`.  Equal because the guard gives 1 <= rows and lo <= hi always. *)
Lemma src_delete_row m r : s_delete_row m r = delete_row m r.
Proof.
  unfold s_delete_row, delete_row, drain.
  destruct (rows m <=? r) eqn:G; [reflexivity|]. apply Nat.leb_gt in G.
  assert (L : (r * cols m <=? (r + 1) * cols m) = true).
  { apply Nat.leb_le. rewrite Nat.mul_add_distr_r. lia. }
  rewrite L; cbn [andb].
  destruct ((r + 1) * cols m <=? length (buf m)); cbn [bind rows cols buf]; [|reflexivity].
  rewrite usub_ok by lia. reflexivity.
Qed.

(* fill_band: the source tests `(i as usize) < cols && i >= 0` (the cast wraps a negative i to a huge value), the model
   tests `0 <= i && Z.to_nat i < cols`.  Equal for every offset. *)
Lemma src_fill_band m (o : Z) x : s_fill_band m o x = fill_band m o x.
Proof.
  unfold s_fill_band, fill_band. apply for_ext; intros i s _.
  destruct (Z.leb_spec 0 (Z.of_nat i + o)) as [P|N].
  - assert (E : isize_as_usize (Z.of_nat i + o) = Z.to_nat (Z.of_nat i + o)).
    { unfold isize_as_usize. destruct (Z.ltb_spec (Z.of_nat i + o) 0); [lia|reflexivity]. }
    rewrite E, andb_true_r. reflexivity.
  - rewrite andb_false_r. reflexivity.
Qed.

(* Matrix::new: `size` clones pushed one by one = repeat *)
Lemma src_mat_new r c x : s_mat_new r c x = Ok (mat_new r c x).
Proof.
  unfold s_mat_new, mat_new, for_. rewrite Nat.sub_0_r.
  assert (E : forall n lo (t : list (T A)), for_from n lo (fun _ t => Ok (t ++ [x])) t = Ok (t ++ repeat x n)).
  { induction n as [|n IH]; intros lo t; cbn [for_from repeat bind]; [now rewrite app_nil_r|].
    rewrite IH, <- app_assoc. reflexivity. }
  rewrite E. reflexivity.
Qed.
Lemma src_numel m : s_numel m = Ok (cols m * rows m). Proof. reflexivity. Qed.
Lemma src_mindex m i j : s_mindex m (i, j) = mget m i j. Proof. reflexivity. Qed.
Lemma src_mclear m : s_mclear m = Ok mat_empty. Proof. reflexivity. Qed.

(* all of them at once: what a Props file pins as  model_is_source_<property>  *)
Definition model_is_source_Matrix : Prop :=
  (forall m r, s_get_row m r = get_row m r) /\
  (forall m c, s_get_col m c = get_col m c) /\
  (forall m r v, s_set_row m r v = set_row m r v) /\
  (forall m c v, s_set_col m c v = set_col m c v) /\
  (forall m v, s_multiply m v = multiply m v) /\
  (forall n, @s_eye A n = eye n) /\
  (forall m r c, s_resize m r c = resize m r c) /\
  (forall m, s_transpose_in_place m = transpose_in_place m) /\
  (forall m, s_transpose m = transpose m) /\
  (forall m i j, s_swap_rows m i j = swap_rows m i j) /\
  (forall m r c i j, s_swap_elem m r c i j = swap_elem m r c i j) /\
  (forall m x, s_fill m x = fill m x) /\
  (forall m x, s_fill_diag m x = fill_diag m x) /\
  (forall m l d u, s_fill_tridiag m l d u = fill_tridiag m l d u) /\
  (forall m r x, s_fill_row m r x = fill_row m r x) /\
  (forall m c x, s_fill_col m c x = fill_col m c x) /\
  (forall m r, s_delete_row m r = delete_row m r) /\
  (forall m (o : Z) x, s_fill_band m o x = fill_band m o x) /\
  (forall r c x, s_mat_new r c x = Ok (mat_new r c x)) /\
  (forall m, s_numel m = Ok (cols m * rows m)) /\
  (forall m i j, s_mindex m (i, j) = mget m i j) /\
  (forall m, s_mclear m = Ok mat_empty).
Lemma model_is_source_Matrix_lemma : model_is_source_Matrix.
Proof. exact (conj src_get_row (conj src_get_col (conj src_set_row (conj src_set_col (conj src_multiply (conj src_eye (conj src_resize (conj src_transpose_in_place (conj src_transpose (conj src_swap_rows (conj src_swap_elem (conj src_fill (conj src_fill_diag (conj src_fill_tridiag (conj src_fill_row (conj src_fill_col (conj src_delete_row (conj src_fill_band (conj src_mat_new (conj src_numel (conj src_mindex src_mclear))))))))))))))))))))). Qed.

End SrcEqMatrix.
