(* Proofs/CFunGen.v -- the hand-written real-number model of the complex functions (Model/CFun.v) IS the code:
   every formula regenerated from src/complex/{elementary,trigonometric,hyperbolic}.rs (+ abs, arg of mod.rs) on this
   run (gen/CFunOps.v, driver/translate.py) is convertible with its hand-written counterpart. *)
From Coq Require Import Reals.
From OV Require Import Model.CFun gen.CFunOps.
Local Open Scope R_scope.

Lemma src_csqrt z : t_csqrt z = csqrt z. Proof. reflexivity. Qed.
Lemma src_cpow z w : t_cpow z w = cpow z w. Proof. reflexivity. Qed.
Lemma src_cpowf z x : t_cpowf z x = cpowf z x. Proof. reflexivity. Qed.
Lemma src_cexp z : t_cexp z = cexp z. Proof. reflexivity. Qed.
Lemma src_cln z : t_cln z = cln z. Proof. reflexivity. Qed.
Lemma src_clog z b : t_clog z b = clog z b. Proof. reflexivity. Qed.
Lemma src_cpolar r theta : t_cpolar r theta = cpolar r theta. Proof. reflexivity. Qed.
Lemma src_csin z : t_csin z = csin z. Proof. reflexivity. Qed.
Lemma src_ccos z : t_ccos z = ccos z. Proof. reflexivity. Qed.
Lemma src_ctan z : t_ctan z = ctan z. Proof. reflexivity. Qed.
Lemma src_csec z : t_csec z = csec z. Proof. reflexivity. Qed.
Lemma src_ccsc z : t_ccsc z = ccsc z. Proof. reflexivity. Qed.
Lemma src_ccot z : t_ccot z = ccot z. Proof. reflexivity. Qed.
Lemma src_casin z : t_casin z = casin z. Proof. reflexivity. Qed.
Lemma src_cacos z : t_cacos z = cacos z. Proof. reflexivity. Qed.
Lemma src_catan z : t_catan z = catan z. Proof. reflexivity. Qed.
Lemma src_casec z : t_casec z = casec z. Proof. reflexivity. Qed.
Lemma src_cacsc z : t_cacsc z = cacsc z. Proof. reflexivity. Qed.
Lemma src_cacot z : t_cacot z = cacot z. Proof. reflexivity. Qed.
Lemma src_csinh z : t_csinh z = csinh z. Proof. reflexivity. Qed.
Lemma src_ccosh z : t_ccosh z = ccosh z. Proof. reflexivity. Qed.
Lemma src_ctanh z : t_ctanh z = ctanh z. Proof. reflexivity. Qed.
Lemma src_csech z : t_csech z = csech z. Proof. reflexivity. Qed.
Lemma src_ccsch z : t_ccsch z = ccsch z. Proof. reflexivity. Qed.
Lemma src_ccoth z : t_ccoth z = ccoth z. Proof. reflexivity. Qed.
Lemma src_casinh z : t_casinh z = casinh z. Proof. reflexivity. Qed.
Lemma src_cacosh z : t_cacosh z = cacosh z. Proof. reflexivity. Qed.
Lemma src_catanh z : t_catanh z = catanh z. Proof. reflexivity. Qed.
Lemma src_casech z : t_casech z = casech z. Proof. reflexivity. Qed.
Lemma src_cacsch z : t_cacsch z = cacsch z. Proof. reflexivity. Qed.
Lemma src_cacoth z : t_cacoth z = cacoth z. Proof. reflexivity. Qed.
Lemma src_cabs z : t_cabs z = cabs z. Proof. reflexivity. Qed.
Lemma src_arg z : t_arg z = arg z. Proof. reflexivity. Qed.

Definition model_is_source_CFun : Prop :=
  (forall z, t_csqrt z = csqrt z) /\
  (forall z w, t_cpow z w = cpow z w) /\
  (forall z x, t_cpowf z x = cpowf z x) /\
  (forall z, t_cexp z = cexp z) /\
  (forall z, t_cln z = cln z) /\
  (forall z b, t_clog z b = clog z b) /\
  (forall r theta, t_cpolar r theta = cpolar r theta) /\
  (forall z, t_csin z = csin z) /\
  (forall z, t_ccos z = ccos z) /\
  (forall z, t_ctan z = ctan z) /\
  (forall z, t_csec z = csec z) /\
  (forall z, t_ccsc z = ccsc z) /\
  (forall z, t_ccot z = ccot z) /\
  (forall z, t_casin z = casin z) /\
  (forall z, t_cacos z = cacos z) /\
  (forall z, t_catan z = catan z) /\
  (forall z, t_casec z = casec z) /\
  (forall z, t_cacsc z = cacsc z) /\
  (forall z, t_cacot z = cacot z) /\
  (forall z, t_csinh z = csinh z) /\
  (forall z, t_ccosh z = ccosh z) /\
  (forall z, t_ctanh z = ctanh z) /\
  (forall z, t_csech z = csech z) /\
  (forall z, t_ccsch z = ccsch z) /\
  (forall z, t_ccoth z = ccoth z) /\
  (forall z, t_casinh z = casinh z) /\
  (forall z, t_cacosh z = cacosh z) /\
  (forall z, t_catanh z = catanh z) /\
  (forall z, t_casech z = casech z) /\
  (forall z, t_cacsch z = cacsch z) /\
  (forall z, t_cacoth z = cacoth z) /\
  (forall z, t_cabs z = cabs z) /\
  (forall z, t_arg z = arg z).

Lemma model_is_source_CFun_lemma : model_is_source_CFun.
Proof. unfold model_is_source_CFun; repeat split; reflexivity. Qed.
