(* Proofs/RoundDet.v -- the determinant of Model/Solve.v ([determinant]: lu_decomp, then the product of the diagonal
   of the factors, sign by the parity of the row exchanges) in the STANDARD MODEL of floating-point arithmetic
   (Base/RoundModel.v), the same Gallina [determinant] at [ARm]:

     determinant_product_error_lemma :  fl(det) = +- (Prod_i lu_ii) (1 + th),  |th| <= gam n
        -- the computed determinant is, up to n roundings, the exact determinant of the COMPUTED triangular factor
        (relative error gam n: a product has no cancellation).

   NOT covered: how far the computed factors are from exact factors of the input (the growth factor of Gaussian
   elimination); so this is the "product" half of the accuracy claim of C02 only. *)
From Coq Require Import List Arith Lia Reals Lra Psatz Bool.
From OV Require Import Base.Panic Base.Arith Base.RoundModel Model.Vector Model.Matrix Model.Solve
  Proofs.Matrix Proofs.LUPrim Proofs.RoundDot Proofs.RoundMatvec Proofs.RoundLUShape.
Import ListNotations.
Local Open Scope R_scope.

Fixpoint Rprod (n : nat) (f : nat -> R) : R :=
  match n with O => 1 | S n' => Rprod n' f * f n' end.

Section RoundDet.
Variable u : R.
Hypothesis u_range : 0 <= u < 1.
Variables fadd fsub fmul fdiv : R -> R -> R.
Hypothesis fmul_ok : forall x y, exists d, Rabs d <= u /\ fmul x y = x * y * (1 + d).

Notation AR := (ARm fadd fsub fmul fdiv).
Notation bnd := (bnd u).
Notation gam := (gam u).
Notation rentry := (rentry fadd fsub fmul fdiv).

Lemma diag_product_round (lu : matrix AR) (n : nat) : shape lu n n ->
  exists d P, for_ 0 n (fun i (d : R) => let* a := mget lu i i in Ok (fmul d a)) 1 = Ok d /\
    bnd n P /\ d = Rprod n (fun i => rentry lu i i) * P.
Proof using u_range fmul_ok.
  intros SH.
  destruct (for_inv (fun i (d : R) => exists P, bnd i P /\ d = Rprod i (fun i => rentry lu i i) * P)
              0%nat n (fun i (d : R) => let* a := mget lu i i in Ok (fmul d a)) 1) as (d & E & P & HP & Ed).
  - lia.
  - exists 1. split; [apply bnd_0|]. cbn. ring.
  - intros i d Hi (P & HP & Ed).
    rewrite (mget_ok (A := AR) lu n n i i SH) by lia. cbn [bind]. eexists; split; [reflexivity|].
    change (ent (A := AR) lu i i) with (rentry lu i i).
    destruct (fmul_bnd u u_range fmul fmul_ok d (rentry lu i i)) as (e & He & Ee).
    exists (P * e). split; [replace (S i) with (i + 1)%nat by lia; now apply bnd_mul|].
    rewrite Ee, Ed. cbn [Rprod]. ring.
  - exists d, P. auto.
Qed.

Theorem determinant_product_error_lemma (m lu perm : matrix AR) (piv : nat) (d : R) :
  wf m -> INR (rows m) * u < 1 ->
  lu_decomp m = Ok (lu, piv, perm) -> determinant m = Ok d ->
  exists th, Rabs th <= gam (rows m) /\
    d = (if Nat.even piv then 1 else -1) * Rprod (rows m) (fun i => rentry lu i i) * (1 + th).
Proof using u_range fmul_ok.
  intros W Hn ELU E.
  assert (Sq : rows m = cols m).
  { unfold lu_decomp, lu_gen in ELU. destruct (Nat.eqb_spec (rows m) (cols m)) as [H|H]; [exact H|discriminate]. }
  destruct (lu_gen_shape (A := AR) true m lu perm piv W Sq ELU) as [SL _].
  unfold determinant, determinant_gen in E. change (lu_gen true m) with (lu_decomp m) in E.
  rewrite ELU in E. cbn [bind] in E.
  destruct (diag_product_round lu (rows m) SL) as (d0 & P & Ed & HP & Ep).
  change (for_ 0 (rows m) (fun i (d : R) => let* a := mget lu i i in Ok (fmul d a)) 1 = Ok d0) in Ed.
  change (@one AR) with 1 in E.
  change (for_ 0 (rows m) (fun (i : nat) (d : AR) => let* a := mget lu i i in Ok (mul (a := AR) d a)) 1)
    with (for_ 0 (rows m) (fun i (d : R) => let* a := mget lu i i in Ok (fmul d a)) 1) in E.
  rewrite Ed in E. cbn [bind] in E. injection E as <-.
  exists (P - 1). split; [now apply (bnd_gam u u_range)|].
  rewrite Ep. destruct (Nat.even piv); cbn [neg ARm]; ring.
Qed.

End RoundDet.
