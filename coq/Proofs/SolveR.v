(* Proofs/SolveR.v -- the real-number instance of the arithmetic signature (the idealisation of the f64
   element type) and the solve_basic theorems at it.  Equality and order tests on R are the classical
   decision procedures of the standard library (Req_EM_T, Rlt_dec): the corollaries depend on the
   standard library's axioms of the reals (allow-listed), nothing else.  Package c01. *)
From Coq Require Import List Arith Lia Reals Lra RealField.
From OV Require Import Base.Panic Base.Arith Model.Vector Model.Matrix Model.Solve
  Proofs.Matrix Proofs.SolveBase Proofs.SolveBack Proofs.SolveGauss Proofs.Solve Proofs.SolveComplete.
Import ListNotations.

Definition R_eqb (x y : R) : bool := if Req_EM_T x y then true else false.
Definition R_ltb (x y : R) : bool := if Rlt_dec x y then true else false.
Definition R_leb (x y : R) : bool := if Rle_dec x y then true else false.
Definition R_div (x y : R) : res R := if R_eqb y 0%R then Panic DivZero else Ok (x / y)%R.

Definition AR : Arith := {|
  T := R; zero := 0%R; one := 1%R;
  add := Rplus; sub := Rminus; mul := Rmult; neg := Ropp;
  abs := Rabs; div := R_div; eqb := R_eqb; ltb := R_ltb; leb := R_leb |}.

Lemma AR_field : field_theory (@zero AR) one add mul sub neg (fun x y => mul x (Rinv y)) Rinv eq.
Proof. exact Rfield. Qed.

Definition AR_FieldLaws : FieldLaws AR.
Proof.
  refine {| fl_inv := Rinv : AR -> AR; fl_field := AR_field |}.
  - intros x y. cbn. unfold R_eqb. destruct (Req_EM_T x y); split; congruence.
  - intros x y. reflexivity.
Defined.

Lemma AR_PivLaws : PivLaws AR.
Proof.
  split; cbn.
  - intros x. split.
    + intros H. destruct (Req_dec x 0) as [|N]; auto. exfalso. exact (Rabs_no_R0 x N H).
    + intros ->. apply Rabs_R0.
  - intros x Hx. unfold R_ltb. destruct (Rlt_dec 0 (Rabs x)) as [|N]; auto.
    exfalso. apply N. now apply Rabs_pos_lt.
  - intros x. unfold R_ltb. destruct (Rlt_dec (Rabs x) 0) as [L|]; auto.
    pose proof (Rabs_pos x). lra.
Qed.

Lemma solve_basic_sound_R_lemma (M : matrix AR) (b x : list AR) :
  wf M -> rows M = cols M -> length b = rows M -> solve_basic M b = Ok x ->
  length x = rows M /\
  forall i, i < rows M -> mvprod (rows M) (ent M) (fun k => nth k x zero) i = nth i b zero.
Proof. exact (solve_basic_sound_lemma AR_FieldLaws M b x). Qed.

Lemma solve_basic_correct_R_lemma (M : matrix AR) (b : list AR) :
  wf M -> rows M = cols M -> length b = rows M -> 1 <= rows M ->
  (exists N : nat -> nat -> AR, left_inverse (rows M) N (ent M)) ->
  exists x, solve_basic M b = Ok x /\ length x = rows M /\
    (forall i, i < rows M -> mvprod (rows M) (ent M) (fun k => nth k x zero) i = nth i b zero) /\
    (forall y, length y = rows M ->
       (forall i, i < rows M -> mvprod (rows M) (ent M) (fun k => nth k y zero) i = nth i b zero) -> y = x).
Proof.
  intros W Hsq Lb Hn LI.
  destruct (solve_basic_complete_lemma AR_FieldLaws AR_PivLaws M b W Hsq Lb Hn LI) as (x & E).
  destruct (solve_basic_sound_R_lemma M b x W Hsq Lb E) as (Lx & S).
  exists x. repeat split; auto.
  intros y Ly Sy. apply (solutions_unique_lemma AR_FieldLaws M b y x LI Ly Lx Sy S).
Qed.
