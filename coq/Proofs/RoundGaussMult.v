(* Proofs/RoundGaussMult.v -- the trace of gauss_with_pivot (Proofs/RoundGaussTrace.v) together with the size of the
   multipliers: partial pivoting makes every multiplier the elimination uses a rounded quotient of magnitude at most 1,
   so the ghost array H of the trace satisfies |H_rk| <= 1 + u below the diagonal ([gauss_trace_mult]).
   Needs the standard-model hypothesis for the division only. *)
From Coq Require Import List Arith Lia Bool Reals Lra Psatz.
From OV Require Import Base.Panic Base.Arith Base.RoundModel Model.Vector Model.Matrix Model.Solve
  Proofs.Matrix Proofs.LUPrim Proofs.RoundLUFun Proofs.RoundLUTrace Proofs.RoundGaussTrace.
Import ListNotations.
Local Open Scope R_scope.

Section GaussMult.
Variable u : R.
Hypothesis u_range : 0 <= u < 1.
Variables fadd fsub fmul fdiv : R -> R -> R.
Hypothesis fdiv_ok : forall x y, y <> 0 -> exists d, Rabs d <= u /\ fdiv x y = x / y * (1 + d).

Notation AR := (ARm fadd fsub fmul fdiv).
Notation stepf := (stepf fsub fmul fdiv).
Notation GoodF := (GoodF fsub fmul fdiv).
Notation aug := (aug fadd fsub fmul fdiv).
Notation gstepf := (gstepf fsub fmul fdiv).
Notation gbody := (gbody fadd fsub fmul fdiv).
Notation msearch_body := (msearch_body fadd fsub fmul fdiv).
Notation BadRun := (BadRun fadd fsub fmul fdiv).

(* the pivot search returns a maximal entry, or the column is zero *)
Lemma msearch_spec_max (m : matrix AR) (n k : nat) : shape m n n -> (k < n)%nat ->
  exists p, max_abs_in_column m k k = Ok p /\
    (((k <= p)%nat /\ (p < n)%nat /\ ent (A := AR) m p k <> 0 /\
      forall r, (k <= r)%nat -> (r < n)%nat -> Rabs (ent (A := AR) m r k) <= Rabs (ent (A := AR) m p k)) \/
     (forall r, (k <= r)%nat -> (r < n)%nat -> ent (A := AR) m r k = 0)).
Proof.
  intros SH Hk. rewrite (max_abs_unfold fadd fsub fmul fdiv). destruct (SH) as (_ & Rm & _). rewrite Rm.
  destruct (for_inv (fun i (st : nat * R) => 0 <= snd st /\
              (forall r, (k <= r)%nat -> (r < i)%nat -> Rabs (ent (A := AR) m r k) <= snd st) /\
              (0 < snd st -> (k <= fst st)%nat /\ (fst st < n)%nat /\ snd st = Rabs (ent (A := AR) m (fst st) k)))
            k n (msearch_body m k) (0%nat, 0)) as ([p mx] & E & H1 & H2 & H3).
  - lia.
  - cbn [fst snd]. split; [lra|]. split; [intros r Hr1 Hr2; lia|intros Z; exfalso; lra].
  - intros i [mi mx] Hi (H1 & H2 & H3). cbn [fst snd] in *.
    unfold RoundGaussTrace.msearch_body. rewrite (mget_ok (A := AR) m n n i k SH) by lia. cbn [bind].
    change (ltb (a := AR) mx (abs (a := AR) (ent (A := AR) m i k)))
      with (if Rlt_dec mx (Rabs (ent (A := AR) m i k)) then true else false).
    change (abs (a := AR) (ent (A := AR) m i k)) with (Rabs (ent (A := AR) m i k)).
    destruct (Rlt_dec mx (Rabs (ent (A := AR) m i k))) as [L|L].
    + eexists; split; [reflexivity|]. cbn [fst snd]. split; [lra|]. split.
      * intros r Hr1 Hr2. destruct (Nat.eq_dec r i) as [->|Ne]; [lra|]. specialize (H2 r Hr1 ltac:(lia)). lra.
      * intros _. split; [lia|]. split; [lia|reflexivity].
    + eexists; split; [reflexivity|]. cbn [fst snd]. split; [exact H1|]. split; [|exact H3].
      intros r Hr1 Hr2. destruct (Nat.eq_dec r i) as [->|Ne]; [lra|]. apply H2; lia.
  - rewrite E. cbn [bind fst]. exists p. split; [reflexivity|]. cbn [fst snd] in *.
    destruct (Req_dec mx 0) as [Z|NZ].
    + right. intros r Hr1 Hr2. specialize (H2 r Hr1 Hr2). rewrite Z in H2.
      pose proof (Rabs_pos (ent (A := AR) m r k)).
      destruct (Req_dec (ent (A := AR) m r k) 0) as [E0|N0]; [exact E0|]. apply Rabs_pos_lt in N0. lra.
    + left. destruct (H3 ltac:(lra)) as (P1 & P2 & P3). split; [exact P1|]. split; [exact P2|]. split.
      * intros Z. rewrite Z, Rabs_R0 in P3. lra.
      * intros r Hr1 Hr2. rewrite <- P3. now apply H2.
Qed.

Lemma quotient_le (a pv : R) : pv <> 0 -> Rabs a <= Rabs pv -> Rabs (fdiv a pv) <= 1 + u.
Proof using u_range fdiv_ok.
  intros Npv Ha. destruct (fdiv_ok a pv Npv) as (d & Hd & Ed). rewrite Ed.
  assert (Pp : 0 < Rabs pv) by now apply Rabs_pos_lt.
  rewrite Rabs_mult. unfold Rdiv. rewrite Rabs_mult, Rabs_inv.
  assert (Q : Rabs a * / Rabs pv <= 1).
  { apply (Rmult_le_reg_r (Rabs pv)); [exact Pp|]. rewrite Rmult_assoc, Rinv_l by lra. lra. }
  assert (D1 : Rabs (1 + d) <= 1 + u).
  { eapply Rle_trans; [apply Rabs_triang|]. rewrite Rabs_R1. lra. }
  assert (0 <= Rabs a * / Rabs pv).
  { apply Rmult_le_pos; [apply Rabs_pos|]. apply Rlt_le, Rinv_0_lt_compat. exact Pp. }
  pose proof (Rabs_pos (1 + d)). nra.
Qed.

(* one step, with the size of the multipliers it uses *)
Lemma gbody_spec_max (m : matrix AR) (x : list R) (n k : nat) : shape m n n -> length x = n -> (k < n)%nat ->
  exists m' x', gbody k (m, x) = Ok (m', x') /\ shape m' n n /\ length x' = n /\
    ((exists p, (k <= p)%nat /\ (p < n)%nat /\
        (forall r c, (r < n)%nat -> (c <= n)%nat ->
           aug n m' x' r c = gstepf (fun r c => aug n m x (tr k p r) c) k r c) /\
        (forall r, (k < r)%nat -> (r < n)%nat ->
           Rabs (fdiv (aug n m x (tr k p r) k) (aug n m x (tr k p k) k)) <= 1 + u)) \/
     (forall r, (k <= r)%nat -> (r < n)%nat -> ent (A := AR) m r k = 0)).
Proof using u_range fdiv_ok.
  intros SH Lx Hk.
  destruct (msearch_spec_max m n k SH Hk) as (p & Ep & Hp).
  destruct Hp as [(Hp1 & Hp2 & Npv & Hmax)|Z].
  - unfold RoundGaussTrace.gbody, partial_pivot. rewrite Ep. cbn [bind].
    destruct (swap_rows_ok (A := AR) m n n p k SH Hp2 Hk) as (m1 & E1 & S1 & G1). rewrite E1. cbn [bind].
    destruct (vswap_spec fadd fsub fmul fdiv x p k ltac:(lia) ltac:(lia)) as (x1 & Ex1 & L1 & Gx1).
    rewrite Ex1. cbn [bind fst].
    destruct (S1) as (_ & R1 & _). rewrite R1.
    destruct (gelim_spec fadd fsub fmul fdiv m1 x1 n k S1 (eq_trans L1 Lx) Hk) as (m' & x' & E' & S' & L' & G').
    exists m', x'. split; [exact E'|]. split; [exact S'|]. split; [exact L'|]. left.
    exists p. split; [exact Hp1|]. split; [exact Hp2|]. split.
    + intros r c Hr Hc. rewrite (G' r c Hr Hc).
      assert (EA : forall r c, (r < n)%nat -> (c <= n)%nat -> aug n m1 x1 r c = aug n m x (tr k p r) c).
      { assert (TS : forall a b i, tr a b i = tr b a i).
        { intros a b i. unfold tr. destruct (Nat.eqb_spec i a), (Nat.eqb_spec i b); congruence. }
        intros r0 c0 Hr0 Hc0. unfold RoundGaussTrace.aug. destruct (Nat.ltb_spec c0 n).
        + rewrite G1 by assumption. now rewrite TS.
        + rewrite Gx1. now rewrite TS. }
      unfold RoundGaussTrace.gstepf. rewrite !EA by lia. reflexivity.
    + intros r Hr1 Hr2. unfold RoundGaussTrace.aug. destruct (Nat.ltb_spec k n); [|lia].
      rewrite tr_l. apply quotient_le; [exact Npv|].
      apply Hmax; [|apply tr_lt; lia]. unfold tr. destruct (r =? k)%nat; [lia|]. destruct (r =? p)%nat; lia.
  - destruct (gbody_spec fadd fsub fmul fdiv m x n k SH Lx Hk) as (m' & x' & E' & S' & L' & _).
    exists m', x'. split; [exact E'|]. split; [exact S'|]. split; [exact L'|]. right. exact Z.
Qed.

(* the multipliers recorded in the ghost array *)
Definition MultOKg (n s : nat) (H : nat -> nat -> R) : Prop :=
  forall k r, (k < s)%nat -> (k < r)%nat -> (r < n)%nat -> Rabs (H r k) <= 1 + u.

Theorem gauss_trace_mult (m m' : matrix AR) (b b' : list R) :
  wf m -> rows m = cols m -> length b = rows m -> gauss_with_pivot m b = Ok (m', b') ->
  shape m' (rows m) (rows m) /\ length b' = rows m /\
  (BadRun m b (rows m) (rows m - 1) \/
   exists (tau : nat -> nat) (H : nat -> nat -> R),
     (forall r, (r < rows m)%nat -> (tau r < rows m)%nat) /\
     (forall r r', (r < rows m)%nat -> (r' < rows m)%nat -> tau r = tau r' -> r = r') /\
     Rel (rows m) (rows m - 1) (aug (rows m) m' b') H /\
     GoodF (S (rows m)) (rows m - 1) (fun r c => aug (rows m) m b (tau r) c) H /\
     MultOKg (rows m) (rows m - 1) H).
Proof using u_range fdiv_ok.
  intros W Sq Lb E. set (n := rows m) in *.
  assert (SM : shape m n n) by (split; [exact W|split; [reflexivity|symmetry; exact Sq]]).
  rewrite (gauss_unfold fadd fsub fmul fdiv) in E. fold n in E. apply bind_ok in E as (hi & Eh & E).
  unfold usub in Eh. destruct (Nat.leb_spec 1 n) as [Hn|]; [|discriminate]. injection Eh as <-.
  destruct (for_inv (fun s (st : matrix AR * list R) =>
              for_ 0 s gbody (m, b) = Ok st /\ shape (fst st) n n /\ length (snd st) = n /\
              (BadRun m b n s \/
               exists (tau : nat -> nat) (H : nat -> nat -> R),
                 (forall r, (r < n)%nat -> (tau r < n)%nat) /\
                 (forall r r', (r < n)%nat -> (r' < n)%nat -> tau r = tau r' -> r = r') /\
                 Rel n s (aug n (fst st) (snd st)) H /\
                 GoodF (S n) s (fun r c => aug n m b (tau r) c) H /\
                 MultOKg n s H))
            0%nat (n - 1)%nat gbody (m, b)) as ([m2 b2] & E2 & _ & S2 & L2 & G2).
  - lia.
  - cbn [fst snd]. split; [reflexivity|]. split; [exact SM|]. split; [exact Lb|]. right.
    exists (fun r => r), (aug n m b). split; [auto|]. split; [auto|]. split.
    + intros r c _ _ _. reflexivity.
    + split; [apply goodF_0|intros k r Hk; lia].
  - intros s [m1 b1] Hs (Run & S1 & L1 & G1). cbn [fst snd] in *.
    destruct (gbody_spec_max m1 b1 n s S1 L1 ltac:(lia)) as (m3 & b3 & E3 & S3 & L3 & G3).
    exists (m3, b3). split; [exact E3|]. cbn [fst snd].
    split; [rewrite for_snoc, Run; exact E3|]. split; [exact S3|]. split; [exact L3|].
    destruct G1 as [(k & mk & bk & Hk & Rk & Zk)|(tau & H & T1 & T2 & RL & GD & MO)].
    + left. exists k, mk, bk. split; [lia|]. split; assumption.
    + destruct G3 as [(p & Hp1 & Hp2 & GE & GQ)|Z].
      * right. exists (fun r => tau (tr s p r)), (stepf (fun r c => H (tr s p r) c) s).
        split; [intros r Hr; apply T1; apply tr_lt; lia|]. split.
        { intros r r' Hr Hr' Et. apply T2 in Et; [|apply tr_lt; lia|apply tr_lt; lia].
          rewrite <- (tr_invol s p r), Et. apply tr_invol. }
        split; [apply (rel_step fsub fmul fdiv n s p (aug n m1 b1)); auto; lia|]. split.
        { apply goodF_step; [lia|].
          apply (goodF_swap fsub fmul fdiv (S n) s p (fun r c => aug n m b (tau r) c) H); [lia|lia|exact GD]. }
        intros k r Hk Hkr Hr. destruct (Nat.eq_dec k s) as [->|Nk].
        -- (* the new multiplier of row r *)
           unfold RoundLUFun.stepf. destruct (Nat.ltb_spec s r); [|lia]. rewrite Nat.ltb_irrefl, Nat.eqb_refl.
           rewrite <- (RL (tr s p r) s) by (try apply tr_lt; lia).
           rewrite <- (RL (tr s p s) s) by (try apply tr_lt; lia).
           apply GQ; lia.
        -- rewrite stepf_left by lia. apply MO; [lia| |apply tr_lt; lia].
           unfold tr. destruct (r =? s)%nat; [lia|]. destruct (r =? p)%nat; lia.
      * left. exists s, m1, b1. split; [lia|]. split; [exact Run|exact Z].
  - rewrite E2 in E. injection E as <- <-. cbn [fst snd] in *.
    split; [exact S2|]. split; [exact L2|]. exact G2.
Qed.

End GaussMult.
