(* Proofs/Newton2Cplx.v -- C17: the scalar solve on affine functions over ANY field, hence the complex
   variant Newton<Cmplx>::solve (package newton2).

   newton_scalar_affine_lemma   for an arbitrary NOps whose element arithmetic is a field, whose
        "element / real" division undoes the multiplication by 2 delta
        (divr (z * (emb d + emb d)) (2 d) = Ok z), and with |0| <= tol: on f(z) = a z + b, a <> 0,
        the run returns Ok of the exact root -b/a within two passes (the central difference of an
        affine function is its slope exactly).
   newton_affine_exact_C_lemma  the instance NCR = NCplx SAR (complex unknown, real tol and delta,
        |z| = sqrt(re^2 + im^2), Complex / f64 componentwise). *)
From Coq Require Import List Arith Lia Bool Reals Lra Ring_theory Field_theory Ring Field.
From OV Require Import Base.Panic Base.Arith Model.Complex Model.Newton
  Proofs.SolveBase Proofs.SolveR Proofs.SolveC Proofs.NewtonLoop Proofs.Newton Proofs.Newton2Inst.
Import ListNotations.

Section ScalarAffine.
Context (O : NOps) (FL : FieldLaws (NA O)).
Notation A := (NA O).
Add Field Afield4 : (fl_field A FL).
Variables (a b : A) (tl dl : NR O).
Hypothesis Ha : a <> zero.
Hypothesis Hdivr : forall z : A, divr O (mul z (add (emb O dl) (emb O dl))) (mul (two O) dl) = Ok z.
Hypothesis Hle : leb (mag O zero) tl = true.

Let f (x : A) : res A := Ok (add (mul a x) b).
Definition aroot : A := neg (mul b (fl_inv A FL a)).

Lemma affine_pass_gen x :
  scalar_step O tl dl f x =
    Ok (aroot, leb (mag O (sub x aroot)) tl, [add x (emb O dl); sub x (emb O dl); x]).
Proof.
  unfold scalar_step, f. cbn [bind].
  replace (sub (add (mul a (add x (emb O dl))) b) (add (mul a (sub x (emb O dl))) b))
    with (mul a (add (emb O dl) (emb O dl))) by ring.
  rewrite Hdivr. cbn [bind]. rewrite (fl_div A FL).
  destruct (eqb a zero) eqn:E; [apply (fl_eqb A FL) in E; contradiction|]. cbn [bind].
  replace (sub x (mul (add (mul a x) b) (fl_inv A FL a))) with aroot by (unfold aroot; field; exact Ha).
  replace (mul (add (mul a x) b) (fl_inv A FL a)) with (sub x aroot) by (unfold aroot; field; exact Ha).
  reflexivity.
Qed.

Lemma newton_scalar_affine_lemma n x0 : 2 <= n ->
  exists evs, newton_scalar O (mkCfg tl dl n x0) f = Ok (NOk aroot, evs) /\ length evs <= 6.
Proof.
  intros Hn. unfold newton_scalar. cbn [tol delta max_iter guess].
  destruct n as [|[|n]]; try lia. cbn [nloop].
  rewrite affine_pass_gen. cbn [bind].
  destruct (leb (mag O (sub x0 aroot)) tl); [eexists; split; [reflexivity|cbn; lia]|].
  rewrite affine_pass_gen. cbn [bind].
  replace (sub aroot aroot) with (@zero A) by ring. rewrite Hle.
  eexists; split; [reflexivity|cbn; lia].
Qed.

Lemma aroot_is_root : add (mul a aroot) b = zero.
Proof. unfold aroot. field. exact Ha. Qed.

End ScalarAffine.

(* ---------------- the complex instance ---------------- *)
Local Open Scope R_scope.

Lemma NCR_divr (dl : R) : dl <> 0 ->
  forall z : ACR, divr NCR (mul z (add (emb NCR dl) (emb NCR dl))) (mul (two NCR) dl) = Ok z.
Proof.
  intros Hd [x y]. cbn. unfold cdiv_r. cbn. unfold R_div.
  assert (N : R_eqb ((1 + 1) * dl) 0 = false).
  { destruct (R_eqb ((1 + 1) * dl) 0) eqn:E; auto. apply R_eqb_true in E. exfalso. apply Hd. lra. }
  rewrite N. cbn. f_equal. apply cplx_eq; cbn; field; lra.
Qed.

Lemma newton_affine_exact_C_lemma (a b : ACR) (tl dl : R) (n : nat) (x0 : ACR) :
  a <> zero -> dl <> 0 -> 0 <= tl -> (2 <= n)%nat ->
  exists evs, newton_scalar NCR (mkCfg tl dl n x0) (fun z => Ok (add (mul a z) b)) =
                Ok (NOk (neg (mul b (C_inv a))), evs) /\
              add (mul a (neg (mul b (C_inv a)))) b = zero /\ (length evs <= 6)%nat.
Proof.
  intros Ha Hd Ht Hn.
  destruct (newton_scalar_affine_lemma NCR ACR_FieldLaws a b tl dl Ha (NCR_divr dl Hd) (NCR_le0 tl Ht) n x0 Hn)
    as (evs & E & L).
  exists evs. split; [exact E|]. split; [|exact L].
  exact (aroot_is_root NCR ACR_FieldLaws a b Ha).
Qed.

(* witness: a = i, b = 1 (root i), delta = 1/8 *)
Lemma i_nonzero : mkC (A:=AR) 0 1 <> (zero : ACR).
Proof. intros H. apply (f_equal im) in H. cbn in H. lra. Qed.
