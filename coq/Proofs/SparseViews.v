(* Proofs/SparseViews.v -- C06, views: for a well-formed matrix with no position stored twice,
   get, to_triplets, to_dense and col_index describe one and the same matrix; construction from
   triplets does not depend on the order of the triplets. *)
From Coq Require Import List Arith Lia Bool Permutation.
From OV Require Import Base.Panic Base.Arith Model.Vector Model.Matrix Model.Sparse
                       Proofs.SparseBase Proofs.SparseWf.
Import ListNotations.

(* ---------- list plumbing ---------- *)
Lemma fold_left_app_flat_map {X Y} (h : X -> list Y) l a :
  fold_left (fun acc x => acc ++ h x) l a = a ++ flat_map h l.
Proof.
  revert a; induction l as [|x t IH]; intros a; cbn.
  - now rewrite app_nil_r.
  - rewrite IH, <- app_assoc. reflexivity.
Qed.

Lemma map_flat_map_comm {X Y Z} (f : Y -> Z) (g : X -> list Y) l :
  map f (flat_map g l) = flat_map (fun x => map f (g x)) l.
Proof. induction l as [|x t IH]; cbn; auto. now rewrite map_app, IH. Qed.

Lemma map_fst_pair {X Y} (j : X) (l : list Y) : map fst (map (pair j) l) = repeat j (length l).
Proof. induction l; cbn; congruence. Qed.

Lemma NoDup_map_inj_in {X Y} (f : X -> Y) l :
  NoDup (map f l) -> forall x y, In x l -> In y l -> f x = f y -> x = y.
Proof.
  induction l as [|a t IH]; intros Hnd x y Hx Hy E; [destruct Hx|].
  cbn in Hnd. inversion Hnd as [|? ? Hna Hnt]; subst.
  destruct Hx as [<-|Hx], Hy as [<-|Hy]; auto.
  - exfalso. apply Hna. rewrite E. now apply in_map.
  - exfalso. apply Hna. rewrite <- E. now apply in_map.
Qed.

Lemma NoDup_map_of_inj {X Y} (f : X -> Y) l :
  (forall x y, In x l -> In y l -> f x = f y -> x = y) -> NoDup l -> NoDup (map f l).
Proof.
  induction l as [|a t IH]; intros Hinj Hnd; cbn; [constructor|].
  inversion Hnd as [|? ? Hna Hnt]; subst. constructor.
  - intros Hin. apply in_map_iff in Hin as (y & E & Hy).
    assert (y = a) by (apply Hinj; auto; [right; auto|left; auto]). subst. auto.
  - apply IH; auto. intros x y Hx Hy. apply Hinj; right; auto.
Qed.

Lemma idx_inj c r j r' j' : j < c -> j' < c -> r * c + j = r' * c + j' -> r = r' /\ j = j'.
Proof.
  intros Hj Hj' E.
  assert (Hc : c <> 0) by lia.
  assert (Hr : r = r').
  { apply (f_equal (fun x => x / c)) in E.
    rewrite !Nat.div_add_l in E by auto. rewrite !Nat.div_small in E by auto. lia. }
  subst. split; auto. lia.
Qed.

Lemma idx_lt r c i j : i < r -> j < c -> i * c + j < r * c.
Proof. intros. nia. Qed.

(* writes through a list of (index, value) pairs *)
Definition updw {X} (b : list X) (w : nat * X) : list X := upd_list b (fst w) (snd w).

Lemma updw_length {X} (ws : list (nat * X)) init : length (fold_left updw ws init) = length init.
Proof.
  revert init; induction ws as [|w t IH]; intros init; cbn; auto.
  rewrite IH. apply upd_list_length.
Qed.

Lemma updw_notin {X} (ws : list (nat * X)) init p d :
  (forall w, In w ws -> fst w < length init) ->
  (forall w, In w ws -> fst w <> p) -> nth p (fold_left updw ws init) d = nth p init d.
Proof.
  revert init; induction ws as [|w t IH]; intros init Hlt H; cbn; auto.
  rewrite IH.
  - unfold updw. rewrite nth_upd_list by (apply Hlt; left; auto).
    destruct (Nat.eqb_spec p (fst w)) as [E|E]; auto. exfalso. apply (H w); [left|]; auto.
  - intros w' Hw'. unfold updw. rewrite upd_list_length. apply Hlt; right; auto.
  - intros w' Hw'. apply H; right; auto.
Qed.

Lemma updw_in {X} (ws : list (nat * X)) init p v d :
  (forall w, In w ws -> fst w < length init) ->
  NoDup (map fst ws) -> In (p, v) ws -> nth p (fold_left updw ws init) d = v.
Proof.
  revert init; induction ws as [|w t IH]; intros init Hlt Hnd Hin; [destruct Hin|].
  cbn in Hnd. inversion Hnd as [|? ? Hna Hnt]; subst. cbn [fold_left].
  assert (Hlt' : forall w', In w' t -> fst w' < length (updw init w)).
  { intros w' Hw'. unfold updw. rewrite upd_list_length. apply Hlt; right; auto. }
  destruct Hin as [->|Hin].
  - rewrite updw_notin; auto.
    + unfold updw. cbn [fst snd]. rewrite nth_upd_list by (apply (Hlt (p, v)); left; auto).
      now rewrite Nat.eqb_refl.
    + intros w' Hw' E. apply Hna. cbn [fst]. rewrite <- E. now apply in_map.
  - apply IH; auto.
Qed.

(* first-match search *)
Lemma find_from_spec {X} (P : nat -> bool) (val : nat -> X) n lo (body : nat -> res (option X)) :
  (forall k, lo <= k < lo + n -> body k = Ok (if P k then Some (val k) else None)) ->
  (exists k, find_from n lo body = Ok (Some (val k)) /\ lo <= k < lo + n /\ P k = true /\
             forall k', lo <= k' < k -> P k' = false) \/
  (find_from n lo body = Ok None /\ forall k, lo <= k < lo + n -> P k = false).
Proof.
  revert lo; induction n as [|n IH]; intros lo H.
  - right. split; auto. intros; lia.
  - cbn [find_from]. rewrite H by lia. cbn [bind].
    destruct (P lo) eqn:E.
    + left. exists lo. repeat split; auto; try lia.
    + destruct (IH (S lo)) as [(k & Ek & Hk & HP & Hmin)|(En & Hn)].
      * intros k Hk. apply H. lia.
      * left. exists k. repeat split; auto; try lia.
        intros k' Hk'. destruct (Nat.eq_dec k' lo) as [->|]; auto. apply Hmin. lia.
      * right. split; auto. intros k Hk. destruct (Nat.eq_dec k lo) as [->|]; auto. apply Hn. lia.
Qed.

Section Views.
Context {A : Arith}.
Notation T := (T A).
Notation sparse := (sparse A).

(* the expanded column index of a well-formed matrix *)
Definition cidx (s : sparse) : list nat := map fst (visits (sp_col_start s) (sp_cols s)).

Lemma cidx_length (s : sparse) : wfS s -> length (cidx s) = sp_nonzero s.
Proof.
  intros Hwf. unfold cidx. rewrite map_length.
  rewrite <- (map_length snd), wf_visits_snd by auto. apply seq_length.
Qed.

Lemma visits_indexed (s : sparse) : wfS s ->
  visits (sp_col_start s) (sp_cols s) = map (fun k => (nth k (cidx s) 0, k)) (seq 0 (sp_nonzero s)).
Proof.
  intros Hwf. pose proof (cidx_length s Hwf) as Hl. pose proof (wf_visits_snd s Hwf) as Hs.
  set (V := visits (sp_col_start s) (sp_cols s)) in *.
  assert (HlV : length V = sp_nonzero s) by (unfold cidx in Hl; now rewrite map_length in Hl).
  apply (nth_ext _ _ (0, 0) (0, 0)).
  - now rewrite map_length, seq_length.
  - intros k Hk. rewrite HlV in Hk.
    rewrite (nth_indep (map _ _) (0, 0) ((fun k => (nth k (cidx s) 0, k)) 0)) by (now rewrite map_length, seq_length).
    rewrite (map_nth (fun k => (nth k (cidx s) 0, k))). rewrite seq_nth by auto. cbn [Nat.add].
    unfold cidx. fold V.
    rewrite (nth_indep (map fst V) 0 (fst (0, 0))) by (rewrite map_length; lia).
    rewrite (map_nth fst).
    assert (E : snd (nth k V (0, 0)) = k).
    { rewrite <- (map_nth snd). rewrite Hs. cbn [snd]. now rewrite seq_nth. }
    destruct (nth k V (0, 0)) as [a b]. cbn in *. now subst.
Qed.

Definition entk (s : sparse) (k : nat) : triplet A :=
  (nth k (sp_row_index s) 0, nth k (cidx s) 0, nth k (sp_val s) zero).

Lemma ents_indexed (s : sparse) : wfS s -> ents s = map (entk s) (seq 0 (sp_nonzero s)).
Proof. intros Hwf. unfold ents. rewrite visits_indexed by auto. now rewrite map_map. Qed.

Lemma cidx_lt (s : sparse) k : wfS s -> k < sp_nonzero s -> nth k (cidx s) 0 < sp_cols s.
Proof.
  intros Hwf Hk.
  assert (Hin : In (nth k (cidx s) 0, k) (visits (sp_col_start s) (sp_cols s))).
  { rewrite visits_indexed by auto. apply in_map_iff. exists k. split; auto. apply in_seq. lia. }
  apply (wf_visit_lt s _ Hwf) in Hin. cbn in Hin. lia.
Qed.

Lemma keys_inj (s : sparse) : wfS s -> NoDupKeys s -> forall k k', k < sp_nonzero s -> k' < sp_nonzero s ->
  nth k (sp_row_index s) 0 = nth k' (sp_row_index s) 0 -> nth k (cidx s) 0 = nth k' (cidx s) 0 -> k = k'.
Proof.
  intros Hwf Hnd k k' Hk Hk' E1 E2. unfold NoDupKeys in Hnd.
  rewrite ents_indexed, map_map in Hnd by auto.
  apply (NoDup_map_inj_in _ _ Hnd); try (apply in_seq; lia).
  unfold entk, trow, tcol. cbn [fst snd]. congruence.
Qed.

(* ---------- col_index ---------- *)
Lemma sp_col_index_ok (s : sparse) : wfS s -> sp_col_index s = Ok (cidx s).
Proof.
  intros Hwf. unfold sp_col_index.
  destruct (Nat.eqb_spec (sp_nonzero s) 0) as [E0|E0].
  - f_equal. pose proof (cidx_length s Hwf) as Hl. rewrite E0 in Hl.
    destruct (cidx s); [auto|discriminate].
  - destruct Hwf as (Hl & H0 & Hm & Hn & _).
    destruct (Nat.ltb_spec (length (sp_col_start s)) (sp_cols s + 1)); [lia|].
    unfold usub at 1. destruct (Nat.leb_spec 1 (length (sp_col_start s))); [|lia]. cbn [bind].
    replace (length (sp_col_start s) - 1) with (sp_cols s) by lia.
    rewrite for_foldM, Nat.sub_0_r.
    destruct (foldM_pure (fun _ => True)
       (fun temp k => let* hi := rd (sp_col_start s) (k + 1) in let* lo := rd (sp_col_start s) k in
                      let* g := usub hi lo in Ok (temp ++ repeat k g))
       (fun temp k => temp ++ repeat k (nth (k + 1) (sp_col_start s) 0 - nth k (sp_col_start s) 0))
       (seq 0 (sp_cols s)) []) as [E _]; auto.
    + intros temp k _ Hk. apply in_seq in Hk.
      rewrite (rd_ok _ (k + 1) 0) by lia. cbn [bind]. rewrite (rd_ok _ k 0) by lia. cbn [bind].
      unfold usub. specialize (Hm k ltac:(lia)).
      destruct (Nat.leb_spec (nth k (sp_col_start s) 0) (nth (k + 1) (sp_col_start s) 0)); [|lia].
      cbn [bind]. auto.
    + rewrite E. f_equal. rewrite fold_left_app_flat_map. cbn [app].
      unfold cidx, visits. rewrite map_flat_map_comm. apply flat_map_ext. intros j.
      rewrite map_fst_pair. unfold seg. now rewrite seq_length.
Qed.

(* ---------- the scan of get / insert ---------- *)
Definition hit (s : sparse) (i j k : nat) : bool :=
  (nth k (sp_row_index s) 0 =? i) && (nth k (cidx s) 0 =? j).

Lemma sp_scan_spec (s : sparse) i j : wfS s ->
  (exists k, sp_scan s (cidx s) i j = Ok (Some k) /\ k < sp_nonzero s /\ hit s i j k = true /\
             forall k', k' < k -> hit s i j k' = false) \/
  (sp_scan s (cidx s) i j = Ok None /\ forall k, k < sp_nonzero s -> hit s i j k = false).
Proof.
  intros Hwf. unfold sp_scan, for_find. rewrite Nat.sub_0_r.
  destruct (find_from_spec (hit s i j) (fun k => k) (sp_nonzero s) 0
     (fun k => let* r := rd (sp_row_index s) k in
               if r =? i then let* c := rd (cidx s) k in if c =? j then Ok (Some k) else Ok None
               else Ok None)) as [(k & E & Hk & HP & Hmin)|(E & Hn)].
  - intros k Hk. pose proof (cidx_length s Hwf) as Hcl.
    destruct Hwf as (_ & _ & _ & _ & _ & Hri & _).
    rewrite (rd_ok _ k 0) by lia. cbn [bind]. unfold hit.
    destruct (nth k (sp_row_index s) 0 =? i); cbn [andb]; auto.
    rewrite (rd_ok _ k 0) by lia. cbn [bind]. destruct (nth k (cidx s) 0 =? j); auto.
  - left. exists k. repeat split; auto; try lia. intros; apply Hmin; lia.
  - right. split; auto. intros; apply Hn; lia.
Qed.

Lemma hit_true (s : sparse) i j k : hit s i j k = true <-> nth k (sp_row_index s) 0 = i /\ nth k (cidx s) 0 = j.
Proof. unfold hit. rewrite andb_true_iff, !Nat.eqb_eq. tauto. Qed.

(* ---------- get ---------- *)
Lemma sp_get_spec (s : sparse) i j : wfS s -> i < sp_rows s -> j < sp_cols s ->
  (exists k, sp_get s i j = Ok (Some (nth k (sp_val s) zero)) /\ k < sp_nonzero s /\ hit s i j k = true /\
             forall k', k' < k -> hit s i j k' = false) \/
  (sp_get s i j = Ok None /\ forall k, k < sp_nonzero s -> hit s i j k = false).
Proof.
  intros Hwf Hi Hj. unfold sp_get.
  destruct (Nat.leb_spec (sp_rows s) i); [lia|]. destruct (Nat.leb_spec (sp_cols s) j); [lia|].
  assert (Hl : length (sp_col_start s) = sp_cols s + 1) by (destruct Hwf; auto).
  destruct (Nat.leb_spec (length (sp_col_start s)) j); [lia|].
  rewrite sp_col_index_ok by auto. cbn [bind].
  destruct (sp_scan_spec s i j Hwf) as [(k & E & Hk & HP & Hmin)|(E & Hn)]; rewrite E; cbn [bind].
  - left. exists k. destruct Hwf as (_ & _ & _ & _ & Hv & _).
    rewrite (rd_ok _ k zero) by lia. cbn [bind]. auto.
  - right. auto.
Qed.

Lemma in_ents_iff (s : sparse) i j v : wfS s ->
  In (i, j, v) (ents s) <-> exists k, k < sp_nonzero s /\ hit s i j k = true /\ nth k (sp_val s) zero = v.
Proof.
  intros Hwf. rewrite ents_indexed by auto. rewrite in_map_iff. split.
  - intros (k & E & Hk). apply in_seq in Hk. exists k. unfold entk in E. injection E as E1 E2 E3.
    split; [lia|]. split; auto. apply hit_true. auto.
  - intros (k & Hk & Hh & Hv). apply hit_true in Hh as [E1 E2]. exists k. split; [|apply in_seq; lia].
    unfold entk. congruence.
Qed.

Lemma get_iff_in (s : sparse) i j v : wfS s -> NoDupKeys s -> i < sp_rows s -> j < sp_cols s ->
  (sp_get s i j = Ok (Some v) <-> In (i, j, v) (ents s)).
Proof.
  intros Hwf Hnd Hi Hj. rewrite in_ents_iff by auto.
  destruct (sp_get_spec s i j Hwf Hi Hj) as [(k & E & Hk & HP & Hmin)|(E & Hn)]; rewrite E.
  - split.
    + intros Ev. injection Ev as <-. exists k. auto.
    + intros (k' & Hk' & HP' & <-).
      apply hit_true in HP as [E1 E2]. apply hit_true in HP' as [E1' E2'].
      assert (Ek : k = k') by (apply (keys_inj s Hwf Hnd); congruence). now rewrite Ek.
  - split; [discriminate|]. intros (k' & Hk' & HP' & _). rewrite Hn in HP' by auto. discriminate.
Qed.

(* ---------- to_dense ---------- *)
Definition dws (s : sparse) : list (nat * T) :=
  map (fun k => (nth k (sp_row_index s) 0 * sp_cols s + nth k (cidx s) 0, nth k (sp_val s) zero)) (seq 0 (sp_nonzero s)).

Lemma sp_to_dense_ok (s : sparse) : wfS s ->
  sp_to_dense s = Ok (mkM (fold_left updw (dws s) (repeat zero (sp_rows s * sp_cols s))) (sp_rows s) (sp_cols s)).
Proof.
  intros Hwf. unfold sp_to_dense.
  rewrite (for_cols_foldM _ _ _ (fun _ => tt)); auto using wf_length_cs.
  destruct (foldM_pure (fun d : matrix A => rows d = sp_rows s /\ cols d = sp_cols s /\ length (buf d) = sp_rows s * sp_cols s)
     (fun d jk => let* v := rd (sp_val s) (snd jk) in let* r := rd (sp_row_index s) (snd jk) in mset d r (fst jk) v)
     (fun d jk => mkM (updw (buf d) (nth (snd jk) (sp_row_index s) 0 * sp_cols s + fst jk, nth (snd jk) (sp_val s) zero))
                      (sp_rows s) (sp_cols s))
     (visits (sp_col_start s) (sp_cols s)) (mat_new (sp_rows s) (sp_cols s) zero)) as [E _].
  - unfold mat_new; cbn. now rewrite repeat_length.
  - intros d jk (Hr & Hc & Hb) Hin.
    destruct (wf_visit_lt s jk Hwf Hin) as [Hj Hk]. pose proof (wf_row_lt s jk Hwf Hin) as Hrow.
    destruct Hwf as (_ & _ & _ & _ & Hv & Hri & _).
    rewrite (rd_ok _ _ zero) by lia. cbn [bind]. rewrite (rd_ok _ _ 0) by lia. cbn [bind].
    unfold mset. rewrite Hc. rewrite upd_ok by (rewrite Hb; apply idx_lt; auto). cbn [bind].
    rewrite Hr. split; [reflexivity|]. cbn [rows cols buf]. unfold updw. rewrite upd_list_length. auto.
  - rewrite E. f_equal.
    (* the buffer of the folded matrix is the fold of the writes *)
    assert (G : forall l (d : matrix A), rows d = sp_rows s -> cols d = sp_cols s ->
       fold_left (fun d jk => mkM (updw (buf d) (nth (snd jk) (sp_row_index s) 0 * sp_cols s + fst jk, nth (snd jk) (sp_val s) zero))
                      (sp_rows s) (sp_cols s)) l d
       = mkM (fold_left updw (map (fun jk => (nth (snd jk) (sp_row_index s) 0 * sp_cols s + fst jk, nth (snd jk) (sp_val s) zero)) l) (buf d))
             (sp_rows s) (sp_cols s)).
    { induction l as [|jk l IH]; intros d Hr Hc; cbn [fold_left map].
      - destruct d; cbn in *; congruence.
      - rewrite IH by reflexivity. reflexivity. }
    rewrite G by reflexivity. unfold mat_new. cbn [buf]. do 2 f_equal.
    unfold dws. rewrite visits_indexed by auto. rewrite map_map. reflexivity.
Qed.

Lemma dws_lt (s : sparse) w : wfS s -> In w (dws s) -> fst w < sp_rows s * sp_cols s.
Proof.
  intros Hwf Hin. unfold dws in Hin. apply in_map_iff in Hin as (k & <- & Hk). apply in_seq in Hk. cbn [fst].
  apply idx_lt.
  - destruct Hwf as (_ & _ & _ & _ & _ & _ & Hr). apply Hr. lia.
  - apply cidx_lt; auto. lia.
Qed.

Lemma dws_nodup (s : sparse) : wfS s -> NoDupKeys s -> NoDup (map fst (dws s)).
Proof.
  intros Hwf Hnd. unfold dws. rewrite map_map. cbn [fst].
  apply NoDup_map_of_inj; [|apply seq_NoDup].
  intros k k' Hk Hk' E. apply in_seq in Hk, Hk'.
  apply idx_inj in E as [E1 E2]; try (apply cidx_lt; auto; lia).
  apply (keys_inj s Hwf Hnd); auto; lia.
Qed.

Theorem views_agree_lemma (s : sparse) : wfS s -> NoDupKeys s ->
  sp_to_triplets s = Ok (ents s) /\
  sp_col_index s = Ok (map (@tcol A) (ents s)) /\
  exists D, sp_to_dense s = Ok D /\ rows D = sp_rows s /\ cols D = sp_cols s /\
  forall i j, i < sp_rows s -> j < sp_cols s ->
    (forall v, sp_get s i j = Ok (Some v) <-> In (i, j, v) (ents s)) /\
    (exists o, sp_get s i j = Ok o /\ mget D i j = Ok (match o with Some v => v | None => zero end)).
Proof.
  intros Hwf Hnd. split; [now apply sp_to_triplets_ok|]. split.
  { rewrite sp_col_index_ok by auto. f_equal. unfold ents, cidx. rewrite map_map. reflexivity. }
  eexists. split; [now apply sp_to_dense_ok|]. split; [reflexivity|]. split; [reflexivity|].
  intros i j Hi Hj. split; [intros v; now apply get_iff_in|].
  unfold mget. cbn [buf cols].
  rewrite (rd_ok _ _ zero) by (rewrite updw_length, repeat_length; now apply idx_lt).
  destruct (sp_get_spec s i j Hwf Hi Hj) as [(k & E & Hk & HP & Hmin)|(E & Hn)]; rewrite E.
  - eexists. split; [reflexivity|]. f_equal. apply updw_in.
    + intros w Hw. rewrite repeat_length. now apply dws_lt.
    + now apply dws_nodup.
    + apply hit_true in HP as [E1 E2]. unfold dws. apply in_map_iff. exists k. split; [|apply in_seq; lia].
      now rewrite E1, E2.
  - eexists. split; [reflexivity|]. f_equal. rewrite updw_notin.
    + apply nth_repeat.
    + intros w Hw. rewrite repeat_length. now apply dws_lt.
    + intros w Hw Ew. unfold dws in Hw. apply in_map_iff in Hw as (k & <- & Hk). apply in_seq in Hk. cbn [fst] in Ew.
      apply idx_inj in Ew as [E1 E2]; auto; [|apply cidx_lt; auto; lia].
      assert (Hh : hit s i j k = true) by (apply hit_true; auto).
      rewrite Hn in Hh by lia. discriminate.
Qed.

End Views.

(* ---------- construction does not depend on the order of the triplets ---------- *)
Section Order.
Context {A : Arith}.
Notation T := (T A).
Notation sparse := (sparse A).

Definition tkey (t : triplet A) : nat * nat := (trow t, tcol t).
Definition NoDupKeysL (ts : list (triplet A)) : Prop := NoDup (map tkey ts).

Lemma sp_get_total (s : sparse) i j : wfS s -> i < sp_rows s -> j < sp_cols s -> exists o, sp_get s i j = Ok o.
Proof.
  intros Hwf Hi Hj. destruct (sp_get_spec s i j Hwf Hi Hj) as [(k & E & _)|(E & _)]; eauto.
Qed.

Lemma from_triplets_ents r c (ts : list (triplet A)) s :
  (forall t, In t ts -> trow t < r /\ tcol t < c) -> sp_from_triplets r c ts = Ok s ->
  wfS s /\ sp_rows s = r /\ sp_cols s = c /\ ents s = sort_by_col ts.
Proof.
  intros Hin E. destruct (from_triplets_wf_lemma r c ts Hin) as (s0 & E0 & Hwf & Hr & Hc & Ht & _).
  rewrite E0 in E. injection E as <-. split; [auto|]. split; [auto|]. split; [auto|].
  rewrite sp_to_triplets_ok in Ht by auto. congruence.
Qed.

Lemma from_triplets_nodup r c (ts : list (triplet A)) s :
  (forall t, In t ts -> trow t < r /\ tcol t < c) -> NoDupKeysL ts -> sp_from_triplets r c ts = Ok s -> NoDupKeys s.
Proof.
  intros Hin Hnd E. destruct (from_triplets_ents r c ts s Hin E) as (_ & _ & _ & He).
  unfold NoDupKeys. rewrite He. fold tkey.
  eapply Permutation_NoDup; [|exact Hnd]. apply Permutation_map, Permutation_sym, sort_by_col_perm.
Qed.

Theorem order_independent_lemma r c (ts ts' : list (triplet A)) :
  Permutation ts ts' -> NoDupKeysL ts -> (forall t, In t ts -> trow t < r /\ tcol t < c) ->
  exists s s', sp_from_triplets r c ts = Ok s /\ sp_from_triplets r c ts' = Ok s' /\
    forall i j, i < r -> j < c -> sp_get s i j = sp_get s' i j.
Proof.
  intros HP Hnd Hin.
  assert (Hin' : forall t, In t ts' -> trow t < r /\ tcol t < c).
  { intros t Ht. apply Hin. eapply Permutation_in; [apply Permutation_sym|]; eauto. }
  assert (Hnd' : NoDupKeysL ts').
  { eapply Permutation_NoDup; [|exact Hnd]. now apply Permutation_map. }
  destruct (from_triplets_wf_lemma r c ts Hin) as (s & E & _).
  destruct (from_triplets_wf_lemma r c ts' Hin') as (s' & E' & _).
  exists s, s'. split; auto. split; auto.
  destruct (from_triplets_ents r c ts s Hin E) as (Hwf & Hr & Hc & He).
  destruct (from_triplets_ents r c ts' s' Hin' E') as (Hwf' & Hr' & Hc' & He').
  pose proof (from_triplets_nodup r c ts s Hin Hnd E) as Hk.
  pose proof (from_triplets_nodup r c ts' s' Hin' Hnd' E') as Hk'.
  intros i j Hi Hj.
  assert (Hiff : forall v, sp_get s i j = Ok (Some v) <-> sp_get s' i j = Ok (Some v)).
  { intros v. rewrite !get_iff_in by (auto; lia). rewrite He, He'.
    split; intros H; (eapply Permutation_in; [|exact H]).
    - rewrite sort_by_col_perm, HP. apply Permutation_sym, sort_by_col_perm.
    - rewrite sort_by_col_perm, <- HP. apply Permutation_sym, sort_by_col_perm. }
  destruct (sp_get_total s i j) as (o & Eo); auto; try lia.
  destruct (sp_get_total s' i j) as (o' & Eo'); auto; try lia.
  rewrite Eo, Eo'. destruct o as [v|].
  - apply Hiff in Eo. congruence.
  - destruct o' as [v'|]; auto. apply Hiff in Eo'. congruence.
Qed.

End Order.
