(* Proofs/SparseRefine.v -- C06 (P2): on well-formed, duplicate-free matrices the modifying operations
   return, keep the matrix duplicate-free, and refine the finite-map operations on the abstract
   matrix  (i,j) |-> sp_get s i j :  insert is a point update, scale maps the values. *)
From Coq Require Import List Arith Lia Bool Permutation.
From OV Require Import Base.Panic Base.Arith Model.Vector Model.Matrix Model.Sparse
                       Proofs.SparseBase Proofs.SparseMul Proofs.SparseWf Proofs.SparseHist Proofs.SparseViews.
Import ListNotations.
Local Open Scope arith_scope.

Section Refine.
Context {A : Arith}.
Notation T := (T A).
Notation sparse := (sparse A).

(* two lookups that succeed with the same values are the same lookup *)
Lemma get_eq_of_iff (s s' : sparse) i j i' j' :
  wfS s -> i < sp_rows s -> j < sp_cols s -> wfS s' -> i' < sp_rows s' -> j' < sp_cols s' ->
  (forall v, sp_get s i j = Ok (Some v) <-> sp_get s' i' j' = Ok (Some v)) -> sp_get s i j = sp_get s' i' j'.
Proof.
  intros Hwf Hi Hj Hwf' Hi' Hj' Hiff.
  destruct (sp_get_total s i j) as (o & Eo); auto.
  destruct (sp_get_total s' i' j') as (o' & Eo'); auto.
  rewrite Eo, Eo'. destruct o as [v|].
  - apply Hiff in Eo. congruence.
  - destruct o' as [v'|]; auto. apply Hiff in Eo'. congruence.
Qed.

(* the first hit is unique *)
Lemma first_hit_unique (P : nat -> bool) k1 k2 :
  P k1 = true -> (forall k, k < k1 -> P k = false) -> P k2 = true -> (forall k, k < k2 -> P k = false) -> k1 = k2.
Proof.
  intros H1 M1 H2 M2. destruct (Nat.lt_trichotomy k1 k2) as [L|[E|L]]; auto.
  - rewrite M2 in H1 by auto. discriminate.
  - rewrite M1 in H2 by auto. discriminate.
Qed.

(* a matrix that differs only in its values has the same hits *)
Lemma cidx_same (s s' : sparse) : sp_col_start s' = sp_col_start s -> sp_cols s' = sp_cols s -> cidx s' = cidx s.
Proof. intros E1 E2. unfold cidx. now rewrite E1, E2. Qed.

Definition with_val (s : sparse) (v : list T) : sparse :=
  mkS (sp_rows s) (sp_cols s) (sp_nonzero s) v (sp_row_index s) (sp_col_start s).

Lemma with_val_wf (s : sparse) v : wfS s -> length v = length (sp_val s) -> wfS (with_val s v).
Proof.
  intros (H1 & H2 & H3 & H4 & H5 & H6 & H7) Hl. unfold wfS, with_val; cbn. repeat split; auto. lia.
Qed.

Lemma with_val_hit (s : sparse) v i j k : hit (with_val s v) i j k = hit s i j k.
Proof. reflexivity. Qed.

Lemma with_val_nodup (s : sparse) v : wfS s -> length v = length (sp_val s) -> NoDupKeys s -> NoDupKeys (with_val s v).
Proof.
  intros Hwf Hl Hnd. pose proof (with_val_wf s v Hwf Hl) as Hwf'.
  unfold NoDupKeys in *. rewrite ents_indexed, map_map in * by auto.
  cbn [sp_nonzero with_val]. exact Hnd.
Qed.

(* lookup in a matrix whose values were replaced *)
Lemma with_val_get (s : sparse) v i j : wfS s -> length v = length (sp_val s) -> i < sp_rows s -> j < sp_cols s ->
  (exists k, k < sp_nonzero s /\ hit s i j k = true /\ (forall k', k' < k -> hit s i j k' = false) /\
             sp_get s i j = Ok (Some (nth k (sp_val s) zero)) /\ sp_get (with_val s v) i j = Ok (Some (nth k v zero))) \/
  (sp_get s i j = Ok None /\ sp_get (with_val s v) i j = Ok None /\ forall k, k < sp_nonzero s -> hit s i j k = false).
Proof.
  intros Hwf Hl Hi Hj. pose proof (with_val_wf s v Hwf Hl) as Hwf'.
  destruct (sp_get_spec s i j Hwf Hi Hj) as [(k & E & Hk & HP & Hmin)|(E & Hn)];
  destruct (sp_get_spec (with_val s v) i j Hwf' Hi Hj) as [(k' & E' & Hk' & HP' & Hmin')|(E' & Hn')].
  - left. exists k. assert (k = k') by (apply (first_hit_unique (hit s i j)); auto). subst k'.
    repeat split; auto.
  - exfalso. rewrite <- (with_val_hit s v), Hn' in HP by auto. discriminate.
  - exfalso. rewrite (with_val_hit s v), Hn in HP' by auto. discriminate.
  - right. auto.
Qed.

(* ---------- scale ---------- *)
Theorem sp_scale_refines_lemma (s : sparse) (a : T) : wfS s -> NoDupKeys s ->
  exists s', sp_scale s a = Ok s' /\ wfS s' /\ NoDupKeys s' /\ sp_rows s' = sp_rows s /\ sp_cols s' = sp_cols s /\
    forall i j, i < sp_rows s -> j < sp_cols s ->
      sp_get s' i j = match sp_get s i j with
                      | Ok (Some v) => Ok (Some (v * a))
                      | r => r
                      end.
Proof.
  intros Hwf Hnd. exists (with_val s (map (fun v => v * a) (sp_val s))).
  assert (Hl : length (map (fun v => v * a) (sp_val s)) = length (sp_val s)) by apply map_length.
  split; [now apply sp_scale_ok|]. split; [now apply with_val_wf|]. split; [now apply with_val_nodup|].
  split; auto. split; auto.
  intros i j Hi Hj.
  destruct (with_val_get s _ i j Hwf Hl Hi Hj) as [(k & Hk & _ & _ & E & E')|(E & E' & _)]; rewrite E, E'; auto.
  do 2 f_equal. destruct Hwf as (_ & _ & _ & _ & Hv & _).
  rewrite (nth_indep _ zero (zero * a)) by (rewrite map_length; lia).
  now rewrite (map_nth (fun v => v * a)).
Qed.

(* ---------- insert ---------- *)
Lemma nth_upd_list_val (l : list T) k v k' : k < length l ->
  nth k' (upd_list l k v) zero = if k' =? k then v else nth k' l zero.
Proof. intros H. now apply nth_upd_list. Qed.

Theorem sp_insert_refines_lemma (s : sparse) i j (v : T) : wfS s -> NoDupKeys s -> i < sp_rows s -> j < sp_cols s ->
  exists s', sp_insert s i j v = Ok s' /\ wfS s' /\ NoDupKeys s' /\ sp_rows s' = sp_rows s /\ sp_cols s' = sp_cols s /\
    forall i' j', i' < sp_rows s -> j' < sp_cols s ->
      sp_get s' i' j' = if (i' =? i) && (j' =? j) then Ok (Some v) else sp_get s i' j'.
Proof.
  intros Hwf Hnd Hi Hj. unfold sp_insert.
  destruct (Nat.leb_spec (sp_rows s) i); [lia|]. destruct (Nat.leb_spec (sp_cols s) j); [lia|].
  assert (Hl : length (sp_col_start s) = (sp_cols s + 1)%nat) by (destruct Hwf; auto).
  destruct (Nat.leb_spec (length (sp_col_start s)) j); [lia|].
  rewrite sp_col_index_ok by auto. cbn [bind].
  destruct (sp_scan_spec s i j Hwf) as [(k & E & Hk & HP & Hmin)|(E & Hn)]; rewrite E; cbn [bind].
  - (* overwrite *)
    assert (Hv : length (sp_val s) = sp_nonzero s) by (destruct Hwf as (_ & _ & _ & _ & Hv & _); auto).
    rewrite upd_ok by lia. cbn [bind]. fold (with_val s (upd_list (sp_val s) k v)).
    assert (Hlen : length (upd_list (sp_val s) k v) = length (sp_val s)) by apply upd_list_length.
    eexists. split; [reflexivity|]. split; [now apply with_val_wf|]. split; [now apply with_val_nodup|].
    split; auto. split; auto.
    intros i' j' Hi' Hj'.
    destruct (with_val_get s _ i' j' Hwf Hlen Hi' Hj') as [(k' & Hk' & HP' & Hmin' & E1 & E2)|(E1 & E2 & Hn')]; rewrite E2.
    + rewrite nth_upd_list_val by lia.
      apply hit_true in HP as [P1 P2]. apply hit_true in HP' as [P1' P2'].
      destruct (Nat.eqb_spec k' k) as [->|Hne].
      * rewrite <- P1, <- P2, P1', P2', !Nat.eqb_refl. reflexivity.
      * destruct (Nat.eqb_spec i' i) as [->|]; destruct (Nat.eqb_spec j' j) as [->|]; cbn [andb]; auto.
        exfalso. apply Hne. apply (keys_inj s Hwf Hnd); auto; congruence.
    + destruct (Nat.eqb_spec i' i) as [->|]; destruct (Nat.eqb_spec j' j) as [->|]; cbn [andb]; auto.
      rewrite Hn' in HP by auto. discriminate.
  - (* rebuild from the triplets *)
    rewrite sp_to_triplets_ok by auto. cbn [bind].
    assert (Hrange : forall t, In t (ents s ++ [(i, j, v)]) -> trow t < sp_rows s /\ tcol t < sp_cols s).
    { intros t Ht. apply in_app_or in Ht as [Ht|[<-|[]]].
      - now apply ents_in_range.
      - unfold trow, tcol; cbn; lia. }
    assert (Hfresh : ~ In (i, j) (map tkey (ents s))).
    { intros Hin. apply in_map_iff in Hin as ([[a b] w] & Ek & Ht). unfold tkey, trow, tcol in Ek. cbn in Ek.
      injection Ek as -> ->. apply in_ents_iff in Ht as (k & Hk & Hh & _); auto. rewrite Hn in Hh by auto. discriminate. }
    assert (HndL : NoDupKeysL (ents s ++ [(i, j, v)])).
    { unfold NoDupKeysL. rewrite map_app. cbn [map]. unfold tkey at 2, trow, tcol. cbn [fst snd].
      eapply Permutation_NoDup; [apply Permutation_cons_append|]. constructor; auto. }
    destruct (from_triplets_wf_lemma _ _ _ Hrange) as (s' & E' & _).
    destruct (from_triplets_ents _ _ _ s' Hrange E') as (Hwf' & Hr' & Hc' & He').
    pose proof (from_triplets_nodup _ _ _ s' Hrange HndL E') as Hnd'.
    exists s'. split; auto. split; auto. split; auto. split; auto. split; auto.
    intros i' j' Hi' Hj'.
    assert (Hin_iff : forall w, sp_get s' i' j' = Ok (Some w) <-> In (i', j', w) (ents s) \/ (i', j', w) = (i, j, v)).
    { intros w. rewrite get_iff_in by (auto; lia). rewrite He'. split.
      - intros Hx. apply (Permutation_in _ (sort_by_col_perm _)) in Hx. apply in_app_or in Hx as [Hx|[Hx|[]]]; auto.
      - intros Hx. apply (Permutation_in _ (Permutation_sym (sort_by_col_perm _))). apply in_or_app.
        destruct Hx as [Hx|Hx]; [left; auto|right; left; auto]. }
    destruct (Nat.eqb_spec i' i) as [->|Hni]; [destruct (Nat.eqb_spec j' j) as [->|Hnj]|]; cbn [andb].
    + apply Hin_iff. right. reflexivity.
    + symmetry. apply get_eq_of_iff; auto; try lia. intros w. rewrite Hin_iff, get_iff_in by auto.
      split; [auto|]. intros [Hx|Hx]; auto. congruence.
    + symmetry. apply get_eq_of_iff; auto; try lia. intros w. rewrite Hin_iff, get_iff_in by auto.
      split; [auto|]. intros [Hx|Hx]; auto. congruence.
Qed.

(* insert returns on every well-formed matrix and in-range position (duplicates or not) *)
Theorem sp_insert_total_lemma (s : sparse) i j (v : T) : wfS s -> i < sp_rows s -> j < sp_cols s ->
  exists s', sp_insert s i j v = Ok s'.
Proof.
  intros Hwf Hi Hj. unfold sp_insert.
  destruct (Nat.leb_spec (sp_rows s) i); [lia|]. destruct (Nat.leb_spec (sp_cols s) j); [lia|].
  assert (Hl : length (sp_col_start s) = (sp_cols s + 1)%nat) by (destruct Hwf; auto).
  destruct (Nat.leb_spec (length (sp_col_start s)) j); [lia|].
  rewrite sp_col_index_ok by auto. cbn [bind].
  destruct (sp_scan_spec s i j Hwf) as [(k & E & Hk & HP & Hmin)|(E & Hn)]; rewrite E; cbn [bind].
  - assert (Hv : length (sp_val s) = sp_nonzero s) by (destruct Hwf as (_ & _ & _ & _ & Hv & _); auto).
    rewrite upd_ok by lia. cbn [bind]. eauto.
  - rewrite sp_to_triplets_ok by auto. cbn [bind].
    destruct (from_triplets_wf_lemma (sp_rows s) (sp_cols s) (ents s ++ [(i, j, v)])) as (s' & E' & _); eauto.
    intros t Ht. apply in_app_or in Ht as [Ht|[<-|[]]].
    + now apply ents_in_range.
    + unfold trow, tcol; cbn; lia.
Qed.

End Refine.
