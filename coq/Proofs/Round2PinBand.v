(* Proofs/Round2PinBand.v -- package round2, pin blocks for C04 (append to Props/C04.v).  Compiled copy of the blocks,
   in the scope context of Props/C04.v (nat_scope open, Reals imported, R_scope not open).
   ======================================================================================================
   C04 (banded matrices), rounding half of the SOLVER -- package round2.
   Round one left "band_solve / band_det -- the compact LU with its shifting storage" uncovered.  The blocks below are about
   the two substitution phases of [band_solve] (Model/Banded.v: [fwd_step] with the recorded row exchanges, [back_step]
   with the growing window), first over ANY arithmetic (what each output component is, as a left fold
   sfold [(a_0,v_0); ...] s = (..((s - a_0*v_0) - a_1*v_1)..) of the arithmetic's own operations), then in the STANDARD
   MODEL of floating-point arithmetic (Base/RoundModel.v: the same Gallina functions at ARm):
     band_back_trace                         x_i = (sfold [(au[i][k], x_(i+k)) | 1 <= k < l_i] y_i) / au[i][0],  l_i = min mm (n-i)
     band_backsolve_backward_error           (U + dU) x = y row by row, |dU_(i,i+k)| <= gam(l_i) |au[i][k]|: the constant depends on
                                             the bandwidth mm = m1+m2+1, not on n                       (Higham Thm 8.5 for the band)
     band_fwd_trace                          y_r = sfold [(a, y_j) | (a,j) in fhist r] b_(fperm r): the multipliers applied to the
                                             entry of b that the recorded exchanges bring to position r
     band_forward_backward_error             (L + dL) y = P b row by row, unit lower triangular L (row r = fhist r), |dL| <= gam(c_r)|L|,
                                             c_r = number of updates of that entry (<= r; not bounded by m1 under pivoting)
     band_forward_noswap_backward_error      no exchanges: L is the unit lower BAND matrix al[j][r-j-1], constant gam(min r m1)
     band_dec_trace / band_lu_backward_error / band_lu_noswap_backward_error
                                             the main loop of decompose: entries of au and the multipliers in al as folds; row-wise
                                             L U = P B + dB, |dB| <= gam(c_r)|L||U| (Higham Thm 9.3); gam(min r m1) without exchanges
     band_history_shape                      row r of L: c_r <= r multipliers of the consecutive stages r - c_r .. r-1
     band_solve_phases                       band_solve = shift_rows ; main loop ; forward phase ; back substitution
     band_solve_backward_error               the three row-wise statements for the factors band_solve computed itself
     band_solve_single_backward_error        multiplied out: (B + dB) x = b, |dB| <= (3 gam N + gam N^2)|L||U| (Higham Thm 9.4)
     band_solve_noswap_single_backward_error the same when no rows were exchanged: |dB| <= gam(3(m1+m2+1))|L||U|, bandwidth only
   Hypothesis throughout: the computed pivots au[k][0] are nonzero (division by zero does not panic in the rounded reals).
   NOT covered: a bound of |L||U| by |B| (growth factor); binary64 itself (the standard model is assumed, discharged for
   53-bit round-to-nearest with unbounded exponent in Proofs/RoundFlx.v); band_det.
   ====================================================================================================== *)
From Coq Require Import List Arith ZArith QArith Qcanon Lia Floats.
From OV Require Import Base.Panic Base.Arith Base.Flat Model.Vector Model.Matrix Model.Banded Inst.QcInst Inst.FloatInst Proofs.Banded Proofs.BandedLU Proofs.BandedTotal Proofs.BandedComplete.
Import ListNotations.
Local Open Scope nat_scope.
From Coq Require Import Reals.
(* ---- the blocks start here ---- *)
From Coq Require Import Reals Lra Lia.
From OV Require Import Base.RoundModel Proofs.RoundFlx Proofs.Round2Band Proofs.Round2BandB Proofs.Round2BandC.
(* back substitution over ANY arithmetic: every component of the answer is one left fold over the final answer, divided by the pivot *)
Theorem band_back_trace : forall (A : Arith) (au : matrix A) (mm n : nat) (y x : list A) (lf : nat),
  cols au = mm -> 1 <= mm -> length y = n ->
  for_rev 0 n (back_step mm au) (y, 1) = Ok (x, lf) ->
  length x = n /\
  forall i, i < n ->
    div (bacc au mm i (bwin mm n i) x (nth i y zero)) (mat_at au mm i 0) = Ok (nth i x zero).
Proof. intros A au mm n y x lf. exact (band_back_trace_lemma au mm n y x lf). Qed.
Check band_back_trace : forall (A : Arith) (au : matrix A) (mm n : nat) (y x : list A) (lf : nat),
  cols au = mm -> 1 <= mm -> length y = n ->
  for_rev 0 n (back_step mm au) (y, 1) = Ok (x, lf) ->
  length x = n /\
  forall i, i < n ->
    div (bacc au mm i (bwin mm n i) x (nth i y zero)) (mat_at au mm i 0) = Ok (nth i x zero).
Print Assumptions band_back_trace.
(* the loop answers on concrete data in the arithmetic that rounds every operation; the windows are 2, 2, 1 *)
Example band_back_trace_nonvacuous :
  cols exb_au = 2 /\ length exb_y = 3 /\
  (exists x lf, for_rev 0 3 (back_step (A := AFlx) 2 exb_au) (exb_y, 1) = Ok (x, lf)) /\
  map (bwin 2 3) [0; 1; 2] = [2; 2; 1] /\ xdiv 1%R 3%R <> (1 / 3)%R.
Proof. split; [reflexivity|]. split; [reflexivity|]. split; [exact exb_back|]. split; [reflexivity|exact xdiv_inexact]. Qed.

(* Higham Theorem 8.5 for the band: the computed x solves a nearby upper-banded system exactly; the constant is gam(l_i), l_i = min mm (n-i) <= mm *)
Theorem band_backsolve_backward_error : forall (u : R), (0 <= u < 1)%R ->
  forall (fadd fsub fmul fdiv : R -> R -> R),
  (forall x y : R, exists d : R, (Rabs d <= u)%R /\ fsub x y = ((x - y) * (1 + d))%R) ->
  (forall x y : R, exists d : R, (Rabs d <= u)%R /\ fmul x y = (x * y * (1 + d))%R) ->
  (forall x y : R, y <> 0%R -> exists d : R, (Rabs d <= u)%R /\ fdiv x y = (x / y * (1 + d))%R) ->
  forall (au : matrix (ARm fadd fsub fmul fdiv)) (mm n : nat) (y x : list R) (lf : nat),
  cols au = mm -> 1 <= mm -> length y = n -> (INR mm * u < 1)%R ->
  (forall i, i < n -> mat_at (A := ARm fadd fsub fmul fdiv) au mm i 0 <> 0%R) ->
  for_rev 0 n (back_step (A := ARm fadd fsub fmul fdiv) mm au) (y, 1) = Ok (x, lf) ->
  length x = n /\
  exists dU : nat -> nat -> R,
    (forall i k, i < n -> k < bwin mm n i ->
       (Rabs (dU i k) <= gam u (bwin mm n i) * Rabs (mat_at (A := ARm fadd fsub fmul fdiv) au mm i k))%R) /\
    forall i, i < n ->
      Rsum (bwin mm n i) (fun k => ((mat_at (A := ARm fadd fsub fmul fdiv) au mm i k + dU i k) * nth (i + k) x 0)%R)
      = nth i y 0%R.
Proof. intros u Hu fadd fsub fmul fdiv Hs Hm Hd au mm n y x lf. exact (band_backsolve_backward_error_lemma u Hu fadd fsub fmul fdiv Hs Hm Hd au mm n y x lf). Qed.
Check band_backsolve_backward_error : forall (u : R), (0 <= u < 1)%R ->
  forall (fadd fsub fmul fdiv : R -> R -> R),
  (forall x y : R, exists d : R, (Rabs d <= u)%R /\ fsub x y = ((x - y) * (1 + d))%R) ->
  (forall x y : R, exists d : R, (Rabs d <= u)%R /\ fmul x y = (x * y * (1 + d))%R) ->
  (forall x y : R, y <> 0%R -> exists d : R, (Rabs d <= u)%R /\ fdiv x y = (x / y * (1 + d))%R) ->
  forall (au : matrix (ARm fadd fsub fmul fdiv)) (mm n : nat) (y x : list R) (lf : nat),
  cols au = mm -> 1 <= mm -> length y = n -> (INR mm * u < 1)%R ->
  (forall i, i < n -> mat_at (A := ARm fadd fsub fmul fdiv) au mm i 0 <> 0%R) ->
  for_rev 0 n (back_step (A := ARm fadd fsub fmul fdiv) mm au) (y, 1) = Ok (x, lf) ->
  length x = n /\
  exists dU : nat -> nat -> R,
    (forall i k, i < n -> k < bwin mm n i ->
       (Rabs (dU i k) <= gam u (bwin mm n i) * Rabs (mat_at (A := ARm fadd fsub fmul fdiv) au mm i k))%R) /\
    forall i, i < n ->
      Rsum (bwin mm n i) (fun k => ((mat_at (A := ARm fadd fsub fmul fdiv) au mm i k + dU i k) * nth (i + k) x 0)%R)
      = nth i y 0%R.
Print Assumptions band_backsolve_backward_error.
Example band_backsolve_backward_error_nonvacuous :
  (0 <= ux < 1)%R /\
  (forall x y : R, exists d : R, (Rabs d <= ux)%R /\ xsub x y = ((x - y) * (1 + d))%R) /\
  (forall x y : R, exists d : R, (Rabs d <= ux)%R /\ xmul x y = (x * y * (1 + d))%R) /\
  (forall x y : R, y <> 0%R -> exists d : R, (Rabs d <= ux)%R /\ xdiv x y = (x / y * (1 + d))%R) /\
  cols exb_au = 2 /\ length exb_y = 3 /\ (INR 2 * ux < 1)%R /\
  (forall i, i < 3 -> mat_at (A := AFlx) exb_au 2 i 0 <> 0%R) /\
  (exists x lf, for_rev 0 3 (back_step (A := AFlx) 2 exb_au) (exb_y, 1) = Ok (x, lf)) /\
  xdiv 1%R 3%R <> (1 / 3)%R.
Proof.
  split; [exact ux_range|]. split; [exact xsub_ok|]. split; [exact xmul_ok|]. split; [exact xdiv_ok|].
  split; [reflexivity|]. split; [reflexivity|]. split; [exact exb_size2|]. split; [exact exb_pivots|].
  split; [exact exb_back|exact xdiv_inexact].
Qed.

(* the forward phase over ANY arithmetic, with the recorded row exchanges: position r holds the entry b_(fperm r), updated by the multipliers of fhist r *)
Theorem band_fwd_trace : forall (A : Arith) (al : matrix A) (index : list nat) (n m1 : nat) (b y : list A) (lf : nat),
  cols al = m1 -> m1 <= n -> length b = n ->
  (forall k, k < n -> k + 1 <= nth k index 0) ->
  for_ 0 n (fwd_step n al index) (b, m1) = Ok (y, lf) ->
  length y = n /\
  forall r, nth r y zero = sfold (fterms (fhist n m1 al index n r) y) (nth (fperm index n r) b zero).
Proof. intros A al index n m1 b y lf. exact (band_fwd_trace_lemma al index n m1 b y lf). Qed.
Check band_fwd_trace : forall (A : Arith) (al : matrix A) (index : list nat) (n m1 : nat) (b y : list A) (lf : nat),
  cols al = m1 -> m1 <= n -> length b = n ->
  (forall k, k < n -> k + 1 <= nth k index 0) ->
  for_ 0 n (fwd_step n al index) (b, m1) = Ok (y, lf) ->
  length y = n /\
  forall r, nth r y zero = sfold (fterms (fhist n m1 al index n r) y) (nth (fperm index n r) b zero).
Print Assumptions band_fwd_trace.
(* a record with a genuine exchange (rows 0 and 1 at stage 0): position 0 receives b_1, positions 1 and 2 are updated once *)
Example band_fwd_trace_nonvacuous :
  cols exb_al = 1 /\ length exb_b = 3 /\
  (forall k, k < 3 -> k + 1 <= nth k exb_index 0) /\
  (exists y lf, for_ 0 3 (fwd_step (A := AFlx) 3 exb_al exb_index) (exb_b, 1) = Ok (y, lf)) /\
  map (fperm exb_index 3) [0; 1; 2] = [1; 0; 2] /\
  map (fun r => length (fhist (A := AFlx) 3 1 exb_al exb_index 3 r)) [0; 1; 2] = [0; 1; 1].
Proof.
  split; [reflexivity|]. split; [reflexivity|]. split; [exact exb_index_ok|]. split; [exact exb_fwd|].
  split; [exact exb_fperm|exact exb_fhist_len].
Qed.

(* (L + dL) y = P b for the forward phase with exchanges: L unit lower triangular (all stages in row r are < r), c_r = length (fhist r) <= r updates *)
Theorem band_forward_backward_error : forall (u : R), (0 <= u < 1)%R ->
  forall (fadd fsub fmul fdiv : R -> R -> R),
  (forall x y : R, exists d : R, (Rabs d <= u)%R /\ fsub x y = ((x - y) * (1 + d))%R) ->
  (forall x y : R, exists d : R, (Rabs d <= u)%R /\ fmul x y = (x * y * (1 + d))%R) ->
  forall (al : matrix (ARm fadd fsub fmul fdiv)) (index : list nat) (n m1 : nat) (b y : list R) (lf : nat),
  cols al = m1 -> m1 <= n -> length b = n ->
  (forall k, k < n -> k + 1 <= nth k index 0) ->
  for_ 0 n (fwd_step (A := ARm fadd fsub fmul fdiv) n al index) (b, m1) = Ok (y, lf) ->
  length y = n /\
  forall r, r < n ->
    let h : list (R * nat) := fhist (A := ARm fadd fsub fmul fdiv) n m1 al index n r in
    length h <= r /\
    (forall t, t < length h -> snd (nth t h (0%R, 0)) < r) /\
    ((INR (length h) * u < 1)%R ->
     exists (dd : R) (dL : nat -> R),
       (Rabs dd <= gam u (length h))%R /\
       (forall t, t < length h -> (Rabs (dL t) <= gam u (length h) * Rabs (fst (nth t h (0%R, 0%nat))))%R) /\
       ((1 + dd) * nth r y 0
        + Rsum (length h) (fun t => (fst (nth t h (0, 0%nat)) + dL t) * nth (snd (nth t h (0, 0%nat))) y 0)
        = nth (fperm index n r) b 0)%R).
Proof. intros u Hu fadd fsub fmul fdiv Hs Hm al index n m1 b y lf. exact (band_forward_backward_error_lemma u Hu fadd fsub fmul fdiv Hs Hm al index n m1 b y lf). Qed.
Check band_forward_backward_error : forall (u : R), (0 <= u < 1)%R ->
  forall (fadd fsub fmul fdiv : R -> R -> R),
  (forall x y : R, exists d : R, (Rabs d <= u)%R /\ fsub x y = ((x - y) * (1 + d))%R) ->
  (forall x y : R, exists d : R, (Rabs d <= u)%R /\ fmul x y = (x * y * (1 + d))%R) ->
  forall (al : matrix (ARm fadd fsub fmul fdiv)) (index : list nat) (n m1 : nat) (b y : list R) (lf : nat),
  cols al = m1 -> m1 <= n -> length b = n ->
  (forall k, k < n -> k + 1 <= nth k index 0) ->
  for_ 0 n (fwd_step (A := ARm fadd fsub fmul fdiv) n al index) (b, m1) = Ok (y, lf) ->
  length y = n /\
  forall r, r < n ->
    let h : list (R * nat) := fhist (A := ARm fadd fsub fmul fdiv) n m1 al index n r in
    length h <= r /\
    (forall t, t < length h -> snd (nth t h (0%R, 0)) < r) /\
    ((INR (length h) * u < 1)%R ->
     exists (dd : R) (dL : nat -> R),
       (Rabs dd <= gam u (length h))%R /\
       (forall t, t < length h -> (Rabs (dL t) <= gam u (length h) * Rabs (fst (nth t h (0%R, 0%nat))))%R) /\
       ((1 + dd) * nth r y 0
        + Rsum (length h) (fun t => (fst (nth t h (0, 0%nat)) + dL t) * nth (snd (nth t h (0, 0%nat))) y 0)
        = nth (fperm index n r) b 0)%R).
Print Assumptions band_forward_backward_error.
Example band_forward_backward_error_nonvacuous :
  (0 <= ux < 1)%R /\
  (forall x y : R, exists d : R, (Rabs d <= ux)%R /\ xsub x y = ((x - y) * (1 + d))%R) /\
  (forall x y : R, exists d : R, (Rabs d <= ux)%R /\ xmul x y = (x * y * (1 + d))%R) /\
  cols exb_al = 1 /\ length exb_b = 3 /\
  (forall k, k < 3 -> k + 1 <= nth k exb_index 0) /\
  (exists y lf, for_ 0 3 (fwd_step (A := AFlx) 3 exb_al exb_index) (exb_b, 1) = Ok (y, lf)) /\
  (forall r, r < 3 -> (INR (length (fhist (A := AFlx) 3 1 exb_al exb_index 3 r)) * ux < 1)%R).
Proof.
  split; [exact ux_range|]. split; [exact xsub_ok|]. split; [exact xmul_ok|].
  split; [reflexivity|]. split; [reflexivity|]. split; [exact exb_index_ok|]. split; [exact exb_fwd|].
  intros [|[|[|r]]] Hr; try lia; cbn [fhist length]; cbn; pose proof ux_small; lra.
Qed.

(* without exchanges: (L + dL) y = b with the unit lower BAND matrix L_(r,j) = al[j][r-j-1], r - m1 <= j < r; the constant is gam(min r m1) *)
Theorem band_forward_noswap_backward_error : forall (u : R), (0 <= u < 1)%R ->
  forall (fadd fsub fmul fdiv : R -> R -> R),
  (forall x y : R, exists d : R, (Rabs d <= u)%R /\ fsub x y = ((x - y) * (1 + d))%R) ->
  (forall x y : R, exists d : R, (Rabs d <= u)%R /\ fmul x y = (x * y * (1 + d))%R) ->
  forall (al : matrix (ARm fadd fsub fmul fdiv)) (index : list nat) (n m1 : nat) (b y : list R) (lf : nat),
  cols al = m1 -> m1 <= n -> length b = n -> (INR m1 * u < 1)%R ->
  (forall k, k < n -> nth k index 0 = k + 1) ->
  for_ 0 n (fwd_step (A := ARm fadd fsub fmul fdiv) n al index) (b, m1) = Ok (y, lf) ->
  length y = n /\
  forall r, r < n ->
    exists (dd : R) (dL : nat -> R),
      (Rabs dd <= gam u (Nat.min r m1))%R /\
      (forall t, t < Nat.min r m1 ->
         (Rabs (dL t) <= gam u (Nat.min r m1)
                         * Rabs (mat_at (A := ARm fadd fsub fmul fdiv) al m1 (r - Nat.min r m1 + t) (r - (r - Nat.min r m1 + t) - 1)))%R) /\
      ((1 + dd) * nth r y 0
       + Rsum (Nat.min r m1)
           (fun t => (mat_at (A := ARm fadd fsub fmul fdiv) al m1 (r - Nat.min r m1 + t) (r - (r - Nat.min r m1 + t) - 1) + dL t)
                     * nth (r - Nat.min r m1 + t) y 0)
       = nth r b 0)%R.
Proof. intros u Hu fadd fsub fmul fdiv Hs Hm al index n m1 b y lf. exact (band_forward_noswap_backward_error_lemma u Hu fadd fsub fmul fdiv Hs Hm al index n m1 b y lf). Qed.
Check band_forward_noswap_backward_error : forall (u : R), (0 <= u < 1)%R ->
  forall (fadd fsub fmul fdiv : R -> R -> R),
  (forall x y : R, exists d : R, (Rabs d <= u)%R /\ fsub x y = ((x - y) * (1 + d))%R) ->
  (forall x y : R, exists d : R, (Rabs d <= u)%R /\ fmul x y = (x * y * (1 + d))%R) ->
  forall (al : matrix (ARm fadd fsub fmul fdiv)) (index : list nat) (n m1 : nat) (b y : list R) (lf : nat),
  cols al = m1 -> m1 <= n -> length b = n -> (INR m1 * u < 1)%R ->
  (forall k, k < n -> nth k index 0 = k + 1) ->
  for_ 0 n (fwd_step (A := ARm fadd fsub fmul fdiv) n al index) (b, m1) = Ok (y, lf) ->
  length y = n /\
  forall r, r < n ->
    exists (dd : R) (dL : nat -> R),
      (Rabs dd <= gam u (Nat.min r m1))%R /\
      (forall t, t < Nat.min r m1 ->
         (Rabs (dL t) <= gam u (Nat.min r m1)
                         * Rabs (mat_at (A := ARm fadd fsub fmul fdiv) al m1 (r - Nat.min r m1 + t) (r - (r - Nat.min r m1 + t) - 1)))%R) /\
      ((1 + dd) * nth r y 0
       + Rsum (Nat.min r m1)
           (fun t => (mat_at (A := ARm fadd fsub fmul fdiv) al m1 (r - Nat.min r m1 + t) (r - (r - Nat.min r m1 + t) - 1) + dL t)
                     * nth (r - Nat.min r m1 + t) y 0)
       = nth r b 0)%R.
Print Assumptions band_forward_noswap_backward_error.
Example band_forward_noswap_backward_error_nonvacuous :
  (0 <= ux < 1)%R /\
  (forall x y : R, exists d : R, (Rabs d <= ux)%R /\ xsub x y = ((x - y) * (1 + d))%R) /\
  (forall x y : R, exists d : R, (Rabs d <= ux)%R /\ xmul x y = (x * y * (1 + d))%R) /\
  cols exb_al = 1 /\ length exb_b = 3 /\ (INR 1 * ux < 1)%R /\
  (forall k, k < 3 -> nth k exb_index0 0 = k + 1) /\
  (exists y lf, for_ 0 3 (fwd_step (A := AFlx) 3 exb_al exb_index0) (exb_b, 1) = Ok (y, lf)).
Proof.
  split; [exact ux_range|]. split; [exact xsub_ok|]. split; [exact xmul_ok|].
  split; [reflexivity|]. split; [reflexivity|]. split; [exact exb_size1|]. split; [exact exb_index0_ok|exact exb_fwd0].
Qed.

(* the main loop of decompose over ANY arithmetic with  eqb x zero = true -> x = zero: the computed au (U part) and al (multipliers) as left folds over the dense reading D0 of the matrix the loop started from, with the histories and the permutation of the forward phase *)
Theorem band_dec_trace : forall (A : Arith), (forall x : A, eqb x zero = true -> x = zero) ->
  forall (n mm m1 : nat) (au0 al0 : matrix A) (index0 : list nat) (d0 : A)
         (au al : matrix A) (index : list nat) (d : A) (lf : nat),
  cols au0 = mm -> cols al0 = m1 -> 1 <= mm -> m1 <= n ->
  for_ 0 n (dec_step false n mm) (au0, al0, index0, d0, m1) = Ok (au, al, index, d, lf) ->
  cols au = mm /\ cols al = m1 /\
  (forall k, k < n -> k + 1 <= nth k index 0 /\ nth k index 0 <= fwin n m1 k) /\
  ((forall k, k < n -> mat_at au mm k 0 <> zero) ->
   (forall r s, r < n -> s < mm ->
      mat_at au mm r s
      = sfold (uterms mm au (r + s) (fhist n m1 al index n r)) (D0 mm m1 au0 (fperm index n r) (r + s))) /\
   (forall r, r < n ->
      let h := fhist n m1 al index n r in
      forall t, t < length h ->
        div (sfold (uterms mm au (snd (nth t h (zero, 0))) (firstn t h))
               (D0 mm m1 au0 (fperm index n r) (snd (nth t h (zero, 0)))))
            (mat_at au mm (snd (nth t h (zero, 0))) 0)
        = Ok (fst (nth t h (zero, 0))))).
Proof. intros A Hz n mm m1 au0 al0 index0 d0 au al index d lf. exact (band_dec_trace_lemma Hz n mm m1 au0 al0 index0 d0 au al index d lf). Qed.
Check band_dec_trace : forall (A : Arith), (forall x : A, eqb x zero = true -> x = zero) ->
  forall (n mm m1 : nat) (au0 al0 : matrix A) (index0 : list nat) (d0 : A)
         (au al : matrix A) (index : list nat) (d : A) (lf : nat),
  cols au0 = mm -> cols al0 = m1 -> 1 <= mm -> m1 <= n ->
  for_ 0 n (dec_step false n mm) (au0, al0, index0, d0, m1) = Ok (au, al, index, d, lf) ->
  cols au = mm /\ cols al = m1 /\
  (forall k, k < n -> k + 1 <= nth k index 0 /\ nth k index 0 <= fwin n m1 k) /\
  ((forall k, k < n -> mat_at au mm k 0 <> zero) ->
   (forall r s, r < n -> s < mm ->
      mat_at au mm r s
      = sfold (uterms mm au (r + s) (fhist n m1 al index n r)) (D0 mm m1 au0 (fperm index n r) (r + s))) /\
   (forall r, r < n ->
      let h := fhist n m1 al index n r in
      forall t, t < length h ->
        div (sfold (uterms mm au (snd (nth t h (zero, 0))) (firstn t h))
               (D0 mm m1 au0 (fperm index n r) (snd (nth t h (zero, 0)))))
            (mat_at au mm (snd (nth t h (zero, 0))) 0)
        = Ok (fst (nth t h (zero, 0))))).
Print Assumptions band_dec_trace.
(* the 2x2 system [[1,3],[2,1]] (m1 = m2 = 1) in the arithmetic that rounds every operation: the pivot search exchanges the rows *)
Example band_dec_trace_nonvacuous :
  (forall z : AFlx, eqb z zero = true -> z = zero) /\
  cols exs_au0 = 3 /\
  for_ 0 2 (dec_step (A := AFlx) false 2 3) (exs_au0, @mat_new AFlx 2 1 0%R, repeat 0 2, 1%R, 1)
    = Ok (exs_au, exs_al, exs_index, (- (1))%R, 2) /\
  (forall k, k < 2 -> mat_at (A := AFlx) exs_au 3 k 0 <> 0%R) /\
  map (fperm exs_index 2) [0; 1] = [1; 0].
Proof. split; [exact exs_hz|]. split; [reflexivity|]. split; [exact exs_loop|]. split; [exact exs_pivots|reflexivity]. Qed.

(* band_solve went through exactly these phases; the dense reading of the shifted work matrix is the dense twin of the banded matrix *)
Theorem band_solve_phases : forall (A : Arith) (B : banded A) (b x : list A),
  (forall z : A, eqb z zero = true -> z = zero) ->
  wfB B -> length b = bn B -> bm1 B <= bn B ->
  band_solve B b = Ok x ->
  exists (au0 au al : matrix A) (index : list nat) (d : A) (y : list A) (l1 l2 l3 : nat),
    shift_rows (bm1 B) (bm1 B + bm2 B + 1) (Model.Banded.compact B) = Ok au0 /\
    for_ 0 (bn B) (dec_step false (bn B) (bm1 B + bm2 B + 1))
         (au0, mat_new (bn B) (bm1 B) zero, repeat 0 (bn B), one, bm1 B) = Ok (au, al, index, d, l1) /\
    for_ 0 (bn B) (fwd_step (bn B) al index) (b, bm1 B) = Ok (y, l2) /\
    for_rev 0 (bn B) (back_step (bm1 B + bm2 B + 1) au) (y, 1) = Ok (x, l3) /\
    cols au0 = bm1 B + bm2 B + 1 /\ cols au = bm1 B + bm2 B + 1 /\ cols al = bm1 B /\ length y = bn B /\
    (forall k, k < bn B -> k + 1 <= nth k index 0 /\ nth k index 0 <= fwin (bn B) (bm1 B) k) /\
    (forall i c, D0 (bm1 B + bm2 B + 1) (bm1 B) au0 i c = dense_entry B i c).
Proof. intros A B b x. exact (band_solve_phases_lemma B b x). Qed.
Check band_solve_phases : forall (A : Arith) (B : banded A) (b x : list A),
  (forall z : A, eqb z zero = true -> z = zero) ->
  wfB B -> length b = bn B -> bm1 B <= bn B ->
  band_solve B b = Ok x ->
  exists (au0 au al : matrix A) (index : list nat) (d : A) (y : list A) (l1 l2 l3 : nat),
    shift_rows (bm1 B) (bm1 B + bm2 B + 1) (Model.Banded.compact B) = Ok au0 /\
    for_ 0 (bn B) (dec_step false (bn B) (bm1 B + bm2 B + 1))
         (au0, mat_new (bn B) (bm1 B) zero, repeat 0 (bn B), one, bm1 B) = Ok (au, al, index, d, l1) /\
    for_ 0 (bn B) (fwd_step (bn B) al index) (b, bm1 B) = Ok (y, l2) /\
    for_rev 0 (bn B) (back_step (bm1 B + bm2 B + 1) au) (y, 1) = Ok (x, l3) /\
    cols au0 = bm1 B + bm2 B + 1 /\ cols au = bm1 B + bm2 B + 1 /\ cols al = bm1 B /\ length y = bn B /\
    (forall k, k < bn B -> k + 1 <= nth k index 0 /\ nth k index 0 <= fwin (bn B) (bm1 B) k) /\
    (forall i c, D0 (bm1 B + bm2 B + 1) (bm1 B) au0 i c = dense_entry B i c).
Print Assumptions band_solve_phases.
Example band_solve_phases_nonvacuous :
  (forall z : AFlx, eqb z zero = true -> z = zero) /\ wfB exs_B /\ length exs_b = bn exs_B /\ bm1 exs_B <= bn exs_B /\
  (exists x, band_solve exs_B exs_b = Ok x).
Proof. split; [exact exs_hz|]. split; [exact exs_wf|]. split; [reflexivity|]. split; [cbn; lia|exact exs_solve]. Qed.

(* Higham Theorem 9.3 for the compact band LU with partial pivoting, row by row: L U = P B + dB with |dB| <= gam(c_r)|L||U|; row r of L is fhist r (c_r pairs), Uc the dense reading of the computed au, D0 of the matrix the loop started from *)
Theorem band_lu_backward_error : forall (u : R), (0 <= u < 1)%R ->
  forall (fadd fsub fmul fdiv : R -> R -> R),
  (forall x y : R, exists d : R, (Rabs d <= u)%R /\ fsub x y = ((x - y) * (1 + d))%R) ->
  (forall x y : R, exists d : R, (Rabs d <= u)%R /\ fmul x y = (x * y * (1 + d))%R) ->
  (forall x y : R, y <> 0%R -> exists d : R, (Rabs d <= u)%R /\ fdiv x y = (x / y * (1 + d))%R) ->
  forall (n mm m1 : nat) (au0 al0 : matrix (ARm fadd fsub fmul fdiv)) (index0 : list nat) (d0 : R)
         (au al : matrix (ARm fadd fsub fmul fdiv)) (index : list nat) (d : R) (lf : nat),
  cols au0 = mm -> cols al0 = m1 -> 1 <= mm -> m1 <= n ->
  for_ 0 n (dec_step (A := ARm fadd fsub fmul fdiv) false n mm) (au0, al0, index0, d0, m1) = Ok (au, al, index, d, lf) ->
  (forall k, k < n -> mat_at (A := ARm fadd fsub fmul fdiv) au mm k 0 <> 0%R) ->
  forall r, r < n ->
    let h : list (R * nat) := fhist (A := ARm fadd fsub fmul fdiv) n m1 al index n r in
    (INR (length h) * u < 1)%R ->
    (forall s, s < mm ->
       exists (dd : R) (dL : nat -> R),
         (Rabs dd <= gam u (length h))%R /\
         (forall t, t < length h -> (Rabs (dL t) <= gam u (length h) * Rabs (fst (nth t h (0%R, 0%nat))))%R) /\
         ((1 + dd) * mat_at (A := ARm fadd fsub fmul fdiv) au mm r s
          + Rsum (length h) (fun t => (fst (nth t h (0, 0%nat)) + dL t)
                                      * Uc fadd fsub fmul fdiv au mm (snd (nth t h (0, 0%nat))) (r + s))
          = D0 (A := ARm fadd fsub fmul fdiv) mm m1 au0 (fperm index n r) (r + s))%R) /\
    (forall t, t < length h ->
       exists dL : nat -> R,
         (forall t', t' <= t -> (Rabs (dL t') <= gam u (t + 1) * Rabs (fst (nth t' h (0%R, 0%nat))))%R) /\
         (Rsum (S t) (fun t' => (fst (nth t' h (0, 0%nat)) + dL t')
                                * Uc fadd fsub fmul fdiv au mm (snd (nth t' h (0, 0%nat))) (snd (nth t h (0%R, 0%nat))))
          = D0 (A := ARm fadd fsub fmul fdiv) mm m1 au0 (fperm index n r) (snd (nth t h (0%R, 0%nat))))%R).
Proof. intros u Hu fadd fsub fmul fdiv Hs Hm Hd n mm m1 au0 al0 index0 d0 au al index d lf. exact (band_lu_backward_error_lemma u Hu fadd fsub fmul fdiv Hs Hm Hd n mm m1 au0 al0 index0 d0 au al index d lf). Qed.
Check band_lu_backward_error : forall (u : R), (0 <= u < 1)%R ->
  forall (fadd fsub fmul fdiv : R -> R -> R),
  (forall x y : R, exists d : R, (Rabs d <= u)%R /\ fsub x y = ((x - y) * (1 + d))%R) ->
  (forall x y : R, exists d : R, (Rabs d <= u)%R /\ fmul x y = (x * y * (1 + d))%R) ->
  (forall x y : R, y <> 0%R -> exists d : R, (Rabs d <= u)%R /\ fdiv x y = (x / y * (1 + d))%R) ->
  forall (n mm m1 : nat) (au0 al0 : matrix (ARm fadd fsub fmul fdiv)) (index0 : list nat) (d0 : R)
         (au al : matrix (ARm fadd fsub fmul fdiv)) (index : list nat) (d : R) (lf : nat),
  cols au0 = mm -> cols al0 = m1 -> 1 <= mm -> m1 <= n ->
  for_ 0 n (dec_step (A := ARm fadd fsub fmul fdiv) false n mm) (au0, al0, index0, d0, m1) = Ok (au, al, index, d, lf) ->
  (forall k, k < n -> mat_at (A := ARm fadd fsub fmul fdiv) au mm k 0 <> 0%R) ->
  forall r, r < n ->
    let h : list (R * nat) := fhist (A := ARm fadd fsub fmul fdiv) n m1 al index n r in
    (INR (length h) * u < 1)%R ->
    (forall s, s < mm ->
       exists (dd : R) (dL : nat -> R),
         (Rabs dd <= gam u (length h))%R /\
         (forall t, t < length h -> (Rabs (dL t) <= gam u (length h) * Rabs (fst (nth t h (0%R, 0%nat))))%R) /\
         ((1 + dd) * mat_at (A := ARm fadd fsub fmul fdiv) au mm r s
          + Rsum (length h) (fun t => (fst (nth t h (0, 0%nat)) + dL t)
                                      * Uc fadd fsub fmul fdiv au mm (snd (nth t h (0, 0%nat))) (r + s))
          = D0 (A := ARm fadd fsub fmul fdiv) mm m1 au0 (fperm index n r) (r + s))%R) /\
    (forall t, t < length h ->
       exists dL : nat -> R,
         (forall t', t' <= t -> (Rabs (dL t') <= gam u (t + 1) * Rabs (fst (nth t' h (0%R, 0%nat))))%R) /\
         (Rsum (S t) (fun t' => (fst (nth t' h (0, 0%nat)) + dL t')
                                * Uc fadd fsub fmul fdiv au mm (snd (nth t' h (0, 0%nat))) (snd (nth t h (0%R, 0%nat))))
          = D0 (A := ARm fadd fsub fmul fdiv) mm m1 au0 (fperm index n r) (snd (nth t h (0%R, 0%nat))))%R).
Print Assumptions band_lu_backward_error.
Example band_lu_backward_error_nonvacuous :
  (0 <= ux < 1)%R /\
  (forall x y : R, exists d : R, (Rabs d <= ux)%R /\ xsub x y = ((x - y) * (1 + d))%R) /\
  (forall x y : R, exists d : R, (Rabs d <= ux)%R /\ xmul x y = (x * y * (1 + d))%R) /\
  (forall x y : R, y <> 0%R -> exists d : R, (Rabs d <= ux)%R /\ xdiv x y = (x / y * (1 + d))%R) /\
  cols exs_au0 = 3 /\
  for_ 0 2 (dec_step (A := AFlx) false 2 3) (exs_au0, @mat_new AFlx 2 1 0%R, repeat 0 2, 1%R, 1)
    = Ok (exs_au, exs_al, exs_index, (- (1))%R, 2) /\
  (forall k, k < 2 -> mat_at (A := AFlx) exs_au 3 k 0 <> 0%R) /\
  (forall r, r < 2 -> (INR (length (fhist (A := AFlx) 2 1 exs_al exs_index 2 r)) * ux < 1)%R).
Proof.
  split; [exact ux_range|]. split; [exact xsub_ok|]. split; [exact xmul_ok|]. split; [exact xdiv_ok|].
  split; [reflexivity|]. split; [exact exs_loop|]. split; [exact exs_pivots|exact exs_hist_small].
Qed.

(* band_solve as a whole in the standard model: with the factors the solver computed, (U + dU) x = y, (L + dL) y = P b and L U = P B + dB (B = dense twin of the banded matrix) hold row by row, provided the computed pivots are nonzero *)
Theorem band_solve_backward_error : forall (u : R), (0 <= u < 1)%R ->
  forall (fadd fsub fmul fdiv : R -> R -> R),
  (forall x y : R, exists d : R, (Rabs d <= u)%R /\ fsub x y = ((x - y) * (1 + d))%R) ->
  (forall x y : R, exists d : R, (Rabs d <= u)%R /\ fmul x y = (x * y * (1 + d))%R) ->
  (forall x y : R, y <> 0%R -> exists d : R, (Rabs d <= u)%R /\ fdiv x y = (x / y * (1 + d))%R) ->
  forall (B : banded (ARm fadd fsub fmul fdiv)) (b x : list R),
  wfB B -> length b = bn B -> bm1 B <= bn B -> band_solve B b = Ok x ->
  exists (au al : matrix (ARm fadd fsub fmul fdiv)) (index : list nat) (y : list R),
    (exists d : R, decompose_gen (A := ARm fadd fsub fmul fdiv) false B (Model.Banded.compact B)
                     (mat_new (A := ARm fadd fsub fmul fdiv) (bn B) (bm1 B) 0%R) (repeat 0 (bn B))
                   = Ok (au, al, index, d)) /\
    length y = bn B /\ length x = bn B /\
    (forall k, k < bn B -> k + 1 <= nth k index 0 <= Nat.min (k + 1 + bm1 B) (bn B)) /\
    ((forall k, k < bn B -> mat_at (A := ARm fadd fsub fmul fdiv) au (bm1 B + bm2 B + 1) k 0 <> 0%R) ->
     ((INR (bm1 B + bm2 B + 1) * u < 1)%R ->
      exists dU : nat -> nat -> R,
        (forall i k, i < bn B -> k < bwin (bm1 B + bm2 B + 1) (bn B) i ->
           (Rabs (dU i k) <= gam u (bwin (bm1 B + bm2 B + 1) (bn B) i)
                             * Rabs (mat_at (A := ARm fadd fsub fmul fdiv) au (bm1 B + bm2 B + 1) i k))%R) /\
        forall i, i < bn B ->
          Rsum (bwin (bm1 B + bm2 B + 1) (bn B) i)
            (fun k => ((mat_at (A := ARm fadd fsub fmul fdiv) au (bm1 B + bm2 B + 1) i k + dU i k) * nth (i + k) x 0)%R)
          = nth i y 0%R) /\
     forall r, r < bn B ->
       let h : list (R * nat) := fhist (A := ARm fadd fsub fmul fdiv) (bn B) (bm1 B) al index (bn B) r in
       length h <= r /\
       (forall t, t < length h -> snd (nth t h (0%R, 0)) < r) /\
       ((INR (length h) * u < 1)%R ->
        (exists (dd : R) (dL : nat -> R),
           (Rabs dd <= gam u (length h))%R /\
           (forall t, t < length h -> (Rabs (dL t) <= gam u (length h) * Rabs (fst (nth t h (0%R, 0%nat))))%R) /\
           ((1 + dd) * nth r y 0
            + Rsum (length h) (fun t => (fst (nth t h (0, 0%nat)) + dL t) * nth (snd (nth t h (0, 0%nat))) y 0)
            = nth (fperm index (bn B) r) b 0)%R) /\
        (forall s, s < bm1 B + bm2 B + 1 ->
           exists (dd : R) (dL : nat -> R),
             (Rabs dd <= gam u (length h))%R /\
             (forall t, t < length h -> (Rabs (dL t) <= gam u (length h) * Rabs (fst (nth t h (0%R, 0%nat))))%R) /\
             ((1 + dd) * mat_at (A := ARm fadd fsub fmul fdiv) au (bm1 B + bm2 B + 1) r s
              + Rsum (length h) (fun t => (fst (nth t h (0, 0%nat)) + dL t)
                                          * Uc fadd fsub fmul fdiv au (bm1 B + bm2 B + 1) (snd (nth t h (0, 0%nat))) (r + s))
              = dense_entry B (fperm index (bn B) r) (r + s))%R) /\
        (forall t, t < length h ->
           exists dL : nat -> R,
             (forall t', t' <= t -> (Rabs (dL t') <= gam u (t + 1) * Rabs (fst (nth t' h (0%R, 0%nat))))%R) /\
             (Rsum (S t) (fun t' => (fst (nth t' h (0, 0%nat)) + dL t')
                                    * Uc fadd fsub fmul fdiv au (bm1 B + bm2 B + 1) (snd (nth t' h (0, 0%nat)))
                                         (snd (nth t h (0%R, 0%nat))))
              = dense_entry B (fperm index (bn B) r) (snd (nth t h (0%R, 0%nat))))%R))).
Proof. intros u Hu fadd fsub fmul fdiv Hs Hm Hd B b x. exact (band_solve_backward_error_lemma u Hu fadd fsub fmul fdiv Hs Hm Hd B b x). Qed.
Check band_solve_backward_error : forall (u : R), (0 <= u < 1)%R ->
  forall (fadd fsub fmul fdiv : R -> R -> R),
  (forall x y : R, exists d : R, (Rabs d <= u)%R /\ fsub x y = ((x - y) * (1 + d))%R) ->
  (forall x y : R, exists d : R, (Rabs d <= u)%R /\ fmul x y = (x * y * (1 + d))%R) ->
  (forall x y : R, y <> 0%R -> exists d : R, (Rabs d <= u)%R /\ fdiv x y = (x / y * (1 + d))%R) ->
  forall (B : banded (ARm fadd fsub fmul fdiv)) (b x : list R),
  wfB B -> length b = bn B -> bm1 B <= bn B -> band_solve B b = Ok x ->
  exists (au al : matrix (ARm fadd fsub fmul fdiv)) (index : list nat) (y : list R),
    (exists d : R, decompose_gen (A := ARm fadd fsub fmul fdiv) false B (Model.Banded.compact B)
                     (mat_new (A := ARm fadd fsub fmul fdiv) (bn B) (bm1 B) 0%R) (repeat 0 (bn B))
                   = Ok (au, al, index, d)) /\
    length y = bn B /\ length x = bn B /\
    (forall k, k < bn B -> k + 1 <= nth k index 0 <= Nat.min (k + 1 + bm1 B) (bn B)) /\
    ((forall k, k < bn B -> mat_at (A := ARm fadd fsub fmul fdiv) au (bm1 B + bm2 B + 1) k 0 <> 0%R) ->
     ((INR (bm1 B + bm2 B + 1) * u < 1)%R ->
      exists dU : nat -> nat -> R,
        (forall i k, i < bn B -> k < bwin (bm1 B + bm2 B + 1) (bn B) i ->
           (Rabs (dU i k) <= gam u (bwin (bm1 B + bm2 B + 1) (bn B) i)
                             * Rabs (mat_at (A := ARm fadd fsub fmul fdiv) au (bm1 B + bm2 B + 1) i k))%R) /\
        forall i, i < bn B ->
          Rsum (bwin (bm1 B + bm2 B + 1) (bn B) i)
            (fun k => ((mat_at (A := ARm fadd fsub fmul fdiv) au (bm1 B + bm2 B + 1) i k + dU i k) * nth (i + k) x 0)%R)
          = nth i y 0%R) /\
     forall r, r < bn B ->
       let h : list (R * nat) := fhist (A := ARm fadd fsub fmul fdiv) (bn B) (bm1 B) al index (bn B) r in
       length h <= r /\
       (forall t, t < length h -> snd (nth t h (0%R, 0)) < r) /\
       ((INR (length h) * u < 1)%R ->
        (exists (dd : R) (dL : nat -> R),
           (Rabs dd <= gam u (length h))%R /\
           (forall t, t < length h -> (Rabs (dL t) <= gam u (length h) * Rabs (fst (nth t h (0%R, 0%nat))))%R) /\
           ((1 + dd) * nth r y 0
            + Rsum (length h) (fun t => (fst (nth t h (0, 0%nat)) + dL t) * nth (snd (nth t h (0, 0%nat))) y 0)
            = nth (fperm index (bn B) r) b 0)%R) /\
        (forall s, s < bm1 B + bm2 B + 1 ->
           exists (dd : R) (dL : nat -> R),
             (Rabs dd <= gam u (length h))%R /\
             (forall t, t < length h -> (Rabs (dL t) <= gam u (length h) * Rabs (fst (nth t h (0%R, 0%nat))))%R) /\
             ((1 + dd) * mat_at (A := ARm fadd fsub fmul fdiv) au (bm1 B + bm2 B + 1) r s
              + Rsum (length h) (fun t => (fst (nth t h (0, 0%nat)) + dL t)
                                          * Uc fadd fsub fmul fdiv au (bm1 B + bm2 B + 1) (snd (nth t h (0, 0%nat))) (r + s))
              = dense_entry B (fperm index (bn B) r) (r + s))%R) /\
        (forall t, t < length h ->
           exists dL : nat -> R,
             (forall t', t' <= t -> (Rabs (dL t') <= gam u (t + 1) * Rabs (fst (nth t' h (0%R, 0%nat))))%R) /\
             (Rsum (S t) (fun t' => (fst (nth t' h (0, 0%nat)) + dL t')
                                    * Uc fadd fsub fmul fdiv au (bm1 B + bm2 B + 1) (snd (nth t' h (0, 0%nat)))
                                         (snd (nth t h (0%R, 0%nat))))
              = dense_entry B (fperm index (bn B) r) (snd (nth t h (0%R, 0%nat))))%R))).
Print Assumptions band_solve_backward_error.
(* the same 2x2 system through band_solve in the rounding arithmetic: it answers, its factors are exs_au / exs_al / exs_index
   (one exchange), the computed pivots are nonzero, the sizes are admissible *)
Example band_solve_backward_error_nonvacuous :
  (0 <= ux < 1)%R /\
  (forall x y : R, exists d : R, (Rabs d <= ux)%R /\ xsub x y = ((x - y) * (1 + d))%R) /\
  (forall x y : R, exists d : R, (Rabs d <= ux)%R /\ xmul x y = (x * y * (1 + d))%R) /\
  (forall x y : R, y <> 0%R -> exists d : R, (Rabs d <= ux)%R /\ xdiv x y = (x / y * (1 + d))%R) /\
  wfB exs_B /\ length exs_b = bn exs_B /\ bm1 exs_B <= bn exs_B /\
  (exists x, band_solve exs_B exs_b = Ok x) /\
  decompose_gen false exs_B (Model.Banded.compact exs_B) (@mat_new AFlx 2 1 0%R) (repeat 0 2) = Ok (exs_au, exs_al, exs_index, (- (1))%R) /\
  (forall k, k < 2 -> mat_at (A := AFlx) exs_au 3 k 0 <> 0%R) /\
  (INR 3 * ux < 1)%R /\
  (forall r, r < 2 -> (INR (length (fhist (A := AFlx) 2 1 exs_al exs_index 2 r)) * ux < 1)%R).
Proof.
  split; [exact ux_range|]. split; [exact xsub_ok|]. split; [exact xmul_ok|]. split; [exact xdiv_ok|].
  split; [exact exs_wf|]. split; [reflexivity|]. split; [cbn; lia|]. split; [exact exs_solve|].
  split; [exact exs_decompose|]. split; [exact exs_pivots|]. split; [exact exs_size3|exact exs_hist_small].
Qed.
(* with partial pivoting the number c_r of updates of a row is not bounded by the bandwidth: for tridiag(2,1,1) of size 6
   (m1 = 1, exact rationals) the first row travels to the last position and is updated at every stage *)
Example band_history_grows_example :
  hist_lengths (decompose_gen false exq_B (Model.Banded.compact exq_B) (mat_new 6 1 zero) (repeat 0 6)) = [0; 0; 0; 0; 0; 5] /\
  hist_perm (decompose_gen false exq_B (Model.Banded.compact exq_B) (mat_new 6 1 zero) (repeat 0 6)) = [1; 2; 3; 4; 5; 0].
Proof. exact exq_history_grows. Qed.

(* shape of L under partial pivoting: row r holds c_r <= r multipliers, of the consecutive stages r - c_r .. r-1 (any arithmetic; pure bookkeeping of the exchange record) *)
Theorem band_history_shape : forall (A : Arith) (n m1 : nat) (al : matrix A) (index : list nat) (r : nat),
  (forall k, k < n -> k + 1 <= nth k index 0 /\ nth k index 0 <= fwin n m1 k) -> r < n ->
  let h := fhist n m1 al index n r in
  length h <= r /\ forall t, t < length h -> snd (nth t h (zero, 0)) = r - length h + t.
Proof. intros A n m1 al index r. exact (band_history_shape_lemma n m1 al index r). Qed.
Check band_history_shape : forall (A : Arith) (n m1 : nat) (al : matrix A) (index : list nat) (r : nat),
  (forall k, k < n -> k + 1 <= nth k index 0 /\ nth k index 0 <= fwin n m1 k) -> r < n ->
  let h := fhist n m1 al index n r in
  length h <= r /\ forall t, t < length h -> snd (nth t h (zero, 0)) = r - length h + t.
Print Assumptions band_history_shape.
Example band_history_shape_nonvacuous :
  (forall k, k < 3 -> k + 1 <= nth k exb_index 0 /\ nth k exb_index 0 <= fwin 3 1 k) /\
  map (fun r => map snd (fhist (A := AFlx) 3 1 exb_al exb_index 3 r)) [0; 1; 2] = [[]; [0]; [1]].
Proof. split; [|reflexivity]. intros [|[|[|k]]] Hk; cbn; lia. Qed.

(* the band LU WITHOUT exchanges (index[k] = k+1): L_(r,j) = al[j][r-j-1], r - m1 <= j < r, and the constant depends on the bandwidth only: gam(min r m1) <= gam(m1) *)
Theorem band_lu_noswap_backward_error : forall (u : R), (0 <= u < 1)%R ->
  forall (fadd fsub fmul fdiv : R -> R -> R),
  (forall x y : R, exists d : R, (Rabs d <= u)%R /\ fsub x y = ((x - y) * (1 + d))%R) ->
  (forall x y : R, exists d : R, (Rabs d <= u)%R /\ fmul x y = (x * y * (1 + d))%R) ->
  (forall x y : R, y <> 0%R -> exists d : R, (Rabs d <= u)%R /\ fdiv x y = (x / y * (1 + d))%R) ->
  forall (n mm m1 : nat) (au0 al0 : matrix (ARm fadd fsub fmul fdiv)) (index0 : list nat) (d0 : R)
         (au al : matrix (ARm fadd fsub fmul fdiv)) (index : list nat) (d : R) (lf : nat),
  cols au0 = mm -> cols al0 = m1 -> 1 <= mm -> m1 <= n -> (INR m1 * u < 1)%R ->
  for_ 0 n (dec_step (A := ARm fadd fsub fmul fdiv) false n mm) (au0, al0, index0, d0, m1) = Ok (au, al, index, d, lf) ->
  (forall k, k < n -> mat_at (A := ARm fadd fsub fmul fdiv) au mm k 0 <> 0%R) ->
  (forall k, k < n -> nth k index 0 = k + 1) ->
  forall r, r < n ->
    (forall s, s < mm ->
       exists (dd : R) (dL : nat -> R),
         (Rabs dd <= gam u (Nat.min r m1))%R /\
         (forall t, t < Nat.min r m1 ->
            (Rabs (dL t) <= gam u (Nat.min r m1)
                            * Rabs (mat_at (A := ARm fadd fsub fmul fdiv) al m1 (r - Nat.min r m1 + t) (r - (r - Nat.min r m1 + t) - 1)))%R) /\
         ((1 + dd) * mat_at (A := ARm fadd fsub fmul fdiv) au mm r s
          + Rsum (Nat.min r m1)
              (fun t => (mat_at (A := ARm fadd fsub fmul fdiv) al m1 (r - Nat.min r m1 + t) (r - (r - Nat.min r m1 + t) - 1) + dL t)
                        * Uc fadd fsub fmul fdiv au mm (r - Nat.min r m1 + t) (r + s))
          = D0 (A := ARm fadd fsub fmul fdiv) mm m1 au0 r (r + s))%R) /\
    (forall t, t < Nat.min r m1 ->
       exists dL : nat -> R,
         (forall t', t' <= t ->
            (Rabs (dL t') <= gam u (t + 1)
                             * Rabs (mat_at (A := ARm fadd fsub fmul fdiv) al m1 (r - Nat.min r m1 + t') (r - (r - Nat.min r m1 + t') - 1)))%R) /\
         (Rsum (S t)
            (fun t' => (mat_at (A := ARm fadd fsub fmul fdiv) al m1 (r - Nat.min r m1 + t') (r - (r - Nat.min r m1 + t') - 1) + dL t')
                       * Uc fadd fsub fmul fdiv au mm (r - Nat.min r m1 + t') (r - Nat.min r m1 + t))
          = D0 (A := ARm fadd fsub fmul fdiv) mm m1 au0 r (r - Nat.min r m1 + t))%R).
Proof. intros u Hu fadd fsub fmul fdiv Hs Hm Hd n mm m1 au0 al0 index0 d0 au al index d lf. exact (band_lu_noswap_backward_error_lemma u Hu fadd fsub fmul fdiv Hs Hm Hd n mm m1 au0 al0 index0 d0 au al index d lf). Qed.
Check band_lu_noswap_backward_error : forall (u : R), (0 <= u < 1)%R ->
  forall (fadd fsub fmul fdiv : R -> R -> R),
  (forall x y : R, exists d : R, (Rabs d <= u)%R /\ fsub x y = ((x - y) * (1 + d))%R) ->
  (forall x y : R, exists d : R, (Rabs d <= u)%R /\ fmul x y = (x * y * (1 + d))%R) ->
  (forall x y : R, y <> 0%R -> exists d : R, (Rabs d <= u)%R /\ fdiv x y = (x / y * (1 + d))%R) ->
  forall (n mm m1 : nat) (au0 al0 : matrix (ARm fadd fsub fmul fdiv)) (index0 : list nat) (d0 : R)
         (au al : matrix (ARm fadd fsub fmul fdiv)) (index : list nat) (d : R) (lf : nat),
  cols au0 = mm -> cols al0 = m1 -> 1 <= mm -> m1 <= n -> (INR m1 * u < 1)%R ->
  for_ 0 n (dec_step (A := ARm fadd fsub fmul fdiv) false n mm) (au0, al0, index0, d0, m1) = Ok (au, al, index, d, lf) ->
  (forall k, k < n -> mat_at (A := ARm fadd fsub fmul fdiv) au mm k 0 <> 0%R) ->
  (forall k, k < n -> nth k index 0 = k + 1) ->
  forall r, r < n ->
    (forall s, s < mm ->
       exists (dd : R) (dL : nat -> R),
         (Rabs dd <= gam u (Nat.min r m1))%R /\
         (forall t, t < Nat.min r m1 ->
            (Rabs (dL t) <= gam u (Nat.min r m1)
                            * Rabs (mat_at (A := ARm fadd fsub fmul fdiv) al m1 (r - Nat.min r m1 + t) (r - (r - Nat.min r m1 + t) - 1)))%R) /\
         ((1 + dd) * mat_at (A := ARm fadd fsub fmul fdiv) au mm r s
          + Rsum (Nat.min r m1)
              (fun t => (mat_at (A := ARm fadd fsub fmul fdiv) al m1 (r - Nat.min r m1 + t) (r - (r - Nat.min r m1 + t) - 1) + dL t)
                        * Uc fadd fsub fmul fdiv au mm (r - Nat.min r m1 + t) (r + s))
          = D0 (A := ARm fadd fsub fmul fdiv) mm m1 au0 r (r + s))%R) /\
    (forall t, t < Nat.min r m1 ->
       exists dL : nat -> R,
         (forall t', t' <= t ->
            (Rabs (dL t') <= gam u (t + 1)
                             * Rabs (mat_at (A := ARm fadd fsub fmul fdiv) al m1 (r - Nat.min r m1 + t') (r - (r - Nat.min r m1 + t') - 1)))%R) /\
         (Rsum (S t)
            (fun t' => (mat_at (A := ARm fadd fsub fmul fdiv) al m1 (r - Nat.min r m1 + t') (r - (r - Nat.min r m1 + t') - 1) + dL t')
                       * Uc fadd fsub fmul fdiv au mm (r - Nat.min r m1 + t') (r - Nat.min r m1 + t))
          = D0 (A := ARm fadd fsub fmul fdiv) mm m1 au0 r (r - Nat.min r m1 + t))%R).
Print Assumptions band_lu_noswap_backward_error.
(* the 2x2 system [[2,1],[1,3]] (m1 = m2 = 1): the pivot search keeps the diagonal *)
Example band_lu_noswap_backward_error_nonvacuous :
  (0 <= ux < 1)%R /\
  (forall x y : R, exists d : R, (Rabs d <= ux)%R /\ xsub x y = ((x - y) * (1 + d))%R) /\
  (forall x y : R, exists d : R, (Rabs d <= ux)%R /\ xmul x y = (x * y * (1 + d))%R) /\
  (forall x y : R, y <> 0%R -> exists d : R, (Rabs d <= ux)%R /\ xdiv x y = (x / y * (1 + d))%R) /\
  cols exn_au0 = 3 /\ (INR 1 * ux < 1)%R /\
  for_ 0 2 (dec_step (A := AFlx) false 2 3) (exn_au0, @mat_new AFlx 2 1 0%R, repeat 0 2, 1%R, 1)
    = Ok (exn_au, exn_al, [1; 2], 1%R, 2) /\
  (forall k, k < 2 -> mat_at (A := AFlx) exn_au 3 k 0 <> 0%R) /\
  (forall k, k < 2 -> nth k [1; 2] 0 = k + 1).
Proof.
  split; [exact ux_range|]. split; [exact xsub_ok|]. split; [exact xmul_ok|]. split; [exact xdiv_ok|].
  split; [reflexivity|]. split; [exact exb_size1|]. split; [exact exn_loop|]. split; [exact exn_pivots|].
  intros [|[|k]] Hk; try lia; reflexivity.
Qed.

(* Higham Theorem 9.4 for the banded solver: band_solve's answer solves ONE nearby system (B + dB) x = b exactly, |dB| <= (3 gam N + gam N^2) |L||U| with L ([Ld], row r = fhist r) and U ([Uc]) the computed factors; N bounds the bandwidth m1+m2+1 and the numbers c_r of row updates (N = m1+m2+1 when no rows were exchanged) *)
Theorem band_solve_single_backward_error : forall (u : R), (0 <= u < 1)%R ->
  forall (fadd fsub fmul fdiv : R -> R -> R),
  (forall x y : R, exists d : R, (Rabs d <= u)%R /\ fsub x y = ((x - y) * (1 + d))%R) ->
  (forall x y : R, exists d : R, (Rabs d <= u)%R /\ fmul x y = (x * y * (1 + d))%R) ->
  (forall x y : R, y <> 0%R -> exists d : R, (Rabs d <= u)%R /\ fdiv x y = (x / y * (1 + d))%R) ->
  forall (B : banded (ARm fadd fsub fmul fdiv)) (b x : list R) (N : nat),
  wfB B -> length b = bn B -> bm1 B <= bn B -> band_solve B b = Ok x ->
  exists (au al : matrix (ARm fadd fsub fmul fdiv)) (index : list nat),
    (exists d : R, decompose_gen (A := ARm fadd fsub fmul fdiv) false B (Model.Banded.compact B)
                     (mat_new (A := ARm fadd fsub fmul fdiv) (bn B) (bm1 B) 0%R) (repeat 0 (bn B))
                   = Ok (au, al, index, d)) /\
    ((forall k, k < bn B -> mat_at (A := ARm fadd fsub fmul fdiv) au (bm1 B + bm2 B + 1) k 0 <> 0%R) ->
     bm1 B + bm2 B + 1 <= N ->
     (forall r, r < bn B -> length (fhist (A := ARm fadd fsub fmul fdiv) (bn B) (bm1 B) al index (bn B) r) <= N) ->
     (INR N * u < 1)%R ->
     (forall r, r < bn B -> fperm index (bn B) r < bn B) /\
     (forall r r', fperm index (bn B) r = fperm index (bn B) r' -> r = r') /\
     exists dB : nat -> nat -> R,
       (forall r c, r < bn B -> c < bn B ->
          (Rabs (dB r c) <= (3 * gam u N + gam u N * gam u N)
                            * Rsum (bn B) (fun k => Rabs (Ld (fhist (A := ARm fadd fsub fmul fdiv) (bn B) (bm1 B) al index (bn B) r) r k)
                                                    * Rabs (Uc fadd fsub fmul fdiv au (bm1 B + bm2 B + 1) k c)))%R) /\
       forall r, r < bn B ->
         Rsum (bn B) (fun c => ((dense_entry B (fperm index (bn B) r) c + dB r c) * nth c x 0)%R)
         = nth (fperm index (bn B) r) b 0%R).
Proof. intros u Hu fadd fsub fmul fdiv Hs Hm Hd B b x N. exact (band_solve_single_backward_error_lemma u Hu fadd fsub fmul fdiv Hs Hm Hd B b x N). Qed.
Check band_solve_single_backward_error : forall (u : R), (0 <= u < 1)%R ->
  forall (fadd fsub fmul fdiv : R -> R -> R),
  (forall x y : R, exists d : R, (Rabs d <= u)%R /\ fsub x y = ((x - y) * (1 + d))%R) ->
  (forall x y : R, exists d : R, (Rabs d <= u)%R /\ fmul x y = (x * y * (1 + d))%R) ->
  (forall x y : R, y <> 0%R -> exists d : R, (Rabs d <= u)%R /\ fdiv x y = (x / y * (1 + d))%R) ->
  forall (B : banded (ARm fadd fsub fmul fdiv)) (b x : list R) (N : nat),
  wfB B -> length b = bn B -> bm1 B <= bn B -> band_solve B b = Ok x ->
  exists (au al : matrix (ARm fadd fsub fmul fdiv)) (index : list nat),
    (exists d : R, decompose_gen (A := ARm fadd fsub fmul fdiv) false B (Model.Banded.compact B)
                     (mat_new (A := ARm fadd fsub fmul fdiv) (bn B) (bm1 B) 0%R) (repeat 0 (bn B))
                   = Ok (au, al, index, d)) /\
    ((forall k, k < bn B -> mat_at (A := ARm fadd fsub fmul fdiv) au (bm1 B + bm2 B + 1) k 0 <> 0%R) ->
     bm1 B + bm2 B + 1 <= N ->
     (forall r, r < bn B -> length (fhist (A := ARm fadd fsub fmul fdiv) (bn B) (bm1 B) al index (bn B) r) <= N) ->
     (INR N * u < 1)%R ->
     (forall r, r < bn B -> fperm index (bn B) r < bn B) /\
     (forall r r', fperm index (bn B) r = fperm index (bn B) r' -> r = r') /\
     exists dB : nat -> nat -> R,
       (forall r c, r < bn B -> c < bn B ->
          (Rabs (dB r c) <= (3 * gam u N + gam u N * gam u N)
                            * Rsum (bn B) (fun k => Rabs (Ld (fhist (A := ARm fadd fsub fmul fdiv) (bn B) (bm1 B) al index (bn B) r) r k)
                                                    * Rabs (Uc fadd fsub fmul fdiv au (bm1 B + bm2 B + 1) k c)))%R) /\
       forall r, r < bn B ->
         Rsum (bn B) (fun c => ((dense_entry B (fperm index (bn B) r) c + dB r c) * nth c x 0)%R)
         = nth (fperm index (bn B) r) b 0%R).
Print Assumptions band_solve_single_backward_error.
Example band_solve_single_backward_error_nonvacuous :
  (0 <= ux < 1)%R /\
  (forall x y : R, exists d : R, (Rabs d <= ux)%R /\ xsub x y = ((x - y) * (1 + d))%R) /\
  (forall x y : R, exists d : R, (Rabs d <= ux)%R /\ xmul x y = (x * y * (1 + d))%R) /\
  (forall x y : R, y <> 0%R -> exists d : R, (Rabs d <= ux)%R /\ xdiv x y = (x / y * (1 + d))%R) /\
  wfB exs_B /\ length exs_b = bn exs_B /\ bm1 exs_B <= bn exs_B /\
  (exists x, band_solve exs_B exs_b = Ok x) /\
  decompose_gen false exs_B (Model.Banded.compact exs_B) (@mat_new AFlx 2 1 0%R) (repeat 0 2) = Ok (exs_au, exs_al, exs_index, (- (1))%R) /\
  (forall k, k < 2 -> mat_at (A := AFlx) exs_au 3 k 0 <> 0%R) /\
  bm1 exs_B + bm2 exs_B + 1 <= 3 /\
  (forall r, r < 2 -> length (fhist (A := AFlx) 2 1 exs_al exs_index 2 r) <= 3) /\
  (INR 3 * ux < 1)%R.
Proof.
  split; [exact ux_range|]. split; [exact xsub_ok|]. split; [exact xmul_ok|]. split; [exact xdiv_ok|].
  split; [exact exs_wf|]. split; [reflexivity|]. split; [cbn; lia|]. split; [exact exs_solve|].
  split; [exact exs_decompose|]. split; [exact exs_pivots|]. split; [cbn; lia|]. split; [exact exs_hist_le3|exact exs_size3].
Qed.

(* the classical statement when the pivot search never left the diagonal (index[k] = k+1): (B + dB) x = b with |dB| <= gam(3 (m1+m2+1)) |L||U| -- the constant depends on the bandwidth only, not on n *)
Theorem band_solve_noswap_single_backward_error : forall (u : R), (0 <= u < 1)%R ->
  forall (fadd fsub fmul fdiv : R -> R -> R),
  (forall x y : R, exists d : R, (Rabs d <= u)%R /\ fsub x y = ((x - y) * (1 + d))%R) ->
  (forall x y : R, exists d : R, (Rabs d <= u)%R /\ fmul x y = (x * y * (1 + d))%R) ->
  (forall x y : R, y <> 0%R -> exists d : R, (Rabs d <= u)%R /\ fdiv x y = (x / y * (1 + d))%R) ->
  forall (B : banded (ARm fadd fsub fmul fdiv)) (b x : list R),
  wfB B -> length b = bn B -> bm1 B <= bn B -> band_solve B b = Ok x ->
  (INR (3 * (bm1 B + bm2 B + 1)) * u < 1)%R ->
  exists (au al : matrix (ARm fadd fsub fmul fdiv)) (index : list nat),
    (exists d : R, decompose_gen (A := ARm fadd fsub fmul fdiv) false B (Model.Banded.compact B)
                     (mat_new (A := ARm fadd fsub fmul fdiv) (bn B) (bm1 B) 0%R) (repeat 0 (bn B))
                   = Ok (au, al, index, d)) /\
    ((forall k, k < bn B -> mat_at (A := ARm fadd fsub fmul fdiv) au (bm1 B + bm2 B + 1) k 0 <> 0%R) ->
     (forall k, k < bn B -> nth k index 0 = k + 1) ->
     exists dB : nat -> nat -> R,
       (forall r c, r < bn B -> c < bn B ->
          (Rabs (dB r c) <= gam u (3 * (bm1 B + bm2 B + 1))
                            * Rsum (bn B) (fun k => Rabs (Ld (fhist (A := ARm fadd fsub fmul fdiv) (bn B) (bm1 B) al index (bn B) r) r k)
                                                    * Rabs (Uc fadd fsub fmul fdiv au (bm1 B + bm2 B + 1) k c)))%R) /\
       forall r, r < bn B ->
         Rsum (bn B) (fun c => ((dense_entry B r c + dB r c) * nth c x 0)%R) = nth r b 0%R).
Proof. intros u Hu fadd fsub fmul fdiv Hs Hm Hd B b x. exact (band_solve_noswap_single_backward_error_lemma u Hu fadd fsub fmul fdiv Hs Hm Hd B b x). Qed.
Check band_solve_noswap_single_backward_error : forall (u : R), (0 <= u < 1)%R ->
  forall (fadd fsub fmul fdiv : R -> R -> R),
  (forall x y : R, exists d : R, (Rabs d <= u)%R /\ fsub x y = ((x - y) * (1 + d))%R) ->
  (forall x y : R, exists d : R, (Rabs d <= u)%R /\ fmul x y = (x * y * (1 + d))%R) ->
  (forall x y : R, y <> 0%R -> exists d : R, (Rabs d <= u)%R /\ fdiv x y = (x / y * (1 + d))%R) ->
  forall (B : banded (ARm fadd fsub fmul fdiv)) (b x : list R),
  wfB B -> length b = bn B -> bm1 B <= bn B -> band_solve B b = Ok x ->
  (INR (3 * (bm1 B + bm2 B + 1)) * u < 1)%R ->
  exists (au al : matrix (ARm fadd fsub fmul fdiv)) (index : list nat),
    (exists d : R, decompose_gen (A := ARm fadd fsub fmul fdiv) false B (Model.Banded.compact B)
                     (mat_new (A := ARm fadd fsub fmul fdiv) (bn B) (bm1 B) 0%R) (repeat 0 (bn B))
                   = Ok (au, al, index, d)) /\
    ((forall k, k < bn B -> mat_at (A := ARm fadd fsub fmul fdiv) au (bm1 B + bm2 B + 1) k 0 <> 0%R) ->
     (forall k, k < bn B -> nth k index 0 = k + 1) ->
     exists dB : nat -> nat -> R,
       (forall r c, r < bn B -> c < bn B ->
          (Rabs (dB r c) <= gam u (3 * (bm1 B + bm2 B + 1))
                            * Rsum (bn B) (fun k => Rabs (Ld (fhist (A := ARm fadd fsub fmul fdiv) (bn B) (bm1 B) al index (bn B) r) r k)
                                                    * Rabs (Uc fadd fsub fmul fdiv au (bm1 B + bm2 B + 1) k c)))%R) /\
       forall r, r < bn B ->
         Rsum (bn B) (fun c => ((dense_entry B r c + dB r c) * nth c x 0)%R) = nth r b 0%R).
Print Assumptions band_solve_noswap_single_backward_error.
(* [[2,1],[1,3]] x = [1,2]: the pivot search keeps the diagonal, the exchange record is [1; 2] *)
Example band_solve_noswap_single_backward_error_nonvacuous :
  (0 <= ux < 1)%R /\
  (forall x y : R, exists d : R, (Rabs d <= ux)%R /\ xsub x y = ((x - y) * (1 + d))%R) /\
  (forall x y : R, exists d : R, (Rabs d <= ux)%R /\ xmul x y = (x * y * (1 + d))%R) /\
  (forall x y : R, y <> 0%R -> exists d : R, (Rabs d <= ux)%R /\ xdiv x y = (x / y * (1 + d))%R) /\
  wfB exn_B /\ length exs_b = bn exn_B /\ bm1 exn_B <= bn exn_B /\
  (exists x, band_solve exn_B exs_b = Ok x) /\
  (INR (3 * (bm1 exn_B + bm2 exn_B + 1)) * ux < 1)%R /\
  decompose_gen false exn_B (Model.Banded.compact exn_B) (@mat_new AFlx 2 1 0%R) (repeat 0 2) = Ok (exn_au, exn_al, [1; 2], 1%R) /\
  (forall k, k < 2 -> mat_at (A := AFlx) exn_au 3 k 0 <> 0%R) /\
  (forall k, k < 2 -> nth k [1; 2] 0 = k + 1).
Proof.
  split; [exact ux_range|]. split; [exact xsub_ok|]. split; [exact xmul_ok|]. split; [exact xdiv_ok|].
  split; [exact exn_wf|]. split; [reflexivity|]. split; [cbn; lia|]. split; [exact exn_solve|].
  split; [exact exn_size9|]. split; [exact exn_decompose|]. split; [exact exn_pivots|].
  intros [|[|k]] Hk; try lia; reflexivity.
Qed.

