(* Proofs/Round2PinBand.v -- package round2, pin blocks for C04 (append to Props/C04.v).  Compiled copy of the blocks,
   in the scope context of Props/C04.v (nat_scope open, Reals imported, R_scope not open).
   ======================================================================================================
   C04 (banded matrices), rounding half of the SOLVER -- package round2.
   Round one left "band_solve / band_det -- the compact LU with its shifting storage" uncovered.  The blocks below are about
   the two substitution phases of [band_solve] (Model/Banded.v: [fwd_step] with the recorded row exchanges, [back_step]
   with the growing window), first over ANY arithmetic (what each output component is, as a left fold
   sfold [(a_0,v_0); ...] s = (..((s - a_0*v_0) - a_1*v_1)..) of the arithmetic's own operations), then in the STANDARD
   MODEL of floating-point arithmetic (Base/RoundModel.v: the same Gallina functions at ARm):
     band_back_trace                         x_i = (sfold [(au[i][k], x_(i+k)) | 1 <= k < l_i] y_i) / au[i][0],  l_i = min mm (n-i)
     band_backsolve_backward_error           (U + dU) x = y row by row, |dU_(i,i+k)| <= gam(l_i) |au[i][k]|: the constant depends on
                                             the bandwidth mm = m1+m2+1, not on n                       (Higham Thm 8.5 for the band)
     band_fwd_trace                          y_r = sfold [(a, y_j) | (a,j) in fhist r] b_(fperm r): the multipliers applied to the
                                             entry of b that the recorded exchanges bring to position r
     band_forward_backward_error             (L + dL) y = P b row by row, unit lower triangular L (row r = fhist r), |dL| <= gam(c_r)|L|,
                                             c_r = number of updates of that entry (<= r; not bounded by m1 under pivoting)
     band_forward_noswap_backward_error      no exchanges: L is the unit lower BAND matrix al[j][r-j-1], constant gam(min r m1)
   au, al, index are the COMPUTED factors: the error of the factorisation itself (decompose) is not part of these blocks.
   ====================================================================================================== *)
From Coq Require Import List Arith ZArith QArith Qcanon Lia Floats.
From OV Require Import Base.Panic Base.Arith Base.Flat Model.Vector Model.Matrix Model.Banded Inst.QcInst Inst.FloatInst Proofs.Banded Proofs.BandedLU Proofs.BandedTotal Proofs.BandedComplete.
Import ListNotations.
Local Open Scope nat_scope.
From Coq Require Import Reals.
(* ---- the blocks start here ---- *)
From Coq Require Import Reals Lra Lia.
From OV Require Import Base.RoundModel Proofs.RoundFlx Proofs.Round2Band Proofs.Round2BandB Proofs.Round2BandC.
(* back substitution over ANY arithmetic: every component of the answer is one left fold over the final answer, divided by the pivot *)
Theorem band_back_trace : forall (A : Arith) (au : matrix A) (mm n : nat) (y x : list A) (lf : nat),
  cols au = mm -> 1 <= mm -> length y = n ->
  for_rev 0 n (back_step mm au) (y, 1) = Ok (x, lf) ->
  length x = n /\
  forall i, i < n ->
    div (bacc au mm i (bwin mm n i) x (nth i y zero)) (mat_at au mm i 0) = Ok (nth i x zero).
Proof. intros A au mm n y x lf. exact (band_back_trace_lemma au mm n y x lf). Qed.
Check band_back_trace : forall (A : Arith) (au : matrix A) (mm n : nat) (y x : list A) (lf : nat),
  cols au = mm -> 1 <= mm -> length y = n ->
  for_rev 0 n (back_step mm au) (y, 1) = Ok (x, lf) ->
  length x = n /\
  forall i, i < n ->
    div (bacc au mm i (bwin mm n i) x (nth i y zero)) (mat_at au mm i 0) = Ok (nth i x zero).
Print Assumptions band_back_trace.
(* the loop answers on concrete data in the arithmetic that rounds every operation; the windows are 2, 2, 1 *)
Example band_back_trace_nonvacuous :
  cols exb_au = 2 /\ length exb_y = 3 /\
  (exists x lf, for_rev 0 3 (back_step (A := AFlx) 2 exb_au) (exb_y, 1) = Ok (x, lf)) /\
  map (bwin 2 3) [0; 1; 2] = [2; 2; 1] /\ xdiv 1%R 3%R <> (1 / 3)%R.
Proof. split; [reflexivity|]. split; [reflexivity|]. split; [exact exb_back|]. split; [reflexivity|exact xdiv_inexact]. Qed.

(* Higham Theorem 8.5 for the band: the computed x solves a nearby upper-banded system exactly; the constant is gam(l_i), l_i = min mm (n-i) <= mm *)
Theorem band_backsolve_backward_error : forall (u : R), (0 <= u < 1)%R ->
  forall (fadd fsub fmul fdiv : R -> R -> R),
  (forall x y : R, exists d : R, (Rabs d <= u)%R /\ fsub x y = ((x - y) * (1 + d))%R) ->
  (forall x y : R, exists d : R, (Rabs d <= u)%R /\ fmul x y = (x * y * (1 + d))%R) ->
  (forall x y : R, y <> 0%R -> exists d : R, (Rabs d <= u)%R /\ fdiv x y = (x / y * (1 + d))%R) ->
  forall (au : matrix (ARm fadd fsub fmul fdiv)) (mm n : nat) (y x : list R) (lf : nat),
  cols au = mm -> 1 <= mm -> length y = n -> (INR mm * u < 1)%R ->
  (forall i, i < n -> mat_at (A := ARm fadd fsub fmul fdiv) au mm i 0 <> 0%R) ->
  for_rev 0 n (back_step (A := ARm fadd fsub fmul fdiv) mm au) (y, 1) = Ok (x, lf) ->
  length x = n /\
  exists dU : nat -> nat -> R,
    (forall i k, i < n -> k < bwin mm n i ->
       (Rabs (dU i k) <= gam u (bwin mm n i) * Rabs (mat_at (A := ARm fadd fsub fmul fdiv) au mm i k))%R) /\
    forall i, i < n ->
      Rsum (bwin mm n i) (fun k => ((mat_at (A := ARm fadd fsub fmul fdiv) au mm i k + dU i k) * nth (i + k) x 0)%R)
      = nth i y 0%R.
Proof. intros u Hu fadd fsub fmul fdiv Hs Hm Hd au mm n y x lf. exact (band_backsolve_backward_error_lemma u Hu fadd fsub fmul fdiv Hs Hm Hd au mm n y x lf). Qed.
Check band_backsolve_backward_error : forall (u : R), (0 <= u < 1)%R ->
  forall (fadd fsub fmul fdiv : R -> R -> R),
  (forall x y : R, exists d : R, (Rabs d <= u)%R /\ fsub x y = ((x - y) * (1 + d))%R) ->
  (forall x y : R, exists d : R, (Rabs d <= u)%R /\ fmul x y = (x * y * (1 + d))%R) ->
  (forall x y : R, y <> 0%R -> exists d : R, (Rabs d <= u)%R /\ fdiv x y = (x / y * (1 + d))%R) ->
  forall (au : matrix (ARm fadd fsub fmul fdiv)) (mm n : nat) (y x : list R) (lf : nat),
  cols au = mm -> 1 <= mm -> length y = n -> (INR mm * u < 1)%R ->
  (forall i, i < n -> mat_at (A := ARm fadd fsub fmul fdiv) au mm i 0 <> 0%R) ->
  for_rev 0 n (back_step (A := ARm fadd fsub fmul fdiv) mm au) (y, 1) = Ok (x, lf) ->
  length x = n /\
  exists dU : nat -> nat -> R,
    (forall i k, i < n -> k < bwin mm n i ->
       (Rabs (dU i k) <= gam u (bwin mm n i) * Rabs (mat_at (A := ARm fadd fsub fmul fdiv) au mm i k))%R) /\
    forall i, i < n ->
      Rsum (bwin mm n i) (fun k => ((mat_at (A := ARm fadd fsub fmul fdiv) au mm i k + dU i k) * nth (i + k) x 0)%R)
      = nth i y 0%R.
Print Assumptions band_backsolve_backward_error.
Example band_backsolve_backward_error_nonvacuous :
  (0 <= ux < 1)%R /\
  (forall x y : R, exists d : R, (Rabs d <= ux)%R /\ xsub x y = ((x - y) * (1 + d))%R) /\
  (forall x y : R, exists d : R, (Rabs d <= ux)%R /\ xmul x y = (x * y * (1 + d))%R) /\
  (forall x y : R, y <> 0%R -> exists d : R, (Rabs d <= ux)%R /\ xdiv x y = (x / y * (1 + d))%R) /\
  cols exb_au = 2 /\ length exb_y = 3 /\ (INR 2 * ux < 1)%R /\
  (forall i, i < 3 -> mat_at (A := AFlx) exb_au 2 i 0 <> 0%R) /\
  (exists x lf, for_rev 0 3 (back_step (A := AFlx) 2 exb_au) (exb_y, 1) = Ok (x, lf)) /\
  xdiv 1%R 3%R <> (1 / 3)%R.
Proof.
  split; [exact ux_range|]. split; [exact xsub_ok|]. split; [exact xmul_ok|]. split; [exact xdiv_ok|].
  split; [reflexivity|]. split; [reflexivity|]. split; [exact exb_size2|]. split; [exact exb_pivots|].
  split; [exact exb_back|exact xdiv_inexact].
Qed.

(* the forward phase over ANY arithmetic, with the recorded row exchanges: position r holds the entry b_(fperm r), updated by the multipliers of fhist r *)
Theorem band_fwd_trace : forall (A : Arith) (al : matrix A) (index : list nat) (n m1 : nat) (b y : list A) (lf : nat),
  cols al = m1 -> m1 <= n -> length b = n ->
  (forall k, k < n -> k + 1 <= nth k index 0) ->
  for_ 0 n (fwd_step n al index) (b, m1) = Ok (y, lf) ->
  length y = n /\
  forall r, nth r y zero = sfold (fterms (fhist n m1 al index n r) y) (nth (fperm index n r) b zero).
Proof. intros A al index n m1 b y lf. exact (band_fwd_trace_lemma al index n m1 b y lf). Qed.
Check band_fwd_trace : forall (A : Arith) (al : matrix A) (index : list nat) (n m1 : nat) (b y : list A) (lf : nat),
  cols al = m1 -> m1 <= n -> length b = n ->
  (forall k, k < n -> k + 1 <= nth k index 0) ->
  for_ 0 n (fwd_step n al index) (b, m1) = Ok (y, lf) ->
  length y = n /\
  forall r, nth r y zero = sfold (fterms (fhist n m1 al index n r) y) (nth (fperm index n r) b zero).
Print Assumptions band_fwd_trace.
(* a record with a genuine exchange (rows 0 and 1 at stage 0): position 0 receives b_1, positions 1 and 2 are updated once *)
Example band_fwd_trace_nonvacuous :
  cols exb_al = 1 /\ length exb_b = 3 /\
  (forall k, k < 3 -> k + 1 <= nth k exb_index 0) /\
  (exists y lf, for_ 0 3 (fwd_step (A := AFlx) 3 exb_al exb_index) (exb_b, 1) = Ok (y, lf)) /\
  map (fperm exb_index 3) [0; 1; 2] = [1; 0; 2] /\
  map (fun r => length (fhist (A := AFlx) 3 1 exb_al exb_index 3 r)) [0; 1; 2] = [0; 1; 1].
Proof.
  split; [reflexivity|]. split; [reflexivity|]. split; [exact exb_index_ok|]. split; [exact exb_fwd|].
  split; [exact exb_fperm|exact exb_fhist_len].
Qed.

(* (L + dL) y = P b for the forward phase with exchanges: L unit lower triangular (all stages in row r are < r), c_r = length (fhist r) <= r updates *)
Theorem band_forward_backward_error : forall (u : R), (0 <= u < 1)%R ->
  forall (fadd fsub fmul fdiv : R -> R -> R),
  (forall x y : R, exists d : R, (Rabs d <= u)%R /\ fsub x y = ((x - y) * (1 + d))%R) ->
  (forall x y : R, exists d : R, (Rabs d <= u)%R /\ fmul x y = (x * y * (1 + d))%R) ->
  forall (al : matrix (ARm fadd fsub fmul fdiv)) (index : list nat) (n m1 : nat) (b y : list R) (lf : nat),
  cols al = m1 -> m1 <= n -> length b = n ->
  (forall k, k < n -> k + 1 <= nth k index 0) ->
  for_ 0 n (fwd_step (A := ARm fadd fsub fmul fdiv) n al index) (b, m1) = Ok (y, lf) ->
  length y = n /\
  forall r, r < n ->
    let h : list (R * nat) := fhist (A := ARm fadd fsub fmul fdiv) n m1 al index n r in
    length h <= r /\
    (forall t, t < length h -> snd (nth t h (0%R, 0)) < r) /\
    ((INR (length h) * u < 1)%R ->
     exists (dd : R) (dL : nat -> R),
       (Rabs dd <= gam u (length h))%R /\
       (forall t, t < length h -> (Rabs (dL t) <= gam u (length h) * Rabs (fst (nth t h (0%R, 0%nat))))%R) /\
       ((1 + dd) * nth r y 0
        + Rsum (length h) (fun t => (fst (nth t h (0, 0%nat)) + dL t) * nth (snd (nth t h (0, 0%nat))) y 0)
        = nth (fperm index n r) b 0)%R).
Proof. intros u Hu fadd fsub fmul fdiv Hs Hm al index n m1 b y lf. exact (band_forward_backward_error_lemma u Hu fadd fsub fmul fdiv Hs Hm al index n m1 b y lf). Qed.
Check band_forward_backward_error : forall (u : R), (0 <= u < 1)%R ->
  forall (fadd fsub fmul fdiv : R -> R -> R),
  (forall x y : R, exists d : R, (Rabs d <= u)%R /\ fsub x y = ((x - y) * (1 + d))%R) ->
  (forall x y : R, exists d : R, (Rabs d <= u)%R /\ fmul x y = (x * y * (1 + d))%R) ->
  forall (al : matrix (ARm fadd fsub fmul fdiv)) (index : list nat) (n m1 : nat) (b y : list R) (lf : nat),
  cols al = m1 -> m1 <= n -> length b = n ->
  (forall k, k < n -> k + 1 <= nth k index 0) ->
  for_ 0 n (fwd_step (A := ARm fadd fsub fmul fdiv) n al index) (b, m1) = Ok (y, lf) ->
  length y = n /\
  forall r, r < n ->
    let h : list (R * nat) := fhist (A := ARm fadd fsub fmul fdiv) n m1 al index n r in
    length h <= r /\
    (forall t, t < length h -> snd (nth t h (0%R, 0)) < r) /\
    ((INR (length h) * u < 1)%R ->
     exists (dd : R) (dL : nat -> R),
       (Rabs dd <= gam u (length h))%R /\
       (forall t, t < length h -> (Rabs (dL t) <= gam u (length h) * Rabs (fst (nth t h (0%R, 0%nat))))%R) /\
       ((1 + dd) * nth r y 0
        + Rsum (length h) (fun t => (fst (nth t h (0, 0%nat)) + dL t) * nth (snd (nth t h (0, 0%nat))) y 0)
        = nth (fperm index n r) b 0)%R).
Print Assumptions band_forward_backward_error.
Example band_forward_backward_error_nonvacuous :
  (0 <= ux < 1)%R /\
  (forall x y : R, exists d : R, (Rabs d <= ux)%R /\ xsub x y = ((x - y) * (1 + d))%R) /\
  (forall x y : R, exists d : R, (Rabs d <= ux)%R /\ xmul x y = (x * y * (1 + d))%R) /\
  cols exb_al = 1 /\ length exb_b = 3 /\
  (forall k, k < 3 -> k + 1 <= nth k exb_index 0) /\
  (exists y lf, for_ 0 3 (fwd_step (A := AFlx) 3 exb_al exb_index) (exb_b, 1) = Ok (y, lf)) /\
  (forall r, r < 3 -> (INR (length (fhist (A := AFlx) 3 1 exb_al exb_index 3 r)) * ux < 1)%R).
Proof.
  split; [exact ux_range|]. split; [exact xsub_ok|]. split; [exact xmul_ok|].
  split; [reflexivity|]. split; [reflexivity|]. split; [exact exb_index_ok|]. split; [exact exb_fwd|].
  intros [|[|[|r]]] Hr; try lia; cbn [fhist length]; cbn; pose proof ux_small; lra.
Qed.

(* without exchanges: (L + dL) y = b with the unit lower BAND matrix L_(r,j) = al[j][r-j-1], r - m1 <= j < r; the constant is gam(min r m1) *)
Theorem band_forward_noswap_backward_error : forall (u : R), (0 <= u < 1)%R ->
  forall (fadd fsub fmul fdiv : R -> R -> R),
  (forall x y : R, exists d : R, (Rabs d <= u)%R /\ fsub x y = ((x - y) * (1 + d))%R) ->
  (forall x y : R, exists d : R, (Rabs d <= u)%R /\ fmul x y = (x * y * (1 + d))%R) ->
  forall (al : matrix (ARm fadd fsub fmul fdiv)) (index : list nat) (n m1 : nat) (b y : list R) (lf : nat),
  cols al = m1 -> m1 <= n -> length b = n -> (INR m1 * u < 1)%R ->
  (forall k, k < n -> nth k index 0 = k + 1) ->
  for_ 0 n (fwd_step (A := ARm fadd fsub fmul fdiv) n al index) (b, m1) = Ok (y, lf) ->
  length y = n /\
  forall r, r < n ->
    exists (dd : R) (dL : nat -> R),
      (Rabs dd <= gam u (Nat.min r m1))%R /\
      (forall t, t < Nat.min r m1 ->
         (Rabs (dL t) <= gam u (Nat.min r m1)
                         * Rabs (mat_at (A := ARm fadd fsub fmul fdiv) al m1 (r - Nat.min r m1 + t) (r - (r - Nat.min r m1 + t) - 1)))%R) /\
      ((1 + dd) * nth r y 0
       + Rsum (Nat.min r m1)
           (fun t => (mat_at (A := ARm fadd fsub fmul fdiv) al m1 (r - Nat.min r m1 + t) (r - (r - Nat.min r m1 + t) - 1) + dL t)
                     * nth (r - Nat.min r m1 + t) y 0)
       = nth r b 0)%R.
Proof. intros u Hu fadd fsub fmul fdiv Hs Hm al index n m1 b y lf. exact (band_forward_noswap_backward_error_lemma u Hu fadd fsub fmul fdiv Hs Hm al index n m1 b y lf). Qed.
Check band_forward_noswap_backward_error : forall (u : R), (0 <= u < 1)%R ->
  forall (fadd fsub fmul fdiv : R -> R -> R),
  (forall x y : R, exists d : R, (Rabs d <= u)%R /\ fsub x y = ((x - y) * (1 + d))%R) ->
  (forall x y : R, exists d : R, (Rabs d <= u)%R /\ fmul x y = (x * y * (1 + d))%R) ->
  forall (al : matrix (ARm fadd fsub fmul fdiv)) (index : list nat) (n m1 : nat) (b y : list R) (lf : nat),
  cols al = m1 -> m1 <= n -> length b = n -> (INR m1 * u < 1)%R ->
  (forall k, k < n -> nth k index 0 = k + 1) ->
  for_ 0 n (fwd_step (A := ARm fadd fsub fmul fdiv) n al index) (b, m1) = Ok (y, lf) ->
  length y = n /\
  forall r, r < n ->
    exists (dd : R) (dL : nat -> R),
      (Rabs dd <= gam u (Nat.min r m1))%R /\
      (forall t, t < Nat.min r m1 ->
         (Rabs (dL t) <= gam u (Nat.min r m1)
                         * Rabs (mat_at (A := ARm fadd fsub fmul fdiv) al m1 (r - Nat.min r m1 + t) (r - (r - Nat.min r m1 + t) - 1)))%R) /\
      ((1 + dd) * nth r y 0
       + Rsum (Nat.min r m1)
           (fun t => (mat_at (A := ARm fadd fsub fmul fdiv) al m1 (r - Nat.min r m1 + t) (r - (r - Nat.min r m1 + t) - 1) + dL t)
                     * nth (r - Nat.min r m1 + t) y 0)
       = nth r b 0)%R.
Print Assumptions band_forward_noswap_backward_error.
Example band_forward_noswap_backward_error_nonvacuous :
  (0 <= ux < 1)%R /\
  (forall x y : R, exists d : R, (Rabs d <= ux)%R /\ xsub x y = ((x - y) * (1 + d))%R) /\
  (forall x y : R, exists d : R, (Rabs d <= ux)%R /\ xmul x y = (x * y * (1 + d))%R) /\
  cols exb_al = 1 /\ length exb_b = 3 /\ (INR 1 * ux < 1)%R /\
  (forall k, k < 3 -> nth k exb_index0 0 = k + 1) /\
  (exists y lf, for_ 0 3 (fwd_step (A := AFlx) 3 exb_al exb_index0) (exb_b, 1) = Ok (y, lf)).
Proof.
  split; [exact ux_range|]. split; [exact xsub_ok|]. split; [exact xmul_ok|].
  split; [reflexivity|]. split; [reflexivity|]. split; [exact exb_size1|]. split; [exact exb_index0_ok|exact exb_fwd0].
Qed.

