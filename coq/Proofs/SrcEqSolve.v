(* Proofs/SrcEqSolve.v -- the hand-written model of src/matrix/solve.rs (Model/Solve.v) IS the code: every definition
   s_<f> of gen/SrcSolve.v (regenerated from the Rust source by driver/rust2coq.py on this run) equals its hand-written
   counterpart, for every arithmetic, every shape and every value (no well-formedness hypothesis). *)
From Coq Require Import List Arith ZArith Lia Bool.
From OV Require Import Base.Panic Base.Arith Model.Vector Model.Matrix Model.Solve gen.SrcPrelude gen.SrcSolve Proofs.SrcEqBase.
Import ListNotations.

Section SrcEqSolve.
Context {A : Arith}.
Implicit Types (m : matrix A) (x b : list (T A)) (c k s : nat).

(* the source reads self[(i,col)] twice (once in the test, once in the assignment); the model reads it once *)
Lemma src_max_abs_in_column m c s : s_max_abs_in_column m c s = max_abs_in_column m c s.
Proof. unfold s_max_abs_in_column, max_abs_in_column. src_eq. Qed.

(* the source computes self.rows - n twice (k and the lower bound of the inner loop), both checked *)
Lemma src_backsolve m x : s_backsolve m x = backsolve m x.
Proof. unfold s_backsolve, backsolve. src_eq. Qed.

Lemma src_partial_pivot m x k : s_partial_pivot m x k = partial_pivot m x k.
Proof. reflexivity. Qed.

(* the model threads the pair returned by partial_pivot undestructured (fst s / s) *)
Lemma src_gauss_with_pivot m x : s_gauss_with_pivot m x = gauss_with_pivot m x.
Proof. unfold s_gauss_with_pivot, gauss_with_pivot. src_eq. Qed.

Lemma src_solve_basic m b : s_solve_basic m b = solve_basic m b.
Proof. unfold s_solve_basic, solve_basic. src_eq. Qed.

(* pivots += 1 is `pivots + 1` in the source and `S piv` in the model *)
Lemma src_lu_decomp_in_place m : s_lu_decomp_in_place m = lu_decomp m.
Proof.
  unfold s_lu_decomp_in_place, lu_decomp, lu_gen. src_eq.
  now rewrite Nat.add_1_r.
Qed.

Lemma src_solve_lu m b : s_solve_lu m b = solve_lu m b.
Proof. reflexivity. Qed.

(* `pivots % 2 == 0` in the source, Nat.even in the model *)
Lemma src_determinant m : s_determinant m = determinant m.
Proof.
  unfold s_determinant, determinant, determinant_gen. src_eq.
  now rewrite even_mod2.
Qed.

Lemma src_inverse m : s_inverse m = inverse m.
Proof. reflexivity. Qed.

(* all of them at once: what a Props file pins as  model_is_source_<property>  *)
Definition model_is_source_Solve : Prop :=
  (forall m c s, s_max_abs_in_column m c s = max_abs_in_column m c s) /\
  (forall m x, s_backsolve m x = backsolve m x) /\
  (forall m x k, s_partial_pivot m x k = partial_pivot m x k) /\
  (forall m x, s_gauss_with_pivot m x = gauss_with_pivot m x) /\
  (forall m b, s_solve_basic m b = solve_basic m b) /\
  (forall m, s_lu_decomp_in_place m = lu_decomp m) /\
  (forall m b, s_solve_lu m b = solve_lu m b) /\
  (forall m, s_determinant m = determinant m) /\
  (forall m, s_inverse m = inverse m).
Lemma model_is_source_Solve_lemma : model_is_source_Solve.
Proof. exact (conj src_max_abs_in_column (conj src_backsolve (conj src_partial_pivot (conj src_gauss_with_pivot (conj src_solve_basic (conj src_lu_decomp_in_place (conj src_solve_lu (conj src_determinant src_inverse)))))))). Qed.

End SrcEqSolve.
