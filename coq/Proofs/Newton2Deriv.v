(* Proofs/Newton2Deriv.v -- a small derivative toolkit over the standard library only (package newton2):
   derivable_pt_lim in lambda form for sums, differences, products, constants, the identity and the two
   affine reparametrisations t |-> y + t, t |-> y - t, and a tactic [dpoly] for polynomial functions.
   (Keeps Coquelicot / Interval out of the dependency closure of Props/C17.v and Props/C18.v: coqchk of the
   closure stays in the range of seconds.) *)
From Coq Require Import Reals Lra.
Local Open Scope R_scope.

Lemma dlim_val (p : R -> R) (t l l' : R) : derivable_pt_lim p t l -> l = l' -> derivable_pt_lim p t l'.
Proof. intros H <-. exact H. Qed.

Lemma dlim_const (c x : R) : derivable_pt_lim (fun _ => c) x 0.
Proof. exact (derivable_pt_lim_const c x). Qed.

Lemma dlim_id (x : R) : derivable_pt_lim (fun t => t) x 1.
Proof. exact (derivable_pt_lim_id x). Qed.

Lemma dlim_plus (f g : R -> R) (x l1 l2 : R) :
  derivable_pt_lim f x l1 -> derivable_pt_lim g x l2 -> derivable_pt_lim (fun t => f t + g t) x (l1 + l2).
Proof. exact (derivable_pt_lim_plus f g x l1 l2). Qed.

Lemma dlim_minus (f g : R -> R) (x l1 l2 : R) :
  derivable_pt_lim f x l1 -> derivable_pt_lim g x l2 -> derivable_pt_lim (fun t => f t - g t) x (l1 - l2).
Proof. exact (derivable_pt_lim_minus f g x l1 l2). Qed.

Lemma dlim_mult (f g : R -> R) (x l1 l2 : R) :
  derivable_pt_lim f x l1 -> derivable_pt_lim g x l2 ->
  derivable_pt_lim (fun t => f t * g t) x (l1 * g x + f x * l2).
Proof. exact (derivable_pt_lim_mult f g x l1 l2). Qed.

Lemma dlim_div_const (f : R -> R) (c x l : R) :
  derivable_pt_lim f x l -> derivable_pt_lim (fun t => f t / c) x (l / c).
Proof.
  intros H. unfold Rdiv.
  eapply dlim_val; [exact (dlim_mult f (fun _ => / c) x l 0 H (dlim_const (/ c) x))|cbv beta; ring].
Qed.

(* polynomial (and constant-denominator) functions of t: decompose, then compare the derivative values by ring/field *)
Lemma dlim_opp (f : R -> R) (x l : R) : derivable_pt_lim f x l -> derivable_pt_lim (fun t => - f t) x (- l).
Proof. exact (derivable_pt_lim_opp f x l). Qed.

Ltac dpoly_step :=
  first [ apply dlim_const | apply dlim_id | apply dlim_minus | apply dlim_plus | apply dlim_opp | apply dlim_mult
        | apply dlim_div_const ].
Ltac dpoly := eapply dlim_val; [repeat dpoly_step | cbv beta; try ring; try (field; lra)].

(* derivatives along  t |-> y + t  and  t |-> y - t *)
Lemma shift_plus (p : R -> R) (y t l : R) :
  derivable_pt_lim p (y + t) l -> derivable_pt_lim (fun t => p (y + t)) t l.
Proof.
  intros H.
  assert (D : derivable_pt_lim (fun t => y + t) t 1) by dpoly.
  eapply dlim_val; [exact (derivable_pt_lim_comp (fun t => y + t) p t 1 l D H)|ring].
Qed.

Lemma shift_minus (p : R -> R) (y t l : R) :
  derivable_pt_lim p (y - t) l -> derivable_pt_lim (fun t => p (y - t)) t (- l).
Proof.
  intros H.
  assert (D : derivable_pt_lim (fun t => y - t) t (-1)) by dpoly.
  eapply dlim_val; [exact (derivable_pt_lim_comp (fun t => y - t) p t (-1) l D H)|ring].
Qed.

(* the instances used by the package *)
Lemma poly2_deriv (c0 c1 c2 t : R) :
  derivable_pt_lim (fun t => c0 + c1 * t + c2 * (t * t)) t (c1 + 2 * c2 * t).
Proof. dpoly. Qed.
