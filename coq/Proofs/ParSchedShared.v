(* Proofs/ParSchedShared.v -- what the REFUTED variant of Model/ParSched.v (partial sums added into a shared total in
   completion order: seeded mutation C16-4) computes, exactly:
     shared_result_in_completion_order   every maximal execution returns ((0 + d_s1) + d_s2) + ... where s1, s2, ...
                                         is ITS completion order, a permutation of the workers (any arithmetic);
     shared_exact                        over a (commutative) ring that is the sequential dot whatever the order --
                                         exact arithmetic cannot see the defect;
     shared_two_workers_float            over binary64 with t <= 2 it is bit-identical to pardot for all data
                                         (0 + x = x unless x is -0; x + y = y + x): the defect needs >= 3 workers.
   Together with completion_order_refuted (t = 3, two orders, results 0 and 1) this delimits the defect. *)
From Coq Require Import List Arith Lia Permutation Bool Ring_theory Ring Floats.
From OV Require Import Base.Panic Base.Arith Model.Vector Model.ParDot Model.ParSched
  Proofs.ParDot Proofs.ParSched Proofs.ParSchedOrder.
Import ListNotations.

Section Shared.
Context {A : Arith}.
Notation T := (T A).
Variables (v w : list T) (t : nat).
Hypothesis Ht : 1 <= t.
Hypothesis Hl : length v = length w.

Notation fireS := (fire_shared v w t).
Notation execS := (exec_shared v w t).
Notation terminalS := (terminal_shared v w t).
Notation initS := (shared_init (A := A) t).
Notation part := (part v w t).
Notation wok := (wok v w t).

Fixpoint completions_shared (sch : list tid) (s : @sstate A) : list nat :=
  match sch with
  | [] => []
  | th :: rest =>
      match fireS th s with
      | Some s' =>
          match th with
          | Wk k => match nth_error (s_ws s) k with
                    | Some x => if finishes x then k :: completions_shared rest s' else completions_shared rest s'
                    | None => completions_shared rest s'
                    end
          | Main => completions_shared rest s'
          end
      | None => []
      end
  end.

Definition finl (l : list (@wstate A)) (k : nat) : bool :=
  match nth_error l k with Some x => isfin x | None => false end.

Lemma finl_upd l k x k' : k < length l ->
  finl (upd_list l k x) k' = if k' =? k then isfin x else finl l k'.
Proof. intros H. unfold finl. rewrite nth_error_upd_list by exact H. now destruct (k' =? k). Qed.

Definition InvS (s : @sstate A) : Prop :=
  length (s_ws s) = t /\
  match s_main s with
  | MSpawn i => i <= t /\
      forall k x, nth_error (s_ws s) k = Some x -> (k < i -> wok k x) /\ (i <= k -> x = WIdle)
  | MRet r => r = Ok (s_total s) /\ forall k x, nth_error (s_ws s) k = Some x -> x = WDone (part k)
  | MJoin _ _ => False
  end.

Lemma InvS_init : InvS initS.
Proof.
  split; [apply repeat_length|]. cbn [s_main shared_init]. split; [lia|].
  intros k x H. cbn [s_ws] in H. apply nth_error_repeat_inv in H. split; [lia|auto].
Qed.

Lemma all_done_spec (l : list (@wstate A)) : all_done l = true <-> forall k x, nth_error l k = Some x -> exists r, x = WDone r.
Proof.
  unfold all_done. rewrite forallb_forall. split.
  - intros H k x E. specialize (H x (nth_error_In _ _ E)). destruct x; try discriminate. eauto.
  - intros H x Hin. apply In_nth_error in Hin as [k E]. destruct (H k x E) as [r ->]. reflexivity.
Qed.

Lemma all_done_false (l : list (@wstate A)) : all_done l = false ->
  exists k x, nth_error l k = Some x /\ forall r, x <> WDone r.
Proof.
  induction l as [|h tl IH]; cbn; [discriminate|].
  destruct h as [|a b n acc|r| |]; cbn;
    try (intros _; exists 0; eexists; split; [reflexivity|discriminate]).
  intros H. destruct (IH H) as (k & x & E & N). exists (S k), x. auto.
Qed.

(* one transition: invariant, the shared total, the set of finished workers *)
Lemma InvS_step th s s' : InvS s -> fireS th s = Some s' ->
  InvS s' /\
  match th with
  | Wk k => match nth_error (s_ws s) k with
            | Some x => if finishes x
                        then s_total s' = add (s_total s) (part k) /\
                             finl (s_ws s) k = false /\ finl (s_ws s') k = true /\
                             (forall k', k' <> k -> finl (s_ws s') k' = finl (s_ws s) k')
                        else s_total s' = s_total s /\ forall k', finl (s_ws s') k' = finl (s_ws s) k'
            | None => True
            end
  | Main => s_total s' = s_total s /\ forall k', finl (s_ws s') k' = finl (s_ws s) k'
  end.
Proof.
  intros [HL HM] HF. destruct s as [m l tot]. cbn [s_ws s_main s_total] in *.
  destruct th as [|k]; cbn [fire_shared s_main s_ws s_total] in HF.
  - destruct m as [i|j acc|r]; [|contradiction|discriminate].
    destruct HM as [Hi HW]. destruct (Nat.ltb_spec i t) as [Hlt|Hge].
    + rewrite (job_ok v w t i Ht Hlt Hl) in HF. injection HF as <-. cbn [s_ws s_main s_total].
      assert (Ei : nth_error l i = Some WIdle).
      { destruct (nth_error l i) as [x|] eqn:E; [|apply nth_error_None in E; lia].
        f_equal. apply (HW i x E); lia. }
      split; [|split; [reflexivity|]].
      * split; cbn [s_ws s_main]; [now rewrite upd_list_length|]. split; [lia|].
        intros k x. rewrite nth_error_upd_list by lia.
        destruct (Nat.eqb_spec k i) as [->|Hne].
        -- intros E; injection E as <-. split; [|lia]. intros _. cbn.
           split; [reflexivity|split; [reflexivity|split; [lia|reflexivity]]].
        -- intros E. destruct (HW k x E) as [H1 H2]. split; intros; [apply H1|apply H2]; lia.
      * intros k'. rewrite finl_upd by lia. destruct (Nat.eqb_spec k' i) as [->|]; [|reflexivity].
        unfold finl. now rewrite Ei.
    + destruct (all_done l) eqn:AD; [|discriminate]. injection HF as <-. cbn [s_ws s_main s_total].
      assert (i = t) by lia. subst i.
      split; [|split; [reflexivity|reflexivity]].
      split; cbn [s_ws s_main s_total]; [exact HL|]. split; [reflexivity|].
      intros k x E. destruct (proj1 (all_done_spec l) AD k x E) as [r ->].
      assert (Hk : k < t) by (apply nth_error_lt in E; lia).
      destruct (HW k _ E) as [H1 _]. specialize (H1 Hk). cbn in H1. now subst r.
  - destruct (nth_error l k) as [x|] eqn:Ek; [|discriminate].
    pose proof (nth_error_lt _ _ _ Ek) as Hk.
    destruct (wstep x) as [x'|] eqn:Ex; [|discriminate].
    assert (Hx : wok k x).
    { destruct m as [i|j acc|r]; [|contradiction|].
      - destruct HM as [Hi HW]. destruct (HW k x Ek) as [H1 H2].
        destruct (Nat.lt_ge_cases k i) as [Hlt|Hge]; [auto|]. rewrite (H2 Hge) in Ex. discriminate.
      - destruct HM as [Er HW]. rewrite (HW k x Ek) in Ex. discriminate. }
    destruct (wstep_spec v w t Ht Hl k x x' Hx Ex) as (Hx' & _ & Hnp).
    (* the shape of the step *)
    destruct x as [|a b n acc|r| |]; try discriminate. cbn [finishes]. cbn [wstep] in Ex.
    assert (InvNext : forall tot', InvS (mkS m (upd_list l k x') tot')).
    { intros tot'. split; cbn [s_ws s_main s_total]; [now rewrite upd_list_length|].
      destruct m as [i|j acc0|r]; [|contradiction|].
      - destruct HM as [Hi HW]. split; [exact Hi|]. intros k0 x0. rewrite nth_error_upd_list by lia.
        destruct (Nat.eqb_spec k0 k) as [->|Hne]; [|apply HW].
        intros E; injection E as <-. destruct (HW k _ Ek) as [H1 H2]. split; [auto|].
        intros Hge. discriminate (H2 Hge).
      - destruct HM as [Er HW]. discriminate (HW k _ Ek). }
    destruct (n <? length a) eqn:Hn; cbn [negb].
    + assert (Hnd : forall r, x' <> WDone r).
      { destruct (rd a n); destruct (rd b n); injection Ex as <-; discriminate. }
      assert (HF' : s' = mkS m (upd_list l k x') tot).
      { destruct x' as [|a' b' n' acc'|r| |]; try (injection HF as <-; reflexivity). exfalso. now apply (Hnd r). }
      subst s'. cbn [s_ws s_total]. split; [apply InvNext|]. split; [reflexivity|].
      intros k'. rewrite finl_upd by lia. destruct (Nat.eqb_spec k' k) as [->|]; [|reflexivity].
      unfold finl. rewrite Ek. cbn [isfin].
      destruct x' as [|a' b' n' acc'|r| |]; try reflexivity; [exfalso; now apply (Hnd r)|].
      cbn in Hx'. contradiction.
    + injection Ex as <-. injection HF as <-. cbn [s_ws s_total]. cbn in Hx'. subst acc.
      split; [apply InvNext|]. split; [reflexivity|]. split; [|split].
      * unfold finl. now rewrite Ek.
      * rewrite finl_upd by lia. now rewrite Nat.eqb_refl.
      * intros k' Hne. rewrite finl_upd by lia. now apply Nat.eqb_neq in Hne as ->.
Qed.

Lemma execS_spec sch s s' : InvS s -> execS sch s = Some s' ->
  InvS s' /\
  s_total s' = fold_left (fun acc k => add acc (part k)) (completions_shared sch s) (s_total s) /\
  NoDup (completions_shared sch s) /\
  (forall k, finl (s_ws s) k = true -> finl (s_ws s') k = true) /\
  (forall k, In k (completions_shared sch s) <-> finl (s_ws s) k = false /\ finl (s_ws s') k = true).
Proof.
  revert s; induction sch as [|th rest IH]; intros s HI HE; cbn [exec_shared completions_shared] in *.
  - injection HE as <-. split; [exact HI|split; [reflexivity|split; [constructor|split; [auto|]]]].
    intros k; split; [contradiction|]. intros [H1 H2]. congruence.
  - destruct (fireS th s) as [s1|] eqn:E1; [|discriminate].
    destruct (InvS_step th s s1 HI E1) as [HI1 HF].
    destruct (IH s1 HI1 HE) as (HI' & Tot & ND & Mono & Spec).
    split; [exact HI'|]. destruct th as [|k].
    + destruct HF as [Ht0 Hf]. split; [now rewrite Tot, Ht0|split; [exact ND|split]].
      * intros k H. apply Mono. now rewrite Hf.
      * intros k. rewrite Spec, Hf. tauto.
    + destruct (nth_error (s_ws s) k) as [x|] eqn:Ek.
      * destruct (finishes x).
        -- destruct HF as (Ht0 & F0 & F1 & Fo). split; [|split; [|split]].
           ++ cbn [fold_left]. now rewrite Tot, Ht0.
           ++ constructor; [|exact ND]. intros Hin. apply Spec in Hin as [H _]. congruence.
           ++ intros k' H. apply Mono. destruct (Nat.eq_dec k' k) as [->|Hne]; [exact F1|now rewrite Fo].
           ++ intros k'. cbn [In]. rewrite Spec. destruct (Nat.eq_dec k' k) as [->|Hne].
              ** split; [intros _|auto]. split; [exact F0|now apply Mono].
              ** rewrite (Fo k' Hne). split; [intros [H|H]; [congruence|exact H]|auto].
        -- destruct HF as [Ht0 Hf]. split; [now rewrite Tot, Ht0|split; [exact ND|split]].
           ++ intros k' H. apply Mono. now rewrite Hf.
           ++ intros k'. rewrite Spec, Hf. tauto.
      * cbn [fire_shared] in E1. rewrite Ek in E1. discriminate.
Qed.

(* a state in which nobody can move has returned *)
Lemma terminalS_final s : InvS s -> terminalS s -> exists r, s_main s = MRet r.
Proof.
  intros [HL HM] HT. destruct s as [m l tot]. cbn [s_ws s_main s_total] in *.
  destruct m as [i|j acc|r]; [|contradiction|eauto]. exfalso. destruct HM as [Hi HW].
  pose proof (HT Main) as HMn. cbn [fire_shared s_main s_ws s_total] in HMn.
  destruct (Nat.ltb_spec i t) as [Hlt|Hge].
  - rewrite (job_ok v w t i Ht Hlt Hl) in HMn. discriminate.
  - destruct (all_done l) eqn:AD; [discriminate|].
    destruct (all_done_false l AD) as (k & x & Ek & Nd).
    assert (Hk : k < i) by (apply nth_error_lt in Ek; lia).
    destruct (HW k x Ek) as [H1 _]. specialize (H1 Hk).
    destruct (wstep_enabled v w t k x H1) as [[x' Ex]| ->]; [|now apply (Nd (part k))].
    pose proof (HT (Wk k)) as HWk. cbn [fire_shared s_ws] in HWk. rewrite Ek, Ex in HWk.
    destruct x' as [|a' b' n' acc'|r| |]; discriminate.
Qed.

Lemma shared_result_exec sch s : execS sch initS = Some s -> terminalS s ->
  Permutation (completions_shared sch initS) (seq 0 t) /\
  s_main s = MRet (Ok (fold_left (fun acc k => add acc (part k)) (completions_shared sch initS) zero)).
Proof.
  intros HE HT. destruct (execS_spec sch initS s InvS_init HE) as (HI & Tot & ND & _ & Spec).
  destruct (terminalS_final s HI HT) as [r Er]. destruct HI as [HL HM]. rewrite Er in HM.
  destruct HM as [-> HW]. cbn [s_total shared_init] in Tot. split.
  - apply NoDup_Permutation; [exact ND|apply seq_NoDup|].
    intros k. rewrite Spec, in_seq. split.
    + intros [_ H]. unfold finl in H. destruct (nth_error (s_ws s) k) eqn:E; [|discriminate].
      apply nth_error_lt in E. lia.
    + intros [_ Hk]. split.
      * unfold finl; cbn [s_ws shared_init]. destruct (nth_error (repeat WIdle t) k) as [x|] eqn:E; [|reflexivity].
        now rewrite (nth_error_repeat_inv _ _ _ _ E).
      * unfold finl. destruct (nth_error (s_ws s) k) as [x|] eqn:E.
        -- now rewrite (HW k x E).
        -- apply nth_error_None in E. lia.
  - now rewrite Er, Tot.
Qed.

End Shared.

(* ---- over a ring the order does not matter ---- *)
Section SharedRing.
Context {A : Arith}.
Hypothesis RL : RingLaws A.
Notation T := (T A).
Add Ring ARingS : (rl_ring A RL).

Lemma fold_add_perm (f : nat -> T) l l' : Permutation l l' -> forall z,
  fold_left (fun acc k => add acc (f k)) l z = fold_left (fun acc k => add acc (f k)) l' z.
Proof.
  induction 1 as [|x l l' HP IH|x y l|l l' l'' HP1 IH1 HP2 IH2]; intros z; cbn [fold_left]; auto.
  - f_equal. ring.
  - now rewrite IH1.
Qed.

Lemma shared_exact_exec (v w : list T) t sch s : 1 <= t -> length v = length w ->
  exec_shared v w t sch (shared_init t) = Some s -> terminal_shared v w t s ->
  s_main s = MRet (dot v w).
Proof.
  intros Ht Hl HE HT. destruct (shared_result_exec v w t Ht Hl sch s HE HT) as [HP ->].
  rewrite (fold_add_perm (part v w t) _ _ HP). fold (psum v w t t).
  now rewrite <- (pardot_psum v w t Ht Hl), (pardot_exact_lemma RL t v w Ht Hl).
Qed.

End SharedRing.

(* ---- binary64: with at most two workers the completion order cannot be seen ---- *)
From OV Require Import Inst.FloatInst Proofs.ComplexFloat Proofs.ParSchedWorkers.

Lemma shared_two_workers_float_exec (v w : list AF) t sch s : 1 <= t -> t <= 2 -> length v = length w ->
  exec_shared (A := AF) v w t sch (shared_init t) = Some s -> terminal_shared v w t s ->
  s_main s = MRet (pardot (A := AF) t v w).
Proof.
  intros Ht Ht2 Hl HE HT. destruct (shared_result_exec v w t Ht Hl sch s HE HT) as [HP ->].
  rewrite (pardot_psum v w t Ht Hl). f_equal. f_equal. unfold psum.
  assert (Hc : t = 1 \/ t = 2) by lia. destruct Hc as [-> | ->]; cbn [seq] in *.
  - apply Permutation_sym, Permutation_length_1_inv in HP. now rewrite HP.
  - apply Permutation_sym, Permutation_length_2_inv in HP. destruct HP as [-> | ->]; [reflexivity|].
    cbn [fold_left]. unfold part.
    change (@add AF) with PrimFloat.add. change (@zero AF) with 0%float.
    rewrite !fadd_zero_l by apply dot_raw_not_negzero. apply float_add_comm.
Qed.

From OV Require Import Proofs.ParSchedRefuted.
Lemma cx_shared_execution :
  1 <= 3 /\ length cx_v = length cx_w /\
  (exists s, exec_shared cx_v cx_w 3 cx_sch2 (shared_init 3) = Some s /\ terminal_shared cx_v cx_w 3 s) /\
  completions_shared cx_v cx_w 3 cx_sch2 (shared_init 3) = [0; 2; 1].
Proof.
  split; [auto with arith|]. split; [reflexivity|]. split; [|vm_compute; reflexivity].
  destruct (exec_shared cx_v cx_w 3 cx_sch2 (shared_init 3)) as [s|] eqn:E; [|vm_compute in E; discriminate].
  exists s. split; [reflexivity|]. vm_compute in E. injection E as <-.
  eapply shared_terminal_3; reflexivity.
Qed.
