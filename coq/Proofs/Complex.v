(* Proofs/Complex.v -- lemmas about Model/Complex.v (C13): Complex F is the ring / field F[i],
   the operator variants agree, the lexicographic ordering is a strict total order. *)
From Coq Require Import List Arith Bool Ring Ring_theory Field Field_theory Setoid.
From OV Require Import Base.Panic Base.Arith Model.Complex.
Import ListNotations.
Local Open Scope arith_scope.

Lemma cplx_ext {A : Arith} (z w : cplx A) : re z = re w -> im z = im w -> z = w.
Proof. destruct z, w; cbn; intros -> ->; reflexivity. Qed.

Lemma cplx_eta {A : Arith} (z : cplx A) : mkC (re z) (im z) = z.
Proof. destruct z; reflexivity. Qed.

Definition exactly_one (P Q R : Prop) : Prop :=
  (P /\ ~ Q /\ ~ R) \/ (~ P /\ Q /\ ~ R) \/ (~ P /\ ~ Q /\ R).

(* ------------------------------------------------------------------------------------------- *)
(* 1. statements that hold for ANY arithmetic (no law at all: floats included)                   *)
Section AnyArith.
Context {A : Arith}.
Implicit Types z w : cplx A.

(* seven of the eight compound assignments are syntactically their binary forms *)
Lemma assign_eq_binary_any_arith_lemma z w (r : A) :
  cdiv_assign z w = cdiv z w /\ cadd_assign z w = cadd z w /\ csub_assign z w = csub z w /\
  cadd_assign_r z r = cadd_r z r /\ csub_assign_r z r = csub_r z r /\
  cmul_assign_r z r = cmul_r z r /\ cdiv_assign_r z r = cdiv_r z r.
Proof. repeat split; reflexivity. Qed.

(* the eighth needs commutativity of + and nothing else: the assignment form computes b*c + a*d *)
Lemma cmul_assign_eq_lemma (add_comm : forall x y : A, x + y = y + x) z w : cmul_assign z w = cmul z w.
Proof. unfold cmul_assign, cmul. f_equal. apply add_comm. Qed.

Lemma assign_eq_binary_lemma (add_comm : forall x y : A, x + y = y + x) z w (r : A) :
  cmul_assign z w = cmul z w /\ cdiv_assign z w = cdiv z w /\ cadd_assign z w = cadd z w /\
  csub_assign z w = csub z w /\ cadd_assign_r z r = cadd_r z r /\ csub_assign_r z r = csub_r z r /\
  cmul_assign_r z r = cmul_r z r /\ cdiv_assign_r z r = cdiv_r z r.
Proof. split; [apply cmul_assign_eq_lemma, add_comm | repeat split; reflexivity]. Qed.

Lemma rmul_c_eq_lemma (r : A) z : rmul_c r z = cmul_r z r.
Proof. reflexivity. Qed.

Lemma cclone_id_lemma z : cclone z = z.
Proof. apply cplx_eta. Qed.

Lemma cneb_negb_lemma z w : cneb z w = negb (ceqb z w).
Proof. reflexivity. Qed.

End AnyArith.

(* ------------------------------------------------------------------------------------------- *)
(* 2. over a commutative ring                                                                    *)
Section OverRing.
Context {A : Arith}.
Hypothesis Rth : ring_theory (@zero A) one add mul sub neg eq.
Add Ring Aring : Rth.
Implicit Types z w v : cplx A.

Ltac cring := intros; apply cplx_ext; cbn; ring.

Lemma complex_ring_lemma : ring_theory (@czero A) cone cadd cmul csub cneg eq.
Proof. constructor; cring. Qed.

Lemma add_comm_of_ring (x y : A) : x + y = y + x.
Proof. ring. Qed.

(* zero and one are identities, on either side (also contained in complex_ring) *)
Lemma identities_lemma z :
  cadd z czero = z /\ cadd czero z = z /\ csub z czero = z /\ cmul z cone = z /\ cmul cone z = z /\
  cadd_r z zero = z /\ csub_r z zero = z /\ cmul_r z one = z /\ rmul_c one z = z.
Proof. repeat split; cring. Qed.

Lemma conj_abs_sqr_laws_lemma z w :
  conj (conj z) = z /\
  conj (cadd z w) = cadd (conj z) (conj w) /\
  conj (csub z w) = csub (conj z) (conj w) /\
  conj (cmul z w) = cmul (conj z) (conj w) /\
  conj (cneg z) = cneg (conj z) /\
  cmul z (conj z) = cof_r (abs_sqr z) /\
  abs_sqr (cmul z w) = abs_sqr z * abs_sqr w /\
  abs_sqr (conj z) = abs_sqr z /\
  abs_sqr (cneg z) = abs_sqr z /\
  cadd z (conj z) = cof_r (re z + re z).
Proof.
  repeat split; try (apply cplx_ext; unfold abs_sqr; cbn; ring); unfold abs_sqr; cbn; ring.
Qed.

(* mixed complex/real forms are the complex operations with (r, 0) *)
Lemma mixed_real_forms_lemma z (r : A) :
  cadd_r z r = cadd z (cof_r r) /\ csub_r z r = csub z (cof_r r) /\
  cmul_r z r = cmul z (cof_r r) /\ rmul_c r z = cmul (cof_r r) z.
Proof. repeat split; cring. Qed.

(* the mutation of DESIGN Appendix D (mul_assign reading the overwritten real part) is NOT the product:
   it differs from it by  (re - a) * d  in the imaginary part *)
Lemma cmul_assign_stale_defect z w :
  im (cmul_assign_stale z w) = im (cmul z w) + (re (cmul z w) - re z) * im w.
Proof. cbn. ring. Qed.

End OverRing.

(* ------------------------------------------------------------------------------------------- *)
(* 3. over a field                                                                               *)
Section OverField.
Context {A : Arith}.
Variable F : FieldLaws A.
Notation inv := (fl_inv A F).
Notation Fth := (fl_field A F).
Add Field Afield : (fl_field A F).
Implicit Types z w v : cplx A.

Lemma eqb_true_iff (x y : A) : eqb x y = true <-> x = y.
Proof. apply (fl_eqb A F). Qed.

Lemma eqb_false_iff (x y : A) : eqb x y = false <-> x <> y.
Proof.
  destruct (eqb x y) eqn:E.
  - apply eqb_true_iff in E. split; [discriminate | congruence].
  - split; [intros _ H; apply eqb_true_iff in H; congruence | reflexivity].
Qed.

Lemma div_nonzero (x y : A) : y <> zero -> div x y = Ok (x * inv y).
Proof. intros H. rewrite (fl_div A F). apply eqb_false_iff in H. now rewrite H. Qed.

Lemma div_zero (x : A) : div x zero = Panic DivZero.
Proof. rewrite (fl_div A F). now rewrite (proj2 (eqb_true_iff zero zero) eq_refl). Qed.

Lemma mul_nonzero (x y : A) : x <> zero -> y <> zero -> x * y <> zero.
Proof.
  intros Hx Hy H. apply Hx.
  assert (E : x = (x * y) * inv y) by (field; exact Hy).
  rewrite E, H. ring.
Qed.

(* z / w = z * conj w / |w|^2, computed exactly when |w|^2 <> 0 *)
Lemma cdiv_formula_lemma z w : abs_sqr w <> zero ->
  cdiv z w = Ok (cmul_r (cmul z (conj w)) (inv (abs_sqr w))).
Proof.
  intros H. unfold cdiv. fold (abs_sqr w).
  rewrite !div_nonzero by exact H. cbn. f_equal. apply cplx_ext; cbn.
  - f_equal. ring.
  - f_equal. ring.
Qed.

Lemma cdiv_cancel_lemma z w : abs_sqr w <> zero ->
  exists q, cdiv z w = Ok q /\ cmul q w = z /\ cmul w q = z.
Proof.
  intros H. eexists. split; [apply cdiv_formula_lemma, H|].
  unfold abs_sqr in *. split; apply cplx_ext; cbn; field; exact H.
Qed.

(* division refuses (panics) exactly when |w|^2 = 0 *)
Lemma cdiv_panics_iff_lemma z w : cdiv z w = Panic DivZero <-> abs_sqr w = zero.
Proof.
  split.
  - intros H. destruct (eqb (abs_sqr w) zero) eqn:E; [now apply eqb_true_iff|].
    apply eqb_false_iff in E. rewrite (cdiv_formula_lemma z w E) in H. discriminate.
  - intros H. unfold cdiv. fold (abs_sqr w). rewrite H, div_zero. reflexivity.
Qed.

(* uniqueness: the quotient is the only solution of q * w = z *)
Lemma cdiv_unique_lemma z w q : abs_sqr w <> zero -> cmul q w = z -> cdiv z w = Ok q.
Proof.
  intros H E. rewrite (cdiv_formula_lemma z w H). f_equal. subst z.
  unfold abs_sqr in *. apply cplx_ext; cbn; field; exact H.
Qed.

Lemma cdiv_one_lemma z : cdiv z cone = Ok z /\ cdiv_r z one = Ok z.
Proof.
  assert (H1 : (one : A) <> zero) by (apply (F_1_neq_0 Fth)).
  split.
  - apply cdiv_unique_lemma.
    + unfold abs_sqr; cbn. intros E. apply H1. rewrite <- E. ring.
    + apply cplx_ext; cbn; ring.
  - unfold cdiv_r. rewrite !div_nonzero by exact H1. cbn. f_equal. apply cplx_ext; cbn; field; exact H1.
Qed.

(* z / r (real scalar) is z / (r, 0), the refusal included *)
Lemma cdiv_r_lemma z (r : A) : cdiv_r z r = cdiv z (cof_r r).
Proof.
  destruct (eqb r zero) eqn:E.
  - apply eqb_true_iff in E. subst r.
    assert (H0 : abs_sqr (cof_r (zero : A)) = zero) by (unfold abs_sqr; cbn; ring).
    rewrite (proj2 (cdiv_panics_iff_lemma z _) H0).
    unfold cdiv_r. now rewrite div_zero.
  - apply eqb_false_iff in E.
    assert (H : abs_sqr (cof_r r) <> zero).
    { unfold abs_sqr; cbn. intros H. apply (mul_nonzero r r E E). rewrite <- H. ring. }
    rewrite (cdiv_formula_lemma z _ H). unfold cdiv_r. rewrite !div_nonzero by exact E. cbn.
    unfold abs_sqr in *; cbn in *. f_equal. apply cplx_ext; cbn; field; auto.
Qed.

End OverField.

(* ------------------------------------------------------------------------------------------- *)
(* 4. the ordering, for a strict total order on the components                                   *)
Record OrderLaws (A : Arith) : Prop := {
  ol_eqb : forall x y : A, eqb x y = true <-> x = y;
  ol_irrefl : forall x : A, ltb x x = false;
  ol_trans : forall x y z : A, ltb x y = true -> ltb y z = true -> ltb x z = true;
  ol_total : forall x y : A, ltb x y = true \/ x = y \/ ltb y x = true;
  ol_leb : forall x y : A, leb x y = ltb x y || eqb x y;
}.

Section Ordering.
Context {A : Arith}.
Hypothesis O : OrderLaws A.
Implicit Types z w v : cplx A.

Lemma o_eqb_refl (x : A) : eqb x x = true.
Proof. now apply (ol_eqb A O). Qed.

Lemma o_eqb_false (x y : A) : eqb x y = false <-> x <> y.
Proof.
  destruct (eqb x y) eqn:E.
  - apply (ol_eqb A O) in E. split; [discriminate | congruence].
  - split; [intros _ H; apply (ol_eqb A O) in H; congruence | reflexivity].
Qed.

Lemma o_asym (x y : A) : ltb x y = true -> ltb y x = false.
Proof.
  intros H. destruct (ltb y x) eqn:E; [|reflexivity].
  pose proof (ol_trans A O x y x H E) as C. rewrite (ol_irrefl A O) in C. discriminate.
Qed.

Lemma o_lt_neq (x y : A) : ltb x y = true -> eqb x y = false.
Proof.
  intros H. apply o_eqb_false. intros ->. rewrite (ol_irrefl A O) in H. discriminate.
Qed.

Lemma ceqb_iff_lemma z w : ceqb z w = true <-> z = w.
Proof.
  unfold ceqb. rewrite andb_true_iff, !(ol_eqb A O). split.
  - intros [H1 H2]. now apply cplx_ext.
  - now intros ->.
Qed.

(* the scalar partial_cmp never answers None and decides the three cases *)
Lemma acmp_spec (x y : A) :
  (acmp x y = Some Lt /\ ltb x y = true) \/ (acmp x y = Some Eq /\ x = y) \/ (acmp x y = Some Gt /\ ltb y x = true).
Proof.
  unfold acmp. destruct (eqb x y) eqn:E.
  - right; left. split; [reflexivity | now apply (ol_eqb A O)].
  - destruct (ltb x y) eqn:L; [now left|].
    destruct (ol_total A O x y) as [H|[H|H]].
    + congruence.
    + apply o_eqb_false in E. contradiction.
    + rewrite H. right; right. now split.
Qed.

Lemma cltb_unfold z w :
  cltb z w = true <-> (ltb (re z) (re w) = true \/ (re z = re w /\ ltb (im z) (im w) = true)).
Proof.
  unfold cltb. destruct (eqb (re z) (re w)) eqn:E; cbn.
  - apply (ol_eqb A O) in E. split.
    + intros H. right. now split.
    + intros [H|[_ H]]; [|exact H]. rewrite E, (ol_irrefl A O) in H. discriminate.
  - split.
    + intros H. now left.
    + intros [H|[H _]]; [exact H|]. apply o_eqb_false in E. contradiction.
Qed.

Lemma cltb_irrefl_lemma z : cltb z z = false.
Proof.
  destruct (cltb z z) eqn:E; [|reflexivity].
  apply cltb_unfold in E. destruct E as [H|[_ H]]; rewrite (ol_irrefl A O) in H; discriminate.
Qed.

Lemma cltb_trans_lemma z w v : cltb z w = true -> cltb w v = true -> cltb z v = true.
Proof.
  rewrite !cltb_unfold. intros [H1|[E1 H1]] [H2|[E2 H2]].
  - left. eapply (ol_trans A O); eauto.
  - left. now rewrite <- E2.
  - left. now rewrite E1.
  - right. split; [congruence | eapply (ol_trans A O); eauto].
Qed.

Lemma cltb_total_lemma z w : cltb z w = true \/ z = w \/ cltb w z = true.
Proof.
  rewrite !cltb_unfold.
  destruct (ol_total A O (re z) (re w)) as [H|[H|H]]; [now left; left | | now right; right; left].
  destruct (ol_total A O (im z) (im w)) as [K|[K|K]].
  - left. right. now split.
  - right; left. now apply cplx_ext.
  - right; right. right. now split.
Qed.

Lemma cltb_asym_lemma z w : cltb z w = true -> cltb w z = false.
Proof.
  intros H. destruct (cltb w z) eqn:E; [|reflexivity].
  pose proof (cltb_trans_lemma z w z H E) as C. rewrite cltb_irrefl_lemma in C. discriminate.
Qed.

Lemma cmp_total_lemma z w : exactly_one (cltb z w = true) (z = w) (cltb w z = true).
Proof.
  unfold exactly_one. destruct (cltb_total_lemma z w) as [H|[H|H]].
  - left. split; [exact H|]. split.
    + intros ->. rewrite cltb_irrefl_lemma in H. discriminate.
    + rewrite (cltb_asym_lemma z w H). discriminate.
  - right; left. subst w. rewrite cltb_irrefl_lemma. repeat split; discriminate.
  - right; right. split; [|split; [|exact H]].
    + rewrite (cltb_asym_lemma w z H). discriminate.
    + intros ->. rewrite cltb_irrefl_lemma in H. discriminate.
Qed.

(* partial_cmp is total here and agrees with <, =, > *)
Lemma ccmp_spec_lemma z w :
  (ccmp z w = Some Lt <-> cltb z w = true) /\
  (ccmp z w = Some Eq <-> z = w) /\
  (ccmp z w = Some Gt <-> cltb w z = true) /\
  ccmp z w <> None.
Proof.
  assert (K : (ccmp z w = Some Lt /\ cltb z w = true) \/ (ccmp z w = Some Eq /\ z = w) \/ (ccmp z w = Some Gt /\ cltb w z = true)).
  { unfold ccmp. destruct (eqb (re z) (re w)) eqn:E; cbn.
    - apply (ol_eqb A O) in E.
      destruct (acmp_spec (im z) (im w)) as [[H1 H2]|[[H1 H2]|[H1 H2]]].
      + left. split; [exact H1|]. apply cltb_unfold. right. now split.
      + right; left. split; [exact H1|]. now apply cplx_ext.
      + right; right. split; [exact H1|]. apply cltb_unfold. right. now split.
    - destruct (acmp_spec (re z) (re w)) as [[H1 H2]|[[H1 H2]|[H1 H2]]].
      + left. split; [exact H1|]. apply cltb_unfold. now left.
      + apply o_eqb_false in E. contradiction.
      + right; right. split; [exact H1|]. apply cltb_unfold. now left. }
  pose proof (cmp_total_lemma z w) as X. unfold exactly_one in X.
  destruct K as [[K1 K2]|[[K1 K2]|[K1 K2]]]; rewrite K1;
    (repeat split; try discriminate; try tauto; try congruence; intros; exfalso; tauto).
Qed.

Lemma ccmp_equal_iff_eq_lemma z w : ccmp z w = Some Eq <-> ceqb z w = true.
Proof. rewrite ceqb_iff_lemma. apply ccmp_spec_lemma. Qed.

Lemma cmp_equal_iff_eq_lemma z w :
  (ccmp z w = Some Eq <-> ceqb z w = true) /\ (ceqb z w = true <-> z = w) /\
  (ccmp z w = Some Lt <-> cltb z w = true) /\ (ccmp z w = Some Gt <-> cltb w z = true) /\ ccmp z w <> None.
Proof.
  destruct (ccmp_spec_lemma z w) as (L & E & G & N).
  split; [apply ccmp_equal_iff_eq_lemma|]. split; [apply ceqb_iff_lemma|]. tauto.
Qed.

(* the operators <, <=, >, >= that Rust derives from partial_cmp are the direct renderings used by CArith *)
Lemma derived_ops_lemma z w :
  clt_pc z w = cltb z w /\ cle_pc z w = cleb z w /\ cgt_pc z w = cltb w z /\ cge_pc z w = cleb w z /\
  cleb z w = cltb z w || ceqb z w.
Proof.
  destruct (ccmp_spec_lemma z w) as (L & E & G & N).
  assert (Hle : forall a b : cplx A, cleb a b = cltb a b || ceqb a b).
  { intros a b. unfold cleb, cltb, ceqb. rewrite !(ol_leb A O).
    destruct (eqb (re a) (re b)) eqn:E1; cbn.
    - reflexivity.
    - now rewrite orb_false_r. }
  assert (Hsym : ceqb w z = ceqb z w).
  { destruct (ceqb z w) eqn:E1.
    - apply ceqb_iff_lemma in E1. subst. now apply ceqb_iff_lemma.
    - destruct (ceqb w z) eqn:E2; [|reflexivity]. apply ceqb_iff_lemma in E2. subst.
      rewrite (proj2 (ceqb_iff_lemma z z) eq_refl) in E1. discriminate. }
  rewrite !Hle, Hsym. unfold clt_pc, cle_pc, cgt_pc, cge_pc.
  destruct (cmp_total_lemma z w) as [(H1 & H2 & H3)|[(H1 & H2 & H3)|(H1 & H2 & H3)]].
  - rewrite (proj2 L H1), H1. apply not_true_is_false in H3. rewrite H3.
    assert (ceqb z w = false) by (apply not_true_is_false; rewrite ceqb_iff_lemma; exact H2).
    rewrite H. repeat split; reflexivity.
  - rewrite (proj2 E H2). apply not_true_is_false in H1, H3. rewrite H1, H3.
    rewrite (proj2 (ceqb_iff_lemma z w) H2). repeat split; reflexivity.
  - rewrite (proj2 G H3), H3. apply not_true_is_false in H1. rewrite H1.
    assert (ceqb z w = false) by (apply not_true_is_false; rewrite ceqb_iff_lemma; exact H2).
    rewrite H. repeat split; reflexivity.
Qed.

End Ordering.
