(* Proofs/Complex.v -- stub, to be filled in *)
