(* Proofs/RoundSolveLU.v -- the backward error of the dense solver [solve_lu] of Model/Solve.v as a whole, in the STANDARD
   MODEL of floating-point arithmetic (the same Gallina solve_lu at [ARm]):

     solve_lu_backward_error_lemma   (Higham, Accuracy and Stability of Numerical Algorithms, Theorem 9.4):
        whenever solve_lu m b = Ok x^ with nonzero computed pivots,
            (A + dA) x^ = b + db     row by row (rows listed through the computed permutation tau),
            |dA| <= (3 gam n + gam n ^2) P^T |L^| |U^|  ( <= gam (3n) |L^||U^| ),      |db| <= gam n |b| ,
        L^, U^ the computed factors, for every size n with n u < 1.

   It combines the factorisation error (Proofs/RoundLUError.v, Thm 9.3) with the two triangular solves
   (Proofs/RoundBacksolve.v, Thm 8.5) and the rounding of P b (in IEEE arithmetic P b is exact; the pure standard
   model charges it gam n).  The bound is in terms of |L^||U^|: comparing that with |A| is where the growth factor of
   Gaussian elimination with partial pivoting enters, and is NOT done here. *)
From Coq Require Import List Arith Lia Bool Reals Lra Psatz.
From OV Require Import Base.Panic Base.Arith Base.RoundModel Model.Vector Model.Matrix Model.Solve
  Proofs.Matrix Proofs.LUPrim Proofs.RoundDot Proofs.RoundMatvec Proofs.RoundBacksolve Proofs.RoundSolve
  Proofs.RoundLUFun Proofs.RoundLUTrace Proofs.RoundLUError.
Import ListNotations.
Local Open Scope R_scope.

Lemma Rsum_swap n m (g : nat -> nat -> R) :
  Rsum n (fun k => Rsum m (fun c => g k c)) = Rsum m (fun c => Rsum n (fun k => g k c)).
Proof.
  induction n as [|n IH]; cbn [Rsum].
  - symmetry. apply Rsum_zero. reflexivity.
  - rewrite IH, <- Rsum_plus. reflexivity.
Qed.

Lemma Rsum_pick c p v : (p < c)%nat -> Rsum c (fun j => if (p =? j)%nat then v else 0) = v.
Proof.
  induction c as [|c IH]; intros Hp; [lia|].
  cbn [Rsum]. destruct (Nat.eqb_spec p c) as [->|Ne].
  - rewrite Rsum_zero; [ring|]. intros k Hk. destruct (Nat.eqb_spec c k); [lia|reflexivity].
  - rewrite IH by lia. ring.
Qed.

(* one term of  (L + dL)(U + dU) - L U (1 + th) *)
Lemma lu_term_bound (L U dL dU th g : R) :
  0 <= g -> Rabs th <= g -> Rabs dL <= g * Rabs L -> Rabs dU <= g * Rabs U ->
  Rabs ((L + dL) * (U + dU) - L * U * (1 + th)) <= (3 * g + g * g) * (Rabs L * Rabs U).
Proof.
  intros Hg Ht HL HU.
  replace ((L + dL) * (U + dU) - L * U * (1 + th)) with (- (L * U * th) + dL * U + L * dU + dL * dU) by ring.
  eapply Rle_trans; [apply Rabs_triang|]. eapply Rle_trans; [apply Rplus_le_compat_r, Rabs_triang|].
  eapply Rle_trans; [apply Rplus_le_compat_r, Rplus_le_compat_r, Rabs_triang|].
  rewrite Rabs_Ropp, !Rabs_mult.
  pose proof (Rabs_pos L). pose proof (Rabs_pos U). pose proof (Rabs_pos th).
  pose proof (Rabs_pos dL). pose proof (Rabs_pos dU).
  assert (PLU : 0 <= Rabs L * Rabs U) by (apply Rmult_le_pos; assumption).
  assert (Rabs L * Rabs U * Rabs th <= g * (Rabs L * Rabs U)).
  { rewrite (Rmult_comm g). apply Rmult_le_compat_l; assumption. }
  assert (Rabs dL * Rabs U <= g * (Rabs L * Rabs U)).
  { rewrite <- Rmult_assoc. apply Rmult_le_compat_r; assumption. }
  assert (Rabs L * Rabs dU <= g * (Rabs L * Rabs U)).
  { replace (g * (Rabs L * Rabs U)) with (Rabs L * (g * Rabs U)) by ring. apply Rmult_le_compat_l; assumption. }
  assert (Rabs dL * Rabs dU <= g * g * (Rabs L * Rabs U)).
  { apply Rle_trans with ((g * Rabs L) * (g * Rabs U)); [|right; ring].
    apply Rmult_le_compat; assumption. }
  lra.
Qed.

Section SolveLU.
Variable u : R.
Hypothesis u_range : 0 <= u < 1.
Variables fadd fsub fmul fdiv : R -> R -> R.
Hypothesis fadd_ok : forall x y, exists d, Rabs d <= u /\ fadd x y = (x + y) * (1 + d).
Hypothesis fsub_ok : forall x y, exists d, Rabs d <= u /\ fsub x y = (x - y) * (1 + d).
Hypothesis fmul_ok : forall x y, exists d, Rabs d <= u /\ fmul x y = x * y * (1 + d).
Hypothesis fdiv_ok : forall x y, y <> 0 -> exists d, Rabs d <= u /\ fdiv x y = x / y * (1 + d).
Hypothesis fadd_0_mul : forall a b, fadd 0 (fmul a b) = fmul a b.

Notation AR := (ARm fadd fsub fmul fdiv).
Notation gam := (gam u).
Notation rentry := (rentry fadd fsub fmul fdiv).
Notation triu := (triu fadd fsub fmul fdiv).
Notation tril1 := (tril1 fadd fsub fmul fdiv).

Theorem solve_lu_backward_error_lemma (m lu perm : matrix AR) (piv : nat) (b x : list R) :
  wf m -> INR (rows m) * u < 1 ->
  lu_decomp m = Ok (lu, piv, perm) ->
  (forall k, (k < rows m)%nat -> rentry lu k k <> 0) ->
  solve_lu m b = Ok x ->
  length x = rows m /\
  exists tau : nat -> nat,
    (forall r, (r < rows m)%nat -> (tau r < rows m)%nat) /\
    (forall r r', (r < rows m)%nat -> (r' < rows m)%nat -> tau r = tau r' -> r = r') /\
    exists (dA : nat -> nat -> R) (db : nat -> R),
      (forall i c, (i < rows m)%nat -> (c < rows m)%nat ->
         Rabs (dA i c) <= (3 * gam (rows m) + gam (rows m) * gam (rows m))
                          * Rsum (rows m) (fun k => Rabs (tril1 lu i k) * Rabs (triu lu k c))) /\
      (forall i, (i < rows m)%nat -> Rabs (db i) <= gam (rows m) * Rabs (nth (tau i) b 0)) /\
      (forall i, (i < rows m)%nat ->
         Rsum (rows m) (fun c => (rentry m (tau i) c + dA i c) * nth c x 0) = nth (tau i) b 0 + db i).
Proof using u_range fadd_ok fsub_ok fmul_ok fdiv_ok fadd_0_mul.
  intros W Hn ELU Dg E. set (n := rows m) in *.
  destruct (solve_lu_triangular_backward_error_lemma u u_range fadd fsub fmul fdiv fsub_ok fmul_ok fdiv_ok
              m lu perm piv b x W Hn ELU Dg E)
    as (Lx & pb & y & dL & dU & Epb & Ly & HdL & HdU & RowsL & RowsU).
  fold n in Lx, Ly, HdL, HdU, RowsL, RowsU.
  destruct (lu_factor_backward_error_lemma u u_range fadd fsub fmul fdiv fsub_ok fmul_ok fdiv_ok m lu perm piv
              W Hn ELU Dg) as (SL & SP & tau & (T1 & T2 & T3) & Hfac).
  fold n in SL, SP, T1, T2, T3, Hfac.
  split; [exact Lx|]. exists tau. split; [exact T1|]. split; [exact T2|].
  destruct SP as (WP & RP & CP).
  destruct (matvec_backward_error_lemma u u_range fadd fsub fmul fdiv fadd_ok fmul_ok fadd_0_mul perm b pb WP
              ltac:(rewrite CP; exact Hn) Epb) as (Lpb & dP & HdP & RowsP).
  rewrite RP in Lpb, HdP, RowsP. rewrite CP in HdP, RowsP.
  assert (Hg : 0 <= gam n) by now apply (gam_nonneg u u_range).
  (* the permuted right-hand side: pb_i = b_{tau i} (1 + dP_{i, tau i}) *)
  assert (Epbi : forall i, (i < n)%nat -> nth i pb 0 = (1 + dP i (tau i)) * nth (tau i) b 0).
  { intros i Hi. rewrite (RowsP i Hi).
    rewrite (Rsum_ext n _ (fun c => if (tau i =? c)%nat then (1 + dP i (tau i)) * nth (tau i) b 0 else 0)).
    - apply Rsum_pick. now apply T1.
    - intros c Hc. change (RoundMatvec.rentry fadd fsub fmul fdiv perm i c) with (ent (A := AR) perm i c).
      rewrite (T3 i c Hi Hc). rewrite (Nat.eqb_sym c (tau i)).
      destruct (Nat.eqb_spec (tau i) c) as [<-|Ne]; [reflexivity|].
      assert (Z : dP i c = 0).
      { specialize (HdP i c Hi Hc).
        change (RoundMatvec.rentry fadd fsub fmul fdiv perm i c) with (ent (A := AR) perm i c) in HdP.
        rewrite (T3 i c Hi Hc) in HdP. destruct (Nat.eqb_spec c (tau i)); [congruence|].
        rewrite Rabs_R0, Rmult_0_r in HdP. pose proof (Rabs_pos (dP i c)).
        destruct (Req_dec (dP i c) 0) as [Z|NZ]; [exact Z|]. apply Rabs_pos_lt in NZ. lra. }
      rewrite Z. ring. }
  exists (fun i c => Rsum n (fun k => (tril1 lu i k + dL i k) * (triu lu k c + dU k c)) - rentry m (tau i) c),
         (fun i => nth i pb 0 - nth (tau i) b 0).
  split; [|split].
  - (* |dA| *)
    intros i c Hi Hc. destruct (Hfac i c Hi Hc) as (th & Hth & Ef). rewrite Ef, <- Rsum_minus.
    eapply Rle_trans; [apply Rsum_abs|]. rewrite <- Rsum_scal. apply Rsum_le. intros k Hk.
    apply lu_term_bound; [exact Hg|now apply Hth|now apply HdL|now apply HdU].
  - (* |db| *)
    intros i Hi. rewrite (Epbi i Hi).
    replace ((1 + dP i (tau i)) * nth (tau i) b 0 - nth (tau i) b 0) with (dP i (tau i) * nth (tau i) b 0) by ring.
    rewrite Rabs_mult. apply Rmult_le_compat_r; [apply Rabs_pos|].
    specialize (HdP i (tau i) Hi (T1 i Hi)).
    change (RoundMatvec.rentry fadd fsub fmul fdiv perm i (tau i)) with (ent (A := AR) perm i (tau i)) in HdP.
    rewrite (T3 i (tau i) Hi (T1 i Hi)), Nat.eqb_refl, Rabs_R1, Rmult_1_r in HdP. exact HdP.
  - (* the equation *)
    intros i Hi.
    rewrite (Rsum_ext n _ (fun c => Rsum n (fun k => (tril1 lu i k + dL i k) * ((triu lu k c + dU k c) * nth c x 0)))).
    2:{ intros c Hc. replace (rentry m (tau i) c + (Rsum n (fun k => (tril1 lu i k + dL i k) * (triu lu k c + dU k c))
                                                    - rentry m (tau i) c))
          with (Rsum n (fun k => (tril1 lu i k + dL i k) * (triu lu k c + dU k c))) by ring.
        rewrite Rmult_comm, <- Rsum_scal. apply Rsum_ext. intros k Hk. ring. }
    rewrite <- (Rsum_swap n n (fun k c => (tril1 lu i k + dL i k) * ((triu lu k c + dU k c) * nth c x 0))).
    rewrite (Rsum_ext n _ (fun k => (tril1 lu i k + dL i k) * nth k y 0)).
    2:{ intros k Hk. rewrite Rsum_scal. f_equal. exact (RowsU k Hk). }
    rewrite (RowsL i Hi). ring.
Qed.

(* Higham Lemma 3.3 for this constant: 3 gam n + gam n ^2 <= gam (3n) *)
Lemma gam_three (n : nat) : INR (3 * n) * u < 1 -> 3 * gam n + gam n * gam n <= gam (3 * n).
Proof using u_range.
  intros H3. rewrite mult_INR in H3. cbn [INR] in H3. pose proof (pos_INR n) as Pn.
  assert (Hn : INR n * u < 1) by nra.
  pose proof (gam_nonneg u u_range n Hn) as G0.
  pose proof (gam_1plus u n Hn) as E1.
  assert (H3' : INR (3 * n) * u < 1) by (rewrite mult_INR; cbn [INR]; lra).
  pose proof (gam_1plus u (3 * n) H3') as E3. rewrite mult_INR in E3. cbn [INR] in E3.
  (* (1 + gam n)^3 = 1/(1 - n u)^3 <= 1/(1 - 3 n u) = 1 + gam (3n) *)
  assert (H3t : 3 * (INR n * u) < 1) by lra.
  set (t := INR n * u) in *. assert (T0 : 0 <= t) by (unfold t; nra).
  assert (C : (1 + gam n) * (1 + gam n) * (1 + gam n) <= 1 + gam (3 * n)).
  { rewrite E1, E3. replace ((1 + 1 + 1) * INR n * u) with (3 * t) by (unfold t; ring).
    replace (/ (1 - t) * / (1 - t) * / (1 - t)) with (/ ((1 - t) * (1 - t) * (1 - t))) by (field; lra).
    apply Rinv_le_contravar; [lra|]. nra. }
  nra.
Qed.

Corollary solve_lu_backward_error_gam3n_lemma (m lu perm : matrix AR) (piv : nat) (b x : list R) :
  wf m -> INR (3 * rows m) * u < 1 ->
  lu_decomp m = Ok (lu, piv, perm) ->
  (forall k, (k < rows m)%nat -> rentry lu k k <> 0) ->
  solve_lu m b = Ok x ->
  length x = rows m /\
  exists tau : nat -> nat,
    (forall r, (r < rows m)%nat -> (tau r < rows m)%nat) /\
    (forall r r', (r < rows m)%nat -> (r' < rows m)%nat -> tau r = tau r' -> r = r') /\
    exists (dA : nat -> nat -> R) (db : nat -> R),
      (forall i c, (i < rows m)%nat -> (c < rows m)%nat ->
         Rabs (dA i c) <= gam (3 * rows m) * Rsum (rows m) (fun k => Rabs (tril1 lu i k) * Rabs (triu lu k c))) /\
      (forall i, (i < rows m)%nat -> Rabs (db i) <= gam (rows m) * Rabs (nth (tau i) b 0)) /\
      (forall i, (i < rows m)%nat ->
         Rsum (rows m) (fun c => (rentry m (tau i) c + dA i c) * nth c x 0) = nth (tau i) b 0 + db i).
Proof using u_range fadd_ok fsub_ok fmul_ok fdiv_ok fadd_0_mul.
  intros W H3 ELU Dg E.
  assert (Hn : INR (rows m) * u < 1).
  { rewrite mult_INR in H3. cbn [INR] in H3. pose proof (pos_INR (rows m)). nra. }
  destruct (solve_lu_backward_error_lemma m lu perm piv b x W Hn ELU Dg E)
    as (Lx & tau & T1 & T2 & dA & db & HdA & Hdb & Eq).
  split; [exact Lx|]. exists tau. split; [exact T1|]. split; [exact T2|]. exists dA, db.
  split; [|split; [exact Hdb|exact Eq]].
  intros i c Hi Hc. eapply Rle_trans; [apply (HdA i c Hi Hc)|].
  apply Rmult_le_compat_r; [|now apply gam_three].
  apply Rsum_nonneg. intros k Hk. apply Rmult_le_pos; apply Rabs_pos.
Qed.

End SolveLU.
