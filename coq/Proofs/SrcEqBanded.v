(* Proofs/SrcEqBanded.v -- the hand-written model of src/banded.rs (Model/Banded.v, package C04) IS the code: every
   definition s_<f> of gen/SrcBanded.v (regenerated from the Rust source by driver/rust2coq.py on this run) equals its
   hand-written counterpart (the repaired variant, legacy = false), for every arithmetic, every (n, m1, m2), every
   content of the compact matrix (padding included) and every right-hand side; no well-formedness hypothesis. *)
From Coq Require Import List Arith ZArith Lia Bool.
From OV Require Import Base.Panic Base.Arith Model.Vector Model.Matrix Model.Banded gen.SrcPrelude gen.SrcBanded Proofs.SrcEqBase.
Import ListNotations.

Section SrcEqBanded.
Context {A : Arith}.
Implicit Types (B C : banded A) (v : list (T A)) (x : T A) (n i j : nat).

Lemma src_band_new n (a b : nat) x : s_band_new n a b x = Ok (band_new n a b x). Proof. reflexivity. Qed.
Lemma src_band_fill B x : s_band_fill B x = band_fill B x. Proof. reflexivity. Qed.
Lemma src_band_resize B n (a b : nat) : s_band_resize B n a b = band_resize B n a b. Proof. reflexivity. Qed.

(* `(self.m1 as isize + band) as usize`: the cast wraps a negative value, the model uses Z.to_nat; the guard makes
   the sum non-negative *)
Lemma src_band_fill_band B (b : Z) x : s_band_fill_band B b x = band_fill_band B b x.
Proof.
  unfold s_band_fill_band, band_fill_band. src_eq.
  rewrite isize_as_usize_nonneg by lia. reflexivity.
Qed.

(* Index: `self.m1 + j - i` is a checked subtraction in the source; the band test makes it safe *)
Lemma src_band_get B i j : s_band_get B (i, j) = band_get B i j.
Proof. unfold s_band_get, band_get, out_of_band, band_slot. src_eq. Qed.

Lemma src_band_neg B : s_band_neg B = band_neg B. Proof. reflexivity. Qed.
Lemma src_band_add B C : s_band_add B C = band_add B C. Proof. reflexivity. Qed.
Lemma src_band_sub B C : s_band_sub B C = band_sub B C. Proof. reflexivity. Qed.
Lemma src_band_scale B x : s_band_scale B x = band_scale B x. Proof. reflexivity. Qed.
Lemma src_band_div B x : s_band_div B x = band_div B x. Proof. reflexivity. Qed.
Lemma src_band_add_assign B C : s_band_add_assign B C = band_add_assign B C. Proof. reflexivity. Qed.
Lemma src_band_sub_assign B C : s_band_sub_assign B C = band_sub_assign B C. Proof. reflexivity. Qed.
Lemma src_band_mul_assign_s B x : s_band_mul_assign_s B x = band_mul_assign_s B x. Proof. reflexivity. Qed.
Lemma src_band_div_assign_s B x : s_band_div_assign_s B x = band_div_assign_s B x. Proof. reflexivity. Qed.
Lemma src_band_add_assign_s B x : s_band_add_assign_s B x = band_add_assign_s B x. Proof. reflexivity. Qed.
Lemma src_band_sub_assign_s B x : s_band_sub_assign_s B x = band_sub_assign_s B x. Proof. reflexivity. Qed.

(* decompose: (1) the first loop's `j - l`, `l -= 1`, `mm - l - 1` are checked subtractions in the source and plain ones
   in the model -- equal under the loop invariant l = m1 - i; (2) the source re-reads au[(j,0)] in the pivot search;
   (3) the source's local `dum` is re-assigned in every pass of the elimination loop, so the translation threads it
   through that loop, the model does not (for_drop_bind). *)
Lemma src_decompose B (au al : matrix A) (index : list nat) (d : T A) :
  s_decompose B au al index d = decompose_gen false B au al index.
Proof.
  unfold s_decompose, decompose_gen, shift_rows.
  rewrite bind_assoc.
  (* first loop: rows 0..m1 shifted left, under the invariant l = m1 - i *)
  apply bind_ext2.
  - apply (for_ext_inv_idx (fun i (s : matrix A * nat) => snd s = bm1 B - i)).
    + cbn. lia.
    + intros i [a l] Hi Hl. cbn [snd] in Hl. subst l. src_eq.
    + intros i [a l] s' Hi Hl E. cbn [snd] in Hl. subst l.
      repeat (apply bind_ok in E; destruct E as (? & ? & E)). injection E as <-. cbn [snd]. lia.
  - intros [a l] _. cbn [bind fst].
    apply bind_ext2; [|intros; reflexivity].
    apply for_ext; intros k [[[[au' al'] idx] d'] l'] Hk.
    unfold dec_step, find_pivot, elim_row, multiplier, pivot_better, swap_band_rows.
    src_eq.
    all: match goal with
         | |- bind (for_ ?lo ?hi ?b1 (?s, ?d)) _ = bind (for_ ?lo ?hi ?b2 ?s) ?K =>
             transitivity (let* r := for_ lo hi b1 (s, d) in K (fst r));
             [ apply bind_ext; intros [[? ?] ?]; reflexivity | apply (for_drop_bind lo hi b1 b2 s d K) ]
         end.
    all: intros i [au2 al2] dd Hi; src_eq.
Qed.

Lemma src_band_det B : s_band_det B = band_det B. Proof. reflexivity. Qed.

(* solve: `x[j] -= al[(k, j-k-1)] * xk` evaluates the place x[j] before the right operand in the source; the model reads
   al first (both can only fail with an index panic: src_swap) *)
Lemma src_band_solve B v : s_band_solve B v = band_solve B v.
Proof.
  unfold s_band_solve, band_solve, band_solve_gen, fwd_step, back_step.
  src_eq; try (src_swap; src_eq).
Qed.

(* &B * &v: the inner loop runs over an isize range (`for j in max(0,-k)..tmploop`) *)
Lemma for_from_shift {S} n a c (b : nat -> S -> res S) s :
  for_from n a (fun k s => b (c + k) s) s = for_from n (c + a) b s.
Proof.
  revert a s; induction n as [|n IH]; intros a s; cbn [for_from]; [reflexivity|].
  apply bind_ext; intros s'. rewrite IH. f_equal. lia.
Qed.

(* a `for` over a non-negative isize range is the `for` over the corresponding usize range *)
Lemma for_z_nat {S} (lo hi : Z) (body : Z -> S -> res S) s :
  (0 <= lo)%Z ->
  for_z lo hi body s = for_ (Z.to_nat lo) (Z.to_nat hi) (fun j s => body (Z.of_nat j) s) s.
Proof.
  intros H. unfold for_z, for_. rewrite Nat.sub_0_r.
  replace (Z.to_nat hi - Z.to_nat lo) with (Z.to_nat (hi - lo)) by lia.
  transitivity (for_from (Z.to_nat (hi - lo)) 0 (fun k s => (fun j s => body (Z.of_nat j) s) (Z.to_nat lo + k) s) s).
  - apply for_from_ext; intros k s' _. cbv beta. f_equal. lia.
  - rewrite (for_from_shift (Z.to_nat (hi - lo)) 0 (Z.to_nat lo) (fun j s => body (Z.of_nat j) s) s). f_equal. lia.
Qed.

Lemma src_band_mul B v : s_band_mul B v = band_mul B v.
Proof.
  unfold s_band_mul, band_mul. destruct (negb (bn B =? length v)); [reflexivity|].
  apply for_ext; intros i s Hi. cbv zeta.
  rewrite for_z_nat by lia.
  replace (Z.of_nat (bm1 B) + Z.of_nat (bm2 B) + 1)%Z with (Z.of_nat (bm1 B) + Z.of_nat (bm2 B) + 1)%Z by reflexivity.
  apply for_ext; intros j s' Hj.
  rewrite isize_as_usize_nonneg by lia. rewrite Nat2Z.id.
  rewrite isize_as_usize_nonneg by lia. reflexivity.
Qed.

(* all of them at once: what a Props file pins as  model_is_source_<property>  *)
Definition model_is_source_Banded : Prop :=
  (forall n (a b : nat) x, s_band_new n a b x = Ok (band_new n a b x)) /\
  (forall B x, s_band_fill B x = band_fill B x) /\
  (forall B n (a b : nat), s_band_resize B n a b = band_resize B n a b) /\
  (forall B (b : Z) x, s_band_fill_band B b x = band_fill_band B b x) /\
  (forall B i j, s_band_get B (i, j) = band_get B i j) /\
  (forall B, s_band_neg B = band_neg B) /\
  (forall B C, s_band_add B C = band_add B C) /\
  (forall B C, s_band_sub B C = band_sub B C) /\
  (forall B x, s_band_scale B x = band_scale B x) /\
  (forall B x, s_band_div B x = band_div B x) /\
  (forall B C, s_band_add_assign B C = band_add_assign B C) /\
  (forall B C, s_band_sub_assign B C = band_sub_assign B C) /\
  (forall B x, s_band_mul_assign_s B x = band_mul_assign_s B x) /\
  (forall B x, s_band_div_assign_s B x = band_div_assign_s B x) /\
  (forall B x, s_band_add_assign_s B x = band_add_assign_s B x) /\
  (forall B x, s_band_sub_assign_s B x = band_sub_assign_s B x) /\
  (forall B (au al : matrix A) (index : list nat) (d : T A), s_decompose B au al index d = decompose_gen false B au al index) /\
  (forall B, s_band_det B = band_det B) /\
  (forall B v, s_band_solve B v = band_solve B v) /\
  (forall B v, s_band_mul B v = band_mul B v).
Lemma model_is_source_Banded_lemma : model_is_source_Banded.
Proof. exact (conj src_band_new (conj src_band_fill (conj src_band_resize (conj src_band_fill_band (conj src_band_get (conj src_band_neg (conj src_band_add (conj src_band_sub (conj src_band_scale (conj src_band_div (conj src_band_add_assign (conj src_band_sub_assign (conj src_band_mul_assign_s (conj src_band_div_assign_s (conj src_band_add_assign_s (conj src_band_sub_assign_s (conj src_decompose (conj src_band_det (conj src_band_solve src_band_mul))))))))))))))))))). Qed.

End SrcEqBanded.
