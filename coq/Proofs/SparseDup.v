(* Proofs/SparseDup.v -- C06/C07, the behaviour on duplicate positions, specified.
   For EVERY well-formed compressed-column storage (one position may be stored any number of times):
   [dvals s i j] is the list of the values stored for position (i,j), in storage order (= the order of
   to_triplets).  get returns its FIRST element (None when it is empty), to_dense keeps its LAST element
   (zero when empty), the products work with its SUM (this is sp_entry, by definition).  Hence the views
   agree at a position iff first = last (= sum); with no position stored twice the list has at most one
   element and views_agree is re-derived as a corollary. *)
From Coq Require Import List Arith Lia Bool Permutation.
From OV Require Import Base.Panic Base.Arith Model.Vector Model.Matrix Model.Sparse
                       Proofs.SparseBase Proofs.SparseMul Proofs.SparseWf Proofs.SparseHist Proofs.SparseViews
                       Proofs.SparseRefine Proofs.SparseTranspose Proofs.SparseFinal.
Import ListNotations.

(* ---------- list plumbing ---------- *)
Lemma filter_nil_all {X} (f : X -> bool) l : (forall x, In x l -> f x = false) -> filter f l = [].
Proof.
  induction l as [|a t IH]; intros H; cbn; auto.
  rewrite (H a) by (left; auto). apply IH. intros; apply H; right; auto.
Qed.

Lemma last_cons {X} (a : X) l d : last (a :: l) d = last l a.
Proof.
  revert a d; induction l as [|b t IH]; intros a d; [reflexivity|].
  change (last (a :: b :: t) d) with (last (b :: t) d). rewrite !IH. reflexivity.
Qed.

Lemma last_map {X Y} (f : X -> Y) l d : last (map f l) (f d) = f (last l d).
Proof.
  induction l as [|a t IH]; [reflexivity|]. cbn [map]. destruct t as [|b t]; [reflexivity|].
  change (last (f a :: map f (b :: t)) (f d)) with (last (map f (b :: t)) (f d)). exact IH.
Qed.

Lemma hd_error_map {X Y} (f : X -> Y) l : hd_error (map f l) = option_map f (hd_error l).
Proof. destruct l; reflexivity. Qed.

Lemma filter_seq_first (P : nat -> bool) n k : k < n -> P k = true -> (forall k', k' < k -> P k' = false) ->
  filter P (seq 0 n) = k :: filter P (seq (S k) (n - S k)).
Proof.
  intros Hk HP Hmin. replace n with (k + S (n - S k)) at 1 by lia.
  rewrite seq_app, filter_app. cbn [Nat.add seq filter]. rewrite HP.
  rewrite filter_nil_all; [reflexivity|]. intros k' Hk'. apply in_seq in Hk'. apply Hmin. lia.
Qed.

(* a cell of a buffer written through a list of writes holds the LAST value written to it *)
Lemma updw_last {X} (ws : list (nat * X)) init p d :
  (forall w, In w ws -> fst w < length init) ->
  nth p (fold_left updw ws init) d = last (map snd (filter (fun w => fst w =? p) ws)) (nth p init d).
Proof.
  revert init; induction ws as [|w t IH]; intros init H; [reflexivity|]. cbn [fold_left filter].
  rewrite IH.
  2:{ intros w' Hw'. unfold updw. rewrite upd_list_length. apply H; right; auto. }
  assert (Hw : fst w < length init) by (apply H; left; auto).
  unfold updw. rewrite nth_upd_list by auto.
  destruct (Nat.eqb_spec (fst w) p) as [E|E].
  - subst p. rewrite Nat.eqb_refl. cbn [map]. now rewrite last_cons.
  - destruct (Nat.eqb_spec p (fst w)); [congruence|]. reflexivity.
Qed.

(* the entries of one column that the column walk selects *)
Lemma filter_visits_none (Q : nat * nat -> bool) cs n j :
  n <= j -> filter (fun jk => Q jk && (fst jk =? j)) (visits cs n) = [].
Proof.
  intros Hj. apply filter_nil_all. intros jk Hin. apply visits_fst_lt in Hin.
  destruct (Nat.eqb_spec (fst jk) j); [lia|]. apply andb_false_r.
Qed.

Lemma filter_visits_col (P : nat -> bool) cs n j : j < n ->
  map snd (filter (fun jk => P (snd jk) && (fst jk =? j)) (visits cs n)) = filter P (seg cs j).
Proof.
  induction n as [|n IH]; intros Hj; [lia|].
  rewrite visits_S, filter_app, map_app, filter_map_comm, map_map. cbn [fst snd]. rewrite map_id.
  destruct (Nat.eq_dec j n) as [->|Hne].
  - rewrite (filter_visits_none (fun jk => P (snd jk))) by lia. cbn [map app].
    apply filter_ext. intros k. now rewrite Nat.eqb_refl, andb_true_r.
  - rewrite IH by lia. rewrite (filter_nil_all _ (seg cs n)); [now rewrite app_nil_r|].
    intros k _. destruct (Nat.eqb_spec n j); [congruence|]. apply andb_false_r.
Qed.

Section Dup.
Context {A : Arith}.
Notation T := (T A).
Notation sparse := (sparse A).

(* the storage indices holding position (i,j): those of column segment j whose row index is i, in storage order *)
Definition dupk (s : sparse) (i j : nat) : list nat :=
  filter (fun k => nth k (sp_row_index s) 0 =? i) (seg (sp_col_start s) j).
(* ... and their values: every value stored for position (i,j), first stored first *)
Definition dvals (s : sparse) (i j : nat) : list T := map (fun k => nth k (sp_val s) zero) (dupk s i j).

(* the same list read off to_triplets: the values of the triplets (i, j, _) in the order of the listing *)
Lemma dvals_ents (s : sparse) i j : j < sp_cols s ->
  dvals s i j = map (@tval A) (filter (tmatch i j) (ents s)).
Proof.
  intros Hj. unfold dvals, dupk, ents. rewrite filter_map_comm, map_map.
  rewrite <- (filter_visits_col (fun k => nth k (sp_row_index s) 0 =? i) (sp_col_start s) (sp_cols s) j Hj).
  rewrite map_map. reflexivity.
Qed.

(* ... and as the increasing list of all storage indices k with row_index[k] = i and col_index[k] = j *)
Lemma dupk_hits (s : sparse) i j : wfS s -> j < sp_cols s ->
  dupk s i j = filter (hit s i j) (seq 0 (sp_nonzero s)).
Proof.
  intros Hwf Hj. unfold dupk.
  rewrite <- (filter_visits_col (fun k => nth k (sp_row_index s) 0 =? i) (sp_col_start s) (sp_cols s) j Hj).
  rewrite visits_indexed by auto. rewrite filter_map_comm, map_map. cbn [fst snd]. rewrite map_id. reflexivity.
Qed.

Lemma dupk_lt (s : sparse) i j k : wfS s -> j < sp_cols s -> In k (dupk s i j) ->
  k < sp_nonzero s /\ hit s i j k = true.
Proof.
  intros Hwf Hj Hin. rewrite dupk_hits in Hin by auto. apply filter_In in Hin as [Hin Hh].
  apply in_seq in Hin. split; [lia|auto].
Qed.

(* ---------- get: the FIRST stored duplicate ---------- *)
Theorem get_first_duplicate_lemma (s : sparse) i j : wfS s -> i < sp_rows s -> j < sp_cols s ->
  sp_get s i j = Ok (hd_error (dvals s i j)).
Proof.
  intros Hwf Hi Hj. unfold dvals. rewrite dupk_hits by auto.
  destruct (sp_get_spec s i j Hwf Hi Hj) as [(k & E & Hk & HP & Hmin)|(E & Hn)]; rewrite E.
  - rewrite (filter_seq_first (hit s i j) _ k) by auto. reflexivity.
  - rewrite filter_nil_all; [reflexivity|]. intros k Hk. apply in_seq in Hk. apply Hn. lia.
Qed.

(* ---------- to_dense: the LAST stored duplicate ---------- *)
Lemma dws_filter (s : sparse) i j : wfS s -> i < sp_rows s -> j < sp_cols s ->
  map snd (filter (fun w => fst w =? i * sp_cols s + j) (dws s)) = dvals s i j.
Proof.
  intros Hwf Hi Hj. unfold dws, dvals. rewrite dupk_hits by auto.
  rewrite filter_map_comm, map_map. cbn [fst snd]. f_equal.
  apply filter_ext_in. intros k Hk. apply in_seq in Hk.
  pose proof (cidx_lt s k Hwf ltac:(lia)) as Hc. unfold hit.
  destruct (Nat.eqb_spec (nth k (sp_row_index s) 0 * sp_cols s + nth k (cidx s) 0) (i * sp_cols s + j)) as [E|E].
  - apply idx_inj in E as [-> ->]; auto. now rewrite !Nat.eqb_refl.
  - destruct (Nat.eqb_spec (nth k (sp_row_index s) 0) i) as [E1|]; [|reflexivity].
    destruct (Nat.eqb_spec (nth k (cidx s) 0) j) as [E2|]; [|reflexivity].
    exfalso. apply E. now rewrite E1, E2.
Qed.

Theorem to_dense_last_duplicate_lemma (s : sparse) : wfS s ->
  exists D, sp_to_dense s = Ok D /\ rows D = sp_rows s /\ cols D = sp_cols s /\
    forall i j, i < sp_rows s -> j < sp_cols s -> mget D i j = Ok (last (dvals s i j) zero).
Proof.
  intros Hwf. eexists. split; [now apply sp_to_dense_ok|]. split; [reflexivity|]. split; [reflexivity|].
  intros i j Hi Hj. unfold mget. cbn [buf cols].
  rewrite (rd_ok _ _ zero) by (rewrite updw_length, repeat_length; now apply idx_lt).
  f_equal. rewrite updw_last.
  - rewrite dws_filter by auto. now rewrite nth_repeat.
  - intros w Hw. rewrite repeat_length. now apply dws_lt.
Qed.

(* ---------- the products: the SUM of the stored duplicates (the definition of sp_entry, restated) ---------- *)
Theorem sp_entry_is_sum_lemma (s : sparse) i j : sp_entry s i j = suml (dvals s i j).
Proof. reflexivity. Qed.

(* ---------- all of it in one statement ---------- *)
Theorem views_with_duplicates_lemma (s : sparse) : wfS s ->
  sp_to_triplets s = Ok (ents s) /\
  sp_col_index s = Ok (map (@tcol A) (ents s)) /\
  exists D, sp_to_dense s = Ok D /\ rows D = sp_rows s /\ cols D = sp_cols s /\
  forall i j, i < sp_rows s -> j < sp_cols s ->
    dvals s i j = map (@tval A) (filter (tmatch i j) (ents s)) /\
    sp_get s i j = Ok (hd_error (dvals s i j)) /\
    mget D i j = Ok (last (dvals s i j) zero) /\
    sp_entry s i j = suml (dvals s i j).
Proof.
  intros Hwf. split; [now apply sp_to_triplets_ok|]. split.
  { rewrite sp_col_index_ok by auto. f_equal. unfold ents, cidx. rewrite map_map. reflexivity. }
  destruct (to_dense_last_duplicate_lemma s Hwf) as (D & ED & Hr & Hc & HD).
  exists D. split; auto. split; auto. split; auto.
  intros i j Hi Hj. split; [now apply dvals_ents|]. split; [now apply get_first_duplicate_lemma|].
  split; [now apply HD|reflexivity].
Qed.

(* ---------- when do the views agree?  exactly where first = last (= sum) ---------- *)
Definition oval (o : option T) : T := match o with Some v => v | None => zero end.

Lemma oval_hd (l : list T) : oval (hd_error l) = hd zero l.
Proof. destruct l; reflexivity. Qed.

Theorem views_agree_iff_lemma (s : sparse) D : wfS s -> sp_to_dense s = Ok D ->
  forall i j, i < sp_rows s -> j < sp_cols s ->
    ((exists o, sp_get s i j = Ok o /\ mget D i j = Ok (oval o)) <-> hd zero (dvals s i j) = last (dvals s i j) zero) /\
    (mget D i j = Ok (sp_entry s i j) <-> last (dvals s i j) zero = suml (dvals s i j)).
Proof.
  intros Hwf ED i j Hi Hj.
  destruct (to_dense_last_duplicate_lemma s Hwf) as (D' & ED' & _ & _ & HD).
  assert (D' = D) by congruence. subst D'.
  rewrite HD, get_first_duplicate_lemma by auto. split; split.
  - intros (o & Eo & Em). injection Eo as <-. injection Em as Em. now rewrite oval_hd in Em.
  - intros E. eexists. split; [reflexivity|]. now rewrite oval_hd, E.
  - intros E. now injection E.
  - intros E. now rewrite E.
Qed.

(* ---------- no position stored twice: at most one value per position ---------- *)
Lemma dvals_nodup_le1 (s : sparse) i j : wfS s -> NoDupKeys s -> j < sp_cols s -> length (dvals s i j) <= 1.
Proof.
  intros Hwf Hnd Hj. unfold dvals. rewrite map_length.
  pose proof (dupk_lt s i j) as Hlt.
  assert (Hnd2 : NoDup (dupk s i j)).
  { rewrite dupk_hits by auto. apply NoDup_filter, seq_NoDup. }
  destruct (dupk s i j) as [|k1 [|k2 l]]; cbn [length]; try lia. exfalso.
  destruct (Hlt k1 Hwf Hj (or_introl eq_refl)) as [H1 P1].
  destruct (Hlt k2 Hwf Hj (or_intror (or_introl eq_refl))) as [H2 P2].
  apply hit_true in P1 as [R1 C1]. apply hit_true in P2 as [R2 C2].
  assert (k1 = k2) by (apply (keys_inj s Hwf Hnd); auto; congruence). subst k2.
  inversion Hnd2 as [|? ? Hna _]; subst. apply Hna. left; auto.
Qed.

Lemma le1_first_last (l : list T) : length l <= 1 -> hd zero l = last l zero.
Proof. destruct l as [|a [|b l]]; cbn [length]; intros H; try reflexivity. lia. Qed.

(* the duplicate-free statement (Props/C06.v views_agree), re-derived from the statements with duplicates *)
Theorem views_agree_rederived_lemma (s : sparse) : wfS s -> NoDupKeys s ->
  sp_to_triplets s = Ok (ents s) /\
  sp_col_index s = Ok (map (@tcol A) (ents s)) /\
  exists D, sp_to_dense s = Ok D /\ rows D = sp_rows s /\ cols D = sp_cols s /\
  forall i j, i < sp_rows s -> j < sp_cols s ->
    (forall v, sp_get s i j = Ok (Some v) <-> In (i, j, v) (ents s)) /\
    (exists o, sp_get s i j = Ok o /\ mget D i j = Ok (match o with Some v => v | None => zero end)).
Proof.
  intros Hwf Hnd. destruct (views_with_duplicates_lemma s Hwf) as (Ht & Hc & D & ED & Hr & Hcl & H).
  split; auto. split; auto. exists D. split; auto. split; auto. split; auto.
  intros i j Hi Hj. destruct (H i j Hi Hj) as (He & Hg & Hm & _).
  pose proof (dvals_nodup_le1 s i j Hwf Hnd Hj) as Hle. split.
  - intros v. rewrite Hg. split.
    + intros E. injection E as E.
      assert (Hin : In v (dvals s i j)) by (destruct (dvals s i j); [discriminate|injection E as ->; left; auto]).
      rewrite He in Hin. apply in_map_iff in Hin as ([[a b] w] & Ev & Hin). apply filter_In in Hin as [Hin Hm'].
      unfold tmatch, trow, tcol, tval in *. cbn [fst snd] in *. apply andb_true_iff in Hm' as [Ha Hb].
      apply Nat.eqb_eq in Ha, Hb. now subst.
    + intros Hin.
      assert (Hv : In v (dvals s i j)).
      { rewrite He. apply in_map_iff. exists (i, j, v). split; [reflexivity|]. apply filter_In. split; auto.
        unfold tmatch, trow, tcol. cbn [fst snd]. now rewrite !Nat.eqb_refl. }
      destruct (dvals s i j) as [|a [|b l]]; cbn [length] in Hle; try lia; [destruct Hv|].
      destruct Hv as [->|[]]. reflexivity.
  - eexists. split; [exact Hg|]. rewrite Hm. f_equal. fold (oval (hd_error (dvals s i j))).
    rewrite oval_hd. symmetry. now apply le1_first_last.
Qed.

End Dup.

(* with the ring laws: a list of at most one value sums to that value, so under NoDupKeys first = last = sum *)
Section DupSum.
Context {A : Arith}.
Variable RL : RingLaws A.
Notation T := (T A).
Notation sparse := (sparse A).
Add Ring AringDup : (rl_ring A RL).
Local Open Scope arith_scope.

Lemma le1_last_sum (l : list T) : length l <= 1 -> last l zero = suml l.
Proof.
  destruct l as [|a [|b l]]; cbn [length]; intros H; try lia; [reflexivity|].
  unfold suml. cbn. ring.
Qed.

Theorem nodup_first_last_sum_lemma (s : sparse) i j : wfS s -> NoDupKeys s -> j < sp_cols s ->
  length (dvals s i j) <= 1 /\ hd zero (dvals s i j) = last (dvals s i j) zero /\
  last (dvals s i j) zero = sp_entry s i j.
Proof.
  intros Hwf Hnd Hj. pose proof (dvals_nodup_le1 s i j Hwf Hnd Hj) as Hle.
  split; auto. split; [now apply le1_first_last|]. rewrite sp_entry_is_sum_lemma. now apply le1_last_sum.
Qed.

(* Props/C07.v to_dense_entry, re-derived *)
Theorem to_dense_entry_rederived_lemma (s : sparse) : wfS s -> NoDupKeys s ->
  exists D, sp_to_dense s = Ok D /\ rows D = sp_rows s /\ cols D = sp_cols s /\
    forall i j, i < sp_rows s -> j < sp_cols s -> mget D i j = Ok (sp_entry s i j).
Proof.
  intros Hwf Hnd. destruct (to_dense_last_duplicate_lemma s Hwf) as (D & ED & Hr & Hc & HD).
  exists D. split; auto. split; auto. split; auto. intros i j Hi Hj. rewrite HD by auto. f_equal.
  now apply nodup_first_last_sum_lemma.
Qed.

End DupSum.
