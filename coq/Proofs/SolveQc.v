(* Proofs/SolveQc.v -- the rational instance AQ (Qc) satisfies the magnitude laws; corollaries of the
   solve_basic theorems at AQ, the arithmetic the exact tier of the correspondence check runs.  Package c01. *)
From Coq Require Import List Arith Lia ZArith QArith Qcanon.
From OV Require Import Base.Panic Base.Arith Model.Vector Model.Matrix Model.Solve Inst.QcInst
  Proofs.Matrix Proofs.SolveBase Proofs.SolveBack Proofs.SolveGauss Proofs.Solve Proofs.SolveComplete.
Import ListNotations.

Lemma Qc_ltb_lt (x y : Qc) : Qc_ltb x y = true <-> (x < y)%Qc.
Proof.
  unfold Qc_ltb. rewrite Qclt_alt. destruct (x ?= y)%Qc; split; congruence.
Qed.

Lemma Qc_abs_nonneg (x : Qc) : (0 <= Qc_abs x)%Qc.
Proof.
  unfold Qc_abs. destruct (Qc_ltb x 0) eqn:E.
  - apply Qc_ltb_lt, Qclt_le_weak, Qcopp_le_compat in E.
    assert (Z : (- 0 = 0)%Qc) by (apply Qc_is_canon; reflexivity).
    rewrite Z in E. exact E.
  - apply Qcnot_lt_le. intros H. apply Qc_ltb_lt in H. congruence.
Qed.

Lemma Qc_abs_zero (x : Qc) : Qc_abs x = 0%Qc <-> x = 0%Qc.
Proof.
  split.
  - unfold Qc_abs. destruct (Qc_ltb x 0); auto.
    intros H. rewrite <- (Qcopp_involutive x), H. reflexivity.
  - intros ->. reflexivity.
Qed.

Lemma AQ_PivLaws : PivLaws AQ.
Proof.
  split.
  - exact Qc_abs_zero.
  - intros x Hx. apply Qc_ltb_lt.
    destruct (Qcle_lt_or_eq _ _ (Qc_abs_nonneg x)) as [H|H]; auto.
    exfalso. apply Hx. apply Qc_abs_zero. now symmetry.
  - intros x. cbn. destruct (Qc_ltb (Qc_abs x) 0) eqn:E; auto.
    apply Qc_ltb_lt in E. exfalso. exact (Qcle_not_lt _ _ (Qc_abs_nonneg x) E).
Qed.

Lemma AQ_MagLaws : MagLaws AQ.
Proof.
  split.
  - exact Qc_abs_zero.
  - intros x. cbn. destruct (Qc_ltb x x) eqn:E; auto.
    apply Qc_ltb_lt in E. exfalso. exact (Qclt_not_eq _ _ E eq_refl).
Qed.

Close Scope Qc_scope.
Close Scope Q_scope.

Lemma solve_basic_sound_Qc_lemma (M : matrix AQ) (b x : list AQ) :
  wf M -> rows M = cols M -> length b = rows M -> solve_basic M b = Ok x ->
  length x = rows M /\
  forall i, i < rows M -> mvprod (rows M) (ent M) (fun k => nth k x zero) i = nth i b zero.
Proof. exact (solve_basic_sound_lemma AQ_FieldLaws M b x). Qed.

Lemma solve_basic_complete_Qc_lemma (M : matrix AQ) (b : list AQ) :
  wf M -> rows M = cols M -> length b = rows M -> 1 <= rows M ->
  (exists N : nat -> nat -> AQ, left_inverse (rows M) N (ent M)) ->
  exists x, solve_basic M b = Ok x.
Proof. exact (solve_basic_complete_lemma AQ_FieldLaws AQ_PivLaws M b). Qed.

(* total correctness at Qc: a system with a left inverse is solved, and the answer is the only solution *)
Lemma solve_basic_correct_Qc_lemma (M : matrix AQ) (b : list AQ) :
  wf M -> rows M = cols M -> length b = rows M -> 1 <= rows M ->
  (exists N : nat -> nat -> AQ, left_inverse (rows M) N (ent M)) ->
  exists x, solve_basic M b = Ok x /\ length x = rows M /\
    (forall i, i < rows M -> mvprod (rows M) (ent M) (fun k => nth k x zero) i = nth i b zero) /\
    (forall y, length y = rows M ->
       (forall i, i < rows M -> mvprod (rows M) (ent M) (fun k => nth k y zero) i = nth i b zero) -> y = x).
Proof.
  intros W Hsq Lb Hn LI.
  destruct (solve_basic_complete_Qc_lemma M b W Hsq Lb Hn LI) as (x & E).
  destruct (solve_basic_sound_Qc_lemma M b x W Hsq Lb E) as (Lx & S).
  exists x. repeat split; auto.
  intros y Ly Sy. apply (solutions_unique_lemma AQ_FieldLaws M b y x LI Ly Lx Sy S).
Qed.
