(* Proofs/MatNormLawsMink.v -- Minkowski's inequality for the p-norm of Model/MatNorms.v, p >= 1, over R with the
   power function [pw] (0^p = 0) of MatNormLawsP.v (package matnorm, item 2, the norm_p half).
   From the standard library's  1 + x <= exp x  only:
     ln t <= t - 1;  weighted AM-GM in logarithmic form;  Bernoulli  1 + p (u - 1) <= u^p  (u > 0, p >= 1);
     convexity of t |-> t^p on [0, oo);  Minkowski for finite sums (normalisation argument);  the triangle inequality
     of [mnorm_p] under the model's [madd]. *)
From Coq Require Import List Arith Lia Reals Lra Bool.
From OV Require Import Base.Panic Base.Arith Model.Vector Model.Matrix Model.MatNorms.
From OV Require Import Proofs.Matrix Proofs.MatrixArith Proofs.MatNorms Proofs.MatNormsR.
From OV Require Import Proofs.MatNormLawsBase Proofs.MatNormLawsP.
Import ListNotations.
Local Open Scope R_scope.

Lemma ln_le_sub1 t : 0 < t -> ln t <= t - 1.
Proof.
  intros Ht. pose proof (exp_ineq1_le (t - 1)) as H. replace (1 + (t - 1)) with t in H by ring.
  rewrite <- (ln_exp (t - 1)). destruct H as [H|H].
  - left. apply ln_increasing; auto.
  - right. f_equal. exact H.
Qed.

Lemma exp_le_mono x y : x <= y -> exp x <= exp y.
Proof. intros [H| ->]; [left; now apply exp_increasing|right; reflexivity]. Qed.

Lemma convex_pos a b l : 0 < a -> 0 < b -> 0 <= l <= 1 -> 0 < l * a + (1 - l) * b.
Proof.
  intros Ha Hb Hl. set (c := Rmin a b).
  assert (Hc : 0 < c) by (unfold c; apply Rmin_glb_lt; auto).
  assert (Hca : c <= a) by apply Rmin_l. assert (Hcb : c <= b) by apply Rmin_r.
  assert (0 <= l * (a - c)) by (apply Rmult_le_pos; lra).
  assert (0 <= (1 - l) * (b - c)) by (apply Rmult_le_pos; lra).
  lra.
Qed.

(* weighted AM-GM, logarithmic form *)
Lemma young_ln a b l : 0 < a -> 0 < b -> 0 <= l <= 1 ->
  l * ln a + (1 - l) * ln b <= ln (l * a + (1 - l) * b).
Proof.
  intros Ha Hb Hl. pose proof (convex_pos a b l Ha Hb Hl) as Hm. set (m := l * a + (1 - l) * b) in *.
  assert (Him : 0 < / m) by (apply Rinv_0_lt_compat; exact Hm).
  assert (Ea : ln (a / m) = ln a - ln m) by (unfold Rdiv; rewrite ln_mult, ln_Rinv by auto; ring).
  assert (Eb : ln (b / m) = ln b - ln m) by (unfold Rdiv; rewrite ln_mult, ln_Rinv by auto; ring).
  assert (H1 : ln (a / m) <= a / m - 1) by (apply ln_le_sub1; unfold Rdiv; apply Rmult_lt_0_compat; auto).
  assert (H2 : ln (b / m) <= b / m - 1) by (apply ln_le_sub1; unfold Rdiv; apply Rmult_lt_0_compat; auto).
  assert (G1 : l * ln (a / m) <= l * (a / m - 1)) by (apply Rmult_le_compat_l; lra).
  assert (G2 : (1 - l) * ln (b / m) <= (1 - l) * (b / m - 1)) by (apply Rmult_le_compat_l; lra).
  assert (E : l * (a / m - 1) + (1 - l) * (b / m - 1) = 0).
  { replace (l * (a / m - 1) + (1 - l) * (b / m - 1)) with (m / m - 1) by (unfold m; field; fold m; lra).
    unfold Rdiv. rewrite Rinv_r by lra. ring. }
  rewrite Ea in G1. rewrite Eb in G2. lra.
Qed.

(* Bernoulli for real exponents *)
Lemma bernoulli u p : 0 < u -> 1 <= p -> 1 + p * (u - 1) <= Rpower u p.
Proof.
  intros Hu Hp. set (y := 1 + p * (u - 1)).
  destruct (Rle_lt_dec y 0) as [Hy|Hy].
  - unfold Rpower. pose proof (exp_pos (p * ln u)). lra.
  - assert (Hl : 0 <= / p <= 1).
    { split; [left; apply Rinv_0_lt_compat; lra|]. rewrite <- Rinv_1. apply Rinv_le_contravar; lra. }
    pose proof (young_ln y 1 (/ p) Hy Rlt_0_1 Hl) as H.
    rewrite ln_1, Rmult_0_r, Rplus_0_r in H.
    replace (/ p * y + (1 - / p) * 1) with u in H by (unfold y; field; lra).
    assert (H' : ln y <= p * ln u).
    { apply (Rmult_le_compat_l p) in H; [|lra]. rewrite <- Rmult_assoc, Rinv_r, Rmult_1_l in H by lra. exact H. }
    rewrite <- (exp_ln y Hy). unfold Rpower. now apply exp_le_mono.
Qed.

(* the graph of t^p lies above its tangent at s > 0 (written without s^(p-1)) *)
Lemma pw_tangent s t p : 0 < s -> 0 <= t -> 1 <= p -> pw s p * (1 + p * (t / s - 1)) <= pw t p.
Proof.
  intros Hs Ht Hp. pose proof (pw_gt0 s p Hs) as Hsp.
  destruct Ht as [Ht|<-].
  - assert (Hu : 0 < t / s) by (unfold Rdiv; apply Rmult_lt_0_compat; auto; now apply Rinv_0_lt_compat).
    replace (pw t p) with (pw s p * Rpower (t / s) p).
    + apply Rmult_le_compat_l; [lra|]. now apply bernoulli.
    + rewrite !pw_pos by auto. rewrite Rpower_mult_distr by auto. f_equal. field. lra.
  - rewrite pw_0. unfold Rdiv. rewrite Rmult_0_l.
    assert (0 <= pw s p * (p - 1)) by (apply Rmult_le_pos; lra). lra.
Qed.

Lemma pw_convex x y l p : 0 <= x -> 0 <= y -> 0 <= l <= 1 -> 1 <= p ->
  pw (l * x + (1 - l) * y) p <= l * pw x p + (1 - l) * pw y p.
Proof.
  intros Hx Hy Hl Hp. set (s := l * x + (1 - l) * y).
  assert (Hs : 0 <= s).
  { assert (0 <= l * x) by (apply Rmult_le_pos; lra). assert (0 <= (1 - l) * y) by (apply Rmult_le_pos; lra).
    unfold s; lra. }
  pose proof (pw_nonneg x p) as Px. pose proof (pw_nonneg y p) as Py.
  destruct Hs as [Hs|Hs].
  - pose proof (pw_tangent s x p Hs Hx Hp) as Tx. pose proof (pw_tangent s y p Hs Hy Hp) as Ty.
    apply (Rmult_le_compat_l l) in Tx; [|lra]. apply (Rmult_le_compat_l (1 - l)) in Ty; [|lra].
    assert (E : l * (pw s p * (1 + p * (x / s - 1))) + (1 - l) * (pw s p * (1 + p * (y / s - 1))) = pw s p).
    { replace (l * (pw s p * (1 + p * (x / s - 1))) + (1 - l) * (pw s p * (1 + p * (y / s - 1))))
        with (pw s p * (1 + p * ((l * x + (1 - l) * y) / s - 1))) by (field; lra).
      fold s. unfold Rdiv. rewrite Rinv_r by lra. ring. }
    lra.
  - rewrite <- Hs, pw_0.
    assert (0 <= l * pw x p) by (apply Rmult_le_pos; lra).
    assert (0 <= (1 - l) * pw y p) by (apply Rmult_le_pos; lra). lra.
Qed.

(* (S^(1/p))^p = S *)
Lemma pw_root' S p : 0 < p -> 0 <= S -> pw (pw S (1 / p)) p = S.
Proof.
  intros Hp HS. rewrite pw_pw by exact HS. replace (1 / p * p) with 1 by (field; lra). now apply pw_1.
Qed.

(* Minkowski for finite sums of non-negative terms *)
Lemma Rs_mink n (a b : nat -> R) p : 1 <= p -> (forall k, 0 <= a k) -> (forall k, 0 <= b k) ->
  pw (Rs n (fun k => pw (a k + b k) p)) (1 / p) <=
  pw (Rs n (fun k => pw (a k) p)) (1 / p) + pw (Rs n (fun k => pw (b k) p)) (1 / p).
Proof.
  intros Hp Ha Hb. assert (Hp0 : 0 < p) by lra.
  assert (Hq : 0 < 1 / p) by (apply Rdiv_lt_0_compat; lra).
  set (SA := Rs n (fun k => pw (a k) p)). set (SB := Rs n (fun k => pw (b k) p)).
  assert (HSA : 0 <= SA) by (apply Rs_nonneg; intros; apply pw_nonneg).
  assert (HSB : 0 <= SB) by (apply Rs_nonneg; intros; apply pw_nonneg).
  destruct HSA as [HSA|HSA].
  2:{ (* all a_k = 0 *)
    assert (Ha0 : forall k, (k < n)%nat -> a k = 0).
    { intros k Hk. apply (pw_eq0 _ p (Ha k)).
      apply (Rs_eq0 n (fun k => pw (a k) p)); auto. intros; apply pw_nonneg. }
    rewrite (Rs_ext n (fun k => pw (a k + b k) p) (fun k => pw (b k) p))
      by (intros k Hk; rewrite (Ha0 k Hk), Rplus_0_l; reflexivity).
    fold SB. rewrite <- HSA, pw_0. lra. }
  destruct HSB as [HSB|HSB].
  2:{ assert (Hb0 : forall k, (k < n)%nat -> b k = 0).
    { intros k Hk. apply (pw_eq0 _ p (Hb k)).
      apply (Rs_eq0 n (fun k => pw (b k) p)); auto. intros; apply pw_nonneg. }
    rewrite (Rs_ext n (fun k => pw (a k + b k) p) (fun k => pw (a k) p))
      by (intros k Hk; rewrite (Hb0 k Hk), Rplus_0_r; reflexivity).
    fold SA. rewrite <- HSB, pw_0. lra. }
  set (A := pw SA (1 / p)). set (B := pw SB (1 / p)).
  assert (HA : 0 < A) by (apply pw_gt0; exact HSA). assert (HB : 0 < B) by (apply pw_gt0; exact HSB).
  assert (EA : pw A p = SA) by (apply pw_root'; lra). assert (EB : pw B p = SB) by (apply pw_root'; lra).
  set (l := A / (A + B)).
  assert (Hl : 0 <= l <= 1).
  { unfold l. split.
    - apply Rmult_le_pos; [lra|]. left. apply Rinv_0_lt_compat. lra.
    - apply (Rmult_le_reg_r (A + B)); [lra|]. unfold Rdiv. rewrite Rmult_assoc, Rinv_l by lra. lra. }
  assert (E1l : 1 - l = B / (A + B)) by (unfold l; field; lra).
  (* term by term *)
  assert (Hk : forall k, pw (a k + b k) p <= pw (A + B) p * (l * (pw (a k) p / SA) + (1 - l) * (pw (b k) p / SB))).
  { intros k.
    assert (Hxa : 0 <= a k / A) by (apply Rmult_le_pos; [apply Ha|left; now apply Rinv_0_lt_compat]).
    assert (Hxb : 0 <= b k / B) by (apply Rmult_le_pos; [apply Hb|left; now apply Rinv_0_lt_compat]).
    assert (Pa : pw (a k / A) p = pw (a k) p / SA).
    { rewrite <- EA. apply (Rmult_eq_reg_r (pw A p)); [|rewrite EA; lra].
      rewrite <- pw_mult by lra. unfold Rdiv. rewrite !Rmult_assoc, !Rinv_l, !Rmult_1_r; [reflexivity|rewrite EA; lra|lra]. }
    assert (Pb : pw (b k / B) p = pw (b k) p / SB).
    { rewrite <- EB. apply (Rmult_eq_reg_r (pw B p)); [|rewrite EB; lra].
      rewrite <- pw_mult by lra. unfold Rdiv. rewrite !Rmult_assoc, !Rinv_l, !Rmult_1_r; [reflexivity|rewrite EB; lra|lra]. }
    replace (a k + b k) with ((A + B) * (l * (a k / A) + (1 - l) * (b k / B))) by (rewrite E1l; unfold l; field; lra).
    rewrite pw_mult; [|lra|].
    2:{ assert (0 <= l * (a k / A)) by (apply Rmult_le_pos; lra).
        assert (0 <= (1 - l) * (b k / B)) by (apply Rmult_le_pos; lra). lra. }
    apply Rmult_le_compat_l; [apply pw_nonneg|].
    rewrite <- Pa, <- Pb. apply pw_convex; auto. }
  assert (HS : Rs n (fun k => pw (a k + b k) p) <= pw (A + B) p).
  { eapply Rle_trans; [apply Rs_le; intros k _; apply Hk|].
    rewrite Rs_scal, Rs_plus, !Rs_scal. unfold Rdiv. rewrite !Rs_scal_r. fold SA SB.
    rewrite !Rinv_r by lra. apply Req_le. ring. }
  apply Rle_trans with (pw (pw (A + B) p) (1 / p)).
  - apply pw_le; auto. apply Rs_nonneg. intros; apply pw_nonneg.
  - rewrite pw_root by lra. lra.
Qed.

(* on entries: the p-norm of f + g *)
Lemma np_add r c (f g : nat -> nat -> R) p : 1 <= p ->
  pw (sum2 r c (fun i j => pw (Rabs (f i j + g i j)) p)) (1 / p) <=
  pw (sum2 r c (fun i j => pw (Rabs (f i j)) p)) (1 / p) + pw (sum2 r c (fun i j => pw (Rabs (g i j)) p)) (1 / p).
Proof.
  intros Hp. assert (Hp0 : 0 < p) by lra. assert (Hq : 0 < 1 / p) by (apply Rdiv_lt_0_compat; lra).
  apply Rle_trans with (pw (sum2 r c (fun i j => pw (Rabs (f i j) + Rabs (g i j)) p)) (1 / p)).
  - apply pw_le; auto; [apply sum2_nonneg; intros; apply pw_nonneg|].
    apply sum2_le. intros i j _ _. apply pw_le; auto; [apply Rabs_pos|apply Rabs_triang].
  - unfold sum2.
    rewrite (Rs2_flat r c (fun i j => pw (Rabs (f i j) + Rabs (g i j)) p)),
            (Rs2_flat r c (fun i j => pw (Rabs (f i j)) p)), (Rs2_flat r c (fun i j => pw (Rabs (g i j)) p)).
    apply (Rs_mink (r * c) (fun k => Rabs (f (k / c)%nat (k mod c)%nat)) (fun k => Rabs (g (k / c)%nat (k mod c)%nat)) p Hp);
      intros; apply Rabs_pos.
Qed.

(* triangle inequality of norm_p, p >= 1, under the model's addition *)
Lemma norm_p_triangle_lemma (a b : matrix AR) (p : R) : wf a -> wf b -> rows a = rows b -> cols a = cols b -> 1 <= p ->
  exists s na nb ns, madd (A:=AR) a b = Ok s /\
    mnorm_p (S:=SAR) (fun x => pw x p) (fun s => pw s (1 / p)) a = Ok na /\
    mnorm_p (S:=SAR) (fun x => pw x p) (fun s => pw s (1 / p)) b = Ok nb /\
    mnorm_p (S:=SAR) (fun x => pw x p) (fun s => pw s (1 / p)) s = Ok ns /\
    ns <= na + nb.
Proof.
  intros Hwa Hwb Hr Hc Hp. pose proof (msp_self a Hwa) as Ha. pose proof (msp_self b Hwb) as Hb.
  rewrite Hr, Hc in Ha.
  destruct (madd_msp _ _ _ _ a b Ha Hb) as (s & Es & Hs). cbn [add AR] in Hs.
  exists s. do 3 eexists. split; [exact Es|].
  split; [apply (np_msp _ _ _ a Ha)|]. split; [apply (np_msp _ _ _ b Hb)|]. split; [apply (np_msp _ _ _ s Hs)|].
  apply (np_add (rows b) (cols b) (entry a) (entry b) p Hp).
Qed.
