(* Proofs/LUSolveC.v -- completeness of solve_lu: when the code's own determinant of M is a nonzero
   value (equivalently: no diagonal entry of U is zero) and n >= 1, solve_lu returns.
   (For n = 0 the code panics: backsolve computes rows - 1 on usize.)  Stdlib style only. *)
From Coq Require Import List Arith Lia Bool Ring Ring_theory Field_theory.
From OV Require Import Base.Panic Base.Arith Model.Vector Model.Matrix Model.Solve
  Proofs.Matrix Proofs.LUPrim Proofs.LUSum Proofs.LU Proofs.LUSolve Proofs.LUInv Proofs.LUInvC.
Import ListNotations.
Local Open Scope arith_scope.

Section LUSolveC.
Context {A : Arith} (FL : FieldLaws A) (PL : PivLaws A).
Add Ring Ar : (A_ring FL).
Notation matrix := (matrix A).

Lemma backsolve_ok (U : matrix) n (y : list A) : shape U n n -> length y = n -> 1 <= n ->
  (forall i, i < n -> ent U i i <> zero) -> exists z, backsolve U y = Ok z.
Proof.
  intros SH Hl Hn Hd. unfold backsolve. destruct (SH) as (_ & Er & _). rewrite Er.
  unfold usub at 1. replace (1 <=? n) with true by (symmetry; apply Nat.leb_le; lia). cbn [bind].
  rewrite (rd_ok y (n - 1) zero) by lia.
  rewrite (mget_ok U n n (n - 1) (n - 1) SH) by lia. cbn [bind].
  rewrite (div_ok FL) by (apply Hd; lia). cbn [bind].
  rewrite upd_ok by lia. cbn [bind].
  destruct (for_inv (fun (_ : nat) (x : list A) => length x = n) 2 (n + 1)%nat
              (fun n0 x =>
                let* k := usub n n0 in
                let* x := for_ (n - n0 + 1) n (fun j x =>
                            let* xj := rd x j in
                            let* xk := rd x k in
                            let* a := mget U k j in
                            upd x k (xk - a * xj)) x in
                let* xk := rd x k in
                let* d := mget U k k in
                let* q := div xk d in
                upd x k q)
              (upd_list y (n - 1) (nth (n - 1) y zero * LUSum.inv FL (ent U (n - 1) (n - 1)))))
    as (z & E & _).
  - lia.
  - now rewrite upd_list_length.
  - intros n' x Hn' Hx.
    unfold usub. replace (n' <=? n) with true by (symmetry; apply Nat.leb_le; lia). cbn [bind].
    destruct (for_inv (fun (_ : nat) (x' : list A) => length x' = n) (n - n' + 1)%nat n
                (fun j x =>
                  let* xj := rd x j in
                  let* xk := rd x (n - n') in
                  let* a := mget U (n - n') j in
                  upd x (n - n') (xk - a * xj)) x) as (x' & E' & Hx').
    + lia.
    + auto.
    + intros j t Hj Ht.
      rewrite (rd_ok t j zero), (rd_ok t (n - n') zero) by lia.
      rewrite (mget_ok U n n (n - n') j SH) by lia. cbn [bind].
      rewrite upd_ok by lia. eexists; split; [reflexivity|]. now rewrite upd_list_length.
    + rewrite E'. cbn [bind].
      rewrite (rd_ok x' (n - n') zero) by lia.
      rewrite (mget_ok U n n (n - n') (n - n') SH) by lia. cbn [bind].
      rewrite (div_ok FL) by (apply Hd; lia). cbn [bind].
      rewrite upd_ok by lia. eexists; split; [reflexivity|]. now rewrite upd_list_length.
  - exists z; auto.
Qed.

Lemma solve_lu_complete_diag (M : matrix) n (b : list A) : shape M n n -> length b = n -> 1 <= n ->
  (forall LU piv P, lu_decomp M = Ok (LU, piv, P) -> forall i, i < n -> ent LU i i <> zero) ->
  exists x, solve_lu M b = Ok x.
Proof.
  intros SH Hb Hn Hd. unfold solve_lu. destruct (SH) as (_ & Er & Ec).
  rewrite Er, Ec, Hb, Nat.eqb_refl. cbn [negb].
  destruct (lu_decomp_ok FL PL M n SH) as (LU & piv & P & sw & E & SL & SP & _).
  rewrite E. cbn [bind]. specialize (Hd LU piv P E).
  destruct (multiply_ok FL P n n b SP Hb) as (x0 & E0 & L0 & _). rewrite E0. cbn [bind].
  destruct (fwd_loop_ok FL LU n x0 SL L0) as (y & Ey & Ly & _).
  unfold fwd_loop in Ey. rewrite Ey. cbn [bind].
  now apply (backsolve_ok LU n y).
Qed.

Lemma solve_lu_complete_lemma (M : matrix) (b : list A) (d : A) : wf M -> rows M = cols M ->
  1 <= rows M -> length b = rows M -> determinant M = Ok d -> d <> zero ->
  exists x, solve_lu M b = Ok x.
Proof.
  intros W Esq Hn Hb Hdet Hd.
  assert (SH : shape M (rows M) (rows M)) by (split; auto).
  apply (solve_lu_complete_diag M (rows M) b SH Hb Hn).
  intros LU piv P E i Hi Hz.
  destruct (determinant_eq FL PL M (rows M) SH) as (LU' & piv' & P' & sw & E' & _ & _ & _ & _ & Hdet').
  rewrite E in E'. injection E' as <- <- <-.
  rewrite Hdet in Hdet'. injection Hdet' as ->.
  apply Hd. rewrite (prod_n_zero FL (rows M) (fun i => ent LU i i) i Hi Hz).
  destruct (Nat.even piv); ring.
Qed.

End LUSolveC.
