(* Proofs/VectorCx2Out.v -- C15, package cnorm.  Definitions only (Model/*.v is frozen, so they live here): the answer
   streams of the two executor kinds added for the norm laws on complex and rational vectors
     vec.n1laws    <u> <v> <c>   [rat | f64 | cplx]   dot(u,v), then norm_1 of u, v, u+v, u*c     (generic code only)
     vec.cnormlaws <u> <v> <c>   [cplx]               dot(u,v), then norm_1 and norm_inf of u, v, u+v, u*c
   built from the very functions the theorems of Proofs/VectorCx2.v / VectorCx2Q.v are about
   (vadd, vscale, dot, norm_1, cnorm_inf of Model/Vector.v).  No Reals here: the case files load this module. *)
From Coq Require Import List ZArith.
From OV Require Import Base.Panic Base.Arith Base.Flat Model.Complex Model.Vector Model.VecOps.
Import ListNotations.

Section OutGen.
Context {A : Arith}.
Variable flat : A -> list Z.

(* the executor forms u + v first (size guard), then dot, then the four norm_1 *)
Definition vec_n1laws_out (u v : list A) (c : A) : list Z :=
  match vadd u v with
  | Panic k => fl_panic k
  | Ok s => fl_res flat (dot u v) ++ flat (norm_1 u) ++ flat (norm_1 v) ++ flat (norm_1 s) ++ flat (norm_1 (vscale u c))
  end.
End OutGen.

Section OutCx.
Context {F : SArith}.
Variable flat : F -> list Z.

Fixpoint cnormlaws_rows (ws : list (list (cplx F))) : list Z :=
  match ws with
  | [] => []
  | w :: rest =>
      match cnorm_inf w with
      | Ok x => flat_c flat (norm_1 (A := CArith F) w) ++ flat x ++ cnormlaws_rows rest
      | Panic k => flat_c flat (norm_1 (A := CArith F) w) ++ fl_panic k       (* the executor's answer ends at the first panic *)
      end
  end.

Definition vec_cnormlaws_out (u v : list (cplx F)) (c : cplx F) : list Z :=
  match vadd (A := CArith F) u v with
  | Panic k => fl_panic k
  | Ok s => fl_res (flat_c flat) (dot (A := CArith F) u v) ++ cnormlaws_rows [u; v; s; vscale (A := CArith F) u c]
  end.
End OutCx.
