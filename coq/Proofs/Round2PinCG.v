(* ======================================================================================================
   C08 (iterative solvers), the DRIFT CLAUSE -- package round2.  Append to Props/C08.v.
   "up to the rounding drift of the residual recurrence, proportional to machine epsilon, the iteration count, ||A|| and
   the largest iterate": for the model's solve_cg / solve_bicg / solve_bicgstab (Model/Iter.v) run in the STANDARD MODEL
   of floating-point arithmetic (every operation = the exact one times (1+d), |d| <= u; rounded square root), with a
   matrix-vector product accurate to eA normwise, the recurrence residual r_k (g_t g) and the true residual b - A x_k
   differ in the 2-norm by at most
        (4j+1) / (1-rho)^(j+1) * [ (rho NA + eA) kap X + rho ||b|| ],      rho = u/(1-u),  kap = 1/(1 - gam_{n+1}),
   j = number of updates x += alpha p (= k for CG and BiCG, 2k for BiCGSTAB), NA >= ||A||_2, X = t_X (g_X g) = the
   model's own ghost trace (largest COMPUTED 2-norm of an iterate or update term) -- the quantity the oracle of
   driver/c08.py reads from the float model.  Hence Ok k => ||b - A x|| <= tol (1+O(nu)) ||b||' + that bound.
   For the model's CSC product sp_mul, eA = gam_m || |A| ||_2 (m = longest stored row): [sparse_product_accuracy].
   Comparison with the oracle's allowance 64 (k+1) eps (||A|| X + ||b||)/||b||', eps = 2u: the theorem's constant per
   iteration is 4 (NA + m || |A| ||) u X + 4 u ||b|| (CG, BiCG; twice that for BiCGSTAB) against 128 u (||A|| X + ||b||):
   the allowance is implied whenever (about) m || |A| ||_2 <= 30 ||A||_2 (CG/BiCG) resp. <= 14 ||A||_2 (BiCGSTAB):
   [ok_means_solved_oracle_allowance] below states this exactly.
   Unproved remainder: QMR (its second recurrence s ~ A d needs an invariant of its own); the standard model itself
   (no overflow/underflow; discharged for binary64 operations in Proofs/RoundDotFloat.v away from underflow).
   ====================================================================================================== *)
From Coq Require Import Reals List Lra Lia.
From OV Require Import Base.Panic Base.Arith Base.RoundModel Model.Vector Model.Sparse Model.Iter
  Proofs.SparseBase Proofs.RoundSparse Proofs.RoundSparseDense Proofs.RoundNorm2 Proofs.RoundFlx
  Proofs.Round2CGNorm Proofs.Round2CG Proofs.Round2CGMore Proofs.Round2CGOk.
Import ListNotations.

Theorem residual_drift : forall (u : R), (0 <= u < 1)%R ->
  forall (fadd fsub fmul fdiv : R -> R -> R) (fsqrt : R -> R),
  (forall x y : R, exists d : R, (Rabs d <= u)%R /\ fadd x y = ((x + y) * (1 + d))%R) ->
  (forall x y : R, exists d : R, (Rabs d <= u)%R /\ fsub x y = ((x - y) * (1 + d))%R) ->
  (forall x y : R, exists d : R, (Rabs d <= u)%R /\ fmul x y = (x * y * (1 + d))%R) ->
  (forall a b : R, fadd 0%R (fmul a b) = fmul a b) ->
  (forall x : R, (0 <= x)%R -> exists d : R, (Rabs d <= u)%R /\ fsqrt x = (R_sqrt.sqrt x * (1 + d))%R) ->
  forall n : nat, (2 * INR (n + 1) * u < 1)%R ->
  forall (a : nat -> nat -> R) (NA eA : R), (0 <= NA)%R -> (0 <= eA)%R ->
  (forall f : nat -> R, (N2 n (Ax n a f) <= NA * N2 n f)%R) ->
  forall mulA : list R -> res (list R),
  (forall v : list R, length v = n -> exists w : list R, mulA v = Ok w /\ length w = n /\
     (N2 n (fun i => vf w i - Ax n a (vf v) i) <= eA * N2 n (vf v))%R) ->
  forall (mulAT : list R -> res (list R)) (sv : solver) (b x0 : list R) (cols max : nat) (tol : R) (k : nat)
    (x : list R) (g : ghost (SARm fadd fsub fmul fdiv fsqrt)),
  sv <> QMR ->
  run (A := SARm fadd fsub fmul fdiv fsqrt) mulA mulAT n cols sv b x0 max tol = Ok (IOk k, x, g) ->
  (k <= max)%nat /\ length x = n /\ length (g_t g) = n /\ (0 <= t_X (g_X g))%R /\
  ((1 - rho u) ^ (updates sv k + 1) * N2 n (fun i => vf b i - Ax n a (vf x) i - vf (g_t g) i)
   <= (4 * INR (updates sv k) + 1) * ((rho u * NA + eA) * (kap u n * t_X (g_X g)) + rho u * N2 n (vf b)))%R.
Proof. intros u Hu fadd fsub fmul fdiv fsqrt Ha Hs Hm H0 Hq n Hn a NA eA HNA HeA HA mulA MV mulAT sv b x0 cols max tol k x g Hsv H. exact (run_drift_lemma u Hu fadd fsub fmul fdiv fsqrt Ha Hs Hm H0 Hq n Hn a NA eA HNA HeA HA mulA MV mulAT sv b x0 cols max tol k x g Hsv H). Qed.
Check residual_drift : forall (u : R), (0 <= u < 1)%R ->
  forall (fadd fsub fmul fdiv : R -> R -> R) (fsqrt : R -> R),
  (forall x y : R, exists d : R, (Rabs d <= u)%R /\ fadd x y = ((x + y) * (1 + d))%R) ->
  (forall x y : R, exists d : R, (Rabs d <= u)%R /\ fsub x y = ((x - y) * (1 + d))%R) ->
  (forall x y : R, exists d : R, (Rabs d <= u)%R /\ fmul x y = (x * y * (1 + d))%R) ->
  (forall a b : R, fadd 0%R (fmul a b) = fmul a b) ->
  (forall x : R, (0 <= x)%R -> exists d : R, (Rabs d <= u)%R /\ fsqrt x = (R_sqrt.sqrt x * (1 + d))%R) ->
  forall n : nat, (2 * INR (n + 1) * u < 1)%R ->
  forall (a : nat -> nat -> R) (NA eA : R), (0 <= NA)%R -> (0 <= eA)%R ->
  (forall f : nat -> R, (N2 n (Ax n a f) <= NA * N2 n f)%R) ->
  forall mulA : list R -> res (list R),
  (forall v : list R, length v = n -> exists w : list R, mulA v = Ok w /\ length w = n /\
     (N2 n (fun i => vf w i - Ax n a (vf v) i) <= eA * N2 n (vf v))%R) ->
  forall (mulAT : list R -> res (list R)) (sv : solver) (b x0 : list R) (cols max : nat) (tol : R) (k : nat)
    (x : list R) (g : ghost (SARm fadd fsub fmul fdiv fsqrt)),
  sv <> QMR ->
  run (A := SARm fadd fsub fmul fdiv fsqrt) mulA mulAT n cols sv b x0 max tol = Ok (IOk k, x, g) ->
  (k <= max)%nat /\ length x = n /\ length (g_t g) = n /\ (0 <= t_X (g_X g))%R /\
  ((1 - rho u) ^ (updates sv k + 1) * N2 n (fun i => vf b i - Ax n a (vf x) i - vf (g_t g) i)
   <= (4 * INR (updates sv k) + 1) * ((rho u * NA + eA) * (kap u n * t_X (g_X g)) + rho u * N2 n (vf b)))%R.
Print Assumptions residual_drift.
(* the hypotheses are met by an arithmetic that rounds every operation (53 bits, round-to-nearest-even, rounded square
   root) with the model's own CSC product of the 1x1 matrix [[2]] (NA = 2, eA = gam_1 * 2), and CG answers Ok(1) on
   2 x = 2 from x0 = 0 (one genuine iteration: the start-up test fails with resid = 1) *)
Example residual_drift_nonvacuous :
  (0 <= ux < 1)%R /\
  (forall x y : R, exists d : R, (Rabs d <= ux)%R /\ xadd x y = ((x + y) * (1 + d))%R) /\
  (forall x y : R, exists d : R, (Rabs d <= ux)%R /\ xsub x y = ((x - y) * (1 + d))%R) /\
  (forall x y : R, exists d : R, (Rabs d <= ux)%R /\ xmul x y = (x * y * (1 + d))%R) /\
  (forall x y : R, y <> 0%R -> exists d : R, (Rabs d <= ux)%R /\ xdiv x y = (x / y * (1 + d))%R) /\
  (forall a b : R, xadd 0%R (xmul a b) = xmul a b) /\
  (forall x : R, (0 <= x)%R -> exists d : R, (Rabs d <= ux)%R /\ xsqrt x = (R_sqrt.sqrt x * (1 + d))%R) /\
  (2 * INR (1 + 1) * ux < 1)%R /\ (0 <= 2)%R /\ (0 <= gam ux 1 * 2)%R /\
  (forall f : nat -> R, (N2 1 (Ax 1 (sp_rentry xadd xsub xmul xdiv sx1) f) <= 2 * N2 1 f)%R) /\
  (forall v : list R, length v = 1%nat -> exists w : list R, sp_mul sx1 v = Ok w /\ length w = 1%nat /\
     (N2 1 (fun i => vf w i - Ax 1 (sp_rentry xadd xsub xmul xdiv sx1) (vf v) i) <= (gam ux 1 * 2) * N2 1 (vf v))%R) /\
  CG <> QMR /\
  (exists g, run (A := SARm xadd xsub xmul xdiv xsqrt) (sp_mul sx1) (sp_tmul sx1) 1 1 CG [2%R] [0%R] 2 (/ 2)%R
             = Ok (IOk 1, [1%R], g)).
Proof.
  split; [exact ux_range|]. split; [exact xadd_ok|]. split; [exact xsub_ok|]. split; [exact xmul_ok|].
  split; [exact xdiv_ok|]. split; [exact xadd_0_mul|]. split; [exact xsqrt_ok|]. split; [exact ex_n_small|].
  split; [lra|]. split; [pose proof (gam_nonneg ux ux_range 1 ex_m_small); lra|].
  split; [apply sx1_norm; apply sx1_entry|]. split; [exact sx1_MV|]. split; [discriminate|exact cg_run_flx].
Qed.

Theorem ok_means_solved_rounded : forall (u : R), (0 <= u < 1)%R ->
  forall (fadd fsub fmul fdiv : R -> R -> R) (fsqrt : R -> R),
  (forall x y : R, exists d : R, (Rabs d <= u)%R /\ fadd x y = ((x + y) * (1 + d))%R) ->
  (forall x y : R, exists d : R, (Rabs d <= u)%R /\ fsub x y = ((x - y) * (1 + d))%R) ->
  (forall x y : R, exists d : R, (Rabs d <= u)%R /\ fmul x y = (x * y * (1 + d))%R) ->
  (forall x y : R, y <> 0%R -> exists d : R, (Rabs d <= u)%R /\ fdiv x y = (x / y * (1 + d))%R) ->
  (forall a b : R, fadd 0%R (fmul a b) = fmul a b) ->
  (forall x : R, (0 <= x)%R -> exists d : R, (Rabs d <= u)%R /\ fsqrt x = (R_sqrt.sqrt x * (1 + d))%R) ->
  forall n : nat, (2 * INR (n + 1) * u < 1)%R ->
  forall (a : nat -> nat -> R) (NA eA : R), (0 <= NA)%R -> (0 <= eA)%R ->
  (forall f : nat -> R, (N2 n (Ax n a f) <= NA * N2 n f)%R) ->
  forall mulA : list R -> res (list R),
  (forall v : list R, length v = n -> exists w : list R, mulA v = Ok w /\ length w = n /\
     (N2 n (fun i => vf w i - Ax n a (vf v) i) <= eA * N2 n (vf v))%R) ->
  forall (mulAT : list R -> res (list R)) (sv : solver) (b x0 : list R) (cols max : nat) (tol : R) (k : nat)
    (x : list R) (g : ghost (SARm fadd fsub fmul fdiv fsqrt)),
  sv <> QMR ->
  run (A := SARm fadd fsub fmul fdiv fsqrt) mulA mulAT n cols sv b x0 max tol = Ok (IOk k, x, g) ->
  (k <= max)%nat /\
  (N2 n (fun i => vf b i - Ax n a (vf x) i)
   <= tol * (kap u n * (1 + rho u) * (1 + gN u n)) * nzR (N2 n (vf b))
      + (4 * INR (updates sv k) + 1) * ((rho u * NA + eA) * (kap u n * t_X (g_X g)) + rho u * N2 n (vf b))
        / (1 - rho u) ^ (updates sv k + 1))%R.
Proof. intros u Hu fadd fsub fmul fdiv fsqrt Ha Hs Hm Hd H0 Hq n Hn a NA eA HNA HeA HA mulA MV mulAT sv b x0 cols max tol k x g Hsv H. exact (run_ok_means_solved_rounded_lemma u Hu fadd fsub fmul fdiv fsqrt Ha Hs Hm Hd H0 Hq n Hn a NA eA HNA HeA HA mulA MV mulAT sv b x0 cols max tol k x g Hsv H). Qed.
Check ok_means_solved_rounded : forall (u : R), (0 <= u < 1)%R ->
  forall (fadd fsub fmul fdiv : R -> R -> R) (fsqrt : R -> R),
  (forall x y : R, exists d : R, (Rabs d <= u)%R /\ fadd x y = ((x + y) * (1 + d))%R) ->
  (forall x y : R, exists d : R, (Rabs d <= u)%R /\ fsub x y = ((x - y) * (1 + d))%R) ->
  (forall x y : R, exists d : R, (Rabs d <= u)%R /\ fmul x y = (x * y * (1 + d))%R) ->
  (forall x y : R, y <> 0%R -> exists d : R, (Rabs d <= u)%R /\ fdiv x y = (x / y * (1 + d))%R) ->
  (forall a b : R, fadd 0%R (fmul a b) = fmul a b) ->
  (forall x : R, (0 <= x)%R -> exists d : R, (Rabs d <= u)%R /\ fsqrt x = (R_sqrt.sqrt x * (1 + d))%R) ->
  forall n : nat, (2 * INR (n + 1) * u < 1)%R ->
  forall (a : nat -> nat -> R) (NA eA : R), (0 <= NA)%R -> (0 <= eA)%R ->
  (forall f : nat -> R, (N2 n (Ax n a f) <= NA * N2 n f)%R) ->
  forall mulA : list R -> res (list R),
  (forall v : list R, length v = n -> exists w : list R, mulA v = Ok w /\ length w = n /\
     (N2 n (fun i => vf w i - Ax n a (vf v) i) <= eA * N2 n (vf v))%R) ->
  forall (mulAT : list R -> res (list R)) (sv : solver) (b x0 : list R) (cols max : nat) (tol : R) (k : nat)
    (x : list R) (g : ghost (SARm fadd fsub fmul fdiv fsqrt)),
  sv <> QMR ->
  run (A := SARm fadd fsub fmul fdiv fsqrt) mulA mulAT n cols sv b x0 max tol = Ok (IOk k, x, g) ->
  (k <= max)%nat /\
  (N2 n (fun i => vf b i - Ax n a (vf x) i)
   <= tol * (kap u n * (1 + rho u) * (1 + gN u n)) * nzR (N2 n (vf b))
      + (4 * INR (updates sv k) + 1) * ((rho u * NA + eA) * (kap u n * t_X (g_X g)) + rho u * N2 n (vf b))
        / (1 - rho u) ^ (updates sv k + 1))%R.
Print Assumptions ok_means_solved_rounded.
(* non-vacuity: the same instance as residual_drift_nonvacuous (all hypotheses, including the rounded division) *)
Example ok_means_solved_rounded_nonvacuous :
  (forall x y : R, y <> 0%R -> exists d : R, (Rabs d <= ux)%R /\ xdiv x y = (x / y * (1 + d))%R) /\
  (exists g, run (A := SARm xadd xsub xmul xdiv xsqrt) (sp_mul sx1) (sp_tmul sx1) 1 1 CG [2%R] [0%R] 2 (/ 2)%R
             = Ok (IOk 1, [1%R], g)).
Proof. split; [exact xdiv_ok|exact cg_run_flx]. Qed.

(* the allowance of the oracle (driver/c08.py: tol ||b||' + 64 (k+1) eps (||A|| X + ||b||), eps = 2u) as a corollary:
   it is implied when the product is accurate to eA <= c u NA and (4j+1)(1+c) amp <= 128 (k+1), where
   amp = kap (1+rho)/(1-rho)^(j+1) = 1 + O((j+n) u): for CG/BiCG any c <= 30 (amp <= 32/31), for BiCGSTAB any c <= 14 (amp <= 16/15) *)
Theorem ok_means_solved_oracle_allowance : forall (u : R), (0 <= u < 1)%R ->
  forall (fadd fsub fmul fdiv : R -> R -> R) (fsqrt : R -> R),
  (forall x y : R, exists d : R, (Rabs d <= u)%R /\ fadd x y = ((x + y) * (1 + d))%R) ->
  (forall x y : R, exists d : R, (Rabs d <= u)%R /\ fsub x y = ((x - y) * (1 + d))%R) ->
  (forall x y : R, exists d : R, (Rabs d <= u)%R /\ fmul x y = (x * y * (1 + d))%R) ->
  (forall x y : R, y <> 0%R -> exists d : R, (Rabs d <= u)%R /\ fdiv x y = (x / y * (1 + d))%R) ->
  (forall a b : R, fadd 0%R (fmul a b) = fmul a b) ->
  (forall x : R, (0 <= x)%R -> exists d : R, (Rabs d <= u)%R /\ fsqrt x = (R_sqrt.sqrt x * (1 + d))%R) ->
  forall n : nat, (2 * INR (n + 1) * u < 1)%R ->
  forall (a : nat -> nat -> R) (NA eA : R), (0 <= NA)%R -> (0 <= eA)%R ->
  (forall f : nat -> R, (N2 n (Ax n a f) <= NA * N2 n f)%R) ->
  forall mulA : list R -> res (list R),
  (forall v : list R, length v = n -> exists w : list R, mulA v = Ok w /\ length w = n /\
     (N2 n (fun i => vf w i - Ax n a (vf v) i) <= eA * N2 n (vf v))%R) ->
  forall (mulAT : list R -> res (list R)) (sv : solver) (b x0 : list R) (cols max : nat) (tol : R) (k : nat)
    (x : list R) (g : ghost (SARm fadd fsub fmul fdiv fsqrt)) (c : R),
  sv <> QMR -> (0 <= c)%R -> (eA <= c * (u * NA))%R ->
  ((4 * INR (updates sv k) + 1) * (1 + c) * amp u n (updates sv k) <= 128 * INR (k + 1))%R ->
  run (A := SARm fadd fsub fmul fdiv fsqrt) mulA mulAT n cols sv b x0 max tol = Ok (IOk k, x, g) ->
  (N2 n (fun i => vf b i - Ax n a (vf x) i)
   <= tol * (kap u n * (1 + rho u) * (1 + gN u n)) * nzR (N2 n (vf b))
      + 64 * INR (k + 1) * (2 * u) * (NA * t_X (g_X g) + N2 n (vf b)))%R.
Proof. intros u Hu fadd fsub fmul fdiv fsqrt Ha Hs Hm Hd H0 Hq n Hn a NA eA HNA HeA HA mulA MV mulAT sv b x0 cols max tol k x g c Hsv Hc He Hamp H. exact (run_ok_means_solved_allowance_lemma u Hu fadd fsub fmul fdiv fsqrt Ha Hs Hm Hd H0 Hq n Hn a NA eA HNA HeA HA mulA MV mulAT sv b x0 cols max tol k x g c Hsv Hc He Hamp H). Qed.
Check ok_means_solved_oracle_allowance : forall (u : R), (0 <= u < 1)%R ->
  forall (fadd fsub fmul fdiv : R -> R -> R) (fsqrt : R -> R),
  (forall x y : R, exists d : R, (Rabs d <= u)%R /\ fadd x y = ((x + y) * (1 + d))%R) ->
  (forall x y : R, exists d : R, (Rabs d <= u)%R /\ fsub x y = ((x - y) * (1 + d))%R) ->
  (forall x y : R, exists d : R, (Rabs d <= u)%R /\ fmul x y = (x * y * (1 + d))%R) ->
  (forall x y : R, y <> 0%R -> exists d : R, (Rabs d <= u)%R /\ fdiv x y = (x / y * (1 + d))%R) ->
  (forall a b : R, fadd 0%R (fmul a b) = fmul a b) ->
  (forall x : R, (0 <= x)%R -> exists d : R, (Rabs d <= u)%R /\ fsqrt x = (R_sqrt.sqrt x * (1 + d))%R) ->
  forall n : nat, (2 * INR (n + 1) * u < 1)%R ->
  forall (a : nat -> nat -> R) (NA eA : R), (0 <= NA)%R -> (0 <= eA)%R ->
  (forall f : nat -> R, (N2 n (Ax n a f) <= NA * N2 n f)%R) ->
  forall mulA : list R -> res (list R),
  (forall v : list R, length v = n -> exists w : list R, mulA v = Ok w /\ length w = n /\
     (N2 n (fun i => vf w i - Ax n a (vf v) i) <= eA * N2 n (vf v))%R) ->
  forall (mulAT : list R -> res (list R)) (sv : solver) (b x0 : list R) (cols max : nat) (tol : R) (k : nat)
    (x : list R) (g : ghost (SARm fadd fsub fmul fdiv fsqrt)) (c : R),
  sv <> QMR -> (0 <= c)%R -> (eA <= c * (u * NA))%R ->
  ((4 * INR (updates sv k) + 1) * (1 + c) * amp u n (updates sv k) <= 128 * INR (k + 1))%R ->
  run (A := SARm fadd fsub fmul fdiv fsqrt) mulA mulAT n cols sv b x0 max tol = Ok (IOk k, x, g) ->
  (N2 n (fun i => vf b i - Ax n a (vf x) i)
   <= tol * (kap u n * (1 + rho u) * (1 + gN u n)) * nzR (N2 n (vf b))
      + 64 * INR (k + 1) * (2 * u) * (NA * t_X (g_X g) + N2 n (vf b)))%R.
Print Assumptions ok_means_solved_oracle_allowance.
(* non-vacuity: on the instance of residual_drift_nonvacuous (n = 1, NA = 2, eA = gam_1 * 2, k = 1) the two extra
   hypotheses hold with c = 2 *)
Example ok_means_solved_oracle_allowance_nonvacuous :
  (0 <= 2)%R /\ (gam ux 1 * 2 <= 2 * (ux * 2))%R /\
  ((4 * INR (updates CG 1) + 1) * (1 + 2) * amp ux 1 (updates CG 1) <= 128 * INR (1 + 1))%R /\
  (exists g, run (A := SARm xadd xsub xmul xdiv xsqrt) (sp_mul sx1) (sp_tmul sx1) 1 1 CG [2%R] [0%R] 2 (/ 2)%R
             = Ok (IOk 1, [1%R], g)).
Proof. split; [lra|]. split; [exact ex_eA_c|]. split; [exact ex_amp|exact cg_run_flx]. Qed.

(* the same for the entry point the correspondence check runs ([run_sparse]: the solvers on a CSC matrix with the model's
   own products), every constant computable from the stored matrix: NA = ||A||_F, eA = gam_m || |A| ||_F (Frobenius
   norms), m = the longest stored row *)
Theorem run_sparse_ok_means_solved_rounded : forall (u : R), (0 <= u < 1)%R ->
  forall (fadd fsub fmul fdiv : R -> R -> R) (fsqrt : R -> R),
  (forall x y : R, exists d : R, (Rabs d <= u)%R /\ fadd x y = ((x + y) * (1 + d))%R) ->
  (forall x y : R, exists d : R, (Rabs d <= u)%R /\ fsub x y = ((x - y) * (1 + d))%R) ->
  (forall x y : R, exists d : R, (Rabs d <= u)%R /\ fmul x y = (x * y * (1 + d))%R) ->
  (forall x y : R, y <> 0%R -> exists d : R, (Rabs d <= u)%R /\ fdiv x y = (x / y * (1 + d))%R) ->
  (forall a b : R, fadd 0%R (fmul a b) = fmul a b) ->
  (forall x : R, (0 <= x)%R -> exists d : R, (Rabs d <= u)%R /\ fsqrt x = (R_sqrt.sqrt x * (1 + d))%R) ->
  forall (s : sparse (ARm fadd fsub fmul fdiv)) (n m : nat) (sv : solver) (b x0 : list R) (max : nat) (tol : R) (k : nat)
    (x : list R) (g : ghost (SARm fadd fsub fmul fdiv fsqrt)),
  wfS s -> sp_rows s = n -> sp_cols s = n ->
  (forall i, (i < n)%nat -> (length (row_entries s i) <= m)%nat) -> (INR m * u < 1)%R ->
  (2 * INR (n + 1) * u < 1)%R -> sv <> QMR ->
  run_sparse (A := SARm fadd fsub fmul fdiv fsqrt) sv s b x0 max tol = Ok (IOk k, x, g) ->
  (k <= max)%nat /\
  (N2 n (fun i => vf b i - Ax n (sp_rentry fadd fsub fmul fdiv s) (vf x) i)
   <= tol * (kap u n * (1 + rho u) * (1 + gN u n)) * nzR (N2 n (vf b))
      + (4 * INR (updates sv k) + 1)
        * ((rho u * frob n (sp_rentry fadd fsub fmul fdiv s) + gam u m * frob n (sp_rabs fadd fsub fmul fdiv s))
             * (kap u n * t_X (g_X g)) + rho u * N2 n (vf b))
        / (1 - rho u) ^ (updates sv k + 1))%R.
Proof. intros u Hu fadd fsub fmul fdiv fsqrt Ha Hs Hm Hd H0 Hq s n m sv b x0 max tol k x g. exact (run_sparse_ok_means_solved_rounded_lemma u Hu fadd fsub fmul fdiv fsqrt Ha Hs Hm Hd H0 Hq s n m sv b x0 max tol k x g). Qed.
Check run_sparse_ok_means_solved_rounded : forall (u : R), (0 <= u < 1)%R ->
  forall (fadd fsub fmul fdiv : R -> R -> R) (fsqrt : R -> R),
  (forall x y : R, exists d : R, (Rabs d <= u)%R /\ fadd x y = ((x + y) * (1 + d))%R) ->
  (forall x y : R, exists d : R, (Rabs d <= u)%R /\ fsub x y = ((x - y) * (1 + d))%R) ->
  (forall x y : R, exists d : R, (Rabs d <= u)%R /\ fmul x y = (x * y * (1 + d))%R) ->
  (forall x y : R, y <> 0%R -> exists d : R, (Rabs d <= u)%R /\ fdiv x y = (x / y * (1 + d))%R) ->
  (forall a b : R, fadd 0%R (fmul a b) = fmul a b) ->
  (forall x : R, (0 <= x)%R -> exists d : R, (Rabs d <= u)%R /\ fsqrt x = (R_sqrt.sqrt x * (1 + d))%R) ->
  forall (s : sparse (ARm fadd fsub fmul fdiv)) (n m : nat) (sv : solver) (b x0 : list R) (max : nat) (tol : R) (k : nat)
    (x : list R) (g : ghost (SARm fadd fsub fmul fdiv fsqrt)),
  wfS s -> sp_rows s = n -> sp_cols s = n ->
  (forall i, (i < n)%nat -> (length (row_entries s i) <= m)%nat) -> (INR m * u < 1)%R ->
  (2 * INR (n + 1) * u < 1)%R -> sv <> QMR ->
  run_sparse (A := SARm fadd fsub fmul fdiv fsqrt) sv s b x0 max tol = Ok (IOk k, x, g) ->
  (k <= max)%nat /\
  (N2 n (fun i => vf b i - Ax n (sp_rentry fadd fsub fmul fdiv s) (vf x) i)
   <= tol * (kap u n * (1 + rho u) * (1 + gN u n)) * nzR (N2 n (vf b))
      + (4 * INR (updates sv k) + 1)
        * ((rho u * frob n (sp_rentry fadd fsub fmul fdiv s) + gam u m * frob n (sp_rabs fadd fsub fmul fdiv s))
             * (kap u n * t_X (g_X g)) + rho u * N2 n (vf b))
        / (1 - rho u) ^ (updates sv k + 1))%R.
Print Assumptions run_sparse_ok_means_solved_rounded.
Example run_sparse_ok_means_solved_rounded_nonvacuous :
  wfS sx1 /\ sp_rows sx1 = 1%nat /\ sp_cols sx1 = 1%nat /\
  (forall i, (i < 1)%nat -> (length (row_entries sx1 i) <= 1)%nat) /\ (INR 1 * ux < 1)%R /\
  (2 * INR (1 + 1) * ux < 1)%R /\ CG <> QMR /\
  (exists g, run_sparse (A := SARm xadd xsub xmul xdiv xsqrt) CG sx1 [2%R] [0%R] 2 (/ 2)%R = Ok (IOk 1, [1%R], g)).
Proof.
  split; [exact sx1_wf|]. split; [reflexivity|]. split; [reflexivity|]. split; [exact sx1_rows|].
  split; [exact ex_m_small|]. split; [exact ex_n_small|]. split; [discriminate|exact cg_run_flx].
Qed.

(* the model's compressed-column product meets the accuracy hypothesis with eA = gam_m || |A| ||_2 *)
Theorem sparse_product_accuracy : forall (u : R), (0 <= u < 1)%R ->
  forall (fadd fsub fmul fdiv : R -> R -> R),
  (forall x y : R, exists d : R, (Rabs d <= u)%R /\ fadd x y = ((x + y) * (1 + d))%R) ->
  (forall x y : R, exists d : R, (Rabs d <= u)%R /\ fmul x y = (x * y * (1 + d))%R) ->
  (forall a b : R, fadd 0%R (fmul a b) = fmul a b) ->
  forall (s : sparse (ARm fadd fsub fmul fdiv)) (n m : nat) (NabsA : R),
  wfS s -> sp_rows s = n -> sp_cols s = n ->
  (forall i, (i < n)%nat -> (length (row_entries s i) <= m)%nat) -> (INR m * u < 1)%R -> (0 <= NabsA)%R ->
  (forall f : nat -> R, (N2 n (Ax n (sp_rabs fadd fsub fmul fdiv s) f) <= NabsA * N2 n f)%R) ->
  forall v : list R, length v = n -> exists w : list R, sp_mul s v = Ok w /\ length w = n /\
    (N2 n (fun i => vf w i - Ax n (sp_rentry fadd fsub fmul fdiv s) (vf v) i) <= (gam u m * NabsA) * N2 n (vf v))%R.
Proof. intros u Hu fadd fsub fmul fdiv Ha Hm H0 s n m NabsA. exact (sparse_MV u Hu fadd fsub fmul fdiv Ha Hm H0 s n m NabsA). Qed.
Check sparse_product_accuracy : forall (u : R), (0 <= u < 1)%R ->
  forall (fadd fsub fmul fdiv : R -> R -> R),
  (forall x y : R, exists d : R, (Rabs d <= u)%R /\ fadd x y = ((x + y) * (1 + d))%R) ->
  (forall x y : R, exists d : R, (Rabs d <= u)%R /\ fmul x y = (x * y * (1 + d))%R) ->
  (forall a b : R, fadd 0%R (fmul a b) = fmul a b) ->
  forall (s : sparse (ARm fadd fsub fmul fdiv)) (n m : nat) (NabsA : R),
  wfS s -> sp_rows s = n -> sp_cols s = n ->
  (forall i, (i < n)%nat -> (length (row_entries s i) <= m)%nat) -> (INR m * u < 1)%R -> (0 <= NabsA)%R ->
  (forall f : nat -> R, (N2 n (Ax n (sp_rabs fadd fsub fmul fdiv s) f) <= NabsA * N2 n f)%R) ->
  forall v : list R, length v = n -> exists w : list R, sp_mul s v = Ok w /\ length w = n /\
    (N2 n (fun i => vf w i - Ax n (sp_rentry fadd fsub fmul fdiv s) (vf v) i) <= (gam u m * NabsA) * N2 n (vf v))%R.
Print Assumptions sparse_product_accuracy.
Example sparse_product_accuracy_nonvacuous :
  wfS sx1 /\ sp_rows sx1 = 1%nat /\ sp_cols sx1 = 1%nat /\
  (forall i, (i < 1)%nat -> (length (row_entries sx1 i) <= 1)%nat) /\ (INR 1 * ux < 1)%R /\ (0 <= 2)%R /\
  (forall f : nat -> R, (N2 1 (Ax 1 (sp_rabs xadd xsub xmul xdiv sx1) f) <= 2 * N2 1 f)%R).
Proof.
  split; [exact sx1_wf|]. split; [reflexivity|]. split; [reflexivity|]. split; [exact sx1_rows|].
  split; [exact ex_m_small|]. split; [lra|]. apply sx1_norm. apply sx1_entry.
Qed.

(* the drift is real: at binary64 the model's CG on [[2,1],[1,2]] x = (3,3) from x0 = (1e10, 7e9) with tol = 1e-12 answers
   Ok(4) with a first residual component of 1.9e-6 (relative residual 4.5e-7): the recurrence residual passed the test,
   the true residual is five orders of magnitude above tol -- 0.12 units of k u (||A|| X + ||b||)/||b||', inside the bound *)
From Coq Require Import Floats.
From OV Require Import Inst.FloatInst Proofs.ComplexRound Proofs.Round2X1.
Example residual_drift_is_real : exists g,
  run_trip (A := SAF) CG 2 2 drift_ts [3%float; 3%float] [10000000000%float; 7000000000%float] 50 drift_tol
    = Ok (IOk 4, drift_x, g) /\
  (FR drift_tol <= 1 / 1000000000000 + 1 / 10000000000000000000000000000)%R /\
  (2 * FR (nth 0 drift_x 0%float) + FR (nth 1 drift_x 0%float) - 3 >= 1 / 1000000)%R.
Proof. exact drift_is_real. Qed.
