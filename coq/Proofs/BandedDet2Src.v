(* Proofs/BandedDet2Src.v -- the determinant and padding theorems restated for the functions REGENERATED FROM THE RUST
   SOURCE on this run (gen/SrcBanded.v from src/banded.rs, by the Rust-subset -> Gallina translator), through the
   equalities of Proofs/SrcEqBanded.v.  (Deliberately NOT through gen/SrcSolve.v: C04 must not start to depend on the
   source text of src/matrix/solve.rs; the matrix determinant appears as the model function that C02 ties.)
     s_band_det B = determinant (dense twin of B)          at the exact tier AQ, singular twins included;
     s_band_det / s_band_solve / s_band_mul do not see padding, over any arithmetic;
     m1 > n: s_band_det panics (index). *)
From Coq Require Import List Arith ZArith Lia Bool QArith Qcanon.
From OV Require Import Base.Panic Base.Arith Inst.QcInst Model.Vector Model.Matrix Model.Banded Model.Solve
  gen.SrcPrelude gen.SrcBanded Proofs.SrcEqBase Proofs.SrcEqBanded
  Proofs.Banded Proofs.LUTab Proofs.BandedDet2Wide Proofs.BandedDet2Pad Proofs.BandedDet2Round Bridge.BandDetQc.
Import ListNotations.
Local Open Scope nat_scope.

Lemma source_band_det_spec_Qc_lemma (B : banded AQ) :
  wfB B -> bm1 B <= bn B ->
  @s_band_det AQ B = @Solve.determinant AQ (@tabulate AQ (bn B) (bn B) (@dense_entry AQ B)).
Proof.
  intros Hwf Hm1. rewrite src_band_det. now apply band_det_spec_Qc_lemma.
Qed.

Lemma source_band_padding_lemma {A : Arith} (B B' : banded A) :
  wfB B -> same_in_matrix_slots B B' ->
  s_band_det B' = s_band_det B /\
  (forall b, s_band_solve B' b = s_band_solve B b) /\
  (forall v, length v = bn B -> s_band_mul B' v = s_band_mul B v).
Proof.
  intros Hwf HS. split; [|split].
  - rewrite !src_band_det. now apply band_det_padding_lemma.
  - intros b. rewrite !src_band_solve. now apply band_solve_padding_any_lemma.
  - intros v Hv. rewrite !src_band_mul. now apply band_mul_padding_any_lemma.
Qed.

Lemma source_band_wide_lemma {A : Arith} (B : banded A) :
  wfB B -> bn B < bm1 B -> s_band_det B = Panic Index.
Proof. intros Hwf Hn. rewrite src_band_det. now apply band_wide_panics_lemma. Qed.
