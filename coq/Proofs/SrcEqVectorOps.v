(* Proofs/SrcEqVectorOps.v -- the editing operations, constructors, find and resize of src/vector/{mod,operations,
   functions}.rs that round one left out, regenerated from the source of this run as gen/SrcVectorOps.v, against
   Model/Vector.v (packages C15 / C03): each s_<f> equals its hand-written model, for every arithmetic and every vector. *)
From Coq Require Import List Arith ZArith Lia Bool.
From OV Require Import Base.Panic Base.Arith Model.Vector gen.SrcPrelude gen.SrcVectorOps Proofs.SrcEqBase.
Import ListNotations.

Section SrcEqVectorOps.
Context {A : Arith}.
Implicit Types (v : list (T A)) (x : T A).

Lemma src_vfind v x : s_vfind v x = vfind v x.
Proof. reflexivity. Qed.
Lemma src_vresize v (n : nat) : s_vresize v n = Ok (vresize v n).
Proof. reflexivity. Qed.
Lemma src_vindex v (i : nat) : s_vindex v i = vget v i.
Proof. reflexivity. Qed.
Lemma src_vclear v : s_vclear v = Ok (vclear v).
Proof. reflexivity. Qed.
Lemma src_vswap v (i j : nat) : s_vswap v i j = vswap v i j.
Proof. reflexivity. Qed.
Lemma src_vpush v x : s_vpush v x = Ok (vpush v x).
Proof. reflexivity. Qed.
(* push_front is Vec::insert(0, elem): position 0 is always in range *)
Lemma src_vpush_front v x : s_vpush_front v x = Ok (vpush_front v x).
Proof. reflexivity. Qed.
Lemma src_vinsert v (pos : nat) x : s_vinsert v pos x = vinsert v pos x.
Proof. reflexivity. Qed.
(* pop: Vec::pop() (the vector without its last element, the last element as an Option), then unwrap *)
Lemma removelast_rev {Y} (l : list Y) : removelast l = rev (tl (rev l)).
Proof.
  induction l as [|a t IH] using rev_ind; [reflexivity|].
  rewrite removelast_last, rev_unit. cbn [tl]. now rewrite rev_involutive.
Qed.
Lemma src_vpop v : s_vpop v = vpop v.
Proof.
  unfold s_vpop, vpop, last_opt. rewrite removelast_rev. destruct (rev v); reflexivity.
Qed.
Lemma src_vsize v : s_vsize v = Ok (length v).
Proof. reflexivity. Qed.
Lemma src_vnew (n : nat) x : s_vnew n x = Ok (vnew n x).
Proof. reflexivity. Qed.
Lemma src_vzeros (n : nat) : @s_vzeros A n = Ok (vzeros n).
Proof. reflexivity. Qed.
Lemma src_vones (n : nat) : @s_vones A n = Ok (vones n).
Proof. reflexivity. Qed.

Definition model_is_source_VectorOps : Prop :=
  (forall v x, s_vfind v x = vfind v x) /\
  (forall v (n : nat), s_vresize v n = Ok (vresize v n)) /\
  (forall v (i : nat), s_vindex v i = vget v i) /\
  (forall v, s_vclear v = Ok (vclear v)) /\
  (forall v (i j : nat), s_vswap v i j = vswap v i j) /\
  (forall v x, s_vpush v x = Ok (vpush v x)) /\
  (forall v x, s_vpush_front v x = Ok (vpush_front v x)) /\
  (forall v (pos : nat) x, s_vinsert v pos x = vinsert v pos x) /\
  (forall v, s_vpop v = vpop v) /\
  (forall v, s_vsize v = Ok (length v)) /\
  (forall (n : nat) x, s_vnew n x = Ok (vnew n x)) /\
  (forall n : nat, @s_vzeros A n = Ok (vzeros n)) /\
  (forall n : nat, @s_vones A n = Ok (vones n)).
Lemma model_is_source_VectorOps_lemma : model_is_source_VectorOps.
Proof. exact (conj src_vfind (conj src_vresize (conj src_vindex (conj src_vclear (conj src_vswap (conj src_vpush (conj src_vpush_front (conj src_vinsert (conj src_vpop (conj src_vsize (conj src_vnew (conj src_vzeros src_vones)))))))))))). Qed.

End SrcEqVectorOps.
