(* Proofs/TridiagTrace.v -- what Thomas solve computes, over ANY arithmetic (no law assumed; the float
   instances included): whenever [tsolve t r = Ok u] there are the pivots beta_k, the multipliers gamma_k
   and the forward-sweep values y_k such that every local relation of the textbook recurrences holds with
   the arithmetic's own operations, in the code's association:
       beta_0 = main_0 (/= 0)                         y_0 = r_0 / beta_0
       gamma_k = sup_{k-1} / beta_{k-1}               beta_k = main_k - sub_{k-1} * gamma_k   (/= 0)
       y_k = (r_k - sub_{k-1} * y_{k-1}) / beta_k     u_{n-1} = y_{n-1},  u_k = y_k - gamma_{k+1} * u_{k+1}
   Loop reasoning ends here: the exact theorem (Proofs/TridiagSolve.v) and the rounding-error analysis
   (Proofs/TridiagRound.v) are algebra on these relations. *)
From Coq Require Import List Arith Lia Bool.
From OV Require Import Base.Panic Base.Arith Model.Vector Model.Matrix Model.Tridiag Proofs.Tridiag.
Import ListNotations.

Section Trace.
Context {A : Arith}.
Notation T := (T A).
Notation tridiag := (tridiag A).

Variable t : tridiag.
Variable r : list T.
Hypothesis Wt : wfT t.
Hypothesis Hn : 1 <= tn t.
Hypothesis Hr : length r = tn t.
Notation n := (tn t).
Notation sb k := (nth k (tsub t) zero).
Notation mn k := (nth k (tmain t) zero).
Notation sp k := (nth k (tsup t) zero).
Notation rr k := (nth k r zero).

(* the relations of the forward sweep on the lists of pivots [bl], multipliers [gl], values [yl], below index j *)
Definition fwd_rel (j : nat) (bl gl yl : list T) : Prop :=
  nth 0 bl zero = mn 0 /\ eqb (nth 0 bl zero) zero = false /\ div (rr 0) (nth 0 bl zero) = Ok (nth 0 yl zero) /\
  forall k, 1 <= k < j ->
    div (sp (k - 1)) (nth (k - 1) bl zero) = Ok (nth k gl zero) /\
    nth k bl zero = (mn k - sb (k - 1) * nth k gl zero)%A /\
    eqb (nth k bl zero) zero = false /\
    div (rr k - sb (k - 1) * nth (k - 1) yl zero)%A (nth k bl zero) = Ok (nth k yl zero).

Definition FwdT (j : nat) (s : list T * T * list T) : Prop :=
  let '(u, beta, gamma) := s in
  exists bl, length u = n /\ length gamma = n /\ length bl = j /\ 1 <= j /\
             nth (j - 1) bl zero = beta /\ fwd_rel j bl gamma u.

Lemma fwd_rel_ext j bl gl yl bl' gl' yl' :
  (forall k, k < j -> nth k bl' zero = nth k bl zero) ->
  (forall k, k < j -> nth k gl' zero = nth k gl zero) ->
  (forall k, k < j -> nth k yl' zero = nth k yl zero) ->
  1 <= j -> fwd_rel j bl gl yl -> fwd_rel j bl' gl' yl'.
Proof.
  intros Eb Eg Ey Hj (H1 & H2 & H3 & H4). unfold fwd_rel.
  rewrite (Eb 0), (Ey 0) by lia. split; [|split; [|split]]; auto.
  intros k Hk. rewrite (Eb k), (Eb (k - 1)), (Eg k), (Ey k), (Ey (k - 1)) by lia. now apply H4.
Qed.

Lemma fwd_step_trace j s s1 : 1 <= j < n -> FwdT j s ->
  thomas_fwd_body t r (vpush_front (tsub t) zero) (vpush (tsup t) zero) j s = Ok s1 -> FwdT (S j) s1.
Proof.
  destruct Wt as (Hm & Hs & Hp).
  intros Hj Inv E. destruct s as [[u beta] gamma]. destruct Inv as (bl & Lu & Lg & Lb & _ & Eb & Rel).
  unfold thomas_fwd_body, vpush_front, vpush in E.
  rewrite (rd_ok _ (j - 1) zero) in E by (rewrite app_length; cbn [length]; lia). cbn [bind] in E.
  rewrite app_nth1 in E by lia.
  destruct (div (sp (j - 1)) beta) as [g|] eqn:Eg; [|discriminate]. cbn [bind] in E.
  rewrite upd_ok in E by lia. cbn [bind] in E.
  rewrite (rd_ok (tmain t) j zero) in E by lia. cbn [bind] in E.
  rewrite (rd_ok (zero :: tsub t) j zero) in E by (cbn [length]; lia). cbn [bind] in E.
  rewrite (rd_ok _ j zero) in E by (rewrite upd_list_length; lia). cbn [bind] in E.
  rewrite nth_upd_list, Nat.eqb_refl in E by lia.
  replace (nth j (zero :: tsub t) zero) with (sb (j - 1)) in E
    by (destruct j as [|j']; [lia|]; cbn [nth]; now replace (S j' - 1) with j' by lia).
  destruct (eqb (mn j - sb (j - 1) * g)%A zero) eqn:Ez; [discriminate|].
  rewrite (rd_ok r j zero) in E by lia. cbn [bind] in E.
  rewrite (rd_ok u (j - 1) zero) in E by lia. cbn [bind] in E.
  destruct (div (rr j - sb (j - 1) * nth (j - 1) u zero)%A (mn j - sb (j - 1) * g)%A) as [q|] eqn:Eq; [|discriminate].
  cbn [bind] in E. rewrite upd_ok in E by lia. cbn [bind] in E. injection E as <-.
  exists (bl ++ [(mn j - sb (j - 1) * g)%A]).
  rewrite !upd_list_length, app_length. cbn [length].
  replace (S j - 1) with j by lia.
  split; [exact Lu|]. split; [exact Lg|]. split; [lia|]. split; [lia|].
  split; [rewrite app_nth2 by lia; now replace (j - length bl) with 0 by lia|].
  assert (Rel' : fwd_rel j (bl ++ [(mn j - sb (j - 1) * g)%A]) (upd_list gamma j g) (upd_list u j q)).
  { apply (fwd_rel_ext j bl gamma u); auto; try lia.
    - intros k Hk. now rewrite app_nth1 by lia.
    - intros k Hk. rewrite nth_upd_list by lia. destruct (Nat.eqb_spec k j); [lia|reflexivity].
    - intros k Hk. rewrite nth_upd_list by lia. destruct (Nat.eqb_spec k j); [lia|reflexivity]. }
  destruct Rel' as (H1 & H2 & H3 & H4). unfold fwd_rel. split; [|split; [|split]]; auto.
  intros k Hk. destruct (Nat.eq_dec k j) as [->|NE]; [|apply H4; lia].
  rewrite !nth_upd_list by lia. rewrite Nat.eqb_refl.
  destruct (Nat.eqb_spec (j - 1) j); [lia|].
  assert (Nj : nth j (bl ++ [(mn j - sb (j - 1) * g)%A]) zero = (mn j - sb (j - 1) * g)%A)
    by (rewrite app_nth2 by lia; now replace (j - length bl) with 0 by lia).
  assert (Nj1 : nth (j - 1) (bl ++ [(mn j - sb (j - 1) * g)%A]) zero = beta)
    by (rewrite app_nth1 by lia; exact Eb).
  rewrite Nj, Nj1. repeat split; auto.
Qed.

(* back substitution: relations above index k *)
Definition BackT (gl yl : list T) (k : nat) (u : list T) : Prop :=
  length u = n /\ (forall i, i < k -> nth i u zero = nth i yl zero) /\
  nth (n - 1) u zero = nth (n - 1) yl zero /\
  (forall i, k <= i -> i + 1 < n -> nth i u zero = (nth i yl zero - nth (i + 1) gl zero * nth (i + 1) u zero)%A).

Lemma back_step_trace gl yl k u u1 : length gl = n -> k < n - 1 -> BackT gl yl (S k) u ->
  thomas_back_body gl (0 + k) u = Ok u1 -> BackT gl yl k u1.
Proof.
  intros Lg Hk (Lu & V1 & V2 & V3) E. cbn [Nat.add] in E. unfold thomas_back_body in E.
  rewrite (rd_ok gl (k + 1) zero) in E by lia. cbn [bind] in E.
  rewrite (rd_ok u (k + 1) zero) in E by lia. cbn [bind] in E.
  rewrite (rd_ok u k zero) in E by lia. cbn [bind] in E.
  rewrite upd_ok in E by lia. injection E as <-.
  unfold BackT. rewrite upd_list_length. repeat split; auto.
  - intros i Hi. rewrite nth_upd_list by lia. destruct (Nat.eqb_spec i k); [lia|]. apply V1; lia.
  - rewrite nth_upd_list by lia. destruct (Nat.eqb_spec (n - 1) k); [lia|]. exact V2.
  - intros i H1 H2. rewrite !nth_upd_list by lia.
    destruct (Nat.eqb_spec (i + 1) k); [lia|].
    destruct (Nat.eqb_spec i k) as [->|NE].
    + rewrite (V1 k) by lia. reflexivity.
    + apply V3; lia.
Qed.

Theorem thomas_trace_lemma u : tsolve t r = Ok u ->
  exists bl gl yl : list T,
    length u = n /\ length bl = n /\ length gl = n /\ length yl = n /\
    fwd_rel n bl gl yl /\
    nth (n - 1) u zero = nth (n - 1) yl zero /\
    (forall i, i + 1 < n -> nth i u zero = (nth i yl zero - nth (i + 1) gl zero * nth (i + 1) u zero)%A).
Proof.
  destruct Wt as (Hm & Hs & Hp).
  unfold tsolve. rewrite Hr, Nat.eqb_refl. cbn [negb].
  rewrite (rd_ok (tmain t) 0 zero) by lia. cbn [bind].
  destruct (eqb (mn 0) zero) eqn:E0; [discriminate|].
  rewrite (rd_ok r 0 zero) by lia. cbn [bind].
  destruct (div (rr 0) (mn 0)) as [q|] eqn:Eq; [|discriminate]. cbn [bind].
  rewrite upd_ok by (rewrite repeat_length; lia). cbn [bind].
  intros E. apply bind_ok in E as (s' & Es & E).
  assert (Inv : FwdT n s').
  { apply (for_inv_partial FwdT 1 n _ _ s' Hn) in Es; [exact Es| |].
    - exists [mn 0]. rewrite upd_list_length, !repeat_length. cbn [length Nat.sub nth].
      repeat split; auto; try lia.
      + now rewrite nth_upd_list by (rewrite repeat_length; lia).
    - intros i s s1 Hi. now apply fwd_step_trace. }
  destruct s' as [[uf beta] gamma]. destruct Inv as (bl & Lu & Lg & Lb & _ & _ & Rel).
  unfold usub in E. destruct (Nat.leb_spec 1 n); [|lia]. cbn [bind] in E.
  unfold for_rev in E. rewrite Nat.sub_0_r in E.
  apply (for_rev_from_inv_partial (BackT gamma uf) (n - 1) 0 _ uf u) in E.
  - destruct E as (Lu' & _ & V2 & V3).
    exists bl, gamma, uf. split; [exact Lu'|]. split; [exact Lb|]. split; [exact Lg|]. split; [exact Lu|].
    split; [exact Rel|]. split; [exact V2|]. intros i Hi. apply V3; lia.
  - unfold BackT. split; [exact Lu|]. split; [auto|]. split; [reflexivity|]. intros i H1 H2. lia.
  - intros k w w1 Hk. now apply back_step_trace.
Qed.

(* ---------- the refusal: where Panic Guard comes from ---------- *)
Hypothesis div_answers : forall x y : T, eqb y zero = false -> exists z, div x y = Ok z.

Lemma fwd_rel_nz j bl gl yl k : fwd_rel j bl gl yl -> k < j -> eqb (nth k bl zero) zero = false.
Proof.
  intros (H1 & H2 & H3 & H4) Hk. destruct k as [|k]; [exact H2|]. now destruct (H4 (S k) ltac:(lia)) as (_ & _ & Z & _).
Qed.

Lemma fwd_step_refusal j s : 1 <= j < n -> FwdT j s ->
  thomas_fwd_body t r (vpush_front (tsub t) zero) (vpush (tsup t) zero) j s = Panic Guard ->
  let '(u, beta, gamma) := s in
  exists g, div (sp (j - 1)) beta = Ok g /\ eqb (mn j - sb (j - 1) * g)%A zero = true.
Proof.
  destruct Wt as (Hm & Hs & Hp).
  intros Hj Inv E. destruct s as [[u beta] gamma]. destruct Inv as (bl & Lu & Lg & Lb & _ & Eb & Rel).
  assert (Zb : eqb beta zero = false) by (rewrite <- Eb; apply (fwd_rel_nz j bl gamma u); [exact Rel|lia]).
  unfold thomas_fwd_body, vpush_front, vpush in E.
  rewrite (rd_ok _ (j - 1) zero) in E by (rewrite app_length; cbn [length]; lia). cbn [bind] in E.
  rewrite app_nth1 in E by lia.
  destruct (div_answers (sp (j - 1)) beta Zb) as (g & Eg). rewrite Eg in E. cbn [bind] in E.
  rewrite upd_ok in E by lia. cbn [bind] in E.
  rewrite (rd_ok (tmain t) j zero) in E by lia. cbn [bind] in E.
  rewrite (rd_ok (zero :: tsub t) j zero) in E by (cbn [length]; lia). cbn [bind] in E.
  rewrite (rd_ok _ j zero) in E by (rewrite upd_list_length; lia). cbn [bind] in E.
  rewrite nth_upd_list, Nat.eqb_refl in E by lia.
  replace (nth j (zero :: tsub t) zero) with (sb (j - 1)) in E
    by (destruct j as [|j']; [lia|]; cbn [nth]; now replace (S j' - 1) with j' by lia).
  exists g. split; [exact Eg|].
  destruct (eqb (mn j - sb (j - 1) * g)%A zero) eqn:Ez; [reflexivity|]. exfalso.
  rewrite (rd_ok r j zero) in E by lia. cbn [bind] in E.
  rewrite (rd_ok u (j - 1) zero) in E by lia. cbn [bind] in E.
  destruct (div_answers (rr j - sb (j - 1) * nth (j - 1) u zero)%A (mn j - sb (j - 1) * g)%A Ez) as (q & Eq).
  rewrite Eq in E. cbn [bind] in E. rewrite upd_ok in E by lia. discriminate.
Qed.

Lemma fwd_loop_refusal m : forall j s, 1 <= j -> j + m = n -> FwdT j s ->
  for_from m j (thomas_fwd_body t r (vpush_front (tsub t) zero) (vpush (tsup t) zero)) s = Panic Guard ->
  exists k sk, j <= k < n /\ FwdT k sk /\
    thomas_fwd_body t r (vpush_front (tsub t) zero) (vpush (tsup t) zero) k sk = Panic Guard.
Proof.
  induction m as [|m IH]; intros j s Hj Hm Inv E; cbn [for_from] in E; [discriminate|].
  destruct (thomas_fwd_body t r (vpush_front (tsub t) zero) (vpush (tsup t) zero) j s) as [s'|p] eqn:Eb.
  - cbn [bind] in E. destruct (IH (S j) s') as (k & sk & Hk & Ik & Ek); [lia|lia| |exact E|].
    + apply (fwd_step_trace j s s'); [lia|exact Inv|exact Eb].
    + exists k, sk. split; [lia|]. split; assumption.
  - cbn [bind] in E. injection E as ->. exists j, s. split; [lia|]. split; assumption.
Qed.

(* whenever solve refuses (on well-formed input): the leading diagonal entry is == 0, or the forward sweep reached a
   step k >= 1 with all relations of the trace below k and the candidate pivot main_k - sub_{k-1} * gamma_k == 0 *)
Theorem thomas_refusal_trace_lemma : tsolve t r = Panic Guard ->
  eqb (mn 0) zero = true \/
  exists k bl gl yl g, 1 <= k < n /\ length bl = k /\ fwd_rel k bl gl yl /\
    div (sp (k - 1)) (nth (k - 1) bl zero) = Ok g /\ eqb (mn k - sb (k - 1) * g)%A zero = true.
Proof.
  destruct Wt as (Hm & Hs & Hp).
  unfold tsolve. rewrite Hr, Nat.eqb_refl. cbn [negb].
  rewrite (rd_ok (tmain t) 0 zero) by lia. cbn [bind].
  destruct (eqb (mn 0) zero) eqn:E0; [left; reflexivity|]. right.
  rewrite (rd_ok r 0 zero) in H by lia. cbn [bind] in H.
  destruct (div_answers (rr 0) (mn 0) E0) as (q & Eq). rewrite Eq in H. cbn [bind] in H.
  rewrite upd_ok in H by (rewrite repeat_length; lia). cbn [bind] in H.
  set (s0 := (upd_list (repeat zero n) 0 q, mn 0, repeat zero n)) in *.
  assert (Inv0 : FwdT 1 s0).
  { exists [mn 0]. unfold s0. rewrite upd_list_length, !repeat_length. cbn [length Nat.sub nth].
    split; [reflexivity|]. split; [reflexivity|]. split; [reflexivity|]. split; [lia|]. split; [reflexivity|].
    unfold fwd_rel. cbn [nth]. split; [reflexivity|]. split; [exact E0|].
    split; [now rewrite nth_upd_list by (rewrite repeat_length; lia)|]. intros k Hk. lia. }
  unfold for_ in H.
  destruct (for_from (n - 1) 1 (thomas_fwd_body t r (vpush_front (tsub t) zero) (vpush (tsup t) zero)) s0)
    as [s'|p] eqn:El.
  - (* the forward sweep completed: the back substitution cannot refuse *)
    exfalso. cbn [bind] in H.
    assert (Inv : FwdT (1 + (n - 1)) s').
    { refine (for_from_inv_partial FwdT (n - 1) 1 _ s0 s' Inv0 _ El).
      intros i s s1 Hi. apply fwd_step_trace. lia. }
    replace (1 + (n - 1)) with n in Inv by lia.
    destruct s' as [[uf beta] gamma]. destruct Inv as (bl & Lu & Lg & _).
    unfold usub in H. destruct (Nat.leb_spec 1 n); [|lia]. cbn [bind] in H.
    unfold for_rev in H. rewrite Nat.sub_0_r in H.
    destruct (for_rev_from_inv (fun (_ : nat) (w : list T) => length w = n) (n - 1) 0 (thomas_back_body gamma) uf Lu)
      as (u' & Eu & _); [|rewrite Eu in H; discriminate].
    intros k w Hk Lw. cbn [Nat.add]. unfold thomas_back_body.
    rewrite (rd_ok gamma (k + 1) zero) by lia. cbn [bind].
    rewrite (rd_ok w (k + 1) zero) by lia. cbn [bind].
    rewrite (rd_ok w k zero) by lia. cbn [bind].
    rewrite upd_ok by lia. eexists; split; [reflexivity|]. now rewrite upd_list_length.
  - cbn [bind] in H. injection H as ->.
    destruct (fwd_loop_refusal (n - 1) 1 s0 ltac:(lia) ltac:(lia) Inv0 El) as (k & sk & Hk & Ik & Ek).
    pose proof (fwd_step_refusal k sk ltac:(lia) Ik Ek) as Hg.
    destruct sk as [[u beta] gamma]. destruct Ik as (bl & Lu & Lg & Lb & _ & Ebeta & Rel).
    destruct Hg as (g & Eg & Ez).
    exists k, bl, gamma, u, g. split; [lia|]. split; [exact Lb|]. split; [exact Rel|].
    split; [rewrite Ebeta; exact Eg|exact Ez].
Qed.

End Trace.
