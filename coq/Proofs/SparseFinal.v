(* Proofs/SparseFinal.v -- (1) histories of insert/scale/transpose on a well-formed, duplicate-free
   matrix return and refine the same history of finite-map operations on the abstract matrix
   (i,j) |-> sp_get s i j  (C06, P2: sp_refines_map);  (2) for duplicate-free storage the entries
   of to_dense are the abstract entries the products are stated against (C07: to_dense_entry). *)
From Coq Require Import List Arith Lia Bool Permutation.
From OV Require Import Base.Panic Base.Arith Model.Vector Model.Matrix Model.Sparse
                       Proofs.SparseBase Proofs.SparseMul Proofs.SparseWf Proofs.SparseHist Proofs.SparseViews
                       Proofs.SparseRefine Proofs.SparseTranspose.
Import ListNotations.

Section HistRefine.
Context {A : Arith}.
Notation T := (T A).
Notation sparse := (sparse A).

(* the abstract matrix: a partial map from positions to values, as lookup presents it *)
Definition amap : Type := nat -> nat -> res (option T).
Definition absS (s : sparse) : amap := fun i j => sp_get s i j.

(* the same operations on the abstract matrix *)
Definition spec_step (F : amap) (o : sop A) : amap :=
  match o with
  | SInsert i j v => fun i' j' => if (i' =? i) && (j' =? j) then Ok (Some v) else F i' j'
  | SScale a => fun i' j' => match F i' j' with Ok (Some v) => Ok (Some (mul v a)) | r => r end
  | STranspose => fun i' j' => F j' i'
  end.
Definition spec_run (ops : list (sop A)) (F : amap) : amap := fold_left spec_step ops F.

(* every insertion addresses a position inside the current shape *)
Fixpoint ops_ok (r c : nat) (ops : list (sop A)) : Prop :=
  match ops with
  | [] => True
  | SInsert i j _ :: t => i < r /\ j < c /\ ops_ok r c t
  | SScale _ :: t => ops_ok r c t
  | STranspose :: t => ops_ok c r t
  end.
Fixpoint dims_after (r c : nat) (ops : list (sop A)) : nat * nat :=
  match ops with
  | [] => (r, c)
  | STranspose :: t => dims_after c r t
  | _ :: t => dims_after r c t
  end.

Definition agree (r c : nat) (F G : amap) : Prop := forall i j, i < r -> j < c -> F i j = G i j.

Lemma spec_run_agree ops : forall r c F G, agree r c F G ->
  agree (fst (dims_after r c ops)) (snd (dims_after r c ops)) (spec_run ops F) (spec_run ops G).
Proof.
  induction ops as [|o t IH]; intros r c F G H; cbn [spec_run fold_left dims_after fst snd]; auto.
  destruct o as [i j v|a|]; cbn [dims_after]; apply IH.
  - intros i' j' Hi Hj. cbn [spec_step]. destruct ((i' =? i) && (j' =? j)); auto.
  - intros i' j' Hi Hj. cbn [spec_step]. now rewrite H.
  - intros i' j' Hi Hj. cbn [spec_step]. now apply H.
Qed.

Lemma sp_step_refines (s : sparse) o : wfS s -> NoDupKeys s -> ops_ok (sp_rows s) (sp_cols s) [o] ->
  exists s', sp_step s o = Ok s' /\ wfS s' /\ NoDupKeys s' /\
    (sp_rows s', sp_cols s') = dims_after (sp_rows s) (sp_cols s) [o] /\
    agree (sp_rows s') (sp_cols s') (absS s') (spec_step (absS s) o).
Proof.
  intros Hwf Hnd Hok. destruct o as [i j v|a|]; cbn [sp_step ops_ok dims_after] in *.
  - destruct Hok as (Hi & Hj & _).
    destruct (sp_insert_refines_lemma s i j v Hwf Hnd Hi Hj) as (s' & E & Hwf' & Hnd' & Hr & Hc & Hg).
    exists s'. split; [auto|]. split; [auto|]. split; [auto|]. split; [congruence|].
    intros i' j' Hi' Hj'. unfold absS. cbn [spec_step]. apply Hg; congruence.
  - destruct (sp_scale_refines_lemma s a Hwf Hnd) as (s' & E & Hwf' & Hnd' & Hr & Hc & Hg).
    exists s'. split; [auto|]. split; [auto|]. split; [auto|]. split; [congruence|].
    intros i' j' Hi' Hj'. unfold absS. cbn [spec_step]. apply Hg; congruence.
  - destruct (sp_transpose_refines_lemma s Hwf Hnd) as (s' & E & Hwf' & Hnd' & Hr & Hc & Hg).
    exists s'. split; [auto|]. split; [auto|]. split; [auto|]. split; [congruence|].
    intros i' j' Hi' Hj'. unfold absS. cbn [spec_step]. apply Hg; congruence.
Qed.

Theorem sp_refines_map_lemma (ops : list (sop A)) : forall (s : sparse), wfS s -> NoDupKeys s ->
  ops_ok (sp_rows s) (sp_cols s) ops ->
  exists s', sp_run ops s = Ok s' /\ wfS s' /\ NoDupKeys s' /\
    (sp_rows s', sp_cols s') = dims_after (sp_rows s) (sp_cols s) ops /\
    agree (sp_rows s') (sp_cols s') (absS s') (spec_run ops (absS s)).
Proof.
  unfold sp_run. induction ops as [|o t IH]; intros s Hwf Hnd Hok.
  - exists s. cbn [foldM dims_after spec_run fold_left]. split; [auto|]. split; [auto|]. split; [auto|]. split; [auto|]. intros i j _ _. reflexivity.
  - assert (Hok1 : ops_ok (sp_rows s) (sp_cols s) [o]).
    { destruct o; cbn [ops_ok] in *; tauto. }
    destruct (sp_step_refines s o Hwf Hnd Hok1) as (s1 & E1 & Hwf1 & Hnd1 & Hd1 & Ha1).
    assert (Hokt : ops_ok (sp_rows s1) (sp_cols s1) t).
    { destruct o; cbn [ops_ok dims_after] in *; injection Hd1 as -> ->; tauto. }
    destruct (IH s1 Hwf1 Hnd1 Hokt) as (s' & E' & Hwf' & Hnd' & Hd' & Ha').
    exists s'. cbn [foldM]. rewrite E1. cbn [bind]. split; auto. split; auto. split; auto. split.
    + rewrite Hd'. destruct o; cbn [dims_after] in *; injection Hd1 as -> ->; reflexivity.
    + intros i j Hi Hj. rewrite Ha' by auto. cbn [spec_run fold_left].
      pose proof (spec_run_agree t _ _ _ _ Ha1) as Hag. rewrite <- Hd' in Hag. cbn [fst snd] in Hag.
      apply Hag; auto.
Qed.

(* without the duplicate-freeness hypothesis: every in-range history on a well-formed matrix returns *)
Lemma sp_step_total (s : sparse) o : wfS s -> ops_ok (sp_rows s) (sp_cols s) [o] ->
  exists s', sp_step s o = Ok s' /\ wfS s' /\ (sp_rows s', sp_cols s') = dims_after (sp_rows s) (sp_cols s) [o].
Proof.
  intros Hwf Hok. destruct o as [i j v|a|]; cbn [sp_step ops_ok dims_after] in *.
  - destruct Hok as (Hi & Hj & _). destruct (sp_insert_total_lemma s i j v Hwf Hi Hj) as (s' & E).
    destruct (sp_insert_wf s i j v s' Hwf E) as (Hwf' & Hr & Hc).
    exists s'. split; [auto|]. split; [auto|]. congruence.
  - eexists. split; [now apply sp_scale_ok|]. split; [|reflexivity].
    eapply sp_scale_wf; eauto. now apply sp_scale_ok.
  - destruct (sp_transpose_spec_lemma s Hwf) as (s' & E & Hwf' & Hr & Hc & _).
    exists s'. split; [auto|]. split; [auto|]. congruence.
Qed.

Theorem history_total_lemma (ops : list (sop A)) : forall (s : sparse), wfS s ->
  ops_ok (sp_rows s) (sp_cols s) ops ->
  exists s', sp_run ops s = Ok s' /\ wfS s' /\ (sp_rows s', sp_cols s') = dims_after (sp_rows s) (sp_cols s) ops.
Proof.
  unfold sp_run. induction ops as [|o t IH]; intros s Hwf Hok.
  - exists s. cbn [foldM dims_after]. auto.
  - assert (Hok1 : ops_ok (sp_rows s) (sp_cols s) [o]).
    { destruct o; cbn [ops_ok] in *; tauto. }
    destruct (sp_step_total s o Hwf Hok1) as (s1 & E1 & Hwf1 & Hd1).
    assert (Hokt : ops_ok (sp_rows s1) (sp_cols s1) t).
    { destruct o; cbn [ops_ok dims_after] in *; injection Hd1 as -> ->; tauto. }
    destruct (IH s1 Hwf1 Hokt) as (s' & E' & Hwf' & Hd').
    exists s'. cbn [foldM]. rewrite E1. cbn [bind]. split; [auto|]. split; [auto|].
    rewrite Hd'. destruct o; cbn [dims_after] in *; injection Hd1 as -> ->; reflexivity.
Qed.

End HistRefine.

(* ---------- to_dense and the abstract entry ---------- *)
Section DenseEntry.
Context {A : Arith}.
Variable RL : RingLaws A.
Notation T := (T A).
Notation sparse := (sparse A).
Add Ring Aring3 : (rl_ring A RL).

Lemma filter_none {X} (f : X -> bool) l : (forall x, In x l -> f x = false) -> filter f l = [].
Proof.
  induction l as [|a t IH]; intros H; cbn; auto.
  rewrite (H a) by (left; auto). apply IH. intros; apply H; right; auto.
Qed.

Lemma tmatch_key i j (t : triplet A) : tmatch i j t = true <-> tkey t = (i, j).
Proof.
  unfold tmatch, tkey. rewrite andb_true_iff, !Nat.eqb_eq. split.
  - intros [-> ->]. reflexivity.
  - intros E. injection E as -> ->. auto.
Qed.

Lemma filter_unique (l : list (triplet A)) i j t :
  NoDup (map tkey l) -> In t l -> tmatch i j t = true -> filter (tmatch i j) l = [t].
Proof.
  induction l as [|a l IH]; intros Hnd Hin Hm; [destruct Hin|].
  cbn [map] in Hnd. inversion Hnd as [|? ? Hna Hnt]; subst. cbn [filter].
  destruct Hin as [->|Hin].
  - rewrite Hm. f_equal. apply filter_none. intros t' Ht'.
    destruct (tmatch i j t') eqn:E; auto. exfalso. apply Hna.
    apply tmatch_key in Hm. apply tmatch_key in E. rewrite Hm, <- E. now apply in_map.
  - destruct (tmatch i j a) eqn:E.
    + exfalso. apply Hna. apply tmatch_key in Hm. apply tmatch_key in E. rewrite E, <- Hm. now apply in_map.
    + now apply IH.
Qed.

(* the abstract entry of a duplicate-free matrix is what lookup returns (zero where nothing is stored) *)
Lemma sp_entry_get (s : sparse) i j : wfS s -> NoDupKeys s -> i < sp_rows s -> j < sp_cols s ->
  exists o, sp_get s i j = Ok o /\ sp_entry s i j = match o with Some v => v | None => zero end.
Proof.
  intros Hwf Hnd Hi Hj. destruct (sp_get_total s i j Hwf Hi Hj) as (o & Eo). exists o. split; auto.
  rewrite (sp_entry_ents RL) by auto. destruct o as [v|].
  - apply get_iff_in in Eo; auto.
    rewrite (filter_unique _ i j (i, j, v)); auto.
    + cbn [map]. unfold suml, tval. cbn. ring.
    + unfold tmatch, trow, tcol. cbn [fst snd]. now rewrite !Nat.eqb_refl.
  - rewrite filter_none; [reflexivity|].
    intros [[a b] w] Ht. destruct (tmatch i j (a, b, w)) eqn:E; auto. exfalso.
    apply tmatch_key in E. unfold tkey, trow, tcol in E. cbn in E. injection E as -> ->.
    apply get_iff_in in Ht; auto. congruence.
Qed.

Theorem to_dense_entry_lemma (s : sparse) : wfS s -> NoDupKeys s ->
  exists D, sp_to_dense s = Ok D /\ rows D = sp_rows s /\ cols D = sp_cols s /\
    forall i j, i < sp_rows s -> j < sp_cols s -> mget D i j = Ok (sp_entry s i j).
Proof.
  intros Hwf Hnd. destruct (views_agree_lemma s Hwf Hnd) as (_ & _ & D & ED & Hr & Hc & H).
  exists D. split; auto. split; auto. split; auto.
  intros i j Hi Hj. destruct (H i j Hi Hj) as (_ & o & Eo & Em).
  destruct (sp_entry_get s i j Hwf Hnd Hi Hj) as (o' & Eo' & Ee).
  rewrite Em, Ee. assert (o = o') by congruence. now subst.
Qed.

End DenseEntry.
