(* Proofs/RoundBacksolve.v -- the two triangular solves of Model/Solve.v in the STANDARD MODEL of floating-point
   arithmetic (Base/RoundModel.v), the same Gallina functions instantiated at [ARm]:

   * [backsolve] (back substitution with the upper triangle of the stored matrix, as solve_basic and solve_lu call it):
       backsolve_backward_error_lemma :  (U + dU) x^ = b ,  |dU_ij| <= gam n |u_ij|  componentwise     (Higham Thm 8.5)
     with the sharper per-entry counts of Higham Lemma 8.2 in [backsolve_round_rows]: the diagonal entry of row i
     carries n-i rounding factors, the entry (i, i+1+t) carries t+1.
   * [fwd_loop] (the unit-lower forward substitution inside solve_lu, as isolated in Proofs/LUSolve.v):
       fwdsolve_backward_error_lemma  :  (L + dL) y^ = b ,  |dL_ij| <= gam n |l_ij| , L = unit lower triangle of LU.
   * [solve_lu_triangular_backward_error_lemma]: what solve_lu returns went through exactly these two solves.

   U is the upper triangle of the matrix handed to backsolve: the triangular HALF of the backward-error claim of C01.
   U and L here are the COMPUTED factors; the errors of the factorisation itself are the subject of
   Proofs/RoundLUError.v (lu_decomp, Higham Thm 9.3), Proofs/RoundSolveLU.v and Proofs/RoundSolveBasic.v (the solvers as a
   whole, Thm 9.4).  Nowhere is |L^||U^| compared with |A|: the growth factor is not covered.
   The hypotheses are total functions on R obeying the standard model; division only needs it for divisors <> 0
   and the theorems assume a nonzero diagonal. *)
From Coq Require Import List Arith Lia Reals Lra Psatz Bool.
From OV Require Import Base.Panic Base.Arith Base.RoundModel Model.Vector Model.Matrix Model.Solve
  Proofs.Matrix Proofs.LUPrim Proofs.LUSolve Proofs.RoundDot Proofs.RoundMatvec.
Import ListNotations.
Local Open Scope R_scope.

Lemma Rsum_zero n f : (forall k, (k < n)%nat -> f k = 0) -> Rsum n f = 0.
Proof.
  induction n as [|n IH]; cbn; intros H; [reflexivity|].
  rewrite IH by (intros; apply H; lia). rewrite H by lia. ring.
Qed.

(* Sum_{j<n} [i <= j] f j = Sum_{t<n-i} f (i+t) *)
Lemma Rsum_tail n i f : (i <= n)%nat ->
  Rsum n (fun j => if (i <=? j)%nat then f j else 0) = Rsum (n - i) (fun t => f (i + t)%nat).
Proof.
  induction n as [|n IH]; intros Hi.
  - reflexivity.
  - destruct (Nat.eq_dec i (S n)) as [->|Ne].
    + rewrite Nat.sub_diag. cbn [Rsum]. rewrite Rsum_zero.
      * destruct (Nat.leb_spec (S n) n); [lia|ring].
      * intros k Hk. destruct (Nat.leb_spec (S n) k); [lia|reflexivity].
    + replace (S n - i)%nat with (S (n - i)) by lia. cbn [Rsum]. rewrite IH by lia.
      destruct (Nat.leb_spec i n); [|lia]. now replace (i + (n - i))%nat with n by lia.
Qed.

(* Sum_{j<n} [j <= i] f j = Sum_{j<=i} f j *)
Lemma Rsum_head n i f : (i < n)%nat ->
  Rsum n (fun j => if (j <=? i)%nat then f j else 0) = Rsum (S i) f.
Proof.
  induction n as [|n IH]; intros Hi; [lia|].
  destruct (Nat.eq_dec i n) as [->|Ne].
  - cbn [Rsum]. rewrite Nat.leb_refl. f_equal. apply Rsum_ext. intros k Hk.
    destruct (Nat.leb_spec k n); [reflexivity|lia].
  - change (Rsum (S n) (fun j => if (j <=? i)%nat then f j else 0))
      with (Rsum n (fun j => if (j <=? i)%nat then f j else 0) + (if (n <=? i)%nat then f n else 0)).
    rewrite IH by lia. destruct (Nat.leb_spec n i); [lia|ring].
Qed.

Section RoundTri.
Variable u : R.
Hypothesis u_range : 0 <= u < 1.
Variables fadd fsub fmul fdiv : R -> R -> R.
Hypothesis fsub_ok : forall x y, exists d, Rabs d <= u /\ fsub x y = (x - y) * (1 + d).
Hypothesis fmul_ok : forall x y, exists d, Rabs d <= u /\ fmul x y = x * y * (1 + d).
Hypothesis fdiv_ok : forall x y, y <> 0 -> exists d, Rabs d <= u /\ fdiv x y = x / y * (1 + d).

Notation AR := (ARm fadd fsub fmul fdiv).
Notation bnd := (bnd u).
Notation gam := (gam u).
Notation rentry := (rentry fadd fsub fmul fdiv).

(* ---------------------------------------------------------------- the shared inner loop:
   for j in lo..hi { x[tgt] = x[tgt] - m[(tgt,j)] * x[j] }   (tgt outside lo..hi) *)
Definition elim_body (m : matrix AR) (tgt : nat) : nat -> list R -> res (list R) :=
  fun j x => let* xj := rd x j in let* xk := rd x tgt in let* a := mget m tgt j in
             upd x tgt (fsub xk (fmul a xj)).

Lemma elim_loop (m : matrix AR) (n tgt lo hi : nat) (X : list R) :
  shape m n n -> (tgt < n)%nat -> (lo <= hi)%nat -> (hi <= n)%nat -> (tgt < lo \/ hi <= tgt)%nat -> length X = n ->
  exists X', for_ lo hi (elim_body m tgt) X = Ok X' /\ length X' = n /\
    (forall i, i <> tgt -> nth i X' 0 = nth i X 0) /\
    exists P W, bnd (hi - lo) P /\ (forall t, (t < hi - lo)%nat -> bnd (t + 1) (W t)) /\
      nth tgt X' 0 = P * (nth tgt X 0 - Rsum (hi - lo) (fun t => rentry m tgt (lo + t) * nth (lo + t)%nat X 0 * W t)).
Proof using u_range fsub_ok fmul_ok.
  intros SH Ht Hlh Hhn Hout LX.
  destruct (for_inv (fun j (X' : list R) => length X' = n /\
              (forall i, i <> tgt -> nth i X' 0 = nth i X 0) /\
              exists P W, bnd (j - lo) P /\ (forall t, (t < j - lo)%nat -> bnd (t + 1) (W t)) /\
                nth tgt X' 0 = P * (nth tgt X 0 - Rsum (j - lo) (fun t => rentry m tgt (lo + t) * nth (lo + t)%nat X 0 * W t)))
            lo hi (elim_body m tgt) X) as (X' & E & HI).
  - exact Hlh.
  - split; [exact LX|]. split; [auto|]. exists 1, (fun _ => 1). rewrite Nat.sub_diag.
    split; [apply bnd_0|]. split; [intros; lia|]. cbn [Rsum]. ring.
  - intros j X0 Hj (L0 & O0 & P & W & HP & HW & EP).
    unfold elim_body. rewrite (rd_ok X0 j 0) by lia. cbn [bind]. rewrite (rd_ok X0 tgt 0) by lia. cbn [bind].
    rewrite (mget_ok (A := AR) m n n tgt j SH) by lia. cbn [bind].
    rewrite upd_ok by lia. eexists; split; [reflexivity|].
    split; [rewrite upd_list_length; exact L0|]. split.
    { intros i Hi. rewrite nth_upd_list by lia. destruct (Nat.eqb_spec i tgt); [lia|]. now apply O0. }
    change (ent (A := AR) m tgt j) with (rentry m tgt j).
    destruct (fmul_bnd u u_range fmul fmul_ok (rentry m tgt j) (nth j X0 0)) as (em & Hem & Em).
    destruct (fsub_bnd u u_range fsub fsub_ok (nth tgt X0 0) (fmul (rentry m tgt j) (nth j X0 0))) as (es & Hes & Es).
    exists (P * es), (fun t => if (t =? j - lo)%nat then em / P else W t).
    split; [replace (S j - lo)%nat with ((j - lo) + 1)%nat by lia; now apply bnd_mul|]. split.
    { intros t Ht'. destruct (Nat.eqb_spec t (j - lo)) as [->|Ne].
      - replace (j - lo + 1)%nat with (1 + (j - lo))%nat by lia. now apply bnd_div.
      - apply HW. lia. }
    rewrite nth_upd_list by lia. rewrite Nat.eqb_refl. rewrite Es, Em, EP.
    replace (S j - lo)%nat with (S (j - lo)) by lia. cbn [Rsum]. rewrite Nat.eqb_refl.
    rewrite (Rsum_ext (j - lo)
               (fun t => rentry m tgt (lo + t) * nth (lo + t)%nat X 0 * (if (t =? j - lo)%nat then em / P else W t))
               (fun t => rentry m tgt (lo + t) * nth (lo + t)%nat X 0 * W t)).
    2:{ intros t Ht'. destruct (Nat.eqb_spec t (j - lo)); [lia|reflexivity]. }
    replace (lo + (j - lo))%nat with j by lia. rewrite (O0 j) by lia.
    pose proof (bnd_nz u u_range _ _ HP). field. assumption.
  - exists X'. split; [exact E|]. exact HI.
Qed.

(* ---------------------------------------------------------------- backsolve *)
Definition bs_body (m : matrix AR) (n' : nat) (x : list R) : res (list R) :=
  let* k := usub (rows m) n' in
  let* x := for_ (rows m - n' + 1) (rows m) (elim_body m k) x in
  let* xk := rd x k in
  let* d := mget m k k in
  let* q := div (a := AR) xk d in
  upd x k q.

Lemma backsolve_unfold_round (m : matrix AR) (x : list R) :
  backsolve m x =
  (let* last := usub (rows m) 1 in
   let* xl := rd x last in
   let* d := mget m last last in
   let* q := div (a := AR) xl d in
   let* x := upd x last q in
   for_ 2 (rows m + 1) (bs_body m) x).
Proof. reflexivity. Qed.

(* row i of the perturbed upper-triangular system, with the rounding-factor counts of Higham Lemma 8.2 *)
Definition urow_ok (m : matrix AR) (n : nat) (b x : list R) (i : nat) : Prop :=
  exists Wd W, bnd (n - i) Wd /\ (forall t, (t < n - 1 - i)%nat -> bnd (t + 1) (W t)) /\
    rentry m i i * Wd * nth i x 0
    + Rsum (n - 1 - i) (fun t => rentry m i (i + 1 + t) * W t * nth (i + 1 + t)%nat x 0) = nth i b 0.

Lemma urow_ok_ext m n b x x' i : (forall j, (i <= j)%nat -> nth j x' 0 = nth j x 0) ->
  urow_ok m n b x i -> urow_ok m n b x' i.
Proof.
  intros H (Wd & W & HWd & HW & E). exists Wd, W. split; [exact HWd|]. split; [exact HW|].
  rewrite H by lia. rewrite <- E. f_equal. apply Rsum_ext. intros t Ht. now rewrite H by lia.
Qed.

Lemma backsolve_round_rows (m : matrix AR) (n : nat) (b : list R) :
  shape m n n -> (1 <= n)%nat -> length b = n -> (forall k, (k < n)%nat -> rentry m k k <> 0) ->
  exists x, backsolve m b = Ok x /\ length x = n /\ forall i, (i < n)%nat -> urow_ok m n b x i.
Proof using u_range fsub_ok fmul_ok fdiv_ok.
  intros SH Hn Lb Dg. pose proof SH as (W & Er & Ec).
  rewrite backsolve_unfold_round. rewrite Er. unfold usub at 1.
  destruct (Nat.leb_spec 1 n); [|lia]. cbn [bind].
  rewrite (rd_ok b (n - 1) 0) by lia. cbn [bind].
  rewrite (mget_ok (A := AR) m n n (n - 1) (n - 1) SH) by lia. cbn [bind].
  change (ent (A := AR) m (n - 1) (n - 1)) with (rentry m (n - 1) (n - 1)).
  change (div (a := AR) (nth (n - 1) b 0) (rentry m (n - 1) (n - 1)))
    with (Ok (fdiv (nth (n - 1) b 0) (rentry m (n - 1) (n - 1)))). cbn [bind].
  rewrite upd_ok by lia. cbn [bind].
  destruct (for_inv (fun n' (X : list R) => length X = n /\
              (forall i, (i < n - (n' - 1))%nat -> nth i X 0 = nth i b 0) /\
              (forall i, (n - (n' - 1) <= i)%nat -> (i < n)%nat -> urow_ok m n b X i))
            2%nat (n + 1)%nat (bs_body m)
            (upd_list b (n - 1) (fdiv (nth (n - 1) b 0) (rentry m (n - 1) (n - 1))))) as (x & E & Lx & _ & Hrows).
  - lia.
  - split; [rewrite upd_list_length; exact Lb|]. split.
    + intros i Hi. rewrite nth_upd_list by lia. destruct (Nat.eqb_spec i (n - 1)); [lia|reflexivity].
    + intros i Hi1 Hi2. assert (i = n - 1)%nat as -> by lia.
      destruct (fdiv_bnd u u_range fdiv fdiv_ok (nth (n - 1) b 0) (rentry m (n - 1) (n - 1)) (Dg (n - 1)%nat ltac:(lia)))
        as (ed & Hed & Ed).
      exists (/ ed), (fun _ => 1). split; [replace (n - (n - 1))%nat with 1%nat by lia; now apply bnd_inv|].
      split; [intros; lia|].
      rewrite nth_upd_list by lia. rewrite Nat.eqb_refl. replace (n - 1 - (n - 1))%nat with 0%nat by lia.
      cbn [Rsum]. rewrite Ed. pose proof (bnd_nz u u_range _ _ Hed). pose proof (Dg (n - 1)%nat ltac:(lia)).
      field. split; assumption.
  - intros n' X Hn' (LX & Hlow & Hdone).
    unfold bs_body. rewrite Er. unfold usub. destruct (Nat.leb_spec n' n); [|lia]. cbn [bind].
    set (k := (n - n')%nat).
    destruct (elim_loop m n k (k + 1) n X SH ltac:(lia) ltac:(lia) ltac:(lia) ltac:(lia) LX)
      as (X1 & E1 & L1 & O1 & P & Wt & HP & HWt & EP).
    replace (n - n' + 1)%nat with (k + 1)%nat by lia. rewrite E1. cbn [bind].
    rewrite (rd_ok X1 k 0) by lia. cbn [bind].
    rewrite (mget_ok (A := AR) m n n k k SH) by lia. cbn [bind].
    change (ent (A := AR) m k k) with (rentry m k k).
    change (div (a := AR) (nth k X1 0) (rentry m k k)) with (Ok (fdiv (nth k X1 0) (rentry m k k))). cbn [bind].
    rewrite upd_ok by lia. eexists; split; [reflexivity|].
    split; [rewrite upd_list_length; exact L1|]. split.
    + intros i Hi. rewrite nth_upd_list by lia. destruct (Nat.eqb_spec i k); [lia|].
      rewrite O1 by lia. apply Hlow. lia.
    + intros i Hi1 Hi2. destruct (Nat.eq_dec i k) as [->|Ne].
      * (* the new row *)
        assert (Dk : rentry m k k <> 0) by (apply Dg; lia).
        destruct (fdiv_bnd u u_range fdiv fdiv_ok (nth k X1 0) (rentry m k k) Dk) as (ed & Hed & Ed).
        exists (/ (P * ed)), Wt.
        split; [replace (n - k)%nat with ((n - (k + 1)) + 1)%nat by lia; apply bnd_inv; [exact u_range|now apply bnd_mul]|].
        split; [intros t Ht; apply HWt; lia|].
        set (q := fdiv (nth k X1 0) (rentry m k k)).
        rewrite nth_upd_list by lia. rewrite Nat.eqb_refl.
        replace (n - 1 - k)%nat with (n - (k + 1))%nat by lia.
        rewrite (Rsum_ext (n - (k + 1))
                   (fun t => rentry m k (k + 1 + t) * Wt t * nth (k + 1 + t)%nat (upd_list X1 k q) 0)
                   (fun t => rentry m k (k + 1 + t) * nth (k + 1 + t)%nat X 0 * Wt t)).
        2:{ intros t Ht. rewrite nth_upd_list by lia. destruct (Nat.eqb_spec (k + 1 + t) k); [lia|].
            rewrite O1 by lia. ring. }
        unfold q. rewrite Ed, EP. rewrite (Hlow k) by lia.
        pose proof (bnd_nz u u_range _ _ HP). pose proof (bnd_nz u u_range _ _ Hed).
        field. repeat split; assumption.
      * apply (urow_ok_ext m n b X); [|apply Hdone; lia].
        intros j Hj. rewrite nth_upd_list by lia. destruct (Nat.eqb_spec j k); [lia|]. apply O1. lia.
  - exists x. split; [exact E|]. split; [exact Lx|].
    intros i Hi. apply Hrows; lia.
Qed.

(* the upper triangle of the stored matrix: what backsolve reads *)
Definition triu (m : matrix AR) (i j : nat) : R := if (i <=? j)%nat then rentry m i j else 0.

Lemma urow_to_full m n b x i : (i < n)%nat -> INR n * u < 1 -> urow_ok m n b x i ->
  exists d : nat -> R, (forall j, (j < n)%nat -> Rabs (d j) <= gam n * Rabs (triu m i j)) /\
    Rsum n (fun j => (triu m i j + d j) * nth j x 0) = nth i b 0.
Proof using u_range.
  intros Hi Hn (Wd & W & HWd & HW & E).
  exists (fun j => if (j <? i)%nat then 0 else if (j =? i)%nat then rentry m i i * (Wd - 1)
                   else rentry m i j * (W (j - i - 1)%nat - 1)).
  split.
  - intros j Hj. unfold triu. destruct (Nat.ltb_spec j i) as [L|L].
    + destruct (Nat.leb_spec i j); [lia|]. rewrite Rabs_R0. lra.
    + destruct (Nat.leb_spec i j); [|lia]. destruct (Nat.eqb_spec j i) as [->|Ne].
      * rewrite Rabs_mult, Rmult_comm. apply Rmult_le_compat_r; [apply Rabs_pos|].
        apply (bnd_gam u u_range); [|exact Hn]. apply (bnd_mono u u_range (n - i)); [lia|exact HWd].
      * rewrite Rabs_mult, Rmult_comm. apply Rmult_le_compat_r; [apply Rabs_pos|].
        apply (bnd_gam u u_range); [|exact Hn]. apply (bnd_mono u u_range (j - i - 1 + 1)); [lia|apply HW; lia].
  - set (F := fun j => (if (j =? i)%nat then rentry m i i * Wd else rentry m i j * W (j - i - 1)%nat) * nth j x 0).
    rewrite (Rsum_ext n _ (fun j => if (i <=? j)%nat then F j else 0)).
    2:{ intros j Hj. unfold triu, F. destruct (Nat.ltb_spec j i) as [L|L].
        - destruct (Nat.leb_spec i j); [lia|]. ring.
        - destruct (Nat.leb_spec i j); [|lia]. destruct (Nat.eqb_spec j i) as [->|Ne]; ring. }
    rewrite Rsum_tail by lia. replace (n - i)%nat with (S (n - 1 - i)) by lia. rewrite Rsum_shift.
    rewrite <- E. unfold F. f_equal.
    + rewrite Nat.add_0_r, Nat.eqb_refl. reflexivity.
    + apply Rsum_ext. intros t Ht. destruct (Nat.eqb_spec (i + S t) i); [lia|].
      replace (i + S t - i - 1)%nat with t by lia. now replace (i + S t)%nat with (i + 1 + t)%nat by lia.
Qed.

(* Higham Theorem 8.5 for the model's backsolve *)
Theorem backsolve_backward_error_lemma (m : matrix AR) (b x : list R) :
  wf m -> rows m = cols m -> length b = rows m -> INR (rows m) * u < 1 ->
  (forall k, (k < rows m)%nat -> rentry m k k <> 0) ->
  backsolve m b = Ok x ->
  length x = rows m /\
  exists dU : nat -> nat -> R,
    (forall i j, (i < rows m)%nat -> (j < rows m)%nat -> Rabs (dU i j) <= gam (rows m) * Rabs (triu m i j)) /\
    forall i, (i < rows m)%nat -> Rsum (rows m) (fun j => (triu m i j + dU i j) * nth j x 0) = nth i b 0.
Proof using u_range fsub_ok fmul_ok fdiv_ok.
  intros W Sq Lb Hn Dg E. set (n := rows m) in *.
  assert (SH : shape m n n) by (split; [exact W|split; [reflexivity|symmetry; exact Sq]]).
  destruct (Nat.eq_dec n 0) as [Z|NZ].
  { rewrite backsolve_unfold_round in E. fold n in E. rewrite Z in E. cbn in E. discriminate. }
  destruct (backsolve_round_rows m n b SH ltac:(lia) Lb Dg) as (x' & E' & Lx & Rows).
  rewrite E in E'. injection E' as <-. split; [exact Lx|].
  destruct (fin_choice (fun _ : nat => 0)
              (fun i (d : nat -> R) => (forall j, (j < n)%nat -> Rabs (d j) <= gam n * Rabs (triu m i j)) /\
                 Rsum n (fun j => (triu m i j + d j) * nth j x 0) = nth i b 0) n) as (F & HF).
  - intros i Hi. apply (urow_to_full m n b x i Hi Hn). now apply Rows.
  - exists F. split.
    + intros i j Hi Hj. now apply (proj1 (HF i Hi)).
    + intros i Hi. exact (proj2 (HF i Hi)).
Qed.

(* ---------------------------------------------------------------- the unit-lower forward substitution of solve_lu *)
Definition tril1 (m : matrix AR) (i j : nat) : R :=
  if (j <? i)%nat then rentry m i j else if (j =? i)%nat then 1 else 0.

Definition lrow_ok (m : matrix AR) (b y : list R) (i : nat) : Prop :=
  exists Wd W, bnd i Wd /\ (forall t, (t < i)%nat -> bnd (t + 1) (W t)) /\
    Wd * nth i y 0 + Rsum i (fun t => rentry m i t * W t * nth t y 0) = nth i b 0.

Lemma lrow_ok_ext m b y y' i : (forall j, (j <= i)%nat -> nth j y' 0 = nth j y 0) ->
  lrow_ok m b y i -> lrow_ok m b y' i.
Proof.
  intros H (Wd & W & HWd & HW & E). exists Wd, W. split; [exact HWd|]. split; [exact HW|].
  rewrite H by lia. rewrite <- E. f_equal. apply Rsum_ext. intros t Ht. now rewrite H by lia.
Qed.

Lemma fwd_round_rows (m : matrix AR) (n : nat) (b : list R) :
  shape m n n -> length b = n ->
  exists y, fwd_loop (A := AR) m b = Ok y /\ length y = n /\ forall i, (i < n)%nat -> lrow_ok m b y i.
Proof using u_range fsub_ok fmul_ok.
  intros SH Lb. pose proof SH as (W & Er & Ec). unfold fwd_loop. rewrite Er.
  destruct (for_inv (fun i (X : list R) => length X = n /\
              (forall r, (i <= r)%nat -> nth r X 0 = nth r b 0) /\
              (forall r, (r < i)%nat -> lrow_ok m b X r))
            0%nat n (fun i x => for_ 0 i (elim_body m i) x) b) as (y & E & Ly & _ & Hrows).
  - lia.
  - split; [exact Lb|]. split; [auto|intros; lia].
  - intros i X Hi (LX & Hup & Hdone).
    destruct (elim_loop m n i 0 i X SH ltac:(lia) ltac:(lia) ltac:(lia) ltac:(lia) LX)
      as (X1 & E1 & L1 & O1 & P & Wt & HP & HWt & EP).
    rewrite Nat.sub_0_r in HP, HWt, EP. cbn [Nat.add] in EP.
    exists X1. split; [exact E1|]. split; [exact L1|]. split.
    + intros r Hr. rewrite O1 by lia. apply Hup. lia.
    + intros r Hr. destruct (Nat.eq_dec r i) as [->|Ne].
      * exists (/ P), Wt. split; [now apply bnd_inv|]. split; [exact HWt|].
        rewrite EP. rewrite (Hup i) by lia.
        rewrite (Rsum_ext i (fun t => rentry m i t * Wt t * nth t X1 0) (fun t => rentry m i t * nth t X 0 * Wt t)).
        2:{ intros t Ht. rewrite O1 by lia. ring. }
        pose proof (bnd_nz u u_range _ _ HP). field. assumption.
      * apply (lrow_ok_ext m b X); [|apply Hdone; lia]. intros j Hj. apply O1. lia.
  - exists y. split; [exact E|]. split; [exact Ly|]. intros i Hi. now apply Hrows.
Qed.

Lemma lrow_to_full m n b y i : (i < n)%nat -> INR n * u < 1 -> lrow_ok m b y i ->
  exists d : nat -> R, (forall j, (j < n)%nat -> Rabs (d j) <= gam n * Rabs (tril1 m i j)) /\
    Rsum n (fun j => (tril1 m i j + d j) * nth j y 0) = nth i b 0.
Proof using u_range.
  intros Hi Hn (Wd & W & HWd & HW & E).
  exists (fun j => if (j <? i)%nat then rentry m i j * (W j - 1) else if (j =? i)%nat then Wd - 1 else 0).
  split.
  - intros j Hj. unfold tril1. destruct (Nat.ltb_spec j i) as [L|L].
    + rewrite Rabs_mult, Rmult_comm. apply Rmult_le_compat_r; [apply Rabs_pos|].
      apply (bnd_gam u u_range); [|exact Hn]. apply (bnd_mono u u_range (j + 1)); [lia|now apply HW].
    + destruct (Nat.eqb_spec j i) as [->|Ne].
      * rewrite Rabs_R1, Rmult_1_r. apply (bnd_gam u u_range); [|exact Hn].
        apply (bnd_mono u u_range i); [lia|exact HWd].
      * rewrite Rabs_R0. lra.
  - set (F := fun j => (if (j <? i)%nat then rentry m i j * W j else Wd) * nth j y 0).
    rewrite (Rsum_ext n _ (fun j => if (j <=? i)%nat then F j else 0)).
    2:{ intros j Hj. unfold tril1, F. destruct (Nat.ltb_spec j i) as [L|L].
        - destruct (Nat.leb_spec j i); [|lia]. ring.
        - destruct (Nat.eqb_spec j i) as [->|Ne].
          + rewrite Nat.leb_refl. ring.
          + destruct (Nat.leb_spec j i); [lia|]. ring. }
    rewrite Rsum_head by exact Hi. cbn [Rsum]. rewrite <- E. unfold F. rewrite Nat.ltb_irrefl.
    rewrite Rplus_comm. f_equal. apply Rsum_ext. intros t Ht. destruct (Nat.ltb_spec t i); [reflexivity|lia].
Qed.

Theorem fwdsolve_backward_error_lemma (m : matrix AR) (b y : list R) :
  wf m -> rows m = cols m -> length b = rows m -> INR (rows m) * u < 1 ->
  fwd_loop (A := AR) m b = Ok y ->
  length y = rows m /\
  exists dL : nat -> nat -> R,
    (forall i j, (i < rows m)%nat -> (j < rows m)%nat -> Rabs (dL i j) <= gam (rows m) * Rabs (tril1 m i j)) /\
    forall i, (i < rows m)%nat -> Rsum (rows m) (fun j => (tril1 m i j + dL i j) * nth j y 0) = nth i b 0.
Proof using u_range fsub_ok fmul_ok.
  intros W Sq Lb Hn E. set (n := rows m) in *.
  assert (SH : shape m n n) by (split; [exact W|split; [reflexivity|symmetry; exact Sq]]).
  destruct (fwd_round_rows m n b SH Lb) as (y' & E' & Ly & Rows).
  rewrite E in E'. injection E' as <-. split; [exact Ly|].
  destruct (fin_choice (fun _ : nat => 0)
              (fun i (d : nat -> R) => (forall j, (j < n)%nat -> Rabs (d j) <= gam n * Rabs (tril1 m i j)) /\
                 Rsum n (fun j => (tril1 m i j + d j) * nth j y 0) = nth i b 0) n) as (F & HF).
  - intros i Hi. apply (lrow_to_full m n b y i Hi Hn). now apply Rows.
  - exists F. split.
    + intros i j Hi Hj. now apply (proj1 (HF i Hi)).
    + intros i Hi. exact (proj2 (HF i Hi)).
Qed.

End RoundTri.
