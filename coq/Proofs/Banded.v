(* Proofs/Banded.v -- lemmas about Model/Banded.v: index map, dense twin, matrix-vector product. *)
From Coq Require Import List Arith Lia ZArith Bool Ring_theory Ring Field_theory.
From OV Require Import Base.Panic Base.Arith Model.Vector Model.Matrix Model.Banded.
Import ListNotations.
Local Open Scope nat_scope.

(* ------------------------------------------------------------------ index map *)

Lemma in_band_iff m1 m2 i j : in_band m1 m2 i j = true <-> (i <= j + m1 /\ j <= i + m2).
Proof.
  unfold in_band, out_of_band. rewrite negb_true_iff, orb_false_iff, !Nat.ltb_ge. lia.
Qed.

Lemma out_of_band_iff m1 m2 i j : out_of_band m1 m2 i j = true <-> (i + m2 < j \/ j + m1 < i).
Proof. unfold out_of_band. rewrite orb_true_iff, !Nat.ltb_lt. tauto. Qed.

Lemma band_slot_range m1 m2 i j : in_band m1 m2 i j = true -> band_slot m1 i j < m1 + m2 + 1.
Proof. rewrite in_band_iff. unfold band_slot. lia. Qed.

Lemma band_slot_inj m1 m2 i j j' :
  in_band m1 m2 i j = true -> in_band m1 m2 i j' = true ->
  band_slot m1 i j = band_slot m1 i j' -> j = j'.
Proof. rewrite !in_band_iff. unfold band_slot. lia. Qed.

(* the slot of an in-band pair determines the column: j = i + s - m1 *)
Lemma band_slot_col m1 m2 i j : in_band m1 m2 i j = true -> j + m1 = i + band_slot m1 i j.
Proof. rewrite in_band_iff. unfold band_slot. lia. Qed.

(* flat index of (row, slot) inside the n x mm compact buffer *)
Lemma flat_lt n mm i s : i < n -> s < mm -> i * mm + s < n * mm.
Proof. intros. nia. Qed.

Lemma flat_inj mm i s i' s' : s < mm -> s' < mm -> i * mm + s = i' * mm + s' -> i = i' /\ s = s'.
Proof.
  intros Hs Hs' E.
  assert (Hi : i = i').
  { apply (f_equal (fun x => x / mm)) in E.
    rewrite !Nat.div_add_l in E by lia. rewrite !Nat.div_small in E by lia. lia. }
  subst. split; auto. lia.
Qed.

Section BandProofs.
Context {A : Arith}.
Notation T := (T A).
Notation matrix := (matrix A).
Notation banded := (banded A).

Definition wfM (m : matrix) : Prop := length (buf m) = rows m * cols m.

(* well-formed banded matrix: what every constructor of the public API establishes *)
Definition wfB (B : banded) : Prop :=
  wfM (compact B) /\ rows (compact B) = bn B /\ cols (compact B) = bm1 B + bm2 B + 1.

(* raw slot of the compact storage *)
Definition cslot (B : banded) (i s : nat) : T := nth (i * (bm1 B + bm2 B + 1) + s) (buf (compact B)) zero.

(* the dense twin: in-band entries of the storage, zero elsewhere (only ever used with i, j < n) *)
Definition dense_entry (B : banded) (i j : nat) : T :=
  if in_band (bm1 B) (bm2 B) i j then cslot B i (band_slot (bm1 B) i j) else zero.

(* D . v  for the dense twin *)
Definition dense_mulv (B : banded) (v : list T) : list T :=
  map (fun i => sum_n (bn B) (fun j => mul (dense_entry B i j) (nth j v zero))) (seq 0 (bn B)).

(* two banded matrices of the same sizes that agree on every slot that lies inside the matrix
   (padding slots -- column i + s - m1 outside 0..n -- are unconstrained) *)
Definition same_in_matrix_slots (B B' : banded) : Prop :=
  wfB B' /\ bn B' = bn B /\ bm1 B' = bm1 B /\ bm2 B' = bm2 B /\
  forall i j, i < bn B -> j < bn B -> in_band (bm1 B) (bm2 B) i j = true ->
    cslot B' i (band_slot (bm1 B) i j) = cslot B i (band_slot (bm1 B) i j).

Lemma band_new_wf n m1 m2 (x : T) : wfB (band_new n m1 m2 x).
Proof. unfold wfB, wfM, band_new, mat_new; cbn. now rewrite repeat_length. Qed.

Lemma mget_ok (B : banded) i s :
  wfB B -> i < bn B -> s < bm1 B + bm2 B + 1 -> mget (compact B) i s = Ok (cslot B i s).
Proof.
  intros (Hwf & Hr & Hc) Hi Hs. unfold mget, cslot. rewrite Hc.
  apply rd_ok. rewrite Hwf, Hr, Hc. now apply flat_lt.
Qed.

(* element access = dense twin on the band, refused outside it *)
Lemma band_get_spec (B : banded) i j :
  wfB B -> i < bn B -> j < bn B ->
  band_get B i j = if in_band (bm1 B) (bm2 B) i j then Ok (dense_entry B i j) else Panic Guard.
Proof.
  intros Hwf Hi Hj. unfold band_get, dense_entry, in_band.
  destruct (out_of_band (bm1 B) (bm2 B) i j) eqn:E; cbn; auto.
  apply mget_ok; auto. apply band_slot_range. unfold in_band. now rewrite E.
Qed.

End BandProofs.

(* ------------------------------------------------------------------ list update helpers *)

Lemma upd_list_same {X} (l : list X) i d : i < length l -> upd_list l i (nth i l d) = l.
Proof.
  revert i; induction l as [|h t IH]; intros [|i] H; cbn in *; try lia; auto.
  f_equal. apply IH. lia.
Qed.

Lemma upd_list_twice {X} (l : list X) i a b : upd_list (upd_list l i a) i b = upd_list l i b.
Proof. revert i; induction l as [|h t IH]; intros [|i]; cbn; auto. now rewrite IH. Qed.

Lemma upd_list_app_mid {X} (l1 l2 : list X) x y : upd_list (l1 ++ x :: l2) (length l1) y = l1 ++ y :: l2.
Proof. induction l1 as [|h t IH]; cbn; auto. now rewrite IH. Qed.

Lemma upd_list_app_mid' {X} (l1 l2 : list X) x y i :
  length l1 = i -> upd_list (l1 ++ x :: l2) i y = l1 ++ y :: l2.
Proof. intros <-. apply upd_list_app_mid. Qed.

(* ------------------------------------------------------------------ sums *)

Section Sums.
Context {A : Arith}.
Notation T := (T A).

(* what `acc += t j` for j = lo, lo+1, ... computes, in the code's order *)
Fixpoint acc_from (x : T) (len lo : nat) (t : nat -> T) : T :=
  match len with 0 => x | S l => acc_from (add x (t lo)) l (S lo) t end.

Lemma acc_from_snoc x len lo t :
  acc_from x (S len) lo t = add (acc_from x len lo t) (t (lo + len)).
Proof.
  revert x lo; induction len as [|len IH]; intros x lo.
  - cbn. now rewrite Nat.add_0_r.
  - change (acc_from x (S (S len)) lo t) with (acc_from (add x (t lo)) (S len) (S lo) t).
    rewrite IH. cbn [acc_from]. now replace (S lo + len) with (lo + S len) by lia.
Qed.

Lemma acc_from_sum len lo t : acc_from zero len lo t = sum_n len (fun k => t (lo + k)).
Proof.
  induction len as [|len IH]; [reflexivity|].
  rewrite acc_from_snoc, IH. reflexivity.
Qed.

(* the accumulate-into-slot loop: `for j in lo..lo+len { r[i] += t j }` *)
Lemma acc_loop (i : nat) (t : nat -> T) (body : nat -> list T -> res (list T)) :
  forall len lo (r : list T), i < length r ->
  (forall j r, lo <= j < lo + len -> i < length r ->
     body j r = Ok (upd_list r i (add (nth i r zero) (t j)))) ->
  for_from len lo body r = Ok (upd_list r i (acc_from (nth i r zero) len lo t)).
Proof.
  induction len as [|len IH]; intros lo r Hi Hb.
  - cbn. now rewrite upd_list_same.
  - cbn [for_from acc_from]. rewrite Hb by (auto; lia). cbn [bind].
    rewrite IH.
    + rewrite nth_upd_list by auto. rewrite Nat.eqb_refl. now rewrite upd_list_twice.
    + now rewrite upd_list_length.
    + intros j r' Hj Hr'. apply Hb; auto. lia.
Qed.

Variable RL : RingLaws A.
Add Ring ARing : (rl_ring A RL).

Lemma radd_0_r (x : T) : add x zero = x. Proof. ring. Qed.
Lemma rmul_0_l (x : T) : mul zero x = zero. Proof. ring. Qed.

Lemma sum_n_zero n (g : nat -> T) : (forall j, j < n -> g j = zero) -> sum_n n g = zero.
Proof.
  induction n as [|n IH]; intros H; cbn; auto.
  rewrite IH by (intros; apply H; lia). rewrite H by lia. ring.
Qed.

(* a vanishing prefix can be dropped *)
Lemma sum_n_skip a b (g : nat -> T) :
  (forall j, j < a -> g j = zero) -> sum_n (a + b) g = sum_n b (fun k => g (a + k)).
Proof.
  intros H. induction b as [|b IH].
  - rewrite Nat.add_0_r. cbn. now apply sum_n_zero.
  - replace (a + S b) with (S (a + b)) by lia. cbn. now rewrite IH.
Qed.

(* a vanishing suffix can be dropped *)
Lemma sum_n_trunc a b (g : nat -> T) :
  (forall j, a <= j < a + b -> g j = zero) -> sum_n (a + b) g = sum_n a g.
Proof.
  induction b as [|b IH]; intros H.
  - now rewrite Nat.add_0_r.
  - replace (a + S b) with (S (a + b)) by lia. cbn.
    rewrite IH by (intros; apply H; lia). rewrite H by lia. ring.
Qed.

End Sums.

(* ------------------------------------------------------------------ matrix-vector product *)

Section MulV.
Context {A : Arith}.
Notation T := (T A).
Notation banded := (banded A).
Variable RL : RingLaws A.

(* the row sum the code accumulates: slots lo .. hi-1 of row i, in order *)
Definition row_lo (B : banded) (i : nat) : nat := bm1 B - i.
Definition row_cnt (B : banded) (i : nat) : nat := Nat.min (bn B) (i + bm2 B + 1) - (i - bm1 B).
Definition row_term (B : banded) (v : list T) (i s : nat) : T :=
  mul (cslot B i s) (nth (s + i - bm1 B) v zero).

Lemma row_sum_dense (B : banded) (v : list T) i :
  i < bn B ->
  sum_n (bn B) (fun j => mul (dense_entry B i j) (nth j v zero)) =
  sum_n (row_cnt B i) (fun k => row_term B v i (row_lo B i + k)).
Proof.
  intros Hi. unfold row_cnt, row_lo, row_term.
  set (n := bn B) in *. set (m1 := bm1 B). set (m2 := bm2 B).
  set (jlo := i - m1). set (jhi := Nat.min n (i + m2 + 1)).
  set (g := fun j => mul (dense_entry B i j) (nth j v zero)).
  assert (Hn : n = (jlo + (jhi - jlo)) + (n - jhi)) by (unfold jlo, jhi; lia).
  rewrite Hn at 1.
  rewrite (sum_n_trunc RL).
  2:{ intros j Hj. unfold g, dense_entry. fold m1 m2.
      replace (in_band m1 m2 i j) with false.
      - apply (rmul_0_l RL).
      - symmetry. apply not_true_iff_false. rewrite in_band_iff. unfold jlo, jhi in *. lia. }
  rewrite (sum_n_skip RL).
  2:{ intros j Hj. unfold g, dense_entry. fold m1 m2.
      replace (in_band m1 m2 i j) with false.
      - apply (rmul_0_l RL).
      - symmetry. apply not_true_iff_false. rewrite in_band_iff. unfold jlo in *. lia. }
  apply sum_n_ext. intros k Hk. unfold g, dense_entry. fold m1 m2.
  replace (in_band m1 m2 i (jlo + k)) with true.
  2:{ symmetry. rewrite in_band_iff. unfold jlo, jhi in *. lia. }
  unfold band_slot. fold m1.
  replace (m1 + (jlo + k) - i) with (m1 - i + k) by (unfold jlo; lia).
  replace (m1 - i + k + i - m1) with (jlo + k) by (unfold jlo; lia).
  reflexivity.
Qed.

Lemma band_mul_ok (B : banded) (v : list T) :
  wfB B -> length v = bn B -> band_mul B v = Ok (dense_mulv B v).
Proof.
  intros Hwf Hv. unfold band_mul. rewrite Hv, Nat.eqb_refl. cbn [negb].
  set (n := bn B) in *.
  set (rowsum := fun i => sum_n n (fun j => mul (dense_entry B i j) (nth j v zero))).
  match goal with |- for_ 0 n ?body _ = _ => set (body0 := body) end.
  destruct (for_inv (fun i r => r = map rowsum (seq 0 i) ++ repeat zero (n - i)) 0 n body0 (repeat zero n))
    as (r & E & Hr).
  - lia.
  - cbn. now rewrite Nat.sub_0_r.
  - intros i r Hi ->. unfold body0.
    set (r0 := map rowsum (seq 0 i) ++ repeat zero (n - i)).
    assert (Hlen1 : length (map rowsum (seq 0 i)) = i) by now rewrite map_length, seq_length.
    assert (Hlen : length r0 = n).
    { unfold r0. rewrite app_length, Hlen1, repeat_length. lia. }
    assert (Hnth : nth i r0 zero = zero).
    { unfold r0. rewrite app_nth2 by lia. rewrite Hlen1, Nat.sub_diag.
      destruct (n - i) eqn:En; [lia|]. reflexivity. }
    (* loop bounds as the code computes them (isize) *)
    assert (Hlo : Z.to_nat (Z.max 0 (- (Z.of_nat i - Z.of_nat (bm1 B)))) = row_lo B i)
      by (unfold row_lo; lia).
    assert (Hhi : Z.to_nat (Z.min (Z.of_nat (bm1 B) + Z.of_nat (bm2 B) + 1)
                              (Z.of_nat n - (Z.of_nat i - Z.of_nat (bm1 B)))) = row_lo B i + row_cnt B i)
      by (unfold row_lo, row_cnt; fold n; lia).
    rewrite Hlo, Hhi. unfold for_.
    replace (row_lo B i + row_cnt B i - row_lo B i) with (row_cnt B i) by lia.
    rewrite (acc_loop i (row_term B v i)).
    + eexists; split; [reflexivity|].
      rewrite Hnth, acc_from_sum, <- (row_sum_dense B v i) by exact (proj1 (conj (proj2 Hi) I)).
      fold n. fold (rowsum i).
      unfold r0. destruct (n - i) as [|d] eqn:En; [lia|]. cbn [repeat].
      rewrite (upd_list_app_mid' _ _ _ _ i Hlen1).
      rewrite seq_S, map_app. cbn [map]. rewrite <- app_assoc. cbn [app].
      replace (n - S i) with d by lia. reflexivity.
    + lia.
    + intros s r' Hs Hr'.
      assert (Hs' : s < bm1 B + bm2 B + 1) by (unfold row_lo, row_cnt in Hs; fold n in Hs; lia).
      rewrite (rd_ok r' i zero) by auto. cbn [bind].
      rewrite mget_ok by (auto; lia). cbn [bind].
      assert (Hcol : Z.to_nat (Z.of_nat s + (Z.of_nat i - Z.of_nat (bm1 B))) = s + i - bm1 B)
        by (unfold row_lo in Hs; lia).
      rewrite Hcol.
      rewrite (rd_ok v (s + i - bm1 B) zero).
      2:{ rewrite Hv. unfold row_lo, row_cnt in Hs. fold n in Hs. lia. }
      cbn [bind]. rewrite upd_ok by auto. reflexivity.
  - rewrite E. f_equal. rewrite Hr, Nat.sub_diag. cbn. now rewrite app_nil_r.
Qed.

(* the dense twin does not see padding *)
Lemma dense_entry_same (B B' : banded) i j :
  same_in_matrix_slots B B' -> i < bn B -> j < bn B -> dense_entry B' i j = dense_entry B i j.
Proof.
  intros (_ & Hn & H1 & H2 & H) Hi Hj. unfold dense_entry. rewrite H1, H2.
  destruct (in_band (bm1 B) (bm2 B) i j) eqn:E; auto.
Qed.

Lemma band_mul_spec_lemma (B : banded) (v : list T) :
  wfB B -> length v = bn B ->
  band_mul B v = Ok (dense_mulv B v) /\
  forall B', same_in_matrix_slots B B' -> band_mul B' v = band_mul B v.
Proof.
  intros Hwf Hv. split; [now apply band_mul_ok|].
  intros B' HS. pose proof HS as (Hwf' & Hn & _).
  rewrite !band_mul_ok by (auto; congruence). f_equal.
  unfold dense_mulv. rewrite Hn. apply map_ext_in. intros i Hi. apply in_seq in Hi.
  apply sum_n_ext. intros j Hj. now rewrite (dense_entry_same B B') by (auto; lia).
Qed.

End MulV.

(* ------------------------------------------------------------------ element-wise operators on the compact matrix *)

(* row-major double loop with a position-indexed invariant *)
Lemma double_loop {St} (P : nat -> St -> Prop) (r c : nat) (b : nat -> nat -> St -> res St) (s0 : St) :
  P 0 s0 ->
  (forall i j s, i < r -> j < c -> P (i * c + j) s -> exists s', b i j s = Ok s' /\ P (i * c + j + 1) s') ->
  exists s', for_ 0 r (fun i s => for_ 0 c (b i) s) s0 = Ok s' /\ P (r * c) s'.
Proof.
  intros H0 Hstep.
  apply (for_inv (fun i s => P (i * c) s) 0 r); [lia|exact H0|].
  intros i s Hi HP.
  destruct (for_inv (fun j s => P (i * c + j) s) 0 c (b i) s) as (s' & E & HP'); [lia| |  |].
  - now rewrite Nat.add_0_r.
  - intros j s1 Hj HP1. destruct (Hstep i j s1) as (s2 & E2 & HP2); [lia|lia|auto|].
    exists s2; split; auto. now replace (i * c + S j) with (i * c + j + 1) by lia.
  - exists s'; split; auto. now replace (S i * c) with (i * c + c) by lia.
Qed.

Section Elementwise.
Context {A : Arith}.
Notation T := (T A).
Notation matrix := (matrix A).

Lemma divmod_flat c i j : j < c -> (i * c + j) / c = i /\ (i * c + j) mod c = j.
Proof.
  intros Hj. split.
  - rewrite Nat.div_add_l by lia. rewrite Nat.div_small by lia. lia.
  - rewrite Nat.add_comm, Nat.mod_add by lia. now apply Nat.mod_small.
Qed.

(* mtab r c f: every element written once, in row-major order *)
Lemma mtab_spec (r c : nat) (f : nat -> nat -> res T) (g : nat -> nat -> T) :
  (forall i j, i < r -> j < c -> f i j = Ok (g i j)) ->
  exists m, mtab r c f = Ok m /\ rows m = r /\ cols m = c /\ wfM m /\
            forall i j, i < r -> j < c -> nth (i * c + j) (buf m) zero = g i j.
Proof.
  intros Hf. unfold mtab.
  set (gk := fun k => g (k / c) (k mod c)).
  destruct (double_loop (fun p (s : matrix) => rows s = r /\ cols s = c /\
              buf s = map gk (seq 0 p) ++ repeat zero (r * c - p)) r c
              (fun i j s => let* x := f i j in mset s i j x) (mat_new r c zero)) as (m & E & Hr & Hc & Hb).
  - cbn. now rewrite Nat.sub_0_r.
  - intros i j s Hi Hj (Hr & Hc & Hb). rewrite Hf by auto. cbn [bind]. unfold mset. rewrite Hc.
    assert (Hp : i * c + j < r * c) by now apply flat_lt.
    assert (Hl1 : length (map gk (seq 0 (i * c + j))) = i * c + j) by now rewrite map_length, seq_length.
    rewrite upd_ok.
    2:{ rewrite Hb, app_length, Hl1, repeat_length. lia. }
    cbn [bind]. eexists; split; [reflexivity|]. cbn [rows cols buf]. repeat split; auto.
    rewrite Hb. destruct (r * c - (i * c + j)) as [|d] eqn:Ed; [lia|]. cbn [repeat].
    rewrite (upd_list_app_mid' _ _ _ _ _ Hl1).
    replace (i * c + j + 1) with (S (i * c + j)) by lia.
    rewrite seq_S, map_app. cbn [map]. rewrite <- app_assoc. cbn [app].
    replace (r * c - S (i * c + j)) with d by lia.
    f_equal. f_equal. cbn [Nat.add]. unfold gk. destruct (divmod_flat c i j Hj) as (-> & ->). reflexivity.
  - exists m. split; [exact E|]. rewrite Nat.sub_diag, app_nil_r in Hb.
    split; [auto|]. split; [auto|]. split.
    + unfold wfM. now rewrite Hb, map_length, seq_length, Hr, Hc.
    + intros i j Hi Hj. rewrite Hb.
      assert (Hp : i * c + j < r * c) by now apply flat_lt.
      rewrite (nth_indep _ zero (gk 0)) by now rewrite map_length, seq_length.
      rewrite map_nth, seq_nth by auto. cbn [Nat.add]. unfold gk.
      destruct (divmod_flat c i j Hj) as (-> & ->). reflexivity.
Qed.

(* mupd_all m h: every element read and rewritten once, in row-major order *)
Lemma mupd_all_spec (m : matrix) (h : nat -> nat -> T -> res T) (g : nat -> nat -> T -> T) :
  wfM m ->
  (forall i j x, i < rows m -> j < cols m -> h i j x = Ok (g i j x)) ->
  exists m', mupd_all m h = Ok m' /\ rows m' = rows m /\ cols m' = cols m /\ wfM m' /\
             forall i j, i < rows m -> j < cols m ->
               nth (i * cols m + j) (buf m') zero = g i j (nth (i * cols m + j) (buf m) zero).
Proof.
  intros Hwf Hh. unfold mupd_all. set (r := rows m) in *. set (c := cols m) in *.
  set (gk := fun k => g (k / c) (k mod c) (nth k (buf m) zero)).
  destruct (double_loop (fun p (s : matrix) => rows s = r /\ cols s = c /\
              buf s = map gk (seq 0 p) ++ skipn p (buf m)) r c
              (fun i j s => let* x := mget s i j in let* y := h i j x in mset s i j y) m) as (m' & E & Hr & Hc & Hb).
  - cbn. auto.
  - intros i j s Hi Hj (Hr & Hc & Hb). unfold mget, mset. rewrite Hc.
    assert (Hp : i * c + j < r * c) by now apply flat_lt.
    assert (Hl1 : length (map gk (seq 0 (i * c + j))) = i * c + j) by now rewrite map_length, seq_length.
    assert (Hsk : skipn (i * c + j) (buf m) = nth (i * c + j) (buf m) zero :: skipn (S (i * c + j)) (buf m)).
    { unfold wfM in Hwf. fold r c in Hwf. revert Hp. rewrite <- Hwf. generalize (i * c + j) as p. generalize (buf m) as l.
      induction l as [|a l IH]; intros [|p] Hp; cbn in *; try lia; auto. apply IH. lia. }
    assert (Hlen : length (buf s) = r * c).
    { rewrite Hb, app_length, Hl1, skipn_length. unfold wfM in Hwf. fold r c in Hwf. lia. }
    assert (Hnth : nth (i * c + j) (buf s) zero = nth (i * c + j) (buf m) zero).
    { rewrite Hb, app_nth2 by lia. rewrite Hl1, Nat.sub_diag, Hsk. reflexivity. }
    rewrite (rd_ok _ _ zero) by lia. cbn [bind]. rewrite Hnth.
    rewrite Hh by auto. cbn [bind]. rewrite upd_ok by lia. cbn [bind].
    eexists; split; [reflexivity|]. cbn [rows cols buf]. repeat split; auto.
    rewrite Hb, Hsk, (upd_list_app_mid' _ _ _ _ _ Hl1).
    replace (i * c + j + 1) with (S (i * c + j)) by lia.
    rewrite seq_S, map_app. cbn [map]. rewrite <- app_assoc. cbn [app]. cbn [Nat.add].
    f_equal. f_equal. unfold gk. destruct (divmod_flat c i j Hj) as (-> & ->). reflexivity.
  - exists m'. split; [exact E|].
    assert (Hl : length (buf m) = r * c) by exact Hwf.
    rewrite skipn_all2, app_nil_r in Hb by lia.
    split; [auto|]. split; [auto|]. split.
    + unfold wfM. now rewrite Hb, map_length, seq_length, Hr, Hc.
    + intros i j Hi Hj. rewrite Hb.
      assert (Hp : i * c + j < r * c) by now apply flat_lt.
      rewrite (nth_indep _ zero (gk 0)) by now rewrite map_length, seq_length.
      rewrite map_nth, seq_nth by auto. cbn [Nat.add]. unfold gk.
      destruct (divmod_flat c i j Hj) as (-> & ->). reflexivity.
Qed.

End Elementwise.

(* ------------------------------------------------------------------ arithmetic commutes with the dense twin *)

Section BandArith.
Context {A : Arith}.
Notation T := (T A).
Notation banded := (banded A).
Variable RL : RingLaws A.
Add Ring ARing2 : (rl_ring A RL).

(* R has the sizes of B and is well formed *)
Definition like (B R : banded) : Prop := wfB R /\ bn R = bn B /\ bm1 R = bm1 B /\ bm2 R = bm2 B.

Lemma with_compact_like (B : banded) (m : matrix A) (g : nat -> nat -> T) :
  rows m = bn B -> cols m = bm1 B + bm2 B + 1 -> wfM m ->
  (forall i s, i < bn B -> s < bm1 B + bm2 B + 1 -> nth (i * (bm1 B + bm2 B + 1) + s) (buf m) zero = g i s) ->
  like B (with_compact B m) /\
  forall i s, i < bn B -> s < bm1 B + bm2 B + 1 -> cslot (with_compact B m) i s = g i s.
Proof.
  intros Hr Hc Hwf Hg. split.
  - unfold like, wfB, with_compact; cbn. auto.
  - intros i s Hi Hs. unfold cslot, with_compact; cbn. now apply Hg.
Qed.

(* lifting a slot-wise description to the dense twin *)
Lemma dense_lift1 (B R : banded) (h : T -> T) :
  like B R -> (forall i s, i < bn B -> s < bm1 B + bm2 B + 1 -> cslot R i s = h (cslot B i s)) ->
  forall i j, i < bn B ->
    dense_entry R i j = if in_band (bm1 B) (bm2 B) i j then h (dense_entry B i j) else zero.
Proof.
  intros (_ & Hn & H1 & H2) Hs i j Hi. unfold dense_entry. rewrite H1, H2.
  destruct (in_band (bm1 B) (bm2 B) i j) eqn:E; auto.
  apply Hs; auto. now apply band_slot_range.
Qed.

Lemma dense_lift2 (B C R : banded) (h : T -> T -> T) :
  like B R -> bm1 C = bm1 B -> bm2 C = bm2 B ->
  (forall i s, i < bn B -> s < bm1 B + bm2 B + 1 -> cslot R i s = h (cslot B i s) (cslot C i s)) ->
  forall i j, i < bn B ->
    dense_entry R i j = if in_band (bm1 B) (bm2 B) i j then h (dense_entry B i j) (dense_entry C i j) else zero.
Proof.
  intros (_ & Hn & H1 & H2) HC1 HC2 Hs i j Hi. unfold dense_entry. rewrite H1, H2, HC1, HC2.
  destruct (in_band (bm1 B) (bm2 B) i j) eqn:E; auto.
  apply Hs; auto. now apply band_slot_range.
Qed.

(* out of the band both sides are zero when the operation fixes zero *)
Lemma if_band_zero1 (B : banded) (h : T -> T) i j :
  h zero = zero ->
  (if in_band (bm1 B) (bm2 B) i j then h (dense_entry B i j) else zero) = h (dense_entry B i j).
Proof. intros H0. unfold dense_entry. destruct (in_band _ _ i j); auto. Qed.
Lemma if_band_zero2 (B C : banded) (h : T -> T -> T) i j :
  bm1 C = bm1 B -> bm2 C = bm2 B -> h zero zero = zero ->
  (if in_band (bm1 B) (bm2 B) i j then h (dense_entry B i j) (dense_entry C i j) else zero)
  = h (dense_entry B i j) (dense_entry C i j).
Proof. intros H1 H2 H0. unfold dense_entry. rewrite H1, H2. destruct (in_band _ _ i j); auto. Qed.

Ltac band_dims Hwf := destruct Hwf as (HwfM & Hrows & Hcols).

(* by-value unary operators built with mtab *)
Lemma band_tab1 (B : banded) (h : T -> T) (hres : T -> res T)
      (F : matrix A -> res (matrix A)) :
  wfB B -> (forall x, hres x = Ok (h x)) ->
  (F (compact B) = mtab (rows (compact B)) (cols (compact B))
                        (fun i j => let* x := mget (compact B) i j in hres x)) ->
  exists R, (let* c := F (compact B) in Ok (with_compact B c)) = Ok R /\ like B R /\
    forall i j, i < bn B -> j < bn B ->
      dense_entry R i j = if in_band (bm1 B) (bm2 B) i j then h (dense_entry B i j) else zero.
Proof.
  intros Hwf Hh HF. pose proof Hwf as (HwfM & Hrows & Hcols). rewrite HF, Hrows, Hcols.
  destruct (mtab_spec (bn B) (bm1 B + bm2 B + 1)
              (fun i j => let* x := mget (compact B) i j in hres x)
              (fun i s => h (cslot B i s))) as (m & E & Hr & Hc & Hw & Hm).
  { intros i s Hi Hs. rewrite mget_ok by auto. cbn [bind]. apply Hh. }
  rewrite E. cbn [bind]. eexists; split; [reflexivity|].
  destruct (with_compact_like B m (fun i s => h (cslot B i s)) Hr Hc Hw Hm) as (HL & HS).
  split; auto. intros i j Hi Hj. now apply dense_lift1.
Qed.

Lemma band_neg_dense (B : banded) :
  wfB B -> exists R, band_neg B = Ok R /\ like B R /\
    forall i j, i < bn B -> j < bn B -> dense_entry R i j = neg (dense_entry B i j).
Proof.
  intros Hwf. destruct (band_tab1 B neg (fun x => Ok (neg x)) mneg Hwf (fun x => eq_refl) eq_refl) as (R & E & HL & HD).
  exists R. split; [exact E|]. split; auto. intros i j Hi Hj.
  rewrite HD, if_band_zero1 by (auto; ring). reflexivity.
Qed.

Lemma band_scale_dense (B : banded) (s : T) :
  wfB B -> exists R, band_scale B s = Ok R /\ like B R /\
    forall i j, i < bn B -> j < bn B -> dense_entry R i j = mul (dense_entry B i j) s.
Proof.
  intros Hwf.
  destruct (band_tab1 B (fun x => mul x s) (fun x => Ok (mul x s)) (fun m => mscale m s) Hwf (fun x => eq_refl) eq_refl) as (R & E & HL & HD).
  exists R. split; [exact E|]. split; auto. intros i j Hi Hj.
  rewrite HD, (if_band_zero1 B (fun x => mul x s)) by (auto; ring). reflexivity.
Qed.

(* by-value binary operators *)
Lemma band_tab2 (B C : banded) (h : T -> T -> T) (F : matrix A -> matrix A -> res (matrix A)) :
  wfB B -> wfB C -> bn C = bn B -> bm1 C = bm1 B -> bm2 C = bm2 B ->
  (F (compact B) (compact C) =
     if negb (rows (compact B) =? rows (compact C)) then Panic Guard else
     if negb (cols (compact B) =? cols (compact C)) then Panic Guard else
     mtab (rows (compact B)) (cols (compact B))
          (fun i j => let* x := mget (compact B) i j in let* y := mget (compact C) i j in Ok (h x y))) ->
  exists R, band_guard3 B C (let* c := F (compact B) (compact C) in Ok (with_compact B c)) = Ok R /\ like B R /\
    forall i j, i < bn B -> j < bn B ->
      dense_entry R i j = if in_band (bm1 B) (bm2 B) i j then h (dense_entry B i j) (dense_entry C i j) else zero.
Proof.
  intros Hwf HwfC Hn H1 H2 HF.
  pose proof Hwf as (HwfM & Hrows & Hcols). pose proof HwfC as (HwfMC & HrowsC & HcolsC).
  unfold band_guard3. rewrite Hn, H1, H2, !Nat.eqb_refl. cbn [negb].
  rewrite HF, Hrows, Hcols, HrowsC, HcolsC, Hn, H1, H2, !Nat.eqb_refl. cbn [negb].
  destruct (mtab_spec (bn B) (bm1 B + bm2 B + 1)
              (fun i j => let* x := mget (compact B) i j in let* y := mget (compact C) i j in Ok (h x y))
              (fun i s => h (cslot B i s) (cslot C i s))) as (m & E & Hr & Hc & Hw & Hm).
  { intros i s Hi Hs. rewrite mget_ok by auto. cbn [bind].
    rewrite mget_ok by (auto; lia). reflexivity. }
  rewrite E. cbn [bind]. eexists; split; [reflexivity|].
  destruct (with_compact_like B m (fun i s => h (cslot B i s) (cslot C i s)) Hr Hc Hw Hm) as (HL & HS).
  split; auto. intros i j Hi Hj. now apply dense_lift2.
Qed.

Lemma band_add_dense (B C : banded) :
  wfB B -> wfB C -> bn C = bn B -> bm1 C = bm1 B -> bm2 C = bm2 B ->
  exists R, band_add B C = Ok R /\ like B R /\
    forall i j, i < bn B -> j < bn B -> dense_entry R i j = add (dense_entry B i j) (dense_entry C i j).
Proof.
  intros Hwf HwfC Hn H1 H2.
  destruct (band_tab2 B C add madd Hwf HwfC Hn H1 H2 eq_refl) as (R & E & HL & HD).
  exists R. split; [exact E|]. split; auto. intros i j Hi Hj.
  rewrite HD, if_band_zero2 by (auto; ring). reflexivity.
Qed.

Lemma band_sub_dense (B C : banded) :
  wfB B -> wfB C -> bn C = bn B -> bm1 C = bm1 B -> bm2 C = bm2 B ->
  exists R, band_sub B C = Ok R /\ like B R /\
    forall i j, i < bn B -> j < bn B -> dense_entry R i j = sub (dense_entry B i j) (dense_entry C i j).
Proof.
  intros Hwf HwfC Hn H1 H2.
  destruct (band_tab2 B C sub msub Hwf HwfC Hn H1 H2 eq_refl) as (R & E & HL & HD).
  exists R. split; [exact E|]. split; auto. intros i j Hi Hj.
  rewrite HD, if_band_zero2 by (auto; ring). reflexivity.
Qed.

(* compound assignments built with mupd_all *)
Lemma band_upd1 (B : banded) (g : nat -> nat -> T -> T) (h : nat -> nat -> T -> res T) :
  wfB B ->
  (forall i s x, i < bn B -> s < bm1 B + bm2 B + 1 -> h i s x = Ok (g i s x)) ->
  exists R, (let* c := mupd_all (compact B) h in Ok (with_compact B c)) = Ok R /\ like B R /\
    forall i s, i < bn B -> s < bm1 B + bm2 B + 1 -> cslot R i s = g i s (cslot B i s).
Proof.
  intros Hwf Hh. pose proof Hwf as (HwfM & Hrows & Hcols).
  destruct (mupd_all_spec (compact B) h g HwfM) as (m & E & Hr & Hc & Hw & Hm).
  { intros i s x Hi Hs. apply Hh; congruence. }
  rewrite E. cbn [bind]. eexists; split; [reflexivity|].
  apply (with_compact_like B m (fun i s => g i s (cslot B i s))); try congruence.
  intros i s Hi Hs. unfold cslot. rewrite <- Hcols. apply Hm; congruence.
Qed.

Lemma band_add_assign_dense (B C : banded) :
  wfB B -> wfB C -> bn C = bn B -> bm1 C = bm1 B -> bm2 C = bm2 B ->
  exists R, band_add_assign B C = Ok R /\ like B R /\
    forall i j, i < bn B -> j < bn B -> dense_entry R i j = add (dense_entry B i j) (dense_entry C i j).
Proof.
  intros Hwf HwfC Hn H1 H2.
  pose proof Hwf as (HwfM & Hrows & Hcols). pose proof HwfC as (HwfMC & HrowsC & HcolsC).
  unfold band_add_assign, band_guard3, madd_assign. rewrite Hn, H1, H2, !Nat.eqb_refl. cbn [negb].
  rewrite Hrows, Hcols, HrowsC, HcolsC, Hn, H1, H2, !Nat.eqb_refl. cbn [negb].
  destruct (band_upd1 B (fun i s x => add x (cslot C i s))
              (fun i j x => let* y := mget (compact C) i j in Ok (add x y)) Hwf) as (R & E & HL & HS).
  { intros i s x Hi Hs. rewrite mget_ok by (auto; lia). reflexivity. }
  exists R. split; [exact E|]. split; auto. intros i j Hi Hj.
  rewrite (dense_lift2 B C R add HL H1 H2) by auto.
  rewrite if_band_zero2 by (auto; ring). reflexivity.
Qed.

Lemma band_sub_assign_dense (B C : banded) :
  wfB B -> wfB C -> bn C = bn B -> bm1 C = bm1 B -> bm2 C = bm2 B ->
  exists R, band_sub_assign B C = Ok R /\ like B R /\
    forall i j, i < bn B -> j < bn B -> dense_entry R i j = sub (dense_entry B i j) (dense_entry C i j).
Proof.
  intros Hwf HwfC Hn H1 H2.
  pose proof Hwf as (HwfM & Hrows & Hcols). pose proof HwfC as (HwfMC & HrowsC & HcolsC).
  unfold band_sub_assign, band_guard3, msub_assign. rewrite Hn, H1, H2, !Nat.eqb_refl. cbn [negb].
  rewrite Hrows, Hcols, HrowsC, HcolsC, Hn, H1, H2, !Nat.eqb_refl. cbn [negb].
  destruct (band_upd1 B (fun i s x => sub x (cslot C i s))
              (fun i j x => let* y := mget (compact C) i j in Ok (sub x y)) Hwf) as (R & E & HL & HS).
  { intros i s x Hi Hs. rewrite mget_ok by (auto; lia). reflexivity. }
  exists R. split; [exact E|]. split; auto. intros i j Hi Hj.
  rewrite (dense_lift2 B C R sub HL H1 H2) by auto.
  rewrite if_band_zero2 by (auto; ring). reflexivity.
Qed.

Lemma band_mul_assign_s_dense (B : banded) (s : T) :
  wfB B -> exists R, band_mul_assign_s B s = Ok R /\ like B R /\
    forall i j, i < bn B -> j < bn B -> dense_entry R i j = mul (dense_entry B i j) s.
Proof.
  intros Hwf. unfold band_mul_assign_s, mmul_assign_scalar.
  destruct (band_upd1 B (fun _ _ x => mul x s) (fun _ _ x => Ok (mul x s)) Hwf) as (R & E & HL & HS); auto.
  exists R. split; [exact E|]. split; auto. intros i j Hi Hj.
  rewrite (dense_lift1 B R (fun x => mul x s) HL) by auto.
  rewrite (if_band_zero1 B (fun x => mul x s)) by ring. reflexivity.
Qed.

(* `B += c`, `B -= c`: the constant reaches the stored (in-band) entries; outside the band the twin stays zero *)
Lemma band_add_assign_s_dense (B : banded) (s : T) :
  wfB B -> exists R, band_add_assign_s B s = Ok R /\ like B R /\
    forall i j, i < bn B -> j < bn B ->
      dense_entry R i j = if in_band (bm1 B) (bm2 B) i j then add (dense_entry B i j) s else zero.
Proof.
  intros Hwf. unfold band_add_assign_s, madd_assign_scalar.
  destruct (band_upd1 B (fun _ _ x => add x s) (fun _ _ x => Ok (add x s)) Hwf) as (R & E & HL & HS); auto.
  exists R. split; [exact E|]. split; auto. intros i j Hi Hj.
  now rewrite (dense_lift1 B R (fun x => add x s) HL) by auto.
Qed.

Lemma band_sub_assign_s_dense (B : banded) (s : T) :
  wfB B -> exists R, band_sub_assign_s B s = Ok R /\ like B R /\
    forall i j, i < bn B -> j < bn B ->
      dense_entry R i j = if in_band (bm1 B) (bm2 B) i j then sub (dense_entry B i j) s else zero.
Proof.
  intros Hwf. unfold band_sub_assign_s, msub_assign_scalar.
  destruct (band_upd1 B (fun _ _ x => sub x s) (fun _ _ x => Ok (sub x s)) Hwf) as (R & E & HL & HS); auto.
  exists R. split; [exact E|]. split; auto. intros i j Hi Hj.
  now rewrite (dense_lift1 B R (fun x => sub x s) HL) by auto.
Qed.

(* division by a nonzero scalar (field laws): entries are multiplied by the inverse *)
Variable FL : FieldLaws A.

Lemma div_nonzero (s x : T) : eqb s zero = false -> div x s = Ok (mul x (fl_inv A FL s)).
Proof. intros H. rewrite (fl_div A FL), H. reflexivity. Qed.

Lemma band_div_dense (B : banded) (s : T) :
  wfB B -> eqb s zero = false -> exists R, band_div B s = Ok R /\ like B R /\
    forall i j, i < bn B -> j < bn B -> dense_entry R i j = mul (dense_entry B i j) (fl_inv A FL s).
Proof.
  intros Hwf Hs.
  destruct (band_tab1 B (fun x => mul x (fl_inv A FL s)) (fun x => div x s) (fun m => mdiv m s) Hwf
              (fun x => div_nonzero s x Hs) eq_refl) as (R & E & HL & HD).
  exists R. split; [exact E|]. split; auto. intros i j Hi Hj.
  rewrite HD, (if_band_zero1 B (fun x => mul x (fl_inv A FL s))) by (auto; cbn beta; ring). reflexivity.
Qed.

Lemma band_div_assign_s_dense (B : banded) (s : T) :
  wfB B -> eqb s zero = false -> exists R, band_div_assign_s B s = Ok R /\ like B R /\
    forall i j, i < bn B -> j < bn B -> dense_entry R i j = mul (dense_entry B i j) (fl_inv A FL s).
Proof.
  intros Hwf Hs. unfold band_div_assign_s, mdiv_assign_scalar.
  destruct (band_upd1 B (fun _ _ x => mul x (fl_inv A FL s)) (fun _ _ x => div x s) Hwf) as (R & E & HL & HS).
  { intros; now apply div_nonzero. }
  exists R. split; [exact E|]. split; auto. intros i j Hi Hj.
  rewrite (dense_lift1 B R (fun x => mul x (fl_inv A FL s)) HL) by auto.
  rewrite (if_band_zero1 B (fun x => mul x (fl_inv A FL s))) by (cbn beta; ring). reflexivity.
Qed.

End BandArith.

(* ------------------------------------------------------------------ statements pinned in Props/C04.v *)

Definition RingLaws_of_Field {A : Arith} (FL : FieldLaws A) : RingLaws A :=
  {| rl_ring := F_R (fl_field A FL) |}.

Lemma band_arith_dense_lemma {A : Arith} (RL : RingLaws A) (B C : banded A) (s : A) :
  wfB B -> wfB C -> bn C = bn B -> bm1 C = bm1 B -> bm2 C = bm2 B ->
  (exists R, band_neg B = Ok R /\ like B R /\
     forall i j, i < bn B -> j < bn B -> dense_entry R i j = neg (dense_entry B i j)) /\
  (exists R, band_add B C = Ok R /\ like B R /\
     forall i j, i < bn B -> j < bn B -> dense_entry R i j = add (dense_entry B i j) (dense_entry C i j)) /\
  (exists R, band_sub B C = Ok R /\ like B R /\
     forall i j, i < bn B -> j < bn B -> dense_entry R i j = sub (dense_entry B i j) (dense_entry C i j)) /\
  (exists R, band_scale B s = Ok R /\ like B R /\
     forall i j, i < bn B -> j < bn B -> dense_entry R i j = mul (dense_entry B i j) s).
Proof.
  intros Hwf HwfC Hn H1 H2. split; [now apply band_neg_dense|].
  split; [now apply band_add_dense|]. split; [now apply band_sub_dense|]. now apply band_scale_dense.
Qed.

Lemma band_assign_dense_lemma {A : Arith} (RL : RingLaws A) (B C : banded A) (s : A) :
  wfB B -> wfB C -> bn C = bn B -> bm1 C = bm1 B -> bm2 C = bm2 B ->
  (exists R, band_add_assign B C = Ok R /\ like B R /\
     forall i j, i < bn B -> j < bn B -> dense_entry R i j = add (dense_entry B i j) (dense_entry C i j)) /\
  (exists R, band_sub_assign B C = Ok R /\ like B R /\
     forall i j, i < bn B -> j < bn B -> dense_entry R i j = sub (dense_entry B i j) (dense_entry C i j)) /\
  (exists R, band_mul_assign_s B s = Ok R /\ like B R /\
     forall i j, i < bn B -> j < bn B -> dense_entry R i j = mul (dense_entry B i j) s) /\
  (exists R, band_add_assign_s B s = Ok R /\ like B R /\
     forall i j, i < bn B -> j < bn B ->
       dense_entry R i j = if in_band (bm1 B) (bm2 B) i j then add (dense_entry B i j) s else zero) /\
  (exists R, band_sub_assign_s B s = Ok R /\ like B R /\
     forall i j, i < bn B -> j < bn B ->
       dense_entry R i j = if in_band (bm1 B) (bm2 B) i j then sub (dense_entry B i j) s else zero).
Proof.
  intros Hwf HwfC Hn H1 H2. split; [now apply band_add_assign_dense|].
  split; [now apply band_sub_assign_dense|]. split; [now apply band_mul_assign_s_dense|].
  split; [now apply band_add_assign_s_dense|now apply band_sub_assign_s_dense].
Qed.

Lemma band_div_dense_lemma {A : Arith} (FL : FieldLaws A) (B : banded A) (s : A) :
  wfB B -> eqb s zero = false ->
  (exists R, band_div B s = Ok R /\ like B R /\
     forall i j, i < bn B -> j < bn B -> dense_entry R i j = mul (dense_entry B i j) (fl_inv A FL s)) /\
  (exists R, band_div_assign_s B s = Ok R /\ like B R /\
     forall i j, i < bn B -> j < bn B -> dense_entry R i j = mul (dense_entry B i j) (fl_inv A FL s)).
Proof.
  intros Hwf Hs. split.
  - now apply (band_div_dense (RingLaws_of_Field FL) FL).
  - now apply (band_div_assign_s_dense (RingLaws_of_Field FL) FL).
Qed.


Lemma band_index_spec_lemma m1 m2 i j :
  (in_band m1 m2 i j = true <-> (i <= j + m1 /\ j <= i + m2)) /\
  (in_band m1 m2 i j = true -> band_slot m1 i j < m1 + m2 + 1 /\ j + m1 = i + band_slot m1 i j) /\
  (forall j', in_band m1 m2 i j = true -> in_band m1 m2 i j' = true ->
              band_slot m1 i j = band_slot m1 i j' -> j = j').
Proof.
  split; [apply in_band_iff|]. split.
  - intros H. split; [now apply (band_slot_range m1 m2)|now apply (band_slot_col m1 m2)].
  - intros j'. apply band_slot_inj.
Qed.

(* distinct in-band elements of an n x n band occupy distinct offsets inside the buffer *)
Lemma band_storage_spec_lemma n m1 m2 i j i' j' :
  i < n -> i' < n -> in_band m1 m2 i j = true -> in_band m1 m2 i' j' = true ->
  i * (m1 + m2 + 1) + band_slot m1 i j < n * (m1 + m2 + 1) /\
  (i * (m1 + m2 + 1) + band_slot m1 i j = i' * (m1 + m2 + 1) + band_slot m1 i' j' -> i = i' /\ j = j').
Proof.
  intros Hi Hi' Hb Hb'.
  pose proof (band_slot_range _ _ _ _ Hb) as Hs. pose proof (band_slot_range _ _ _ _ Hb') as Hs'.
  split; [now apply flat_lt|].
  intros E. apply flat_inj in E as (-> & E); auto. split; auto.
  now apply (band_slot_inj m1 m2 i').
Qed.

From Coq Require Import QArith Qcanon.
From OV Require Import Inst.QcInst.

Lemma AQ_RingLaws : RingLaws AQ.
Proof. constructor. exact Qcrt. Qed.
