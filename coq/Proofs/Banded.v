(* Proofs/Banded.v -- lemmas about Model/Banded.v: index map, dense twin, matrix-vector product. *)
From Coq Require Import List Arith Lia ZArith Bool Ring_theory Ring.
From OV Require Import Base.Panic Base.Arith Model.Vector Model.Matrix Model.Banded.
Import ListNotations.
Local Open Scope nat_scope.

(* ------------------------------------------------------------------ index map *)

Lemma in_band_iff m1 m2 i j : in_band m1 m2 i j = true <-> (i <= j + m1 /\ j <= i + m2).
Proof.
  unfold in_band, out_of_band. rewrite negb_true_iff, orb_false_iff, !Nat.ltb_ge. lia.
Qed.

Lemma out_of_band_iff m1 m2 i j : out_of_band m1 m2 i j = true <-> (i + m2 < j \/ j + m1 < i).
Proof. unfold out_of_band. rewrite orb_true_iff, !Nat.ltb_lt. tauto. Qed.

Lemma band_slot_range m1 m2 i j : in_band m1 m2 i j = true -> band_slot m1 i j < m1 + m2 + 1.
Proof. rewrite in_band_iff. unfold band_slot. lia. Qed.

Lemma band_slot_inj m1 m2 i j j' :
  in_band m1 m2 i j = true -> in_band m1 m2 i j' = true ->
  band_slot m1 i j = band_slot m1 i j' -> j = j'.
Proof. rewrite !in_band_iff. unfold band_slot. lia. Qed.

(* the slot of an in-band pair determines the column: j = i + s - m1 *)
Lemma band_slot_col m1 m2 i j : in_band m1 m2 i j = true -> j + m1 = i + band_slot m1 i j.
Proof. rewrite in_band_iff. unfold band_slot. lia. Qed.

(* flat index of (row, slot) inside the n x mm compact buffer *)
Lemma flat_lt n mm i s : i < n -> s < mm -> i * mm + s < n * mm.
Proof. intros. nia. Qed.

Lemma flat_inj mm i s i' s' : s < mm -> s' < mm -> i * mm + s = i' * mm + s' -> i = i' /\ s = s'.
Proof.
  intros Hs Hs' E.
  assert (Hi : i = i').
  { apply (f_equal (fun x => x / mm)) in E.
    rewrite !Nat.div_add_l in E by lia. rewrite !Nat.div_small in E by lia. lia. }
  subst. split; auto. lia.
Qed.

Section BandProofs.
Context {A : Arith}.
Notation T := (T A).
Notation matrix := (matrix A).
Notation banded := (banded A).

Definition wfM (m : matrix) : Prop := length (buf m) = rows m * cols m.

(* well-formed banded matrix: what every constructor of the public API establishes *)
Definition wfB (B : banded) : Prop :=
  wfM (compact B) /\ rows (compact B) = bn B /\ cols (compact B) = bm1 B + bm2 B + 1.

(* raw slot of the compact storage *)
Definition cslot (B : banded) (i s : nat) : T := nth (i * (bm1 B + bm2 B + 1) + s) (buf (compact B)) zero.

(* the dense twin: in-band entries of the storage, zero elsewhere (only ever used with i, j < n) *)
Definition dense_entry (B : banded) (i j : nat) : T :=
  if in_band (bm1 B) (bm2 B) i j then cslot B i (band_slot (bm1 B) i j) else zero.

(* D . v  for the dense twin *)
Definition dense_mulv (B : banded) (v : list T) : list T :=
  map (fun i => sum_n (bn B) (fun j => mul (dense_entry B i j) (nth j v zero))) (seq 0 (bn B)).

(* two banded matrices of the same sizes that agree on every slot that lies inside the matrix
   (padding slots -- column i + s - m1 outside 0..n -- are unconstrained) *)
Definition same_in_matrix_slots (B B' : banded) : Prop :=
  wfB B' /\ bn B' = bn B /\ bm1 B' = bm1 B /\ bm2 B' = bm2 B /\
  forall i j, i < bn B -> j < bn B -> in_band (bm1 B) (bm2 B) i j = true ->
    cslot B' i (band_slot (bm1 B) i j) = cslot B i (band_slot (bm1 B) i j).

Lemma band_new_wf n m1 m2 (x : T) : wfB (band_new n m1 m2 x).
Proof. unfold wfB, wfM, band_new, mat_new; cbn. now rewrite repeat_length. Qed.

Lemma mget_ok (B : banded) i s :
  wfB B -> i < bn B -> s < bm1 B + bm2 B + 1 -> mget (compact B) i s = Ok (cslot B i s).
Proof.
  intros (Hwf & Hr & Hc) Hi Hs. unfold mget, cslot. rewrite Hc.
  apply rd_ok. rewrite Hwf, Hr, Hc. now apply flat_lt.
Qed.

(* element access = dense twin on the band, refused outside it *)
Lemma band_get_spec (B : banded) i j :
  wfB B -> i < bn B -> j < bn B ->
  band_get B i j = if in_band (bm1 B) (bm2 B) i j then Ok (dense_entry B i j) else Panic Guard.
Proof.
  intros Hwf Hi Hj. unfold band_get, dense_entry, in_band.
  destruct (out_of_band (bm1 B) (bm2 B) i j) eqn:E; cbn; auto.
  apply mget_ok; auto. apply band_slot_range. unfold in_band. now rewrite E.
Qed.

End BandProofs.

(* ------------------------------------------------------------------ list update helpers *)

Lemma upd_list_same {X} (l : list X) i d : i < length l -> upd_list l i (nth i l d) = l.
Proof.
  revert i; induction l as [|h t IH]; intros [|i] H; cbn in *; try lia; auto.
  f_equal. apply IH. lia.
Qed.

Lemma upd_list_twice {X} (l : list X) i a b : upd_list (upd_list l i a) i b = upd_list l i b.
Proof. revert i; induction l as [|h t IH]; intros [|i]; cbn; auto. now rewrite IH. Qed.

Lemma upd_list_app_mid {X} (l1 l2 : list X) x y : upd_list (l1 ++ x :: l2) (length l1) y = l1 ++ y :: l2.
Proof. induction l1 as [|h t IH]; cbn; auto. now rewrite IH. Qed.

Lemma upd_list_app_mid' {X} (l1 l2 : list X) x y i :
  length l1 = i -> upd_list (l1 ++ x :: l2) i y = l1 ++ y :: l2.
Proof. intros <-. apply upd_list_app_mid. Qed.

(* ------------------------------------------------------------------ sums *)

Section Sums.
Context {A : Arith}.
Notation T := (T A).

(* what `acc += t j` for j = lo, lo+1, ... computes, in the code's order *)
Fixpoint acc_from (x : T) (len lo : nat) (t : nat -> T) : T :=
  match len with 0 => x | S l => acc_from (add x (t lo)) l (S lo) t end.

Lemma acc_from_snoc x len lo t :
  acc_from x (S len) lo t = add (acc_from x len lo t) (t (lo + len)).
Proof.
  revert x lo; induction len as [|len IH]; intros x lo.
  - cbn. now rewrite Nat.add_0_r.
  - change (acc_from x (S (S len)) lo t) with (acc_from (add x (t lo)) (S len) (S lo) t).
    rewrite IH. cbn [acc_from]. now replace (S lo + len) with (lo + S len) by lia.
Qed.

Lemma acc_from_sum len lo t : acc_from zero len lo t = sum_n len (fun k => t (lo + k)).
Proof.
  induction len as [|len IH]; [reflexivity|].
  rewrite acc_from_snoc, IH. reflexivity.
Qed.

(* the accumulate-into-slot loop: `for j in lo..lo+len { r[i] += t j }` *)
Lemma acc_loop (i : nat) (t : nat -> T) (body : nat -> list T -> res (list T)) :
  forall len lo (r : list T), i < length r ->
  (forall j r, lo <= j < lo + len -> i < length r ->
     body j r = Ok (upd_list r i (add (nth i r zero) (t j)))) ->
  for_from len lo body r = Ok (upd_list r i (acc_from (nth i r zero) len lo t)).
Proof.
  induction len as [|len IH]; intros lo r Hi Hb.
  - cbn. now rewrite upd_list_same.
  - cbn [for_from acc_from]. rewrite Hb by (auto; lia). cbn [bind].
    rewrite IH.
    + rewrite nth_upd_list by auto. rewrite Nat.eqb_refl. now rewrite upd_list_twice.
    + now rewrite upd_list_length.
    + intros j r' Hj Hr'. apply Hb; auto. lia.
Qed.

Variable RL : RingLaws A.
Add Ring ARing : (rl_ring A RL).

Lemma radd_0_r (x : T) : add x zero = x. Proof. ring. Qed.
Lemma rmul_0_l (x : T) : mul zero x = zero. Proof. ring. Qed.

Lemma sum_n_zero n (g : nat -> T) : (forall j, j < n -> g j = zero) -> sum_n n g = zero.
Proof.
  induction n as [|n IH]; intros H; cbn; auto.
  rewrite IH by (intros; apply H; lia). rewrite H by lia. ring.
Qed.

(* a vanishing prefix can be dropped *)
Lemma sum_n_skip a b (g : nat -> T) :
  (forall j, j < a -> g j = zero) -> sum_n (a + b) g = sum_n b (fun k => g (a + k)).
Proof.
  intros H. induction b as [|b IH].
  - rewrite Nat.add_0_r. cbn. now apply sum_n_zero.
  - replace (a + S b) with (S (a + b)) by lia. cbn. now rewrite IH.
Qed.

(* a vanishing suffix can be dropped *)
Lemma sum_n_trunc a b (g : nat -> T) :
  (forall j, a <= j < a + b -> g j = zero) -> sum_n (a + b) g = sum_n a g.
Proof.
  induction b as [|b IH]; intros H.
  - now rewrite Nat.add_0_r.
  - replace (a + S b) with (S (a + b)) by lia. cbn.
    rewrite IH by (intros; apply H; lia). rewrite H by lia. ring.
Qed.

End Sums.

(* ------------------------------------------------------------------ matrix-vector product *)

Section MulV.
Context {A : Arith}.
Notation T := (T A).
Notation banded := (banded A).
Variable RL : RingLaws A.

(* the row sum the code accumulates: slots lo .. hi-1 of row i, in order *)
Definition row_lo (B : banded) (i : nat) : nat := bm1 B - i.
Definition row_cnt (B : banded) (i : nat) : nat := Nat.min (bn B) (i + bm2 B + 1) - (i - bm1 B).
Definition row_term (B : banded) (v : list T) (i s : nat) : T :=
  mul (cslot B i s) (nth (s + i - bm1 B) v zero).

Lemma row_sum_dense (B : banded) (v : list T) i :
  i < bn B ->
  sum_n (bn B) (fun j => mul (dense_entry B i j) (nth j v zero)) =
  sum_n (row_cnt B i) (fun k => row_term B v i (row_lo B i + k)).
Proof.
  intros Hi. unfold row_cnt, row_lo, row_term.
  set (n := bn B) in *. set (m1 := bm1 B). set (m2 := bm2 B).
  set (jlo := i - m1). set (jhi := Nat.min n (i + m2 + 1)).
  set (g := fun j => mul (dense_entry B i j) (nth j v zero)).
  assert (Hn : n = (jlo + (jhi - jlo)) + (n - jhi)) by (unfold jlo, jhi; lia).
  rewrite Hn at 1.
  rewrite (sum_n_trunc RL).
  2:{ intros j Hj. unfold g, dense_entry. fold m1 m2.
      replace (in_band m1 m2 i j) with false.
      - apply (rmul_0_l RL).
      - symmetry. apply not_true_iff_false. rewrite in_band_iff. unfold jlo, jhi in *. lia. }
  rewrite (sum_n_skip RL).
  2:{ intros j Hj. unfold g, dense_entry. fold m1 m2.
      replace (in_band m1 m2 i j) with false.
      - apply (rmul_0_l RL).
      - symmetry. apply not_true_iff_false. rewrite in_band_iff. unfold jlo in *. lia. }
  apply sum_n_ext. intros k Hk. unfold g, dense_entry. fold m1 m2.
  replace (in_band m1 m2 i (jlo + k)) with true.
  2:{ symmetry. rewrite in_band_iff. unfold jlo, jhi in *. lia. }
  unfold band_slot. fold m1.
  replace (m1 + (jlo + k) - i) with (m1 - i + k) by (unfold jlo; lia).
  replace (m1 - i + k + i - m1) with (jlo + k) by (unfold jlo; lia).
  reflexivity.
Qed.

Lemma band_mul_ok (B : banded) (v : list T) :
  wfB B -> length v = bn B -> band_mul B v = Ok (dense_mulv B v).
Proof.
  intros Hwf Hv. unfold band_mul. rewrite Hv, Nat.eqb_refl. cbn [negb].
  set (n := bn B) in *.
  set (rowsum := fun i => sum_n n (fun j => mul (dense_entry B i j) (nth j v zero))).
  match goal with |- for_ 0 n ?body _ = _ => set (body0 := body) end.
  destruct (for_inv (fun i r => r = map rowsum (seq 0 i) ++ repeat zero (n - i)) 0 n body0 (repeat zero n))
    as (r & E & Hr).
  - lia.
  - cbn. now rewrite Nat.sub_0_r.
  - intros i r Hi ->. unfold body0.
    set (r0 := map rowsum (seq 0 i) ++ repeat zero (n - i)).
    assert (Hlen1 : length (map rowsum (seq 0 i)) = i) by now rewrite map_length, seq_length.
    assert (Hlen : length r0 = n).
    { unfold r0. rewrite app_length, Hlen1, repeat_length. lia. }
    assert (Hnth : nth i r0 zero = zero).
    { unfold r0. rewrite app_nth2 by lia. rewrite Hlen1, Nat.sub_diag.
      destruct (n - i) eqn:En; [lia|]. reflexivity. }
    (* loop bounds as the code computes them (isize) *)
    assert (Hlo : Z.to_nat (Z.max 0 (- (Z.of_nat i - Z.of_nat (bm1 B)))) = row_lo B i)
      by (unfold row_lo; lia).
    assert (Hhi : Z.to_nat (Z.min (Z.of_nat (bm1 B) + Z.of_nat (bm2 B) + 1)
                              (Z.of_nat n - (Z.of_nat i - Z.of_nat (bm1 B)))) = row_lo B i + row_cnt B i)
      by (unfold row_lo, row_cnt; fold n; lia).
    rewrite Hlo, Hhi. unfold for_.
    replace (row_lo B i + row_cnt B i - row_lo B i) with (row_cnt B i) by lia.
    rewrite (acc_loop i (row_term B v i)).
    + eexists; split; [reflexivity|].
      rewrite Hnth, acc_from_sum, <- (row_sum_dense B v i) by exact (proj1 (conj (proj2 Hi) I)).
      fold n. fold (rowsum i).
      unfold r0. destruct (n - i) as [|d] eqn:En; [lia|]. cbn [repeat].
      rewrite (upd_list_app_mid' _ _ _ _ i Hlen1).
      rewrite seq_S, map_app. cbn [map]. rewrite <- app_assoc. cbn [app].
      replace (n - S i) with d by lia. reflexivity.
    + lia.
    + intros s r' Hs Hr'.
      assert (Hs' : s < bm1 B + bm2 B + 1) by (unfold row_lo, row_cnt in Hs; fold n in Hs; lia).
      rewrite (rd_ok r' i zero) by auto. cbn [bind].
      rewrite mget_ok by (auto; lia). cbn [bind].
      assert (Hcol : Z.to_nat (Z.of_nat s + (Z.of_nat i - Z.of_nat (bm1 B))) = s + i - bm1 B)
        by (unfold row_lo in Hs; lia).
      rewrite Hcol.
      rewrite (rd_ok v (s + i - bm1 B) zero).
      2:{ rewrite Hv. unfold row_lo, row_cnt in Hs. fold n in Hs. lia. }
      cbn [bind]. rewrite upd_ok by auto. reflexivity.
  - rewrite E. f_equal. rewrite Hr, Nat.sub_diag. cbn. now rewrite app_nil_r.
Qed.

(* the dense twin does not see padding *)
Lemma dense_entry_same (B B' : banded) i j :
  same_in_matrix_slots B B' -> i < bn B -> j < bn B -> dense_entry B' i j = dense_entry B i j.
Proof.
  intros (_ & Hn & H1 & H2 & H) Hi Hj. unfold dense_entry. rewrite H1, H2.
  destruct (in_band (bm1 B) (bm2 B) i j) eqn:E; auto.
Qed.

Lemma band_mul_spec_lemma (B : banded) (v : list T) :
  wfB B -> length v = bn B ->
  band_mul B v = Ok (dense_mulv B v) /\
  forall B', same_in_matrix_slots B B' -> band_mul B' v = band_mul B v.
Proof.
  intros Hwf Hv. split; [now apply band_mul_ok|].
  intros B' HS. pose proof HS as (Hwf' & Hn & _).
  rewrite !band_mul_ok by (auto; congruence). f_equal.
  unfold dense_mulv. rewrite Hn. apply map_ext_in. intros i Hi. apply in_seq in Hi.
  apply sum_n_ext. intros j Hj. now rewrite (dense_entry_same B B') by (auto; lia).
Qed.

End MulV.

(* ------------------------------------------------------------------ statements pinned in Props/C04.v *)

Lemma band_index_spec_lemma m1 m2 i j :
  (in_band m1 m2 i j = true <-> (i <= j + m1 /\ j <= i + m2)) /\
  (in_band m1 m2 i j = true -> band_slot m1 i j < m1 + m2 + 1 /\ j + m1 = i + band_slot m1 i j) /\
  (forall j', in_band m1 m2 i j = true -> in_band m1 m2 i j' = true ->
              band_slot m1 i j = band_slot m1 i j' -> j = j').
Proof.
  split; [apply in_band_iff|]. split.
  - intros H. split; [now apply (band_slot_range m1 m2)|now apply (band_slot_col m1 m2)].
  - intros j'. apply band_slot_inj.
Qed.

(* distinct in-band elements of an n x n band occupy distinct offsets inside the buffer *)
Lemma band_storage_spec_lemma n m1 m2 i j i' j' :
  i < n -> i' < n -> in_band m1 m2 i j = true -> in_band m1 m2 i' j' = true ->
  i * (m1 + m2 + 1) + band_slot m1 i j < n * (m1 + m2 + 1) /\
  (i * (m1 + m2 + 1) + band_slot m1 i j = i' * (m1 + m2 + 1) + band_slot m1 i' j' -> i = i' /\ j = j').
Proof.
  intros Hi Hi' Hb Hb'.
  pose proof (band_slot_range _ _ _ _ Hb) as Hs. pose proof (band_slot_range _ _ _ _ Hb') as Hs'.
  split; [now apply flat_lt|].
  intros E. apply flat_inj in E as (-> & E); auto. split; auto.
  now apply (band_slot_inj m1 m2 i').
Qed.

From Coq Require Import QArith Qcanon.
From OV Require Import Inst.QcInst.

Lemma AQ_RingLaws : RingLaws AQ.
Proof. constructor. exact Qcrt. Qed.
