(* Proofs/PinTest_r2c2.v -- compiled copy of the blocks of coq/Props/pending/CXX_r2c2.v.txt (package r2c2): shows that every
   pending pin block compiles as it stands (written by driver/r2c2_mkpintest.py).  The coordinator appends the blocks to
   Props/CXX.v at merge. *)
From Coq Require Import List Arith ZArith.
From OV Require Import Base.Panic Base.Arith Model.Vector Model.Matrix Model.Sparse Model.Iter Model.Newton Model.Roots.
Import ListNotations.

(* ======================================================================== C03_r2c2.v.txt *)
(* ---- tie of the model to the source of this run (package r2c2): gen/SrcMatNorms.v is regenerated from
   src/matrix/functions.rs (impl Matrix<f64>: norm_1, norm_inf, norm_p, norm_frob, norm_max) by driver/rust2coq.py on every
   check run; Proofs/SrcEqMatNorms.v proves each equal to its model of Model/MatNorms.v for every arithmetic with a square
   root and every libm powf (a parameter); norm_frob = mnorm_frob under the model's stated reading of powf(., 2), powf(., 1/2). *)
From OV Require Proofs.SrcEqMatNorms.
Theorem model_is_source_C03_MatNorms : forall (F : SArith) (powf : F -> F -> F), @SrcEqMatNorms.model_is_source_MatNorms F powf.
Proof. intros F powf. exact (SrcEqMatNorms.model_is_source_MatNorms_lemma powf). Qed.
Check model_is_source_C03_MatNorms : forall (F : SArith) (powf : F -> F -> F), @SrcEqMatNorms.model_is_source_MatNorms F powf.
Print Assumptions model_is_source_C03_MatNorms.
(* ---- tie of the model to the source of this run (package r2c2): gen/SrcWrapMatrix.v is regenerated on every check run from
   src/matrix/{arithmetic,mod}.rs: the consuming operator forms (each delegates to the by-reference form), empty, rows, cols, Clone;
   Proofs/SrcEqWrapMatrix.v proves each regenerated function equal to its hand-written model. *)
From OV Require Proofs.SrcEqWrapMatrix.
Theorem model_is_source_C03_WrapMatrix : forall A : Arith, @SrcEqWrapMatrix.model_is_source_WrapMatrix A.
Proof. intros A. exact SrcEqWrapMatrix.model_is_source_WrapMatrix_lemma. Qed.
Check model_is_source_C03_WrapMatrix : forall A : Arith, @SrcEqWrapMatrix.model_is_source_WrapMatrix A.
Print Assumptions model_is_source_C03_WrapMatrix.

(* ======================================================================== C04_r2c2.v.txt *)
(* ---- tie of the model to the source of this run (package r2c2): gen/SrcWrapBanded.v is regenerated on every check run from
   src/banded.rs: the consuming operator forms (each delegates to the by-reference form), empty, size, size_below, size_above, compact;
   Proofs/SrcEqWrapBanded.v proves each regenerated function equal to its hand-written model. *)
From OV Require Proofs.SrcEqWrapBanded.
Theorem model_is_source_C04_WrapBanded : forall A : Arith, @SrcEqWrapBanded.model_is_source_WrapBanded A.
Proof. intros A. exact SrcEqWrapBanded.model_is_source_WrapBanded_lemma. Qed.
Check model_is_source_C04_WrapBanded : forall A : Arith, @SrcEqWrapBanded.model_is_source_WrapBanded A.
Print Assumptions model_is_source_C04_WrapBanded.

(* ======================================================================== C05_r2c2.v.txt *)
(* ---- tie of the model to the source of this run (package r2c2): gen/SrcWrapTridiag.v is regenerated on every check run from
   src/tridiagonal.rs: empty, size, the three diagonal accessors, Clone, the consuming matrix * vector;
   Proofs/SrcEqWrapTridiag.v proves each regenerated function equal to its hand-written model. *)
From OV Require Proofs.SrcEqWrapTridiag.
Theorem model_is_source_C05_WrapTridiag : forall A : Arith, @SrcEqWrapTridiag.model_is_source_WrapTridiag A.
Proof. intros A. exact SrcEqWrapTridiag.model_is_source_WrapTridiag_lemma. Qed.
Check model_is_source_C05_WrapTridiag : forall A : Arith, @SrcEqWrapTridiag.model_is_source_WrapTridiag A.
Print Assumptions model_is_source_C05_WrapTridiag.

(* ======================================================================== C08_r2c2.v.txt *)
(* ---- tie of the model to the source of this run (package r2c2): gen/SrcIter.v is regenerated from src/sparse.rs by
   driver/rust2coq.py on every check run; Proofs/SrcEqIter.v proves ERASURE -- each regenerated Krylov solver equals the
   hand-written model of Model/Iter.v with the ghost projected away (er (result, x, ghost) = (x, result)), for every
   arithmetic with a square root, every matrix (well-formed or not), every b, x, budget and tolerance; panics included. *)
From OV Require Proofs.SrcEqIter.
Theorem model_is_source_C08_Iter : forall F : SArith, @SrcEqIter.model_is_source_Iter F.
Proof. intros F. exact SrcEqIter.model_is_source_Iter_lemma. Qed.
Check model_is_source_C08_Iter : forall F : SArith, @SrcEqIter.model_is_source_Iter F.
Print Assumptions model_is_source_C08_Iter.
(* non-vacuity: the regenerated solvers run (float instance, the 2x2 SPD system [[4,1],[1,3]] x = [1,2]) and converge in
   two iterations to x = [1/11, 7/11] up to rounding -- the erasure equations above are not between two panics *)
From Coq Require Import Floats.
From OV Require Import Inst.FloatInst.
Example model_is_source_C08_Iter_nonvacuous :
  let M : sparse AF := @mkS AF 2 2 4 [4;1;1;3]%float [0;1;0;1] [0;2;4] in
  match SrcIter.s_solve_cg (F:=SAF) M ([1;2]%float : list (T AF)) ([0;0]%float : list (T AF)) 10 (0x1p-30%float : T AF),
        SrcIter.s_solve_qmr (F:=SAF) M ([1;2]%float : list (T AF)) ([0;0]%float : list (T AF)) 10 (0x1p-30%float : T AF) with
  | Ok (_, IOk 2), Ok (_, IOk 2) => True
  | _, _ => False
  end.
Proof. vm_compute. exact I. Qed.

(* ======================================================================== C09_r2c2.v.txt *)
(* ---- tie of the model to the source of this run (package r2c2): gen/SrcIter.v is regenerated from src/sparse.rs by
   driver/rust2coq.py on every check run; Proofs/SrcEqIter.v proves ERASURE -- each regenerated Krylov solver equals the
   hand-written model of Model/Iter.v with the ghost projected away (er (result, x, ghost) = (x, result)), for every
   arithmetic with a square root, every matrix (well-formed or not), every b, x, budget and tolerance; panics included. *)
From OV Require Proofs.SrcEqIter.
Theorem model_is_source_C09_Iter : forall F : SArith, @SrcEqIter.model_is_source_Iter F.
Proof. intros F. exact SrcEqIter.model_is_source_Iter_lemma. Qed.
Check model_is_source_C09_Iter : forall F : SArith, @SrcEqIter.model_is_source_Iter F.
Print Assumptions model_is_source_C09_Iter.
(* non-vacuity: the regenerated solvers run (float instance, the 2x2 SPD system [[4,1],[1,3]] x = [1,2]) and converge in
   two iterations to x = [1/11, 7/11] up to rounding -- the erasure equations above are not between two panics *)
From Coq Require Import Floats.
From OV Require Import Inst.FloatInst.
Example model_is_source_C09_Iter_nonvacuous :
  let M : sparse AF := @mkS AF 2 2 4 [4;1;1;3]%float [0;1;0;1] [0;2;4] in
  match SrcIter.s_solve_cg (F:=SAF) M ([1;2]%float : list (T AF)) ([0;0]%float : list (T AF)) 10 (0x1p-30%float : T AF),
        SrcIter.s_solve_qmr (F:=SAF) M ([1;2]%float : list (T AF)) ([0;0]%float : list (T AF)) 10 (0x1p-30%float : T AF) with
  | Ok (_, IOk 2), Ok (_, IOk 2) => True
  | _, _ => False
  end.
Proof. vm_compute. exact I. Qed.

(* ======================================================================== C10_r2c2.v.txt *)
(* ---- tie of the model to the source of this run (package r2c2): gen/SrcRoots.v is regenerated from src/polynomial/mod.rs
   (quadratic_solve, cubic_solve, laguer, poly_solve and the two public `roots`) by driver/rust2coq.py on every check run, over
   the model's two-sorted RootArith (f64 / Cmplx; the libm-backed Complex::sqrt / pow / polar are its oracle operations);
   Proofs/SrcEqRoots.v proves each regenerated function equal to Model/Roots.v -- laguer / poly_solve / roots as ERASURE
   lemmas (the exit reasons and the traces of the laguer calls projected away) -- for EVERY RootArith: the float instance with
   its oracle table (what the correspondence check runs) and the field instance of the theorems above alike. *)
From OV Require Proofs.SrcEqRoots.
Theorem model_is_source_C10_Roots : forall RA : RootArith, SrcEqRoots.model_is_source_Roots RA.
Proof. intros RA. exact (SrcEqRoots.model_is_source_Roots_lemma RA). Qed.
Check model_is_source_C10_Roots : forall RA : RootArith, SrcEqRoots.model_is_source_Roots RA.
Print Assumptions model_is_source_C10_Roots.

(* ======================================================================== C11_r2c2.v.txt *)
(* ---- tie of the model to the source of this run (package r2c2): gen/SrcWrapPoly.v is regenerated on every check run from
   src/polynomial/{arithmetic,mod}.rs: the consuming operator forms, Index, empty, new, quadratic, cubic, size, degree, Clone;
   Proofs/SrcEqWrapPoly.v proves each regenerated function equal to its hand-written model. *)
From OV Require Proofs.SrcEqWrapPoly.
Theorem model_is_source_C11_WrapPoly : forall A : Arith, @SrcEqWrapPoly.model_is_source_WrapPoly A.
Proof. intros A. exact SrcEqWrapPoly.model_is_source_WrapPoly_lemma. Qed.
Check model_is_source_C11_WrapPoly : forall A : Arith, @SrcEqWrapPoly.model_is_source_WrapPoly A.
Print Assumptions model_is_source_C11_WrapPoly.

(* ======================================================================== C15_r2c2.v.txt *)
(* ---- tie of the model to the source of this run (package r2c2): gen/SrcVectorOps.v is regenerated from
   src/vector/{mod,operations,functions}.rs (find, resize, Index, clear, swap, push, push_front, insert, pop, size, new, zeros,
   ones) by driver/rust2coq.py on every check run; Proofs/SrcEqVectorOps.v proves each equal to its model of Model/Vector.v. *)
From OV Require Proofs.SrcEqVectorOps.
Theorem model_is_source_C15_VectorOps : forall A : Arith, @SrcEqVectorOps.model_is_source_VectorOps A.
Proof. intros A. exact SrcEqVectorOps.model_is_source_VectorOps_lemma. Qed.
Check model_is_source_C15_VectorOps : forall A : Arith, @SrcEqVectorOps.model_is_source_VectorOps A.
Print Assumptions model_is_source_C15_VectorOps.
(* ---- tie of the model to the source of this run (package r2c2): gen/SrcWrapVector.v is regenerated on every check run from
   src/vector/{arithmetic,mod}.rs: the consuming forms of + and - (they delegate to the by-reference forms), empty, create, Clone;
   Proofs/SrcEqWrapVector.v proves each regenerated function equal to its hand-written model. *)
From OV Require Proofs.SrcEqWrapVector.
Theorem model_is_source_C15_WrapVector : forall A : Arith, @SrcEqWrapVector.model_is_source_WrapVector A.
Proof. intros A. exact SrcEqWrapVector.model_is_source_WrapVector_lemma. Qed.
Check model_is_source_C15_WrapVector : forall A : Arith, @SrcEqWrapVector.model_is_source_WrapVector A.
Print Assumptions model_is_source_C15_WrapVector.
(* ---- gen/SrcVecCmplx.v: src/vector/vec_cmplx.rs (conj, real, norm_inf of Vector<Complex<T>>) regenerated on every check
   run (+ Tridiagonal::<Complex<T>>::conj of src/tridiagonal.rs); Proofs/SrcEqVecCmplx.v proves conj / real equal to vconj / vreal of Model/Vector.v and norm_inf equal to the loop
   formulation Newton.norm_inf (NCplx F) that the Newton model calls. *)
From OV Require Proofs.SrcEqVecCmplx.
Theorem model_is_source_C15_VecCmplx : forall F : SArith, @SrcEqVecCmplx.model_is_source_VecCmplx F.
Proof. intros F. exact SrcEqVecCmplx.model_is_source_VecCmplx_lemma. Qed.
Check model_is_source_C15_VecCmplx : forall F : SArith, @SrcEqVecCmplx.model_is_source_VecCmplx F.
Print Assumptions model_is_source_C15_VecCmplx.

(* ======================================================================== C16_r2c2.v.txt *)
(* ---- tie of the model to the source of this run (package r2c2): gen/SrcParDot.v is regenerated from
   src/vector/vec_f64.rs (Vector<f64>::dot_f64) by driver/rust2coq.py on every check run: the size guard, num_threads (the
   parameter t), chunk_size = size / num_threads (Panic DivZero for t = 0), start / end of every worker, the checked slicing
   by the main thread, the workers as values (scope.spawn(|| BLOCK) = the computation of BLOCK) and the sum in join order.
   Proofs/SrcEqParDot.v proves it equal to pardot of Model/ParDot.v for every arithmetic, every t and all operands. *)
From OV Require Proofs.SrcEqParDot.
Theorem model_is_source_C16_ParDot : forall A : Arith, @SrcEqParDot.model_is_source_ParDot A.
Proof. intros A. exact SrcEqParDot.model_is_source_ParDot_lemma. Qed.
Check model_is_source_C16_ParDot : forall A : Arith, @SrcEqParDot.model_is_source_ParDot A.
Print Assumptions model_is_source_C16_ParDot.

(* ======================================================================== C17_r2c2.v.txt *)
(* ---- tie of the model to the source of this run (package r2c2): gen/SrcNewton.v / gen/SrcNewtonC.v are regenerated from
   src/newton.rs and src/matrix/functions.rs by driver/rust2coq.py on every check run; Proofs/SrcEqNewton.v and
   Proofs/SrcEqNewtonC.v prove ERASURE -- each of the six regenerated solve methods and of the two finite-difference Jacobians
   equals the instrumented model of Model/Newton.v (at NReal A resp. NCplx S) with the recorded call points projected away,
   for every arithmetic, every configuration and every closure (an arbitrary function X -> res X); panics included. *)
From OV Require Proofs.SrcEqNewton.
Theorem model_is_source_C17_Newton : forall A : Arith, @SrcEqNewton.model_is_source_Newton A.
Proof. intros A. exact SrcEqNewton.model_is_source_Newton_lemma. Qed.
Check model_is_source_C17_Newton : forall A : Arith, @SrcEqNewton.model_is_source_Newton A.
Print Assumptions model_is_source_C17_Newton.
From OV Require Proofs.SrcEqNewtonC.
Theorem model_is_source_C17_NewtonC : forall S : SArith, @SrcEqNewtonC.model_is_source_NewtonC S.
Proof. intros S. exact SrcEqNewtonC.model_is_source_NewtonC_lemma. Qed.
Check model_is_source_C17_NewtonC : forall S : SArith, @SrcEqNewtonC.model_is_source_NewtonC S.
Print Assumptions model_is_source_C17_NewtonC.
(* ---- tie of the model to the source of this run (package r2c2): gen/SrcWrapNewton.v is regenerated on every check run from
   src/newton.rs: the setters tolerance / delta / iterations / guess and parameters;
   Proofs/SrcEqWrapNewton.v proves each regenerated function equal to its hand-written model. *)
From OV Require Proofs.SrcEqWrapNewton.
Theorem model_is_source_C17_WrapNewton : forall A : Arith, @SrcEqWrapNewton.model_is_source_WrapNewton A.
Proof. intros A. exact SrcEqWrapNewton.model_is_source_WrapNewton_lemma. Qed.
Check model_is_source_C17_WrapNewton : forall A : Arith, @SrcEqWrapNewton.model_is_source_WrapNewton A.
Print Assumptions model_is_source_C17_WrapNewton.
(* ---- the callee Vec64::norm_inf of the vector solvers: the regenerated function (gen/SrcVec64.v, f64::abs instantiated by
   the arithmetic's abs) is the loop formulation Newton.norm_inf (NReal _) the Newton model calls *)
Theorem model_is_source_C17_norm_inf : forall (F : SArith) (v : list (T (SA F))),
  OV.gen.SrcVec64.s_norm_inf (@OV.Base.Arith.abs (SA F)) v = OV.Model.Newton.norm_inf (OV.Model.Newton.NReal (SA F)) v.
Proof. intros F v. exact (SrcEqNewton.callee_norm_inf v). Qed.
Check model_is_source_C17_norm_inf : forall (F : SArith) (v : list (T (SA F))),
  OV.gen.SrcVec64.s_norm_inf (@OV.Base.Arith.abs (SA F)) v = OV.Model.Newton.norm_inf (OV.Model.Newton.NReal (SA F)) v.
Print Assumptions model_is_source_C17_norm_inf.
(* non-vacuity: the regenerated Newton<f64>::solve runs (float instance, f(x) = x*x - 2 from x0 = 1) and returns Ok(sqrt 2) *)
From Coq Require Import Floats.
From OV Require Import Inst.FloatInst.
Example model_is_source_C17_Newton_nonvacuous :
  SrcNewton.s_newton_solve_f64 (A:=AF) (@mkCfg (T AF) (T AF) 0x1p-30%float 0x1p-27%float 20 1%float) (fun x : T AF => Ok (x*x - 2)%float)
  = Ok (NOk 0x1.6a09e667f3bcdp+0%float).
Proof. vm_compute. reflexivity. Qed.

(* ======================================================================== C18_r2c2.v.txt *)
(* ---- tie of the model to the source of this run (package r2c2): gen/SrcNewton.v / gen/SrcNewtonC.v are regenerated from
   src/newton.rs and src/matrix/functions.rs by driver/rust2coq.py on every check run; Proofs/SrcEqNewton.v and
   Proofs/SrcEqNewtonC.v prove ERASURE -- each of the six regenerated solve methods and of the two finite-difference Jacobians
   equals the instrumented model of Model/Newton.v (at NReal A resp. NCplx S) with the recorded call points projected away,
   for every arithmetic, every configuration and every closure (an arbitrary function X -> res X); panics included. *)
From OV Require Proofs.SrcEqNewton.
Theorem model_is_source_C18_Newton : forall A : Arith, @SrcEqNewton.model_is_source_Newton A.
Proof. intros A. exact SrcEqNewton.model_is_source_Newton_lemma. Qed.
Check model_is_source_C18_Newton : forall A : Arith, @SrcEqNewton.model_is_source_Newton A.
Print Assumptions model_is_source_C18_Newton.
From OV Require Proofs.SrcEqNewtonC.
Theorem model_is_source_C18_NewtonC : forall S : SArith, @SrcEqNewtonC.model_is_source_NewtonC S.
Proof. intros S. exact SrcEqNewtonC.model_is_source_NewtonC_lemma. Qed.
Check model_is_source_C18_NewtonC : forall S : SArith, @SrcEqNewtonC.model_is_source_NewtonC S.
Print Assumptions model_is_source_C18_NewtonC.

(* ======================================================================== C19_r2c2.v.txt *)
(* ---- tie of the model to the source of this run (package r2c2): gen/SrcMesh.v is regenerated from src/mesh1d.rs and
   src/mesh2d.rs by driver/rust2coq.py on every check run (26 functions: every storage path, Index, the interpolation loop,
   the three trapezium rules, assign / apply / cross sections / var_as_matrix; file I/O excluded); Proofs/SrcEqMesh.v proves
   each regenerated function equal to its hand-written model of Model/Mesh.v, for every arithmetic, every coordinate type and
   every mesh value (well-formed or not).  The literals 0.5 / 0.25 / 1.0e-7 are the model's parameters half / quarter / snap. *)
From OV Require Proofs.SrcEqMesh.
Theorem model_is_source_C19_Mesh : forall (A : Arith) (X : Type), @SrcEqMesh.model_is_source_Mesh A X.
Proof. intros A X. exact SrcEqMesh.model_is_source_Mesh_lemma. Qed.
Check model_is_source_C19_Mesh : forall (A : Arith) (X : Type), @SrcEqMesh.model_is_source_Mesh A X.
Print Assumptions model_is_source_C19_Mesh.
