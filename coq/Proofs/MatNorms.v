(* Proofs/MatNorms.v -- the norms of Model/MatNorms.v equal their textbook definitions.
   Stated over any arithmetic whose comparison satisfies the two order laws [OrdLaws] (irreflexive;
   a < b and c <= a give c <= b, where x <= y is "ltb y x = false"): exact rationals, reals, and
   floats without NaN.  No field or ring law is needed: the sums are the code's own left folds.

   norm_1   = the maximum of 0 and the column sums  Sum_i |a_ij|   (= max column sum: sums are >= 0)
   norm_inf = the maximum of 0 and the row sums     Sum_j |a_ij|
   norm_max = the maximum of 0 and the |a_ij|
   norm_p   = root (Sum_k pw |buf_k|), the entrywise sum in row-major order (norm_frob: pw x = x*x, root = sqrt)
   "R is the maximum of 0 and a family" is stated as: R bounds every member, and R is 0 or a member. *)
From Coq Require Import List Arith Lia Bool ZArith.
From OV Require Import Base.Panic Base.Arith Model.Vector Model.Matrix Model.MatNorms Proofs.Matrix.
Import ListNotations.

Record OrdLaws (A : Arith) : Prop := {
  ol_irrefl : forall x : A, ltb x x = false;
  ol_trans : forall a b c : A, ltb a b = true -> ltb a c = false -> ltb b c = false;
}.

Section NormProofs.
Context {SS : SArith}.
Notation A := (SA SS).
Notation T := (T A).
Hypothesis OL : OrdLaws A.

(* R is the maximum of {zero} and the set P *)
Definition maxof (P : T -> Prop) (R : T) : Prop :=
  (forall x, P x -> ltb R x = false) /\ (R = zero \/ P R).

Lemma maxof_step P R s : maxof P R -> maxof (fun x => P x \/ x = s) (fmax R s).
Proof.
  intros (Hub & Hmem). unfold fmax. destruct (ltb R s) eqn:E.
  - split.
    + intros x [Hx| ->]; [|apply (ol_irrefl A OL)]. apply (ol_trans A OL R s x E). now apply Hub.
    + right; now right.
  - split.
    + intros x [Hx| ->]; auto.
    + destruct Hmem as [->|Hm]; [now left|right; now left].
Qed.

Lemma maxof_iff P Q R : maxof P R -> (forall x, P x <-> Q x) -> maxof Q R.
Proof.
  intros (Hub & Hmem) H. split.
  - intros x Hx. apply Hub. now apply H.
  - destruct Hmem as [->|Hm]; [now left|right; now apply H].
Qed.

Lemma maxof_empty : maxof (fun _ => False) (@zero A).
Proof. split; [tauto|now left]. Qed.

(* a summation loop:  acc = a; for i < n: acc += F(g i) *)
Lemma for_sum n (g : nat -> res T) (h : nat -> T) (F : T -> T) a :
  (forall i, i < n -> g i = Ok (h i)) ->
  for_ 0 n (fun i acc => let* x := g i in Ok (add acc (F x))) a = Ok (sum_acc a n (fun i => F (h i))).
Proof.
  intros Hg.
  destruct (for_inv (fun k acc => acc = sum_acc a k (fun i => F (h i))) 0 n
              (fun i acc => let* x := g i in Ok (add acc (F x))) a) as (r & E & Hr); [lia|reflexivity| |].
  - intros k acc Hk ->. rewrite Hg by lia. cbn [bind]. eexists; split; reflexivity.
  - now rewrite E, Hr.
Qed.

(* a maximum loop over a family s_0 .. s_{n-1} *)
Lemma for_max n (g : nat -> res T) (s : nat -> T) :
  (forall j, j < n -> g j = Ok (s j)) ->
  exists R, for_ 0 n (fun j R => let* x := g j in Ok (fmax R x)) zero = Ok R /\
            maxof (fun x => exists j, j < n /\ x = s j) R.
Proof.
  intros Hg.
  apply (for_inv (fun k R => maxof (fun x => exists j, j < k /\ x = s j) R)); [lia| |].
  - eapply maxof_iff; [apply maxof_empty|]. intros x; split; [tauto|intros (j & Hj & _); lia].
  - intros k R Hk HR. rewrite Hg by lia. cbn [bind]. eexists; split; [reflexivity|].
    eapply maxof_iff; [apply maxof_step; exact HR|]. intros x; split.
    + intros [(j & Hj & ->)| ->]; [exists j; split; auto|exists k; split; auto].
    + intros (j & Hj & ->). destruct (Nat.eq_dec j k) as [->|]; [now right|left; exists j; split; auto; lia].
Qed.

Definition colsum (m : matrix A) (j : nat) : T := sum_n (rows m) (fun i => abs (entry m i j)).
Definition rowsum (m : matrix A) (i : nat) : T := sum_n (cols m) (fun j => abs (entry m i j)).

Lemma mnorm_1_lemma (m : matrix A) : wf m ->
  exists R, mnorm_1 m = Ok R /\ maxof (fun x => exists j, j < cols m /\ x = colsum m j) R.
Proof.
  intros Hw. unfold mnorm_1. apply for_max. intros j Hj.
  rewrite (for_sum (rows m) (fun i => mget m i j) (fun i => entry m i j) abs zero).
  - cbn [bind]. unfold colsum. now rewrite sum_acc_zero.
  - intros i Hi. apply (mget_msp _ _ _ m i j (msp_self m Hw) Hi Hj).
Qed.

Lemma mnorm_inf_lemma (m : matrix A) : wf m ->
  exists R, mnorm_inf m = Ok R /\ maxof (fun x => exists i, i < rows m /\ x = rowsum m i) R.
Proof.
  intros Hw. unfold mnorm_inf. apply for_max. intros i Hi.
  rewrite (for_sum (cols m) (fun j => mget m i j) (fun j => entry m i j) abs zero).
  - cbn [bind]. unfold rowsum. now rewrite sum_acc_zero.
  - intros j Hj. apply (mget_msp _ _ _ m i j (msp_self m Hw) Hi Hj).
Qed.

Lemma mnorm_max_lemma (m : matrix A) : wf m ->
  exists R, mnorm_max m = Ok R /\
    maxof (fun x => exists i j, i < rows m /\ j < cols m /\ x = abs (entry m i j)) R.
Proof.
  intros Hw. unfold mnorm_max.
  destruct (for_inv (fun k R => maxof (fun x => exists i j, i < k /\ j < cols m /\ x = abs (entry m i j)) R)
              0 (rows m)
              (fun i result => for_ 0 (cols m) (fun j result => let* x := mget m i j in Ok (fmax result (abs x))) result)
              zero) as (R & E & HR); [lia| | |].
  - eapply maxof_iff; [apply maxof_empty|]. intros x; split; [tauto|intros (i & j & Hi & _); lia].
  - intros k R Hk HR.
    destruct (for_inv (fun q R => maxof (fun x => exists i j, (i < k \/ (i = k /\ j < q)) /\ j < cols m /\ x = abs (entry m i j)) R)
                0 (cols m) (fun j result => let* x := mget m k j in Ok (fmax result (abs x))) R)
      as (R' & E' & HR'); [lia| | |].
    + eapply maxof_iff; [exact HR|]. intros x; split.
      * intros (i & j & Hi & Hj & ->). exists i, j. auto.
      * intros (i & j & [Hi|[_ Hx]] & Hj & ->); [|lia]. exists i, j. auto.
    + intros q R' Hq HR'.
      rewrite (mget_msp _ _ _ m k q (msp_self m Hw) (proj2 Hk) (proj2 Hq)). cbn [bind].
      eexists; split; [reflexivity|].
      eapply maxof_iff; [apply maxof_step; exact HR'|]. intros x; split.
      * intros [(i & j & Hc & Hj & ->)| ->].
        -- exists i, j. repeat split; auto. destruct Hc as [Hi|[-> Hj']]; [now left|right; split; auto; lia].
        -- exists k, q. repeat split; auto; lia.
      * intros (i & j & Hc & Hj & ->).
        destruct Hc as [Hi|[-> Hj']]; [left; exists i, j; auto|].
        destruct (Nat.eq_dec j q) as [->|]; [now right|left; exists k, j; repeat split; auto; right; split; auto; lia].
    + exists R'; split; [exact E'|]. eapply maxof_iff; [exact HR'|]. intros x; split.
      * intros (i & j & Hc & Hj & ->). exists i, j. repeat split; auto. destruct Hc as [Hi|[-> _]]; lia.
      * intros (i & j & Hi & Hj & ->). exists i, j. repeat split; auto.
        destruct (Nat.eq_dec i k) as [->|]; [right; auto|left; lia].
  - exists R; split; auto.
Qed.

(* the entrywise sum of norm_p: one running sum over the buffer in row-major order *)
Lemma mnorm_p_sum_lemma (pw : T -> T) (m : matrix A) : wf m ->
  mnorm_p_sum pw m = Ok (sum_n (length (buf m)) (fun k => pw (abs (nth k (buf m) zero)))).
Proof.
  intros Hw. unfold mnorm_p_sum.
  set (G := fun k => pw (abs (nth k (buf m) zero))).
  destruct (for_inv (fun i acc => acc = sum_n (i * cols m) G) 0 (rows m)
              (fun i sum => for_ 0 (cols m) (fun j sum => let* x := mget m i j in Ok (add sum (pw (abs x)))) sum)
              zero) as (r & E & Hr); [lia|reflexivity| |].
  - intros i acc Hi ->.
    destruct (for_inv (fun j acc => acc = sum_n (i * cols m + j) G) 0 (cols m)
                (fun j sum => let* x := mget m i j in Ok (add sum (pw (abs x)))) (sum_n (i * cols m) G))
      as (r' & E' & Hr'); [lia|now rewrite Nat.add_0_r| |].
    + intros j acc Hj ->.
      rewrite (mget_msp _ _ _ m i j (msp_self m Hw) (proj2 Hi) (proj2 Hj)). cbn [bind].
      eexists; split; [reflexivity|].
      replace (i * cols m + S j) with (S (i * cols m + j)) by lia. reflexivity.
    + exists r'; split; [exact E'|]. rewrite Hr'. f_equal. lia.
  - rewrite E, Hr. f_equal. f_equal. symmetry. exact Hw.
Qed.

Lemma mnorm_p_lemma (pw root : T -> T) (m : matrix A) : wf m ->
  mnorm_p pw root m = Ok (root (sum_n (length (buf m)) (fun k => pw (abs (nth k (buf m) zero))))).
Proof. intros Hw. unfold mnorm_p. now rewrite mnorm_p_sum_lemma. Qed.

Lemma mnorm_frob_lemma (m : matrix A) : wf m ->
  mnorm_frob m = Ok (sqrt (sum_n (length (buf m)) (fun k => mul (abs (nth k (buf m) zero)) (abs (nth k (buf m) zero))))).
Proof. intros Hw. unfold mnorm_frob. now rewrite mnorm_p_sum_lemma. Qed.


Theorem norms_spec_lemma (m : matrix A) : wf m ->
  (exists R, mnorm_1 m = Ok R /\ (forall j, j < cols m -> ltb R (colsum m j) = false) /\
             (R = zero \/ exists j, j < cols m /\ R = colsum m j)) /\
  (exists R, mnorm_inf m = Ok R /\ (forall i, i < rows m -> ltb R (rowsum m i) = false) /\
             (R = zero \/ exists i, i < rows m /\ R = rowsum m i)) /\
  (exists R, mnorm_max m = Ok R /\
             (forall i j, i < rows m -> j < cols m -> ltb R (abs (entry m i j)) = false) /\
             (R = zero \/ exists i j, i < rows m /\ j < cols m /\ R = abs (entry m i j))) /\
  (forall pw root : T -> T,
     mnorm_p pw root m = Ok (root (sum_n (length (buf m)) (fun k => pw (abs (nth k (buf m) zero)))))) /\
  mnorm_frob m =
    Ok (sqrt (sum_n (length (buf m)) (fun k => mul (abs (nth k (buf m) zero)) (abs (nth k (buf m) zero))))).
Proof.
  intros Hw. repeat split.
  - destruct (mnorm_1_lemma m Hw) as (R & E & Hub & Hmem). exists R; repeat split; auto.
    intros j Hj. apply Hub. exists j; auto.
  - destruct (mnorm_inf_lemma m Hw) as (R & E & Hub & Hmem). exists R; repeat split; auto.
    intros i Hi. apply Hub. exists i; auto.
  - destruct (mnorm_max_lemma m Hw) as (R & E & Hub & Hmem). exists R; repeat split; auto.
    intros i j Hi Hj. apply Hub. exists i, j; auto.
  - intros pw root. now apply mnorm_p_lemma.
  - now apply mnorm_frob_lemma.
Qed.

End NormProofs.
