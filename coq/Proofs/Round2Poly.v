(* Proofs/Round2Poly.v -- package round2, C12 "to rounding accuracy over floats":
   the polynomial division of Model/Poly.v ([polydiv], the loop after the repair e504d5d) in the STANDARD MODEL of
   floating-point arithmetic (Base/RoundModel.v), the same Gallina [polydiv] at the arithmetic [ARm].

   One pass of the loop with r of length n, v of length m, s = n - m, c = fl(r_{n-1} / v_{m-1}):
        q_s      := c                        (q + t: the other coefficients of t are exact zeros, q_s was zero)
        r_k      := fl(r_k - fl(c v_{k-s}))  for s <= k < n-1   (t*v: one rounded product per coefficient; the
                                             additions onto the exact zeros of the accumulation are exact)
        r_{n-1}  := 0                        (SET to zero by the repaired loop: the residual r_{n-1} - c v_{m-1},
                                             about u |c| |v_{m-1}|, is discarded and goes into the error)
        r_k unchanged for k < s.
   Invariant, for every coefficient index k (E = accumulated error, c_k = number of passes that touched index k so far):
        a_k = (q*v)_k + r_k + E_k ,   |E_k| <= G_{c_k} (|a_k| + Sum_i |q_i| |v_{k-i}|),   G_c = (1-u)^(-2c) - 1 <= gam(2c)
   (per touching pass |E'_k| <= (1+u)|E_k| + u(|a_k| + Sum|q_i||v_{k-i}|) + (2u+u^2)|c||v_{k-s}|, the intermediate remainder
   being bounded through the invariant itself: |r_k| <= |a_k| + Sum|q_i||v_{k-i}| + |E_k|).  There are at most
   N = len a + 1 - len v passes, their shifts s are distinct, and index k is touched only when k - len v < s <= k:
   c_k <= M = min(N, len v).

     polydiv_rounded_identity_lemma :   polydiv a v = Ok (q, r)  ->  for every k
        | a_k - Sum_{i<=k} q_i v_{k-i} - r_k |  <=  gam (2 M) ( |a_k| + Sum_{i<=k} |q_i| |v_{k-i}| )
     polydiv_rounded_residual_lemma :   the same error  <=  gam (4 M) ( Sum_{i<=k} |q_i| |v_{k-i}| + |r_k| )

   where Sum q_i v_{k-i} is the EXACT real convolution.  Hypotheses beside the four operations' (1+d) laws: the leading
   coefficient of v is not zero (the model's division by an exact zero is unconstrained), the coefficients of the
   dividend are floating-point numbers, and the facts about the set F of floating-point numbers true of every
   correctly rounded arithmetic: results of -,*,/ are in F; 0 + x = x, x + 0 = x, x - 0 = x for x in F.  (F and its
   laws are Section hypotheses; Proofs/Round2PolyB.v discharges them for round-to-nearest-even in precision 53.)
   Nothing is asked of the coefficients of v. *)
From Coq Require Import List Arith Lia Bool Reals Lra Psatz.
From OV Require Import Base.Panic Base.Arith Base.RoundModel gen.Params Model.Poly Proofs.Poly Proofs.PolyDiv.
Import ListNotations.
Local Open Scope R_scope.

(* exact real convolution and its absolute counterpart *)
Definition rconv (p q : list R) (k : nat) : R := Rsum (S k) (fun i => nth i p 0 * nth (k - i) q 0).
Definition aconv (p q : list R) (k : nat) : R := Rsum (S k) (fun i => Rabs (nth i p 0) * Rabs (nth (k - i) q 0)).

Lemma Rsum_zero n f : (forall k, (k < n)%nat -> f k = 0) -> Rsum n f = 0.
Proof.
  induction n as [|n IH]; intros H; [reflexivity|]. cbn [Rsum].
  rewrite IH by (intros; apply H; lia). rewrite H by lia. ring.
Qed.

Lemma Rsum_delta n s (g : nat -> R) :
  Rsum n (fun i => if (i =? s)%nat then g i else 0) = if (s <? n)%nat then g s else 0.
Proof.
  induction n as [|n IH]; [reflexivity|]. cbn [Rsum]. rewrite IH.
  destruct (Nat.eqb_spec n s) as [->|Ne].
  - destruct (Nat.ltb_spec s s); [lia|]. destruct (Nat.ltb_spec s (S s)); [ring|lia].
  - destruct (Nat.ltb_spec s n), (Nat.ltb_spec s (S n)); try lia; ring.
Qed.

Lemma rconv_nil_l v k : rconv [] v k = 0.
Proof. unfold rconv. apply Rsum_zero. intros i _. destruct i; cbn; ring. Qed.

Lemma aconv_nonneg q v k : 0 <= aconv q v k.
Proof.
  unfold aconv. apply Rsum_nonneg. intros i _.
  apply Rmult_le_pos; apply Rabs_pos.
Qed.

Lemma rconv_le_aconv q v k : Rabs (rconv q v k) <= aconv q v k.
Proof.
  unfold rconv, aconv. eapply Rle_trans; [apply Rsum_abs|]. apply Req_le, Rsum_ext.
  intros i _. apply Rabs_mult.
Qed.

(* adding the monomial c x^s to q *)
Lemma rconv_add_monomial (q q1 v : list R) s c k :
  (forall i, nth i q1 0 = nth i q 0 + (if (i =? s)%nat then c else 0)) ->
  rconv q1 v k = rconv q v k + (if (s <=? k)%nat then c * nth (k - s) v 0 else 0).
Proof.
  intros H. unfold rconv.
  rewrite (Rsum_ext _ _ (fun i => nth i q 0 * nth (k - i) v 0 +
                                  (if (i =? s)%nat then c * nth (k - i) v 0 else 0))).
  2:{ intros i _. rewrite H. destruct (i =? s)%nat; ring. }
  rewrite Rsum_plus, (Rsum_delta (S k) s (fun i => c * nth (k - i) v 0)).
  destruct (Nat.ltb_spec s (S k)), (Nat.leb_spec s k); try lia; reflexivity.
Qed.

Lemma aconv_add_monomial (q q1 v : list R) s c k : nth s q 0 = 0 ->
  (forall i, nth i q1 0 = nth i q 0 + (if (i =? s)%nat then c else 0)) ->
  aconv q1 v k = aconv q v k + (if (s <=? k)%nat then Rabs c * Rabs (nth (k - s) v 0) else 0).
Proof.
  intros Z H. unfold aconv.
  rewrite (Rsum_ext _ _ (fun i => Rabs (nth i q 0) * Rabs (nth (k - i) v 0) +
                                  (if (i =? s)%nat then Rabs c * Rabs (nth (k - i) v 0) else 0))).
  2:{ intros i _. rewrite H. destruct (Nat.eqb_spec i s) as [->|_].
      - rewrite Z, Rplus_0_l, Rabs_R0. ring.
      - rewrite Rplus_0_r. ring. }
  rewrite Rsum_plus, (Rsum_delta (S k) s (fun i => Rabs c * Rabs (nth (k - i) v 0))).
  destruct (Nat.ltb_spec s (S k)), (Nat.leb_spec s k); try lia; reflexivity.
Qed.

Lemma aconv_mono_monomial (q q1 v : list R) s c k : nth s q 0 = 0 ->
  (forall i, nth i q1 0 = nth i q 0 + (if (i =? s)%nat then c else 0)) ->
  aconv q v k <= aconv q1 v k.
Proof.
  intros Z H. rewrite (aconv_add_monomial q q1 v s c k Z H).
  destruct (s <=? k)%nat; [|lra]. pose proof (Rabs_pos c). pose proof (Rabs_pos (nth (k - s) v 0)). nra.
Qed.

Section RoundPolyDiv.
Variable u : R.
Hypothesis u_range : 0 <= u < 1.
Variables fadd fsub fmul fdiv : R -> R -> R.
Hypothesis fadd_ok : forall x y, exists d, Rabs d <= u /\ fadd x y = (x + y) * (1 + d).
Hypothesis fsub_ok : forall x y, exists d, Rabs d <= u /\ fsub x y = (x - y) * (1 + d).
Hypothesis fmul_ok : forall x y, exists d, Rabs d <= u /\ fmul x y = x * y * (1 + d).
Hypothesis fdiv_ok : forall x y, y <> 0 -> exists d, Rabs d <= u /\ fdiv x y = x / y * (1 + d).
(* the set of floating-point numbers: results of operations belong to it, and adding or subtracting an exact zero
   does not change a member (true of every correctly rounded arithmetic) *)
Variable F : R -> Prop.
Hypothesis F_sub : forall x y, F (fsub x y).
Hypothesis F_mul : forall x y, F (fmul x y).
Hypothesis F_div : forall x y, F (fdiv x y).
Hypothesis fadd_0_l : forall x, F x -> fadd 0 x = x.
Hypothesis fadd_0_r : forall x, F x -> fadd x 0 = x.
Hypothesis fsub_0_r : forall x, F x -> fsub x 0 = x.

Notation AR := (ARm fadd fsub fmul fdiv).
Notation gam := (gam u).

Lemma fmul_0_l x : fmul 0 x = 0.
Proof using fmul_ok. destruct (fmul_ok 0 x) as (d & _ & ->). ring. Qed.
Lemma fsub_00 : fsub 0 0 = 0.
Proof using fsub_ok. destruct (fsub_ok 0 0) as (d & _ & ->). ring. Qed.
Lemma F_0 : F 0.
Proof using fsub_ok F_sub. rewrite <- fsub_00. apply F_sub. Qed.

Definition Fall (p : list R) : Prop := forall i, F (nth i p 0).

Lemma Fall_of_Forall p : Forall F p -> Fall p.
Proof using fsub_ok F_sub.
  intros H i. destruct (Nat.lt_ge_cases i (length p)) as [L|L].
  - rewrite Forall_forall in H. apply H. now apply nth_In.
  - rewrite nth_overflow by exact L. exact F_0.
Qed.

Lemma eqbR_true (x y : R) : eqb (a := AR) x y = true -> x = y.
Proof. cbn. destruct (Req_EM_T x y); [auto|discriminate]. Qed.
Lemma eqbR_refl (x : R) : eqb (a := AR) x x = true.
Proof. cbn. destruct (Req_EM_T x x); [auto|congruence]. Qed.

(* ---- trim only removes zeros *)
Lemma trim_rev_spec_R (l : list R) : exists n, l = repeat 0 n ++ trim_rev (A := AR) l.
Proof.
  induction l as [|c t IH]; [exists 0%nat; reflexivity|]. destruct t as [|b t']; [exists 0%nat; reflexivity|].
  rewrite (@trim_rev_cons2 AR). destruct (eqb (a := AR) c zero) eqn:E; [|exists 0%nat; reflexivity].
  apply eqbR_true in E. subst c. destruct IH as (n & IH). exists (S n). cbn [repeat app]. change (@zero AR) with 0. f_equal. exact IH.
Qed.

Lemma ptrim_coef_R (p p' : list R) : ptrim (A := AR) p = Ok p' -> forall k, nth k p' 0 = nth k p 0.
Proof.
  destruct p as [|a t]; [discriminate|]. intros E; injection E as <-. intros k.
  change (rev t ++ [a]) with (rev (a :: t)).
  destruct (trim_rev_spec_R (rev (a :: t))) as (n & H).
  apply (f_equal (@rev _)) in H. rewrite rev_involutive, rev_app_distr, rev_repeat in H.
  symmetry. rewrite H at 1. exact (@coef_app_zeros AR _ n k).
Qed.

(* ---- the product of the monomial t = c x^s with v: one rounded product per coefficient *)
Lemma fold_zero_stay (g : R -> nat -> R) l : (forall i, In i l -> g 0 i = 0) -> fold_left g l 0 = 0.
Proof.
  induction l as [|a l IH]; cbn [fold_left]; intros H; [reflexivity|].
  rewrite H by (left; reflexivity). apply IH. intros i Hi. apply H. now right.
Qed.

Lemma pmul_coeff_monomial s c (v : list R) k : (k < s + length v)%nat ->
  pmul_coeff (A := AR) (repeat 0 s ++ [c]) v k = if (s <=? k)%nat then fmul c (nth (k - s) v 0) else 0.
Proof using fadd_ok fmul_ok fadd_0_l F_mul fsub_ok F_sub.
  intros Hk. unfold pmul_coeff. rewrite app_length, repeat_length. cbn [length].
  replace (s + 1)%nat with (S s) by lia. rewrite seq_S, fold_left_app. cbn [seq fold_left plus].
  change (@zero AR) with 0. rewrite fold_zero_stay.
  - rewrite nth_error_app2 by (rewrite repeat_length; lia). rewrite repeat_length, Nat.sub_diag. cbn [nth_error].
    destruct (Nat.leb_spec s k) as [L|L]; [|reflexivity]. change (T AR) with R.
    destruct (nth_error_nth_or v (k - s)%nat 0) as [(_ & E)|(H' & _)]; [rewrite E|lia].
    change (fadd 0 (fmul c (nth (k - s) v 0)) = fmul c (nth (k - s) v 0)). apply fadd_0_l, F_mul.
  - intros i Hi. apply in_seq in Hi.
    rewrite nth_error_app1 by (rewrite repeat_length; lia). rewrite nth_error_repeat by lia.
    change (T AR) with R. destruct (if (i <=? k)%nat then nth_error v (k - i) else None) as [b|]; [|reflexivity].
    change (fadd 0 (fmul 0 b) = 0). rewrite fmul_0_l. apply fadd_0_l, F_0.
Qed.

Lemma padd_ne (p q : list R) : p <> [] -> q <> [] ->
  padd (A := AR) p q = map (fun i => opt_acc (A := AR) add (opt_acc (A := AR) add zero (nth_error p i)) (nth_error q i))
                           (seq 0 (Nat.max (length p) (length q))).
Proof. destruct p; [congruence|]. destruct q; [congruence|]. reflexivity. Qed.
Lemma psub_ne (p q : list R) : p <> [] -> q <> [] ->
  psub (A := AR) p q = map (fun i => opt_acc (A := AR) sub (opt_acc (A := AR) add zero (nth_error p i)) (nth_error q i))
                           (seq 0 (Nat.max (length p) (length q))).
Proof. destruct p; [congruence|]. destruct q; [congruence|]. reflexivity. Qed.

Lemma coef_psub_full (r pm : list R) j : r <> [] -> length pm = length r -> (j < length r)%nat ->
  nth j (psub (A := AR) r pm) 0 = fsub (fadd 0 (nth j r 0)) (nth j pm 0).
Proof.
  intros Nr L Hj. assert (Np : pm <> []) by (intros ->; destruct r; [congruence|discriminate]).
  rewrite psub_ne by assumption. rewrite nth_map_seq by lia.
  rewrite !(@opt_acc_nth AR). change (T AR) with R.
  destruct (Nat.ltb_spec j (length r)); [|lia]. destruct (Nat.ltb_spec j (length pm)); [|lia]. reflexivity.
Qed.

Lemma coef_padd_monomial (q : list R) s c : Fall q -> F c -> nth s q 0 = 0 -> forall i,
  nth i (padd (A := AR) q (repeat 0 s ++ [c])) 0 = nth i q 0 + (if (i =? s)%nat then c else 0).
Proof using fadd_0_l fadd_0_r fsub_ok F_sub.
  intros Fq Fc Zs i. set (t := repeat 0 s ++ [c]).
  assert (Ct : forall j, nth j t 0 = if (j =? s)%nat then c else 0) by (intros j; exact (@coef_monomial AR s c j)).
  assert (Lt : length t = S s) by (unfold t; rewrite app_length, repeat_length; cbn; lia).
  destruct q as [|x q'] eqn:Eq.
  { cbn [padd]. rewrite Ct. change (T AR) with R. destruct i; cbn [nth]; ring. }
  rewrite <- Eq in *. assert (Nq : q <> []) by (rewrite Eq; discriminate).
  assert (Nt : t <> []) by (intros Z; rewrite Z in Lt; discriminate).
  rewrite padd_ne by assumption.
  destruct (Nat.lt_ge_cases i (Nat.max (length q) (length t))) as [H|H].
  - rewrite nth_map_seq by exact H. rewrite !(@opt_acc_nth AR). change (@zero AR) with 0. change (T AR) with R.
    assert (Xq : (length q <= i)%nat -> nth i q 0 = 0) by (intros; now apply nth_overflow).
    rewrite Ct.
    destruct (Nat.ltb_spec i (length q)) as [Hq|Hq], (Nat.ltb_spec i (length t)) as [Hl|Hl];
      change (add (a := AR)) with fadd; rewrite ?(fadd_0_l (nth i q 0)) by apply Fq.
    + destruct (Nat.eqb_spec i s) as [->|Ne].
      * rewrite Zs, fadd_0_l by exact Fc. ring.
      * rewrite fadd_0_r by apply Fq. ring.
    + destruct (Nat.eqb_spec i s); [lia|ring].
    + rewrite Xq by exact Hq. destruct (Nat.eqb_spec i s).
      * rewrite fadd_0_l by exact Fc. ring.
      * rewrite fadd_0_l by exact F_0. ring.
    + rewrite Xq by exact Hq. destruct (Nat.eqb_spec i s); [lia|ring].
  - rewrite nth_overflow by (rewrite map_length, seq_length; exact H).
    rewrite nth_overflow by lia. change (T AR) with R. destruct (Nat.eqb_spec i s); [lia|ring].
Qed.


Lemma pmul_ne (p q : list R) : p <> [] -> q <> [] ->
  pmul (A := AR) p q = map (pmul_coeff (A := AR) p q) (seq 0 (length p + length q - 1)).
Proof. destruct p; [congruence|]. destruct q; [congruence|]. reflexivity. Qed.

Variable v : list R.
Hypothesis v_lead : last v 0 <> 0.

Lemma v_nonempty : v <> [].
Proof using v_lead. intros Z. apply v_lead. now rewrite Z. Qed.

Lemma body_round (q r q1 r1 : list R) :
  r <> [] -> (length v <= length r)%nat -> Fall q -> Fall r ->
  nth (length r - length v) q 0 = 0 ->
  polydiv_body (A := AR) q r v = Ok (q1, r1) ->
  exists c,
    F c /\
    (exists d0, Rabs d0 <= u /\ c * nth (length v - 1) v 0 = nth (length r - 1) r 0 * (1 + d0)) /\
    (forall i, nth i q1 0 = nth i q 0 + (if (i =? length r - length v)%nat then c else 0)) /\
    Fall q1 /\ Fall r1 /\
    (forall k, (k < length r - length v)%nat -> nth k r1 0 = nth k r 0) /\
    (forall k, (length r - length v <= k < length r - 1)%nat -> exists d1 d2, Rabs d1 <= u /\ Rabs d2 <= u /\
         nth k r1 0 = (nth k r 0 - c * nth (k - (length r - length v)) v 0 * (1 + d1)) * (1 + d2)) /\
    (forall k, (length r - 1 <= k)%nat -> nth k r1 0 = 0) /\
    (length r1 <= length r)%nat.
Proof using u_range fadd_ok fsub_ok fmul_ok fdiv_ok F_sub F_mul F_div fadd_0_l fadd_0_r fsub_0_r v_lead.
  intros Nr Hlen Fq Fr Zs E. pose proof v_nonempty as Nv.
  unfold polydiv_body in E. cbv zeta in E. change (T AR) with R in *. change (@zero AR) with 0 in E.
  assert (Lr : (0 < length r)%nat) by (destruct r; [congruence|cbn; lia]).
  assert (Lv : (0 < length v)%nat) by (destruct v; [congruence|cbn; lia]).
  apply bind_ok in E as (rl & E1 & E). apply (rd_Ok_inv _ _ _ 0) in E1 as (_ & ->).
  apply bind_ok in E as (vl & E2 & E). apply (rd_Ok_inv _ _ _ 0) in E2 as (_ & ->).
  apply bind_ok in E as (c & Ec & E).
  change (Ok (fdiv (nth (length r - 1) r 0) (nth (length v - 1) v 0)) = Ok c) in Ec. injection Ec as Ec.
  set (rl := nth (length r - 1) r 0) in *. set (vl := nth (length v - 1) v 0) in *.
  assert (Hvl : vl <> 0) by (unfold vl; rewrite nth_last_idx; exact v_lead).
  replace (length r - 1 - (length v - 1))%nat with (length r - length v)%nat in E by lia.
  set (s := (length r - length v)%nat) in *.
  change (@zero AR) with 0 in E.
  set (t := repeat 0 s ++ [c]) in *.
  assert (Lt : length t = S s) by (unfold t; rewrite app_length, repeat_length; cbn [length]; lia).
  assert (Nt : t <> []) by (intros Z; rewrite Z in Lt; discriminate).
  assert (Lm : length (pmul (A := AR) t v) = length r) by (rewrite length_pmul by auto; change (T AR) with R; unfold s in *; lia).
  set (r0 := psub (A := AR) r (pmul (A := AR) t v)) in *.
  assert (L0 : length r0 = length r) by (unfold r0; rewrite length_psub; change (T AR) with R in *; lia).
  apply bind_ok in E as (l & El & E). unfold usub in El.
  destruct (1 <=? _)%nat in El; [|discriminate]. injection El as <-.
  apply bind_ok in E as (r2 & E2 & E). apply upd_Ok_inv in E2 as (Hl & ->).
  apply bind_ok in E as (r3 & E3 & E).
  apply bind_ok in E as (q3 & E4 & E). injection E as <- <-.
  unfold poly in *. change (T AR) with R in *.
  assert (Fc : F c) by (rewrite <- Ec; apply F_div).
  (* coefficients of r - t*v *)
  assert (R0 : forall k, (k < length r)%nat ->
             nth k r0 0 = if (s <=? k)%nat then fsub (nth k r 0) (fmul c (nth (k - s) v 0)) else nth k r 0).
  { intros k Hk. unfold r0. rewrite coef_psub_full by auto.
    rewrite pmul_ne by auto. rewrite nth_map_seq by (rewrite Lt; unfold s; lia).
    unfold t. rewrite pmul_coeff_monomial by (unfold s; lia).
    rewrite fadd_0_l by apply Fr. destruct (s <=? k)%nat; [reflexivity|]. apply fsub_0_r, Fr. }
  assert (R1 : forall k, nth k q3 0 = nth k r3 0 -> True) by auto. clear R1.
  assert (R3 : forall k, nth k r3 0 = if (k =? length r - 1)%nat then 0 else nth k r0 0).
  { intros k. rewrite (ptrim_coef_R _ _ E3 k), nth_upd_list by exact Hl. now rewrite L0. }
  exists c. split; [exact Fc|]. split.
  { destruct (fdiv_ok rl vl Hvl) as (d0 & Hd0 & Ed0). exists d0. split; [exact Hd0|].
    rewrite <- Ec, Ed0. field. exact Hvl. }
  assert (Q3 : forall i, nth i q3 0 = nth i q 0 + (if (i =? s)%nat then c else 0)).
  { intros i. rewrite (ptrim_coef_R _ _ E4 i). now apply coef_padd_monomial. }
  split; [exact Q3|]. split.
  { intros i. rewrite Q3. destruct (Nat.eqb_spec i s) as [->|_].
    - rewrite Zs, Rplus_0_l. exact Fc.
    - rewrite Rplus_0_r. apply Fq. }
  split.
  { intros k. rewrite R3. destruct (Nat.eqb_spec k (length r - 1)); [exact F_0|].
    destruct (Nat.lt_ge_cases k (length r)) as [Hk|Hk].
    - rewrite R0 by exact Hk. destruct (s <=? k)%nat; [apply F_sub|apply Fr].
    - rewrite nth_overflow by lia. exact F_0. }
  split.
  { intros k Hk. rewrite R3. destruct (Nat.eqb_spec k (length r - 1)); [unfold s in Hk; lia|].
    rewrite R0 by (unfold s in Hk; lia). destruct (Nat.leb_spec s k); [lia|reflexivity]. }
  split.
  { intros k Hk. rewrite R3. destruct (Nat.eqb_spec k (length r - 1)); [lia|].
    rewrite R0 by lia. destruct (Nat.leb_spec s k); [|lia].
    destruct (fmul_ok c (nth (k - s) v 0)) as (d1 & Hd1 & Ed1).
    destruct (fsub_ok (nth k r 0) (fmul c (nth (k - s) v 0))) as (d2 & Hd2 & Ed2).
    exists d1, d2. split; [exact Hd1|]. split; [exact Hd2|]. rewrite Ed2, Ed1. reflexivity. }
  split.
  { intros k Hk. rewrite R3. destruct (Nat.eqb_spec k (length r - 1)); [reflexivity|].
    apply nth_overflow. lia. }
  destruct (@ptrim_ok AR (upd_list r0 (length r0 - 1) 0)) as (p' & Ep & _ & Lp).
  { intros Z. apply (f_equal (@length _)) in Z. rewrite upd_list_length in Z. cbn [length] in Z.
    change (T AR) with R in *. lia. }
  rewrite E3 in Ep. injection Ep as <-. rewrite upd_list_length in Lp. change (T AR) with R in *. lia.
Qed.


(* ---- the error counter of the loop: G p = (1-u)^(-2p) - 1 <= gam (2p) *)
Definition G (p : nat) : R := / (1 - u) ^ (2 * p) - 1.

Lemma G_0 : G 0 = 0.
Proof. unfold G. cbn. field. Qed.

Lemma G_nonneg p : 0 <= G p.
Proof using u_range.
  unfold G. pose proof (pow1u_pos u u_range (2 * p)) as P. pose proof (pow1u_le1 u u_range (2 * p)) as L.
  assert (1 <= / (1 - u) ^ (2 * p)); [|lra].
  rewrite <- Rinv_1 at 1. apply Rinv_le_contravar; lra.
Qed.

Lemma G_step p : (1 + u) * G p + u <= G (S p) /\ 2 * u + u * u <= G (S p) /\ G p <= G (S p).
Proof using u_range.
  pose proof (G_nonneg p) as Gp. unfold G in *.
  replace (2 * S p)%nat with (S (S (2 * p))) by lia. cbn [pow].
  pose proof (pow1u_pos u u_range (2 * p)) as P.
  rewrite !Rinv_mult. set (X := / (1 - u) ^ (2 * p)) in *. set (w := / (1 - u)).
  assert (Hw : w * (1 - u) = 1) by (unfold w; apply Rinv_l; lra).
  assert (W1 : 1 + u <= w) by nra.
  assert (X1 : 1 <= X) by lra.
  assert (WW : (1 + u) * (1 + u) <= w * w) by nra.
  assert (WX : w * w <= w * w * X) by nra.
  assert (W2 : 1 + u <= w * w) by nra.
  repeat split; nra.
Qed.

Lemma G_mono p p' : (p <= p')%nat -> G p <= G p'.
Proof using u_range.
  induction 1 as [|p' _ IH]; [lra|]. pose proof (G_step p'). lra.
Qed.

Lemma G_gam p : INR (2 * p) * u < 1 -> G p <= gam (2 * p).
Proof using u_range.
  intros Hn. assert (B : bnd u (2 * p) (/ (1 - u) ^ (2 * p))).
  { unfold bnd. pose proof (pow1u_pos u u_range (2 * p)) as P. pose proof (pow1u_le1 u u_range (2 * p)) as L.
    split; [|lra]. apply Rle_trans with 1; [exact L|]. rewrite <- Rinv_1 at 1. apply Rinv_le_contravar; lra. }
  pose proof (bnd_gam u u_range _ _ B Hn) as H. unfold G.
  pose proof (Rle_abs (/ (1 - u) ^ (2 * p) - 1)). lra.
Qed.

Lemma step_ineq g g' B e rk x d1 d2 :
  0 <= g -> (1 + u) * g + u <= g' -> 2 * u + u * u <= g' -> 0 <= B ->
  Rabs e <= g * B -> Rabs rk <= B + Rabs e -> Rabs d1 <= u -> Rabs d2 <= u ->
  Rabs (e - rk * d2 + x * (d1 + d2 + d1 * d2)) <= g' * (B + Rabs x).
Proof using u_range.
  intros Hg H1 H2 HB He Hr Hd1 Hd2.
  pose proof (Rabs_pos e) as Pe. pose proof (Rabs_pos rk) as Pr. pose proof (Rabs_pos x) as Px.
  pose proof (Rabs_pos d1) as Pd1. pose proof (Rabs_pos d2) as Pd2.
  assert (T1 : Rabs (rk * d2) <= Rabs rk * u) by (rewrite Rabs_mult; nra).
  assert (T2 : Rabs (d1 + d2 + d1 * d2) <= 2 * u + u * u).
  { eapply Rle_trans; [apply Rabs_triang|]. eapply Rle_trans; [apply Rplus_le_compat_r, Rabs_triang|].
    rewrite Rabs_mult. nra. }
  assert (T3 : Rabs (x * (d1 + d2 + d1 * d2)) <= Rabs x * (2 * u + u * u)).
  { rewrite Rabs_mult. pose proof (Rabs_pos (d1 + d2 + d1 * d2)). nra. }
  assert (T4 : Rabs (e - rk * d2 + x * (d1 + d2 + d1 * d2)) <= Rabs e + Rabs (rk * d2) + Rabs (x * (d1 + d2 + d1 * d2))).
  { eapply Rle_trans; [apply Rabs_triang|]. apply Rplus_le_compat_r.
    unfold Rminus. eapply Rle_trans; [apply Rabs_triang|]. rewrite Rabs_Ropp. lra. }
  assert (T5 : (1 + u) * Rabs e <= (1 + u) * (g * B)) by (apply Rmult_le_compat_l; lra).
  assert (T6 : Rabs rk * u <= (B + Rabs e) * u) by (apply Rmult_le_compat_r; lra).
  assert (T7 : Rabs x * (2 * u + u * u) <= Rabs x * g') by (apply Rmult_le_compat_l; lra).
  assert (T8 : ((1 + u) * g + u) * B <= g' * B) by (apply Rmult_le_compat_r; lra).
  nra.
Qed.

Variable a : list R.
Definition err (q r : list R) (k : nat) : R := nth k a 0 - rconv q v k - nth k r 0.
Definition bd (q : list R) (k : nat) : R := Rabs (nth k a 0) + aconv q v k.

Lemma bd_nonneg q k : 0 <= bd q k.
Proof. unfold bd. pose proof (Rabs_pos (nth k a 0)). pose proof (aconv_nonneg q v k). lra. Qed.

(* one pass, one coefficient: an index inside the window [s, n-1] of the pass collects one more unit of the counter,
   the others keep their error *)
Lemma body_err (c : nat) (q r q1 r1 : list R) k :
  r <> [] -> (length v <= length r)%nat -> Fall q -> Fall r ->
  nth (length r - length v) q 0 = 0 ->
  polydiv_body (A := AR) q r v = Ok (q1, r1) ->
  Rabs (err q r k) <= G c * bd q k ->
  Rabs (err q1 r1 k) <= G (if ((length r - length v <=? k) && (k <? length r))%nat%bool then S c else c) * bd q1 k.
Proof using u_range fadd_ok fsub_ok fmul_ok fdiv_ok F_sub F_mul F_div fadd_0_l fadd_0_r fsub_0_r v_lead.
  intros Nr Hlen Fq Fr Zs E I.
  destruct (body_round q r q1 r1 Nr Hlen Fq Fr Zs E) as (cc & Fc & (d0 & Hd0 & Ed0) & Q1 & _ & _ & Rlo & Rmid & Rhi & _).
  pose proof v_nonempty as Nv.
  assert (Lv : (0 < length v)%nat) by (destruct v; [congruence|cbn; lia]).
  set (s := (length r - length v)%nat) in *.
  unfold err, bd in *.
  rewrite (rconv_add_monomial q q1 v s cc k Q1), (aconv_add_monomial q q1 v s cc k Zs Q1).
  set (e := nth k a 0 - rconv q v k - nth k r 0) in *.
  set (B := Rabs (nth k a 0) + aconv q v k) in *.
  assert (HB : 0 <= B) by apply bd_nonneg.
  assert (Hr : Rabs (nth k r 0) <= B + Rabs e).
  { replace (nth k r 0) with (nth k a 0 + - rconv q v k + - e) by (unfold e; ring).
    eapply Rle_trans; [apply Rabs_triang|]. eapply Rle_trans; [apply Rplus_le_compat_r, Rabs_triang|].
    rewrite !Rabs_Ropp. pose proof (rconv_le_aconv q v k). unfold B. lra. }
  pose proof (G_nonneg c) as Gp. destruct (G_step c) as (S1 & S2 & S3).
  assert (U0 : Rabs 0 <= u) by (rewrite Rabs_R0; lra).
  destruct (Nat.lt_ge_cases k s) as [Ks|Ks].
  { (* below the window: untouched *)
    destruct (Nat.leb_spec s k); [lia|]. cbn [andb]. rewrite (Rlo k Ks), !Rplus_0_r. exact I. }
  destruct (Nat.leb_spec s k); [|lia]. cbn [andb].
  destruct (Nat.lt_ge_cases k (length r - 1)) as [Km|Km].
  { (* inside the window: one rounded product, one rounded subtraction *)
    destruct (Nat.ltb_spec k (length r)); [|lia].
    destruct (Rmid k (conj Ks Km)) as (d1 & d2 & Hd1 & Hd2 & ->).
    set (x := cc * nth (k - s) v 0).
    replace (nth k a 0 - (rconv q v k + x) - (nth k r 0 - x * (1 + d1)) * (1 + d2))
      with (e - nth k r 0 * d2 + x * (d1 + d2 + d1 * d2)) by (unfold e; ring).
    rewrite <- Rabs_mult. fold x. fold B.
    replace (Rabs (nth k a 0) + (aconv q v k + Rabs x)) with (B + Rabs x) by (unfold B; ring).
    now apply (step_ineq (G c) (G (S c)) B e (nth k r 0) x d1 d2). }
  rewrite (Rhi k Km).
  destruct (Nat.eq_dec k (length r - 1)) as [Kt|Kt].
  { (* the cancelled leading coefficient: set to zero, its residual is the error of the division *)
    destruct (Nat.ltb_spec k (length r)); [|lia].
    replace (k - s)%nat with (length v - 1)%nat by (unfold s; lia).
    replace (nth k a 0 - (rconv q v k + cc * nth (length v - 1) v 0) - 0)
      with (e - nth k r 0 * d0 + 0 * (0 + d0 + 0 * d0)) by (unfold e; rewrite Ed0, Kt; ring).
    eapply Rle_trans; [apply (step_ineq (G c) (G (S c)) B e (nth k r 0) 0 0 d0); assumption|].
    rewrite Rabs_R0. pose proof (G_nonneg (S c)).
    apply Rmult_le_compat_l; [assumption|].
    assert (0 <= Rabs cc * Rabs (nth (length v - 1) v 0)) by (apply Rmult_le_pos; apply Rabs_pos).
    unfold B. lra. }
  (* above: both remainders and the product are zero there *)
  destruct (Nat.ltb_spec k (length r)); [lia|].
  rewrite (nth_overflow v) by (unfold s; lia). rewrite Rmult_0_r, Rabs_R0, Rmult_0_r, !Rplus_0_r.
  replace (nth k a 0 - rconv q v k - 0) with e by (unfold e; rewrite (nth_overflow r) by lia; ring).
  exact I.
Qed.

(* ---- the loop.  The counter of index k after p passes, the remainder having effective length n (0 once it is the
   zero polynomial): every earlier pass had a shift s' > n - len v, and touched k only if k - len v < s' <= k; the
   shifts are distinct, so at most min(p, len v, k + len v - n) passes touched k. *)
Definition elen (r : list R) : nat := if is_zero (A := AR) r then 0%nat else length r.
Definition cnt (p : nat) (r : list R) (k : nat) : nat := Nat.min p (Nat.min (length v) (k + length v - elen r)).
Definition Inv (p : nat) (q r : list R) : Prop := forall k, Rabs (err q r k) <= G (cnt p r k) * bd q k.

Lemma Inv_mono p p' q r : (p <= p')%nat -> Inv p q r -> Inv p' q r.
Proof using u_range.
  intros L H k. eapply Rle_trans; [apply H|]. apply Rmult_le_compat_r; [apply bd_nonneg|].
  apply G_mono. unfold cnt. lia.
Qed.

Lemma Inv_body p (q r q1 r1 : list R) :
  is_zero (A := AR) r = false -> (length v <= length r)%nat -> Fall q -> Fall r ->
  nth (length r - length v) q 0 = 0 ->
  polydiv_body (A := AR) q r v = Ok (q1, r1) -> (elen r1 < length r)%nat ->
  Inv p q r -> Inv (S p) q1 r1.
Proof using u_range fadd_ok fsub_ok fmul_ok fdiv_ok F_sub F_mul F_div fadd_0_l fadd_0_r fsub_0_r v_lead.
  intros Cz Hlen Fq Fr Zs E He I k.
  assert (Nr : r <> []) by (intros ->; discriminate Cz).
  eapply Rle_trans; [apply (body_err (cnt p r k) q r q1 r1 k Nr Hlen Fq Fr Zs E (I k))|].
  apply Rmult_le_compat_r; [apply bd_nonneg|]. apply G_mono.
  assert (Er : elen r = length r) by (unfold elen; now rewrite Cz).
  pose proof v_nonempty as Nv.
  assert (Lv : (0 < length v)%nat) by (destruct v; [congruence|cbn; lia]).
  unfold cnt. rewrite Er.
  destruct (Nat.leb_spec (length r - length v) k), (Nat.ltb_spec k (length r)); cbn [andb]; lia.
Qed.

Definition Zq (q r : list R) : Prop := forall i, (i + length v <= length r)%nat -> nth i q 0 = 0.

Lemma loop_round (fuel : nat) : forall count p (q0 r0 q r : list R),
  polydiv_loop (A := AR) fuel count q0 r0 v = Ok (inl (q, r)) ->
  Fall q0 -> Fall r0 -> Zq q0 r0 -> Inv p q0 r0 ->
  Inv (p + (length r0 + 1 - length v)) q r.
Proof using u_range fadd_ok fsub_ok fmul_ok fdiv_ok F_sub F_mul F_div fadd_0_l fadd_0_r fsub_0_r v_lead.
  pose proof v_nonempty as Nv.
  induction fuel as [|fuel IH]; intros count p q0 r0 q r; rewrite polydiv_loop_unfold;
    destruct (is_zero _ || _) eqn:C.
  - intros E; injection E as <- <-. intros _ _ _ I. eapply Inv_mono; [|exact I]. lia.
  - discriminate.
  - intros E; injection E as <- <-. intros _ _ _ I. eapply Inv_mono; [|exact I]. lia.
  - intros E Fq Fr Z I. apply orb_false_iff in C as (Cz & Cl). apply Nat.ltb_ge in Cl.
    unfold poly in *. change (T AR) with R in *.
    assert (Nr : r0 <> []) by (intros ->; discriminate Cz).
    apply bind_ok in E as ((q1 & r1) & Eb & E). destruct (POLYDIV_MAX <? S count)%nat; [discriminate|].
    cbn [fst snd] in E.
    assert (Lv : (0 < length v)%nat) by (destruct v; [congruence|cbn; lia]).
    assert (Zs : nth (length r0 - length v) q0 0 = 0) by (apply Z; lia).
    destruct (body_round q0 r0 q1 r1 Nr Cl Fq Fr Zs Eb) as (c & Fc & _ & Q1 & Fq1 & Fr1 & _).
    destruct (@polydiv_body_ok AR (eqbR_refl 0) v Nv (fun x => ex_intro _ _ eq_refl) q0 r0 Nr Cl)
      as (q' & r' & Eb' & Hr1).
    rewrite Eb in Eb'. injection Eb' as <- <-.
    assert (He : (elen r1 < length r0)%nat).
    { unfold elen. destruct Hr1 as [Hlt|Hz]; [|rewrite Hz; lia].
      destruct (is_zero (A := AR) r1); [lia|]. change (T AR) with R in *. exact Hlt. }
    pose proof (Inv_body p q0 r0 q1 r1 Cz Cl Fq Fr Zs Eb He I) as I1.
    destruct Hr1 as [Hlt|Hz].
    + eapply Inv_mono; [|apply (IH _ (S p) _ _ _ _ E Fq1 Fr1); [|exact I1]].
      * change (T AR) with R in *. lia.
      * intros i Hi. rewrite Q1. change (T AR) with R in *.
        destruct (Nat.eqb_spec i (length r0 - length v)); [lia|]. rewrite Z by lia. ring.
    + rewrite polydiv_loop_unfold, Hz in E. cbn [orb] in E. injection E as <- <-.
      eapply Inv_mono; [|exact I1]. lia.
Qed.

(* the headline: M = min(N, len v) counts the passes that can touch one coefficient *)
Theorem polydiv_rounded_identity_lemma (q r : list R) :
  Forall F a -> INR (2 * Nat.min (length a + 1 - length v) (length v)) * u < 1 ->
  polydiv (A := AR) a v = Ok (inl (q, r)) ->
  forall k, Rabs (nth k a 0 - Rsum (S k) (fun i => nth i q 0 * nth (k - i) v 0) - nth k r 0)
            <= gam (2 * Nat.min (length a + 1 - length v) (length v))
               * (Rabs (nth k a 0) + Rsum (S k) (fun i => Rabs (nth i q 0) * Rabs (nth (k - i) v 0))).
Proof using u_range fadd_ok fsub_ok fmul_ok fdiv_ok F_sub F_mul F_div fadd_0_l fadd_0_r fsub_0_r v_lead.
  intros Fa Hn. unfold polydiv. destruct (length _ =? 0)%nat; [discriminate|].
  destruct (is_zero _); [discriminate|]. intros E k.
  assert (I0 : Inv 0 [] a).
  { intros j. unfold cnt. cbn [Nat.min]. unfold err. rewrite rconv_nil_l, G_0.
    replace (nth j a 0 - 0 - nth j a 0) with 0 by ring. rewrite Rabs_R0. lra. }
  assert (Fn : Fall []) by (intros i; destruct i; exact F_0).
  assert (Zn : Zq [] a) by (intros i _; now destruct i).
  pose proof (loop_round _ _ _ _ _ _ _ E Fn (Fall_of_Forall a Fa) Zn I0 k) as H.
  cbn [plus] in H. eapply Rle_trans; [exact H|].
  apply Rmult_le_compat_r; [apply bd_nonneg|].
  eapply Rle_trans; [|apply G_gam; exact Hn]. apply G_mono. unfold cnt. lia.
Qed.

(* the same with the computed remainder on the right-hand side instead of the dividend:
   |a_k| <= Sum |q_i||v_{k-i}| + |r_k| + |E_k| turns gam(2M)(|a_k| + Sum) into gam(4M)(Sum + |r_k|) *)
Theorem polydiv_rounded_residual_lemma (q r : list R) :
  Forall F a -> INR (4 * Nat.min (length a + 1 - length v) (length v)) * u < 1 ->
  polydiv (A := AR) a v = Ok (inl (q, r)) ->
  forall k, Rabs (nth k a 0 - Rsum (S k) (fun i => nth i q 0 * nth (k - i) v 0) - nth k r 0)
            <= gam (4 * Nat.min (length a + 1 - length v) (length v))
               * (Rsum (S k) (fun i => Rabs (nth i q 0) * Rabs (nth (k - i) v 0)) + Rabs (nth k r 0)).
Proof using u_range fadd_ok fsub_ok fmul_ok fdiv_ok F_sub F_mul F_div fadd_0_l fadd_0_r fsub_0_r v_lead.
  intros Fa Hn E k. set (M := Nat.min (length a + 1 - length v) (length v)) in *.
  assert (I4 : INR (4 * M) = 2 * INR (2 * M)).
  { replace (4 * M)%nat with (2 * M + 2 * M)%nat by lia. rewrite plus_INR. ring. }
  pose proof (pos_INR (2 * M)) as P2.
  assert (H2 : INR (2 * M) * u < 1) by (rewrite I4 in Hn; nra).
  pose proof (polydiv_rounded_identity_lemma q r Fa H2 E k) as H. fold M in H.
  fold (rconv q v k) in *. fold (aconv q v k) in *.
  set (e := nth k a 0 - rconv q v k - nth k r 0) in *.
  pose proof (aconv_nonneg q v k) as PA. pose proof (Rabs_pos (nth k r 0)) as PR. pose proof (Rabs_pos e) as PE.
  assert (Ha : Rabs (nth k a 0) <= aconv q v k + Rabs (nth k r 0) + Rabs e).
  { replace (nth k a 0) with (rconv q v k + nth k r 0 + e) by (unfold e; ring).
    eapply Rle_trans; [apply Rabs_triang|]. eapply Rle_trans; [apply Rplus_le_compat_r, Rabs_triang|].
    pose proof (rconv_le_aconv q v k). lra. }
  unfold RoundModel.gam in *. rewrite I4. set (t := INR (2 * M) * u) in *.
  assert (T0 : 0 <= t) by (unfold t; nra).
  assert (T1 : 2 * t < 1) by (unfold t; rewrite I4 in Hn; lra).
  replace (2 * INR (2 * M) * u) with (2 * t) by (unfold t; ring).
  assert (K : Rabs e * (1 - t) <= t * (Rabs (nth k a 0) + aconv q v k)).
  { apply (Rmult_le_compat_r (1 - t)) in H; [|lra].
    replace (t / (1 - t) * (Rabs (nth k a 0) + aconv q v k) * (1 - t))
      with (t * (Rabs (nth k a 0) + aconv q v k)) in H by (field; lra). exact H. }
  assert (K2 : Rabs e * (1 - 2 * t) <= 2 * t * (aconv q v k + Rabs (nth k r 0))) by nra.
  apply (Rmult_le_reg_r (1 - 2 * t)); [lra|].
  replace (2 * t / (1 - 2 * t) * (aconv q v k + Rabs (nth k r 0)) * (1 - 2 * t))
    with (2 * t * (aconv q v k + Rabs (nth k r 0))) by (field; lra).
  exact K2.
Qed.

End RoundPolyDiv.
