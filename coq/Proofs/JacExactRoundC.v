(* Proofs/JacExactRoundC.v -- package jacexact (C18), item 4: drift of the restored coordinates of
   Matrix::<Cmplx>::jacobian_cmplx in the standard model of floating-point arithmetic (the model's jacobian at NCplx over
   the standard-model arithmetic ARm, d = Cmplx::new(delta, 0.0)).  The complex += / -= act componentwise:
        re:  (re x_k (+) delta) (-) delta        |. - re x_k| <= (2u + u^2)(|re x_k| + |delta|)
        im:  (im x_k (+) 0) (-) 0                |. - im x_k| <= (2u + u^2) |im x_k|
   (in IEEE arithmetic  y + 0 = y  is exact and the imaginary part does not drift at all -- except for the sign of a
   zero, Proofs/JacExactFloatC.v exc_negzero; the standard model charges the two operations anyway).
   jacobian_call_points_drift_C_lemma: the calls are made at x and at p_0, ..., p_(n-1) with, for every column j and
   coordinate k,
        k = j:  |re (p_j)_j - (re x_j + delta)| <= u |re x_j + delta|,  |im (p_j)_j - im x_j| <= u |im x_j|
        k < j:  the two bounds above;     k > j:  (p_j)_k = x_k;
   the state the loop ends with is within the k < j bounds of x in every coordinate. *)
From Coq Require Import List Arith Lia Reals Lra Psatz.
From OV Require Import Base.Panic Base.Arith Base.RoundModel Model.Complex Model.Vector Model.Matrix Model.Newton
  Proofs.Matrix Proofs.Newton Proofs.NewtonJac Proofs.JacExactGen Proofs.JacExactRound.
Import ListNotations.
Local Open Scope R_scope.

Section JacRoundC.
Variable u : R.
Hypothesis u_range : 0 <= u < 1.
Variables fadd fsub fmul fdiv : R -> R -> R.
Variable fsqrt : R -> R.
Hypothesis fadd_ok : forall x y, exists e, Rabs e <= u /\ fadd x y = (x + y) * (1 + e).
Hypothesis fsub_ok : forall x y, exists e, Rabs e <= u /\ fsub x y = (x - y) * (1 + e).

(* the standard-model arithmetic with a square root and `n as f64` (neither is used by the Jacobian) *)
Definition SARm : SArith := {| SA := ARm fadd fsub fmul fdiv; sqrt := fsqrt; of_nat := INR |}.
Notation OCM := (NCplx SARm).
Notation cm := (cplx (ARm fadd fsub fmul fdiv)).
Notation czm := (@zero (NA OCM)).

(* bounds on the real / imaginary part of coordinate k of the j-th call point *)
Definition cdrift_re (x : list cm) (d : R) (j k : nat) : R :=
  if k =? j then u * Rabs (re (nth k x czm) + d)
  else if k <? j then (2 * u + u * u) * (Rabs (re (nth k x czm)) + Rabs d) else 0.
Definition cdrift_im (x : list cm) (j k : nat) : R :=
  if k =? j then u * Rabs (im (nth k x czm))
  else if k <? j then (2 * u + u * u) * Rabs (im (nth k x czm)) else 0.

Lemma restored_C (x : list cm) (d : R) (k : nat) :
  restored OCM x (emb OCM d) k =
    mkC (A := ARm fadd fsub fmul fdiv) (fsub (fadd (re (nth k x czm)) d) d) (fsub (fadd (im (nth k x czm)) 0) 0).
Proof. reflexivity. Qed.

Lemma restore_drift_C_lemma (x : list cm) (d : R) (k : nat) :
  Rabs (re (restored OCM x (emb OCM d) k) - re (nth k x czm)) <= (2 * u + u * u) * (Rabs (re (nth k x czm)) + Rabs d) /\
  Rabs (im (restored OCM x (emb OCM d) k) - im (nth k x czm)) <= (2 * u + u * u) * Rabs (im (nth k x czm)).
Proof using u_range fadd_ok fsub_ok.
  rewrite restored_C. cbn [re im]. split.
  - apply (restore_drift_lemma u u_range fadd fsub fadd_ok fsub_ok).
  - pose proof (proj2 (restore_drift_lemma u u_range fadd fsub fadd_ok fsub_ok (im (nth k x czm)) 0)) as H.
    rewrite Rabs_R0, Rplus_0_r in H. exact H.
Qed.

Lemma call_pt_drift_C (x : list cm) (d : R) (j k : nat) : (j < length x)%nat ->
  Rabs (re (nth k (call_pt OCM x (emb OCM d) j) czm) - (if k =? j then re (nth k x czm) + d else re (nth k x czm)))
    <= cdrift_re x d j k /\
  Rabs (im (nth k (call_pt OCM x (emb OCM d) j) czm) - im (nth k x czm)) <= cdrift_im x j k.
Proof using u_range fadd_ok fsub_ok.
  intros Hj. rewrite (call_pt_nth OCM x (emb OCM d) j k Hj). unfold cdrift_re, cdrift_im.
  destruct (k =? j) eqn:Ekj.
  - apply Nat.eqb_eq in Ekj. subst k.
    change (@add (NA OCM) (nth j x czm) (emb OCM d)) with
      (mkC (A := ARm fadd fsub fmul fdiv) (fadd (re (nth j x czm)) d) (fadd (im (nth j x czm)) 0)).
    cbn [re im]. split.
    + apply (fadd_err u fadd fadd_ok).
    + pose proof (fadd_err u fadd fadd_ok (im (nth j x czm)) 0) as H. rewrite Rplus_0_r in H. exact H.
  - destruct (k <? j).
    + apply restore_drift_C_lemma.
    + rewrite !Rminus_diag_eq by reflexivity. rewrite Rabs_R0. split; lra.
Qed.

Lemma jacobian_call_points_drift_C_lemma (F : list cm -> res (list cm)) (x : list cm) (d : R)
    (st : list cm) (J : matrix (NA OCM)) (evs : list (list cm)) :
  jacobian_tr OCM F x (emb OCM d) = Ok (st, J, evs) ->
  evs = x :: map (call_pt OCM x (emb OCM d)) (seq 0 (length x)) /\
  (forall j k, (j < length x)%nat ->
     Rabs (re (nth k (call_pt OCM x (emb OCM d) j) czm) - (if k =? j then re (nth k x czm) + d else re (nth k x czm)))
       <= cdrift_re x d j k /\
     Rabs (im (nth k (call_pt OCM x (emb OCM d) j) czm) - im (nth k x czm)) <= cdrift_im x j k) /\
  length st = length x /\
  (forall k, Rabs (re (nth k st czm) - re (nth k x czm)) <= (2 * u + u * u) * (Rabs (re (nth k x czm)) + Rabs d) /\
             Rabs (im (nth k st czm) - im (nth k x czm)) <= (2 * u + u * u) * Rabs (im (nth k x czm))).
Proof using u_range fadd_ok fsub_ok.
  intros H. apply jacobian_tr_gen in H as (-> & -> & _).
  split; [reflexivity|]. split; [intros j k Hj; now apply call_pt_drift_C|].
  split; [exact (state_at_length OCM x (emb OCM d) (length x))|]. intros k.
  rewrite (state_at_nth OCM) by apply le_n.
  match goal with |- context [if ?b then _ else _] => destruct b end.
  - apply restore_drift_C_lemma.
  - rewrite !Rminus_diag_eq by reflexivity. rewrite Rabs_R0.
    pose proof (Rabs_pos (re (nth k x czm))). pose proof (Rabs_pos (im (nth k x czm))). pose proof (Rabs_pos d).
    split; nra.
Qed.

(* the same statement with [cdrift_re] / [cdrift_im] spelled out *)
Lemma jacobian_call_points_drift_C_explicit (F : list cm -> res (list cm)) (x : list cm) (d : R)
    (st : list cm) (J : matrix (NA OCM)) (evs : list (list cm)) :
  jacobian_tr OCM F x (emb OCM d) = Ok (st, J, evs) ->
  evs = x :: map (call_pt OCM x (emb OCM d)) (seq 0 (length x)) /\
  (forall j k, (j < length x)%nat ->
     Rabs (re (nth k (call_pt OCM x (emb OCM d) j) czm) - (if k =? j then re (nth k x czm) + d else re (nth k x czm)))
       <= (if k =? j then u * Rabs (re (nth k x czm) + d)
           else if k <? j then (2 * u + u * u) * (Rabs (re (nth k x czm)) + Rabs d) else 0) /\
     Rabs (im (nth k (call_pt OCM x (emb OCM d) j) czm) - im (nth k x czm))
       <= (if k =? j then u * Rabs (im (nth k x czm))
           else if k <? j then (2 * u + u * u) * Rabs (im (nth k x czm)) else 0)) /\
  length st = length x /\
  (forall k, Rabs (re (nth k st czm) - re (nth k x czm)) <= (2 * u + u * u) * (Rabs (re (nth k x czm)) + Rabs d) /\
             Rabs (im (nth k st czm) - im (nth k x czm)) <= (2 * u + u * u) * Rabs (im (nth k x czm))).
Proof using u_range fadd_ok fsub_ok. exact (jacobian_call_points_drift_C_lemma F x d st J evs). Qed.

End JacRoundC.
