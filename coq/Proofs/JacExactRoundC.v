(* Proofs/JacExactRoundC.v -- package jacexact (C18), item 4: drift of the restored coordinates of
   Matrix::<Cmplx>::jacobian_cmplx in the standard model of floating-point arithmetic (the model's jacobian at NCplx over
   the standard-model arithmetic ARm, d = Cmplx::new(delta, 0.0)).  The complex += / -= act componentwise:
        re:  (re x_k (+) delta) (-) delta        |. - re x_k| <= (2u + u^2)(|re x_k| + |delta|)
        im:  (im x_k (+) 0) (-) 0                |. - im x_k| <= (2u + u^2) |im x_k|
   (in IEEE arithmetic  y + 0 = y  is exact and the imaginary part does not drift at all -- except for the sign of a
   zero, Proofs/JacExactFloatC.v exc_negzero; the standard model charges the two operations anyway).
   jacobian_call_points_drift_C_lemma: the calls are made at x and at p_0, ..., p_(n-1) with, for every column j and
   coordinate k,
        k = j:  |re (p_j)_j - (re x_j + delta)| <= u |re x_j + delta|,  |im (p_j)_j - im x_j| <= u |im x_j|
        k < j:  the two bounds above;     k > j:  (p_j)_k = x_k;
   the state the loop ends with is within the k < j bounds of x in every coordinate. *)
From Coq Require Import List Arith Lia Reals Lra Psatz.
From OV Require Import Base.Panic Base.Arith Base.RoundModel Model.Complex Model.Vector Model.Matrix Model.Newton
  Proofs.Matrix Proofs.Newton Proofs.NewtonJac Proofs.JacExactGen Proofs.JacExactRound.
Import ListNotations.
Local Open Scope R_scope.

Section JacRoundC.
Variable u : R.
Hypothesis u_range : 0 <= u < 1.
Variables fadd fsub fmul fdiv : R -> R -> R.
Variable fsqrt : R -> R.
Hypothesis fadd_ok : forall x y, exists e, Rabs e <= u /\ fadd x y = (x + y) * (1 + e).
Hypothesis fsub_ok : forall x y, exists e, Rabs e <= u /\ fsub x y = (x - y) * (1 + e).
Hypothesis fmul_ok : forall x y, exists e, Rabs e <= u /\ fmul x y = x * y * (1 + e).
Hypothesis fdiv_ok : forall x y, y <> 0 -> exists e, Rabs e <= u /\ fdiv x y = x / y * (1 + e).

(* the standard-model arithmetic with a square root and `n as f64` (neither is used by the Jacobian) *)
Definition SARm : SArith := {| SA := ARm fadd fsub fmul fdiv; sqrt := fsqrt; of_nat := INR |}.
Notation OCM := (NCplx SARm).
Notation cm := (cplx (ARm fadd fsub fmul fdiv)).
Notation czm := (@zero (NA OCM)).

(* bounds on the real / imaginary part of coordinate k of the j-th call point *)
Definition cdrift_re (x : list cm) (d : R) (j k : nat) : R :=
  if k =? j then u * Rabs (re (nth k x czm) + d)
  else if k <? j then (2 * u + u * u) * (Rabs (re (nth k x czm)) + Rabs d) else 0.
Definition cdrift_im (x : list cm) (j k : nat) : R :=
  if k =? j then u * Rabs (im (nth k x czm))
  else if k <? j then (2 * u + u * u) * Rabs (im (nth k x czm)) else 0.

Lemma restored_C (x : list cm) (d : R) (k : nat) :
  restored OCM x (emb OCM d) k =
    mkC (A := ARm fadd fsub fmul fdiv) (fsub (fadd (re (nth k x czm)) d) d) (fsub (fadd (im (nth k x czm)) 0) 0).
Proof. reflexivity. Qed.

Lemma restore_drift_C_lemma (x : list cm) (d : R) (k : nat) :
  Rabs (re (restored OCM x (emb OCM d) k) - re (nth k x czm)) <= (2 * u + u * u) * (Rabs (re (nth k x czm)) + Rabs d) /\
  Rabs (im (restored OCM x (emb OCM d) k) - im (nth k x czm)) <= (2 * u + u * u) * Rabs (im (nth k x czm)).
Proof using u_range fadd_ok fsub_ok.
  rewrite restored_C. cbn [re im]. split.
  - apply (restore_drift_lemma u u_range fadd fsub fadd_ok fsub_ok).
  - pose proof (proj2 (restore_drift_lemma u u_range fadd fsub fadd_ok fsub_ok (im (nth k x czm)) 0)) as H.
    rewrite Rabs_R0, Rplus_0_r in H. exact H.
Qed.

Lemma call_pt_drift_C (x : list cm) (d : R) (j k : nat) : (j < length x)%nat ->
  Rabs (re (nth k (call_pt OCM x (emb OCM d) j) czm) - (if k =? j then re (nth k x czm) + d else re (nth k x czm)))
    <= cdrift_re x d j k /\
  Rabs (im (nth k (call_pt OCM x (emb OCM d) j) czm) - im (nth k x czm)) <= cdrift_im x j k.
Proof using u_range fadd_ok fsub_ok.
  intros Hj. rewrite (call_pt_nth OCM x (emb OCM d) j k Hj). unfold cdrift_re, cdrift_im.
  destruct (k =? j) eqn:Ekj.
  - apply Nat.eqb_eq in Ekj. subst k.
    change (@add (NA OCM) (nth j x czm) (emb OCM d)) with
      (mkC (A := ARm fadd fsub fmul fdiv) (fadd (re (nth j x czm)) d) (fadd (im (nth j x czm)) 0)).
    cbn [re im]. split.
    + apply (fadd_err u fadd fadd_ok).
    + pose proof (fadd_err u fadd fadd_ok (im (nth j x czm)) 0) as H. rewrite Rplus_0_r in H. exact H.
  - destruct (k <? j).
    + apply restore_drift_C_lemma.
    + rewrite !Rminus_diag_eq by reflexivity. rewrite Rabs_R0. split; lra.
Qed.

Lemma jacobian_call_points_drift_C_lemma (F : list cm -> res (list cm)) (x : list cm) (d : R)
    (st : list cm) (J : matrix (NA OCM)) (evs : list (list cm)) :
  jacobian_tr OCM F x (emb OCM d) = Ok (st, J, evs) ->
  evs = x :: map (call_pt OCM x (emb OCM d)) (seq 0 (length x)) /\
  (forall j k, (j < length x)%nat ->
     Rabs (re (nth k (call_pt OCM x (emb OCM d) j) czm) - (if k =? j then re (nth k x czm) + d else re (nth k x czm)))
       <= cdrift_re x d j k /\
     Rabs (im (nth k (call_pt OCM x (emb OCM d) j) czm) - im (nth k x czm)) <= cdrift_im x j k) /\
  length st = length x /\
  (forall k, Rabs (re (nth k st czm) - re (nth k x czm)) <= (2 * u + u * u) * (Rabs (re (nth k x czm)) + Rabs d) /\
             Rabs (im (nth k st czm) - im (nth k x czm)) <= (2 * u + u * u) * Rabs (im (nth k x czm))).
Proof using u_range fadd_ok fsub_ok.
  intros H. apply jacobian_tr_gen in H as (-> & -> & _).
  split; [reflexivity|]. split; [intros j k Hj; now apply call_pt_drift_C|].
  split; [exact (state_at_length OCM x (emb OCM d) (length x))|]. intros k.
  rewrite (state_at_nth OCM) by apply le_n.
  match goal with |- context [if ?b then _ else _] => destruct b end.
  - apply restore_drift_C_lemma.
  - rewrite !Rminus_diag_eq by reflexivity. rewrite Rabs_R0.
    pose proof (Rabs_pos (re (nth k x czm))). pose proof (Rabs_pos (im (nth k x czm))). pose proof (Rabs_pos d).
    split; nra.
Qed.

(* the same statement with [cdrift_re] / [cdrift_im] spelled out *)
Lemma jacobian_call_points_drift_C_explicit (F : list cm -> res (list cm)) (x : list cm) (d : R)
    (st : list cm) (J : matrix (NA OCM)) (evs : list (list cm)) :
  jacobian_tr OCM F x (emb OCM d) = Ok (st, J, evs) ->
  evs = x :: map (call_pt OCM x (emb OCM d)) (seq 0 (length x)) /\
  (forall j k, (j < length x)%nat ->
     Rabs (re (nth k (call_pt OCM x (emb OCM d) j) czm) - (if k =? j then re (nth k x czm) + d else re (nth k x czm)))
       <= (if k =? j then u * Rabs (re (nth k x czm) + d)
           else if k <? j then (2 * u + u * u) * (Rabs (re (nth k x czm)) + Rabs d) else 0) /\
     Rabs (im (nth k (call_pt OCM x (emb OCM d) j) czm) - im (nth k x czm))
       <= (if k =? j then u * Rabs (im (nth k x czm))
           else if k <? j then (2 * u + u * u) * Rabs (im (nth k x czm)) else 0)) /\
  length st = length x /\
  (forall k, Rabs (re (nth k st czm) - re (nth k x czm)) <= (2 * u + u * u) * (Rabs (re (nth k x czm)) + Rabs d) /\
             Rabs (im (nth k st czm) - im (nth k x czm)) <= (2 * u + u * u) * Rabs (im (nth k x czm))).
Proof using u_range fadd_ok fsub_ok. exact (jacobian_call_points_drift_C_lemma F x d st J evs). Qed.

(* ---------------------------------------------------------------- the rounding floor of the complex quotient *)
(* a quotient known up to a factor P, |P - 1| <= g, from data known up to absolute errors ea, eb *)
Lemma quot_error_abs (a b A B0 d P g ea eb : R) : d <> 0 -> Rabs (P - 1) <= g ->
  Rabs (a - A) <= ea -> Rabs (b - B0) <= eb ->
  Rabs ((a - b) / d * P - (A - B0) / d) <= (g * Rabs (A - B0) + (1 + g) * (ea + eb)) / Rabs d.
Proof.
  intros Hd HP Ha Hb.
  replace ((a - b) / d * P - (A - B0) / d) with (((A - B0) * (P - 1) + ((a - A) - (b - B0)) * P) / d) by (field; exact Hd).
  unfold Rdiv at 1. rewrite Rabs_mult, Rabs_inv. unfold Rdiv.
  apply Rmult_le_compat_r; [apply Rlt_le, Rinv_0_lt_compat, Rabs_pos_lt; exact Hd|].
  eapply Rle_trans; [apply Rabs_triang|]. rewrite !Rabs_mult.
  assert (P2 : Rabs P <= 1 + g).
  { replace P with (1 + (P - 1)) by ring. eapply Rle_trans; [apply Rabs_triang|]. rewrite Rabs_R1. lra. }
  assert (D : Rabs (a - A - (b - B0)) <= ea + eb).
  { eapply Rle_trans; [apply Rabs_triang|]. rewrite Rabs_Ropp. lra. }
  pose proof (Rabs_pos (A - B0)). pose proof (Rabs_pos (P - 1)). pose proof (Rabs_pos P).
  pose proof (Rabs_pos (a - A - (b - B0))). pose proof (Rabs_pos (a - A)). pose proof (Rabs_pos (b - B0)).
  assert (T1 : Rabs (A - B0) * Rabs (P - 1) <= g * Rabs (A - B0)) by nra.
  assert (T2 : Rabs (a - A - (b - B0)) * Rabs P <= (1 + g) * (ea + eb)).
  { rewrite Rmult_comm. apply Rmult_le_compat; lra. }
  lra.
Qed.

Lemma one_plus_pos e : Rabs e <= u -> 0 < 1 + e.
Proof using u_range. intros H. apply Rabs_bnd in H. lra. Qed.

(* z / (d, 0) in the model: both parts are the exact quotients times a product of five rounding factors *)
Lemma cdiv_real_model (z : cm) (d : R) : d <> 0 ->
  exists (q : cm) (Pr Pi : R), cdiv z (emb OCM d) = Ok q /\ bnd u 5 Pr /\ bnd u 5 Pi /\
    re q = re z / d * Pr /\ im q = im z / d * Pi.
Proof using u_range fadd_ok fsub_ok fmul_ok fdiv_ok.
  intros Hd. destruct z as [zr zi]. unfold cdiv. cbn [re im emb NCplx SARm SA].
  change (@mul (ARm fadd fsub fmul fdiv)) with fmul. change (@add (ARm fadd fsub fmul fdiv)) with fadd.
  change (@sub (ARm fadd fsub fmul fdiv)) with fsub. change (@zero (ARm fadd fsub fmul fdiv)) with 0.
  change (@div (ARm fadd fsub fmul fdiv)) with (fun x y : R => Ok (fdiv x y)). cbn beta. cbn [bind].
  (* products with 0 vanish *)
  assert (M0 : forall a, fmul a 0 = 0) by (intros a; destruct (fmul_ok a 0) as (e & _ & ->); ring).
  rewrite !M0.
  destruct (fmul_ok d d) as (e1 & H1 & E1). destruct (fadd_ok (fmul d d) 0) as (e2 & H2 & E2).
  destruct (fmul_ok zr d) as (e3 & H3 & E3). destruct (fadd_ok (fmul zr d) 0) as (e4 & H4 & E4).
  destruct (fmul_ok zi d) as (e6 & H6 & E6). destruct (fsub_ok (fmul zi d) 0) as (e7 & H7 & E7).
  pose proof (one_plus_pos e1 H1) as P1. pose proof (one_plus_pos e2 H2) as P2.
  assert (Dn : fadd (fmul d d) 0 <> 0).
  { rewrite E2, E1. assert (0 < d * d) by nra. assert (0 < d * d * (1 + e1)) by nra. nra. }
  destruct (fdiv_ok (fadd (fmul zr d) 0) (fadd (fmul d d) 0) Dn) as (e5 & H5 & E5).
  destruct (fdiv_ok (fsub (fmul zi d) 0) (fadd (fmul d d) 0) Dn) as (e8 & H8 & E8).
  eexists. exists ((1 + e3) * (1 + e4) * (1 + e5) / ((1 + e1) * (1 + e2))),
                  ((1 + e6) * (1 + e7) * (1 + e8) / ((1 + e1) * (1 + e2))).
  split; [reflexivity|]. cbn [re im].
  assert (B12 : bnd u (1 + 1) ((1 + e1) * (1 + e2))) by (apply bnd_mul; auto; now apply bnd_1pd).
  split; [|split; [|split]].
  - change 5%nat with (1 + 1 + 1 + (1 + 1))%nat. apply bnd_div; auto. repeat apply bnd_mul; auto; now apply bnd_1pd.
  - change 5%nat with (1 + 1 + 1 + (1 + 1))%nat. apply bnd_div; auto. repeat apply bnd_mul; auto; now apply bnd_1pd.
  - rewrite E5, E4, E3, E2, E1. match goal with |- ?a = ?b => change (@eq R a b) end. field. repeat split; lra.
  - rewrite E8, E7, E6, E2, E1. match goal with |- ?a = ?b => change (@eq R a b) end. field. repeat split; lra.
Qed.

(* the entries of the complex Jacobian: both parts of J_ij are the exact quotients of the returned values up to gam 6
   (one rounding for the subtraction, five for the division by (delta, 0)) *)
Lemma jacobian_rounding_floor_C_lemma (F : list cm -> res (list cm)) (x : list cm) (d : R)
    (J : matrix (NA OCM)) (evs : list (list cm)) :
  jacobian OCM F x (emb OCM d) = Ok (J, evs) -> d <> 0 -> INR 6 * u < 1 ->
  forall (i j : nat) (Ar Ai Br Bi ea eb : R), (i < rows J)%nat -> (j < length x)%nat ->
  (forall v, F (call_pt OCM x (emb OCM d) j) = Ok v ->
     Rabs (re (nth i v czm) - Ar) <= ea /\ Rabs (im (nth i v czm) - Ai) <= ea) ->
  (forall v, F x = Ok v -> Rabs (re (nth i v czm) - Br) <= eb /\ Rabs (im (nth i v czm) - Bi) <= eb) ->
  exists q : cm, mget J i j = Ok q /\
    Rabs (re q - (Ar - Br) / d) <= (gam u 6 * Rabs (Ar - Br) + (1 + gam u 6) * (ea + eb)) / Rabs d /\
    Rabs (im q - (Ai - Bi) / d) <= (gam u 6 * Rabs (Ai - Bi) + (1 + gam u 6) * (ea + eb)) / Rabs d.
Proof using u_range fadd_ok fsub_ok fmul_ok fdiv_ok.
  intros H Hd H6 i j Ar Ai Br Bi ea eb Hi Hj Ha Hb.
  apply jacobian_gen_lemma in H as (_ & f0 & E0 & _ & Rw & _ & Hent).
  assert (Hi' : (i < length f0)%nat) by (rewrite <- Rw; exact Hi).
  destruct (Hent i j Hi' Hj) as (fj & q & Ej & _ & Eq & Em).
  exists q. split; [exact Em|].
  destruct (Ha fj Ej) as [Har Hai]. destruct (Hb f0 E0) as [Hbr Hbi].
  set (a := nth i fj czm) in *. set (b := nth i f0 czm) in *.
  destruct (cdiv_real_model (csub a b) d Hd) as (q' & Pr & Pi & Eq' & Br6 & Bi6 & Er & Ei).
  pose proof (eq_trans (eq_sym Eq') Eq) as EE. injection EE as <-.
  destruct (fsub_ok (re a) (re b)) as (s1 & Hs1 & Es1). destruct (fsub_ok (im a) (im b)) as (s2 & Hs2 & Es2).
  change (re (csub a b)) with (fsub (re a) (re b)) in Er. change (im (csub a b)) with (fsub (im a) (im b)) in Ei.
  rewrite Es1 in Er. rewrite Es2 in Ei.
  assert (G1 : Rabs ((1 + s1) * Pr - 1) <= gam u 6).
  { apply (bnd_gam u u_range 6); [|exact H6]. change 6%nat with (1 + 5)%nat. apply bnd_mul; auto. now apply bnd_1pd. }
  assert (G2 : Rabs ((1 + s2) * Pi - 1) <= gam u 6).
  { apply (bnd_gam u u_range 6); [|exact H6]. change 6%nat with (1 + 5)%nat. apply bnd_mul; auto. now apply bnd_1pd. }
  split.
  - replace (re q') with ((re a - re b) / d * ((1 + s1) * Pr)) by (rewrite Er; field; exact Hd).
    now apply quot_error_abs.
  - replace (im q') with ((im a - im b) / d * ((1 + s2) * Pi)) by (rewrite Ei; field; exact Hd).
    now apply quot_error_abs.
Qed.

End JacRoundC.
