(* Proofs/ParSchedOrder.v -- the interleaving semantics (Model/ParSched.v) REFINES the coarse scheduler of
   Model/ParDot.v: along every maximal execution the order in which the workers finish is a permutation sigma of
   0..t-1, and the value main returns is run_sched sigma -- the object schedule_independent (Props/C16.v) speaks
   about.  Any arithmetic. *)
From Coq Require Import List Arith Lia Permutation Bool.
From OV Require Import Base.Panic Base.Arith Model.Vector Model.ParDot Model.ParSched Proofs.ParDot Proofs.ParSched.
Import ListNotations.

Section Order.
Context {A : Arith}.
Notation T := (T A).
Variables (v w : list T) (t : nat).
Hypothesis Ht : 1 <= t.
Hypothesis Hl : length v = length w.

Notation fire := (fire v w t).
Notation exec := (exec v w t).
Notation terminal := (terminal v w t).
Notation init := (sched_init (A := A) t).
Notation Inv := (Inv v w t).
Notation completions := (completions v w t).

(* worker k has published its result *)
Definition isfin (x : @wstate A) : bool := match x with WDone _ | WJoined => true | _ => false end.
Definition finb (s : @state A) (k : nat) : bool :=
  match nth_error (ws s) k with Some x => isfin x | None => false end.

Lemma finb_upd l m m' k x k' : k < length l ->
  finb (mkState m' (upd_list l k x)) k' = if k' =? k then isfin x else finb (mkState m l) k'.
Proof. intros H. unfold finb; cbn [ws]. rewrite nth_error_upd_list by exact H. now destruct (k' =? k). Qed.

(* what one transition does to the set of finished workers *)
Lemma fire_fin th s s' : Inv s -> fire th s = Some s' ->
  match th with
  | Wk k => match nth_error (ws s) k with
            | Some x => if finishes x
                        then finb s k = false /\ finb s' k = true /\ forall k', k' <> k -> finb s' k' = finb s k'
                        else forall k', finb s' k' = finb s k'
            | None => True
            end
  | Main => forall k', finb s' k' = finb s k'
  end.
Proof.
  intros [HL HM] HF. destruct s as [m l]. cbn [ws main] in *. destruct th as [|k]; cbn [ParSched.fire main ws] in HF.
  - destruct m as [i|j acc|r]; [| |discriminate].
    + destruct HM as [Hi HW]. destruct (Nat.ltb_spec i t) as [Hlt|Hge].
      * rewrite (job_ok v w t i Ht Hlt Hl) in HF. injection HF as <-. intros k'.
        rewrite (finb_upd l (MSpawn i)) by lia. destruct (Nat.eqb_spec k' i) as [->|]; [|reflexivity].
        unfold finb; cbn [ws isfin]. destruct (nth_error l i) as [x|] eqn:E; [|reflexivity].
        destruct (HW i x E) as [_ H2]. now rewrite (H2 (le_n i)).
      * injection HF as <-. intros k'. reflexivity.
    + destruct HM as (Hj & Eacc & HW). destruct (Nat.ltb_spec j t) as [Hlt|Hge].
      * destruct (nth_error l j) as [x|] eqn:Ej; [|discriminate].
        destruct x as [|a b n ac|r| |]; try discriminate.
        -- injection HF as <-. intros k'. rewrite (finb_upd l (MJoin j acc)) by lia.
           destruct (Nat.eqb_spec k' j) as [->|]; [|reflexivity]. unfold finb; cbn [ws]. now rewrite Ej.
        -- injection HF as <-. intros k'. reflexivity.
      * injection HF as <-. intros k'. reflexivity.
  - destruct (nth_error l k) as [x|] eqn:Ek; [|discriminate].
    assert (Hk : k < length l) by (apply nth_error_Some; congruence).
    destruct (wstep x) as [x'|] eqn:Ex; [|discriminate]. injection HF as <-.
    destruct x as [|a b n acc|r| |]; try discriminate. cbn [wstep finishes] in *.
    destruct (n <? length a); cbn [negb].
    + intros k'. rewrite (finb_upd l m) by lia. destruct (Nat.eqb_spec k' k) as [->|]; [|reflexivity].
      unfold finb at 1; cbn [ws]. rewrite Ek. cbn [isfin].
      destruct (rd a n); destruct (rd b n); injection Ex as <-; reflexivity.
    + injection Ex as <-. split; [|split].
      * unfold finb; cbn [ws]. now rewrite Ek.
      * rewrite (finb_upd l m) by lia. now rewrite Nat.eqb_refl.
      * intros k' Hne. rewrite (finb_upd l m) by lia. now apply Nat.eqb_neq in Hne as ->.
Qed.

Lemma completions_spec sch s s' : Inv s -> exec sch s = Some s' ->
  NoDup (completions sch s) /\
  (forall k, finb s k = true -> finb s' k = true) /\
  (forall k, In k (completions sch s) <-> finb s k = false /\ finb s' k = true).
Proof.
  revert s; induction sch as [|th rest IH]; intros s HI HE; cbn [ParSched.exec ParSched.completions] in *.
  - injection HE as <-. split; [constructor|split; [auto|]].
    intros k; split; [contradiction|]. intros [H1 H2]. congruence.
  - destruct (fire th s) as [s1|] eqn:E1; [|discriminate].
    destruct (Inv_step v w t Ht Hl th s s1 HI E1) as [HI1 _].
    destruct (IH s1 HI1 HE) as (ND & Mono & Spec).
    pose proof (fire_fin th s s1 HI E1) as HF.
    destruct th as [|k].
    + split; [exact ND|split].
      * intros k H. apply Mono. now rewrite HF.
      * intros k. rewrite Spec, HF. tauto.
    + destruct (nth_error (ws s) k) as [x|] eqn:Ek.
      * destruct (finishes x).
        -- destruct HF as (F0 & F1 & Fo). split; [|split].
           ++ constructor; [|exact ND]. intros Hin. apply Spec in Hin as [H _]. congruence.
           ++ intros k' H. apply Mono. destruct (Nat.eq_dec k' k) as [->|Hne]; [exact F1|now rewrite Fo].
           ++ intros k'. cbn [In]. rewrite Spec. destruct (Nat.eq_dec k' k) as [->|Hne].
              ** split; [intros _|auto]. split; [exact F0|now apply Mono].
              ** rewrite (Fo k' Hne). split; [intros [H|H]; [congruence|exact H]|auto].
        -- split; [exact ND|split].
           ++ intros k' H. apply Mono. now rewrite HF.
           ++ intros k'. rewrite Spec, HF. tauto.
      * cbn [ParSched.fire] in E1. rewrite Ek in E1. discriminate.
Qed.

Lemma completions_perm sch s' : exec sch init = Some s' -> terminal s' ->
  Permutation (completions sch init) (seq 0 t).
Proof.
  intros HE HT.
  destruct (completions_spec sch init s' (Inv_init v w t Ht Hl) HE) as (ND & _ & Spec).
  destruct (exec_Inv v w t Ht Hl sch init s' (Inv_init v w t Ht Hl) HE) as [HI _].
  pose proof (terminal_final v w t Ht Hl s' HI HT) as HF.
  destruct HI as [HL HM]. rewrite HF in HM. destruct HM as [_ HW].
  apply NoDup_Permutation; [exact ND|apply seq_NoDup|].
  intros k. rewrite Spec, in_seq. split.
  - intros [_ H]. unfold finb in H. destruct (nth_error (ws s') k) eqn:E; [|discriminate].
    assert (k < length (ws s')) by (apply nth_error_Some; congruence). lia.
  - intros [_ Hk]. split.
    + unfold finb; cbn [ws sched_init]. destruct (nth_error (repeat WIdle t) k) as [x|] eqn:E; [|reflexivity].
      now rewrite (nth_error_repeat_inv _ _ _ _ E).
    + unfold finb. destruct (nth_error (ws s') k) as [x|] eqn:E.
      * now rewrite (HW k x E).
      * apply nth_error_None in E. lia.
Qed.

(* the refinement: the fine-grained execution returns what the coarse scheduler computes for ITS completion order *)
Lemma sched_refines_run_sched_exec sch s' : exec sch init = Some s' -> terminal s' ->
  Permutation (completions sch init) (seq 0 t) /\
  main s' = MRet (run_sched (completions sch init) t v w).
Proof.
  intros HE HT. pose proof (completions_perm sch s' HE HT) as HP. split; [exact HP|].
  rewrite (schedule_independent_lemma _ t v w HP).
  exact (proj2 (sched_deterministic_exec v w t Ht Hl sch s' HE HT)).
Qed.

End Order.
