(* Proofs/JacExactFloatGen.v -- package jacexact (C18, "exact on dyadic data"): the exactness of Mat64::jacobian at binary64 does not
   depend on HOW the closure evaluates the affine map, only on its n + 1 values being held exactly.
   jacobian_exact_float_gen_lemma: ANY closure F (total, m components) such that
        F(x)_i           = N0 i 2^E                      (finite, exactly)
        F(x + d e_j)_i   = (N0 i + Mz i j Dd) 2^E        (finite, exactly, not -0)            delta = Dd 2^eX, Dd > 0,
   with x_k = Xz k 2^eX (not -0), |Xz k| + Dd < 2^53, |Mz i j Dd| < 2^53, and a float matrix M with M_ij = Mz i j 2^(E - eX) (not -0):
   the matrix returned IS M, bit for bit, the calls are made at x, x + d e_0, .., and the state is x again at the end.
   Instances: [aff] (Proofs/JacExactFloat.v proves that one directly), and the evaluation order of the check's own test closures,
        affc M c p  =  row i:  ((c_i + M_i0 p_0) + M_i1 p_1) + ...        (driver/newtonlib.py affine_exprs)
   -- jacobian_affine_cfirst_exact_float_lemma, same bounds, c_i not -0. *)
From Coq Require Import ZArith Reals Floats Lia Lra List Bool Arith.
From Flocq Require Import Core.Core IEEE754.BinarySingleNaN IEEE754.PrimFloat.
From OV Require Import Base.Panic Base.Arith Model.Vector Model.Matrix Model.Newton Inst.FloatInst
  Proofs.Matrix Proofs.Newton Proofs.NewtonJac Proofs.ParDotFloat Proofs.ComplexRound Proofs.Round2Lin
  Proofs.JacExactGen Proofs.JacExactFloat.
Import ListNotations.
Local Open Scope Z_scope.

Section ExactEvals.
Variables (F : list PrimFloat.float -> res (list PrimFloat.float)) (M : matrix AF) (x : list PrimFloat.float) (d : PrimFloat.float).
Variables (Mz : nat -> nat -> Z) (N0 Xz : nat -> Z) (Dd E eX : Z).
Local Notation OF := (NReal AF).

Hypothesis Wf : wf M.
Hypothesis Lx : length x = cols M.
Hypothesis Ftot : forall y, length y = length x -> exists v, F y = Ok v /\ length v = rows M.
Hypothesis HMd : forall i j, (i < rows M)%nat -> (j < cols M)%nat -> Dz (ment OF M i j) (Mz i j) (E - eX).
Hypothesis HXd : forall j, (j < cols M)%nat -> Dz (nth j x 0%float) (Xz j) eX.
Hypothesis Hdd : Dy d Dd eX.
Hypothesis HDpos : 0 < Dd.
Hypothesis HeX : erange eX.
Hypothesis HeE : erange E.
Hypothesis HeM : erange (E - eX).
Hypothesis HbX : forall j, (j < cols M)%nat -> Z.abs (Xz j) + Dd < 2 ^ 53.
Hypothesis HbM : forall i j, (i < rows M)%nat -> (j < cols M)%nat -> Z.abs (Mz i j * Dd) < 2 ^ 53.
Hypothesis HF0 : forall v i, F x = Ok v -> (i < rows M)%nat -> Dy (nth i v 0%float) (N0 i) E.
Hypothesis HFj : forall v i j, (j < cols M)%nat -> F (perturbed OF x d j) = Ok v -> (i < rows M)%nat ->
  Dz (nth i v 0%float) (N0 i + Mz i j * Dd) E.

Lemma gen_restore_exact k : (k < length x)%nat -> restored OF x d k = nth k x (@zero (NA OF)).
Proof.
  intros Hk. rewrite Lx in Hk. unfold restored. cbn [NA NReal add sub AF zero].
  pose proof (HXd k Hk) as DX. pose proof (HbX k Hk) as BX.
  assert (D1 : Dz (nth k x 0 + d)%float (Xz k + Dd) eX) by (apply Dz_add; auto; lia).
  assert (D2 : Dz (nth k x 0 + d - d)%float (Xz k + Dd - Dd) eX) by (apply Dz_sub; auto; lia).
  replace (Xz k + Dd - Dd) with (Xz k) in D2 by lia.
  exact (Dz_unique _ _ _ _ D2 DX).
Qed.

Lemma jacobian_exact_float_gen_lemma :
  jacobian_tr OF F x d = Ok (x, M, x :: map (perturbed OF x d) (seq 0 (length x))).
Proof.
  destruct (jacobian_shape_lemma OF F x d (rows M)) as (J & evs & EJ & WJ & RJ & CJ & _).
  { exact Ftot. }
  { intros a. eexists. reflexivity. }
  pose proof EJ as EJ'. unfold jacobian in EJ'. inv_bind EJ'. destruct x0 as [[st J'] ev]. injection EJ' as -> ->.
  pose proof (jacobian_tr_state OF F x d st J evs E0) as Est.
  assert (Sx : st = x) by (rewrite Est; apply (state_at_exact OF x d); [exact gen_restore_exact|apply le_n]).
  clear Est. subst st.
  destruct (jacobian_gen_exact_restore OF F x d J evs gen_restore_exact EJ) as (Ev & f0 & Ef0 & _ & Rf & _ & Hent).
  rewrite E0. f_equal. f_equal; [|exact Ev]. f_equal.
  apply (nw_mat_ext OF J M WJ Wf RJ (eq_trans CJ Lx)).
  intros i j Hi Hj. assert (Hjl : (j < length x)%nat) by (rewrite Lx; exact Hj).
  assert (Hi' : (i < length f0)%nat) by (rewrite <- Rf, RJ; exact Hi).
  destruct (Hent i j Hi' Hjl) as (fj & q & Ej & _ & Eq & ->). f_equal.
  cbn [NA NReal div sub AF] in Eq. injection Eq as <-.
  pose proof (HF0 f0 i Ef0 Hi) as D0. pose proof (HFj fj i j Hj Ej Hi) as D1. pose proof (HbM i j Hi Hj) as Bd.
  assert (Bq : Z.abs (Mz i j) < 2 ^ 53) by (rewrite Z.abs_mul, (Z.abs_eq Dd) in Bd by lia; pose proof (Z.abs_nonneg (Mz i j)); nia).
  assert (Dd1 : Dz (nth i fj 0 - nth i f0 0)%float (Mz i j * Dd) E).
  { replace (Mz i j * Dd) with (N0 i + Mz i j * Dd - N0 i) by ring.
    apply Dz_sub; [exact D1|exact D0| |exact HeE]. replace (N0 i + Mz i j * Dd - N0 i) with (Mz i j * Dd) by ring. exact Bd. }
  assert (Dq : Dz ((nth i fj 0 - nth i f0 0) / d)%float (Mz i j) (E - eX)) by (apply (Dz_div _ d (Mz i j) Dd E eX); auto).
  exact (Dz_unique _ _ _ _ Dq (HMd i j Hi Hj)).
Qed.

End ExactEvals.

(* ---------------------------------------------------------------- the evaluation order of the check's test closures *)
(* acc + f 0 + f 1 + ... + f (n-1), left to right *)
Fixpoint sum_from {A : Arith} (acc : A) (n : nat) (f : nat -> A) : A :=
  match n with O => acc | S n' => add (sum_from acc n' f) (f n') end.

(* row i:  ((c_i + M_i0 p_0) + M_i1 p_1) + ...  *)
Definition affc (O : NOps) (M : matrix (NA O)) (c p : list (NA O)) : list (NA O) :=
  map (fun i => sum_from (nth i c zero) (cols M) (fun k => mul (ment O M i k) (nth k p zero))) (seq 0 (rows M)).

Lemma affc_length O M c p : length (affc O M c p) = rows M.
Proof. unfold affc. now rewrite map_length, seq_length. Qed.

Lemma affc_nth O M c p i : (i < rows M)%nat ->
  nth i (affc O M c p) zero = sum_from (nth i c zero) (cols M) (fun k => mul (ment O M i k) (nth k p zero)).
Proof.
  intros Hi. unfold affc.
  set (g := fun i => sum_from (nth i c zero) (cols M) (fun k => mul (ment O M i k) (nth k p zero))).
  rewrite (nth_indep _ zero (g 0%nat)) by (rewrite map_length, seq_length; exact Hi).
  rewrite (map_nth g (seq 0 (rows M)) 0%nat i). now rewrite seq_nth by exact Hi.
Qed.

Lemma row_sum_from_Dz (a p : nat -> PrimFloat.float) (Az Pz W : nat -> Z) (acc : PrimFloat.float) (A0 eM eX : Z) (n : nat) :
  Dz acc A0 (eM + eX) ->
  (forall k, (k < n)%nat -> Dy (a k) (Az k) eM) -> (forall k, (k < n)%nat -> Dy (p k) (Pz k) eX) ->
  (forall k, (k < n)%nat -> Z.abs (Az k * Pz k) <= W k) -> Z.abs A0 + zsumn n W < 2 ^ 53 -> erange (eM + eX) ->
  Dz (sum_from (A := AF) acc n (fun k => (a k * p k)%float)) (A0 + zsumn n (fun k => Az k * Pz k)) (eM + eX).
Proof.
  intros Hacc Ha Hp HW Hb HE. induction n as [|n IH]; cbn [sum_from zsumn].
  - now rewrite Z.add_0_r.
  - pose proof (HW n ltac:(lia)) as Wn. pose proof (Z.abs_nonneg (Az n * Pz n)) as A0'.
    assert (W0 : forall k, (k < n)%nat -> 0 <= W k).
    { intros k Hk. pose proof (HW k ltac:(lia)). pose proof (Z.abs_nonneg (Az k * Pz k)). lia. }
    pose proof (zsumn_nonneg n W W0) as S0. cbn [zsumn] in Hb.
    pose proof (zsumn_abs_le n (fun k => Az k * Pz k) W (fun k Hk => HW k (Nat.lt_lt_succ_r _ _ Hk))) as AS. cbv beta in AS.
    change (@add AF) with PrimFloat.add. rewrite Z.add_assoc.
    apply Dz_add; [apply IH; auto; lia| |lia|exact HE].
    apply Dy_mul; [apply Ha; lia|apply Hp; lia|lia|exact HE].
Qed.

Section AffCFirst.
Variables (M : matrix AF) (c x : list PrimFloat.float) (d : PrimFloat.float).
Variables (Mz : nat -> nat -> Z) (Cz Xz : nat -> Z) (Dd eM eX : Z).
Local Notation OF := (NReal AF).

Hypothesis Wf : wf M.
Hypothesis Lx : length x = cols M.
Hypothesis HMd : forall i j, (i < rows M)%nat -> (j < cols M)%nat -> Dz (ment OF M i j) (Mz i j) eM.
Hypothesis HXd : forall j, (j < cols M)%nat -> Dz (nth j x 0%float) (Xz j) eX.
Hypothesis HCd : forall i, (i < rows M)%nat -> Dz (nth i c 0%float) (Cz i) (eM + eX).
Hypothesis Hdd : Dy d Dd eX.
Hypothesis HDpos : 0 < Dd.
Hypothesis HeX : erange eX.
Hypothesis HeM : erange eM.
Hypothesis HeE : erange (eM + eX).
Hypothesis HbX : forall j, (j < cols M)%nat -> Z.abs (Xz j) + Dd < 2 ^ 53.
Hypothesis Hrow : forall i, (i < rows M)%nat ->
  zsumn (cols M) (fun k => Z.abs (Mz i k) * (Z.abs (Xz k) + Dd)) + Z.abs (Cz i) < 2 ^ 53.

Lemma affc_comp_Dz (p : list PrimFloat.float) (Pz : nat -> Z) i :
  (forall k, (k < cols M)%nat -> Dy (nth k p 0%float) (Pz k) eX) ->
  (forall k, (k < cols M)%nat -> Z.abs (Pz k) <= Z.abs (Xz k) + Dd) -> (i < rows M)%nat ->
  Dz (nth i (affc OF M c p) 0%float) (Cz i + zsumn (cols M) (fun k => Mz i k * Pz k)) (eM + eX).
Proof.
  intros HP HB Hi. change 0%float with (@zero (NA OF)). rewrite affc_nth by exact Hi.
  pose proof (Hrow i Hi) as Hr.
  set (Wk := fun k => Z.abs (Mz i k) * (Z.abs (Xz k) + Dd)) in *.
  assert (HW : forall k, (k < cols M)%nat -> Z.abs (Mz i k * Pz k) <= Wk k).
  { intros k Hk. unfold Wk. rewrite Z.abs_mul. specialize (HB k Hk). pose proof (Z.abs_nonneg (Mz i k)). nia. }
  cbn [NA NReal mul AF zero].
  apply (row_sum_from_Dz (fun k => ment OF M i k) (fun k => nth k p 0%float) (Mz i) Pz Wk _ (Cz i) eM eX (cols M)); auto; [|lia].
  intros k Hk. apply Dz_Dy, HMd; auto.
Qed.

Lemma jacobian_affine_cfirst_exact_float_lemma :
  jacobian_tr OF (fun p => Ok (affc OF M c p)) x d = Ok (x, M, x :: map (perturbed OF x d) (seq 0 (length x))).
Proof.
  apply (jacobian_exact_float_gen_lemma (fun p => Ok (affc OF M c p)) M x d Mz
           (fun i => Cz i + zsumn (cols M) (fun k => Mz i k * Xz k)) Xz Dd (eM + eX) eX Wf Lx).
  - intros y _. eexists. split; [reflexivity|exact (affc_length OF M c y)].
  - intros i j Hi Hj. replace (eM + eX - eX) with eM by lia. now apply HMd.
  - exact HXd.
  - exact Hdd.
  - exact HDpos.
  - exact HeX.
  - exact HeE.
  - replace (eM + eX - eX) with eM by lia. exact HeM.
  - exact HbX.
  - intros i j Hi Hj. pose proof (Hrow i Hi) as Hr.
    assert (W0 : forall k, (k < cols M)%nat -> 0 <= Z.abs (Mz i k) * (Z.abs (Xz k) + Dd)).
    { intros k Hk. pose proof (Z.abs_nonneg (Mz i k)). pose proof (Z.abs_nonneg (Xz k)). nia. }
    pose proof (zsumn_term (cols M) _ j W0 Hj) as Tj. cbv beta in Tj.
    pose proof (Z.abs_nonneg (Mz i j)). pose proof (Z.abs_nonneg (Xz j)). pose proof (Z.abs_nonneg (Cz i)).
    rewrite Z.abs_mul, (Z.abs_eq Dd) by lia. nia.
  - intros v i Ev Hi. injection Ev as <-. apply Dz_Dy.
    apply (affc_comp_Dz x Xz i); auto; [intros k Hk; apply Dz_Dy, HXd; exact Hk|intros; lia].
  - intros v i j Hj Ev Hi. injection Ev as <-.
    assert (Hjl : (j < length x)%nat) by (rewrite Lx; exact Hj).
    pose proof (affc_comp_Dz (perturbed OF x d j) (fun k => if (k =? j)%nat then Xz k + Dd else Xz k) i) as D1.
    cbv beta in D1. rewrite (zsumn_pert (cols M) (Mz i) Xz j Dd) in D1. destruct (Nat.ltb_spec j (cols M)) as [_|]; [|lia].
    rewrite Z.add_assoc in D1. apply D1; [| |exact Hi].
    + intros k Hk. unfold perturbed. rewrite nth_upd_list by exact Hjl.
      destruct (Nat.eqb_spec k j) as [->|_]; [|apply Dz_Dy, HXd; exact Hk].
      cbn [NA NReal add AF zero]. pose proof (HbX j Hj). apply Dy_add; auto; [apply Dz_Dy, HXd; exact Hj|lia].
    + intros k Hk. destruct (k =? j)%nat; lia.
Qed.

End AffCFirst.

(* the run of the check's affine closure (c first) on the data of Proofs/JacExactFloat.v: the same matrix, the same call points *)
Example exj_value_cfirst :
  jacobian (NReal AF) (fun p => Ok (affc (NReal AF) exj_M exj_c p)) exj_x exj_d = Ok (exj_M, exj_evs).
Proof. vm_compute. reflexivity. Qed.

(* ---------------------------------------------------------------- the statements with elementary hypotheses *)
Local Open Scope R_scope.
Lemma jacobian_exact_float_gen_thm (F : list PrimFloat.float -> res (list PrimFloat.float)) (M : matrix AF)
    (x : list PrimFloat.float) (d : PrimFloat.float) (Mz : nat -> nat -> Z) (N0 Xz : nat -> Z) (Dd E eX : Z) :
  wf M -> length x = cols M ->
  (forall y, length y = length x -> exists v, F y = Ok v /\ length v = rows M) ->
  (forall i j, (i < rows M)%nat -> (j < cols M)%nat ->
     ffinite (ment (NReal AF) M i j) /\ FR (ment (NReal AF) M i j) = IZR (Mz i j) * bpow radix2 (E - eX) /\
     ment (NReal AF) M i j <> (-0)%float) ->
  (forall j, (j < cols M)%nat ->
     ffinite (nth j x 0%float) /\ FR (nth j x 0%float) = IZR (Xz j) * bpow radix2 eX /\ nth j x 0%float <> (-0)%float) ->
  ffinite d -> FR d = IZR Dd * bpow radix2 eX -> (0 < Dd)%Z ->
  (-1074 <= eX <= 971)%Z -> (-1074 <= E <= 971)%Z -> (-1074 <= E - eX <= 971)%Z ->
  (forall j, (j < cols M)%nat -> (Z.abs (Xz j) + Dd < 2 ^ 53)%Z) ->
  (forall i j, (i < rows M)%nat -> (j < cols M)%nat -> (Z.abs (Mz i j * Dd) < 2 ^ 53)%Z) ->
  (forall v i, F x = Ok v -> (i < rows M)%nat ->
     ffinite (nth i v 0%float) /\ FR (nth i v 0%float) = IZR (N0 i) * bpow radix2 E) ->
  (forall v i j, (j < cols M)%nat -> F (perturbed (NReal AF) x d j) = Ok v -> (i < rows M)%nat ->
     ffinite (nth i v 0%float) /\ FR (nth i v 0%float) = IZR (N0 i + Mz i j * Dd) * bpow radix2 E /\
     nth i v 0%float <> (-0)%float) ->
  jacobian_tr (NReal AF) F x d = Ok (x, M, x :: map (perturbed (NReal AF) x d) (seq 0 (length x))) /\
  jacobian (NReal AF) F x d = Ok (M, x :: map (perturbed (NReal AF) x d) (seq 0 (length x))).
Proof.
  intros Wf Lx Ft HM HX Fd Rd HD HeX HeE HeM HbX HbM H0 Hj.
  assert (Ej : jacobian_tr (NReal AF) F x d = Ok (x, M, x :: map (perturbed (NReal AF) x d) (seq 0 (length x)))).
  { apply (jacobian_exact_float_gen_lemma F M x d Mz N0 Xz Dd E eX Wf Lx Ft).
    - intros i j Hi Hjj. destruct (HM i j Hi Hjj) as (F1 & R1 & N1). split; [split; assumption|now apply NNZ_neg0].
    - intros j Hjj. destruct (HX j Hjj) as (F1 & R1 & N1). split; [split; assumption|now apply NNZ_neg0].
    - split; assumption.
    - exact HD.
    - exact HeX.
    - exact HeE.
    - exact HeM.
    - exact HbX.
    - exact HbM.
    - intros v i Ev Hi. destruct (H0 v i Ev Hi) as (F1 & R1). split; assumption.
    - intros v i j Hjj Ev Hi. destruct (Hj v i j Hjj Ev Hi) as (F1 & R1 & N1). split; [split; assumption|now apply NNZ_neg0]. }
  split; [exact Ej|]. unfold jacobian. rewrite Ej. reflexivity.
Qed.

Lemma jacobian_affine_cfirst_exact_float_thm (M : matrix AF) (c x : list PrimFloat.float) (d : PrimFloat.float)
    (Mz : nat -> nat -> Z) (Cz Xz : nat -> Z) (Dd eM eX : Z) :
  wf M -> length x = cols M ->
  (forall i j, (i < rows M)%nat -> (j < cols M)%nat ->
     ffinite (ment (NReal AF) M i j) /\ FR (ment (NReal AF) M i j) = IZR (Mz i j) * bpow radix2 eM /\
     ment (NReal AF) M i j <> (-0)%float) ->
  (forall j, (j < cols M)%nat ->
     ffinite (nth j x 0%float) /\ FR (nth j x 0%float) = IZR (Xz j) * bpow radix2 eX /\ nth j x 0%float <> (-0)%float) ->
  (forall i, (i < rows M)%nat ->
     ffinite (nth i c 0%float) /\ FR (nth i c 0%float) = IZR (Cz i) * bpow radix2 (eM + eX) /\ nth i c 0%float <> (-0)%float) ->
  ffinite d -> FR d = IZR Dd * bpow radix2 eX -> (0 < Dd)%Z ->
  (-1074 <= eX <= 971)%Z -> (-1074 <= eM <= 971)%Z -> (-1074 <= eM + eX <= 971)%Z ->
  (forall j, (j < cols M)%nat -> (Z.abs (Xz j) + Dd < 2 ^ 53)%Z) ->
  (forall i, (i < rows M)%nat ->
     (zsumn (cols M) (fun k => Z.abs (Mz i k) * (Z.abs (Xz k) + Dd)) + Z.abs (Cz i) < 2 ^ 53)%Z) ->
  jacobian_tr (NReal AF) (fun p => Ok (affc (NReal AF) M c p)) x d =
    Ok (x, M, x :: map (perturbed (NReal AF) x d) (seq 0 (length x))) /\
  jacobian (NReal AF) (fun p => Ok (affc (NReal AF) M c p)) x d =
    Ok (M, x :: map (perturbed (NReal AF) x d) (seq 0 (length x))).
Proof.
  intros Wf Lx HM HX HC Fd Rd HD HeX HeM HeE HbX Hrow.
  assert (Ej : jacobian_tr (NReal AF) (fun p => Ok (affc (NReal AF) M c p)) x d =
               Ok (x, M, x :: map (perturbed (NReal AF) x d) (seq 0 (length x)))).
  { apply (jacobian_affine_cfirst_exact_float_lemma M c x d Mz Cz Xz Dd eM eX Wf Lx).
    - intros i j Hi Hj. destruct (HM i j Hi Hj) as (F1 & R1 & N1). split; [split; assumption|now apply NNZ_neg0].
    - intros j Hj. destruct (HX j Hj) as (F1 & R1 & N1). split; [split; assumption|now apply NNZ_neg0].
    - intros i Hi. destruct (HC i Hi) as (F1 & R1 & N1). split; [split; assumption|now apply NNZ_neg0].
    - split; assumption.
    - exact HD.
    - exact HeX.
    - exact HeM.
    - exact HeE.
    - exact HbX.
    - exact Hrow. }
  split; [exact Ej|]. unfold jacobian. rewrite Ej. reflexivity.
Qed.
Local Close Scope R_scope.

Lemma exj_c_nz i : (i < 2)%nat -> nth i exj_c 0%float <> (-0)%float.
Proof. intros Hi. do 2 (destruct i as [|i]; [cbn; neg0w|]). lia. Qed.
