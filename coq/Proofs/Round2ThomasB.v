(* Proofs/Round2ThomasB.v -- package round2, C05: Thomas solve at binary64 WITH gradual underflow in the
   right-hand-side part of the computation.  Round2Thomas.v excludes every subnormal product/quotient by hypothesis.
   Here only the matrix part (pivots, multipliers) must be free of underflow -- which data bounds guarantee for
   diagonally dominant systems -- while the products  sub * y,  gamma * x  and the quotients  num / beta  may
   underflow: IEEE rounding then obeys  fl(v) = v (1 + d) + e,  |d| <= 2^-53, |e| <= 2^-1075  (Flocq error_N_FLT),
   and the computed x solves a nearby system exactly up to an ABSOLUTE residual of a few 2^-1075 per row:
        a_i (1+ea) x_(i-1) + ( b_i (1+eb) + a_i gamma_i eg ) x_i + c_i (1+ec) x_(i+1) = r_i + dr_i
        |dr_i| <= 2^-1075 (1 + 2 |a_i| + 3 |beta_i|).
     thomas_backward_error_float_uf_lemma   : any matrix; finite answer, finite pivots, matrix part free of underflow
     thomas_dominant_float_uf_partial_lemma : dominant + scaled matrices (Round2Thomas.v): a finite answer is backward stable
                                              up to |dr_i| <= 2^-1075 (1 + 11 |b_i|).  PARTIAL: finiteness of the answer is assumed.
     thomas_dominant_float_lemma            : HYPOTHESES ON THE DATA ONLY, every n: entries finite, 2^-300 <= |b_i| <= 2^300,
                                              off-diagonals zero or >= 2^-300, |r_i| <= 2^300, 2(|a_i| + |c_i|) <= |b_i|.  Then solve
                                              answers, every x_i is finite and x is backward stable up to 2^-1075 (1 + 11|b_i|).
                                              Overflow is excluded by induction along the two sweeps in the floats:
                                              |gamma_k| <= 0.51, |beta_k| >= 0.7 |b_k|, |y_k| <= 2^603, |x_k| <= 2^605. *)
From Coq Require Import ZArith Reals Lra Lia List Floats Bool Arith Psatz.
From Flocq Require Import Core BinarySingleNaN PrimFloat Relative Plus_error.
From OV Require Import Base.Panic Base.Arith Base.RoundModel Model.Vector Model.Matrix Model.Tridiag Inst.FloatInst
  Proofs.Tridiag Proofs.TridiagTrace Proofs.TridiagTotal Proofs.TridiagRound Proofs.ComplexRound Proofs.RoundDotFloat
  Proofs.RoundTriFloat Proofs.Round2Thomas.
Import ListNotations.
Local Open Scope R_scope.

Definition eta64 : R := / 2 * bpow radix2 (-1074).

Lemma eta64_pos : 0 < eta64.
Proof. unfold eta64. pose proof (bpow_gt_0 radix2 (-1074)). lra. Qed.

(* IEEE rounding of any real: relative error 2^-53 plus absolute error 2^-1075 *)
Lemma rnd64_err_ex x : exists d e, Rabs d <= u64 /\ Rabs e <= eta64 /\ rnd64 x = x * (1 + d) + e.
Proof.
  destruct (error_N_FLT radix2 (-1074) 53 eq_refl (fun z => negb (Z.even z)) x) as (d & e & Hd & He & _ & E).
  exists d, e. split; [exact Hd|]. split; [exact He|exact E].
Qed.

Lemma abs0_u : Rabs 0 <= u64.
Proof. rewrite Rabs_R0. apply u64_range. Qed.
Lemma abs0_eta : Rabs 0 <= eta64.
Proof. rewrite Rabs_R0. pose proof eta64_pos. lra. Qed.

(* ---------------------------------------------------------------- float operations, backwards from a finite result, with error terms *)
Lemma fsub_rel_inv (a b : pfloat) : ffinite (a - b)%float ->
  ffinite a /\ ffinite b /\ exists d, Rabs d <= u64 /\ FR (a - b)%float = (FR a - FR b) * (1 + d).
Proof.
  intros F. destruct (fsub_finite_inv _ _ F) as (Fa & Fb & E). split; [exact Fa|]. split; [exact Fb|].
  destruct (rnd64_plus_ex (FR a) (- FR b)) as (d & Hd & Ed); [apply FR_fmt|apply generic_format_opp, FR_fmt|].
  exists d. split; [exact Hd|]. rewrite E. exact Ed.
Qed.

Lemma fmul_err_inv (a b : pfloat) : ffinite (a * b)%float ->
  ffinite a /\ ffinite b /\ exists d e, Rabs d <= u64 /\ Rabs e <= eta64 /\ FR (a * b)%float = FR a * FR b * (1 + d) + e.
Proof.
  intros F. destruct (fmul_finite_inv _ _ F) as (Fa & Fb & E). split; [exact Fa|]. split; [exact Fb|].
  destruct (rnd64_err_ex (FR a * FR b)) as (d & e & Hd & He & Ed). exists d, e. rewrite E. auto.
Qed.

Lemma fdiv_err_inv (a b : pfloat) : ffinite (a / b)%float -> FR b <> 0 ->
  ffinite a /\ exists d e, Rabs d <= u64 /\ Rabs e <= eta64 /\ FR (a / b)%float = FR a / FR b * (1 + d) + e.
Proof.
  intros F N. destruct (fdiv_finite_inv _ _ F N) as (Fa & E). split; [exact Fa|].
  destruct (rnd64_err_ex (FR a / FR b)) as (d & e & Hd & He & Ed). exists d, e. rewrite E. auto.
Qed.

Lemma fsubmul_err_inv (a b c : pfloat) : ffinite (a - b * c)%float ->
  ffinite a /\ ffinite b /\ ffinite c /\
  exists dm ds em, Rabs dm <= u64 /\ Rabs ds <= u64 /\ Rabs em <= eta64 /\
    FR (a - b * c)%float = (FR a - (FR b * FR c * (1 + dm) + em)) * (1 + ds).
Proof.
  intros F. destruct (fsub_rel_inv _ _ F) as (Fa & Fp & ds & Hs & Es).
  destruct (fmul_err_inv _ _ Fp) as (Fb & Fc & dm & em & Hm & He & Em).
  repeat (split; [assumption|]). exists dm, ds, em. repeat (split; [assumption|]). rewrite Es, Em. reflexivity.
Qed.

(* no underflow: the relative forms *)
Lemma fdiv_rel_inv (a b : pfloat) : ffinite (a / b)%float -> FR b <> 0 -> no_underflow (FR a / FR b) ->
  ffinite a /\ exists d, Rabs d <= u64 /\ FR (a / b)%float = FR a / FR b * (1 + d).
Proof.
  intros F N U. destruct (fdiv_finite_inv _ _ F N) as (Fa & E). split; [exact Fa|].
  destruct (rnd64_rel_ex _ U) as (d & Hd & Ed). exists d. rewrite E. auto.
Qed.

Lemma fsubmul_rel_inv (a b c : pfloat) : ffinite (a - b * c)%float -> no_underflow (FR b * FR c) ->
  exists dm ds, Rabs dm <= u64 /\ Rabs ds <= u64 /\ FR (a - b * c)%float = (FR a - FR b * FR c * (1 + dm)) * (1 + ds).
Proof.
  intros F U. destruct (fsub_rel_inv _ _ F) as (Fa & Fp & ds & Hs & Es).
  destruct (fmul_finite_inv _ _ Fp) as (_ & _ & Em). destruct (rnd64_rel_ex _ U) as (dm & Hm & Edm).
  exists dm, ds. repeat (split; [assumption|]). rewrite Es, Em, Edm. reflexivity.
Qed.

(* ---------------------------------------------------------------- the row identity with absolute error terms *)
Lemma row_identity_uf (a b c r' beta gam gamn y yprev x xprev xn d1 d2 d3 d4 d5 d6 d7 d8 d7' d8' e4 e6 e7 e7' : R) :
  beta <> 0 -> 1 + d5 <> 0 -> 1 + d6 <> 0 -> 1 + d8 <> 0 -> 1 + d8' <> 0 ->
  xprev = (yprev - (gam * x * (1 + d7') + e7')) * (1 + d8') ->
  x = (y - (gamn * xn * (1 + d7) + e7)) * (1 + d8) ->
  y = (r' - (a * yprev * (1 + d4) + e4)) * (1 + d5) / beta * (1 + d6) + e6 ->
  beta = (b - a * gam * (1 + d2)) * (1 + d3) ->
  gamn = c / beta * (1 + d1) ->
  a * (1 + Ea d4 d8') * xprev + (b * (1 + Eb d3 d5 d6 d8) + a * gam * Eg d4 d7' d2 d3 d5 d6 d8) * x
    + c * (1 + Ec d1 d7 d5 d6) * xn
  = r' + (- e4 - a * e7' * (1 + d4) + (e6 - e7) * beta / ((1 + d5) * (1 + d6))).
Proof.
  intros Hb H5 H6 H8 H8' R1 R2 R3 R4 R5.
  apply (row_identity a b c (r' + (- e4 - a * e7' * (1 + d4) + (e6 - e7) * beta / ((1 + d5) * (1 + d6))))
           beta gam gamn (y - e7) (yprev - e7') x xprev xn d1 d2 d3 d4 d5 d6 d7 d8 d7' d8'); auto.
  - rewrite R1. ring.
  - rewrite R2. ring.
  - rewrite R3. field. repeat split; assumption.
Qed.

Lemma dr_bound (a beta d4 d5 d6 e4 e6 e7 e7' : R) :
  Rabs d4 <= u64 -> Rabs d5 <= u64 -> Rabs d6 <= u64 ->
  Rabs e4 <= eta64 -> Rabs e6 <= eta64 -> Rabs e7 <= eta64 -> Rabs e7' <= eta64 ->
  Rabs (- e4 - a * e7' * (1 + d4) + (e6 - e7) * beta / ((1 + d5) * (1 + d6)))
  <= eta64 * (1 + 2 * Rabs a + 3 * Rabs beta).
Proof.
  intros H4 H5 H6 G4 G6 G7 G7'. pose proof u64_range64 as Hu. pose proof eta64_pos as He.
  pose proof (pm1 u64 Hu d4 H4) as P4. pose proof (pm1 u64 Hu d5 H5) as P5. pose proof (pm1 u64 Hu d6 H6) as P6.
  assert (Q : 0 < (1 + d5) * (1 + d6)) by nra.
  assert (Qi : / ((1 + d5) * (1 + d6)) <= 3 / 2).
  { apply (Rmult_le_reg_r ((1 + d5) * (1 + d6))); [exact Q|]. rewrite Rinv_l by lra. nra. }
  assert (Qp : 0 < / ((1 + d5) * (1 + d6))) by now apply Rinv_0_lt_compat.
  assert (T1 : Rabs (a * e7' * (1 + d4)) <= 2 * Rabs a * eta64).
  { rewrite !Rabs_mult. rewrite (Rabs_pos_eq (1 + d4)) by lra. pose proof (Rabs_pos a). pose proof (Rabs_pos e7').
    assert (Rabs e7' * (1 + d4) <= eta64 * 2) by (apply Rmult_le_compat; lra). nra. }
  assert (T2 : Rabs ((e6 - e7) * beta / ((1 + d5) * (1 + d6))) <= 3 * Rabs beta * eta64).
  { unfold Rdiv. rewrite !Rabs_mult. rewrite (Rabs_pos_eq (/ _)) by lra.
    assert (Rabs (e6 - e7) <= 2 * eta64).
    { eapply Rle_trans; [apply Rabs_triang|]. rewrite Rabs_Ropp. lra. }
    pose proof (Rabs_pos beta). pose proof (Rabs_pos (e6 - e7)).
    assert (Rabs (e6 - e7) * Rabs beta <= 2 * eta64 * Rabs beta) by nra.
    assert (Rabs (e6 - e7) * Rabs beta * / ((1 + d5) * (1 + d6)) <= 2 * eta64 * Rabs beta * (3 / 2)).
    { apply Rmult_le_compat; try lra. nra. }
    lra. }
  eapply Rle_trans; [apply Rabs_triang|]. eapply Rle_trans; [apply Rplus_le_compat_r, Rabs_triang|].
  rewrite !Rabs_Ropp. lra.
Qed.

Notation fnth k l := (@nth PrimFloat.float k l 0%float) (only parsing).
Ltac fl := change (T AF) with PrimFloat.float in *.

(* ---------------------------------------------------------------- what a finite answer and finite pivots imply *)
Lemma thomas_float_finite_trace (t : tridiag AF) (r x : list pfloat) :
  wfT t -> (1 <= tn t)%nat -> length r = tn t -> tsolve (A := AF) t r = Ok x ->
  (forall i, (i < tn t)%nat -> ffinite (nth i x 0%float)) ->
  (forall k, (k < tn t)%nat -> ffinite (tbeta t k)) ->
  length x = tn t /\
  (forall k, (k < tn t)%nat -> ffinite (ty t r k) /\ FR (tbeta t k) <> 0) /\
  (forall k, (k + 1 < tn t)%nat -> ffinite (tgamma t (k + 1))) /\
  nth (tn t - 1) x 0%float = ty t r (tn t - 1) /\
  (forall i, (i + 1 < tn t)%nat -> nth i x 0%float = (ty t r i - tgamma t (i + 1) * nth (i + 1) x 0)%float).
Proof.
  intros W Hn Hr E Fx Fb.
  destruct (thomas_trace_lemma (A := AF) t r W Hn Hr x E) as (bl & gl & yl & Lx & Lb & Lg & Ly & Rel & Vlast & Vback).
  change (T AF) with PrimFloat.float in *. change (@zero AF) with 0%float in *.
  pose proof (fwd_rel_det t r (tn t) bl gl yl Rel) as Det.
  split; [exact Lx|].
  assert (Vb : forall i, (i + 1 < tn t)%nat ->
            nth i x 0%float = (ty t r i - tgamma t (i + 1) * nth (i + 1) x 0)%float).
  { intros i Hi. destruct (Det i ltac:(lia)) as (_ & Y & _). destruct (Det (i + 1)%nat Hi) as (_ & _ & G).
    rewrite <- Y, <- (G ltac:(lia)). exact (Vback i Hi). }
  assert (Vl : nth (tn t - 1) x 0%float = ty t r (tn t - 1)).
  { destruct (Det (tn t - 1)%nat ltac:(lia)) as (_ & Y & _). now rewrite <- Y. }
  split; [|split; [|split; [exact Vl|exact Vb]]].
  - intros k Hk. split.
    + destruct (Nat.eq_dec k (tn t - 1)) as [->|Ne]; [rewrite <- Vl; apply Fx; lia|].
      pose proof (Fx k Hk) as F. rewrite (Vb k ltac:(lia)) in F. now destruct (fsub_finite_inv _ _ F) as (F1 & _).
    + apply FR_nz; [now apply Fb|]. rewrite <- (proj1 (Det k Hk)).
      destruct Rel as (_ & Z0 & _ & RelS). destruct k as [|k]; [exact Z0|].
      now destruct (RelS (S k) ltac:(lia)) as (_ & _ & Z & _).
  - intros k Hk. pose proof (Fx k ltac:(lia)) as F. rewrite (Vb k Hk) in F.
    destruct (fsub_finite_inv _ _ F) as (_ & F2 & _). now destruct (fmul_finite_inv _ _ F2) as (F3 & _).
Qed.

(* ---------------------------------------------------------------- Theorem 1u: backward error with gradual underflow in the right-hand-side part *)
Theorem thomas_backward_error_float_uf_lemma (t : tridiag AF) (r x : list pfloat) :
  wfT t -> (1 <= tn t)%nat -> length r = tn t -> tsolve (A := AF) t r = Ok x ->
  (forall i, (i < tn t)%nat -> ffinite (nth i x 0%float)) ->
  (forall k, (k < tn t)%nat -> ffinite (tbeta t k)) ->
  thomas_nounder_matrix t ->
  length x = tn t /\
  forall i, (i < tn t)%nat -> exists ea eb ec eg dr,
    Rabs ea <= 3 * u64 /\ Rabs eb <= 5 * u64 /\ Rabs ec <= 5 * u64 /\ Rabs eg <= 9 * u64 /\
    Rabs dr <= eta64 * (1 + 2 * Rabs (FR (nth i (0%float :: tsub t) 0%float)) + 3 * Rabs (FR (tbeta t i))) /\
    FR (nth i (0%float :: tsub t) 0%float) * (1 + ea) * FR (nth i (0%float :: x) 0%float)
    + (FR (nth i (tmain t) 0%float) * (1 + eb)
       + FR (nth i (0%float :: tsub t) 0%float) * FR (tgamma t i) * eg) * FR (nth i x 0%float)
    + FR (nth i (tsup t) 0%float) * (1 + ec) * FR (nth (i + 1) x 0%float) = FR (nth i r 0%float) + dr.
Proof.
  intros W Hn Hr E Fx Fb UM.
  destruct (thomas_float_finite_trace t r x W Hn Hr E Fx Fb) as (Lx & Fy & Fg & Vl & Vb).
  split; [exact Lx|]. pose proof W as (Hm & Hs & Hp). pose proof u64_range64 as Hu.
  (* the right-hand part of a row *)
  assert (Right : forall i, (i < tn t)%nat ->
            exists gamn d1 d7 d8 e7, Rabs d1 <= u64 /\ Rabs d7 <= u64 /\ Rabs d8 <= u64 /\ Rabs e7 <= eta64 /\
              FR (nth i x 0%float) = (FR (ty t r i) - (gamn * FR (nth (i + 1) x 0%float) * (1 + d7) + e7)) * (1 + d8) /\
              gamn = FR (nth i (tsup t) 0%float) / FR (tbeta t i) * (1 + d1)).
  { intros i Hi. destruct (Nat.lt_ge_cases (i + 1) (tn t)) as [L|L].
    - pose proof (Fx i Hi) as F. rewrite (Vb i L) in F.
      destruct (fsubmul_err_inv _ _ _ F) as (_ & _ & _ & d7 & d8 & e7 & H7 & H8 & G7 & Ex).
      destruct (UM i L) as (U1 & _). pose proof (Fg i L) as Fgi.
      replace (i + 1)%nat with (S i) in Fgi, Ex by lia. cbn [tgamma] in Fgi.
      destruct (fdiv_rel_inv _ _ Fgi (proj2 (Fy i Hi)) U1) as (_ & d1 & H1 & Eg).
      exists (FR (tgamma t (S i))), d1, d7, d8, e7. repeat (split; [assumption|]).
      replace (i + 1)%nat with (S i) by lia. split; [rewrite (Vb i L); replace (i + 1)%nat with (S i) by lia; exact Ex|exact Eg].
    - assert (i = tn t - 1)%nat as -> by lia.
      exists 0, 0, 0, 0, 0. repeat (split; [apply abs0_u || apply abs0_eta|]).
      split; [rewrite Vl; ring|]. rewrite (nth_overflow (tsup t)) by (fl; lia). rewrite FR_0. unfold Rdiv. ring. }
  intros i Hi. destruct (Right i Hi) as (gamn & d1 & d7 & d8 & e7 & H1 & H7 & H8 & G7 & R2 & R5).
  destruct (Fy i Hi) as (Fyi & Nb).
  destruct i as [|k].
  - (* first row *)
    cbn [nth]. rewrite FR_0. rewrite ty_eq in Fyi. cbn [tnum] in Fyi.
    destruct (fdiv_err_inv _ _ Fyi Nb) as (_ & d6 & e6 & H6 & G6 & Ey).
    exists (Ea 0 0), (Eb 0 0 d6 d8), (Ec d1 d7 0 d6), (Eg 0 0 0 0 0 d6 d8),
           (- 0 - 0 * 0 * (1 + 0) + (e6 - e7) * FR (tbeta t 0) / ((1 + 0) * (1 + d6))).
    split; [apply (Ea_bound u64 Hu); auto using abs0_u|]. split; [apply (Eb_bound u64 Hu); auto using abs0_u|].
    split; [apply (Ec_bound u64 Hu); auto using abs0_u|]. split; [apply (Eg_bound u64 Hu); auto using abs0_u|].
    split.
    { eapply Rle_trans; [apply dr_bound; auto using abs0_u, abs0_eta|]. rewrite Rabs_R0. lra. }
    rewrite <- (row_identity_uf 0 (FR (fnth 0 (tmain t))) (FR (fnth 0 (tsup t))) (FR (fnth 0 r)) (FR (tbeta t 0)) 0 gamn
                  (FR (ty t r 0)) 0 (FR (fnth 0 x)) 0 (FR (fnth (0 + 1) x)) d1 0 0 0 0 d6 d7 d8 0 0 0 e6 e7 0 Nb).
    + fl. ring.
    + lra.
    + now apply (one_plus_nz u64 Hu).
    + now apply (one_plus_nz u64 Hu).
    + lra.
    + ring.
    + exact R2.
    + rewrite ty_eq. cbn [tnum]. rewrite Ey. field. exact Nb.
    + change (tbeta t 0) with (fnth 0 (tmain t)). ring.
    + exact R5.
  - (* a row with a left neighbour *)
    cbn [nth]. rewrite ty_eq in Fyi.
    destruct (fdiv_err_inv _ _ Fyi Nb) as (Fnum & d6 & e6 & H6 & G6 & Ey). cbn [tnum] in Fnum.
    destruct (fsubmul_err_inv _ _ _ Fnum) as (_ & _ & _ & d4 & d5 & e4 & H4 & H5 & G4 & En).
    pose proof (Fb (S k) Hi) as Fbk. rewrite tbeta_S in Fbk.
    destruct (UM k ltac:(lia)) as (_ & U2). replace (k + 1)%nat with (S k) in U2 by lia.
    destruct (fsubmul_rel_inv _ _ _ Fbk U2) as (d2 & d3 & H2 & H3 & Eb').
    pose proof (Fx k ltac:(lia)) as Fxk. rewrite (Vb k ltac:(lia)) in Fxk. replace (k + 1)%nat with (S k) in Fxk by lia.
    destruct (fsubmul_err_inv _ _ _ Fxk) as (_ & _ & _ & d7' & d8' & e7' & H7' & H8' & G7' & Exk).
    exists (Ea d4 d8'), (Eb d3 d5 d6 d8), (Ec d1 d7 d5 d6), (Eg d4 d7' d2 d3 d5 d6 d8),
           (- e4 - FR (fnth k (tsub t)) * e7' * (1 + d4) + (e6 - e7) * FR (tbeta t (S k)) / ((1 + d5) * (1 + d6))).
    split; [now apply (Ea_bound u64 Hu)|]. split; [now apply (Eb_bound u64 Hu)|].
    split; [now apply (Ec_bound u64 Hu)|]. split; [now apply (Eg_bound u64 Hu)|].
    split; [now apply dr_bound|].
    apply (row_identity_uf (FR (fnth k (tsub t))) (FR (fnth (S k) (tmain t))) (FR (fnth (S k) (tsup t))) (FR (fnth (S k) r))
             (FR (tbeta t (S k))) (FR (tgamma t (S k))) gamn (FR (ty t r (S k))) (FR (ty t r k)) (FR (fnth (S k) x))
             (FR (fnth k x)) (FR (fnth (S k + 1) x)) d1 d2 d3 d4 d5 d6 d7 d8 d7' d8' e4 e6 e7 e7' Nb);
      try (now apply (one_plus_nz u64 Hu)).
    + rewrite (Vb k ltac:(lia)). replace (k + 1)%nat with (S k) by lia. exact Exk.
    + exact R2.
    + rewrite ty_eq, Ey. cbn [tnum]. fl. rewrite En. reflexivity.
    + rewrite tbeta_S. exact Eb'.
    + exact R5.
Qed.

(* ================================================================ dominant systems: the matrix part from the data *)
(* the two relations of the elimination on the real values, with relative errors only (no underflow: data bounds) *)
Lemma matrix_rels (t : tridiag AF) : (1 <= tn t)%nat -> tri_finite t -> tri_scaled t -> dominant_f t ->
  forall k, (k + 1 < tn t)%nat ->
    Rabs (FR (tgamma t (k + 1))) <= 1 /\
    (exists d1, Rabs d1 <= u64 /\ FR (tgamma t (k + 1)) = FR (nth k (tsup t) 0%float) / FR (tbeta t k) * (1 + d1)) /\
    (exists d2 d3, Rabs d2 <= u64 /\ Rabs d3 <= u64 /\
       FR (tbeta t (k + 1)) = (FR (nth (k + 1) (tmain t) 0%float)
                               - FR (nth k (tsub t) 0%float) * FR (tgamma t (k + 1)) * (1 + d2)) * (1 + d3)).
Proof.
  intros Hn HF HS HD k Hk. pose proof (pivots_from_data t Hn HF HS HD) as P.
  destruct (P k ltac:(lia)) as ((Fb & Nb & _) & M). destruct (M Hk) as ((Fg & Hg & _ & U1) & U2).
  destruct (P (k + 1)%nat Hk) as ((Fb1 & _) & _).
  split; [exact Hg|]. replace (k + 1)%nat with (S k) in * by lia. split.
  - cbn [tgamma] in Fg |- *. destruct (fdiv_rel_inv _ _ Fg Nb U1) as (_ & d1 & H1 & E1). now exists d1.
  - rewrite tbeta_S in Fb1 |- *. destruct (fsubmul_rel_inv _ _ _ Fb1 U2) as (d2 & d3 & H2 & H3 & E). now exists d2, d3.
Qed.

Lemma dominant_f_sub_le (t : tridiag AF) i : dominant_f t -> (i < tn t)%nat ->
  Rabs (FR (nth i (0%float :: tsub t) 0%float)) <= Rabs (FR (nth i (tmain t) 0%float)).
Proof.
  intros D Hi. specialize (D i Hi). pose proof u64_range64 as Hu.
  pose proof (Rabs_pos (FR (nth i (0%float :: tsub t) 0%float))). pose proof (Rabs_pos (FR (nth i (tsup t) 0%float))).
  pose proof (Rabs_pos (FR (nth i (tmain t) 0%float))). nra.
Qed.

Lemma beta_le_main (t : tridiag AF) : (1 <= tn t)%nat -> tri_finite t -> tri_scaled t -> dominant_f t ->
  forall k, (k < tn t)%nat -> Rabs (FR (tbeta t k)) <= 3 * Rabs (FR (nth k (tmain t) 0%float)).
Proof.
  intros Hn HF HS HD [|k] Hk.
  - change (tbeta t 0) with (nth 0 (tmain t) 0%float). pose proof (Rabs_pos (FR (nth 0 (tmain t) 0%float))). lra.
  - destruct (matrix_rels t Hn HF HS HD k ltac:(lia)) as (Hg & _ & d2 & d3 & H2 & H3 & E).
    replace (k + 1)%nat with (S k) in * by lia. rewrite E.
    pose proof (dominant_f_sub_le t (S k) HD Hk) as Ha. cbn [nth] in Ha. pose proof u64_range64 as Hu.
    pose proof (abs_one_plus u64 Hu d2 H2) as A2. pose proof (abs_one_plus u64 Hu d3 H3) as A3.
    fl. set (a := FR (fnth k (tsub t))) in *. set (b := FR (fnth (S k) (tmain t))) in *. set (g := FR (tgamma t (S k))) in *.
    rewrite Rabs_mult.
    assert (T : Rabs (b - a * g * (1 + d2)) <= Rabs b + Rabs b * (1 + u64)).
    { eapply Rle_trans; [apply Rabs_triang|]. rewrite Rabs_Ropp, !Rabs_mult.
      pose proof (Rabs_pos a). pose proof (Rabs_pos g). pose proof (Rabs_pos b).
      assert (Rabs a * Rabs g <= Rabs b * 1) by (apply Rmult_le_compat; lra).
      assert (Rabs a * Rabs g * Rabs (1 + d2) <= Rabs b * (1 + u64)) by (apply Rmult_le_compat; try lra; nra).
      lra. }
    pose proof (Rabs_pos b). pose proof (Rabs_pos (b - a * g * (1 + d2))). nra.
Qed.

(* ---------------------------------------------------------------- Theorem 2u (partial): dominant systems, matrix part from the data, underflow allowed in the
   right-hand-side part.  Gap to a statement on the data only: the answer is assumed finite. *)
Theorem thomas_dominant_float_uf_partial_lemma (t : tridiag AF) (r : list pfloat) :
  wfT t -> (1 <= tn t)%nat -> length r = tn t -> tri_finite t -> tri_scaled t -> dominant_f t ->
  exists x, tsolve (A := AF) t r = Ok x /\ length x = tn t /\
    ((forall i, (i < tn t)%nat -> ffinite (nth i x 0%float)) ->
     forall i, (i < tn t)%nat -> exists da db dc dr,
       Rabs da <= 3 * u64 * Rabs (FR (nth i (0%float :: tsub t) 0%float)) /\
       Rabs db <= 5 * u64 * Rabs (FR (nth i (tmain t) 0%float)) + 9 * u64 * Rabs (FR (nth i (0%float :: tsub t) 0%float)) /\
       Rabs dc <= 5 * u64 * Rabs (FR (nth i (tsup t) 0%float)) /\
       Rabs dr <= eta64 * (1 + 11 * Rabs (FR (nth i (tmain t) 0%float))) /\
       (FR (nth i (0%float :: tsub t) 0%float) + da) * FR (nth i (0%float :: x) 0%float)
       + (FR (nth i (tmain t) 0%float) + db) * FR (nth i x 0%float)
       + (FR (nth i (tsup t) 0%float) + dc) * FR (nth (i + 1) x 0%float) = FR (nth i r 0%float) + dr).
Proof.
  intros W Hn Hr HF HS HD.
  destruct (thomas_dominant_solved_float_lemma t r W Hn Hr HF HS HD) as (x & E & Lx).
  exists x. split; [exact E|]. split; [exact Lx|]. intros Fx i Hi.
  pose proof (pivots_from_data t Hn HF HS HD) as P.
  assert (Fb : forall k, (k < tn t)%nat -> ffinite (tbeta t k)).
  { intros k Hk. now destruct (P k Hk) as ((Fb & _) & _). }
  assert (UM : thomas_nounder_matrix t).
  { intros k Hk. destruct (P k ltac:(lia)) as (_ & M). destruct (M Hk) as ((_ & _ & _ & U1) & U2). split; assumption. }
  destruct (thomas_backward_error_float_uf_lemma t r x W Hn Hr E Fx Fb UM) as (_ & Rows).
  destruct (Rows i Hi) as (ea & eb & ec & eg & dr & Ha & Hb & Hc & Hg & Hdr & Eq).
  pose proof (dominant_f_sub_le t i HD Hi) as Hab. pose proof (beta_le_main t Hn HF HS HD i Hi) as Hbb.
  assert (Gi : Rabs (FR (nth i (0%float :: tsub t) 0%float) * FR (tgamma t i)) <= Rabs (FR (nth i (0%float :: tsub t) 0%float))).
  { destruct i as [|k].
    - cbn [nth]. rewrite FR_0, Rmult_0_l. lra.
    - destruct (matrix_rels t Hn HF HS HD k ltac:(lia)) as (G & _). replace (k + 1)%nat with (S k) in G by lia.
      rewrite Rabs_mult. pose proof (Rabs_pos (FR (nth (S k) (0%float :: tsub t) 0%float))). nra. }
  fl. set (a := FR (fnth i (0%float :: tsub t))) in *. set (b := FR (fnth i (tmain t))) in *.
  set (c := FR (fnth i (tsup t))) in *. set (g := FR (tgamma t i)) in *.
  pose proof u64_range64 as Hu. pose proof eta64_pos as He.
  exists (a * ea), (b * eb + a * g * eg), (c * ec), dr.
  split; [rewrite Rabs_mult; pose proof (Rabs_pos a); nra|].
  split.
  { eapply Rle_trans; [apply Rabs_triang|]. rewrite (Rabs_mult b eb), (Rabs_mult (a * g) eg).
    pose proof (Rabs_pos b). pose proof (Rabs_pos (a * g)). pose proof (Rabs_pos eb). pose proof (Rabs_pos eg). nra. }
  split; [rewrite Rabs_mult; pose proof (Rabs_pos c); nra|].
  split.
  { eapply Rle_trans; [exact Hdr|]. apply Rmult_le_compat_l; [lra|]. lra. }
  rewrite <- Eq. ring.
Qed.

(* ================================================================ Theorem 4: everything from the data *)
(* the trace relations of the back substitution, as equations between floats (no finiteness assumed) *)
Lemma thomas_float_trace_fun (t : tridiag AF) (r x : list pfloat) :
  wfT t -> (1 <= tn t)%nat -> length r = tn t -> tsolve (A := AF) t r = Ok x ->
  length x = tn t /\ nth (tn t - 1) x 0%float = ty t r (tn t - 1) /\
  (forall i, (i + 1 < tn t)%nat -> nth i x 0%float = (ty t r i - tgamma t (i + 1) * nth (i + 1) x 0)%float).
Proof.
  intros W Hn Hr E.
  destruct (thomas_trace_lemma (A := AF) t r W Hn Hr x E) as (bl & gl & yl & Lx & Lb & Lg & Ly & Rel & Vlast & Vback).
  change (T AF) with PrimFloat.float in *. change (@zero AF) with 0%float in *.
  pose proof (fwd_rel_det t r (tn t) bl gl yl Rel) as Det.
  split; [exact Lx|]. split.
  - destruct (Det (tn t - 1)%nat ltac:(lia)) as (_ & Y & _). now rewrite <- Y.
  - intros i Hi. destruct (Det i ltac:(lia)) as (_ & Y & _). destruct (Det (i + 1)%nat Hi) as (_ & _ & G).
    rewrite <- Y, <- (G ltac:(lia)). exact (Vback i Hi).
Qed.

Lemma rnd64_abs_err v : Rabs (rnd64 v) <= Rabs v * (1 + u64) + eta64.
Proof.
  destruct (rnd64_err_ex v) as (d & e & Hd & He & ->). pose proof u64_range64 as Hu.
  eapply Rle_trans; [apply Rabs_triang|]. rewrite Rabs_mult.
  pose proof (abs_one_plus u64 Hu d Hd). pose proof (Rabs_pos v). nra.
Qed.

Lemma eta64_small : eta64 <= / 100.
Proof.
  unfold eta64. assert (L : bpow radix2 (-1074) <= bpow radix2 (-7)) by (apply bpow_le; lia).
  change (bpow radix2 (-7)) with (/ 128) in L. lra.
Qed.

Lemma bp_facts : let P := bpow radix2 300 in
  1 <= P /\ bpow radix2 (-300) * P = 1 /\ bpow radix2 603 = 8 * P * P /\ bpow radix2 605 = 32 * P * P /\
  bpow radix2 903 = 8 * P * P * P /\ bpow radix2 904 = 16 * P * P * P.
Proof.
  cbv zeta. split; [change 1 with (bpow radix2 0); apply bpow_le; lia|].
  split; [rewrite <- bpow_plus; reflexivity|].
  split; [change 603%Z with (3 + 300 + 300)%Z; rewrite !bpow_plus; change (bpow radix2 3) with 8; ring|].
  split; [change 605%Z with (5 + 300 + 300)%Z; rewrite !bpow_plus; change (bpow radix2 5) with 32; ring|].
  split; [change 903%Z with (3 + 300 + 300 + 300)%Z; rewrite !bpow_plus; change (bpow radix2 3) with 8; ring|].
  change 904%Z with (4 + 300 + 300 + 300)%Z; rewrite !bpow_plus; change (bpow radix2 4) with 16; ring.
Qed.

Section DataOnly.
Variable t : tridiag AF.
Hypothesis Hn : (1 <= tn t)%nat.
Hypothesis HF : tri_finite t.
Hypothesis HS : tri_scaled t.
Hypothesis Bl : forall i, (i < tn t)%nat -> bpow radix2 (-300) <= Rabs (FR (nth i (tmain t) 0%float)).
Hypothesis SD : forall i, (i < tn t)%nat ->
  2 * (Rabs (FR (nth i (0%float :: tsub t) 0%float)) + Rabs (FR (nth i (tsup t) 0%float))) <= Rabs (FR (nth i (tmain t) 0%float)).

Notation P := (bpow radix2 300).
Notation av i := (FR (fnth i (0%float :: tsub t))).
Notation bv i := (FR (fnth i (tmain t))).
Notation cv i := (FR (fnth i (tsup t))).

Lemma strong_dominant_f : dominant_f t.
Proof using Bl SD.
  intros i Hi. specialize (SD i Hi). specialize (Bl i Hi). pose proof (bpow_gt_0 radix2 (-300)).
  pose proof OV.Proofs.RoundDotFloat.u64_small as Hu. pose proof u64_range as Hu0.
  pose proof (Rabs_pos (av i)). pose proof (Rabs_pos (cv i)). fl. nra.
Qed.

Lemma beta_low k : (k < tn t)%nat -> Rabs (FR (tbeta t k)) >= (Rabs (bv k) - Rabs (av k) * (1 + u64)) * (1 - u64).
Proof using Hn HF HS Bl SD.
  intros Hk. pose proof u64_range64 as Hu. destruct k as [|k].
  - change (tbeta t 0) with (fnth 0 (tmain t)). cbn [nth]. rewrite FR_0, Rabs_R0.
    pose proof (Rabs_pos (bv 0)). fl. nra.
  - destruct (matrix_rels t Hn HF HS strong_dominant_f k ltac:(lia)) as (Hg & _ & d2 & d3 & H2 & H3 & E).
    replace (k + 1)%nat with (S k) in * by lia. rewrite E. cbn [nth].
    pose proof (abs_one_plus u64 Hu d2 H2) as A2. pose proof (abs_one_plus u64 Hu d3 H3) as A3.
    pose proof (SD (S k) Hk) as Ha. cbn [nth] in Ha.
    fl. set (a := FR (fnth k (tsub t))) in *. set (b := FR (fnth (S k) (tmain t))) in *. set (g := FR (tgamma t (S k))) in *.
    rewrite Rabs_mult.
    assert (Ht : Rabs (b - a * g * (1 + d2)) >= Rabs b - Rabs a * (1 + u64)).
    { eapply Rge_trans; [apply Rle_ge, Rabs_triang_inv|]. rewrite !Rabs_mult.
      pose proof (Rabs_pos a). pose proof (Rabs_pos g).
      assert (P1 : Rabs g * Rabs (1 + d2) <= 1 + u64) by nra. nra. }
    pose proof (Rabs_pos a). pose proof (Rabs_pos b). pose proof (Rabs_pos (cv (S k))).
    assert (L0 : 0 <= Rabs b - Rabs a * (1 + u64)) by nra.
    apply Rle_ge. apply Rmult_le_compat; lra.
Qed.

Lemma beta_nz k : (k < tn t)%nat -> FR (tbeta t k) <> 0 /\ ffinite (tbeta t k).
Proof using Hn HF HS Bl SD.
  intros Hk. destruct (pivots_from_data t Hn HF HS strong_dominant_f k Hk) as ((Fb & Nb & _) & _). split; assumption.
Qed.

(* the multipliers are at most 0.51 *)
Lemma gamma_half k : (k + 1 < tn t)%nat -> Rabs (FR (tgamma t (k + 1))) <= 51 / 100.
Proof using Hn HF HS Bl SD.
  intros Hk. destruct (matrix_rels t Hn HF HS strong_dominant_f k Hk) as (_ & (d1 & H1 & E) & _).
  pose proof (beta_low k ltac:(lia)) as L. destruct (beta_nz k ltac:(lia)) as (Nb & _).
  pose proof (SD k ltac:(lia)) as D. pose proof u64_range64 as Hu. pose proof OV.Proofs.RoundDotFloat.u64_small as Hu'.
  pose proof (abs_one_plus u64 Hu d1 H1) as A1.
  rewrite E. fl. set (c := cv k) in *. set (a := av k) in *. set (b := bv k) in *. set (be := FR (tbeta t k)) in *.
  pose proof (Rabs_pos a). pose proof (Rabs_pos c). pose proof (Rabs_pos b).
  assert (Pb : 0 < Rabs be) by now apply Rabs_pos_lt.
  assert (Lb : Rabs be >= 2 * Rabs c * (1 - u64)) by nra.
  unfold Rdiv. rewrite !Rabs_mult, Rabs_inv.
  apply (Rmult_le_reg_r (Rabs be)); [exact Pb|].
  replace (Rabs c * / Rabs be * Rabs (1 + d1) * Rabs be) with (Rabs c * Rabs (1 + d1)) by (field; lra).
  nra.
Qed.

Lemma beta_big k : (k < tn t)%nat -> 7 / 10 * Rabs (bv k) <= Rabs (FR (tbeta t k)).
Proof using Hn HF HS Bl SD.
  intros Hk. pose proof u64_range64 as Hu. pose proof OV.Proofs.RoundDotFloat.u64_small as Hu'. destruct k as [|k].
  - change (tbeta t 0) with (fnth 0 (tmain t)). pose proof (Rabs_pos (bv 0)). fl. lra.
  - destruct (matrix_rels t Hn HF HS strong_dominant_f k ltac:(lia)) as (_ & _ & d2 & d3 & H2 & H3 & E).
    pose proof (gamma_half k ltac:(lia)) as Hg.
    replace (k + 1)%nat with (S k) in * by lia. rewrite E.
    pose proof (abs_one_plus u64 Hu d2 H2) as A2. pose proof (abs_one_plus u64 Hu d3 H3) as A3.
    pose proof (SD (S k) Hk) as D. cbn [nth] in D.
    fl. set (a := FR (fnth k (tsub t))) in *. set (b := FR (fnth (S k) (tmain t))) in *. set (g := FR (tgamma t (S k))) in *.
    set (c := cv (S k)) in *.
    rewrite Rabs_mult.
    pose proof (Rabs_pos a). pose proof (Rabs_pos g). pose proof (Rabs_pos b). pose proof (Rabs_pos c).
    assert (P1 : Rabs g * Rabs (1 + d2) <= 51 / 100 * (1 + u64)) by (apply Rmult_le_compat; lra).
    assert (P2 : Rabs a * (Rabs g * Rabs (1 + d2)) <= Rabs b / 2 * (51 / 100 * (1 + u64))) by (apply Rmult_le_compat; nra).
    assert (Ht : Rabs (b - a * g * (1 + d2)) >= Rabs b - Rabs b / 2 * (51 / 100 * (1 + u64))).
    { eapply Rge_trans; [apply Rle_ge, Rabs_triang_inv|]. rewrite !Rabs_mult. lra. }
    assert (L1 : 744 / 1000 * Rabs b <= Rabs (b - a * g * (1 + d2))) by nra.
    assert (L2 : 744 / 1000 * Rabs b * (1 - u64) <= Rabs (b - a * g * (1 + d2)) * Rabs (1 + d3))
      by (apply Rmult_le_compat; lra).
    nra.
Qed.

Variable r : list pfloat.
Hypothesis W : wfT t.
Hypothesis Hr : length r = tn t.
Hypothesis Fr : forall i, (i < tn t)%nat -> ffinite (nth i r 0%float) /\ Rabs (FR (nth i r 0%float)) <= bpow radix2 300.

Lemma Pb_ge1 k : (k < tn t)%nat -> 1 <= P * Rabs (bv k) /\ Rabs (bv k) <= P.
Proof.
  intros Hk. destruct bp_facts as (P1 & Pi & _). specialize (Bl k Hk). destruct HS as (Sm & _). specialize (Sm k Hk).
  pose proof (bpow_gt_0 radix2 300). fl. split; [|exact Sm]. rewrite <- Pi. rewrite Rmult_comm. apply Rmult_le_compat_l; lra.
Qed.

(* one division of the forward sweep *)
Lemma ydiv_step k (num : pfloat) : (k < tn t)%nat -> ffinite num ->
  Rabs (FR num) <= 56 / 10 * (P * P * Rabs (bv k)) ->
  ffinite (num / tbeta t k)%float /\ Rabs (FR (num / tbeta t k)%float) <= 8 * P * P.
Proof.
  intros Hk Fnum Bn. destruct (beta_nz k Hk) as (Nb & Fb). pose proof (beta_big k Hk) as Lb.
  destruct bp_facts as (P1 & _ & B603 & _). destruct (Pb_ge1 k Hk) as (Q1 & _).
  fl. set (b := bv k) in *. set (be := FR (tbeta t k)) in *.
  assert (Pbe : 0 < Rabs be) by now apply Rabs_pos_lt.
  pose proof (Rabs_pos b).
  assert (Hq : Rabs (FR num / be) <= bpow radix2 603).
  { rewrite B603. unfold Rdiv. rewrite Rabs_mult, Rabs_inv.
    apply (Rmult_le_reg_r (Rabs be)); [exact Pbe|]. rewrite Rmult_assoc, Rinv_l, Rmult_1_r by lra.
    assert (0 <= P * P) by nra.
    assert (8 * P * P * (7 / 10 * Rabs b) <= 8 * P * P * Rabs be) by (apply Rmult_le_compat_l; nra).
    nra. }
  assert (Oq : no_overflow (FR num / be)) by (apply (no_overflow_le _ 603); [lia|exact Hq]).
  destruct (fdiv_correct _ _ Fnum Nb Oq) as (E & F). split; [exact F|].
  rewrite E, <- B603. apply rnd64_abs_le; [lia|exact Hq].
Qed.

Lemma y_bound k : (k < tn t)%nat -> ffinite (ty t r k) /\ Rabs (FR (ty t r k)) <= 8 * P * P.
Proof.
  pose proof u64_range64 as Hu. pose proof OV.Proofs.RoundDotFloat.u64_small as Hu'. pose proof eta64_small as He. pose proof eta64_pos as He0.
  destruct bp_facts as (P1 & _ & B603 & _ & B903 & B904).
  induction k as [|k IH]; intros Hk; rewrite ty_eq.
  - cbn [tnum]. destruct (Fr 0%nat Hk) as (F0 & R0). destruct (Pb_ge1 0 Hk) as (Q1 & _).
    apply ydiv_step; [exact Hk|exact F0|]. pose proof (Rabs_pos (bv 0)). fl.
    assert (P <= P * (P * Rabs (bv 0))) by (rewrite <- (Rmult_1_r P) at 1; apply Rmult_le_compat_l; lra).
    nra.
  - cbn [tnum]. destruct (IH ltac:(lia)) as (Fy & By). destruct (Fr (S k) Hk) as (Frk & Rk).
    destruct (Pb_ge1 (S k) Hk) as (Q1 & Q2). pose proof (SD (S k) Hk) as D. cbn [nth] in D.
    destruct HF as (_ & Fo). destruct (Fo k ltac:(lia)) as (Fa & _).
    fl. set (a := FR (fnth k (tsub t))) in *. set (b := bv (S k)) in *. set (y := FR (ty t r k)) in *.
    set (c := cv (S k)) in *. set (rk := FR (fnth (S k) r)) in *.
    pose proof (Rabs_pos a). pose proof (Rabs_pos b). pose proof (Rabs_pos c). pose proof (Rabs_pos y).
    set (Q := P * P * Rabs b). assert (Q0 : P <= Q).
    { unfold Q. rewrite <- (Rmult_1_r P) at 1. rewrite Rmult_assoc. apply Rmult_le_compat_l; lra. }
    assert (Hp : Rabs (a * y) <= 4 * Q).
    { rewrite Rabs_mult. unfold Q. assert (Rabs a * Rabs y <= Rabs b / 2 * (8 * P * P)) by (apply Rmult_le_compat; lra). lra. }
    assert (QP : Q <= P * P * P) by (unfold Q; apply Rmult_le_compat_l; nra).
    assert (Op : no_overflow (a * y)) by (apply (no_overflow_le _ 903); [lia|rewrite B903; lra]).
    destruct (fmul_correct _ _ Op) as (Ep & Fp). specialize (Fp Fa Fy). fold a y in Ep.
    pose proof (rnd64_abs_err (a * y)) as Rp.
    assert (Rp' : Rabs (rnd64 (a * y)) <= 4 * Q * (1 + u64) + eta64).
    { eapply Rle_trans; [exact Rp|]. apply Rplus_le_compat_r. apply Rmult_le_compat_r; lra. }
    assert (Qu : Q * u64 <= Q / 1024) by nra.
    assert (Hs : Rabs (rk - FR (fnth k (tsub t) * ty t r k)%float) <= 503 / 100 * Q).
    { rewrite Ep. eapply Rle_trans; [apply Rabs_triang|]. rewrite Rabs_Ropp. lra. }
    assert (Os : no_overflow (rk - FR (fnth k (tsub t) * ty t r k)%float)).
    { apply (no_overflow_le _ 904); [lia|rewrite B904; lra]. }
    destruct (fsub_correct _ _ Frk Fp Os) as (Es & Fs). fold rk in Es.
    apply ydiv_step; [exact Hk|exact Fs|]. fold b Q. fl. rewrite Es.
    destruct (rnd64_plus_ex rk (- FR (fnth k (tsub t) * ty t r k)%float)) as (d5 & H5 & E5);
      [apply FR_fmt|apply generic_format_opp, FR_fmt|].
    unfold Rminus. fl. rewrite E5, Rabs_mult. pose proof (abs_one_plus u64 Hu d5 H5) as A5.
    unfold Rminus in Hs.
    assert (Rabs (rk + - FR (fnth k (tsub t) * ty t r k)%float) * Rabs (1 + d5) <= 503 / 100 * Q * (1 + u64))
      by (apply Rmult_le_compat; try apply Rabs_pos; lra).
    lra.
Qed.

Lemma x_bound (x : list pfloat) : tsolve (A := AF) t r = Ok x ->
  forall m i, (i + m = tn t - 1)%nat -> ffinite (nth i x 0%float) /\ Rabs (FR (nth i x 0%float)) <= 32 * P * P.
Proof.
  intros E. destruct (thomas_float_trace_fun t r x W Hn Hr E) as (Lx & Vl & Vb).
  pose proof u64_range64 as Hu. pose proof OV.Proofs.RoundDotFloat.u64_small as Hu'. pose proof eta64_small as He. pose proof eta64_pos as He0.
  destruct bp_facts as (P1 & _ & _ & B605 & _). assert (PP1 : 1 <= P * P) by nra.
  induction m as [|m IH]; intros i Hi.
  - assert (i = tn t - 1)%nat as -> by lia. rewrite Vl. destruct (y_bound (tn t - 1)%nat ltac:(lia)) as (Fy & By).
    split; [exact Fy|lra].
  - destruct (IH (i + 1)%nat ltac:(lia)) as (Fx' & Bx'). rewrite (Vb i ltac:(lia)).
    destruct (y_bound i ltac:(lia)) as (Fy & By). pose proof (gamma_half i ltac:(lia)) as Hg.
    destruct (pivots_from_data t Hn HF HS strong_dominant_f i ltac:(lia)) as (_ & M). destruct (M ltac:(lia)) as ((Fg & _) & _).
    fl. set (g := FR (tgamma t (i + 1))) in *. set (x' := FR (fnth (i + 1) x)) in *. set (y := FR (ty t r i)) in *.
    pose proof (Rabs_pos g). pose proof (Rabs_pos x').
    assert (Hp : Rabs (g * x') <= 1632 / 100 * (P * P)).
    { rewrite Rabs_mult. assert (Rabs g * Rabs x' <= 51 / 100 * (32 * P * P)) by (apply Rmult_le_compat; lra). lra. }
    assert (Op : no_overflow (g * x')) by (apply (no_overflow_le _ 605); [lia|rewrite B605; lra]).
    destruct (fmul_correct _ _ Op) as (Ep & Fp). specialize (Fp Fg Fx'). fold g x' in Ep.
    pose proof (rnd64_abs_err (g * x')) as Rp.
    assert (Rp' : Rabs (rnd64 (g * x')) <= 1632 / 100 * (P * P) * (1 + u64) + eta64).
    { eapply Rle_trans; [exact Rp|]. apply Rplus_le_compat_r. apply Rmult_le_compat_r; lra. }
    assert (Qu : P * P * u64 <= P * P / 1024) by nra.
    assert (Hs : Rabs (y - FR (tgamma t (i + 1) * fnth (i + 1) x)%float) <= bpow radix2 605).
    { rewrite Ep, B605. eapply Rle_trans; [apply Rabs_triang|]. rewrite Rabs_Ropp. lra. }
    assert (Os : no_overflow (y - FR (tgamma t (i + 1) * fnth (i + 1) x)%float)) by (apply (no_overflow_le _ 605); [lia|exact Hs]).
    destruct (fsub_correct _ _ Fy Fp Os) as (Es & Fs). fold y in Es. split; [exact Fs|].
    fl. rewrite Es. replace (32 * P * P) with (bpow radix2 605) by (rewrite B605; ring). apply rnd64_abs_le; [lia|exact Hs].
Qed.

(* Theorem 4: strongly dominant systems with entries in [2^-300, 2^300]: solved, finite, backward stable up to 2^-1075 per row *)
Theorem thomas_dominant_float_lemma :
  exists x, tsolve (A := AF) t r = Ok x /\ length x = tn t /\
    (forall i, (i < tn t)%nat -> ffinite (nth i x 0%float)) /\
    forall i, (i < tn t)%nat -> exists da db dc dr,
      Rabs da <= 3 * u64 * Rabs (FR (nth i (0%float :: tsub t) 0%float)) /\
      Rabs db <= 5 * u64 * Rabs (FR (nth i (tmain t) 0%float)) + 9 * u64 * Rabs (FR (nth i (0%float :: tsub t) 0%float)) /\
      Rabs dc <= 5 * u64 * Rabs (FR (nth i (tsup t) 0%float)) /\
      Rabs dr <= eta64 * (1 + 11 * Rabs (FR (nth i (tmain t) 0%float))) /\
      (FR (nth i (0%float :: tsub t) 0%float) + da) * FR (nth i (0%float :: x) 0%float)
      + (FR (nth i (tmain t) 0%float) + db) * FR (nth i x 0%float)
      + (FR (nth i (tsup t) 0%float) + dc) * FR (nth (i + 1) x 0%float) = FR (nth i r 0%float) + dr.
Proof.
  destruct (thomas_dominant_float_uf_partial_lemma t r W Hn Hr HF HS strong_dominant_f) as (x & E & Lx & St).
  exists x. split; [exact E|]. split; [exact Lx|].
  assert (Fx : forall i, (i < tn t)%nat -> ffinite (nth i x 0%float)).
  { intros i Hi. now destruct (x_bound x E (tn t - 1 - i)%nat i ltac:(lia)) as (F & _). }
  split; [exact Fx|exact (St Fx)].
Qed.

End DataOnly.

(* ---------------------------------------------------------------- the concrete system of Round2Thomas.v meets the data hypotheses *)
Lemma exT_data_strong :
  (forall i, (i < tn exT_t)%nat -> ffinite (nth i exT_r 0%float) /\ Rabs (FR (nth i exT_r 0%float)) <= bpow radix2 300) /\
  (forall i, (i < tn exT_t)%nat -> bpow radix2 (-300) <= Rabs (FR (nth i (tmain exT_t) 0%float))) /\
  (forall i, (i < tn exT_t)%nat ->
     2 * (Rabs (FR (nth i (0%float :: tsub exT_t) 0%float)) + Rabs (FR (nth i (tsup exT_t) 0%float)))
     <= Rabs (FR (nth i (tmain exT_t) 0%float))).
Proof.
  assert (E1 : FR 1%float = 1) by fr_eval. assert (E2 : FR 2%float = 2) by fr_eval.
  assert (E3 : FR 3%float = 3) by fr_eval. assert (E4 : FR 4%float = 4) by fr_eval.
  assert (B300 : 4 <= bpow radix2 300) by (change 4 with (bpow radix2 2); apply bpow_le; lia).
  assert (Bm300 : bpow radix2 (-300) <= 1) by (change 1 with (bpow radix2 0); apply bpow_le; lia).
  split; [|split].
  - intros [|[|[|i]]] Hi; cbn in Hi; try lia; (split; [apply ffinite_SF; vm_compute; reflexivity|]);
      cbn [nth exT_r]; rewrite ?E1, ?E2, ?E3, Rabs_pos_eq; lra.
  - intros [|[|[|i]]] Hi; cbn in Hi; try lia; cbn [nth exT_t tmain]; rewrite E4, Rabs_pos_eq; lra.
  - intros [|[|[|i]]] Hi; cbn in Hi; try lia; cbn [nth exT_t tmain tsub tsup]; rewrite ?E1, ?E4, ?FR_0, ?Rabs_R0;
      rewrite ?(Rabs_pos_eq 1), ?(Rabs_pos_eq 4) by lra; lra.
Qed.

(* a right-hand side for which the forward sweep DOES underflow: r = [2^-1060; 0; 0] gives y_0 = 2^-1062 and the product
   sub_0 * y_0 = 2^-1062 is subnormal; the data hypotheses of thomas_dominant_float_lemma hold nevertheless *)
Definition exU_r : list pfloat := [0x1p-1060%float; 0%float; 0%float].
Lemma exU_underflows :
  (forall i, (i < tn exT_t)%nat -> ffinite (nth i exU_r 0%float) /\ Rabs (FR (nth i exU_r 0%float)) <= bpow radix2 300) /\
  ~ no_underflow (FR (nth 0 (tsub exT_t) 0%float) * FR (ty exT_t exU_r 0)).
Proof.
  assert (E1 : FR 1%float = 1) by fr_eval.
  assert (Ey : FR (ty exT_t exU_r 0) = bpow radix2 (-1062)).
  { rewrite FR_SF. set (s := Prim2SF (ty exT_t exU_r 0)). vm_compute in s. subst s. unfold SF2R, F2R. cbn [Fnum Fexp cond_Zopp].
    change 4096 with (bpow radix2 12). rewrite <- bpow_plus. reflexivity. }
  assert (Er : FR 0x1p-1060%float = bpow radix2 (-1060)).
  { rewrite FR_SF. set (s := Prim2SF 0x1p-1060%float). vm_compute in s. subst s. unfold SF2R, F2R. cbn [Fnum Fexp cond_Zopp].
    change 16384 with (bpow radix2 14). rewrite <- bpow_plus. reflexivity. }
  split.
  - intros [|[|[|i]]] Hi; cbn in Hi; try lia; (split; [apply ffinite_SF; vm_compute; reflexivity|]); cbn [nth exU_r].
    + rewrite Er, Rabs_pos_eq by apply bpow_ge_0. apply bpow_le. lia.
    + rewrite FR_0, Rabs_R0. apply bpow_ge_0.
    + rewrite FR_0, Rabs_R0. apply bpow_ge_0.
  - cbn [nth exT_t tsub]. rewrite E1, Ey, Rmult_1_l. intros [Z|L].
    + pose proof (bpow_gt_0 radix2 (-1062)). lra.
    + rewrite Rabs_pos_eq in L by apply bpow_ge_0. apply le_bpow in L. lia.
Qed.

Definition exU_x : list pfloat := match tsolve (A := AF) exT_t exU_r with Ok x => x | Panic _ => [] end.
Lemma exU_solve : tsolve (A := AF) exT_t exU_r = Ok exU_x.
Proof. vm_compute. reflexivity. Qed.
Lemma exU_finite : forall i, (i < tn exT_t)%nat -> ffinite (nth i exU_x 0%float).
Proof. intros [|[|[|i]]] Hi; cbn in Hi; try lia; apply ffinite_SF; vm_compute; reflexivity. Qed.

(* ---------------------------------------------------------------- a family of every size: tridiag(1, 4, 1) x = (1, ..., 1) *)
Definition lapT (n : nat) : tridiag AF :=
  @mkT AF (repeat 1%float (n - 1)) (repeat 4%float n) (repeat 1%float (n - 1)) n.

Lemma nth_repeat_f (c : pfloat) m i : nth i (repeat c m) 0%float = if (i <? m)%nat then c else 0%float.
Proof.
  revert i. induction m as [|m IH]; intros [|i]; cbn [repeat nth]; try reflexivity.
  rewrite IH. reflexivity.
Qed.

Lemma lapT_hyps n : (1 <= n)%nat ->
  let t := lapT n in let r := repeat 1%float n in
  wfT t /\ (1 <= tn t)%nat /\ length r = tn t /\ tri_finite t /\ tri_scaled t /\
  (forall i, (i < tn t)%nat -> bpow radix2 (-300) <= Rabs (FR (nth i (tmain t) 0%float))) /\
  (forall i, (i < tn t)%nat ->
     2 * (Rabs (FR (nth i (0%float :: tsub t) 0%float)) + Rabs (FR (nth i (tsup t) 0%float)))
     <= Rabs (FR (nth i (tmain t) 0%float))) /\
  (forall i, (i < tn t)%nat -> ffinite (nth i r 0%float) /\ Rabs (FR (nth i r 0%float)) <= bpow radix2 300).
Proof.
  intros Hn. cbv zeta. unfold lapT, tri_finite, tri_scaled. cbn [tn tmain tsub tsup]. fl.
  assert (E1 : FR 1%float = 1) by fr_eval. assert (E4 : FR 4%float = 4) by fr_eval.
  assert (F1 : ffinite 1%float) by (apply ffinite_SF; reflexivity).
  assert (F4 : ffinite 4%float) by (apply ffinite_SF; reflexivity).
  assert (F0 : ffinite 0%float) by (apply ffinite_SF; reflexivity).
  assert (B300 : 4 <= bpow radix2 300) by (change 4 with (bpow radix2 2); apply bpow_le; lia).
  assert (Bm300 : bpow radix2 (-300) <= 1) by (change 1 with (bpow radix2 0); apply bpow_le; lia).
  assert (A1 : Rabs 1 = 1) by (apply Rabs_pos_eq; lra). assert (A4 : Rabs 4 = 4) by (apply Rabs_pos_eq; lra).
  split; [unfold wfT; cbn [tn tmain tsub tsup]; rewrite !repeat_length; auto|].
  split; [exact Hn|]. split; [apply repeat_length|].
  split; [split|].
  - intros i Hi. rewrite nth_repeat_f. destruct (i <? n)%nat; assumption.
  - intros i Hi. rewrite !nth_repeat_f. destruct (i <? n - 1)%nat; split; assumption.
  - split; [split|split; [|split]].
    + intros i Hi. rewrite nth_repeat_f. destruct (Nat.ltb_spec i n); [|lia]. rewrite E4, A4. exact B300.
    + intros i Hi. rewrite !nth_repeat_f. destruct (Nat.ltb_spec i (n - 1)); [|lia]. rewrite E1, A1. split; right; exact Bm300.
    + intros i Hi. rewrite nth_repeat_f. destruct (Nat.ltb_spec i n); [|lia]. rewrite E4, A4. lra.
    + intros i Hi. rewrite (nth_repeat_f 4%float). destruct (Nat.ltb_spec i n); [|lia]. rewrite E4, A4.
      assert (Ha : Rabs (FR (nth i (0%float :: repeat 1%float (n - 1)) 0%float)) <= 1).
      { destruct i as [|j]; cbn [nth]; [rewrite FR_0, Rabs_R0; lra|]. rewrite nth_repeat_f.
        destruct (j <? n - 1)%nat; [rewrite E1, A1|rewrite FR_0, Rabs_R0]; lra. }
      assert (Hc : Rabs (FR (nth i (repeat 1%float (n - 1)) 0%float)) <= 1).
      { rewrite nth_repeat_f. destruct (i <? n - 1)%nat; [rewrite E1, A1|rewrite FR_0, Rabs_R0]; lra. }
      lra.
    + intros i Hi. rewrite nth_repeat_f. destruct (Nat.ltb_spec i n); [|lia]. split; [exact F1|]. rewrite E1, A1. lra.
Qed.

(* hence, at binary64, for EVERY n >= 1: solve answers tridiag(1,4,1) x = (1,...,1) with finite components *)
Lemma lapT_solved n : (1 <= n)%nat ->
  exists x, tsolve (A := AF) (lapT n) (repeat 1%float n) = Ok x /\ length x = n /\
    forall i, (i < n)%nat -> ffinite (nth i x 0%float).
Proof.
  intros Hn. destruct (lapT_hyps n Hn) as (W & Hn' & Hr & HF & HS & Bl & SD & Fr).
  destruct (thomas_dominant_float_lemma (lapT n) Hn' HF HS Bl SD (repeat 1%float n) W Hr Fr) as (x & E & Lx & Fx & _).
  exists x. split; [exact E|]. split; [exact Lx|exact Fx].
Qed.

(* ---------------------------------------------------------------- the residual form (what a numerical oracle measures) *)
Lemma stable_to_residual (a b c xp x xn r da db dc dr E : R) :
  (a + da) * xp + (b + db) * x + (c + dc) * xn = r + dr ->
  Rabs da <= 3 * u64 * Rabs a -> Rabs db <= 5 * u64 * Rabs b + 9 * u64 * Rabs a -> Rabs dc <= 5 * u64 * Rabs c ->
  Rabs dr <= E ->
  Rabs (r - (a * xp + b * x + c * xn))
  <= u64 * (3 * Rabs a * Rabs xp + (5 * Rabs b + 9 * Rabs a) * Rabs x + 5 * Rabs c * Rabs xn) + E.
Proof.
  intros Eq Ha Hb Hc Hr.
  replace (r - (a * xp + b * x + c * xn)) with (da * xp + db * x + dc * xn + - dr) by lra.
  eapply Rle_trans; [apply Rabs_triang|]. rewrite Rabs_Ropp.
  eapply Rle_trans; [apply Rplus_le_compat_r, Rabs_triang|].
  eapply Rle_trans; [apply Rplus_le_compat_r, Rplus_le_compat_r, Rabs_triang|].
  rewrite !Rabs_mult.
  pose proof (Rabs_pos xp). pose proof (Rabs_pos x). pose proof (Rabs_pos xn).
  assert (Rabs da * Rabs xp <= 3 * u64 * Rabs a * Rabs xp) by (apply Rmult_le_compat_r; lra).
  assert (Rabs db * Rabs x <= (5 * u64 * Rabs b + 9 * u64 * Rabs a) * Rabs x) by (apply Rmult_le_compat_r; lra).
  assert (Rabs dc * Rabs xn <= 5 * u64 * Rabs c * Rabs xn) by (apply Rmult_le_compat_r; lra).
  lra.
Qed.

(* hypotheses on the data only: the residual of the computed solution, row by row.  With |a_i| + |b_i| + |c_i| <= ||T||_inf this is
   at most 14 u ||T||_inf ||x||_inf + 2^-1075 (1 + 11 |b_i|), u = 2^-53 *)
Theorem thomas_dominant_float_residual_lemma (t : tridiag AF) (r : list pfloat) :
  wfT t -> (1 <= tn t)%nat -> length r = tn t -> tri_finite t -> tri_scaled t ->
  (forall i, (i < tn t)%nat -> bpow radix2 (-300) <= Rabs (FR (nth i (tmain t) 0%float))) ->
  (forall i, (i < tn t)%nat ->
     2 * (Rabs (FR (nth i (0%float :: tsub t) 0%float)) + Rabs (FR (nth i (tsup t) 0%float)))
     <= Rabs (FR (nth i (tmain t) 0%float))) ->
  (forall i, (i < tn t)%nat -> ffinite (nth i r 0%float) /\ Rabs (FR (nth i r 0%float)) <= bpow radix2 300) ->
  exists x, tsolve (A := AF) t r = Ok x /\ length x = tn t /\
    (forall i, (i < tn t)%nat -> ffinite (nth i x 0%float)) /\
    forall i, (i < tn t)%nat ->
      Rabs (FR (nth i r 0%float)
            - (FR (nth i (0%float :: tsub t) 0%float) * FR (nth i (0%float :: x) 0%float)
               + FR (nth i (tmain t) 0%float) * FR (nth i x 0%float)
               + FR (nth i (tsup t) 0%float) * FR (nth (i + 1) x 0%float)))
      <= u64 * (3 * Rabs (FR (nth i (0%float :: tsub t) 0%float)) * Rabs (FR (nth i (0%float :: x) 0%float))
                + (5 * Rabs (FR (nth i (tmain t) 0%float)) + 9 * Rabs (FR (nth i (0%float :: tsub t) 0%float)))
                  * Rabs (FR (nth i x 0%float))
                + 5 * Rabs (FR (nth i (tsup t) 0%float)) * Rabs (FR (nth (i + 1) x 0%float)))
         + eta64 * (1 + 11 * Rabs (FR (nth i (tmain t) 0%float))).
Proof.
  intros W Hn Hr HF HS Bl SD Fr.
  destruct (thomas_dominant_float_lemma t Hn HF HS Bl SD r W Hr Fr) as (x & E & Lx & Fx & St).
  exists x. split; [exact E|]. split; [exact Lx|]. split; [exact Fx|]. intros i Hi.
  destruct (St i Hi) as (da & db & dc & dr & Ha & Hb & Hc & Hd & Eq).
  exact (stable_to_residual _ _ _ _ _ _ _ da db dc dr _ Eq Ha Hb Hc Hd).
Qed.
