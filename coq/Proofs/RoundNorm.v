(* Proofs/RoundNorm.v -- the 1-norm of Model/Vector.v ([norm_1]: result = 0; result += |v[i]|) in the STANDARD MODEL
   of floating-point arithmetic (Base/RoundModel.v), the same Gallina [norm_1] instantiated at [ARm] (|.| is exact,
   as in IEEE arithmetic):
     norm_1_backward_error_lemma :  fl(|v|_1) = Sum_i |v_i| (1 + th_i),  |th_i| <= gam n
     norm_1_relative_error_lemma :  | fl(|v|_1) - |v|_1 |  <=  gam n |v|_1       (all terms have one sign: no cancellation)
   for every length n with n u < 1.  (All n additions are counted, the first one 0 + |v_0| included: the pure standard
   model has no "adding zero is exact" rule.) *)
From Coq Require Import List Arith Lia Reals Lra Psatz.
From OV Require Import Base.Panic Base.Arith Base.RoundModel Model.Vector Model.Matrix Proofs.Matrix Proofs.SparseMul
  Proofs.RoundDot Proofs.RoundSparse.
Import ListNotations.
Local Open Scope R_scope.

Section RoundNorm.
Variable u : R.
Hypothesis u_range : 0 <= u < 1.
Variables fadd fsub fmul fdiv : R -> R -> R.
Hypothesis fadd_ok : forall x y, exists d, Rabs d <= u /\ fadd x y = (x + y) * (1 + d).

Notation AR := (ARm fadd fsub fmul fdiv).
Notation gam := (gam u).

Lemma norm_1_sum_acc (v : list R) :
  norm_1 (A := AR) v = sum_acc (A := AR) 0 (length v) (fun k => Rabs (nth k v 0)).
Proof.
  unfold norm_1. change (@zero AR) with 0.
  change (fold_left (fun acc x : R => fadd acc (Rabs x)) v 0
          = sum_acc (A := AR) 0 (length v) (fun k => Rabs (nth k v 0))).
  rewrite <- (fold_left_map_comp fadd Rabs v 0).
  rewrite (fold_add_sum_acc fadd fsub fmul fdiv), map_length.
  assert (G : forall a n, (n <= length v)%nat ->
            sum_acc (A := AR) a n (fun k => nth k (map Rabs v) 0) = sum_acc (A := AR) a n (fun k => Rabs (nth k v 0))).
  { intros a. induction n as [|n IH]; intros Hn; [reflexivity|].
    cbn [sum_acc]. rewrite IH by lia. f_equal.
    rewrite (nth_indep _ 0 (Rabs 0)) by (rewrite map_length; lia). apply map_nth. }
  apply G. lia.
Qed.

Theorem norm_1_backward_error_lemma (v : list R) :
  INR (length v) * u < 1 ->
  exists th : nat -> R,
    (forall k, (k < length v)%nat -> Rabs (th k) <= gam (length v)) /\
    norm_1 (A := AR) v = Rsum (length v) (fun k => Rabs (nth k v 0) * (1 + th k)).
Proof using u_range fadd_ok.
  intros Hn. rewrite norm_1_sum_acc.
  destruct (sum_acc_round u u_range fadd fsub fmul fdiv fadd_ok (length v) (fun k => Rabs (nth k v 0)) 0)
    as (P & W & HP & HW & E).
  exists (fun k => W k - 1). split.
  - intros k Hk. apply (bnd_gam u u_range); [|exact Hn].
    apply (bnd_mono u u_range (length v - k)); [lia|now apply HW].
  - etransitivity; [exact E|]. rewrite Rmult_0_l, Rplus_0_l. apply Rsum_ext. intros k Hk. ring.
Qed.

Theorem norm_1_relative_error_lemma (v : list R) :
  INR (length v) * u < 1 ->
  Rabs (norm_1 (A := AR) v - Rsum (length v) (fun k => Rabs (nth k v 0)))
    <= gam (length v) * Rsum (length v) (fun k => Rabs (nth k v 0)).
Proof using u_range fadd_ok.
  intros Hn. destruct (norm_1_backward_error_lemma v Hn) as (th & Hth & E).
  replace (norm_1 (A := AR) v) with (Rsum (length v) (fun k => Rabs (nth k v 0) * (1 + th k))) by (symmetry; exact E).
  rewrite <- Rsum_minus.
  rewrite (Rsum_ext _ _ (fun k => Rabs (nth k v 0) * th k)) by (intros; ring).
  eapply Rle_trans; [apply Rsum_pert_le; exact Hth|].
  apply Rmult_le_compat_l; [now apply (gam_nonneg u u_range)|].
  apply Req_le, Rsum_ext. intros k Hk. apply Rabs_Rabsolu.
Qed.

End RoundNorm.
