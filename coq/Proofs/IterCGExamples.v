(* Proofs/IterCGExamples.v -- round two, package iter2: concrete instances that discharge the hypotheses of
   the theorems of Proofs/IterSparse*.v and Proofs/IterCG*.v (non-vacuity):
   the CSC storage of [[4,1],[1,3]] over Qc (exq_s, Proofs/IterInst.v) and over R (exr_s, Proofs/IterR.v). *)
From Coq Require Import List Arith Lia ZArith QArith Qcanon Reals Lra.
From OV Require Import Base.Panic Base.Arith Model.Vector Model.Matrix Model.Sparse Model.Iter Inst.QcInst
  Proofs.SparseBase Proofs.SparseMul Proofs.Iter Proofs.IterField Proofs.IterInst Proofs.IterR
  Proofs.IterSparse Proofs.IterSparseR Proofs.IterSparseBreakdown Proofs.IterCGVec Proofs.IterCGDim Proofs.IterCG
  Proofs.IterCGR Proofs.IterCGSparse.
Import ListNotations.
Local Open Scope nat_scope.

(* ---- Qc ---- *)
Lemma exq_s_wf : wfS exq_s.
Proof.
  unfold wfS, exq_s; cbn [sp_rows sp_cols sp_nonzero sp_val sp_row_index sp_col_start length nth Nat.add].
  repeat split; try reflexivity.
  - intros j Hj. do 2 (destruct j as [|j]; [cbn [nth Nat.add]; lia|]). lia.
  - intros k Hk. do 4 (destruct k as [|k]; [cbn [nth]; lia|]). lia.
Qed.

Lemma exq_s_nodup : NoDupKeys exq_s.
Proof.
  unfold NoDupKeys, ents, visits, seg, ent, exq_s, trow, tcol.
  cbn [sp_rows sp_cols sp_nonzero sp_val sp_row_index sp_col_start seq flat_map map nth Nat.add Nat.sub app fst snd].
  repeat constructor; cbn [In]; intros H; repeat (destruct H as [H|H]; [discriminate H|]); destruct H.
Qed.

Definition AQ_RingLaws : RingLaws AQ := FL_RingLaws AQ_FieldLaws.

Lemma exq_s_sym : sp_symmetric exq_s.
Proof.
  intros i j Hi Hj. cbn in Hi, Hj.
  destruct i as [|[|i]]; try lia; destruct j as [|[|j]]; try lia; reflexivity.
Qed.

(* every solver answers Ok 2 on exq_s, b = (1,2), x0 = (2,1), tol = 1/1000 *)
Lemma exq_run_sparse_ok sv : (forall itol, sv = BiCG itol -> itol = 1 \/ itol = 2) ->
  exists x g, @run_sparse SAQ sv exq_s [q 1 1; q 2 1] [q 2 1; q 1 1] 10 (q 1 1000) = Ok (IOk 2, x, g).
Proof.
  intros Hit. apply (@ok_k_witness SAQ).
  destruct sv as [|itol| |].
  - vm_compute; reflexivity.
  - destruct (Hit itol eq_refl) as [-> | ->]; vm_compute; reflexivity.
  - vm_compute; reflexivity.
  - vm_compute; reflexivity.
Qed.

(* an exact guess for exq_s *)
Lemma exq_exact_guess :
  @zipw AQ sub [q 1 1; q 2 1] (@sp_apply AQ exq_s [q 1 11; q 7 11]) = repeat zero (sp_rows exq_s).
Proof.
  apply (nth_ext _ _ (@zero AQ) (@zero AQ)); [reflexivity|].
  intros k Hk. cbn in Hk. destruct k as [|[|k]]; try lia; apply Qc_is_canon; vm_compute; reflexivity.
Qed.

(* the conjugate-gradient history of exq_s is inhabited beyond the first iteration *)
Definition exq_body := @cg_body SAQ (@sp_mul AQ exq_s) 2 (q 1 1000) (@nz SAQ (@norm2 SAQ [q 1 1; q 2 1])).
Definition exq_s0 : @cg_st SAQ :=
  @mkCG SAQ [q 2 1; q 1 1] [q (-8) 1; q (-3) 1] (@zeros SAQ 2) (@zeros SAQ 2) one (q 11 3)
        (@trace0 SAQ [q 2 1; q 1 1] (q 11 3) (q 1 1000)).
Lemma exq_cg_hist : @cg_lens SAQ 2 exq_s0 /\
  exists s1 Rs Ps, @cg_hist SAQ exq_body exq_s0 2 s1 Rs Ps /\ Rs = [[q (-8) 1; q (-3) 1]].
Proof.
  split; [repeat split|].
  assert (E : exists s1, exq_body 1 exq_s0 = Ok (Continue s1)).
  { vm_compute. eexists. reflexivity. }
  destruct E as (s1 & E). exists s1, [cg_r exq_s0], [cg_p s1]. split; [|reflexivity].
  exact (cgh_step exq_body exq_s0 1 exq_s0 s1 [] [] (cgh_start exq_body exq_s0) E).
Qed.

Lemma exq_orth_family :
  Forall (@lenis SAQ 2) [[q 1 1; q 1 1]; [q 1 1; q (-1) 1]] /\
  ForallOrdPairs (fun u v => @dot_raw AQ u v = zero) [[q 1 1; q 1 1]; [q 1 1; q (-1) 1]] /\
  Forall (fun v => @dot_raw AQ v v <> zero) [[q 1 1; q 1 1]; [q 1 1; q (-1) 1]].
Proof.
  split; [repeat constructor|]. split.
  - constructor; [constructor; [|constructor] | constructor; [constructor|constructor]].
    apply Qc_is_canon. vm_compute. reflexivity.
  - repeat constructor; intros H; apply (f_equal Qcanon.this) in H; vm_compute in H; discriminate H.
Qed.

(* ---- R ---- *)
Local Open Scope R_scope.

Lemma exr_s_sym : sp_symmetric exr_s.
Proof.
  intros i j Hi Hj. cbn in Hi, Hj.
  destruct i as [|[|i]]; try lia; destruct j as [|[|j]]; try lia; reflexivity.
Qed.

Lemma exr_apply (a b : R) : @sp_apply AR exr_s [a; b] = [4 * a + b; a + 3 * b].
Proof.
  unfold sp_apply, dmulv, sp_entry, suml, seg. cbn.
  apply f_equal2; [ring | apply f_equal2; [ring | reflexivity]].
Qed.

Lemma exr_s_posdef : sp_posdef exr_s.
Proof.
  intros v Hv Hne. destruct v as [|a [|b [|c v]]]; try discriminate Hv.
  rewrite exr_apply. unfold dot_raw. cbn.
  assert (Hab : a <> 0 \/ b <> 0).
  { destruct (Req_EM_T a 0) as [->|Ha]; [|now left]. destruct (Req_EM_T b 0) as [->|Hb]; [|now right].
    exfalso. apply Hne. reflexivity. }
  assert (0 < a * a + b * b) by (destruct Hab; nra).
  nra.
Qed.

Lemma exr_spd_hyps :
  wfS exr_s /\ sp_rows exr_s = sp_cols exr_s /\ sp_symmetric exr_s /\ sp_posdef exr_s /\
  @LinOp AR 2 (@sp_mul AR exr_s) /\ @SymOp AR 2 (@sp_mul AR exr_s) /\ PosDef 2 (@sp_mul AR exr_s).
Proof.
  split; [exact exr_s_wf|]. split; [reflexivity|]. split; [exact exr_s_sym|]. split; [exact exr_s_posdef|].
  split; [exact (sp_mul_LinOp AR_RingLaws exr_s 2 exr_s_wf eq_refl eq_refl)|].
  split; [exact (sp_mul_SymOp AR_RingLaws exr_s 2 exr_s_wf eq_refl eq_refl exr_s_sym)|].
  exact (sp_posdef_PosDef exr_s 2 exr_s_wf eq_refl eq_refl exr_s_posdef).
Qed.

(* ---- the BiCG breakdown witness over Qc: [[2,-1],[0,1]], b = r0 = (2,-2) is a left eigenvector (A^T r0 = 2 r0) ---- *)
From OV Require Import Proofs.IterSparseBreakdownField.
Local Open Scope nat_scope.
Definition kq_s : sparse AQ := @mkS AQ 2 2 3 [q 2 1; q (-1) 1; q 1 1] [0; 0; 1] [0; 1; 3].
Lemma kq_s_wf : wfS kq_s.
Proof.
  unfold wfS, kq_s; cbn [sp_rows sp_cols sp_nonzero sp_val sp_row_index sp_col_start length nth Nat.add].
  repeat split; try reflexivity.
  - intros j Hj. do 2 (destruct j as [|j]; [cbn [nth Nat.add]; lia|]). lia.
  - intros k Hk. do 3 (destruct k as [|k]; [cbn [nth]; lia|]). lia.
Qed.
Lemma kq_left_eigenvector :
  @sp_tmul AQ kq_s [q 2 1; q (-2) 1] = Ok (@vscale AQ [q 2 1; q (-2) 1] (q 2 1)).
Proof.
  rewrite (sp_tmul_spec_lemma AQ_RingLaws kq_s [q 2 1; q (-2) 1] kq_s_wf (eq_refl 2)). f_equal.
Qed.
Definition is_divzero {X} (o : res X) : bool := match o with Panic DivZero => true | _ => false end.
(* in exact arithmetic the model panics in the second iteration (0/0), for both error measures *)
Lemma kq_bicg_panics :
  is_divzero (@solve_bicg SAQ (@sp_mul AQ kq_s) (@sp_tmul AQ kq_s) 2 2 1 [q 2 1; q (-2) 1] [q 0 1; q 0 1] 140 (q 1 1000)) = true /\
  is_divzero (@solve_bicg SAQ (@sp_mul AQ kq_s) (@sp_tmul AQ kq_s) 2 2 2 [q 2 1; q (-2) 1] [q 0 1; q 0 1] 140 (q 1 1000)) = true.
Proof. split; vm_compute; reflexivity. Qed.

(* ---- the QMR breakdown witness over R: [[2,-1],[0,1]], b = (2,-2), x0 = 0 ---- *)
Local Open Scope R_scope.
Definition kr_s : sparse AR := @mkS AR 2%nat 2%nat 3%nat [2; -1; 1] [0; 0; 1]%nat [0; 1; 3]%nat.
Lemma kr_s_wf : wfS kr_s.
Proof.
  unfold wfS, kr_s; cbn [sp_rows sp_cols sp_nonzero sp_val sp_row_index sp_col_start length nth Nat.add].
  repeat split; try reflexivity.
  - intros j Hj. do 2 (destruct j as [|j]; [cbn [nth Nat.add]; lia|]). lia.
  - intros k Hk. do 3 (destruct k as [|k]; [cbn [nth]; lia|]). lia.
Qed.
Lemma kr_r0 : @zipw AR Rminus [2; -2] (@sp_apply AR kr_s [0; 0]) = [2; -2].
Proof.
  unfold sp_apply, dmulv, sp_entry, suml, seg. cbn.
  apply f_equal2; [ring | apply f_equal2; [ring | reflexivity]].
Qed.
Lemma kr_left_eigenvector :
  let r0 := @zipw AR Rminus [2; -2] (@sp_apply AR kr_s [0; 0]) in
  @sp_tapply AR kr_s r0 = @vscale AR r0 2 /\ r0 <> repeat 0 (sp_rows kr_s).
Proof.
  cbv zeta. rewrite kr_r0. split.
  - unfold sp_tapply, dtmulv, sp_entry, suml, seg. cbn.
    apply f_equal2; [ring | apply f_equal2; [ring | reflexivity]].
  - cbn. intros H. injection H as H1 H2. lra.
Qed.

(* ---- the BiCGSTAB breakdown witness over Qc: [[2,0,1],[0,4,-1],[0,0,3]], b = (0,-6,6) is a left eigenvector (lam = 4) ---- *)
Local Open Scope nat_scope.
Definition k3q_s : sparse AQ :=
  @mkS AQ 3 3 5 [q 2 1; q 4 1; q 1 1; q (-1) 1; q 3 1] [0; 1; 0; 1; 2] [0; 1; 2; 5].
Lemma k3q_s_wf : wfS k3q_s.
Proof.
  unfold wfS, k3q_s; cbn [sp_rows sp_cols sp_nonzero sp_val sp_row_index sp_col_start length nth Nat.add].
  repeat split; try reflexivity.
  - intros j Hj. do 3 (destruct j as [|j]; [cbn [nth Nat.add]; lia|]). lia.
  - intros k Hk. do 5 (destruct k as [|k]; [cbn [nth]; lia|]). lia.
Qed.
Lemma k3q_left_eigenvector :
  let r0 := @zipw AQ sub [q 0 1; q (-6) 1; q 6 1] (@sp_apply AQ k3q_s [q 0 1; q 0 1; q 0 1]) in
  @sp_tapply AQ k3q_s r0 = @vscale AQ r0 (q 4 1).
Proof.
  cbv zeta. apply (nth_ext _ _ (@zero AQ) (@zero AQ)); [reflexivity|].
  intros k Hk. cbn in Hk. destruct k as [|[|[|k]]]; try lia; apply Qc_is_canon; vm_compute; reflexivity.
Qed.
Definition exit_code_q (o : res (iout SAQ)) : option nat :=
  match o with Ok (IErr _, _, g) => Some (g_exit g) | _ => None end.
Lemma k3q_stab_exit :
  exit_code_q (@run_sparse SAQ BiCGSTAB k3q_s [q 0 1; q (-6) 1; q 6 1] [q 0 1; q 0 1; q 0 1] 160 (q 1 1000000)) = Some 10.
Proof. vm_compute. reflexivity. Qed.

(* observer for the non-vacuity examples about Err answers (closed terms evaluate under vm_compute) *)
Definition is_err {A : SArith} (o : res (iout A)) : bool :=
  match o with Ok (IErr _, _, _) => true | _ => false end.
Lemma is_err_witness {A : SArith} (o : res (iout A)) :
  is_err o = true -> exists e x g, o = Ok (IErr e, x, g).
Proof. destruct o as [[[[k|e] x] g]|p]; cbn; intros H; try discriminate. eauto. Qed.

(* the last row of kr_s = [[2,-1],[0,1]] is (0, 1) *)
Lemma kr_last_row : (forall j, (j < 1)%nat -> @sp_entry AR kr_s 1 j = 0%R) /\ @sp_entry AR kr_s 1 1 <> 0%R.
Proof.
  split.
  - intros j Hj. destruct j; [reflexivity | lia].
  - unfold sp_entry, suml, seg. cbn. lra.
Qed.

(* [[4,1],[1,3]] is strictly diagonally dominant with a positive diagonal *)
From OV Require Import Proofs.IterCGDominant.
Lemma exr_s_sdd : sp_sdd_pos exr_s.
Proof.
  intros i Hi. cbn in Hi. destruct i as [|[|i]]; try lia.
  - unfold offdiag, sumR, sp_entry, suml, seg. cbn. rewrite Rabs_pos_eq by lra. lra.
  - unfold offdiag, sumR, sp_entry, suml, seg. cbn. rewrite Rabs_pos_eq by lra. lra.
Qed.

(* (1,0) is a right eigenvector of kr_s = [[2,-1],[0,1]] (eigenvalue 2): with b = (1,0), x0 = 0 every solver converges in one step *)
Local Open Scope R_scope.
Lemma kr_right_eigenvector :
  let r0 := @zipw AR Rminus [1; 0] (@sp_apply AR kr_s [0; 0]) in
  @sp_apply AR kr_s r0 = @vscale AR r0 2.
Proof.
  cbv zeta.
  assert (E : @zipw AR Rminus [1; 0] (@sp_apply AR kr_s [0; 0]) = [1; 0]).
  { unfold sp_apply, dmulv, sp_entry, suml, seg. cbn.
    apply f_equal2; [ring | apply f_equal2; [ring | reflexivity]]. }
  rewrite E. unfold sp_apply, dmulv, sp_entry, suml, seg. cbn.
  apply f_equal2; [ring | apply f_equal2; [ring | reflexivity]].
Qed.
