(* Proofs/MatNormLawsFloatOrd.v -- the two order laws [OrdLaws] of Proofs/MatNorms.v hold for the comparison of ALL
   binary64 values, NaN and the infinities included (x < x is false; a < b and not (a < c) give not (b < c): with a NaN
   anywhere the premises fail or the conclusion is trivially false-valued).  Hence [norms_spec] applies to the float
   instance [SAF] itself with no hypothesis on the entries:  norm_1 returns 0.0 or a computed column sum that no
   computed column sum exceeds (`R < sum_j` is false for every j -- which a NaN sum satisfies vacuously: exactly the
   NaN-skipping behaviour of f64::max), likewise norm_inf and norm_max.  (Package matnorm.) *)
From Coq Require Import ZArith Reals Lra Lia List Floats Bool Arith.
From Flocq Require Import Core BinarySingleNaN PrimFloat.
From OV Require Import Base.Panic Base.Arith Model.Vector Model.Matrix Model.MatNorms Inst.FloatInst.
From OV Require Import Proofs.Matrix Proofs.MatNorms.
Import ListNotations.
Local Open Scope R_scope.

Lemma Bltb_cases (x y : binary_float prec emax) :
  Bltb x y = match x, y with
             | B754_nan, _ | _, B754_nan => false
             | B754_infinity true, B754_infinity true => false
             | B754_infinity true, _ => true
             | B754_infinity false, _ => false
             | _, B754_infinity true => false
             | _, B754_infinity false => true
             | _, _ => Rlt_bool (B2R x) (B2R y)
             end.
Proof.
  destruct x as [sx|[|]| |sx mx ex Hx], y as [sy|[|]| |sy my ey Hy]; try reflexivity;
    try (apply Bltb_correct; reflexivity); try (destruct sx; reflexivity).
Qed.

Ltac rlt_cases :=
  repeat match goal with
  | H : context [Rlt_bool ?x ?y] |- _ => destruct (Rlt_bool_spec x y)
  | |- context [Rlt_bool ?x ?y] => destruct (Rlt_bool_spec x y)
  end; try discriminate; try reflexivity; try (exfalso; lra).

Lemma AF_OrdLaws : OrdLaws AF.
Proof.
  split.
  - intros x. change (PrimFloat.ltb x x = false). rewrite ltb_equiv, Bltb_cases.
    destruct (Prim2B x) as [s|[|]| |s m e H]; try reflexivity; rlt_cases.
  - intros a b c. change (PrimFloat.ltb a b = true -> PrimFloat.ltb a c = false -> PrimFloat.ltb b c = false).
    rewrite !ltb_equiv, !Bltb_cases.
    destruct (Prim2B a) as [sa|[|]| |sa ma ea Ha], (Prim2B b) as [sb|[|]| |sb mb eb Hb], (Prim2B c) as [sc|[|]| |sc mc ec Hc];
      intros H1 H2; try discriminate; try reflexivity; rlt_cases.
Qed.

(* norms_spec at the float instance, every input *)
Lemma norms_spec_float_lemma (m : matrix AF) : wf m ->
  (exists R, mnorm_1 (S:=SAF) m = Ok R /\ (forall j, (j < cols m)%nat -> PrimFloat.ltb R (colsum (SS:=SAF) m j) = false) /\
             (R = 0%float \/ exists j, (j < cols m)%nat /\ R = colsum (SS:=SAF) m j)) /\
  (exists R, mnorm_inf (S:=SAF) m = Ok R /\ (forall i, (i < rows m)%nat -> PrimFloat.ltb R (rowsum (SS:=SAF) m i) = false) /\
             (R = 0%float \/ exists i, (i < rows m)%nat /\ R = rowsum (SS:=SAF) m i)) /\
  (exists R, mnorm_max (S:=SAF) m = Ok R /\
             (forall i j, (i < rows m)%nat -> (j < cols m)%nat -> PrimFloat.ltb R (f_abs (entry (A:=AF) m i j)) = false) /\
             (R = 0%float \/ exists i j, (i < rows m)%nat /\ (j < cols m)%nat /\ R = f_abs (entry (A:=AF) m i j))).
Proof.
  intros Hw. destruct (norms_spec_lemma (SS:=SAF) AF_OrdLaws m Hw) as (H1 & Hi & Hx & _).
  split; [exact H1|]. split; [exact Hi|exact Hx].
Qed.
