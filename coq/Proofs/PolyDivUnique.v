(* Proofs/PolyDivUnique.v -- over a field, quotient and remainder are determined by
   u = q*v + r  and  (r = 0 or deg r < deg v): polydiv computes THE Euclidean division. *)
From Coq Require Import List Arith Lia Bool Ring Ring_theory Field_theory.
From OV Require Import Base.Panic Base.Arith Model.Poly Proofs.Poly Proofs.PolyExtra Proofs.PolyDiv.
Import ListNotations.
Local Open Scope arith_scope.

Section Unique.
Context {A : Arith} (FL : FieldLaws A).
Notation coef p k := (nth k p (@zero A)).
Let RL : RingLaws A := RL_of_FL FL.
Add Ring Auniq_ring : (rl_ring A RL).

Lemma no_zero_divisors (a b : A) : a * b = zero -> b <> zero -> a = zero.
Proof.
  intros H Hb. assert (I := Finv_l (fl_field A FL) b Hb).
  transitivity (a * b * fl_inv A FL b).
  - transitivity (a * (fl_inv A FL b * b)); [rewrite I|]; ring.
  - rewrite H. ring.
Qed.

(* a remainder that is "zero or shorter than v" has no coefficient at or above deg v *)
Lemma small_remainder (r v : list A) : (is_zero r = true \/ length r < length v) ->
  forall k, (length v - 1 <= k)%nat -> coef r k = zero.
Proof.
  intros [Z|L] k Hk.
  - now apply (is_zero_spec_lemma (fl_eqb A FL) r).
  - apply nth_overflow. lia.
Qed.

Variable v : list A.
Hypothesis v_nonempty : v <> [].
Hypothesis v_lead : last v zero <> zero.

(* if d*v has no coefficient at or above deg v then d = 0 *)
Lemma conv_small_zero (d : list A) :
  (forall k, (length v - 1 <= k)%nat -> conv d v k = zero) -> forall m, coef d m = zero.
Proof.
  intros H.
  assert (Down : forall n m, (length d <= m + n)%nat -> coef d m = zero).
  { induction n as [|n IH]; intros m Hm.
    - apply nth_overflow. lia.
    - assert (Above : forall i, (m < i)%nat -> coef d i = zero) by (intros i Hi; apply IH; lia).
      set (dv := (length v - 1)%nat).
      assert (E : conv d v (m + dv) = coef d m * coef v dv).
      { unfold conv. rewrite (sum_n_single RL _ m).
        - replace (m + dv - m)%nat with dv by lia. reflexivity.
        - lia.
        - intros i Hi Hne. destruct (Nat.lt_ge_cases m i) as [Hgt|Hle].
          + rewrite (Above i Hgt). ring.
          + rewrite (nth_overflow v) by (unfold dv; destruct v; [congruence|cbn [length]; lia]). ring. }
      rewrite H in E by (unfold dv; lia).
      apply (no_zero_divisors _ (coef v dv)); [now symmetry|].
      unfold dv. now rewrite nth_last_idx. }
  intros m. apply (Down (length d) m). lia.
Qed.

Theorem polydiv_unique_lemma (u q r q' r' : list A) :
  (forall k, coef u k = coef (padd (pmul q v) r) k) -> (is_zero r = true \/ length r < length v) ->
  (forall k, coef u k = coef (padd (pmul q' v) r') k) -> (is_zero r' = true \/ length r' < length v) ->
  (forall k, coef q k = coef q' k) /\ (forall k, coef r k = coef r' k).
Proof.
  intros I1 S1 I2 S2.
  assert (D : forall k, conv (psub q q') v k = coef r' k - coef r k).
  { intros k. specialize (I1 k). specialize (I2 k).
    rewrite (nth_padd RL), (nth_pmul RL) in I1, I2.
    assert (L : conv q v k = conv (psub q q') v k + conv q' v k).
    { unfold conv. rewrite <- (sum_n_add RL). apply sum_n_ext. intros i _. rewrite (nth_psub RL). ring. }
    transitivity (conv q v k - conv q' v k); [rewrite L; ring|].
    transitivity ((conv q v k + coef r k) - (conv q' v k + coef r' k) + (coef r' k - coef r k)); [ring|].
    rewrite <- I1, <- I2. ring. }
  assert (Z : forall m, coef (psub q q') m = zero).
  { apply conv_small_zero. intros k Hk. rewrite D.
    rewrite (small_remainder r v S1 k Hk), (small_remainder r' v S2 k Hk). ring. }
  split; intros k.
  - specialize (Z k). rewrite (nth_psub RL) in Z.
    transitivity (coef q k - coef q' k + coef q' k); [ring|]. rewrite Z. ring.
  - specialize (D k). unfold conv in D. rewrite (sum_n_zero RL) in D by (intros i _; rewrite Z; ring).
    transitivity (coef r' k - (coef r' k - coef r k)); [ring|]. rewrite <- D. ring.
Qed.

End Unique.
