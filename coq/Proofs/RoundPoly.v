(* Proofs/RoundPoly.v -- Horner evaluation of Model/Poly.v ([peval]: p = a_d; for i in (0..d).rev() { p = p*x + a_i })
   in the STANDARD MODEL of floating-point arithmetic (Base/RoundModel.v), the same Gallina [peval] at [ARm]:

     peval_backward_error_lemma :  fl(p(x)) = Sum_i a_i (1 + th_i) x^i ,  |th_i| <= gam (2d)        (Higham (5.3))
        -- the computed value is the exact value of a polynomial with relatively perturbed coefficients;
        the sharper counts of Higham (5.2) (a_i carries 2i+1 rounding factors, a_d carries 2d) are in [horner_round];
     peval_forward_error_lemma  :  |fl(p(x)) - p(x)| <= gam (2d)  Sum_i |a_i| |x|^i                  (Higham (5.3))

   for every degree d with 2 d u < 1.  This is the A PRIORI bound; the running (a posteriori) error bound of Higham
   Algorithm 5.1 is a different algorithm that the code does not contain, and is not stated. *)
From Coq Require Import List Arith Lia Reals Lra Psatz.
From OV Require Import Base.Panic Base.Arith Base.RoundModel Model.Poly.
Import ListNotations.
Local Open Scope R_scope.

(* reversing the index of a real sum *)
Lemma Rsum_rev n f : Rsum n f = Rsum n (fun k => f (n - 1 - k)%nat).
Proof.
  revert f. induction n as [|n IH]; intros f; [reflexivity|].
  rewrite Rsum_shift, (IH (fun k => f (S k))). cbn [Rsum].
  replace (S n - 1 - n)%nat with 0%nat by lia. rewrite Rplus_comm. f_equal.
  apply Rsum_ext. intros k Hk. f_equal. lia.
Qed.

Section RoundPoly.
Variable u : R.
Hypothesis u_range : 0 <= u < 1.
Variables fadd fsub fmul fdiv : R -> R -> R.
Hypothesis fadd_ok : forall x y, exists d, Rabs d <= u /\ fadd x y = (x + y) * (1 + d).
Hypothesis fmul_ok : forall x y, exists d, Rabs d <= u /\ fmul x y = x * y * (1 + d).

Notation AR := (ARm fadd fsub fmul fdiv).
Notation bnd := (bnd u).
Notation gam := (gam u).

(* the Horner loop from an accumulator, over the remaining coefficients in the order the loop meets them *)
Definition hloop (x : R) (rest : list R) (acc : R) : R := fold_left (fun acc a => fadd (fmul acc x) a) rest acc.

Lemma horner_round (x : R) (rest : list R) (acc : R) :
  exists P W, bnd (2 * length rest) P /\
    (forall k, (k < length rest)%nat -> bnd (2 * (length rest - 1 - k) + 1) (W k)) /\
    hloop x rest acc = acc * x ^ length rest * P
                       + Rsum (length rest) (fun k => nth k rest 0 * x ^ (length rest - 1 - k) * W k).
Proof using u_range fadd_ok fmul_ok.
  revert acc. induction rest as [|a rest IH]; intros acc.
  - exists 1, (fun _ => 1). split; [apply bnd_0|]. split; [intros; cbn in *; lia|]. cbn. ring.
  - cbn [hloop fold_left]. fold (hloop x rest (fadd (fmul acc x) a)).
    destruct (fmul_bnd u u_range fmul fmul_ok acc x) as (em & Hem & Em).
    destruct (fadd_bnd u u_range fadd fadd_ok (fmul acc x) a) as (ea & Hea & Ea).
    destruct (IH (fadd (fmul acc x) a)) as (P & W & HP & HW & E).
    exists (em * ea * P), (fun k => match k with O => ea * P | S j => W j end).
    cbn [length]. split.
    { replace (2 * S (length rest))%nat with (1 + 1 + 2 * length rest)%nat by lia.
      apply bnd_mul; [exact u_range| |exact HP]. now apply bnd_mul. }
    split.
    { intros [|j] Hk.
      - replace (2 * (S (length rest) - 1 - 0) + 1)%nat with (1 + 2 * length rest)%nat by lia.
        now apply bnd_mul.
      - replace (S (length rest) - 1 - S j)%nat with (length rest - 1 - j)%nat by lia. apply HW. lia. }
    rewrite E, Ea, Em. rewrite Rsum_shift. cbn [nth].
    replace (S (length rest) - 1 - 0)%nat with (length rest) by lia.
    rewrite (Rsum_ext (length rest)
               (fun k => nth k rest 0 * x ^ (S (length rest) - 1 - S k) * W k)
               (fun k => nth k rest 0 * x ^ (length rest - 1 - k) * W k)).
    2:{ intros k Hk. now replace (S (length rest) - 1 - S k)%nat with (length rest - 1 - k)%nat by lia. }
    cbn [pow]. ring.
Qed.

(* in terms of the coefficient vector p = [a_0; ...; a_d] *)
Lemma peval_round (p : list R) (x r : R) : peval (A := AR) p x = Ok r ->
  exists V : nat -> R,
    bnd (2 * (length p - 1)) (V (length p - 1)%nat) /\
    (forall i, (i < length p - 1)%nat -> bnd (2 * i + 1) (V i)) /\
    r = Rsum (length p) (fun i => nth i p 0 * x ^ i * V i).
Proof using u_range fadd_ok fmul_ok.
  unfold peval. change (T AR) with R. destruct (rev p) as [|c rest] eqn:Er; [discriminate|].
  intros E. change (Ok (hloop x rest c) = Ok r) in E. injection E as <-.
  assert (Ep : p = rev rest ++ [c]).
  { rewrite <- (rev_involutive p), Er. reflexivity. }
  assert (Lp : length p = S (length rest)) by (rewrite Ep, app_length, rev_length; cbn; lia).
  destruct (horner_round x rest c) as (P & W & HP & HW & E).
  set (d := length rest) in *.
  exists (fun i => if (i =? d)%nat then P else W (d - 1 - i)%nat).
  rewrite Lp. replace (S d - 1)%nat with d by lia. rewrite Nat.eqb_refl.
  split; [exact HP|]. split.
  { intros i Hi. destruct (Nat.eqb_spec i d); [lia|].
    replace (2 * i + 1)%nat with (2 * (d - 1 - (d - 1 - i)) + 1)%nat by lia. apply HW. lia. }
  rewrite E. cbn [Rsum]. rewrite Nat.eqb_refl.
  assert (Nd : nth d p 0 = c).
  { rewrite Ep, app_nth2 by (rewrite rev_length; fold d; lia). rewrite rev_length. fold d. now rewrite Nat.sub_diag. }
  rewrite Nd. rewrite Rplus_comm. f_equal.
  rewrite (Rsum_rev d (fun k => nth k rest 0 * x ^ (d - 1 - k) * W k)).
  apply Rsum_ext. intros i Hi. destruct (Nat.eqb_spec i d); [lia|].
  replace (d - 1 - (d - 1 - i))%nat with i by lia.
  assert (Ni : nth i p 0 = nth (d - 1 - i) rest 0).
  { rewrite Ep, app_nth1 by (rewrite rev_length; fold d; lia). rewrite rev_nth by (fold d; lia). fold d.
    f_equal. lia. }
  now rewrite Ni.
Qed.

Lemma peval_Ok_nonempty (p : list R) (x r : R) : peval (A := AR) p x = Ok r -> (1 <= length p)%nat.
Proof.
  destruct p as [|a p]; [discriminate|]. intros _. cbn. lia.
Qed.

(* Higham (5.3): the computed value is the exact value of a polynomial with perturbed coefficients *)
Theorem peval_backward_error_lemma (p : list R) (x r : R) :
  INR (2 * (length p - 1)) * u < 1 -> peval (A := AR) p x = Ok r ->
  exists th : nat -> R,
    (forall i, (i < length p)%nat -> Rabs (th i) <= gam (2 * (length p - 1))) /\
    r = Rsum (length p) (fun i => nth i p 0 * (1 + th i) * x ^ i).
Proof using u_range fadd_ok fmul_ok.
  intros Hn E. pose proof (peval_Ok_nonempty p x r E) as Hl.
  destruct (peval_round p x r E) as (V & HVd & HV & ->).
  exists (fun i => V i - 1). split.
  - intros i Hi. apply (bnd_gam u u_range); [|exact Hn].
    destruct (Nat.eq_dec i (length p - 1)) as [->|Ne]; [exact HVd|].
    apply (bnd_mono u u_range (2 * i + 1)); [lia|apply HV; lia].
  - apply Rsum_ext. intros i Hi. ring.
Qed.

Theorem peval_forward_error_lemma (p : list R) (x r : R) :
  INR (2 * (length p - 1)) * u < 1 -> peval (A := AR) p x = Ok r ->
  Rabs (r - Rsum (length p) (fun i => nth i p 0 * x ^ i))
    <= gam (2 * (length p - 1)) * Rsum (length p) (fun i => Rabs (nth i p 0) * Rabs x ^ i).
Proof using u_range fadd_ok fmul_ok.
  intros Hn E. destruct (peval_backward_error_lemma p x r Hn E) as (th & Hth & ->).
  rewrite <- Rsum_minus.
  rewrite (Rsum_ext _ _ (fun i => (nth i p 0 * x ^ i) * th i)) by (intros; ring).
  eapply Rle_trans; [apply Rsum_pert_le; exact Hth|].
  apply Rmult_le_compat_l; [now apply (gam_nonneg u u_range)|].
  apply Req_le, Rsum_ext. intros i Hi. now rewrite Rabs_mult, RPow_abs.
Qed.

End RoundPoly.
