(* Proofs/JacExactFloatC.v -- package jacexact (C18, "exact on dyadic data"), the complex variant at IEEE binary64:
   Matrix::<Cmplx>::jacobian_cmplx = the model's jacobian at NCplx SAF with d = Cmplx::new(delta, 0.0).  The step is REAL; it is
   added to the real part ( state[j] += (delta, 0) computes (re + delta, im + 0) ) and the quotient is a COMPLEX division by
   (delta, 0):  den = delta delta + 0 0,  re q = (re z delta + im z 0) / den,  im q = (im z delta - re z 0) / den.
   For the affine map  p |-> aff (NCplx SAF) M c p  (the textbook row sums with the model's complex float operations
   cmul / cadd) on GAUSSIAN-DYADIC data
        M_ik = (Mr i k + i Mi i k) 2^eM,  x_k = (Xr k + i Xi k) 2^eX,  c_i = (Cr i + i Ci i) 2^(eM+eX),  delta = Dd 2^eX,  Dd > 0
   with  |Xr k| + Dd < 2^53, |Xi k| < 2^53,
         Sum_k (|Mr i k| + |Mi i k|)(|Xr k| + |Xi k| + Dd) + |Cr i| + |Ci i| < 2^53   for every row,
         Dd^2 < 2^53,  (|Mr i k| + |Mi i k|) Dd^2 < 2^53      (the division by (delta, 0) multiplies by delta first)
   and the exponents eX, eM, eM+eX, 2 eX, eM + 2 eX in [-1074, 971]:  no operation rounds, the returned matrix is M bit for
   bit, every coordinate is restored exactly.  No real or imaginary part of M or x may be the negative zero
   (im x_k = -0 comes back as +0 from (im + 0) - 0). *)
From Coq Require Import ZArith Reals Floats Lia Lra List Bool Arith.
From Flocq Require Import Core.Core IEEE754.BinarySingleNaN IEEE754.PrimFloat.
From OV Require Import Base.Panic Base.Arith Model.Complex Model.Vector Model.Matrix Model.Newton Inst.FloatInst
  Proofs.Matrix Proofs.Newton Proofs.NewtonJac Proofs.ParDotFloat Proofs.ComplexRound Proofs.Round2Lin
  Proofs.JacExactGen Proofs.JacExactFloat.
Import ListNotations.
Local Open Scope Z_scope.

(* a product by a POSITIVE dyadic: a zero product is +0 *)
Lemma Dz_mul_pos x y a b e f : Dz x a e -> Dy y b f -> 0 < b -> Z.abs (a * b) < 2 ^ 53 -> erange (e + f) ->
  Dz (x * y)%float (a * b) (e + f).
Proof.
  intros [Dx Nx] Dy0 Hb Hab He. split; [now apply Dy_mul|].
  pose proof (Dy_mul x y a b e f Dx Dy0 Hab He) as [Fm Rm].
  destruct Dx as [Fx Rx], Dy0 as [Fy Ry], He as [He1 He2]. unfold NNZ, FR in *. rewrite mul_equiv in *.
  pose proof (Bmult_correct prec emax HP HM mode_NE (Prim2B x) (Prim2B y)) as H.
  replace (B2R (Prim2B x) * B2R (Prim2B y))%R with (IZR (a * b) * bpow radix2 (e + f))%R in H
    by (rewrite Rx, Ry, mult_IZR, bpow_plus; ring).
  rewrite round_dy in H by assumption.
  rewrite Rlt_bool_true in H by now apply dy_lt_emax.
  destruct H as (_ & _ & H3). intros Hz. rewrite H3 by (apply finite_not_nan; exact Fm).
  assert (Zab : IZR (a * b) = 0%R).
  { rewrite Rm in Hz. apply Rmult_integral in Hz as [Hz|Hz]; [exact Hz|]. pose proof (bpow_gt_0 radix2 (e + f)). lra. }
  apply eq_IZR in Zab. assert (Za : a = 0) by nia.
  assert (Zx : B2R (Prim2B x) = 0%R) by (rewrite Rx, Za; simpl; ring).
  rewrite (Nx Zx).
  assert (Py : (0 < B2R (Prim2B y))%R).
  { rewrite Ry. apply Rmult_lt_0_compat; [now apply IZR_lt|apply bpow_gt_0]. }
  assert (Sy : Bsign (Prim2B y) = false).
  { rewrite Bsign_Rlt by (auto; lra). apply Rlt_bool_false. lra. }
  now rewrite Sy.
Qed.

(* ---------------------------------------------------------------- Gaussian dyadics *)
Local Notation cf := (cplx AF).
Definition Dc (z : cf) (a b e : Z) : Prop := Dy (re z) a e /\ Dy (im z) b e.
Definition Dzc (z : cf) (a b e : Z) : Prop := Dz (re z) a e /\ Dz (im z) b e.

Lemma Dzc_Dc z a b e : Dzc z a b e -> Dc z a b e.
Proof. intros [[H1 _] [H2 _]]. split; assumption. Qed.

Lemma Dzc_unique z w a b e : Dzc z a b e -> Dzc w a b e -> z = w.
Proof.
  destruct z as [zr zi], w as [wr wi]. cbn [re im]. unfold Dzc. cbn [re im]. intros [Z1 Z2] [W1 W2].
  f_equal; eapply Dz_unique; eauto.
Qed.

Lemma abs_prod_le a b c d : Z.abs (a * c) <= (Z.abs a + Z.abs b) * (Z.abs c + Z.abs d).
Proof. rewrite Z.abs_mul. pose proof (Z.abs_nonneg a). pose proof (Z.abs_nonneg b). pose proof (Z.abs_nonneg c). pose proof (Z.abs_nonneg d). nia. Qed.

Lemma abs_prod2_le a b c d : Z.abs (a * c) + Z.abs (b * d) <= (Z.abs a + Z.abs b) * (Z.abs c + Z.abs d).
Proof. rewrite !Z.abs_mul. pose proof (Z.abs_nonneg a). pose proof (Z.abs_nonneg b). pose proof (Z.abs_nonneg c). pose proof (Z.abs_nonneg d). nia. Qed.

Lemma abs_prod2x_le a b c d : Z.abs (a * d) + Z.abs (b * c) <= (Z.abs a + Z.abs b) * (Z.abs c + Z.abs d).
Proof. rewrite !Z.abs_mul. pose proof (Z.abs_nonneg a). pose proof (Z.abs_nonneg b). pose proof (Z.abs_nonneg c). pose proof (Z.abs_nonneg d). nia. Qed.

Lemma Dc_mul (z w : cf) a b c d e f : Dc z a b e -> Dc w c d f ->
  (Z.abs a + Z.abs b) * (Z.abs c + Z.abs d) < 2 ^ 53 -> erange (e + f) ->
  Dc (cmul z w) (a * c - b * d) (a * d + b * c) (e + f).
Proof.
  intros [Zr Zi] [Wr Wi] Hb He. unfold Dc, cmul. cbn [re im].
  change (@mul AF) with PrimFloat.mul. change (@sub AF) with PrimFloat.sub. change (@add AF) with PrimFloat.add.
  pose proof (abs_prod2_le a b c d) as P1. pose proof (abs_prod2x_le a b c d) as P2.
  pose proof (Z.abs_nonneg (a * c)). pose proof (Z.abs_nonneg (b * d)).
  pose proof (Z.abs_nonneg (a * d)). pose proof (Z.abs_nonneg (b * c)).
  split.
  - apply Dy_sub; [apply Dy_mul; auto; lia|apply Dy_mul; auto; lia|lia|exact He].
  - apply Dy_add; [apply Dy_mul; auto; lia|apply Dy_mul; auto; lia|lia|exact He].
Qed.

(* one row of the complex affine map: the running sum, exactly *)
Lemma crow_sum_Dz (a p : nat -> cf) (Ar Ai Pr Pi W : nat -> Z) (eM eX : Z) (n : nat) :
  (forall k, (k < n)%nat -> Dc (a k) (Ar k) (Ai k) eM) -> (forall k, (k < n)%nat -> Dc (p k) (Pr k) (Pi k) eX) ->
  (forall k, (k < n)%nat -> (Z.abs (Ar k) + Z.abs (Ai k)) * (Z.abs (Pr k) + Z.abs (Pi k)) <= W k) ->
  zsumn n W < 2 ^ 53 -> erange (eM + eX) ->
  Dzc (sum_n (A := CArith SAF) n (fun k => cmul (a k) (p k)))
      (zsumn n (fun k => Ar k * Pr k - Ai k * Pi k)) (zsumn n (fun k => Ar k * Pi k + Ai k * Pr k)) (eM + eX).
Proof.
  intros Ha Hp HW Hb HE. induction n as [|n IH]; cbn [sum_n zsumn].
  - split; apply Dz_zero.
  - pose proof (HW n ltac:(lia)) as Wn.
    assert (W0 : forall k, (k < n)%nat -> 0 <= W k).
    { intros k Hk. pose proof (HW k ltac:(lia)). pose proof (Z.abs_nonneg (Ar k)). pose proof (Z.abs_nonneg (Ai k)).
      pose proof (Z.abs_nonneg (Pr k)). pose proof (Z.abs_nonneg (Pi k)). nia. }
    pose proof (zsumn_nonneg n W W0) as S0. cbn [zsumn] in Hb.
    assert (ASr : Z.abs (zsumn n (fun k => Ar k * Pr k - Ai k * Pi k)) <= zsumn n W).
    { apply zsumn_abs_le. intros k Hk. pose proof (abs_prod2_le (Ar k) (Ai k) (Pr k) (Pi k)). specialize (HW k ltac:(lia)). lia. }
    assert (ASi : Z.abs (zsumn n (fun k => Ar k * Pi k + Ai k * Pr k)) <= zsumn n W).
    { apply zsumn_abs_le. intros k Hk. pose proof (abs_prod2x_le (Ar k) (Ai k) (Pr k) (Pi k)). specialize (HW k ltac:(lia)). lia. }
    pose proof (abs_prod2_le (Ar n) (Ai n) (Pr n) (Pi n)) as P1. pose proof (abs_prod2x_le (Ar n) (Ai n) (Pr n) (Pi n)) as P2.
    destruct (IH ltac:(auto) ltac:(auto) ltac:(auto) ltac:(lia)) as [IHr IHi].
    destruct (Dc_mul (a n) (p n) (Ar n) (Ai n) (Pr n) (Pi n) eM eX (Ha n ltac:(lia)) (Hp n ltac:(lia)) ltac:(lia) HE) as [Mr Mi].
    change (@add (CArith SAF)) with (@cadd AF). unfold Dzc, cadd. cbn [re im].
    change (@add AF) with PrimFloat.add.
    split; (apply Dz_add; [assumption|assumption|lia|exact HE]).
Qed.

Lemma zsumn_pert_re n (a b X Y : nat -> Z) j D :
  zsumn n (fun k => a k * (if (k =? j)%nat then X k + D else X k) - b k * Y k) =
  zsumn n (fun k => a k * X k - b k * Y k) + (if (j <? n)%nat then a j * D else 0).
Proof.
  induction n as [|n IH]; cbn [zsumn]; [reflexivity|]. rewrite IH.
  destruct (Nat.eqb_spec n j) as [->|Hn].
  - destruct (Nat.ltb_spec j j); [lia|]. destruct (Nat.ltb_spec j (S j)); [|lia]. ring.
  - destruct (Nat.ltb_spec j n), (Nat.ltb_spec j (S n)); try lia; ring.
Qed.

Lemma zsumn_pert_im n (a b X Y : nat -> Z) j D :
  zsumn n (fun k => a k * Y k + b k * (if (k =? j)%nat then X k + D else X k)) =
  zsumn n (fun k => a k * Y k + b k * X k) + (if (j <? n)%nat then b j * D else 0).
Proof.
  induction n as [|n IH]; cbn [zsumn]; [reflexivity|]. rewrite IH.
  destruct (Nat.eqb_spec n j) as [->|Hn].
  - destruct (Nat.ltb_spec j j); [lia|]. destruct (Nat.ltb_spec j (S j)); [|lia]. ring.
  - destruct (Nat.ltb_spec j n), (Nat.ltb_spec j (S n)); try lia; ring.
Qed.

(* ================================================================ the complex Jacobian of an affine map on Gaussian-dyadic data *)
Section AffineFloatC.
Variables (M : matrix (CArith SAF)) (c x : list cf) (d : PrimFloat.float).
Variables (Mr Mi : nat -> nat -> Z) (Cr Ci Xr Xi : nat -> Z) (Dd eM eX : Z).
Notation OC := (NCplx SAF).
Notation dc := (mkC (A := AF) d 0%float).
Notation cz := (@zero (NA OC)).

Hypothesis Wf : wf M.
Hypothesis Lx : length x = cols M.
Hypothesis HMd : forall i j, (i < rows M)%nat -> (j < cols M)%nat -> Dzc (ment OC M i j) (Mr i j) (Mi i j) eM.
Hypothesis HXd : forall j, (j < cols M)%nat -> Dzc (nth j x cz) (Xr j) (Xi j) eX.
Hypothesis HCd : forall i, (i < rows M)%nat -> Dc (nth i c cz) (Cr i) (Ci i) (eM + eX).
Hypothesis Hdd : Dy d Dd eX.
Hypothesis HDpos : 0 < Dd.
Hypothesis HeX : erange eX.
Hypothesis HeM : erange eM.
Hypothesis HeE : erange (eM + eX).
Hypothesis HeXX : erange (eX + eX).
Hypothesis HeEX : erange (eM + eX + eX).
Hypothesis HbX : forall j, (j < cols M)%nat -> Z.abs (Xr j) + Dd < 2 ^ 53 /\ Z.abs (Xi j) < 2 ^ 53.
Hypothesis Hrow : forall i, (i < rows M)%nat ->
  zsumn (cols M) (fun k => (Z.abs (Mr i k) + Z.abs (Mi i k)) * (Z.abs (Xr k) + Z.abs (Xi k) + Dd))
  + (Z.abs (Cr i) + Z.abs (Ci i)) < 2 ^ 53.
Hypothesis HbD : Dd * Dd < 2 ^ 53.
Hypothesis HbMD : forall i j, (i < rows M)%nat -> (j < cols M)%nat -> (Z.abs (Mr i j) + Z.abs (Mi i j)) * (Dd * Dd) < 2 ^ 53.

(* state[k] += (delta, 0); state[k] -= (delta, 0)  returns x_k, bit for bit *)
Lemma caff_restore_exact k : (k < length x)%nat -> restored OC x dc k = nth k x cz.
Proof.
  intros Hk. rewrite Lx in Hk. unfold restored.
  destruct (HXd k Hk) as [DXr DXi]. destruct (HbX k Hk) as [BXr BXi].
  apply (Dzc_unique _ _ (Xr k) (Xi k) eX); [|split; assumption].
  change (@add (NA OC)) with (@cadd AF). change (@sub (NA OC)) with (@csub AF).
  unfold Dzc, cadd, csub. cbn [re im]. change (@add AF) with PrimFloat.add. change (@sub AF) with PrimFloat.sub.
  change (@zero AF) with 0%float.
  split.
  - assert (D1 : Dz (re (nth k x cz) + d)%float (Xr k + Dd) eX) by (apply Dz_add; auto; lia).
    assert (D2 : Dz (re (nth k x cz) + d - d)%float (Xr k + Dd - Dd) eX) by (apply Dz_sub; auto; lia).
    replace (Xr k + Dd - Dd) with (Xr k) in D2 by lia. exact D2.
  - assert (D1 : Dz (im (nth k x cz) + 0)%float (Xi k + 0) eX) by (apply Dz_add; auto; [apply Dy_zero|lia]).
    assert (D2 : Dz (im (nth k x cz) + 0 - 0)%float (Xi k + 0 - 0) eX) by (apply Dz_sub; auto; [apply Dy_zero|lia]).
    replace (Xi k + 0 - 0) with (Xi k) in D2 by lia. exact D2.
Qed.

Definition cpertz (j k : nat) : Z := if (k =? j)%nat then Xr k + Dd else Xr k.

Lemma cpert_Dc j k : (j < cols M)%nat -> (k < cols M)%nat -> Dc (nth k (perturbed OC x dc j) cz) (cpertz j k) (Xi k) eX.
Proof.
  intros Hj Hk. assert (Hjl : (j < length x)%nat) by (rewrite Lx; exact Hj).
  unfold perturbed, cpertz. rewrite nth_upd_list by exact Hjl.
  destruct (Nat.eqb_spec k j) as [->|_]; [|apply Dzc_Dc, HXd; exact Hk].
  destruct (HXd j Hj) as [DXr DXi]. destruct (HbX j Hj) as [BXr BXi].
  change (@add (NA OC)) with (@cadd AF). unfold Dc, cadd. cbn [re im]. change (@add AF) with PrimFloat.add.
  change (@zero AF) with 0%float.
  split.
  - apply Dy_add; auto; [apply Dz_Dy; exact DXr|lia].
  - replace (Xi j) with (Xi j + 0) by lia. apply Dy_add; auto; [apply Dz_Dy; exact DXi|apply Dy_zero|lia].
Qed.

Lemma cpertz_abs j k : Z.abs (cpertz j k) <= Z.abs (Xr k) + Dd.
Proof. unfold cpertz. destruct (k =? j)%nat; lia. Qed.

Lemma caff_comp_Dz (p : list cf) (Pr Pi : nat -> Z) i :
  (forall k, (k < cols M)%nat -> Dc (nth k p cz) (Pr k) (Pi k) eX) ->
  (forall k, (k < cols M)%nat -> Z.abs (Pr k) + Z.abs (Pi k) <= Z.abs (Xr k) + Z.abs (Xi k) + Dd) -> (i < rows M)%nat ->
  Dzc (nth i (aff OC M c p) cz)
      (zsumn (cols M) (fun k => Mr i k * Pr k - Mi i k * Pi k) + Cr i)
      (zsumn (cols M) (fun k => Mr i k * Pi k + Mi i k * Pr k) + Ci i) (eM + eX).
Proof.
  intros HP HB Hi. rewrite aff_nth by exact Hi.
  pose proof (Hrow i Hi) as Hr.
  set (Wk := fun k => (Z.abs (Mr i k) + Z.abs (Mi i k)) * (Z.abs (Xr k) + Z.abs (Xi k) + Dd)) in *.
  assert (HW : forall k, (k < cols M)%nat -> (Z.abs (Mr i k) + Z.abs (Mi i k)) * (Z.abs (Pr k) + Z.abs (Pi k)) <= Wk k).
  { intros k Hk. unfold Wk. specialize (HB k Hk). pose proof (Z.abs_nonneg (Mr i k)). pose proof (Z.abs_nonneg (Mi i k)). nia. }
  assert (ASr : Z.abs (zsumn (cols M) (fun k => Mr i k * Pr k - Mi i k * Pi k)) <= zsumn (cols M) Wk).
  { apply zsumn_abs_le. intros k Hk. pose proof (abs_prod2_le (Mr i k) (Mi i k) (Pr k) (Pi k)). specialize (HW k Hk). lia. }
  assert (ASi : Z.abs (zsumn (cols M) (fun k => Mr i k * Pi k + Mi i k * Pr k)) <= zsumn (cols M) Wk).
  { apply zsumn_abs_le. intros k Hk. pose proof (abs_prod2x_le (Mr i k) (Mi i k) (Pr k) (Pi k)). specialize (HW k Hk). lia. }
  destruct (crow_sum_Dz (fun k => ment OC M i k) (fun k => nth k p cz) (Mr i) (Mi i) Pr Pi Wk eM eX (cols M)) as [Sr Si]; auto.
  { intros k Hk. apply Dzc_Dc, HMd; auto. }
  { pose proof (Z.abs_nonneg (Cr i)). pose proof (Z.abs_nonneg (Ci i)). lia. }
  destruct (HCd i Hi) as [DCr DCi].
  change (@mul (NA OC)) with (@cmul AF). change (@add (NA OC)) with (@cadd AF).
  unfold Dzc, cadd at 1. cbn [re im]. change (@add AF) with PrimFloat.add.
  pose proof (Z.abs_nonneg (Cr i)). pose proof (Z.abs_nonneg (Ci i)).
  split; (apply Dz_add; [assumption|assumption|lia|exact HeE]).
Qed.

(* the quotient  z / (delta, 0)  of an exactly held  z = (P + i Q) Dd 2^(eM+eX) *)
Lemma cdiv_real_Dz (z : cf) (P Q : Z) :
  Dzc z (P * Dd) (Q * Dd) (eM + eX) -> (Z.abs P + Z.abs Q) * (Dd * Dd) < 2 ^ 53 ->
  exists q, cdiv z dc = Ok q /\ Dzc q P Q eM.
Proof.
  intros [Zr Zi] Hb. unfold cdiv. cbn [re im]. change (@div AF) with (fun a b : PrimFloat.float => Ok (a / b)%float).
  cbn beta. cbn [bind]. eexists. split; [reflexivity|].
  change (@mul AF) with PrimFloat.mul. change (@sub AF) with PrimFloat.sub. change (@add AF) with PrimFloat.add.
  pose proof (Z.abs_nonneg P) as AP. pose proof (Z.abs_nonneg Q) as AQ.
  assert (BP : Z.abs (P * Dd * Dd) < 2 ^ 53) by (rewrite !Z.abs_mul, (Z.abs_eq Dd) by lia; nia).
  assert (BQ : Z.abs (Q * Dd * Dd) < 2 ^ 53) by (rewrite !Z.abs_mul, (Z.abs_eq Dd) by lia; nia).
  assert (BP1 : Z.abs P < 2 ^ 53) by nia. assert (BQ1 : Z.abs Q < 2 ^ 53) by nia.
  (* den = delta delta + 0 0 *)
  assert (Dden : Dy (d * d + 0 * 0)%float (Dd * Dd) (eX + eX)).
  { replace (Dd * Dd) with (Dd * Dd + 0 * 0) by ring.
    apply Dy_add; [apply Dy_mul; auto; rewrite Z.abs_mul, (Z.abs_eq Dd) by lia; exact HbD
                  |apply Dy_mul; auto; try apply Dy_zero; simpl; lia| |exact HeXX].
    replace (Dd * Dd + 0 * 0) with (Dd * Dd) by ring. rewrite Z.abs_mul, (Z.abs_eq Dd) by lia. exact HbD. }
  (* numerators *)
  assert (Dr : Dz (re z * d + im z * 0)%float (P * (Dd * Dd)) (eM + eX + eX)).
  { replace (P * (Dd * Dd)) with (P * Dd * Dd + Q * Dd * 0) by ring.
    apply Dz_add; [apply Dz_mul_pos; auto|apply Dy_mul; [exact (Dz_Dy _ _ _ Zi)|apply Dy_zero| |exact HeEX]| |exact HeEX].
    - rewrite Z.mul_0_r. simpl. lia.
    - replace (P * Dd * Dd + Q * Dd * 0) with (P * Dd * Dd) by ring. exact BP. }
  assert (Di : Dz (im z * d - re z * 0)%float (Q * (Dd * Dd)) (eM + eX + eX)).
  { replace (Q * (Dd * Dd)) with (Q * Dd * Dd - P * Dd * 0) by ring.
    apply Dz_sub; [apply Dz_mul_pos; auto|apply Dy_mul; [exact (Dz_Dy _ _ _ Zr)|apply Dy_zero| |exact HeEX]| |exact HeEX].
    - rewrite Z.mul_0_r. simpl. lia.
    - replace (Q * Dd * Dd - P * Dd * 0) with (Q * Dd * Dd) by ring. exact BQ. }
  assert (PD : 0 < Dd * Dd) by nia.
  unfold Dzc. cbn [re im]. replace eM with (eM + eX + eX - (eX + eX)) by lia.
  split; (eapply Dz_div; [eassumption|exact Dden|exact PD|assumption|]);
    replace (eM + eX + eX - (eX + eX)) with eM by lia; exact HeM.
Qed.

Lemma jacobian_affine_exact_float_C_lemma :
  jacobian_tr OC (fun p => Ok (aff OC M c p)) x dc =
    Ok (x, M, x :: map (perturbed OC x dc) (seq 0 (length x))).
Proof.
  set (F := fun p : list (NA OC) => Ok (aff OC M c p)).
  destruct (jacobian_shape_lemma OC F x dc (rows M)) as (J & evs & EJ & WJ & RJ & CJ & _).
  { intros y _. eexists. split; [reflexivity|apply aff_length]. }
  { intros a. unfold div. cbn [NA NCplx CArith]. unfold cdiv. cbn. eexists. reflexivity. }
  pose proof EJ as EJ'. unfold jacobian in EJ'. inv_bind EJ'. destruct x0 as [[st J'] ev]. injection EJ' as -> ->.
  pose proof (jacobian_tr_state OC F x dc st J evs E) as Est.
  assert (Sx : st = x) by (rewrite Est; apply (state_at_exact OC x dc); [exact caff_restore_exact|apply le_n]).
  clear Est. subst st.
  destruct (jacobian_gen_exact_restore OC F x dc J evs caff_restore_exact EJ) as (Ev & f0 & E0 & _ & _ & _ & Hent).
  unfold F in E0. injection E0 as <-.
  rewrite E. f_equal. f_equal; [|exact Ev]. f_equal.
  apply (nw_mat_ext OC J M WJ Wf RJ (eq_trans CJ Lx)).
  intros i j Hi Hj. assert (Hjl : (j < length x)%nat) by (rewrite Lx; exact Hj).
  destruct (Hent i j) as (fj & q & Ej & _ & Eq & ->); [rewrite aff_length; exact Hi|exact Hjl|].
  unfold F in Ej. injection Ej as <-. f_equal.
  (* the two evaluations, exactly *)
  pose proof (caff_comp_Dz x Xr Xi i (fun k Hk => Dzc_Dc _ _ _ _ (HXd k Hk)) ltac:(intros; lia) Hi) as D0.
  pose proof (caff_comp_Dz (perturbed OC x dc j) (cpertz j) Xi i (fun k Hk => cpert_Dc j k Hj Hk)
                ltac:(intros k Hk; pose proof (cpertz_abs j k); lia) Hi) as D1.
  unfold cpertz in D1.
  rewrite (zsumn_pert_re (cols M) (Mr i) (Mi i) Xr Xi j Dd), (zsumn_pert_im (cols M) (Mr i) (Mi i) Xr Xi j Dd) in D1.
  destruct (Nat.ltb_spec j (cols M)) as [_|]; [|lia].
  set (S0r := zsumn (cols M) (fun k => Mr i k * Xr k - Mi i k * Xi k)) in *.
  set (S0i := zsumn (cols M) (fun k => Mr i k * Xi k + Mi i k * Xr k)) in *.
  (* bounds on the numerators of the difference *)
  pose proof (Hrow i Hi) as Hr.
  assert (W0 : forall k, (k < cols M)%nat -> 0 <= (Z.abs (Mr i k) + Z.abs (Mi i k)) * (Z.abs (Xr k) + Z.abs (Xi k) + Dd)).
  { intros k Hk. pose proof (Z.abs_nonneg (Mr i k)). pose proof (Z.abs_nonneg (Mi i k)).
    pose proof (Z.abs_nonneg (Xr k)). pose proof (Z.abs_nonneg (Xi k)). nia. }
  pose proof (zsumn_term (cols M) _ j W0 Hj) as Tj. cbv beta in Tj.
  pose proof (Z.abs_nonneg (Mr i j)) as A0. pose proof (Z.abs_nonneg (Mi i j)) as A0'.
  pose proof (Z.abs_nonneg (Xr j)) as A1. pose proof (Z.abs_nonneg (Xi j)) as A1'.
  pose proof (Z.abs_nonneg (Cr i)) as A2. pose proof (Z.abs_nonneg (Ci i)) as A2'.
  assert (Bdr : Z.abs (Mr i j * Dd) < 2 ^ 53) by (rewrite Z.abs_mul, (Z.abs_eq Dd) by lia; nia).
  assert (Bdi : Z.abs (Mi i j * Dd) < 2 ^ 53) by (rewrite Z.abs_mul, (Z.abs_eq Dd) by lia; nia).
  destruct D0 as [D0r D0i], D1 as [D1r D1i].
  assert (Ddiff : Dzc (csub (nth i (aff OC M c (perturbed OC x dc j)) cz) (nth i (aff OC M c x) cz))
                      (Mr i j * Dd) (Mi i j * Dd) (eM + eX)).
  { unfold Dzc, csub. cbn [re im]. change (@sub AF) with PrimFloat.sub. split.
    - replace (Mr i j * Dd) with (S0r + Mr i j * Dd + Cr i - (S0r + Cr i)) by ring.
      apply Dz_sub; [exact D1r|exact (Dz_Dy _ _ _ D0r)| |exact HeE].
      replace (S0r + Mr i j * Dd + Cr i - (S0r + Cr i)) with (Mr i j * Dd) by ring. exact Bdr.
    - replace (Mi i j * Dd) with (S0i + Mi i j * Dd + Ci i - (S0i + Ci i)) by ring.
      apply Dz_sub; [exact D1i|exact (Dz_Dy _ _ _ D0i)| |exact HeE].
      replace (S0i + Mi i j * Dd + Ci i - (S0i + Ci i)) with (Mi i j * Dd) by ring. exact Bdi. }
  destruct (cdiv_real_Dz _ (Mr i j) (Mi i j) Ddiff (HbMD i j Hi Hj)) as (q' & Eq' & Dq).
  pose proof (eq_trans (eq_sym Eq') Eq) as EE. injection EE as <-.
  exact (Dzc_unique _ _ _ _ _ Dq (HMd i j Hi Hj)).
Qed.

End AffineFloatC.

(* ---------------------------------------------------------------- the statement with elementary hypotheses *)
Local Open Scope R_scope.
(* z is finite in both parts, holds (a + i b) 2^e exactly *)
Definition gdy (z : cf) (a b e : Z) : Prop :=
  ffinite (re z) /\ FR (re z) = IZR a * bpow radix2 e /\ ffinite (im z) /\ FR (im z) = IZR b * bpow radix2 e.
(* neither part is the negative zero *)
Definition cnnz (z : cf) : Prop := re z <> (-0)%float /\ im z <> (-0)%float.

Lemma jacobian_affine_exact_float_C_thm (M : matrix (CArith SAF)) (c x : list cf) (d : PrimFloat.float)
    (Mr Mi : nat -> nat -> Z) (Cr Ci Xr Xi : nat -> Z) (Dd eM eX : Z) :
  wf M -> length x = cols M ->
  (forall i j, (i < rows M)%nat -> (j < cols M)%nat ->
     gdy (ment (NCplx SAF) M i j) (Mr i j) (Mi i j) eM /\ cnnz (ment (NCplx SAF) M i j)) ->
  (forall j, (j < cols M)%nat -> gdy (nth j x (@zero (CArith SAF))) (Xr j) (Xi j) eX /\ cnnz (nth j x (@zero (CArith SAF)))) ->
  (forall i, (i < rows M)%nat -> gdy (nth i c (@zero (CArith SAF))) (Cr i) (Ci i) (eM + eX)) ->
  ffinite d -> FR d = IZR Dd * bpow radix2 eX -> (0 < Dd)%Z ->
  (-1074 <= eX <= 971)%Z -> (-1074 <= eM <= 971)%Z -> (-1074 <= eM + eX <= 971)%Z ->
  (-1074 <= eX + eX <= 971)%Z -> (-1074 <= eM + eX + eX <= 971)%Z ->
  (forall j, (j < cols M)%nat -> (Z.abs (Xr j) + Dd < 2 ^ 53 /\ Z.abs (Xi j) < 2 ^ 53)%Z) ->
  (forall i, (i < rows M)%nat ->
     (zsumn (cols M) (fun k => (Z.abs (Mr i k) + Z.abs (Mi i k)) * (Z.abs (Xr k) + Z.abs (Xi k) + Dd))
      + (Z.abs (Cr i) + Z.abs (Ci i)) < 2 ^ 53)%Z) ->
  (Dd * Dd < 2 ^ 53)%Z ->
  (forall i j, (i < rows M)%nat -> (j < cols M)%nat -> ((Z.abs (Mr i j) + Z.abs (Mi i j)) * (Dd * Dd) < 2 ^ 53)%Z) ->
  jacobian_tr (NCplx SAF) (fun p => Ok (aff (NCplx SAF) M c p)) x (emb (NCplx SAF) d) =
    Ok (x, M, x :: map (perturbed (NCplx SAF) x (emb (NCplx SAF) d)) (seq 0 (length x))) /\
  jacobian (NCplx SAF) (fun p => Ok (aff (NCplx SAF) M c p)) x (emb (NCplx SAF) d) =
    Ok (M, x :: map (perturbed (NCplx SAF) x (emb (NCplx SAF) d)) (seq 0 (length x))).
Proof.
  intros Wf Lx HM HX HC Fd Rd HD HeX HeM HeE HeXX HeEX HbX Hrow HbD HbMD.
  assert (E : jacobian_tr (NCplx SAF) (fun p => Ok (aff (NCplx SAF) M c p)) x (emb (NCplx SAF) d) =
              Ok (x, M, x :: map (perturbed (NCplx SAF) x (emb (NCplx SAF) d)) (seq 0 (length x)))).
  { apply (jacobian_affine_exact_float_C_lemma M c x d Mr Mi Cr Ci Xr Xi Dd eM eX Wf Lx).
    - intros i j Hi Hj. destruct (HM i j Hi Hj) as ((F1 & R1 & F2 & R2) & N1 & N2).
      split; (split; [split; assumption|now apply NNZ_neg0]).
    - intros j Hj. destruct (HX j Hj) as ((F1 & R1 & F2 & R2) & N1 & N2).
      split; (split; [split; assumption|now apply NNZ_neg0]).
    - intros i Hi. destruct (HC i Hi) as (F1 & R1 & F2 & R2). split; split; assumption.
    - split; assumption.
    - exact HD.
    - exact HeX.
    - exact HeM.
    - exact HeE.
    - exact HeXX.
    - exact HeEX.
    - exact HbX.
    - exact Hrow.
    - exact HbD.
    - exact HbMD. }
  split; [exact E|]. unfold jacobian. rewrite E. reflexivity.
Qed.
Local Close Scope R_scope.

(* ---------------------------------------------------------------- non-vacuity: delta = 2^-20, Gaussian-integer 2 x 2 matrix *)
Local Notation Cf a b := (mkC (A := AF) a%float b%float).
Definition exc_M : matrix (CArith SAF) := @mkM (CArith SAF) [Cf 1 2; Cf (-1) 0; Cf 0 3; Cf 2 (-1)] 2 2.
Definition exc_c : list cf := [Cf 0.5 0.25; Cf 1 0].
Definition exc_x : list cf := [Cf 0.5 (-1.25); Cf 3 0.75].
Definition exc_Mr (i j : nat) : Z := nth (i * 2 + j) [1; -1; 0; 2]%Z 0%Z.
Definition exc_Mi (i j : nat) : Z := nth (i * 2 + j) [2; 0; 3; -1]%Z 0%Z.
Definition exc_Xr (j : nat) : Z := nth j [524288; 3145728]%Z 0%Z.
Definition exc_Xi (j : nat) : Z := nth j [-1310720; 786432]%Z 0%Z.
Definition exc_Cr (i : nat) : Z := nth i [524288; 1048576]%Z 0%Z.
Definition exc_Ci (i : nat) : Z := nth i [262144; 0]%Z 0%Z.

Lemma gdy_intro (z : cf) a b e : Dy (re z) a e -> Dy (im z) b e -> gdy z a b e.
Proof. intros [F1 R1] [F2 R2]. repeat split; assumption. Qed.
Ltac gdyw := apply gdy_intro; cbn; dyw.
Ltac cnnzw := split; cbn; neg0w.

Lemma exc_M_dy i j : (i < 2)%nat -> (j < 2)%nat ->
  gdy (ment (NCplx SAF) exc_M i j) (exc_Mr i j) (exc_Mi i j) 0 /\ cnnz (ment (NCplx SAF) exc_M i j).
Proof.
  intros Hi Hj.
  do 2 (destruct i as [|i]; [do 2 (destruct j as [|j]; [split; [gdyw|cnnzw]|]); lia|]). lia.
Qed.
Lemma exc_x_dy j : (j < 2)%nat ->
  gdy (nth j exc_x (@zero (CArith SAF))) (exc_Xr j) (exc_Xi j) (-20) /\ cnnz (nth j exc_x (@zero (CArith SAF))).
Proof. intros Hj. do 2 (destruct j as [|j]; [split; [gdyw|cnnzw]|]). lia. Qed.
Lemma exc_c_dy i : (i < 2)%nat -> gdy (nth i exc_c (@zero (CArith SAF))) (exc_Cr i) (exc_Ci i) (0 + -20).
Proof. intros Hi. do 2 (destruct i as [|i]; [gdyw|]). lia. Qed.
Lemma exc_bx j : (j < 2)%nat -> Z.abs (exc_Xr j) + 1 < 2 ^ 53 /\ Z.abs (exc_Xi j) < 2 ^ 53.
Proof. intros Hj. do 2 (destruct j as [|j]; [cbn; lia|]). lia. Qed.
Lemma exc_brow i : (i < 2)%nat ->
  zsumn 2 (fun k => (Z.abs (exc_Mr i k) + Z.abs (exc_Mi i k)) * (Z.abs (exc_Xr k) + Z.abs (exc_Xi k) + 1))
  + (Z.abs (exc_Cr i) + Z.abs (exc_Ci i)) < 2 ^ 53.
Proof. intros Hi. do 2 (destruct i as [|i]; [cbn; lia|]). lia. Qed.
Lemma exc_bmd i j : (i < 2)%nat -> (j < 2)%nat -> (Z.abs (exc_Mr i j) + Z.abs (exc_Mi i j)) * (1 * 1) < 2 ^ 53.
Proof. intros Hi Hj. do 2 (destruct i as [|i]; [do 2 (destruct j as [|j]; [cbn; lia|]); lia|]). lia. Qed.

Example exc_value :
  jacobian (NCplx SAF) (fun p => Ok (aff (NCplx SAF) exc_M exc_c p)) exc_x (emb (NCplx SAF) exj_d) =
    Ok (exc_M, [exc_x; [Cf 0x1.00002p-1 (-1.25); Cf 3 0.75]; [Cf 0.5 (-1.25); Cf 0x1.800008p+1 0.75]]).
Proof. vm_compute. reflexivity. Qed.

(* outside the hypotheses (delta = 1e-8, x_0 = 0.9999999999 - 1.25 i): no non-zero part of the result is exact -- the entry
   -1 + 0 i comes back with imaginary part -2.2e-8 -- and re x_0 comes back one ulp smaller *)
Example exc_inexact :
  exists st J evs,
    jacobian_tr (NCplx SAF) (fun p => Ok (aff (NCplx SAF) exc_M exc_c p)) [Cf 0x1.ffffffff2419p-1 (-1.25); Cf 3 0.75]
                (emb (NCplx SAF) exj_d2) = Ok (st, J, evs) /\
    map (fun k => PrimFloat.eqb (re (nth k (buf J) (@zero (CArith SAF)))) (re (nth k (buf exc_M) (@zero (CArith SAF))))) (seq 0 4) =
      [false; false; true; false] /\
    PrimFloat.ltb (im (nth 1 (buf J) (@zero (CArith SAF)))) 0%float = true /\
    PrimFloat.ltb (re (nth 0 st (@zero (CArith SAF)))) 0x1.ffffffff2419p-1%float = true.
Proof. do 3 eexists. split; [vm_compute; reflexivity|]. repeat split; vm_compute; reflexivity. Qed.

(* the sign hypothesis is needed: im x_0 = -0 is "restored" to +0 -- in fact already the first call is made at im = +0 *)
Example exc_negzero :
  exists st J evs,
    jacobian_tr (NCplx SAF) (fun p => Ok (aff (NCplx SAF) exc_M exc_c p)) [Cf 0.5 (-0); Cf 3 0.75] (emb (NCplx SAF) exj_d)
      = Ok (st, J, evs) /\
    PrimFloat.get_sign (im (nth 0 st (@zero (CArith SAF)))) = false /\
    PrimFloat.get_sign (im (nth 0 (nth 1 evs []) (@zero (CArith SAF)))) = false /\
    PrimFloat.get_sign (-0)%float = true.
Proof. do 3 eexists. split; [vm_compute; reflexivity|]. repeat split; vm_compute; reflexivity. Qed.

(* named constants for the pinned statements *)
Definition exc_x2 : list cf := [Cf 0x1.ffffffff2419p-1 (-1.25); Cf 3 0.75].
Definition exc_xneg : list cf := [Cf 0.5 (-0); Cf 3 0.75].
