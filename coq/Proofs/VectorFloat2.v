(* Proofs/VectorFloat2.v -- C15 over IEEE binary64, continued: the element-wise operators and norm_1 on
   integer-valued f64 data return exactly the integer values of their definitions (no rounding), as long as
   every result stays below 2^53 in absolute value. *)
From Coq Require Import ZArith Reals Floats Lia Lra List Bool Arith.
From Flocq Require Import Core.Core IEEE754.BinarySingleNaN IEEE754.PrimFloat.
From OV Require Import Base.Panic Base.Arith Model.Vector Model.ParDot Proofs.ParDot Proofs.ParDotFloat Proofs.VectorFloat
                       Inst.FloatInst.
Import ListNotations.
Local Open Scope Z_scope.

Notation HP := Flocq.IEEE754.PrimFloat.Hprec.
Notation HM := Flocq.IEEE754.PrimFloat.Hmax.

Lemma ExactW_add x y a b : ExactW x a -> ExactW y b -> Z.abs (a + b) < 2 ^ 53 -> ExactW (x + y)%float (a + b).
Proof.
  intros [Fx Rx] [Fy Ry] Hb. unfold ExactW. rewrite add_equiv.
  pose proof (Bplus_correct prec emax HP HM mode_NE (Prim2B x) (Prim2B y) Fx Fy) as H.
  rewrite Rx, Ry, <- plus_IZR, round_int in H by exact Hb.
  rewrite Rlt_bool_true in H by now apply int_lt_emax.
  destruct H as (H1 & H2 & _). auto.
Qed.

Lemma ExactW_sub x y a b : ExactW x a -> ExactW y b -> Z.abs (a - b) < 2 ^ 53 -> ExactW (x - y)%float (a - b).
Proof.
  intros [Fx Rx] [Fy Ry] Hb. unfold ExactW. rewrite sub_equiv.
  pose proof (Bminus_correct prec emax HP HM mode_NE (Prim2B x) (Prim2B y) Fx Fy) as H.
  rewrite Rx, Ry, <- minus_IZR, round_int in H by exact Hb.
  rewrite Rlt_bool_true in H by now apply int_lt_emax.
  destruct H as (H1 & H2 & _). auto.
Qed.

Lemma ExactW_opp x a : ExactW x a -> ExactW (- x)%float (- a).
Proof.
  intros [Fx Rx]. unfold ExactW. rewrite opp_equiv, is_finite_Bopp, B2R_Bopp, Rx, opp_IZR. auto.
Qed.

(* Signed::abs of traits.rs: if x < 0 { -x } else { x } *)
Lemma ExactW_f_abs x a : ExactW x a -> ExactW (f_abs x) (Z.abs a).
Proof.
  intros Hx. pose proof Hx as [Fx Rx]. unfold f_abs. rewrite ltb_equiv.
  assert (F0 : is_finite (Prim2B 0%float) = true) by reflexivity.
  rewrite (Bltb_correct prec emax (Prim2B x) (Prim2B 0%float) Fx F0). rewrite Rx.
  change (B2R (Prim2B 0%float)) with 0%R.
  destruct (Rlt_bool_spec (IZR a) 0) as [H|H].
  - apply lt_IZR in H. rewrite Z.abs_neq by lia. now apply ExactW_opp.
  - apply le_IZR in H. rewrite Z.abs_eq by lia. exact Hx.
Qed.

(* element-wise + - and scaling on integer data *)
Lemma zipw_exact (f : PrimFloat.float -> PrimFloat.float -> PrimFloat.float) (g : Z -> Z -> Z)
  (Hfg : forall x y a b, ExactW x a -> ExactW y b -> Z.abs (g a b) < 2 ^ 53 -> ExactW (f x y) (g a b))
  (u w : list PrimFloat.float) (zs ws : list Z) :
  Forall2 ExactW u zs -> Forall2 ExactW w ws ->
  Forall (fun p => Z.abs (g (fst p) (snd p)) < 2 ^ 53) (combine zs ws) ->
  Forall2 ExactW (zipw (A := AF) f u w) (map (fun p => g (fst p) (snd p)) (combine zs ws)).
Proof.
  intros Hu; revert w ws. induction Hu as [|x a u zs Hx Hu IH]; intros w ws Hw Hb.
  - constructor.
  - destruct Hw as [|y b w ws Hy Hw]; [constructor|].
    cbn [combine map] in *. inversion Hb as [|? ? Hb1 Hb2]; subst. cbn [fst snd] in *.
    change (zipw (A := AF) f (x :: u) (y :: w)) with (f x y :: zipw (A := AF) f u w).
    constructor; [now apply Hfg|now apply IH].
Qed.

Lemma elementwise_exact_float_lemma (u w : list PrimFloat.float) (zs ws : list Z) (c : PrimFloat.float) (k : Z) :
  Forall2 ExactW u zs -> Forall2 ExactW w ws -> length zs = length ws -> ExactW c k ->
  (Forall (fun p => Z.abs (fst p + snd p) < 2 ^ 53) (combine zs ws) ->
     exists s, vadd (A := AF) u w = Ok s /\ Forall2 ExactW s (map (fun p => fst p + snd p) (combine zs ws))) /\
  (Forall (fun p => Z.abs (fst p - snd p) < 2 ^ 53) (combine zs ws) ->
     exists d, vsub (A := AF) u w = Ok d /\ Forall2 ExactW d (map (fun p => fst p - snd p) (combine zs ws))) /\
  (Forall (fun z => Z.abs (z * k) < 2 ^ 53) zs -> Forall2 ExactW (vscale (A := AF) u c) (map (fun z => z * k) zs)) /\
  Forall2 ExactW (vneg (A := AF) u) (map Z.opp zs) /\
  Forall2 ExactW (vabs (A := AF) u) (map Z.abs zs).
Proof.
  intros Hu Hw Hl Hc.
  assert (Lu : length u = length w).
  { rewrite (Forall2_len _ _ _ Hu), (Forall2_len _ _ _ Hw). exact Hl. }
  split; [|split; [|split; [|split]]].
  - intros Hb. exists (zipw (A := AF) PrimFloat.add u w). split.
    + unfold vadd. change (@length (T AF)) with (@length PrimFloat.float). now rewrite Lu, Nat.eqb_refl.
    + apply zipw_exact; auto. intros; now apply ExactW_add.
  - intros Hb. exists (zipw (A := AF) PrimFloat.sub u w). split.
    + unfold vsub. change (@length (T AF)) with (@length PrimFloat.float). now rewrite Lu, Nat.eqb_refl.
    + apply zipw_exact; auto. intros; now apply ExactW_sub.
  - intros Hb. unfold vscale. clear Hw Hl Lu. induction Hu as [|x a u zs Hx Hu IH]; cbn [map]; constructor.
    + inversion Hb; subst. now apply ExactW_mul.
    + apply IH. now inversion Hb.
  - unfold vneg. clear Hw Hl Lu. induction Hu; cbn [map]; constructor; auto. now apply ExactW_opp.
  - unfold vabs. clear Hw Hl Lu. induction Hu; cbn [map]; constructor; auto. now apply ExactW_f_abs.
Qed.

(* norm_1 on integer data: exactly the sum of the absolute values *)
Lemma norm_1_exact_float_lemma (v : list PrimFloat.float) (zs : list Z) :
  Forall2 ExactW v zs -> zasuml zs < 2 ^ 53 -> ExactW (norm_1 (A := AF) v) (zasuml zs).
Proof.
  intros Hv Hb. unfold norm_1.
  assert (G : forall acc a, Exact acc a -> Z.abs a + zasuml zs < 2 ^ 53 ->
              Exact (fold_left (fun acc x => @add AF acc (@abs AF x)) v acc) (a + zasuml zs)).
  { clear Hb. induction Hv as [|x z v zs Hx Hv IH]; intros acc a Ha Hb; cbn [fold_left zasuml] in *.
    - now rewrite Z.add_0_r.
    - pose proof (zasuml_nonneg zs).
      assert (Hs : Exact (acc + f_abs x)%float (a + Z.abs z)).
      { apply Exact_add; auto; [now apply ExactW_f_abs|lia]. }
      specialize (IH _ _ Hs ltac:(lia)). replace (a + (Z.abs z + zasuml zs)) with (a + Z.abs z + zasuml zs) by lia.
      exact IH. }
  replace (zasuml zs) with (0 + zasuml zs) by lia. apply (proj1 (G 0%float 0 Exact_zero ltac:(cbn; lia))).
Qed.
