(* Proofs/Round2X1.v -- package round2, C08: the drift is real (a run of the binary64 instance of the model).
   [[2,1],[1,2]] x = (3,3) from the far guess x0 = (1e10, 7e9), tol = 1e-12 (the double nearest to it): CG answers Ok(4) --
   its recurrence residual has dropped to 1.5e-23 -- with x = (1.0000012..., 0.99999944...), whose TRUE residual is 1.9e-6 in
   its first component: relative residual 4.5e-7, five orders of magnitude above tol.  (The excess is 0.12 units of
   k u (||A|| X + ||b||)/||b||, X = 1.2e10 the largest iterate: inside the bound of residual_drift, constant about 38.) *)
From Coq Require Import List ZArith Floats Reals Lra.
From OV Require Import Base.Panic Base.Arith Model.Vector Model.Sparse Model.Iter Inst.FloatInst Proofs.ComplexRound.
Import ListNotations.

Definition drift_ts : list (triplet AF) := [(0, 0, 2%float); (0, 1, 1%float); (1, 0, 1%float); (1, 1, 2%float)]%nat.
Definition drift_tol : PrimFloat.float := 0x1.19799812dea11p-40%float.
Definition drift_x : list PrimFloat.float := [0x1.000014aaaaaaap+0%float; 0x1.ffffed5555556p-1%float].

Definition ok_kx {A : SArith} (o : res (iout A)) : option (nat * list (T (SA A))) :=
  match o with Ok (IOk k, x, _) => Some (k, x) | _ => None end.

Lemma ok_kx_witness {A : SArith} (o : res (iout A)) k x : ok_kx o = Some (k, x) -> exists g, o = Ok (IOk k, x, g).
Proof.
  destruct o as [[[[k'|e] x'] g]|p]; cbn; intros H; try discriminate. injection H as -> ->. now exists g.
Qed.

Lemma drift_run :
  ok_kx (run_trip (A := SAF) CG 2 2 drift_ts [3%float; 3%float] [10000000000%float; 7000000000%float] 50 drift_tol)
  = Some (4%nat, drift_x).
Proof. vm_compute. reflexivity. Qed.

Lemma drift_is_real : exists g,
  run_trip (A := SAF) CG 2 2 drift_ts [3%float; 3%float] [10000000000%float; 7000000000%float] 50 drift_tol
    = Ok (IOk 4, drift_x, g) /\
  (FR drift_tol <= 1 / 1000000000000 + 1 / 10000000000000000000000000000)%R /\
  (2 * FR (nth 0 drift_x 0%float) + FR (nth 1 drift_x 0%float) - 3 >= 1 / 1000000)%R.
Proof.
  destruct (ok_kx_witness _ _ _ drift_run) as (g & E). exists g. split; [exact E|]. cbn [nth drift_x]. split.
  - fr_eval.
  - assert (H0 : (1000001 / 1000000 <= FR 0x1.000014aaaaaaap+0%float)%R) by fr_eval.
    assert (H1 : (9999994 / 10000000 <= FR 0x1.ffffed5555556p-1%float)%R) by fr_eval.
    lra.
Qed.
