(* Proofs/BandedDet2Pad.v -- padding never reaches a result of the compact LU, over ANY arithmetic (binary64
   included; no ring or field law is used): two runs of decompose / det / solve on banded matrices that agree on
   every in-matrix slot proceed in lockstep -- same panics at the same places, same pivots, same exchanges, same
   multipliers, and work matrices that agree on every slot whose column (alignment column of the row + slot) lies
   inside the matrix.  Padding values only ever flow into padding slots:
     * the left shift drops the lower-left padding and moves right padding to right padding;
     * the pivot search reads slot 0 of the window rows (column k);
     * an exchange swaps two rows with the same alignment;
     * the elimination writes slot j-1 of row i from the slots j of the rows i and k (same column k+j);
     * det reads the slots (i,0), back substitution the slots (i,k) with i+k < n.
   Technique: a relational ("lockstep") reading of the res monad: [rel_res R r1 r2] = both Ok with related values,
   or both the same panic. *)
From Coq Require Import List Arith Lia ZArith Bool.
From OV Require Import Base.Panic Base.Arith Model.Vector Model.Matrix Model.Banded
                       Proofs.Banded Proofs.BandedLU Proofs.BandedTotal Proofs.BandedDet2 Proofs.BandedDet2Wide.
Import ListNotations.
Local Open Scope nat_scope.

(* ------------------------------------------------------------------ lockstep reading of the res monad *)
Definition rel_res {X Y} (R : X -> Y -> Prop) (r1 : res X) (r2 : res Y) : Prop :=
  match r1, r2 with
  | Ok a, Ok b => R a b
  | Panic k1, Panic k2 => k1 = k2
  | _, _ => False
  end.

Lemma rel_bind {X Y X' Y'} (R : X -> Y -> Prop) (Q : X' -> Y' -> Prop) r1 r2 f g :
  rel_res R r1 r2 -> (forall a b, R a b -> rel_res Q (f a) (g b)) -> rel_res Q (bind r1 f) (bind r2 g).
Proof. destruct r1, r2; cbn; intros H Hf; try contradiction; auto. Qed.

Lemma rel_mono {X Y} (R Q : X -> Y -> Prop) r1 r2 :
  rel_res R r1 r2 -> (forall a b, R a b -> Q a b) -> rel_res Q r1 r2.
Proof. destruct r1, r2; cbn; auto. Qed.

Lemma rel_eq {X} (r1 r2 : res X) : rel_res eq r1 r2 -> r1 = r2.
Proof. destruct r1, r2; cbn; intros H; try contradiction; congruence. Qed.

Lemma rel_refl {X} (r : res X) : rel_res eq r r.
Proof. destruct r; cbn; auto. Qed.

Lemma rel_for_from {S1 S2} (I : nat -> S1 -> S2 -> Prop) body1 body2 :
  forall n lo s1 s2, I lo s1 s2 ->
  (forall i a b, lo <= i < lo + n -> I i a b -> rel_res (I (S i)) (body1 i a) (body2 i b)) ->
  rel_res (I (lo + n)) (for_from n lo body1 s1) (for_from n lo body2 s2).
Proof.
  induction n as [|n IH]; intros lo s1 s2 H0 Hstep; cbn [for_from].
  - rewrite Nat.add_0_r. exact H0.
  - apply (rel_bind (I (S lo))); [apply Hstep; [lia|auto]|].
    intros a b Hab. replace (lo + S n) with (S lo + n) by lia.
    apply IH; auto. intros i a' b' Hi. apply Hstep. lia.
Qed.

(* for_ lo hi with lo <= hi *)
Lemma rel_for {S1 S2} (I : nat -> S1 -> S2 -> Prop) body1 body2 lo hi s1 s2 :
  lo <= hi -> I lo s1 s2 ->
  (forall i a b, lo <= i < hi -> I i a b -> rel_res (I (S i)) (body1 i a) (body2 i b)) ->
  rel_res (I hi) (for_ lo hi body1 s1) (for_ lo hi body2 s2).
Proof.
  intros Hle H0 Hstep. unfold for_. replace hi with (lo + (hi - lo)) at 1 by lia.
  apply rel_for_from; auto. intros i a b Hi. apply Hstep. lia.
Qed.

Lemma rel_for_rev_from {S1 S2} (I : nat -> S1 -> S2 -> Prop) body1 body2 lo :
  forall n s1 s2, I n s1 s2 ->
  (forall k a b, k < n -> I (S k) a b -> rel_res (I k) (body1 (lo + k) a) (body2 (lo + k) b)) ->
  rel_res (I 0) (for_rev_from n lo body1 s1) (for_rev_from n lo body2 s2).
Proof.
  induction n as [|n IH]; intros s1 s2 H0 Hstep; cbn [for_rev_from].
  - exact H0.
  - apply (rel_bind (I n)); [apply Hstep; [lia|auto]|].
    intros a b Hab. apply IH; auto.
Qed.

Section Pad.
Context {A : Arith}.
Notation T := (T A).
Notation matrix := (matrix A).
Notation banded := (banded A).

(* ------------------------------------------------------------------ two work matrices that agree on a set of slots *)
Definition agree (mm : nat) (P : nat -> nat -> Prop) (a b : matrix) : Prop :=
  cols a = mm /\ cols b = mm /\ length (buf a) = length (buf b) /\
  forall i s, s < mm -> P i s -> mat_at a mm i s = mat_at b mm i s.

Lemma agree_mono mm (P P' : nat -> nat -> Prop) a b :
  agree mm P a b -> (forall i s, s < mm -> P' i s -> P i s) -> agree mm P' a b.
Proof. intros (Ha & Hb & Hl & H) HP. repeat split; auto. Qed.

Lemma mget_cases (a : matrix) i s :
  mget a i s = if i * cols a + s <? length (buf a) then Ok (nth (i * cols a + s) (buf a) zero) else Panic Index.
Proof.
  unfold mget. destruct (Nat.ltb_spec (i * cols a + s) (length (buf a))).
  - now apply rd_ok.
  - now apply rd_panic.
Qed.

Lemma mset_cases (a : matrix) i s x :
  mset a i s x = if i * cols a + s <? length (buf a)
                 then Ok (mkM (upd_list (buf a) (i * cols a + s) x) (rows a) (cols a)) else Panic Index.
Proof. unfold mset, upd. destruct (i * cols a + s <? length (buf a)); reflexivity. Qed.

Lemma mget_lock mm P a b i s :
  agree mm P a b -> s < mm -> rel_res (fun x y => P i s -> x = y) (mget a i s) (mget b i s).
Proof.
  intros (Ha & Hb & Hl & H) Hs. rewrite !mget_cases, Ha, Hb, <- Hl.
  destruct (i * mm + s <? length (buf a)); cbn; auto.
  intros HP. exact (H i s Hs HP).
Qed.

Lemma mget_lock_eq mm (P : nat -> nat -> Prop) a b i s :
  agree mm P a b -> s < mm -> P i s -> rel_res eq (mget a i s) (mget b i s).
Proof. intros Hab Hs HP. apply (rel_mono _ _ _ _ (mget_lock mm P a b i s Hab Hs)). auto. Qed.

Lemma mset_lock mm (P P' : nat -> nat -> Prop) a b i s x y :
  agree mm P a b -> s < mm -> (P' i s -> x = y) ->
  (forall i' s', s' < mm -> P' i' s' -> (i' <> i \/ s' <> s) -> P i' s') ->
  rel_res (agree mm P') (mset a i s x) (mset b i s y).
Proof.
  intros (Ha & Hb & Hl & H) Hs Hxy HP. rewrite !mset_cases, Ha, Hb, <- Hl.
  destruct (i * mm + s <? length (buf a)) eqn:E; cbn; auto.
  apply Nat.ltb_lt in E.
  unfold agree; cbn [cols buf]. rewrite !upd_list_length. repeat split; auto.
  intros i' s' Hs' HP'. unfold mat_at; cbn [buf]. rewrite !nth_upd_list by lia.
  destruct (Nat.eqb_spec (i' * mm + s') (i * mm + s)) as [Eq|Ne].
  - apply flat_inj in Eq as (-> & ->); auto.
  - apply (H i' s' Hs'). apply HP; auto.
    destruct (Nat.eq_dec i' i) as [->|]; [|now left]. right. intros ->. now apply Ne.
Qed.

(* same value written on both sides, same set of slots *)
Lemma mset_lock_same mm (P : nat -> nat -> Prop) a b i s x :
  agree mm P a b -> s < mm -> rel_res (agree mm P) (mset a i s x) (mset b i s x).
Proof. intros Hab Hs. apply (mset_lock mm P P); auto. Qed.

(* ------------------------------------------------------------------ the pieces of decompose *)
Variables n mm m1 : nat.
Hypothesis Hmm : 1 <= mm.

(* slots of the matrix proper when row i is aligned at column c i *)
Definition Pc (c : nat -> nat) (i s : nat) : Prop := i < n /\ c i + s < n.
Definition Pst (k : nat) : nat -> nat -> Prop := Pc (c_of m1 k).

Lemma find_pivot_lock P a b k l :
  agree mm P a b -> (forall j, k <= j < Nat.max l (k + 1) -> P j 0) ->
  rel_res (fun r1 r2 : T * nat => r1 = r2 /\ (snd r1 = k \/ (k < snd r1 /\ snd r1 < l)))
          (find_pivot false a k l) (find_pivot false b k l).
Proof.
  intros Hab HP. unfold find_pivot.
  apply (rel_bind eq); [apply (mget_lock_eq mm P); auto; apply HP; lia|].
  intros d0 ? <-.
  destruct (Nat.le_gt_cases (k + 1) l) as [Hkl|Hkl].
  2:{ rewrite !for_empty by lia. cbn. auto. }
  apply (rel_mono (fun r1 r2 : T * nat => r1 = r2 /\ (snd r1 = k \/ (k < snd r1 /\ snd r1 < l)))); auto.
  apply (rel_for (fun j (r1 r2 : T * nat) => r1 = r2 /\ (snd r1 = k \/ (k < snd r1 /\ snd r1 < j)))); auto.
  intros j [d i] ? Hj (<- & Hi). cbn [snd] in Hi.
  apply (rel_bind eq); [apply (mget_lock_eq mm P); auto; apply HP; lia|].
  intros x ? <-. destruct (pivot_better false x d); cbn; split; auto; lia.
Qed.

Lemma swap_elem_lock (P : nat -> nat -> Prop) a b k p j :
  agree mm P a b -> j < mm -> (P k j <-> P p j) ->
  rel_res (agree mm P) (swap_elem a k j p j) (swap_elem b k j p j).
Proof.
  intros Hab Hj Hkp. unfold swap_elem.
  apply (rel_bind _ _ _ _ _ _ (mget_lock mm P a b k j Hab Hj)). intros t1 t2 Ht.
  apply (rel_bind _ _ _ _ _ _ (mget_lock mm P a b p j Hab Hj)). intros o1 o2 Ho.
  apply (rel_bind (agree mm P)).
  - apply (mset_lock mm P P); auto. intros HP. apply Ht. now apply Hkp.
  - intros a1 b1 Hab1. apply (mset_lock mm P P); auto. intros HP. apply Ho. now apply Hkp.
Qed.

Lemma swap_rows_lock (P : nat -> nat -> Prop) a b k p :
  agree mm P a b -> (forall j, j < mm -> (P k j <-> P p j)) ->
  rel_res (agree mm P) (swap_band_rows mm a k p) (swap_band_rows mm b k p).
Proof.
  intros Hab Hkp. unfold swap_band_rows.
  apply (rel_for (fun _ => agree mm P)); auto; [lia|].
  intros j a' b' Hj Hab'. apply swap_elem_lock; auto; [lia|apply Hkp; lia].
Qed.

Lemma multiplier_lock (P : nat -> nat -> Prop) a b k i :
  agree mm P a b -> P k 0 -> P i 0 ->
  rel_res eq (multiplier false a k i) (multiplier false b k i).
Proof.
  intros Hab Hk Hi. unfold multiplier.
  apply (rel_bind eq); [apply (mget_lock_eq mm P); auto|]. intros akk ? <-.
  destruct (eqb akk zero); [cbn; reflexivity|].
  apply (rel_bind eq); [apply (mget_lock_eq mm P); auto|]. intros aik ? <-.
  apply (rel_bind eq); [apply (mget_lock_eq mm P); auto|]. intros akk' ? <-.
  apply rel_refl.
Qed.

Definition cset (c : nat -> nat) (i v : nat) : nat -> nat := fun r => if r =? i then v else c r.

(* row i during its elimination: slots below t already re-aligned at column k+1, the others still at column k *)
Definition Pel (c : nat -> nat) (k i t : nat) (r s : nat) : Prop :=
  r < n /\ if r =? i then (if s <? t then k + 1 + s < n else k + s < n) else c r + s < n.

Lemma elim_row_lock (c : nat -> nat) k i (au1 au2 al : matrix) :
  agree mm (Pc c) au1 au2 -> c i = k -> c k = k -> i <> k -> i < n -> k < n ->
  rel_res (fun st1 st2 => agree mm (Pc (cset c i (k + 1))) (fst st1) (fst st2) /\ snd st1 = snd st2)
          (elim_row false mm k i (au1, al)) (elim_row false mm k i (au2, al)).
Proof.
  intros Hab Hci Hck Hik Hi Hk. unfold elim_row.
  apply (rel_bind eq).
  { apply (multiplier_lock (Pc c)); auto; unfold Pc; lia. }
  intros dum ? <-.
  apply (rel_bind eq); [apply rel_refl|]. intros al' ? <-.
  apply (rel_bind (agree mm (Pel c k i (mm - 1)))).
  - apply (rel_for (fun j => agree mm (Pel c k i (j - 1)))); auto.
    + apply (agree_mono mm (Pc c)); auto. intros r s Hs (Hr & HP). split; auto.
      destruct (Nat.eqb_spec r i) as [->|]; auto. destruct (Nat.ltb_spec s (1 - 1)); lia.
    + intros j a b Hj Hab'.
      apply (rel_bind _ _ _ _ _ _ (mget_lock mm _ a b i j Hab' ltac:(lia))). intros x1 x2 Hx.
      apply (rel_bind _ _ _ _ _ _ (mget_lock mm _ a b k j Hab' ltac:(lia))). intros y1 y2 Hy.
      apply (mset_lock mm (Pel c k i (j - 1)) (Pel c k i (S j - 1))); auto; try lia.
      * intros (_ & HP). rewrite Nat.eqb_refl in HP.
        replace (j - 1 <? S j - 1) with true in HP by (symmetry; apply Nat.ltb_lt; lia).
        rewrite Hx, Hy; auto.
        -- split; auto. destruct (Nat.eqb_spec k i); [congruence|]. lia.
        -- split; auto. rewrite Nat.eqb_refl.
           replace (j <? j - 1) with false by (symmetry; apply Nat.ltb_ge; lia). lia.
      * intros r s Hs (Hr & HP) Hne. split; auto.
        destruct (Nat.eqb_spec r i) as [->|]; auto.
        destruct (Nat.ltb_spec s (S j - 1)); destruct (Nat.ltb_spec s (j - 1)); try lia.
  - intros a b Hab'. apply (rel_bind (agree mm (Pc (cset c i (k + 1))))).
    + apply (mset_lock mm (Pel c k i (mm - 1))); auto; try lia.
      intros r s Hs (Hr & HP) Hne. split; auto. unfold cset in HP.
      destruct (Nat.eqb_spec r i) as [->|]; auto.
      destruct (Nat.ltb_spec s (mm - 1)); lia.
    + intros a' b' Hab''. cbn. auto.
Qed.

(* alignment during the elimination loop of stage k: window rows below i are done *)
Definition cwin (k i : nat) : nat -> nat := fun r => if (k <? r) && (r <? i) then k + 1 else c_of m1 k r.

Lemma elim_loop_lock k l (au1 au2 al : matrix) :
  agree mm (Pst k) au1 au2 -> k < n -> l <= n -> l <= k + 1 + m1 ->
  rel_res (fun st1 st2 => agree mm (Pc (cwin k (Nat.max l (k + 1)))) (fst st1) (fst st2) /\ snd st1 = snd st2)
          (for_ (k + 1) l (elim_row false mm k) (au1, al)) (for_ (k + 1) l (elim_row false mm k) (au2, al)).
Proof.
  intros Hab Hk Hln Hl.
  assert (H0 : agree mm (Pc (cwin k (k + 1))) au1 au2).
  { apply (agree_mono mm (Pst k)); auto. intros r s Hs (Hr & HP). split; auto. unfold cwin in HP.
    replace ((k <? r) && (r <? k + 1)) with false in HP; auto.
    symmetry. apply andb_false_iff. destruct (Nat.ltb_spec k r); destruct (Nat.ltb_spec r (k + 1)); auto; lia. }
  destruct (Nat.le_gt_cases (k + 1) l) as [Hkl|Hkl].
  2:{ rewrite !for_empty by lia. cbn. split; auto. now replace (Nat.max l (k + 1)) with (k + 1) by lia. }
  replace (Nat.max l (k + 1)) with l by lia.
  apply (rel_for (fun i (st1 st2 : matrix * matrix) =>
           agree mm (Pc (cwin k i)) (fst st1) (fst st2) /\ snd st1 = snd st2)); auto.
  intros i [a1 b1] [a2 b2] Hi (Hab' & Hal). cbn [fst snd] in *. subst b2.
  assert (Hci : cwin k i i = k).
  { unfold cwin. rewrite Nat.ltb_irrefl, andb_false_r. apply c_of_win. lia. }
  assert (Hck : cwin k i k = k).
  { unfold cwin. rewrite Nat.ltb_irrefl. cbn [andb]. apply c_of_win. lia. }
  apply (rel_mono _ _ _ _ (elim_row_lock (cwin k i) k i a1 a2 b1 Hab' Hci Hck ltac:(lia) ltac:(lia) Hk)).
  intros [a1' b1'] [a2' b2'] (Hab'' & Hal'). cbn [fst snd] in *. split; auto.
  apply (agree_mono mm _ _ _ _ Hab''). intros r s Hs (Hr & HP). split; auto.
  unfold cset, cwin in *. destruct (Nat.eqb_spec r i) as [->|Hne].
  - replace ((k <? i) && (i <? S i)) with true in HP
      by (symmetry; apply andb_true_iff; split; apply Nat.ltb_lt; lia). exact HP.
  - destruct (Nat.ltb_spec k r); destruct (Nat.ltb_spec r i); destruct (Nat.ltb_spec r (S i)); cbn [andb] in *; auto; lia.
Qed.

(* ------------------------------------------------------------------ one stage, all stages *)
Hypothesis Hm1 : m1 <= n.

Definition Rst (k : nat) (s1 s2 : @dec_state A) : Prop :=
  let '(au1, al1, ix1, d1, l1) := s1 in
  let '(au2, al2, ix2, d2, l2) := s2 in
  agree mm (Pst k) au1 au2 /\ al1 = al2 /\ ix1 = ix2 /\ d1 = d2 /\ l1 = l2 /\ l1 = Nat.min (k + m1) n.

Lemma dec_step_lock k (s1 s2 : @dec_state A) :
  k < n -> Rst k s1 s2 -> rel_res (Rst (S k)) (dec_step false n mm k s1) (dec_step false n mm k s2).
Proof.
  intros Hk. destruct s1 as [[[[au1 al1] ix1] d1] l1], s2 as [[[[au2 al2] ix2] d2] l2].
  intros (Hab & <- & <- & <- & <- & Hl). unfold dec_step. fold (lnext n l1). rewrite Hl, lnext_min by auto.
  set (l' := Nat.min (k + 1 + m1) n).
  apply (rel_bind _ _ _ _ _ _ (find_pivot_lock (Pst k) au1 au2 k l' Hab ltac:(
    intros j Hj; unfold Pst, Pc; split; [unfold l' in Hj; lia|]; rewrite c_of_win by (unfold l' in Hj; lia); lia))).
  intros [dum p] ? (<- & Hp). cbn [snd] in Hp.
  apply (rel_bind eq); [apply rel_refl|]. intros ix' ? <-.
  apply (rel_bind (agree mm (Pst k))).
  { destruct (eqb dum zero); [apply mset_lock_same; auto; lia|cbn; auto]. }
  intros a1 a2 Hab1.
  apply (rel_bind (fun st1 st2 : matrix * T => agree mm (Pst k) (fst st1) (fst st2) /\ snd st1 = snd st2)).
  { destruct (negb (p =? k)); [|cbn; auto].
    apply (rel_bind (agree mm (Pst k))); [|intros; cbn; auto].
    apply swap_rows_lock; auto. intros j Hj. unfold Pst, Pc.
    rewrite !c_of_win by (unfold l' in Hp; lia). unfold l' in Hp. split; intros (? & ?); split; lia. }
  intros [b1 e1] [b2 e2] (Hab2 & He). cbn [fst snd] in *. subst e2.
  apply (rel_bind _ _ _ _ _ _ (elim_loop_lock k l' b1 b2 al1 Hab2 Hk ltac:(unfold l'; lia) ltac:(unfold l'; lia))).
  intros [c1 f1] [c2 f2] (Hab3 & Hf). cbn [fst snd] in *. subst f2. cbn -[Nat.min].
  split; [|repeat split; auto; unfold l'; lia].
  apply (agree_mono mm _ _ _ _ Hab3). intros r s Hs (Hr & HP). split; auto.
  unfold cwin. replace (S k) with (k + 1) in HP by lia.
  destruct (Nat.lt_ge_cases r k) as [Hrk|Hrk].
  { replace (k <? r) with false by (symmetry; apply Nat.ltb_ge; lia). cbn [andb].
    rewrite c_of_low in * by lia. exact HP. }
  destruct (Nat.eq_dec r k) as [->|Hne].
  { rewrite Nat.ltb_irrefl. cbn [andb]. rewrite c_of_win by lia. rewrite c_of_low in HP by lia. exact HP. }
  destruct (Nat.lt_ge_cases r (Nat.max l' (k + 1))) as [Hrl|Hrl].
  { replace ((k <? r) && (r <? Nat.max l' (k + 1))) with true
      by (symmetry; apply andb_true_iff; split; apply Nat.ltb_lt; lia).
    rewrite c_of_win in HP by (unfold l' in Hrl; lia). exact HP. }
  replace (r <? Nat.max l' (k + 1)) with false by (symmetry; apply Nat.ltb_ge; lia). rewrite andb_false_r.
  rewrite c_of_high in * by (unfold l' in Hrl; lia). exact HP.
Qed.

Lemma dec_loop_lock (s1 s2 : @dec_state A) :
  Rst 0 s1 s2 -> rel_res (Rst n) (for_ 0 n (dec_step false n mm) s1) (for_ 0 n (dec_step false n mm) s2).
Proof.
  intros H0. apply (rel_for Rst); auto; [lia|].
  intros k a b Hk Hab. apply dec_step_lock; auto. lia.
Qed.

(* ------------------------------------------------------------------ the left shift *)
(* rows below i shifted (slot s = column s); row i shifted in its slots below t; the rest as stored *)
Definition Psh (i t : nat) (r s : nat) : Prop :=
  r < n /\ (if r <? i then s < n
           else if r =? i then (if s <? t then s < n else m1 <= r + s /\ r + s < n + m1)
           else m1 <= r + s /\ r + s < n + m1).

Lemma shift_rows_lock a b :
  agree mm (Psh 0 0) a b -> m1 < mm -> rel_res (agree mm (Pst 0)) (shift_rows m1 mm a) (shift_rows m1 mm b).
Proof.
  intros Hab Hm. unfold shift_rows.
  apply (rel_bind (fun st1 st2 : matrix * nat =>
           agree mm (Psh m1 0) (fst st1) (fst st2) /\ snd st1 = snd st2 /\ snd st1 = m1 - m1)).
  2:{ intros [a1 l1] [a2 l2] (Hab' & _). cbn [fst snd] in *. cbn.
      apply (agree_mono mm _ _ _ _ Hab'). intros r s Hs (Hr & HP). split; auto.
      destruct (Nat.ltb_spec r m1).
      - rewrite c_of_win in HP by lia. lia.
      - destruct (Nat.eqb_spec r m1) as [->|].
        + rewrite c_of_win in HP by lia. replace (s <? 0) with false by reflexivity. lia.
        + rewrite c_of_high in HP by lia. lia. }
  apply (rel_for (fun i (st1 st2 : matrix * nat) =>
           agree mm (Psh i 0) (fst st1) (fst st2) /\ snd st1 = snd st2 /\ snd st1 = m1 - i)); auto; [lia| |].
  { cbn [fst snd]. split; auto. split; auto. lia. }
  intros i [a1 l1] [a2 l2] Hi (Hab' & El & Hl). cbn [fst snd] in *. subst l2. subst l1.
  set (l := m1 - i) in *.
  (* copy loop *)
  apply (rel_bind (agree mm (Psh i (mm - l)))).
  { apply (rel_for (fun j => agree mm (Psh i (j - l)))); auto; [unfold l; lia| |].
    { now rewrite Nat.sub_diag. }
    intros j x y Hj Hxy.
    apply (rel_bind _ _ _ _ _ _ (mget_lock mm _ x y i j Hxy ltac:(lia))). intros v1 v2 Hv.
    apply (mset_lock mm (Psh i (j - l)) (Psh i (S j - l))); auto; [lia| |].
    - intros (Hr & HP). rewrite Nat.ltb_irrefl, Nat.eqb_refl in HP.
      replace (j - l <? S j - l) with true in HP by (symmetry; apply Nat.ltb_lt; unfold l in *; lia).
      apply Hv. split; auto. rewrite Nat.ltb_irrefl, Nat.eqb_refl.
      replace (j <? j - l) with false by (symmetry; apply Nat.ltb_ge; lia). unfold l in *; lia.
    - intros r s Hs (Hr & HP) Hne. split; auto.
      destruct (Nat.ltb_spec r i); auto. destruct (Nat.eqb_spec r i) as [->|]; auto.
      destruct (Nat.ltb_spec s (S j - l)); destruct (Nat.ltb_spec s (j - l)); auto; unfold l in *; lia. }
  intros x y Hxy.
  (* zero fill *)
  replace (mm - (l - 1) - 1) with (mm - l) by (unfold l; lia).
  apply (rel_bind (agree mm (Psh i mm))).
  { apply (rel_for (fun j => agree mm (Psh i j))); auto; [lia|].
    intros j x' y' Hj Hxy'.
    apply (mset_lock mm (Psh i j) (Psh i (S j))); auto; [lia|].
    intros r s Hs (Hr & HP) Hne. split; auto.
    destruct (Nat.ltb_spec r i); auto. destruct (Nat.eqb_spec r i) as [->|]; auto.
    destruct (Nat.ltb_spec s (S j)); destruct (Nat.ltb_spec s j); auto; lia. }
  intros x' y' Hxy'. cbn. split; [|split; auto; unfold l; lia].
  apply (agree_mono mm _ _ _ _ Hxy'). intros r s Hs (Hr & HP). split; auto.
  destruct (Nat.ltb_spec r i).
  - replace (r <? S i) with true in HP by (symmetry; apply Nat.ltb_lt; lia). exact HP.
  - destruct (Nat.eqb_spec r i) as [->|].
    + replace (i <? S i) with true in HP by (symmetry; apply Nat.ltb_lt; lia).
      replace (s <? mm) with true by (symmetry; apply Nat.ltb_lt; lia). exact HP.
    + replace (r <? S i) with false in HP by (symmetry; apply Nat.ltb_ge; lia).
      destruct (Nat.eqb_spec r (S i)); auto.
Qed.

(* ------------------------------------------------------------------ the readers of the factorisation *)
Lemma det_loop_lock (au1 au2 : matrix) (d : T) :
  agree mm (Pst n) au1 au2 ->
  rel_res eq (for_ 0 n (fun i dd => let* a := mget au1 i 0 in Ok (mul dd a)) d)
             (for_ 0 n (fun i dd => let* a := mget au2 i 0 in Ok (mul dd a)) d).
Proof.
  intros Hab. apply (rel_for (fun _ (x y : T) => x = y)); auto; [lia|].
  intros i x ? Hi <-.
  apply (rel_bind eq); [|intros v ? <-; cbn; auto].
  apply (mget_lock_eq mm (Pst n)); auto; try lia. unfold Pst, Pc. rewrite c_of_low by lia. lia.
Qed.

Lemma back_loop_lock (au1 au2 : matrix) (y : list T) :
  agree mm (Pst n) au1 au2 ->
  rel_res eq (for_rev 0 n (back_step mm au1) (y, 1)) (for_rev 0 n (back_step mm au2) (y, 1)).
Proof.
  intros Hab. unfold for_rev. rewrite Nat.sub_0_r.
  apply (rel_mono (fun s1 s2 : list T * nat => s1 = s2 /\ 1 <= snd s1 <= mm /\ snd s1 <= n - 0 + 1)); [|tauto].
  apply (rel_for_rev_from (fun t (s1 s2 : list T * nat) => s1 = s2 /\ 1 <= snd s1 <= mm /\ snd s1 <= n - t + 1)).
  { cbn [snd]. split; auto. lia. }
  intros k [x l] ? Hk (<- & Hl1 & Hl2). cbn [snd Nat.add] in *. unfold back_step.
  apply (rel_bind eq); [apply rel_refl|]. intros dum0 ? <-.
  apply (rel_bind eq).
  { apply (rel_for (fun _ (u v : T) => u = v)); auto; [lia|].
    intros j u ? Hj <-.
    apply (rel_bind eq); [|intros a ? <-; apply rel_refl].
    apply (mget_lock_eq mm (Pst n)); auto; try lia. unfold Pst, Pc. rewrite c_of_low by lia. lia. }
  intros dum ? <-.
  apply (rel_bind eq).
  { apply (mget_lock_eq mm (Pst n)); auto; try lia. unfold Pst, Pc. rewrite c_of_low by lia. lia. }
  intros d0 ? <-.
  apply (rel_bind eq); [apply rel_refl|]. intros q ? <-.
  apply (rel_bind eq); [apply rel_refl|]. intros x' ? <-. cbn [rel_res]. split; auto. cbn [snd].
  destruct (Nat.ltb_spec l mm); lia.
Qed.

End Pad.

(* ------------------------------------------------------------------ det and solve do not see padding *)
Section Top.
Context {A : Arith}.
Notation T := (T A).
Notation matrix := (matrix A).
Notation banded := (banded A).

Lemma same_slots_agree (B B' : banded) :
  wfB B -> same_in_matrix_slots B B' ->
  agree (bm1 B + bm2 B + 1) (Psh (bn B) (bm1 B) 0 0) (compact B) (compact B').
Proof.
  intros (HwfM & Hrows & Hcols) ((HwfM' & Hrows' & Hcols') & Hn & H1 & H2 & H).
  rewrite Hn in Hrows'. rewrite H1, H2 in Hcols'.
  unfold agree. split; [auto|]. split; [auto|]. split.
  { unfold wfM in *. now rewrite HwfM, HwfM', Hrows, Hrows', Hcols, Hcols'. }
  intros i s Hs (Hi & HP). replace (i <? 0) with false in HP by reflexivity.
  assert (HP' : bm1 B <= i + s /\ i + s < bn B + bm1 B).
  { destruct (i =? 0); auto. }
  clear HP. set (j := i + s - bm1 B).
  assert (Hb : in_band (bm1 B) (bm2 B) i j = true) by (apply in_band_iff; unfold j; lia).
  specialize (H i j Hi ltac:(unfold j; lia) Hb).
  replace (band_slot (bm1 B) i j) with s in H by (unfold band_slot, j; lia).
  unfold cslot in H. rewrite H1, H2 in H. symmetry. exact H.
Qed.

Definition Rdec (n mm m1 : nat) (r1 r2 : matrix * matrix * list nat * T) : Prop :=
  let '(au1, al1, ix1, d1) := r1 in
  let '(au2, al2, ix2, d2) := r2 in
  agree mm (Pst n m1 n) au1 au2 /\ al1 = al2 /\ ix1 = ix2 /\ d1 = d2.

Lemma decompose_lock (B B' : banded) (al : matrix) (ix : list nat) :
  wfB B -> same_in_matrix_slots B B' -> bm1 B <= bn B ->
  rel_res (Rdec (bn B) (bm1 B + bm2 B + 1) (bm1 B))
          (decompose_gen false B (compact B) al ix) (decompose_gen false B' (compact B') al ix).
Proof.
  intros Hwf HS Hm1. pose proof (same_slots_agree B B' Hwf HS) as Hab.
  destruct HS as (_ & Hn & H1 & H2 & _).
  unfold decompose_gen. rewrite Hn, H1, H2.
  set (n := bn B) in *. set (m1 := bm1 B) in *. set (mm := m1 + bm2 B + 1) in *.
  assert (Hmm : 1 <= mm) by (unfold mm; lia).
  apply (rel_bind _ _ _ _ _ _ (shift_rows_lock n mm m1 Hmm Hm1 _ _ Hab ltac:(unfold mm; lia))).
  intros a0 b0 Hab0.
  apply (rel_bind _ _ _ _ _ _ (dec_loop_lock n mm m1 Hmm Hm1 (a0, al, ix, one, m1) (b0, al, ix, one, m1)
                                  ltac:(cbn -[Nat.min]; split; [exact Hab0|repeat split; auto; lia]))).
  intros [[[[a1 l1] x1] d1] e1] [[[[a2 l2] x2] d2] e2] (Hab1 & <- & <- & <- & _). cbn. auto.
Qed.

(* Banded::det: padding slots never reach the determinant -- over any arithmetic, for every well-formed band
   (for m1 > n both runs panic alike) *)
Lemma band_det_padding_lemma (B B' : banded) :
  wfB B -> same_in_matrix_slots B B' -> band_det B' = band_det B.
Proof.
  intros Hwf HS. pose proof HS as (Hwf' & Hn & H1 & H2 & _).
  destruct (Nat.le_gt_cases (bm1 B) (bn B)) as [Hm1|Hm1].
  2:{ rewrite (proj1 (band_wide_panics_lemma B Hwf Hm1)).
      apply (band_wide_panics_lemma B'); auto. now rewrite Hn, H1. }
  symmetry. apply rel_eq. unfold band_det, band_det_gen. rewrite Hn, H1.
  apply (rel_bind _ _ _ _ _ _ (decompose_lock B B' _ _ Hwf HS Hm1)).
  intros [[[a1 l1] x1] d1] [[[a2 l2] x2] d2] (Hab & _ & _ & <-).
  apply (det_loop_lock (bn B) (bm1 B + bm2 B + 1) (bm1 B)); auto; lia.
Qed.

(* Banded::solve: the same, with no hypothesis on the kernel: the two runs return the same vector or the same panic *)
Lemma band_solve_padding_any_lemma (B B' : banded) (b : list T) :
  wfB B -> same_in_matrix_slots B B' -> band_solve B' b = band_solve B b.
Proof.
  intros Hwf HS. pose proof HS as (Hwf' & Hn & H1 & H2 & _).
  destruct (Nat.le_gt_cases (bm1 B) (bn B)) as [Hm1|Hm1].
  2:{ rewrite (proj2 (band_wide_panics_lemma B Hwf Hm1)).
      rewrite (proj2 (band_wide_panics_lemma B' Hwf' ltac:(now rewrite Hn, H1))). now rewrite Hn. }
  symmetry. apply rel_eq. unfold band_solve, band_solve_gen. rewrite Hn, H1, H2.
  destruct (negb (bn B =? length b)); [cbn; reflexivity|].
  apply (rel_bind _ _ _ _ _ _ (decompose_lock B B' _ _ Hwf HS Hm1)).
  intros [[[a1 l1] x1] d1] [[[a2 l2] x2] d2] (Hab & <- & <- & _).
  apply (rel_bind eq); [apply rel_refl|]. intros s ? <-.
  apply (rel_bind eq); [|intros s' ? <-; apply rel_refl].
  apply (back_loop_lock (bn B) (bm1 B + bm2 B + 1) (bm1 B)); auto; lia.
Qed.

End Top.
