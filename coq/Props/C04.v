(* Props/C04.v -- property theorems only: Theorem / exact lemma / Check (pins the statement) / Print Assumptions.
   C04: a banded matrix behaves exactly like the dense matrix with the same band. *)
From Coq Require Import List Arith ZArith QArith Qcanon Lia Floats.
From OV Require Import Base.Panic Base.Arith Base.Flat Model.Vector Model.Matrix Model.Banded Inst.QcInst Inst.FloatInst Proofs.Banded Proofs.BandedLU Proofs.BandedTotal Proofs.BandedComplete Proofs.BandedDet Proofs.BandedHist Proofs.BandedEdit Proofs.BandedFill Legacy.C04Refuted.
Import ListNotations.
Local Open Scope nat_scope.

(* ---- index map: in-band test, slot range, column recovered from the slot, injectivity ---- *)
Theorem band_index_spec : forall m1 m2 i j : nat,
  (in_band m1 m2 i j = true <-> (i <= j + m1 /\ j <= i + m2)) /\
  (in_band m1 m2 i j = true -> band_slot m1 i j < m1 + m2 + 1 /\ j + m1 = i + band_slot m1 i j) /\
  (forall j', in_band m1 m2 i j = true -> in_band m1 m2 i j' = true ->
              band_slot m1 i j = band_slot m1 i j' -> j = j').
Proof. exact band_index_spec_lemma. Qed.
Check band_index_spec : forall m1 m2 i j : nat,
  (in_band m1 m2 i j = true <-> (i <= j + m1 /\ j <= i + m2)) /\
  (in_band m1 m2 i j = true -> band_slot m1 i j < m1 + m2 + 1 /\ j + m1 = i + band_slot m1 i j) /\
  (forall j', in_band m1 m2 i j = true -> in_band m1 m2 i j' = true ->
              band_slot m1 i j = band_slot m1 i j' -> j = j').
Print Assumptions band_index_spec.
Example band_index_spec_nonvacuous :
  in_band 1 2 3 5 = true /\ in_band 1 2 3 2 = true /\ in_band 1 2 3 6 = false /\ in_band 1 2 3 1 = false /\
  band_slot 1 3 5 = 3 /\ band_slot 1 3 2 = 0.
Proof. repeat split. Qed.

(* distinct in-band elements occupy distinct offsets inside the n x (m1+m2+1) buffer *)
Theorem band_storage_spec : forall n m1 m2 i j i' j' : nat,
  i < n -> i' < n -> in_band m1 m2 i j = true -> in_band m1 m2 i' j' = true ->
  i * (m1 + m2 + 1) + band_slot m1 i j < n * (m1 + m2 + 1) /\
  (i * (m1 + m2 + 1) + band_slot m1 i j = i' * (m1 + m2 + 1) + band_slot m1 i' j' -> i = i' /\ j = j').
Proof. exact band_storage_spec_lemma. Qed.
Check band_storage_spec : forall n m1 m2 i j i' j' : nat,
  i < n -> i' < n -> in_band m1 m2 i j = true -> in_band m1 m2 i' j' = true ->
  i * (m1 + m2 + 1) + band_slot m1 i j < n * (m1 + m2 + 1) /\
  (i * (m1 + m2 + 1) + band_slot m1 i j = i' * (m1 + m2 + 1) + band_slot m1 i' j' -> i = i' /\ j = j').
Print Assumptions band_storage_spec.
Example band_storage_spec_nonvacuous : 2 < 4 /\ 3 < 4 /\ in_band 2 1 2 0 = true /\ in_band 2 1 3 4 = true.
Proof. repeat split; auto. Qed.

(* element access: the dense twin on the band, refused (panic) outside it *)
Theorem band_get_dense : forall (A : Arith) (B : banded A) (i j : nat),
  wfB B -> i < bn B -> j < bn B ->
  band_get B i j = if in_band (bm1 B) (bm2 B) i j then Ok (dense_entry B i j) else Panic Guard.
Proof. intros A B i j. exact (band_get_spec B i j). Qed.
Check band_get_dense : forall (A : Arith) (B : banded A) (i j : nat),
  wfB B -> i < bn B -> j < bn B ->
  band_get B i j = if in_band (bm1 B) (bm2 B) i j then Ok (dense_entry B i j) else Panic Guard.
Print Assumptions band_get_dense.

(* ---- &B * &v = (dense twin) . v for all (n, m1, m2), and no padding slot is ever read ---- *)
Theorem band_mul_spec : forall (A : Arith), RingLaws A -> forall (B : banded A) (v : list A),
  wfB B -> length v = bn B ->
  band_mul B v = Ok (dense_mulv B v) /\
  forall B', same_in_matrix_slots B B' -> band_mul B' v = band_mul B v.
Proof. intros A RL B v. exact (band_mul_spec_lemma RL B v). Qed.
Check band_mul_spec : forall (A : Arith), RingLaws A -> forall (B : banded A) (v : list A),
  wfB B -> length v = bn B ->
  band_mul B v = Ok (dense_mulv B v) /\
  forall B', same_in_matrix_slots B B' -> band_mul B' v = band_mul B v.
Print Assumptions band_mul_spec.
(* non-vacuity: a 3x3 band (m1 = 1, m2 = 1) over Qc with loud padding, and a second matrix that
   differs from it exactly in the two padding slots *)
Definition ex_B : banded AQ :=
  @mkB AQ 3 1 1 (@mkM AQ [q 77 1; q 2 1; q (-1) 1;  q 1 1; q 0 1; q 3 1;  q (-4) 1; q 5 1; q (-13) 1] 3 3).
Definition ex_B' : banded AQ :=
  @mkB AQ 3 1 1 (@mkM AQ [q 0 1; q 2 1; q (-1) 1;  q 1 1; q 0 1; q 3 1;  q (-4) 1; q 5 1; q 1000 1] 3 3).
Example band_mul_spec_nonvacuous :
  RingLaws AQ /\ wfB ex_B /\ length ([q 1 1; q 2 1; q 3 1] : list AQ) = bn ex_B /\
  same_in_matrix_slots ex_B ex_B' /\ compact ex_B' <> compact ex_B /\
  @band_mul AQ ex_B [q 1 1; q 2 1; q 3 1] = Ok [q 0 1; q 10 1; q 7 1].
Proof.
  split; [exact AQ_RingLaws|]. split; [repeat split|]. split; [reflexivity|].
  split.
  - split; [repeat split|]. repeat split.
    intros i j Hi Hj. cbn in Hi, Hj.
    destruct i as [|[|[|i]]]; try lia; destruct j as [|[|[|j]]]; try lia; intros Hb; try discriminate Hb;
      vm_compute; reflexivity.
  - split; [intros E; discriminate E|]. vm_compute. reflexivity.
Qed.

(* ---- editing operations on the dense twin: Banded::new, index_mut, fill_band ---- *)
Theorem band_edit_dense : forall (A : Arith) (B : banded A) (x : A),
  (forall n m1 m2 i j, i < n -> j < n ->
     dense_entry (band_new n m1 m2 x) i j = if in_band m1 m2 i j then x else zero) /\
  (wfB B -> forall i j, i < bn B -> j < bn B -> in_band (bm1 B) (bm2 B) i j = true ->
     exists B', band_set B i j x = Ok B' /\ wfB B' /\ bn B' = bn B /\ bm1 B' = bm1 B /\ bm2 B' = bm2 B /\
       forall i' j', i' < bn B -> j' < bn B ->
         dense_entry B' i' j' = if (i' =? i) && (j' =? j) then x else dense_entry B i' j') /\
  (wfB B -> forall b : Z,
     if ((b <? - Z.of_nat (bm1 B))%Z || (Z.of_nat (bm2 B) <? b)%Z) then band_fill_band B b x = Panic Guard
     else exists B', band_fill_band B b x = Ok B' /\ wfB B' /\ bn B' = bn B /\ bm1 B' = bm1 B /\ bm2 B' = bm2 B /\
       forall i j, i < bn B -> j < bn B ->
         dense_entry B' i j =
           if in_band (bm1 B) (bm2 B) i j && (Z.of_nat j - Z.of_nat i =? b)%Z then x else dense_entry B i j).
Proof.
  intros A B x. split; [intros n m1 m2 i j; apply band_new_dense|]. split.
  - intros Hwf i j. now apply band_set_dense.
  - intros Hwf b. now apply band_fill_band_dense.
Qed.
Check band_edit_dense : forall (A : Arith) (B : banded A) (x : A),
  (forall n m1 m2 i j, i < n -> j < n ->
     dense_entry (band_new n m1 m2 x) i j = if in_band m1 m2 i j then x else zero) /\
  (wfB B -> forall i j, i < bn B -> j < bn B -> in_band (bm1 B) (bm2 B) i j = true ->
     exists B', band_set B i j x = Ok B' /\ wfB B' /\ bn B' = bn B /\ bm1 B' = bm1 B /\ bm2 B' = bm2 B /\
       forall i' j', i' < bn B -> j' < bn B ->
         dense_entry B' i' j' = if (i' =? i) && (j' =? j) then x else dense_entry B i' j') /\
  (wfB B -> forall b : Z,
     if ((b <? - Z.of_nat (bm1 B))%Z || (Z.of_nat (bm2 B) <? b)%Z) then band_fill_band B b x = Panic Guard
     else exists B', band_fill_band B b x = Ok B' /\ wfB B' /\ bn B' = bn B /\ bm1 B' = bm1 B /\ bm2 B' = bm2 B /\
       forall i j, i < bn B -> j < bn B ->
         dense_entry B' i j =
           if in_band (bm1 B) (bm2 B) i j && (Z.of_nat j - Z.of_nat i =? b)%Z then x else dense_entry B i j).
Print Assumptions band_edit_dense.
Example band_edit_dense_nonvacuous : wfB ex_B /\ 1 < bn ex_B /\ 2 < bn ex_B /\ in_band (bm1 ex_B) (bm2 ex_B) 1 2 = true.
Proof. repeat split; cbn; lia. Qed.

(* Banded::fill: every in-band entry of the dense twin becomes x *)
Theorem band_fill_dense_thm : forall (A : Arith) (B : banded A) (x : A),
  wfB B ->
  exists B', band_fill B x = Ok B' /\ wfB B' /\ bn B' = bn B /\ bm1 B' = bm1 B /\ bm2 B' = bm2 B /\
    forall i j, i < bn B -> j < bn B ->
      dense_entry B' i j = if in_band (bm1 B) (bm2 B) i j then x else zero.
Proof. intros A B x. exact (band_fill_dense B x). Qed.
Check band_fill_dense_thm : forall (A : Arith) (B : banded A) (x : A),
  wfB B ->
  exists B', band_fill B x = Ok B' /\ wfB B' /\ bn B' = bn B /\ bm1 B' = bm1 B /\ bm2 B' = bm2 B /\
    forall i j, i < bn B -> j < bn B ->
      dense_entry B' i j = if in_band (bm1 B) (bm2 B) i j then x else zero.
Print Assumptions band_fill_dense_thm.

(* ---- the hypothesis wfB of the theorems above holds of every matrix the public API can build: it holds of
   Banded::new and every operation (a panicking one leaves the matrix as it was) preserves it ---- *)
Theorem band_history_wf : forall (A : Arith) (n m1 m2 : nat) (x : A) (ops : list (bop A)),
  wfB (brun_state (band_new n m1 m2 x) ops).
Proof. intros A n m1 m2 x ops. exact (band_history_wf_lemma ops _ (band_new_wf n m1 m2 x)). Qed.
Check band_history_wf : forall (A : Arith) (n m1 m2 : nat) (x : A) (ops : list (bop A)),
  wfB (brun_state (band_new n m1 m2 x) ops).
Print Assumptions band_history_wf.

(* ---- arithmetic commutes with the dense twin (by-value operators) ---- *)
Theorem band_arith_dense : forall (A : Arith), RingLaws A -> forall (B C : banded A) (s : A),
  wfB B -> wfB C -> bn C = bn B -> bm1 C = bm1 B -> bm2 C = bm2 B ->
  (exists R, band_neg B = Ok R /\ like B R /\
     forall i j, i < bn B -> j < bn B -> dense_entry R i j = neg (dense_entry B i j)) /\
  (exists R, band_add B C = Ok R /\ like B R /\
     forall i j, i < bn B -> j < bn B -> dense_entry R i j = add (dense_entry B i j) (dense_entry C i j)) /\
  (exists R, band_sub B C = Ok R /\ like B R /\
     forall i j, i < bn B -> j < bn B -> dense_entry R i j = sub (dense_entry B i j) (dense_entry C i j)) /\
  (exists R, band_scale B s = Ok R /\ like B R /\
     forall i j, i < bn B -> j < bn B -> dense_entry R i j = mul (dense_entry B i j) s).
Proof. intros A RL B C s. exact (band_arith_dense_lemma RL B C s). Qed.
Check band_arith_dense : forall (A : Arith), RingLaws A -> forall (B C : banded A) (s : A),
  wfB B -> wfB C -> bn C = bn B -> bm1 C = bm1 B -> bm2 C = bm2 B ->
  (exists R, band_neg B = Ok R /\ like B R /\
     forall i j, i < bn B -> j < bn B -> dense_entry R i j = neg (dense_entry B i j)) /\
  (exists R, band_add B C = Ok R /\ like B R /\
     forall i j, i < bn B -> j < bn B -> dense_entry R i j = add (dense_entry B i j) (dense_entry C i j)) /\
  (exists R, band_sub B C = Ok R /\ like B R /\
     forall i j, i < bn B -> j < bn B -> dense_entry R i j = sub (dense_entry B i j) (dense_entry C i j)) /\
  (exists R, band_scale B s = Ok R /\ like B R /\
     forall i j, i < bn B -> j < bn B -> dense_entry R i j = mul (dense_entry B i j) s).
Print Assumptions band_arith_dense.
Example band_arith_dense_nonvacuous :
  RingLaws AQ /\ wfB ex_B /\ wfB ex_B' /\ bn ex_B' = bn ex_B /\ bm1 ex_B' = bm1 ex_B /\ bm2 ex_B' = bm2 ex_B.
Proof. split; [exact AQ_RingLaws|]. repeat split. Qed.

(* ---- compound assignments; `B += c` / `B -= c` reach the stored in-band entries only ---- *)
Theorem band_assign_dense : forall (A : Arith), RingLaws A -> forall (B C : banded A) (s : A),
  wfB B -> wfB C -> bn C = bn B -> bm1 C = bm1 B -> bm2 C = bm2 B ->
  (exists R, band_add_assign B C = Ok R /\ like B R /\
     forall i j, i < bn B -> j < bn B -> dense_entry R i j = add (dense_entry B i j) (dense_entry C i j)) /\
  (exists R, band_sub_assign B C = Ok R /\ like B R /\
     forall i j, i < bn B -> j < bn B -> dense_entry R i j = sub (dense_entry B i j) (dense_entry C i j)) /\
  (exists R, band_mul_assign_s B s = Ok R /\ like B R /\
     forall i j, i < bn B -> j < bn B -> dense_entry R i j = mul (dense_entry B i j) s) /\
  (exists R, band_add_assign_s B s = Ok R /\ like B R /\
     forall i j, i < bn B -> j < bn B ->
       dense_entry R i j = if in_band (bm1 B) (bm2 B) i j then add (dense_entry B i j) s else zero) /\
  (exists R, band_sub_assign_s B s = Ok R /\ like B R /\
     forall i j, i < bn B -> j < bn B ->
       dense_entry R i j = if in_band (bm1 B) (bm2 B) i j then sub (dense_entry B i j) s else zero).
Proof. intros A RL B C s. exact (band_assign_dense_lemma RL B C s). Qed.
Check band_assign_dense : forall (A : Arith), RingLaws A -> forall (B C : banded A) (s : A),
  wfB B -> wfB C -> bn C = bn B -> bm1 C = bm1 B -> bm2 C = bm2 B ->
  (exists R, band_add_assign B C = Ok R /\ like B R /\
     forall i j, i < bn B -> j < bn B -> dense_entry R i j = add (dense_entry B i j) (dense_entry C i j)) /\
  (exists R, band_sub_assign B C = Ok R /\ like B R /\
     forall i j, i < bn B -> j < bn B -> dense_entry R i j = sub (dense_entry B i j) (dense_entry C i j)) /\
  (exists R, band_mul_assign_s B s = Ok R /\ like B R /\
     forall i j, i < bn B -> j < bn B -> dense_entry R i j = mul (dense_entry B i j) s) /\
  (exists R, band_add_assign_s B s = Ok R /\ like B R /\
     forall i j, i < bn B -> j < bn B ->
       dense_entry R i j = if in_band (bm1 B) (bm2 B) i j then add (dense_entry B i j) s else zero) /\
  (exists R, band_sub_assign_s B s = Ok R /\ like B R /\
     forall i j, i < bn B -> j < bn B ->
       dense_entry R i j = if in_band (bm1 B) (bm2 B) i j then sub (dense_entry B i j) s else zero).
Print Assumptions band_assign_dense.

(* ---- division by a nonzero scalar, over a field ---- *)
Theorem band_div_dense : forall (A : Arith) (FL : FieldLaws A) (B : banded A) (s : A),
  wfB B -> eqb s zero = false ->
  (exists R, band_div B s = Ok R /\ like B R /\
     forall i j, i < bn B -> j < bn B -> dense_entry R i j = mul (dense_entry B i j) (fl_inv A FL s)) /\
  (exists R, band_div_assign_s B s = Ok R /\ like B R /\
     forall i j, i < bn B -> j < bn B -> dense_entry R i j = mul (dense_entry B i j) (fl_inv A FL s)).
Proof. intros A FL B s. exact (band_div_dense_lemma FL B s). Qed.
Check band_div_dense : forall (A : Arith) (FL : FieldLaws A) (B : banded A) (s : A),
  wfB B -> eqb s zero = false ->
  (exists R, band_div B s = Ok R /\ like B R /\
     forall i j, i < bn B -> j < bn B -> dense_entry R i j = mul (dense_entry B i j) (fl_inv A FL s)) /\
  (exists R, band_div_assign_s B s = Ok R /\ like B R /\
     forall i j, i < bn B -> j < bn B -> dense_entry R i j = mul (dense_entry B i j) (fl_inv A FL s)).
Print Assumptions band_div_dense.
Example band_div_dense_nonvacuous : wfB ex_B /\ @eqb AQ (q 2 1) zero = false.
Proof. split; [repeat split|reflexivity]. Qed.

(* ---- the compact LU (left shift, window, row exchanges, stored multipliers) followed by forward and back
   substitution is sound over any field, for all n, m2 and m1 <= n (the property quantifies over m1 < n; for
   m1 > n the code falls off its buffer, which the `wide-bands` family of the check ties to the model): whatever
   band_solve returns solves the dense twin's system, and so does whatever it returns on any matrix that differs
   in padding slots only.  The proof does not use the pivot rule: any row of the window is a sound choice. ---- *)
Theorem band_solve_sound : forall (A : Arith), FieldLaws A -> forall (B : banded A) (b x : list A),
  wfB B -> length b = bn B -> bm1 B <= bn B ->
  band_solve B b = Ok x ->
  length x = bn B /\ dense_mulv B x = b /\
  forall B' x', same_in_matrix_slots B B' -> band_solve B' b = Ok x' -> dense_mulv B x' = b.
Proof. intros A FL B b x. exact (band_solve_sound_full FL B b x). Qed.
Check band_solve_sound : forall (A : Arith), FieldLaws A -> forall (B : banded A) (b x : list A),
  wfB B -> length b = bn B -> bm1 B <= bn B ->
  band_solve B b = Ok x ->
  length x = bn B /\ dense_mulv B x = b /\
  forall B' x', same_in_matrix_slots B B' -> band_solve B' b = Ok x' -> dense_mulv B x' = b.
Print Assumptions band_solve_sound.
(* non-vacuity: a 4x4 system with m1 = 2, m2 = 1, zero leading entry (exchange at stage 0), a negative
   entry of larger magnitude at stage 1 (second exchange), loud padding; the solver answers *)
Definition ex_S : banded AQ :=
  @mkB AQ 4 2 1 (@mkM AQ [q 77 1; q (-13) 1; q 0 1; q 2 1;    q 5 7; q (-3) 1; q 1 1; q 1 1;
                          q 1 1; q 4 1; q (-1) 1; q 2 1;      q 2 1; q 0 1; q 3 1; q 1000 1] 4 4).
Example band_solve_sound_nonvacuous :
  wfB ex_S /\ length ([q 2 1; q (-1) 1; q 6 1; q 5 1] : list AQ) = bn ex_S /\ bm1 ex_S <= bn ex_S /\
  is_ok (@band_solve AQ ex_S [q 2 1; q (-1) 1; q 6 1; q 5 1]) = true /\
  fl_res (fl_list flat_q) (@band_solve AQ ex_S [q 2 1; q (-1) 1; q 6 1; q 5 1]) = [0; 4;  2; 1; 1;  2; 1; 1;  2; 1; 1;  2; 1; 1]%Z.
Proof. split; [repeat split|]. split; [reflexivity|]. split; [cbn; lia|]. split; vm_compute; reflexivity. Qed.

(* ---- band_solve never leaves its buffers: on a well-formed band it answers (and the answer is exact), or it
   refuses with a division by a zero pivot of its own factorisation; no other panic is possible ---- *)
Theorem band_solve_exact_or_refuses : forall (A : Arith), FieldLaws A -> forall (B : banded A) (b : list A),
  wfB B -> length b = bn B -> bm1 B <= bn B ->
  (exists x, band_solve B b = Ok x /\ length x = bn B /\ dense_mulv B x = b) \/
  (band_solve B b = Panic DivZero /\
   exists auN alN indexN dN,
     decompose_gen false B (compact B) (mat_new (bn B) (bm1 B) zero) (repeat 0 (bn B)) = Ok (auN, alN, indexN, dN) /\
     exists i, i < bn B /\ mat_at auN (bm1 B + bm2 B + 1) i 0 = zero).
Proof. intros A FL B b. exact (band_solve_exact_or_refuses_lemma FL B b). Qed.
Check band_solve_exact_or_refuses : forall (A : Arith), FieldLaws A -> forall (B : banded A) (b : list A),
  wfB B -> length b = bn B -> bm1 B <= bn B ->
  (exists x, band_solve B b = Ok x /\ length x = bn B /\ dense_mulv B x = b) \/
  (band_solve B b = Panic DivZero /\
   exists auN alN indexN dN,
     decompose_gen false B (compact B) (mat_new (bn B) (bm1 B) zero) (repeat 0 (bn B)) = Ok (auN, alN, indexN, dN) /\
     exists i, i < bn B /\ mat_at auN (bm1 B + bm2 B + 1) i 0 = zero).
Print Assumptions band_solve_exact_or_refuses.
Example band_solve_exact_or_refuses_nonvacuous :   (* both branches occur: ex_S is answered, the zero matrix is refused *)
  is_ok (@band_solve AQ ex_S [q 2 1; q (-1) 1; q 6 1; q 5 1]) = true /\
  @band_solve AQ (@band_new AQ 2 1 1 (q 0 1)) [q 1 1; q 1 1] = Panic DivZero.
Proof. split; vm_compute; reflexivity. Qed.

(* ---- completeness: with the magnitude rule (PivotLaws: abs 0 = 0, |x| is never below 0, 0 < |x| for x <> 0)
   the solver answers on every band whose dense twin is nonsingular (trivial kernel), whatever the signs of the
   entries, and the answer is the solution.  This is the half that the pre-repair signed rule fails
   (band_pivot_legacy_refuted_exact: [[-1,1],[0,1]] is nonsingular and refused). ---- *)
Theorem band_solve_complete : forall (A : Arith), FieldLaws A -> PivotLaws A -> forall (B : banded A) (b : list A),
  wfB B -> length b = bn B -> bm1 B <= bn B -> trivial_kernel B ->
  exists x, band_solve B b = Ok x /\ length x = bn B /\ dense_mulv B x = b.
Proof. intros A FL PL B b. exact (band_solve_complete_lemma FL PL B b). Qed.
Check band_solve_complete : forall (A : Arith), FieldLaws A -> PivotLaws A -> forall (B : banded A) (b : list A),
  wfB B -> length b = bn B -> bm1 B <= bn B -> trivial_kernel B ->
  exists x, band_solve B b = Ok x /\ length x = bn B /\ dense_mulv B x = b.
Print Assumptions band_solve_complete.
(* non-vacuity: [[0,1],[1,5]] (m1 = m2 = 1, loud padding) has a zero leading entry and a trivial kernel *)
Definition ex_K : banded AQ :=
  @mkB AQ 2 1 1 (@mkM AQ [q 77 1; q 0 1; q 1 1;   q 1 1; q 5 1; q (-13) 1] 2 3).
Example band_solve_complete_nonvacuous :
  PivotLaws AQ /\ wfB ex_K /\ bm1 ex_K <= bn ex_K /\ trivial_kernel ex_K.
Proof.
  split; [exact AQ_PivotLaws|]. split; [repeat split|]. split; [cbn; lia|].
  intros x Hx H. destruct x as [|x0 [|x1 [|? ?]]]; try discriminate Hx.
  unfold dense_mulv in H. cbn [bn ex_K seq map sum_n nth repeat] in H.
  assert (H00 : dense_entry ex_K 0 0 = (q 0 1 : AQ)) by reflexivity.
  assert (H01 : dense_entry ex_K 0 1 = (q 1 1 : AQ)) by reflexivity.
  assert (H10 : dense_entry ex_K 1 0 = (q 1 1 : AQ)) by reflexivity.
  assert (H11 : dense_entry ex_K 1 1 = (q 5 1 : AQ)) by reflexivity.
  rewrite H00, H01, H10, H11 in H.
  assert (E0 := f_equal (fun l => nth 0 l (@zero AQ)) H). assert (E1 := f_equal (fun l => nth 1 l (@zero AQ)) H).
  cbn [nth] in E0, E1. clear H.
  change (@zero AQ) with 0%Qc in *. change (@add AQ) with Qcplus in *. change (@mul AQ) with Qcmult in *.
  change (q 0 1) with 0%Qc in *. change (q 1 1) with 1%Qc in *.
  change (T AQ) with Qc in *.
  assert (Hx1 : x1 = 0%Qc) by (rewrite <- E0; ring).
  assert (Hx0 : x0 = 0%Qc) by (rewrite <- E1, Hx1; ring).
  subst. reflexivity.
Qed.

(* ---- on a nonsingular band no padding slot influences the solution: two matrices that agree on every
   in-matrix slot get the same answer (an equation between two runs of the solver) ---- *)
Theorem band_solve_padding_independent : forall (A : Arith), FieldLaws A -> PivotLaws A ->
  forall (B : banded A) (b : list A),
  wfB B -> length b = bn B -> bm1 B <= bn B -> trivial_kernel B ->
  forall B', same_in_matrix_slots B B' -> band_solve B' b = band_solve B b.
Proof. intros A FL PL B b. exact (band_solve_padding_lemma FL PL B b). Qed.
Check band_solve_padding_independent : forall (A : Arith), FieldLaws A -> PivotLaws A ->
  forall (B : banded A) (b : list A),
  wfB B -> length b = bn B -> bm1 B <= bn B -> trivial_kernel B ->
  forall B', same_in_matrix_slots B B' -> band_solve B' b = band_solve B b.
Print Assumptions band_solve_padding_independent.
Definition ex_K' : banded AQ :=
  @mkB AQ 2 1 1 (@mkM AQ [q 0 1; q 0 1; q 1 1;   q 1 1; q 5 1; q 1000 1] 2 3).
Example band_solve_padding_independent_nonvacuous :
  same_in_matrix_slots ex_K ex_K' /\ compact ex_K' <> compact ex_K.
Proof.
  split; [|intros E; discriminate E]. split; [repeat split|]. repeat split.
  intros i j Hi Hj. cbn in Hi, Hj.
  destruct i as [|[|i]]; try lia; destruct j as [|[|j]]; try lia; intros Hb; try discriminate Hb; vm_compute; reflexivity.
Qed.

(* ---- determinant (partial).  Full statement planned in DESIGN: band_det B = determinant (dense B).  Proved:
   band_det always answers; it is (+-1) * the product of the pivots of the factorisation band_solve uses, so
   (i) a nonzero determinant makes the solver answer exactly for every right-hand side, and (ii) on a
   nonsingular band (trivial kernel, magnitude rule) the determinant is nonzero.  Not proved: equality with a
   determinant function of the dense twin (sign rule, multiplicativity); the check ties band_det to the model
   on every (n,m1,m2) and judges it against an exact determinant of the dense twin. ---- *)
Theorem band_det_spec_partial : forall (A : Arith), FieldLaws A -> PivotLaws A -> forall (B : banded A),
  wfB B -> bm1 B <= bn B ->
  exists dd, band_det B = Ok dd /\
    (dd <> zero -> forall b, length b = bn B ->
       exists x, band_solve B b = Ok x /\ length x = bn B /\ dense_mulv B x = b) /\
    (trivial_kernel B -> dd <> zero).
Proof. intros A FL PL B. exact (band_det_spec_partial_lemma FL PL B). Qed.
Check band_det_spec_partial : forall (A : Arith), FieldLaws A -> PivotLaws A -> forall (B : banded A),
  wfB B -> bm1 B <= bn B ->
  exists dd, band_det B = Ok dd /\
    (dd <> zero -> forall b, length b = bn B ->
       exists x, band_solve B b = Ok x /\ length x = bn B /\ dense_mulv B x = b) /\
    (trivial_kernel B -> dd <> zero).
Print Assumptions band_det_spec_partial.

(* ---- the pre-repair pivot rule (signed comparison, unconditional division) is refuted by the committed witness.
   Exact tier here; the binary64 half ([[-2,1],[1e-20,1]] x = [-1,1]: legacy answers [0,1], repaired [1,1]) is
   Legacy.C04Refuted.band_pivot_legacy_refuted, compiled with this file (its Print Assumptions lists the
   primitive-float operations, which the closed-theorem audit of this file does not allow). ---- *)
Theorem band_pivot_legacy_refuted_exact :
  @band_solve_legacy AQ wit_q [q 0 1; q 1 1] = Panic DivZero /\
  @band_solve AQ wit_q [q 0 1; q 1 1] = Ok [q 1 1; q 1 1] /\
  @band_det_legacy AQ wit_q = Panic DivZero /\ @band_det AQ wit_q = Ok (q (-1) 1).
Proof. exact (conj (proj1 Legacy.C04Refuted.band_pivot_legacy_refuted_exact) (conj (proj2 Legacy.C04Refuted.band_pivot_legacy_refuted_exact) band_det_legacy_refuted)). Qed.
Check band_pivot_legacy_refuted_exact :
  @band_solve_legacy AQ wit_q [q 0 1; q 1 1] = Panic DivZero /\
  @band_solve AQ wit_q [q 0 1; q 1 1] = Ok [q 1 1; q 1 1] /\
  @band_det_legacy AQ wit_q = Panic DivZero /\ @band_det AQ wit_q = Ok (q (-1) 1).
Print Assumptions band_pivot_legacy_refuted_exact.

(* ---- tie to the source by proof (package r2c): the functions regenerated from /repo/src on this run by the Rust-subset ->
   Gallina translator (driver/rust2coq.py -> gen/Src*.v) are equal, for all arguments, to the hand-written model functions
   the theorems above are about (Proofs/SrcEq*.v).  A change of a loop bound, index, operator or statement order in the
   source breaks the corresponding src_<function> lemma and with it this obligation. *)
From OV Require Proofs.SrcEqBanded.
Theorem model_is_source_C04_Banded : forall A : Arith, @SrcEqBanded.model_is_source_Banded A.
Proof. intros A. exact SrcEqBanded.model_is_source_Banded_lemma. Qed.
Check model_is_source_C04_Banded : forall A : Arith, @SrcEqBanded.model_is_source_Banded A.
Print Assumptions model_is_source_C04_Banded.
(* ==== round two, package band2: blocks to append to Props/C04.v (compiled copy: Proofs/PinTest_band2.v) ==== *)

(* ---- the determinant in full (replaces the reading of band_det_spec_partial): over EVERY mathcomp fieldType F, with
   any abs/ltb that meet PivotLaws (abs 0 = 0, |x| never below 0, 0 < |x| for x <> 0), Banded::det of the model IS
   mathcomp's \det of the dense twin -- for every well-formed band with m1 <= n, singular twins included (value 0).
   [ArithOf F abs ltb leb] (Bridge/Det.v) is the Arith whose carrier, 0, 1, +, -, *, / (Panic DivZero at 0) and == are
   those of F; [mx_of n f] = \matrix_(i < n, j < n) f i j.  Proof (Proofs/BandedDet2.v, Bridge/BandDet.v): at the start
   of stage k the work matrix, row i read at its alignment column, is an n x n table; stage k exchanges two rows of
   the table and subtracts multiples of row k from the window rows, i.e. multiplies it on the left by a unit lower
   triangular matrix and a transposition; the table of stage 0 is the dense twin, the table of stage n is upper
   triangular with the pivots on the diagonal; d changes sign exactly at the exchanges.  A zero pivot gives a
   nontrivial kernel (Proofs/BandedComplete.v), hence \det = 0 = the product. ---- *)
From mathcomp Require ssreflect.ssrnat ssreflect.eqtype algebra.ssralg algebra.matrix algebra.rat.
From OV Require Import Model.Solve Proofs.LUPrim Proofs.LUTab Bridge.Det Proofs.BandedDet2 Proofs.BandedDet2Wide Bridge.BandDet.
Theorem band_det_is_det : forall (F : ssralg.GRing.Field.type) (abs : ssralg.GRing.Field.sort F -> ssralg.GRing.Field.sort F)
  (ltb leb : ssralg.GRing.Field.sort F -> ssralg.GRing.Field.sort F -> bool),
  PivotLaws (ArithOf F abs ltb leb) -> forall B : banded (ArithOf F abs ltb leb),
  wfB B -> bm1 B <= bn B ->
  band_det B = Ok (@matrix.determinant (ssralg.GRing.Field.ringType F) (bn B)
                     (@mx_of F (bn B) (@dense_entry (ArithOf F abs ltb leb) B))).
Proof. intros F abs ltb leb PL B. exact (band_det_is_det_lemma PL (B := B)). Qed.
Check band_det_is_det : forall (F : ssralg.GRing.Field.type) (abs : ssralg.GRing.Field.sort F -> ssralg.GRing.Field.sort F)
  (ltb leb : ssralg.GRing.Field.sort F -> ssralg.GRing.Field.sort F -> bool),
  PivotLaws (ArithOf F abs ltb leb) -> forall B : banded (ArithOf F abs ltb leb),
  wfB B -> bm1 B <= bn B ->
  band_det B = Ok (@matrix.determinant (ssralg.GRing.Field.ringType F) (bn B)
                     (@mx_of F (bn B) (@dense_entry (ArithOf F abs ltb leb) B))).
Print Assumptions band_det_is_det.
(* non-vacuity: mathcomp's rationals with |x| and < meet PivotLaws; the all-ones 3 x 3 tridiagonal band is well formed.
   What the function does on bands that need exchanges / are singular, at the exact tier: ex_S (two exchanges) and
   the singular [[1,1],[1,1]]. *)
Example band_det_is_det_nonvacuous :
  PivotLaws ratArith /\
  wfB (@band_new ratArith 3 1 1 (@ssralg.GRing.one (ssralg.GRing.Field.ringType rat.rat_fieldType))) /\ 1 <= 3 /\
  @band_det AQ ex_S = Ok (q (-12) 1) /\ @band_det AQ (@band_new AQ 2 1 1 (q 1 1)) = Ok (q 0 1).
Proof.
  split; [exact rat_PivotLaws|]. split; [apply band_new_wf|]. split; [lia|]. split; vm_compute; reflexivity.
Qed.

(* ---- the two determinants of the crate agree (band_det_spec of DESIGN, in full): Banded::det = Matrix::determinant of the
   dense twin ([tabulate n n f] is the flat row-major n x n buffer with entries f i j, Proofs/LUTab.v), as an equation
   between the two model functions -- both answer, singular input included.  PivLaws is the hypothesis of C02's
   determinant_is_det (it implies PivotLaws). ---- *)
Theorem band_det_spec : forall (F : ssralg.GRing.Field.type) (abs : ssralg.GRing.Field.sort F -> ssralg.GRing.Field.sort F)
  (ltb leb : ssralg.GRing.Field.sort F -> ssralg.GRing.Field.sort F -> bool),
  PivLaws (ArithOf F abs ltb leb) -> forall B : banded (ArithOf F abs ltb leb),
  wfB B -> bm1 B <= bn B ->
  band_det B = @Solve.determinant (ArithOf F abs ltb leb)
                 (@tabulate (ArithOf F abs ltb leb) (bn B) (bn B) (@dense_entry (ArithOf F abs ltb leb) B)).
Proof. intros F abs ltb leb PL B. exact (band_det_spec_lemma PL (B := B)). Qed.
Check band_det_spec : forall (F : ssralg.GRing.Field.type) (abs : ssralg.GRing.Field.sort F -> ssralg.GRing.Field.sort F)
  (ltb leb : ssralg.GRing.Field.sort F -> ssralg.GRing.Field.sort F -> bool),
  PivLaws (ArithOf F abs ltb leb) -> forall B : banded (ArithOf F abs ltb leb),
  wfB B -> bm1 B <= bn B ->
  band_det B = @Solve.determinant (ArithOf F abs ltb leb)
                 (@tabulate (ArithOf F abs ltb leb) (bn B) (bn B) (@dense_entry (ArithOf F abs ltb leb) B)).
Print Assumptions band_det_spec.
Example band_det_spec_nonvacuous : PivLaws ratArith.
Proof. exact rat_PivLaws. Qed.

(* ---- Banded::solve, completely, over every mathcomp field: with D the dense twin as a mathcomp matrix, the answer is the vector
   D^-1 b ([colv n x] = the column vector \col_(j < n) x_j, [invmx] mathcomp's inverse) when \det D != 0, and the refusal
   Panic DivZero (division by a zero pivot) when \det D == 0 -- whatever the signs, the exchanges needed and the padding. ---- *)
Theorem band_solve_spec : forall (F : ssralg.GRing.Field.type) (abs : ssralg.GRing.Field.sort F -> ssralg.GRing.Field.sort F)
  (ltb leb : ssralg.GRing.Field.sort F -> ssralg.GRing.Field.sort F -> bool),
  PivotLaws (ArithOf F abs ltb leb) ->
  forall (B : banded (ArithOf F abs ltb leb)) (b : list (ssralg.GRing.Field.sort F)),
  wfB B -> bm1 B <= bn B -> length b = bn B ->
  if @eqtype.eq_op (ssralg.GRing.Field.eqType F)
       (@matrix.determinant (ssralg.GRing.Field.ringType F) (bn B) (@mx_of F (bn B) (@dense_entry (ArithOf F abs ltb leb) B)))
       (ssralg.GRing.zero (ssralg.GRing.Field.zmodType F))
  then band_solve B b = Panic DivZero
  else exists x : list (ssralg.GRing.Field.sort F), band_solve B b = Ok x /\ length x = bn B /\
       @colv F (bn B) x =
       @matrix.mulmx (ssralg.GRing.Field.ringType F) (bn B) (bn B) 1
         (@matrix.invmx (ssralg.GRing.Field.comUnitRingType F) (bn B) (@mx_of F (bn B) (@dense_entry (ArithOf F abs ltb leb) B)))
         (@colv F (bn B) b).
Proof. intros F abs ltb leb PL B b. exact (band_solve_spec_lemma PL (B := B) (b := b)). Qed.
Check band_solve_spec : forall (F : ssralg.GRing.Field.type) (abs : ssralg.GRing.Field.sort F -> ssralg.GRing.Field.sort F)
  (ltb leb : ssralg.GRing.Field.sort F -> ssralg.GRing.Field.sort F -> bool),
  PivotLaws (ArithOf F abs ltb leb) ->
  forall (B : banded (ArithOf F abs ltb leb)) (b : list (ssralg.GRing.Field.sort F)),
  wfB B -> bm1 B <= bn B -> length b = bn B ->
  if @eqtype.eq_op (ssralg.GRing.Field.eqType F)
       (@matrix.determinant (ssralg.GRing.Field.ringType F) (bn B) (@mx_of F (bn B) (@dense_entry (ArithOf F abs ltb leb) B)))
       (ssralg.GRing.zero (ssralg.GRing.Field.zmodType F))
  then band_solve B b = Panic DivZero
  else exists x : list (ssralg.GRing.Field.sort F), band_solve B b = Ok x /\ length x = bn B /\
       @colv F (bn B) x =
       @matrix.mulmx (ssralg.GRing.Field.ringType F) (bn B) (bn B) 1
         (@matrix.invmx (ssralg.GRing.Field.comUnitRingType F) (bn B) (@mx_of F (bn B) (@dense_entry (ArithOf F abs ltb leb) B)))
         (@colv F (bn B) b).
Print Assumptions band_solve_spec.

(* ---- the same two theorems AT THE EXACT TIER ITSELF: AQ (Coq's canonical rationals Qc) is the instance of the model that the
   correspondence check runs against the implementation's Rat.  Bridge/BandDetQc.v gives Qc its mathcomp fieldType
   structure (== is Qc_eqb; + * - / are Qcplus Qcmult Qcopp Qcinv) and shows ArithOf Qc_fieldType Qc_abs Qc_ltb Qc_leb = AQ by
   reflexivity, so the theorems above apply to AQ verbatim.  band_det_spec_Qc mentions no mathcomp notion: it is an
   equation between the two model functions that the checks C04 and C02 tie to Banded::det and Matrix::determinant. ---- *)
From OV Require Import Proofs.LUQc Bridge.BandDetQc.
Theorem band_det_spec_Qc : forall B : banded AQ, wfB B -> bm1 B <= bn B ->
  @band_det AQ B = @Solve.determinant AQ (@tabulate AQ (bn B) (bn B) (@dense_entry AQ B)).
Proof. intros B. exact (band_det_spec_Qc_lemma (B := B)). Qed.
Check band_det_spec_Qc : forall B : banded AQ, wfB B -> bm1 B <= bn B ->
  @band_det AQ B = @Solve.determinant AQ (@tabulate AQ (bn B) (bn B) (@dense_entry AQ B)).
Print Assumptions band_det_spec_Qc.
Example band_det_spec_Qc_nonvacuous :    (* ex_S: 4 x 4, m1 = 2, m2 = 1, two exchanges, loud padding; both sides are -12 *)
  wfB ex_S /\ bm1 ex_S <= bn ex_S /\ @band_det AQ ex_S = Ok (q (-12) 1) /\
  @Solve.determinant AQ (@tabulate AQ (bn ex_S) (bn ex_S) (@dense_entry AQ ex_S)) = Ok (q (-12) 1).
Proof. split; [repeat split|]. split; [cbn; lia|]. split; vm_compute; reflexivity. Qed.
Theorem band_det_is_det_Qc : forall B : banded AQ, wfB B -> bm1 B <= bn B ->
  @band_det AQ B = Ok (@matrix.determinant (ssralg.GRing.Field.ringType Qc_fieldType) (bn B)
                         (@mx_of Qc_fieldType (bn B) (@dense_entry AQ B))).
Proof. intros B. exact (band_det_is_det_Qc_lemma (B := B)). Qed.
Check band_det_is_det_Qc : forall B : banded AQ, wfB B -> bm1 B <= bn B ->
  @band_det AQ B = Ok (@matrix.determinant (ssralg.GRing.Field.ringType Qc_fieldType) (bn B)
                         (@mx_of Qc_fieldType (bn B) (@dense_entry AQ B))).
Print Assumptions band_det_is_det_Qc.

(* ---- the determinant vanishes exactly on the singular twins, and the solver answers exactly on the nonsingular ones -- over
   ANY field arithmetic (FieldLaws + PivotLaws; no mathcomp: Qc, the reals, Complex over a field alike).  This completes
   band_det_spec_partial (which had "nonsingular => nonzero" only).  New half (Proofs/BandedDet2Ker.v): nonzero pivots give a
   trivial kernel -- a solution of D x = 0 is carried forwards through the row operations of every stage to the final
   upper triangular table with nonzero diagonal.  Consequence: whether band_solve refuses does not depend on the
   right-hand side: one answer means nonsingular, nonsingular means every right-hand side is answered exactly. ---- *)
From OV Require Import Proofs.BandedDet2Ker.
Theorem band_det_nonzero_iff_nonsingular : forall (A : Arith), FieldLaws A -> PivotLaws A -> forall B : banded A,
  wfB B -> bm1 B <= bn B ->
  exists dd, band_det B = Ok dd /\ (dd <> zero <-> trivial_kernel B).
Proof. intros A FL PL B. exact (band_det_nonzero_iff_gen FL PL B). Qed.
Check band_det_nonzero_iff_nonsingular : forall (A : Arith), FieldLaws A -> PivotLaws A -> forall B : banded A,
  wfB B -> bm1 B <= bn B ->
  exists dd, band_det B = Ok dd /\ (dd <> zero <-> trivial_kernel B).
Print Assumptions band_det_nonzero_iff_nonsingular.
Theorem band_solve_answers_iff_nonsingular : forall (A : Arith), FieldLaws A -> PivotLaws A -> forall B : banded A,
  wfB B -> bm1 B <= bn B ->
  ((exists b x, length b = bn B /\ band_solve B b = Ok x) <-> trivial_kernel B) /\
  (trivial_kernel B <->
   forall b, length b = bn B -> exists x, band_solve B b = Ok x /\ length x = bn B /\ dense_mulv B x = b).
Proof. intros A FL PL B. exact (band_solve_answers_iff_gen FL PL B). Qed.
Check band_solve_answers_iff_nonsingular : forall (A : Arith), FieldLaws A -> PivotLaws A -> forall B : banded A,
  wfB B -> bm1 B <= bn B ->
  ((exists b x, length b = bn B /\ band_solve B b = Ok x) <-> trivial_kernel B) /\
  (trivial_kernel B <->
   forall b, length b = bn B -> exists x, band_solve B b = Ok x /\ length x = bn B /\ dense_mulv B x = b).
Print Assumptions band_solve_answers_iff_nonsingular.
Example band_det_nonzero_iff_nonsingular_nonvacuous :   (* ex_K = [[0,1],[1,5]]: nonsingular (band_solve_complete_nonvacuous), det -1 *)
  PivotLaws AQ /\ wfB ex_K /\ bm1 ex_K <= bn ex_K /\ @band_det AQ ex_K = Ok (q (-1) 1).
Proof. split; [exact AQ_PivotLaws|]. split; [repeat split|]. split; [cbn; lia|]. vm_compute. reflexivity. Qed.

(* ---- m1 <= n is necessary, and what happens without it is known exactly: on a well-formed band with m1 > n, over ANY
   arithmetic (f64 included), decompose falls off the compact buffer in its first loop (the left shift reaches row n),
   so det and solve panic with an index error and never return a value (solve's own size guard comes first). ---- *)
Theorem band_wide_panics : forall (A : Arith) (B : banded A),
  wfB B -> bn B < bm1 B ->
  band_det B = Panic Index /\
  forall b : list A, band_solve B b = if bn B =? length b then Panic Index else Panic Guard.
Proof. intros A B. exact (band_wide_panics_lemma B). Qed.
Check band_wide_panics : forall (A : Arith) (B : banded A),
  wfB B -> bn B < bm1 B ->
  band_det B = Panic Index /\
  forall b : list A, band_solve B b = if bn B =? length b then Panic Index else Panic Guard.
Print Assumptions band_wide_panics.
Example band_wide_panics_nonvacuous :
  wfB (@band_new AQ 2 3 0 (q 1 1)) /\ 2 < 3 /\ @band_det AQ (@band_new AQ 2 3 0 (q 1 1)) = Panic Index.
Proof. split; [apply band_new_wf|]. split; [lia|]. vm_compute. reflexivity. Qed.

(* ---- padding never reaches a result of the compact LU, over ANY arithmetic -- binary64 with NaN or infinite padding
   included; no ring or field law, no hypothesis on the kernel, no bound on m1: two well-formed bands that agree on every
   in-matrix slot get the same determinant and the same solution, or the same panic.  (Lockstep proof,
   Proofs/BandedDet2Pad.v: the two runs choose the same pivots, make the same exchanges, store the same multipliers, and
   their work matrices agree on every slot whose column lies inside the matrix; padding values only flow into padding
   slots.)  This supersedes the reading "on a nonsingular band over a field" of band_solve_padding_independent. ---- *)
From OV Require Import Proofs.BandedDet2Pad Proofs.BandedDet2Cor Proofs.BandedDet2Round.
Theorem band_det_padding_independent : forall (A : Arith) (B B' : banded A),
  wfB B -> same_in_matrix_slots B B' -> band_det B' = band_det B.
Proof. intros A B B'. exact (band_det_padding_lemma B B'). Qed.
Check band_det_padding_independent : forall (A : Arith) (B B' : banded A),
  wfB B -> same_in_matrix_slots B B' -> band_det B' = band_det B.
Print Assumptions band_det_padding_independent.
Theorem band_solve_padding_independent_any : forall (A : Arith) (B B' : banded A) (b : list A),
  wfB B -> same_in_matrix_slots B B' -> band_solve B' b = band_solve B b.
Proof. intros A B B' b. exact (band_solve_padding_any_lemma B B' b). Qed.
Check band_solve_padding_independent_any : forall (A : Arith) (B B' : banded A) (b : list A),
  wfB B -> same_in_matrix_slots B B' -> band_solve B' b = band_solve B b.
Print Assumptions band_solve_padding_independent_any.
(* ... and the matrix-vector product likewise (band_mul_spec has this under ring laws; here: any arithmetic) *)
Theorem band_mul_padding_independent_any : forall (A : Arith) (B B' : banded A) (v : list A),
  wfB B -> length v = bn B -> same_in_matrix_slots B B' -> band_mul B' v = band_mul B v.
Proof. intros A B B' v. exact (band_mul_padding_any_lemma B B' v). Qed.
Check band_mul_padding_independent_any : forall (A : Arith) (B B' : banded A) (v : list A),
  wfB B -> length v = bn B -> same_in_matrix_slots B B' -> band_mul B' v = band_mul B v.
Print Assumptions band_mul_padding_independent_any.
(* non-vacuity at binary64: [[2,1],[1,5]] (m1 = m2 = 1) once with NaN and once with 0 / 7 in the two padding slots *)
Definition ex_F : banded AF := @mkB AF 2 1 1 (@mkM AF [nan; 2; 1;   1; 5; nan]%float 2 3).
Definition ex_F' : banded AF := @mkB AF 2 1 1 (@mkM AF [0; 2; 1;   1; 5; 7]%float 2 3).
Example band_padding_independent_nonvacuous :
  wfB ex_F /\ same_in_matrix_slots ex_F ex_F' /\ compact ex_F' <> compact ex_F /\
  wfB ex_K /\ same_in_matrix_slots ex_K ex_K' /\ compact ex_K' <> compact ex_K.
Proof.
  split; [repeat split|]. split.
  { split; [repeat split|]. repeat split.
    intros i j Hi Hj. cbn in Hi, Hj.
    destruct i as [|[|i]]; try lia; destruct j as [|[|j]]; try lia; intros Hb; try discriminate Hb; vm_compute; reflexivity. }
  split.
  { intros E. apply (f_equal (fun m : matrix AF => PrimFloat.eqb (nth 5 (buf m) 0%float) (nth 5 (buf m) 0%float))) in E.
    vm_compute in E. discriminate E. }
  split; [repeat split|]. exact band_solve_padding_independent_nonvacuous.
Qed.

(* ---- the hypothesis m1 <= n dropped from soundness: on EVERY well-formed band whatever band_solve returns solves the
   dense twin's system (for m1 > n it returns nothing, band_wide_panics) ---- *)
Theorem band_solve_sound_all : forall (A : Arith), FieldLaws A -> forall (B : banded A) (b x : list A),
  wfB B -> length b = bn B -> band_solve B b = Ok x -> length x = bn B /\ dense_mulv B x = b.
Proof. intros A FL B b x. exact (band_solve_sound_all_lemma FL B b x). Qed.
Check band_solve_sound_all : forall (A : Arith), FieldLaws A -> forall (B : banded A) (b x : list A),
  wfB B -> length b = bn B -> band_solve B b = Ok x -> length x = bn B /\ dense_mulv B x = b.
Print Assumptions band_solve_sound_all.

(* ---- every (n, m1, m2), every right-hand side of the right length: an exact answer, or the division by a zero pivot
   of the solver's own factorisation (m1 <= n), or the index panic of the left shift (m1 > n); nothing else ---- *)
Theorem band_solve_trichotomy : forall (A : Arith), FieldLaws A -> forall (B : banded A) (b : list A),
  wfB B -> length b = bn B ->
  (exists x, band_solve B b = Ok x /\ length x = bn B /\ dense_mulv B x = b) \/
  (bm1 B <= bn B /\ band_solve B b = Panic DivZero /\
   exists auN alN indexN dN,
     decompose_gen false B (compact B) (mat_new (bn B) (bm1 B) zero) (repeat 0 (bn B)) = Ok (auN, alN, indexN, dN) /\
     exists i, i < bn B /\ mat_at auN (bm1 B + bm2 B + 1) i 0 = zero) \/
  (bn B < bm1 B /\ band_solve B b = Panic Index).
Proof. intros A FL B b. exact (band_solve_trichotomy_lemma FL B b). Qed.
Check band_solve_trichotomy : forall (A : Arith), FieldLaws A -> forall (B : banded A) (b : list A),
  wfB B -> length b = bn B ->
  (exists x, band_solve B b = Ok x /\ length x = bn B /\ dense_mulv B x = b) \/
  (bm1 B <= bn B /\ band_solve B b = Panic DivZero /\
   exists auN alN indexN dN,
     decompose_gen false B (compact B) (mat_new (bn B) (bm1 B) zero) (repeat 0 (bn B)) = Ok (auN, alN, indexN, dN) /\
     exists i, i < bn B /\ mat_at auN (bm1 B + bm2 B + 1) i 0 = zero) \/
  (bn B < bm1 B /\ band_solve B b = Panic Index).
Print Assumptions band_solve_trichotomy.
Example band_solve_trichotomy_nonvacuous :   (* all three outcomes occur *)
  is_ok (@band_solve AQ ex_S [q 2 1; q (-1) 1; q 6 1; q 5 1]) = true /\
  @band_solve AQ (@band_new AQ 2 1 1 (q 0 1)) [q 1 1; q 1 1] = Panic DivZero /\
  @band_solve AQ (@band_new AQ 2 3 0 (q 1 1)) [q 1 1; q 1 1] = Panic Index.
Proof. repeat split; vm_compute; reflexivity. Qed.

(* ---- binary64 half of the product, as far as a theorem reaches: componentwise backward error of &B * &v in the STANDARD MODEL
   of floating-point arithmetic ([ARnd fadd fsub fmul fdiv], Proofs/TridiagRound.v: the operations are arbitrary functions on
   the reals with fadd x y = (x + y)(1 + d), fmul x y = (x y)(1 + d), |d| <= u; no underflow/overflow -- the SAME Gallina
   band_mul that the check runs at Qc and at the IEEE floats).  The computed product is the EXACT product ([AR]: real
   arithmetic) of a band B' of the same sizes whose every stored entry differs from that of B by at most
   gamma |entry|, gamma = (1 + u)^(m1 + m2 + 2) - 1 (about (m1 + m2 + 2) u): fl(B v) = (B + dB) v, |dB| <= gamma |B|, with a
   constant that depends on the band width and NOT on n.  (A backward-error statement for the compact LU solve is not
   proved.) ---- *)
From Coq Require Import Reals.
From OV Require Import Proofs.VectorR Proofs.TridiagRound Proofs.BandedDet2Round.
Theorem band_mul_backward_error : forall (u : R), (0 <= u <= 1)%R -> forall fadd fsub fmul fdiv : R -> R -> R,
  (forall x y : R, exists d : R, (Rabs d <= u)%R /\ fadd x y = ((x + y) * (1 + d))%R) ->
  (forall x y : R, exists d : R, (Rabs d <= u)%R /\ fmul x y = (x * y * (1 + d))%R) ->
  forall (B : banded (ARnd fadd fsub fmul fdiv)) (v : list R),
  @wfB (ARnd fadd fsub fmul fdiv) B -> length v = bn B ->
  exists B' : banded AR,
    bn B' = bn B /\ bm1 B' = bm1 B /\ bm2 B' = bm2 B /\ @wfB AR B' /\
    (forall i s, i < bn B -> s < bm1 B + bm2 B + 1 ->
       (Rabs (@cslot AR B' i s - @cslot (ARnd fadd fsub fmul fdiv) B i s)
        <= ((1 + u) ^ (bm1 B + bm2 B + 2) - 1) * Rabs (@cslot (ARnd fadd fsub fmul fdiv) B i s))%R) /\
    @band_mul (ARnd fadd fsub fmul fdiv) B v = @band_mul AR B' v /\
    @band_mul AR B' v = Ok (@dense_mulv AR B' v).
Proof. intros u Hu fadd fsub fmul fdiv Hadd Hmul B v. exact (band_mul_backward_ex u Hu fadd fsub fmul fdiv Hadd Hmul B v). Qed.
Check band_mul_backward_error : forall (u : R), (0 <= u <= 1)%R -> forall fadd fsub fmul fdiv : R -> R -> R,
  (forall x y : R, exists d : R, (Rabs d <= u)%R /\ fadd x y = ((x + y) * (1 + d))%R) ->
  (forall x y : R, exists d : R, (Rabs d <= u)%R /\ fmul x y = (x * y * (1 + d))%R) ->
  forall (B : banded (ARnd fadd fsub fmul fdiv)) (v : list R),
  @wfB (ARnd fadd fsub fmul fdiv) B -> length v = bn B ->
  exists B' : banded AR,
    bn B' = bn B /\ bm1 B' = bm1 B /\ bm2 B' = bm2 B /\ @wfB AR B' /\
    (forall i s, i < bn B -> s < bm1 B + bm2 B + 1 ->
       (Rabs (@cslot AR B' i s - @cslot (ARnd fadd fsub fmul fdiv) B i s)
        <= ((1 + u) ^ (bm1 B + bm2 B + 2) - 1) * Rabs (@cslot (ARnd fadd fsub fmul fdiv) B i s))%R) /\
    @band_mul (ARnd fadd fsub fmul fdiv) B v = @band_mul AR B' v /\
    @band_mul AR B' v = Ok (@dense_mulv AR B' v).
Print Assumptions band_mul_backward_error.
(* non-vacuity: an inexact arithmetic in the model (every sum and product 25% too large, u = 1/2) and a well-formed band over it *)
Example band_mul_backward_error_nonvacuous :
  (0 <= / 2 <= 1)%R /\
  (forall x y : R, exists d : R, (Rabs d <= / 2)%R /\ ((x + y) * (1 + / 4))%R = ((x + y) * (1 + d))%R) /\
  (forall x y : R, exists d : R, (Rabs d <= / 2)%R /\ (x * y * (1 + / 4))%R = (x * y * (1 + d))%R) /\
  @wfB (ARnd (fun x y => ((x + y) * (1 + / 4))%R) Rminus (fun x y => (x * y * (1 + / 4))%R) Rdiv)
       (@band_new (ARnd (fun x y => ((x + y) * (1 + / 4))%R) Rminus (fun x y => (x * y * (1 + / 4))%R) Rdiv) 3 1 1 1%R).
Proof.
  split; [split; Lra.lra|].
  assert (H : (Rabs (/ 4) <= / 2)%R) by (rewrite Rabs_pos_eq; Lra.lra).
  split; [intros x y; exists (/ 4)%R; split; [exact H|reflexivity]|].
  split; [intros x y; exists (/ 4)%R; split; [exact H|reflexivity]|]. apply band_new_wf.
Qed.

(* ---- the tie by proof carried through to the new theorems: the same statements about the functions REGENERATED FROM
   src/banded.rs on this run (gen/SrcBanded.v; equalities Proofs/SrcEqBanded.v): the translated Banded::det is the determinant
   of the dense twin at the exact tier (singular twins included; the matrix determinant is the model function that C02
   ties -- on purpose C04 does not depend on the source text of src/matrix/solve.rs), and the translated det / solve /
   &B * &v do not see padding, over any arithmetic. ---- *)
From OV Require Import gen.SrcBanded Proofs.BandedDet2Src.
Theorem source_band_det_is_determinant_Qc : forall B : banded AQ, wfB B -> bm1 B <= bn B ->
  @s_band_det AQ B = @Solve.determinant AQ (@tabulate AQ (bn B) (bn B) (@dense_entry AQ B)).
Proof. exact source_band_det_spec_Qc_lemma. Qed.
Check source_band_det_is_determinant_Qc : forall B : banded AQ, wfB B -> bm1 B <= bn B ->
  @s_band_det AQ B = @Solve.determinant AQ (@tabulate AQ (bn B) (bn B) (@dense_entry AQ B)).
Print Assumptions source_band_det_is_determinant_Qc.
Theorem source_band_padding_independent : forall (A : Arith) (B B' : banded A),
  wfB B -> same_in_matrix_slots B B' ->
  s_band_det B' = s_band_det B /\
  (forall b, s_band_solve B' b = s_band_solve B b) /\
  (forall v, length v = bn B -> s_band_mul B' v = s_band_mul B v).
Proof. intros A B B'. exact (source_band_padding_lemma B B'). Qed.
Check source_band_padding_independent : forall (A : Arith) (B B' : banded A),
  wfB B -> same_in_matrix_slots B B' ->
  s_band_det B' = s_band_det B /\
  (forall b, s_band_solve B' b = s_band_solve B b) /\
  (forall v, length v = bn B -> s_band_mul B' v = s_band_mul B v).
Print Assumptions source_band_padding_independent.
(* ---- tie of the model to the source of this run (package r2c2): gen/SrcWrapBanded.v is regenerated on every check run from
   src/banded.rs: the consuming operator forms (each delegates to the by-reference form), empty, size, size_below, size_above, compact;
   Proofs/SrcEqWrapBanded.v proves each regenerated function equal to its hand-written model. *)
From OV Require Proofs.SrcEqWrapBanded.
Theorem model_is_source_C04_WrapBanded : forall A : Arith, @SrcEqWrapBanded.model_is_source_WrapBanded A.
Proof. intros A. exact SrcEqWrapBanded.model_is_source_WrapBanded_lemma. Qed.
Check model_is_source_C04_WrapBanded : forall A : Arith, @SrcEqWrapBanded.model_is_source_WrapBanded A.
Print Assumptions model_is_source_C04_WrapBanded.
(* ======================================================================================================
   C04 (banded matrices), rounding half -- package round.  Append to Props/C04.v.
   The banded matrix-vector product "to rounding accuracy": Model/Banded.v [band_mul]
   (a) in the STANDARD MODEL of floating-point arithmetic (the same Gallina [band_mul] at ARm): every in-matrix band
       entry of row i is perturbed relatively by at most gam (row_cnt B i), and row_cnt B i <= m1 + m2 + 1 -- the
       constant depends on the BANDWIDTH, not on the dimension ([bslot B i k] is the k-th in-matrix slot of row i,
       [bcol B i k] the index of the vector entry it multiplies);
   (b) for the PRIMITIVE-FLOAT instance (IEEE binary64) through Flocq: for every finite component whose products do not
       underflow.
   NOT covered: band_solve / band_det -- the compact LU with its shifting storage (the backward-error claim of C04 for
   the solver stays with tie + search); (a) assumes the standard model.
   ====================================================================================================== *)
From Coq Require Import Reals Floats Lra Lia.
From OV Require Import Base.RoundModel Proofs.Banded Proofs.RoundDot Proofs.RoundFlx Proofs.ComplexRound Proofs.RoundDotFloat
  Proofs.RoundBanded Inst.FloatInst.

Theorem band_mul_backward_error_gamma : forall (u : R), (0 <= u < 1)%R ->
  forall (fadd fsub fmul fdiv : R -> R -> R),
  (forall x y : R, exists d : R, (Rabs d <= u)%R /\ fadd x y = ((x + y) * (1 + d))%R) ->
  (forall x y : R, exists d : R, (Rabs d <= u)%R /\ fmul x y = (x * y * (1 + d))%R) ->
  (forall a b : R, fadd 0%R (fmul a b) = fmul a b) ->
  forall (B : banded (ARm fadd fsub fmul fdiv)) (v w : list R),
  wfB B -> band_mul B v = Ok w ->
  length w = bn B /\
  forall i, (i < bn B)%nat -> (INR (row_cnt B i) * u < 1)%R ->
    exists th : nat -> R,
      (forall k, (k < row_cnt B i)%nat -> (Rabs (th k) <= gam u (row_cnt B i))%R) /\
      nth i w 0%R = Rsum (row_cnt B i)
                      (fun k => (bslot fadd fsub fmul fdiv B i k * (1 + th k) * nth (bcol fadd fsub fmul fdiv B i k) v 0)%R).
Proof. intros u Hu fadd fsub fmul fdiv Ha Hm H0 B v w. exact (band_mul_backward_error_lemma u Hu fadd fsub fmul fdiv Ha Hm H0 B v w). Qed.
Check band_mul_backward_error_gamma : forall (u : R), (0 <= u < 1)%R ->
  forall (fadd fsub fmul fdiv : R -> R -> R),
  (forall x y : R, exists d : R, (Rabs d <= u)%R /\ fadd x y = ((x + y) * (1 + d))%R) ->
  (forall x y : R, exists d : R, (Rabs d <= u)%R /\ fmul x y = (x * y * (1 + d))%R) ->
  (forall a b : R, fadd 0%R (fmul a b) = fmul a b) ->
  forall (B : banded (ARm fadd fsub fmul fdiv)) (v w : list R),
  wfB B -> band_mul B v = Ok w ->
  length w = bn B /\
  forall i, (i < bn B)%nat -> (INR (row_cnt B i) * u < 1)%R ->
    exists th : nat -> R,
      (forall k, (k < row_cnt B i)%nat -> (Rabs (th k) <= gam u (row_cnt B i))%R) /\
      nth i w 0%R = Rsum (row_cnt B i)
                      (fun k => (bslot fadd fsub fmul fdiv B i k * (1 + th k) * nth (bcol fadd fsub fmul fdiv B i k) v 0)%R).
Print Assumptions band_mul_backward_error_gamma.
(* the tridiagonal 3x3 band (m1 = m2 = 1) filled with 2's, times [1,2,3], in the arithmetic that rounds every operation *)
Example band_mul_backward_error_gamma_nonvacuous :
  let B := @band_new AFlx 3 1 1 2%R in
  (0 <= ux < 1)%R /\
  (forall x y : R, exists d : R, (Rabs d <= ux)%R /\ xadd x y = ((x + y) * (1 + d))%R) /\
  (forall x y : R, exists d : R, (Rabs d <= ux)%R /\ xmul x y = (x * y * (1 + d))%R) /\
  (forall a b : R, xadd 0%R (xmul a b) = xmul a b) /\
  wfB B /\ (exists w, band_mul B [1%R; 2%R; 3%R] = Ok w) /\
  (forall i, (i < bn B)%nat -> (INR (row_cnt B i) * ux < 1)%R) /\ row_cnt B 1 = 3%nat.
Proof.
  cbn zeta. split; [exact ux_range|]. split; [exact xadd_ok|]. split; [exact xmul_ok|]. split; [exact xadd_0_mul|].
  split; [apply band_new_wf|]. split; [eexists; reflexivity|]. split; [|reflexivity].
  intros [|[|[|i]]] Hi; cbn in Hi; try lia; cbn; pose proof ux_small; lra.
Qed.

Theorem band_mul_forward_error : forall (u : R), (0 <= u < 1)%R ->
  forall (fadd fsub fmul fdiv : R -> R -> R),
  (forall x y : R, exists d : R, (Rabs d <= u)%R /\ fadd x y = ((x + y) * (1 + d))%R) ->
  (forall x y : R, exists d : R, (Rabs d <= u)%R /\ fmul x y = (x * y * (1 + d))%R) ->
  (forall a b : R, fadd 0%R (fmul a b) = fmul a b) ->
  forall (B : banded (ARm fadd fsub fmul fdiv)) (v w : list R),
  wfB B -> band_mul B v = Ok w ->
  forall i, (i < bn B)%nat -> (INR (row_cnt B i) * u < 1)%R ->
    (Rabs (nth i w 0 - Rsum (row_cnt B i)
                         (fun k => bslot fadd fsub fmul fdiv B i k * nth (bcol fadd fsub fmul fdiv B i k) v 0))
       <= gam u (row_cnt B i)
          * Rsum (row_cnt B i)
              (fun k => Rabs (bslot fadd fsub fmul fdiv B i k) * Rabs (nth (bcol fadd fsub fmul fdiv B i k) v 0)))%R.
Proof. intros u Hu fadd fsub fmul fdiv Ha Hm H0 B v w. exact (band_mul_forward_error_lemma u Hu fadd fsub fmul fdiv Ha Hm H0 B v w). Qed.
Check band_mul_forward_error : forall (u : R), (0 <= u < 1)%R ->
  forall (fadd fsub fmul fdiv : R -> R -> R),
  (forall x y : R, exists d : R, (Rabs d <= u)%R /\ fadd x y = ((x + y) * (1 + d))%R) ->
  (forall x y : R, exists d : R, (Rabs d <= u)%R /\ fmul x y = (x * y * (1 + d))%R) ->
  (forall a b : R, fadd 0%R (fmul a b) = fmul a b) ->
  forall (B : banded (ARm fadd fsub fmul fdiv)) (v w : list R),
  wfB B -> band_mul B v = Ok w ->
  forall i, (i < bn B)%nat -> (INR (row_cnt B i) * u < 1)%R ->
    (Rabs (nth i w 0 - Rsum (row_cnt B i)
                         (fun k => bslot fadd fsub fmul fdiv B i k * nth (bcol fadd fsub fmul fdiv B i k) v 0))
       <= gam u (row_cnt B i)
          * Rsum (row_cnt B i)
              (fun k => Rabs (bslot fadd fsub fmul fdiv B i k) * Rabs (nth (bcol fadd fsub fmul fdiv B i k) v 0)))%R.
Print Assumptions band_mul_forward_error.
Example band_mul_forward_error_nonvacuous :   (* same instance *)
  let B := @band_new AFlx 3 1 1 2%R in
  (0 <= ux < 1)%R /\ wfB B /\ (exists w, band_mul B [1%R; 2%R; 3%R] = Ok w) /\
  (forall i, (i < bn B)%nat -> (INR (row_cnt B i) * ux < 1)%R).
Proof.
  cbn zeta. split; [exact ux_range|]. split; [apply band_new_wf|]. split; [eexists; reflexivity|].
  intros [|[|[|i]]] Hi; cbn in Hi; try lia; cbn; pose proof ux_small; lra.
Qed.

Theorem band_mul_backward_error_float : forall (B : banded AF) (v w : list PrimFloat.float),
  wfB B -> band_mul (A := AF) B v = Ok w ->
  length w = bn B /\
  forall i, (i < bn B)%nat -> ffinite (nth i w 0%float) ->
    (forall k, (k < row_cnt B i)%nat -> no_underflow (fbslot B i k * FR (nth (fbcol B i k) v 0%float))%R) ->
    (INR (row_cnt B i) * u64 < 1)%R ->
    exists th : nat -> R,
      (forall k, (k < row_cnt B i)%nat -> (Rabs (th k) <= g64 (row_cnt B i))%R) /\
      FR (nth i w 0%float) = Rsum (row_cnt B i)
                               (fun k => (fbslot B i k * (1 + th k) * FR (nth (fbcol B i k) v 0%float))%R).
Proof. exact band_mul_backward_error_float_lemma. Qed.
Check band_mul_backward_error_float : forall (B : banded AF) (v w : list PrimFloat.float),
  wfB B -> band_mul (A := AF) B v = Ok w ->
  length w = bn B /\
  forall i, (i < bn B)%nat -> ffinite (nth i w 0%float) ->
    (forall k, (k < row_cnt B i)%nat -> no_underflow (fbslot B i k * FR (nth (fbcol B i k) v 0%float))%R) ->
    (INR (row_cnt B i) * u64 < 1)%R ->
    exists th : nat -> R,
      (forall k, (k < row_cnt B i)%nat -> (Rabs (th k) <= g64 (row_cnt B i))%R) /\
      FR (nth i w 0%float) = Rsum (row_cnt B i)
                               (fun k => (fbslot B i k * (1 + th k) * FR (nth (fbcol B i k) v 0%float))%R).
Print Assumptions band_mul_backward_error_float.
(* the tridiagonal 3x3 band filled with 1.5, times [3,4,3] in binary64: row 1 accumulates three products *)
Example band_mul_backward_error_float_nonvacuous :
  let B := @band_new AF 3 1 1 1.5%float in let v := [3%float; 4%float; 3%float] in
  wfB B /\ exists w, band_mul (A := AF) B v = Ok w /\ ffinite (nth 1 w 0%float) /\
    (forall k, (k < row_cnt B 1)%nat -> no_underflow (fbslot B 1 k * FR (nth (fbcol B 1 k) v 0%float))%R) /\
    (INR (row_cnt B 1) * u64 < 1)%R.
Proof.
  cbn zeta. split; [apply band_new_wf|]. eexists. split; [vm_compute; reflexivity|].
  split; [apply ffinite_SF; reflexivity|].
  assert (E15 : FR 1.5%float = 1.5%R) by fr_eval. assert (E3 : FR 3%float = 3%R) by fr_eval.
  assert (E4 : FR 4%float = 4%R) by fr_eval.
  split; [|cbn; pose proof u64_small; lra].
  intros [|[|[|k]]] Hk; cbn in Hk; try lia; unfold fbslot, fbcol, cslot; cbn -[FR]; rewrite ?E15, ?E3, ?E4;
    apply no_underflow_ge1; rewrite Rabs_pos_eq; lra.
Qed.

(* Proofs/Round2PinBand.v -- package round2, pin blocks for C04 (append to Props/C04.v).  Compiled copy of the blocks,
   in the scope context of Props/C04.v (nat_scope open, Reals imported, R_scope not open).
   ======================================================================================================
   C04 (banded matrices), rounding half of the SOLVER -- package round2.
   Round one left "band_solve / band_det -- the compact LU with its shifting storage" uncovered.  The blocks below are about
   the two substitution phases of [band_solve] (Model/Banded.v: [fwd_step] with the recorded row exchanges, [back_step]
   with the growing window), first over ANY arithmetic (what each output component is, as a left fold
   sfold [(a_0,v_0); ...] s = (..((s - a_0*v_0) - a_1*v_1)..) of the arithmetic's own operations), then in the STANDARD
   MODEL of floating-point arithmetic (Base/RoundModel.v: the same Gallina functions at ARm):
     band_back_trace                         x_i = (sfold [(au[i][k], x_(i+k)) | 1 <= k < l_i] y_i) / au[i][0],  l_i = min mm (n-i)
     band_backsolve_backward_error           (U + dU) x = y row by row, |dU_(i,i+k)| <= gam(l_i) |au[i][k]|: the constant depends on
                                             the bandwidth mm = m1+m2+1, not on n                       (Higham Thm 8.5 for the band)
     band_fwd_trace                          y_r = sfold [(a, y_j) | (a,j) in fhist r] b_(fperm r): the multipliers applied to the
                                             entry of b that the recorded exchanges bring to position r
     band_forward_backward_error             (L + dL) y = P b row by row, unit lower triangular L (row r = fhist r), |dL| <= gam(c_r)|L|,
                                             c_r = number of updates of that entry (<= r; not bounded by m1 under pivoting)
     band_forward_noswap_backward_error      no exchanges: L is the unit lower BAND matrix al[j][r-j-1], constant gam(min r m1)
     band_dec_trace / band_lu_backward_error / band_lu_noswap_backward_error
                                             the main loop of decompose: entries of au and the multipliers in al as folds; row-wise
                                             L U = P B + dB, |dB| <= gam(c_r)|L||U| (Higham Thm 9.3); gam(min r m1) without exchanges
     band_history_shape                      row r of L: c_r <= r multipliers of the consecutive stages r - c_r .. r-1
     band_solve_phases                       band_solve = shift_rows ; main loop ; forward phase ; back substitution
     band_solve_backward_error               the three row-wise statements for the factors band_solve computed itself
     band_solve_single_backward_error        multiplied out: (B + dB) x = b, |dB| <= (3 gam N + gam N^2)|L||U| (Higham Thm 9.4)
     band_solve_noswap_single_backward_error the same when no rows were exchanged: |dB| <= gam(3(m1+m2+1))|L||U|, bandwidth only
   Hypothesis throughout: the computed pivots au[k][0] are nonzero (division by zero does not panic in the rounded reals).
   NOT covered: a bound of |L||U| by |B| (growth factor); binary64 itself (the standard model is assumed, discharged for
   53-bit round-to-nearest with unbounded exponent in Proofs/RoundFlx.v); band_det.
   ====================================================================================================== *)
From Coq Require Import List Arith ZArith QArith Qcanon Lia Floats.
From OV Require Import Base.Panic Base.Arith Base.Flat Model.Vector Model.Matrix Model.Banded Inst.QcInst Inst.FloatInst Proofs.Banded Proofs.BandedLU Proofs.BandedTotal Proofs.BandedComplete.
Import ListNotations.
Local Open Scope nat_scope.
From Coq Require Import Reals.
(* ---- the blocks start here ---- *)
From Coq Require Import Reals Lra Lia.
From OV Require Import Base.RoundModel Proofs.RoundFlx Proofs.Round2Band Proofs.Round2BandB Proofs.Round2BandC.
(* back substitution over ANY arithmetic: every component of the answer is one left fold over the final answer, divided by the pivot *)
Theorem band_back_trace : forall (A : Arith) (au : matrix A) (mm n : nat) (y x : list A) (lf : nat),
  cols au = mm -> 1 <= mm -> length y = n ->
  for_rev 0 n (back_step mm au) (y, 1) = Ok (x, lf) ->
  length x = n /\
  forall i, i < n ->
    div (bacc au mm i (bwin mm n i) x (nth i y zero)) (mat_at au mm i 0) = Ok (nth i x zero).
Proof. intros A au mm n y x lf. exact (band_back_trace_lemma au mm n y x lf). Qed.
Check band_back_trace : forall (A : Arith) (au : matrix A) (mm n : nat) (y x : list A) (lf : nat),
  cols au = mm -> 1 <= mm -> length y = n ->
  for_rev 0 n (back_step mm au) (y, 1) = Ok (x, lf) ->
  length x = n /\
  forall i, i < n ->
    div (bacc au mm i (bwin mm n i) x (nth i y zero)) (mat_at au mm i 0) = Ok (nth i x zero).
Print Assumptions band_back_trace.
(* the loop answers on concrete data in the arithmetic that rounds every operation; the windows are 2, 2, 1 *)
Example band_back_trace_nonvacuous :
  cols exb_au = 2 /\ length exb_y = 3 /\
  (exists x lf, for_rev 0 3 (back_step (A := AFlx) 2 exb_au) (exb_y, 1) = Ok (x, lf)) /\
  map (bwin 2 3) [0; 1; 2] = [2; 2; 1] /\ xdiv 1%R 3%R <> (1 / 3)%R.
Proof. split; [reflexivity|]. split; [reflexivity|]. split; [exact exb_back|]. split; [reflexivity|exact xdiv_inexact]. Qed.

(* Higham Theorem 8.5 for the band: the computed x solves a nearby upper-banded system exactly; the constant is gam(l_i), l_i = min mm (n-i) <= mm *)
Theorem band_backsolve_backward_error : forall (u : R), (0 <= u < 1)%R ->
  forall (fadd fsub fmul fdiv : R -> R -> R),
  (forall x y : R, exists d : R, (Rabs d <= u)%R /\ fsub x y = ((x - y) * (1 + d))%R) ->
  (forall x y : R, exists d : R, (Rabs d <= u)%R /\ fmul x y = (x * y * (1 + d))%R) ->
  (forall x y : R, y <> 0%R -> exists d : R, (Rabs d <= u)%R /\ fdiv x y = (x / y * (1 + d))%R) ->
  forall (au : matrix (ARm fadd fsub fmul fdiv)) (mm n : nat) (y x : list R) (lf : nat),
  cols au = mm -> 1 <= mm -> length y = n -> (INR mm * u < 1)%R ->
  (forall i, i < n -> mat_at (A := ARm fadd fsub fmul fdiv) au mm i 0 <> 0%R) ->
  for_rev 0 n (back_step (A := ARm fadd fsub fmul fdiv) mm au) (y, 1) = Ok (x, lf) ->
  length x = n /\
  exists dU : nat -> nat -> R,
    (forall i k, i < n -> k < bwin mm n i ->
       (Rabs (dU i k) <= gam u (bwin mm n i) * Rabs (mat_at (A := ARm fadd fsub fmul fdiv) au mm i k))%R) /\
    forall i, i < n ->
      Rsum (bwin mm n i) (fun k => ((mat_at (A := ARm fadd fsub fmul fdiv) au mm i k + dU i k) * nth (i + k) x 0)%R)
      = nth i y 0%R.
Proof. intros u Hu fadd fsub fmul fdiv Hs Hm Hd au mm n y x lf. exact (band_backsolve_backward_error_lemma u Hu fadd fsub fmul fdiv Hs Hm Hd au mm n y x lf). Qed.
Check band_backsolve_backward_error : forall (u : R), (0 <= u < 1)%R ->
  forall (fadd fsub fmul fdiv : R -> R -> R),
  (forall x y : R, exists d : R, (Rabs d <= u)%R /\ fsub x y = ((x - y) * (1 + d))%R) ->
  (forall x y : R, exists d : R, (Rabs d <= u)%R /\ fmul x y = (x * y * (1 + d))%R) ->
  (forall x y : R, y <> 0%R -> exists d : R, (Rabs d <= u)%R /\ fdiv x y = (x / y * (1 + d))%R) ->
  forall (au : matrix (ARm fadd fsub fmul fdiv)) (mm n : nat) (y x : list R) (lf : nat),
  cols au = mm -> 1 <= mm -> length y = n -> (INR mm * u < 1)%R ->
  (forall i, i < n -> mat_at (A := ARm fadd fsub fmul fdiv) au mm i 0 <> 0%R) ->
  for_rev 0 n (back_step (A := ARm fadd fsub fmul fdiv) mm au) (y, 1) = Ok (x, lf) ->
  length x = n /\
  exists dU : nat -> nat -> R,
    (forall i k, i < n -> k < bwin mm n i ->
       (Rabs (dU i k) <= gam u (bwin mm n i) * Rabs (mat_at (A := ARm fadd fsub fmul fdiv) au mm i k))%R) /\
    forall i, i < n ->
      Rsum (bwin mm n i) (fun k => ((mat_at (A := ARm fadd fsub fmul fdiv) au mm i k + dU i k) * nth (i + k) x 0)%R)
      = nth i y 0%R.
Print Assumptions band_backsolve_backward_error.
Example band_backsolve_backward_error_nonvacuous :
  (0 <= ux < 1)%R /\
  (forall x y : R, exists d : R, (Rabs d <= ux)%R /\ xsub x y = ((x - y) * (1 + d))%R) /\
  (forall x y : R, exists d : R, (Rabs d <= ux)%R /\ xmul x y = (x * y * (1 + d))%R) /\
  (forall x y : R, y <> 0%R -> exists d : R, (Rabs d <= ux)%R /\ xdiv x y = (x / y * (1 + d))%R) /\
  cols exb_au = 2 /\ length exb_y = 3 /\ (INR 2 * ux < 1)%R /\
  (forall i, i < 3 -> mat_at (A := AFlx) exb_au 2 i 0 <> 0%R) /\
  (exists x lf, for_rev 0 3 (back_step (A := AFlx) 2 exb_au) (exb_y, 1) = Ok (x, lf)) /\
  xdiv 1%R 3%R <> (1 / 3)%R.
Proof.
  split; [exact ux_range|]. split; [exact xsub_ok|]. split; [exact xmul_ok|]. split; [exact xdiv_ok|].
  split; [reflexivity|]. split; [reflexivity|]. split; [exact exb_size2|]. split; [exact exb_pivots|].
  split; [exact exb_back|exact xdiv_inexact].
Qed.

(* the forward phase over ANY arithmetic, with the recorded row exchanges: position r holds the entry b_(fperm r), updated by the multipliers of fhist r *)
Theorem band_fwd_trace : forall (A : Arith) (al : matrix A) (index : list nat) (n m1 : nat) (b y : list A) (lf : nat),
  cols al = m1 -> m1 <= n -> length b = n ->
  (forall k, k < n -> k + 1 <= nth k index 0) ->
  for_ 0 n (fwd_step n al index) (b, m1) = Ok (y, lf) ->
  length y = n /\
  forall r, nth r y zero = sfold (fterms (fhist n m1 al index n r) y) (nth (fperm index n r) b zero).
Proof. intros A al index n m1 b y lf. exact (band_fwd_trace_lemma al index n m1 b y lf). Qed.
Check band_fwd_trace : forall (A : Arith) (al : matrix A) (index : list nat) (n m1 : nat) (b y : list A) (lf : nat),
  cols al = m1 -> m1 <= n -> length b = n ->
  (forall k, k < n -> k + 1 <= nth k index 0) ->
  for_ 0 n (fwd_step n al index) (b, m1) = Ok (y, lf) ->
  length y = n /\
  forall r, nth r y zero = sfold (fterms (fhist n m1 al index n r) y) (nth (fperm index n r) b zero).
Print Assumptions band_fwd_trace.
(* a record with a genuine exchange (rows 0 and 1 at stage 0): position 0 receives b_1, positions 1 and 2 are updated once *)
Example band_fwd_trace_nonvacuous :
  cols exb_al = 1 /\ length exb_b = 3 /\
  (forall k, k < 3 -> k + 1 <= nth k exb_index 0) /\
  (exists y lf, for_ 0 3 (fwd_step (A := AFlx) 3 exb_al exb_index) (exb_b, 1) = Ok (y, lf)) /\
  map (fperm exb_index 3) [0; 1; 2] = [1; 0; 2] /\
  map (fun r => length (fhist (A := AFlx) 3 1 exb_al exb_index 3 r)) [0; 1; 2] = [0; 1; 1].
Proof.
  split; [reflexivity|]. split; [reflexivity|]. split; [exact exb_index_ok|]. split; [exact exb_fwd|].
  split; [exact exb_fperm|exact exb_fhist_len].
Qed.

(* (L + dL) y = P b for the forward phase with exchanges: L unit lower triangular (all stages in row r are < r), c_r = length (fhist r) <= r updates *)
Theorem band_forward_backward_error : forall (u : R), (0 <= u < 1)%R ->
  forall (fadd fsub fmul fdiv : R -> R -> R),
  (forall x y : R, exists d : R, (Rabs d <= u)%R /\ fsub x y = ((x - y) * (1 + d))%R) ->
  (forall x y : R, exists d : R, (Rabs d <= u)%R /\ fmul x y = (x * y * (1 + d))%R) ->
  forall (al : matrix (ARm fadd fsub fmul fdiv)) (index : list nat) (n m1 : nat) (b y : list R) (lf : nat),
  cols al = m1 -> m1 <= n -> length b = n ->
  (forall k, k < n -> k + 1 <= nth k index 0) ->
  for_ 0 n (fwd_step (A := ARm fadd fsub fmul fdiv) n al index) (b, m1) = Ok (y, lf) ->
  length y = n /\
  forall r, r < n ->
    let h : list (R * nat) := fhist (A := ARm fadd fsub fmul fdiv) n m1 al index n r in
    length h <= r /\
    (forall t, t < length h -> snd (nth t h (0%R, 0)) < r) /\
    ((INR (length h) * u < 1)%R ->
     exists (dd : R) (dL : nat -> R),
       (Rabs dd <= gam u (length h))%R /\
       (forall t, t < length h -> (Rabs (dL t) <= gam u (length h) * Rabs (fst (nth t h (0%R, 0%nat))))%R) /\
       ((1 + dd) * nth r y 0
        + Rsum (length h) (fun t => (fst (nth t h (0, 0%nat)) + dL t) * nth (snd (nth t h (0, 0%nat))) y 0)
        = nth (fperm index n r) b 0)%R).
Proof. intros u Hu fadd fsub fmul fdiv Hs Hm al index n m1 b y lf. exact (band_forward_backward_error_lemma u Hu fadd fsub fmul fdiv Hs Hm al index n m1 b y lf). Qed.
Check band_forward_backward_error : forall (u : R), (0 <= u < 1)%R ->
  forall (fadd fsub fmul fdiv : R -> R -> R),
  (forall x y : R, exists d : R, (Rabs d <= u)%R /\ fsub x y = ((x - y) * (1 + d))%R) ->
  (forall x y : R, exists d : R, (Rabs d <= u)%R /\ fmul x y = (x * y * (1 + d))%R) ->
  forall (al : matrix (ARm fadd fsub fmul fdiv)) (index : list nat) (n m1 : nat) (b y : list R) (lf : nat),
  cols al = m1 -> m1 <= n -> length b = n ->
  (forall k, k < n -> k + 1 <= nth k index 0) ->
  for_ 0 n (fwd_step (A := ARm fadd fsub fmul fdiv) n al index) (b, m1) = Ok (y, lf) ->
  length y = n /\
  forall r, r < n ->
    let h : list (R * nat) := fhist (A := ARm fadd fsub fmul fdiv) n m1 al index n r in
    length h <= r /\
    (forall t, t < length h -> snd (nth t h (0%R, 0)) < r) /\
    ((INR (length h) * u < 1)%R ->
     exists (dd : R) (dL : nat -> R),
       (Rabs dd <= gam u (length h))%R /\
       (forall t, t < length h -> (Rabs (dL t) <= gam u (length h) * Rabs (fst (nth t h (0%R, 0%nat))))%R) /\
       ((1 + dd) * nth r y 0
        + Rsum (length h) (fun t => (fst (nth t h (0, 0%nat)) + dL t) * nth (snd (nth t h (0, 0%nat))) y 0)
        = nth (fperm index n r) b 0)%R).
Print Assumptions band_forward_backward_error.
Example band_forward_backward_error_nonvacuous :
  (0 <= ux < 1)%R /\
  (forall x y : R, exists d : R, (Rabs d <= ux)%R /\ xsub x y = ((x - y) * (1 + d))%R) /\
  (forall x y : R, exists d : R, (Rabs d <= ux)%R /\ xmul x y = (x * y * (1 + d))%R) /\
  cols exb_al = 1 /\ length exb_b = 3 /\
  (forall k, k < 3 -> k + 1 <= nth k exb_index 0) /\
  (exists y lf, for_ 0 3 (fwd_step (A := AFlx) 3 exb_al exb_index) (exb_b, 1) = Ok (y, lf)) /\
  (forall r, r < 3 -> (INR (length (fhist (A := AFlx) 3 1 exb_al exb_index 3 r)) * ux < 1)%R).
Proof.
  split; [exact ux_range|]. split; [exact xsub_ok|]. split; [exact xmul_ok|].
  split; [reflexivity|]. split; [reflexivity|]. split; [exact exb_index_ok|]. split; [exact exb_fwd|].
  intros [|[|[|r]]] Hr; try lia; cbn [fhist length]; cbn; pose proof ux_small; lra.
Qed.

(* without exchanges: (L + dL) y = b with the unit lower BAND matrix L_(r,j) = al[j][r-j-1], r - m1 <= j < r; the constant is gam(min r m1) *)
Theorem band_forward_noswap_backward_error : forall (u : R), (0 <= u < 1)%R ->
  forall (fadd fsub fmul fdiv : R -> R -> R),
  (forall x y : R, exists d : R, (Rabs d <= u)%R /\ fsub x y = ((x - y) * (1 + d))%R) ->
  (forall x y : R, exists d : R, (Rabs d <= u)%R /\ fmul x y = (x * y * (1 + d))%R) ->
  forall (al : matrix (ARm fadd fsub fmul fdiv)) (index : list nat) (n m1 : nat) (b y : list R) (lf : nat),
  cols al = m1 -> m1 <= n -> length b = n -> (INR m1 * u < 1)%R ->
  (forall k, k < n -> nth k index 0 = k + 1) ->
  for_ 0 n (fwd_step (A := ARm fadd fsub fmul fdiv) n al index) (b, m1) = Ok (y, lf) ->
  length y = n /\
  forall r, r < n ->
    exists (dd : R) (dL : nat -> R),
      (Rabs dd <= gam u (Nat.min r m1))%R /\
      (forall t, t < Nat.min r m1 ->
         (Rabs (dL t) <= gam u (Nat.min r m1)
                         * Rabs (mat_at (A := ARm fadd fsub fmul fdiv) al m1 (r - Nat.min r m1 + t) (r - (r - Nat.min r m1 + t) - 1)))%R) /\
      ((1 + dd) * nth r y 0
       + Rsum (Nat.min r m1)
           (fun t => (mat_at (A := ARm fadd fsub fmul fdiv) al m1 (r - Nat.min r m1 + t) (r - (r - Nat.min r m1 + t) - 1) + dL t)
                     * nth (r - Nat.min r m1 + t) y 0)
       = nth r b 0)%R.
Proof. intros u Hu fadd fsub fmul fdiv Hs Hm al index n m1 b y lf. exact (band_forward_noswap_backward_error_lemma u Hu fadd fsub fmul fdiv Hs Hm al index n m1 b y lf). Qed.
Check band_forward_noswap_backward_error : forall (u : R), (0 <= u < 1)%R ->
  forall (fadd fsub fmul fdiv : R -> R -> R),
  (forall x y : R, exists d : R, (Rabs d <= u)%R /\ fsub x y = ((x - y) * (1 + d))%R) ->
  (forall x y : R, exists d : R, (Rabs d <= u)%R /\ fmul x y = (x * y * (1 + d))%R) ->
  forall (al : matrix (ARm fadd fsub fmul fdiv)) (index : list nat) (n m1 : nat) (b y : list R) (lf : nat),
  cols al = m1 -> m1 <= n -> length b = n -> (INR m1 * u < 1)%R ->
  (forall k, k < n -> nth k index 0 = k + 1) ->
  for_ 0 n (fwd_step (A := ARm fadd fsub fmul fdiv) n al index) (b, m1) = Ok (y, lf) ->
  length y = n /\
  forall r, r < n ->
    exists (dd : R) (dL : nat -> R),
      (Rabs dd <= gam u (Nat.min r m1))%R /\
      (forall t, t < Nat.min r m1 ->
         (Rabs (dL t) <= gam u (Nat.min r m1)
                         * Rabs (mat_at (A := ARm fadd fsub fmul fdiv) al m1 (r - Nat.min r m1 + t) (r - (r - Nat.min r m1 + t) - 1)))%R) /\
      ((1 + dd) * nth r y 0
       + Rsum (Nat.min r m1)
           (fun t => (mat_at (A := ARm fadd fsub fmul fdiv) al m1 (r - Nat.min r m1 + t) (r - (r - Nat.min r m1 + t) - 1) + dL t)
                     * nth (r - Nat.min r m1 + t) y 0)
       = nth r b 0)%R.
Print Assumptions band_forward_noswap_backward_error.
Example band_forward_noswap_backward_error_nonvacuous :
  (0 <= ux < 1)%R /\
  (forall x y : R, exists d : R, (Rabs d <= ux)%R /\ xsub x y = ((x - y) * (1 + d))%R) /\
  (forall x y : R, exists d : R, (Rabs d <= ux)%R /\ xmul x y = (x * y * (1 + d))%R) /\
  cols exb_al = 1 /\ length exb_b = 3 /\ (INR 1 * ux < 1)%R /\
  (forall k, k < 3 -> nth k exb_index0 0 = k + 1) /\
  (exists y lf, for_ 0 3 (fwd_step (A := AFlx) 3 exb_al exb_index0) (exb_b, 1) = Ok (y, lf)).
Proof.
  split; [exact ux_range|]. split; [exact xsub_ok|]. split; [exact xmul_ok|].
  split; [reflexivity|]. split; [reflexivity|]. split; [exact exb_size1|]. split; [exact exb_index0_ok|exact exb_fwd0].
Qed.

(* the main loop of decompose over ANY arithmetic with  eqb x zero = true -> x = zero: the computed au (U part) and al (multipliers) as left folds over the dense reading D0 of the matrix the loop started from, with the histories and the permutation of the forward phase *)
Theorem band_dec_trace : forall (A : Arith), (forall x : A, eqb x zero = true -> x = zero) ->
  forall (n mm m1 : nat) (au0 al0 : matrix A) (index0 : list nat) (d0 : A)
         (au al : matrix A) (index : list nat) (d : A) (lf : nat),
  cols au0 = mm -> cols al0 = m1 -> 1 <= mm -> m1 <= n ->
  for_ 0 n (dec_step false n mm) (au0, al0, index0, d0, m1) = Ok (au, al, index, d, lf) ->
  cols au = mm /\ cols al = m1 /\
  (forall k, k < n -> k + 1 <= nth k index 0 /\ nth k index 0 <= fwin n m1 k) /\
  ((forall k, k < n -> mat_at au mm k 0 <> zero) ->
   (forall r s, r < n -> s < mm ->
      mat_at au mm r s
      = sfold (uterms mm au (r + s) (fhist n m1 al index n r)) (D0 mm m1 au0 (fperm index n r) (r + s))) /\
   (forall r, r < n ->
      let h := fhist n m1 al index n r in
      forall t, t < length h ->
        div (sfold (uterms mm au (snd (nth t h (zero, 0))) (firstn t h))
               (D0 mm m1 au0 (fperm index n r) (snd (nth t h (zero, 0)))))
            (mat_at au mm (snd (nth t h (zero, 0))) 0)
        = Ok (fst (nth t h (zero, 0))))).
Proof. intros A Hz n mm m1 au0 al0 index0 d0 au al index d lf. exact (band_dec_trace_lemma Hz n mm m1 au0 al0 index0 d0 au al index d lf). Qed.
Check band_dec_trace : forall (A : Arith), (forall x : A, eqb x zero = true -> x = zero) ->
  forall (n mm m1 : nat) (au0 al0 : matrix A) (index0 : list nat) (d0 : A)
         (au al : matrix A) (index : list nat) (d : A) (lf : nat),
  cols au0 = mm -> cols al0 = m1 -> 1 <= mm -> m1 <= n ->
  for_ 0 n (dec_step false n mm) (au0, al0, index0, d0, m1) = Ok (au, al, index, d, lf) ->
  cols au = mm /\ cols al = m1 /\
  (forall k, k < n -> k + 1 <= nth k index 0 /\ nth k index 0 <= fwin n m1 k) /\
  ((forall k, k < n -> mat_at au mm k 0 <> zero) ->
   (forall r s, r < n -> s < mm ->
      mat_at au mm r s
      = sfold (uterms mm au (r + s) (fhist n m1 al index n r)) (D0 mm m1 au0 (fperm index n r) (r + s))) /\
   (forall r, r < n ->
      let h := fhist n m1 al index n r in
      forall t, t < length h ->
        div (sfold (uterms mm au (snd (nth t h (zero, 0))) (firstn t h))
               (D0 mm m1 au0 (fperm index n r) (snd (nth t h (zero, 0)))))
            (mat_at au mm (snd (nth t h (zero, 0))) 0)
        = Ok (fst (nth t h (zero, 0))))).
Print Assumptions band_dec_trace.
(* the 2x2 system [[1,3],[2,1]] (m1 = m2 = 1) in the arithmetic that rounds every operation: the pivot search exchanges the rows *)
Example band_dec_trace_nonvacuous :
  (forall z : AFlx, eqb z zero = true -> z = zero) /\
  cols exs_au0 = 3 /\
  for_ 0 2 (dec_step (A := AFlx) false 2 3) (exs_au0, @mat_new AFlx 2 1 0%R, repeat 0 2, 1%R, 1)
    = Ok (exs_au, exs_al, exs_index, (- (1))%R, 2) /\
  (forall k, k < 2 -> mat_at (A := AFlx) exs_au 3 k 0 <> 0%R) /\
  map (fperm exs_index 2) [0; 1] = [1; 0].
Proof. split; [exact exs_hz|]. split; [reflexivity|]. split; [exact exs_loop|]. split; [exact exs_pivots|reflexivity]. Qed.

(* band_solve went through exactly these phases; the dense reading of the shifted work matrix is the dense twin of the banded matrix *)
Theorem band_solve_phases : forall (A : Arith) (B : banded A) (b x : list A),
  (forall z : A, eqb z zero = true -> z = zero) ->
  wfB B -> length b = bn B -> bm1 B <= bn B ->
  band_solve B b = Ok x ->
  exists (au0 au al : matrix A) (index : list nat) (d : A) (y : list A) (l1 l2 l3 : nat),
    shift_rows (bm1 B) (bm1 B + bm2 B + 1) (Model.Banded.compact B) = Ok au0 /\
    for_ 0 (bn B) (dec_step false (bn B) (bm1 B + bm2 B + 1))
         (au0, mat_new (bn B) (bm1 B) zero, repeat 0 (bn B), one, bm1 B) = Ok (au, al, index, d, l1) /\
    for_ 0 (bn B) (fwd_step (bn B) al index) (b, bm1 B) = Ok (y, l2) /\
    for_rev 0 (bn B) (back_step (bm1 B + bm2 B + 1) au) (y, 1) = Ok (x, l3) /\
    cols au0 = bm1 B + bm2 B + 1 /\ cols au = bm1 B + bm2 B + 1 /\ cols al = bm1 B /\ length y = bn B /\
    (forall k, k < bn B -> k + 1 <= nth k index 0 /\ nth k index 0 <= fwin (bn B) (bm1 B) k) /\
    (forall i c, D0 (bm1 B + bm2 B + 1) (bm1 B) au0 i c = dense_entry B i c).
Proof. intros A B b x. exact (band_solve_phases_lemma B b x). Qed.
Check band_solve_phases : forall (A : Arith) (B : banded A) (b x : list A),
  (forall z : A, eqb z zero = true -> z = zero) ->
  wfB B -> length b = bn B -> bm1 B <= bn B ->
  band_solve B b = Ok x ->
  exists (au0 au al : matrix A) (index : list nat) (d : A) (y : list A) (l1 l2 l3 : nat),
    shift_rows (bm1 B) (bm1 B + bm2 B + 1) (Model.Banded.compact B) = Ok au0 /\
    for_ 0 (bn B) (dec_step false (bn B) (bm1 B + bm2 B + 1))
         (au0, mat_new (bn B) (bm1 B) zero, repeat 0 (bn B), one, bm1 B) = Ok (au, al, index, d, l1) /\
    for_ 0 (bn B) (fwd_step (bn B) al index) (b, bm1 B) = Ok (y, l2) /\
    for_rev 0 (bn B) (back_step (bm1 B + bm2 B + 1) au) (y, 1) = Ok (x, l3) /\
    cols au0 = bm1 B + bm2 B + 1 /\ cols au = bm1 B + bm2 B + 1 /\ cols al = bm1 B /\ length y = bn B /\
    (forall k, k < bn B -> k + 1 <= nth k index 0 /\ nth k index 0 <= fwin (bn B) (bm1 B) k) /\
    (forall i c, D0 (bm1 B + bm2 B + 1) (bm1 B) au0 i c = dense_entry B i c).
Print Assumptions band_solve_phases.
Example band_solve_phases_nonvacuous :
  (forall z : AFlx, eqb z zero = true -> z = zero) /\ wfB exs_B /\ length exs_b = bn exs_B /\ bm1 exs_B <= bn exs_B /\
  (exists x, band_solve exs_B exs_b = Ok x).
Proof. split; [exact exs_hz|]. split; [exact exs_wf|]. split; [reflexivity|]. split; [cbn; lia|exact exs_solve]. Qed.

(* Higham Theorem 9.3 for the compact band LU with partial pivoting, row by row: L U = P B + dB with |dB| <= gam(c_r)|L||U|; row r of L is fhist r (c_r pairs), Uc the dense reading of the computed au, D0 of the matrix the loop started from *)
Theorem band_lu_backward_error : forall (u : R), (0 <= u < 1)%R ->
  forall (fadd fsub fmul fdiv : R -> R -> R),
  (forall x y : R, exists d : R, (Rabs d <= u)%R /\ fsub x y = ((x - y) * (1 + d))%R) ->
  (forall x y : R, exists d : R, (Rabs d <= u)%R /\ fmul x y = (x * y * (1 + d))%R) ->
  (forall x y : R, y <> 0%R -> exists d : R, (Rabs d <= u)%R /\ fdiv x y = (x / y * (1 + d))%R) ->
  forall (n mm m1 : nat) (au0 al0 : matrix (ARm fadd fsub fmul fdiv)) (index0 : list nat) (d0 : R)
         (au al : matrix (ARm fadd fsub fmul fdiv)) (index : list nat) (d : R) (lf : nat),
  cols au0 = mm -> cols al0 = m1 -> 1 <= mm -> m1 <= n ->
  for_ 0 n (dec_step (A := ARm fadd fsub fmul fdiv) false n mm) (au0, al0, index0, d0, m1) = Ok (au, al, index, d, lf) ->
  (forall k, k < n -> mat_at (A := ARm fadd fsub fmul fdiv) au mm k 0 <> 0%R) ->
  forall r, r < n ->
    let h : list (R * nat) := fhist (A := ARm fadd fsub fmul fdiv) n m1 al index n r in
    (INR (length h) * u < 1)%R ->
    (forall s, s < mm ->
       exists (dd : R) (dL : nat -> R),
         (Rabs dd <= gam u (length h))%R /\
         (forall t, t < length h -> (Rabs (dL t) <= gam u (length h) * Rabs (fst (nth t h (0%R, 0%nat))))%R) /\
         ((1 + dd) * mat_at (A := ARm fadd fsub fmul fdiv) au mm r s
          + Rsum (length h) (fun t => (fst (nth t h (0, 0%nat)) + dL t)
                                      * Uc fadd fsub fmul fdiv au mm (snd (nth t h (0, 0%nat))) (r + s))
          = D0 (A := ARm fadd fsub fmul fdiv) mm m1 au0 (fperm index n r) (r + s))%R) /\
    (forall t, t < length h ->
       exists dL : nat -> R,
         (forall t', t' <= t -> (Rabs (dL t') <= gam u (t + 1) * Rabs (fst (nth t' h (0%R, 0%nat))))%R) /\
         (Rsum (S t) (fun t' => (fst (nth t' h (0, 0%nat)) + dL t')
                                * Uc fadd fsub fmul fdiv au mm (snd (nth t' h (0, 0%nat))) (snd (nth t h (0%R, 0%nat))))
          = D0 (A := ARm fadd fsub fmul fdiv) mm m1 au0 (fperm index n r) (snd (nth t h (0%R, 0%nat))))%R).
Proof. intros u Hu fadd fsub fmul fdiv Hs Hm Hd n mm m1 au0 al0 index0 d0 au al index d lf. exact (band_lu_backward_error_lemma u Hu fadd fsub fmul fdiv Hs Hm Hd n mm m1 au0 al0 index0 d0 au al index d lf). Qed.
Check band_lu_backward_error : forall (u : R), (0 <= u < 1)%R ->
  forall (fadd fsub fmul fdiv : R -> R -> R),
  (forall x y : R, exists d : R, (Rabs d <= u)%R /\ fsub x y = ((x - y) * (1 + d))%R) ->
  (forall x y : R, exists d : R, (Rabs d <= u)%R /\ fmul x y = (x * y * (1 + d))%R) ->
  (forall x y : R, y <> 0%R -> exists d : R, (Rabs d <= u)%R /\ fdiv x y = (x / y * (1 + d))%R) ->
  forall (n mm m1 : nat) (au0 al0 : matrix (ARm fadd fsub fmul fdiv)) (index0 : list nat) (d0 : R)
         (au al : matrix (ARm fadd fsub fmul fdiv)) (index : list nat) (d : R) (lf : nat),
  cols au0 = mm -> cols al0 = m1 -> 1 <= mm -> m1 <= n ->
  for_ 0 n (dec_step (A := ARm fadd fsub fmul fdiv) false n mm) (au0, al0, index0, d0, m1) = Ok (au, al, index, d, lf) ->
  (forall k, k < n -> mat_at (A := ARm fadd fsub fmul fdiv) au mm k 0 <> 0%R) ->
  forall r, r < n ->
    let h : list (R * nat) := fhist (A := ARm fadd fsub fmul fdiv) n m1 al index n r in
    (INR (length h) * u < 1)%R ->
    (forall s, s < mm ->
       exists (dd : R) (dL : nat -> R),
         (Rabs dd <= gam u (length h))%R /\
         (forall t, t < length h -> (Rabs (dL t) <= gam u (length h) * Rabs (fst (nth t h (0%R, 0%nat))))%R) /\
         ((1 + dd) * mat_at (A := ARm fadd fsub fmul fdiv) au mm r s
          + Rsum (length h) (fun t => (fst (nth t h (0, 0%nat)) + dL t)
                                      * Uc fadd fsub fmul fdiv au mm (snd (nth t h (0, 0%nat))) (r + s))
          = D0 (A := ARm fadd fsub fmul fdiv) mm m1 au0 (fperm index n r) (r + s))%R) /\
    (forall t, t < length h ->
       exists dL : nat -> R,
         (forall t', t' <= t -> (Rabs (dL t') <= gam u (t + 1) * Rabs (fst (nth t' h (0%R, 0%nat))))%R) /\
         (Rsum (S t) (fun t' => (fst (nth t' h (0, 0%nat)) + dL t')
                                * Uc fadd fsub fmul fdiv au mm (snd (nth t' h (0, 0%nat))) (snd (nth t h (0%R, 0%nat))))
          = D0 (A := ARm fadd fsub fmul fdiv) mm m1 au0 (fperm index n r) (snd (nth t h (0%R, 0%nat))))%R).
Print Assumptions band_lu_backward_error.
Example band_lu_backward_error_nonvacuous :
  (0 <= ux < 1)%R /\
  (forall x y : R, exists d : R, (Rabs d <= ux)%R /\ xsub x y = ((x - y) * (1 + d))%R) /\
  (forall x y : R, exists d : R, (Rabs d <= ux)%R /\ xmul x y = (x * y * (1 + d))%R) /\
  (forall x y : R, y <> 0%R -> exists d : R, (Rabs d <= ux)%R /\ xdiv x y = (x / y * (1 + d))%R) /\
  cols exs_au0 = 3 /\
  for_ 0 2 (dec_step (A := AFlx) false 2 3) (exs_au0, @mat_new AFlx 2 1 0%R, repeat 0 2, 1%R, 1)
    = Ok (exs_au, exs_al, exs_index, (- (1))%R, 2) /\
  (forall k, k < 2 -> mat_at (A := AFlx) exs_au 3 k 0 <> 0%R) /\
  (forall r, r < 2 -> (INR (length (fhist (A := AFlx) 2 1 exs_al exs_index 2 r)) * ux < 1)%R).
Proof.
  split; [exact ux_range|]. split; [exact xsub_ok|]. split; [exact xmul_ok|]. split; [exact xdiv_ok|].
  split; [reflexivity|]. split; [exact exs_loop|]. split; [exact exs_pivots|exact exs_hist_small].
Qed.

(* band_solve as a whole in the standard model: with the factors the solver computed, (U + dU) x = y, (L + dL) y = P b and L U = P B + dB (B = dense twin of the banded matrix) hold row by row, provided the computed pivots are nonzero *)
Theorem band_solve_backward_error : forall (u : R), (0 <= u < 1)%R ->
  forall (fadd fsub fmul fdiv : R -> R -> R),
  (forall x y : R, exists d : R, (Rabs d <= u)%R /\ fsub x y = ((x - y) * (1 + d))%R) ->
  (forall x y : R, exists d : R, (Rabs d <= u)%R /\ fmul x y = (x * y * (1 + d))%R) ->
  (forall x y : R, y <> 0%R -> exists d : R, (Rabs d <= u)%R /\ fdiv x y = (x / y * (1 + d))%R) ->
  forall (B : banded (ARm fadd fsub fmul fdiv)) (b x : list R),
  wfB B -> length b = bn B -> bm1 B <= bn B -> band_solve B b = Ok x ->
  exists (au al : matrix (ARm fadd fsub fmul fdiv)) (index : list nat) (y : list R),
    (exists d : R, decompose_gen (A := ARm fadd fsub fmul fdiv) false B (Model.Banded.compact B)
                     (mat_new (A := ARm fadd fsub fmul fdiv) (bn B) (bm1 B) 0%R) (repeat 0 (bn B))
                   = Ok (au, al, index, d)) /\
    length y = bn B /\ length x = bn B /\
    (forall k, k < bn B -> k + 1 <= nth k index 0 <= Nat.min (k + 1 + bm1 B) (bn B)) /\
    ((forall k, k < bn B -> mat_at (A := ARm fadd fsub fmul fdiv) au (bm1 B + bm2 B + 1) k 0 <> 0%R) ->
     ((INR (bm1 B + bm2 B + 1) * u < 1)%R ->
      exists dU : nat -> nat -> R,
        (forall i k, i < bn B -> k < bwin (bm1 B + bm2 B + 1) (bn B) i ->
           (Rabs (dU i k) <= gam u (bwin (bm1 B + bm2 B + 1) (bn B) i)
                             * Rabs (mat_at (A := ARm fadd fsub fmul fdiv) au (bm1 B + bm2 B + 1) i k))%R) /\
        forall i, i < bn B ->
          Rsum (bwin (bm1 B + bm2 B + 1) (bn B) i)
            (fun k => ((mat_at (A := ARm fadd fsub fmul fdiv) au (bm1 B + bm2 B + 1) i k + dU i k) * nth (i + k) x 0)%R)
          = nth i y 0%R) /\
     forall r, r < bn B ->
       let h : list (R * nat) := fhist (A := ARm fadd fsub fmul fdiv) (bn B) (bm1 B) al index (bn B) r in
       length h <= r /\
       (forall t, t < length h -> snd (nth t h (0%R, 0)) < r) /\
       ((INR (length h) * u < 1)%R ->
        (exists (dd : R) (dL : nat -> R),
           (Rabs dd <= gam u (length h))%R /\
           (forall t, t < length h -> (Rabs (dL t) <= gam u (length h) * Rabs (fst (nth t h (0%R, 0%nat))))%R) /\
           ((1 + dd) * nth r y 0
            + Rsum (length h) (fun t => (fst (nth t h (0, 0%nat)) + dL t) * nth (snd (nth t h (0, 0%nat))) y 0)
            = nth (fperm index (bn B) r) b 0)%R) /\
        (forall s, s < bm1 B + bm2 B + 1 ->
           exists (dd : R) (dL : nat -> R),
             (Rabs dd <= gam u (length h))%R /\
             (forall t, t < length h -> (Rabs (dL t) <= gam u (length h) * Rabs (fst (nth t h (0%R, 0%nat))))%R) /\
             ((1 + dd) * mat_at (A := ARm fadd fsub fmul fdiv) au (bm1 B + bm2 B + 1) r s
              + Rsum (length h) (fun t => (fst (nth t h (0, 0%nat)) + dL t)
                                          * Uc fadd fsub fmul fdiv au (bm1 B + bm2 B + 1) (snd (nth t h (0, 0%nat))) (r + s))
              = dense_entry B (fperm index (bn B) r) (r + s))%R) /\
        (forall t, t < length h ->
           exists dL : nat -> R,
             (forall t', t' <= t -> (Rabs (dL t') <= gam u (t + 1) * Rabs (fst (nth t' h (0%R, 0%nat))))%R) /\
             (Rsum (S t) (fun t' => (fst (nth t' h (0, 0%nat)) + dL t')
                                    * Uc fadd fsub fmul fdiv au (bm1 B + bm2 B + 1) (snd (nth t' h (0, 0%nat)))
                                         (snd (nth t h (0%R, 0%nat))))
              = dense_entry B (fperm index (bn B) r) (snd (nth t h (0%R, 0%nat))))%R))).
Proof. intros u Hu fadd fsub fmul fdiv Hs Hm Hd B b x. exact (band_solve_backward_error_lemma u Hu fadd fsub fmul fdiv Hs Hm Hd B b x). Qed.
Check band_solve_backward_error : forall (u : R), (0 <= u < 1)%R ->
  forall (fadd fsub fmul fdiv : R -> R -> R),
  (forall x y : R, exists d : R, (Rabs d <= u)%R /\ fsub x y = ((x - y) * (1 + d))%R) ->
  (forall x y : R, exists d : R, (Rabs d <= u)%R /\ fmul x y = (x * y * (1 + d))%R) ->
  (forall x y : R, y <> 0%R -> exists d : R, (Rabs d <= u)%R /\ fdiv x y = (x / y * (1 + d))%R) ->
  forall (B : banded (ARm fadd fsub fmul fdiv)) (b x : list R),
  wfB B -> length b = bn B -> bm1 B <= bn B -> band_solve B b = Ok x ->
  exists (au al : matrix (ARm fadd fsub fmul fdiv)) (index : list nat) (y : list R),
    (exists d : R, decompose_gen (A := ARm fadd fsub fmul fdiv) false B (Model.Banded.compact B)
                     (mat_new (A := ARm fadd fsub fmul fdiv) (bn B) (bm1 B) 0%R) (repeat 0 (bn B))
                   = Ok (au, al, index, d)) /\
    length y = bn B /\ length x = bn B /\
    (forall k, k < bn B -> k + 1 <= nth k index 0 <= Nat.min (k + 1 + bm1 B) (bn B)) /\
    ((forall k, k < bn B -> mat_at (A := ARm fadd fsub fmul fdiv) au (bm1 B + bm2 B + 1) k 0 <> 0%R) ->
     ((INR (bm1 B + bm2 B + 1) * u < 1)%R ->
      exists dU : nat -> nat -> R,
        (forall i k, i < bn B -> k < bwin (bm1 B + bm2 B + 1) (bn B) i ->
           (Rabs (dU i k) <= gam u (bwin (bm1 B + bm2 B + 1) (bn B) i)
                             * Rabs (mat_at (A := ARm fadd fsub fmul fdiv) au (bm1 B + bm2 B + 1) i k))%R) /\
        forall i, i < bn B ->
          Rsum (bwin (bm1 B + bm2 B + 1) (bn B) i)
            (fun k => ((mat_at (A := ARm fadd fsub fmul fdiv) au (bm1 B + bm2 B + 1) i k + dU i k) * nth (i + k) x 0)%R)
          = nth i y 0%R) /\
     forall r, r < bn B ->
       let h : list (R * nat) := fhist (A := ARm fadd fsub fmul fdiv) (bn B) (bm1 B) al index (bn B) r in
       length h <= r /\
       (forall t, t < length h -> snd (nth t h (0%R, 0)) < r) /\
       ((INR (length h) * u < 1)%R ->
        (exists (dd : R) (dL : nat -> R),
           (Rabs dd <= gam u (length h))%R /\
           (forall t, t < length h -> (Rabs (dL t) <= gam u (length h) * Rabs (fst (nth t h (0%R, 0%nat))))%R) /\
           ((1 + dd) * nth r y 0
            + Rsum (length h) (fun t => (fst (nth t h (0, 0%nat)) + dL t) * nth (snd (nth t h (0, 0%nat))) y 0)
            = nth (fperm index (bn B) r) b 0)%R) /\
        (forall s, s < bm1 B + bm2 B + 1 ->
           exists (dd : R) (dL : nat -> R),
             (Rabs dd <= gam u (length h))%R /\
             (forall t, t < length h -> (Rabs (dL t) <= gam u (length h) * Rabs (fst (nth t h (0%R, 0%nat))))%R) /\
             ((1 + dd) * mat_at (A := ARm fadd fsub fmul fdiv) au (bm1 B + bm2 B + 1) r s
              + Rsum (length h) (fun t => (fst (nth t h (0, 0%nat)) + dL t)
                                          * Uc fadd fsub fmul fdiv au (bm1 B + bm2 B + 1) (snd (nth t h (0, 0%nat))) (r + s))
              = dense_entry B (fperm index (bn B) r) (r + s))%R) /\
        (forall t, t < length h ->
           exists dL : nat -> R,
             (forall t', t' <= t -> (Rabs (dL t') <= gam u (t + 1) * Rabs (fst (nth t' h (0%R, 0%nat))))%R) /\
             (Rsum (S t) (fun t' => (fst (nth t' h (0, 0%nat)) + dL t')
                                    * Uc fadd fsub fmul fdiv au (bm1 B + bm2 B + 1) (snd (nth t' h (0, 0%nat)))
                                         (snd (nth t h (0%R, 0%nat))))
              = dense_entry B (fperm index (bn B) r) (snd (nth t h (0%R, 0%nat))))%R))).
Print Assumptions band_solve_backward_error.
(* the same 2x2 system through band_solve in the rounding arithmetic: it answers, its factors are exs_au / exs_al / exs_index
   (one exchange), the computed pivots are nonzero, the sizes are admissible *)
Example band_solve_backward_error_nonvacuous :
  (0 <= ux < 1)%R /\
  (forall x y : R, exists d : R, (Rabs d <= ux)%R /\ xsub x y = ((x - y) * (1 + d))%R) /\
  (forall x y : R, exists d : R, (Rabs d <= ux)%R /\ xmul x y = (x * y * (1 + d))%R) /\
  (forall x y : R, y <> 0%R -> exists d : R, (Rabs d <= ux)%R /\ xdiv x y = (x / y * (1 + d))%R) /\
  wfB exs_B /\ length exs_b = bn exs_B /\ bm1 exs_B <= bn exs_B /\
  (exists x, band_solve exs_B exs_b = Ok x) /\
  decompose_gen false exs_B (Model.Banded.compact exs_B) (@mat_new AFlx 2 1 0%R) (repeat 0 2) = Ok (exs_au, exs_al, exs_index, (- (1))%R) /\
  (forall k, k < 2 -> mat_at (A := AFlx) exs_au 3 k 0 <> 0%R) /\
  (INR 3 * ux < 1)%R /\
  (forall r, r < 2 -> (INR (length (fhist (A := AFlx) 2 1 exs_al exs_index 2 r)) * ux < 1)%R).
Proof.
  split; [exact ux_range|]. split; [exact xsub_ok|]. split; [exact xmul_ok|]. split; [exact xdiv_ok|].
  split; [exact exs_wf|]. split; [reflexivity|]. split; [cbn; lia|]. split; [exact exs_solve|].
  split; [exact exs_decompose|]. split; [exact exs_pivots|]. split; [exact exs_size3|exact exs_hist_small].
Qed.
(* with partial pivoting the number c_r of updates of a row is not bounded by the bandwidth: for tridiag(2,1,1) of size 6
   (m1 = 1, exact rationals) the first row travels to the last position and is updated at every stage *)
Example band_history_grows_example :
  hist_lengths (decompose_gen false exq_B (Model.Banded.compact exq_B) (mat_new 6 1 zero) (repeat 0 6)) = [0; 0; 0; 0; 0; 5] /\
  hist_perm (decompose_gen false exq_B (Model.Banded.compact exq_B) (mat_new 6 1 zero) (repeat 0 6)) = [1; 2; 3; 4; 5; 0].
Proof. exact exq_history_grows. Qed.

(* shape of L under partial pivoting: row r holds c_r <= r multipliers, of the consecutive stages r - c_r .. r-1 (any arithmetic; pure bookkeeping of the exchange record) *)
Theorem band_history_shape : forall (A : Arith) (n m1 : nat) (al : matrix A) (index : list nat) (r : nat),
  (forall k, k < n -> k + 1 <= nth k index 0 /\ nth k index 0 <= fwin n m1 k) -> r < n ->
  let h := fhist n m1 al index n r in
  length h <= r /\ forall t, t < length h -> snd (nth t h (zero, 0)) = r - length h + t.
Proof. intros A n m1 al index r. exact (band_history_shape_lemma n m1 al index r). Qed.
Check band_history_shape : forall (A : Arith) (n m1 : nat) (al : matrix A) (index : list nat) (r : nat),
  (forall k, k < n -> k + 1 <= nth k index 0 /\ nth k index 0 <= fwin n m1 k) -> r < n ->
  let h := fhist n m1 al index n r in
  length h <= r /\ forall t, t < length h -> snd (nth t h (zero, 0)) = r - length h + t.
Print Assumptions band_history_shape.
Example band_history_shape_nonvacuous :
  (forall k, k < 3 -> k + 1 <= nth k exb_index 0 /\ nth k exb_index 0 <= fwin 3 1 k) /\
  map (fun r => map snd (fhist (A := AFlx) 3 1 exb_al exb_index 3 r)) [0; 1; 2] = [[]; [0]; [1]].
Proof. split; [|reflexivity]. intros [|[|[|k]]] Hk; cbn; lia. Qed.

(* the band LU WITHOUT exchanges (index[k] = k+1): L_(r,j) = al[j][r-j-1], r - m1 <= j < r, and the constant depends on the bandwidth only: gam(min r m1) <= gam(m1) *)
Theorem band_lu_noswap_backward_error : forall (u : R), (0 <= u < 1)%R ->
  forall (fadd fsub fmul fdiv : R -> R -> R),
  (forall x y : R, exists d : R, (Rabs d <= u)%R /\ fsub x y = ((x - y) * (1 + d))%R) ->
  (forall x y : R, exists d : R, (Rabs d <= u)%R /\ fmul x y = (x * y * (1 + d))%R) ->
  (forall x y : R, y <> 0%R -> exists d : R, (Rabs d <= u)%R /\ fdiv x y = (x / y * (1 + d))%R) ->
  forall (n mm m1 : nat) (au0 al0 : matrix (ARm fadd fsub fmul fdiv)) (index0 : list nat) (d0 : R)
         (au al : matrix (ARm fadd fsub fmul fdiv)) (index : list nat) (d : R) (lf : nat),
  cols au0 = mm -> cols al0 = m1 -> 1 <= mm -> m1 <= n -> (INR m1 * u < 1)%R ->
  for_ 0 n (dec_step (A := ARm fadd fsub fmul fdiv) false n mm) (au0, al0, index0, d0, m1) = Ok (au, al, index, d, lf) ->
  (forall k, k < n -> mat_at (A := ARm fadd fsub fmul fdiv) au mm k 0 <> 0%R) ->
  (forall k, k < n -> nth k index 0 = k + 1) ->
  forall r, r < n ->
    (forall s, s < mm ->
       exists (dd : R) (dL : nat -> R),
         (Rabs dd <= gam u (Nat.min r m1))%R /\
         (forall t, t < Nat.min r m1 ->
            (Rabs (dL t) <= gam u (Nat.min r m1)
                            * Rabs (mat_at (A := ARm fadd fsub fmul fdiv) al m1 (r - Nat.min r m1 + t) (r - (r - Nat.min r m1 + t) - 1)))%R) /\
         ((1 + dd) * mat_at (A := ARm fadd fsub fmul fdiv) au mm r s
          + Rsum (Nat.min r m1)
              (fun t => (mat_at (A := ARm fadd fsub fmul fdiv) al m1 (r - Nat.min r m1 + t) (r - (r - Nat.min r m1 + t) - 1) + dL t)
                        * Uc fadd fsub fmul fdiv au mm (r - Nat.min r m1 + t) (r + s))
          = D0 (A := ARm fadd fsub fmul fdiv) mm m1 au0 r (r + s))%R) /\
    (forall t, t < Nat.min r m1 ->
       exists dL : nat -> R,
         (forall t', t' <= t ->
            (Rabs (dL t') <= gam u (t + 1)
                             * Rabs (mat_at (A := ARm fadd fsub fmul fdiv) al m1 (r - Nat.min r m1 + t') (r - (r - Nat.min r m1 + t') - 1)))%R) /\
         (Rsum (S t)
            (fun t' => (mat_at (A := ARm fadd fsub fmul fdiv) al m1 (r - Nat.min r m1 + t') (r - (r - Nat.min r m1 + t') - 1) + dL t')
                       * Uc fadd fsub fmul fdiv au mm (r - Nat.min r m1 + t') (r - Nat.min r m1 + t))
          = D0 (A := ARm fadd fsub fmul fdiv) mm m1 au0 r (r - Nat.min r m1 + t))%R).
Proof. intros u Hu fadd fsub fmul fdiv Hs Hm Hd n mm m1 au0 al0 index0 d0 au al index d lf. exact (band_lu_noswap_backward_error_lemma u Hu fadd fsub fmul fdiv Hs Hm Hd n mm m1 au0 al0 index0 d0 au al index d lf). Qed.
Check band_lu_noswap_backward_error : forall (u : R), (0 <= u < 1)%R ->
  forall (fadd fsub fmul fdiv : R -> R -> R),
  (forall x y : R, exists d : R, (Rabs d <= u)%R /\ fsub x y = ((x - y) * (1 + d))%R) ->
  (forall x y : R, exists d : R, (Rabs d <= u)%R /\ fmul x y = (x * y * (1 + d))%R) ->
  (forall x y : R, y <> 0%R -> exists d : R, (Rabs d <= u)%R /\ fdiv x y = (x / y * (1 + d))%R) ->
  forall (n mm m1 : nat) (au0 al0 : matrix (ARm fadd fsub fmul fdiv)) (index0 : list nat) (d0 : R)
         (au al : matrix (ARm fadd fsub fmul fdiv)) (index : list nat) (d : R) (lf : nat),
  cols au0 = mm -> cols al0 = m1 -> 1 <= mm -> m1 <= n -> (INR m1 * u < 1)%R ->
  for_ 0 n (dec_step (A := ARm fadd fsub fmul fdiv) false n mm) (au0, al0, index0, d0, m1) = Ok (au, al, index, d, lf) ->
  (forall k, k < n -> mat_at (A := ARm fadd fsub fmul fdiv) au mm k 0 <> 0%R) ->
  (forall k, k < n -> nth k index 0 = k + 1) ->
  forall r, r < n ->
    (forall s, s < mm ->
       exists (dd : R) (dL : nat -> R),
         (Rabs dd <= gam u (Nat.min r m1))%R /\
         (forall t, t < Nat.min r m1 ->
            (Rabs (dL t) <= gam u (Nat.min r m1)
                            * Rabs (mat_at (A := ARm fadd fsub fmul fdiv) al m1 (r - Nat.min r m1 + t) (r - (r - Nat.min r m1 + t) - 1)))%R) /\
         ((1 + dd) * mat_at (A := ARm fadd fsub fmul fdiv) au mm r s
          + Rsum (Nat.min r m1)
              (fun t => (mat_at (A := ARm fadd fsub fmul fdiv) al m1 (r - Nat.min r m1 + t) (r - (r - Nat.min r m1 + t) - 1) + dL t)
                        * Uc fadd fsub fmul fdiv au mm (r - Nat.min r m1 + t) (r + s))
          = D0 (A := ARm fadd fsub fmul fdiv) mm m1 au0 r (r + s))%R) /\
    (forall t, t < Nat.min r m1 ->
       exists dL : nat -> R,
         (forall t', t' <= t ->
            (Rabs (dL t') <= gam u (t + 1)
                             * Rabs (mat_at (A := ARm fadd fsub fmul fdiv) al m1 (r - Nat.min r m1 + t') (r - (r - Nat.min r m1 + t') - 1)))%R) /\
         (Rsum (S t)
            (fun t' => (mat_at (A := ARm fadd fsub fmul fdiv) al m1 (r - Nat.min r m1 + t') (r - (r - Nat.min r m1 + t') - 1) + dL t')
                       * Uc fadd fsub fmul fdiv au mm (r - Nat.min r m1 + t') (r - Nat.min r m1 + t))
          = D0 (A := ARm fadd fsub fmul fdiv) mm m1 au0 r (r - Nat.min r m1 + t))%R).
Print Assumptions band_lu_noswap_backward_error.
(* the 2x2 system [[2,1],[1,3]] (m1 = m2 = 1): the pivot search keeps the diagonal *)
Example band_lu_noswap_backward_error_nonvacuous :
  (0 <= ux < 1)%R /\
  (forall x y : R, exists d : R, (Rabs d <= ux)%R /\ xsub x y = ((x - y) * (1 + d))%R) /\
  (forall x y : R, exists d : R, (Rabs d <= ux)%R /\ xmul x y = (x * y * (1 + d))%R) /\
  (forall x y : R, y <> 0%R -> exists d : R, (Rabs d <= ux)%R /\ xdiv x y = (x / y * (1 + d))%R) /\
  cols exn_au0 = 3 /\ (INR 1 * ux < 1)%R /\
  for_ 0 2 (dec_step (A := AFlx) false 2 3) (exn_au0, @mat_new AFlx 2 1 0%R, repeat 0 2, 1%R, 1)
    = Ok (exn_au, exn_al, [1; 2], 1%R, 2) /\
  (forall k, k < 2 -> mat_at (A := AFlx) exn_au 3 k 0 <> 0%R) /\
  (forall k, k < 2 -> nth k [1; 2] 0 = k + 1).
Proof.
  split; [exact ux_range|]. split; [exact xsub_ok|]. split; [exact xmul_ok|]. split; [exact xdiv_ok|].
  split; [reflexivity|]. split; [exact exb_size1|]. split; [exact exn_loop|]. split; [exact exn_pivots|].
  intros [|[|k]] Hk; try lia; reflexivity.
Qed.

(* Higham Theorem 9.4 for the banded solver: band_solve's answer solves ONE nearby system (B + dB) x = b exactly, |dB| <= (3 gam N + gam N^2) |L||U| with L ([Ld], row r = fhist r) and U ([Uc]) the computed factors; N bounds the bandwidth m1+m2+1 and the numbers c_r of row updates (N = m1+m2+1 when no rows were exchanged) *)
Theorem band_solve_single_backward_error : forall (u : R), (0 <= u < 1)%R ->
  forall (fadd fsub fmul fdiv : R -> R -> R),
  (forall x y : R, exists d : R, (Rabs d <= u)%R /\ fsub x y = ((x - y) * (1 + d))%R) ->
  (forall x y : R, exists d : R, (Rabs d <= u)%R /\ fmul x y = (x * y * (1 + d))%R) ->
  (forall x y : R, y <> 0%R -> exists d : R, (Rabs d <= u)%R /\ fdiv x y = (x / y * (1 + d))%R) ->
  forall (B : banded (ARm fadd fsub fmul fdiv)) (b x : list R) (N : nat),
  wfB B -> length b = bn B -> bm1 B <= bn B -> band_solve B b = Ok x ->
  exists (au al : matrix (ARm fadd fsub fmul fdiv)) (index : list nat),
    (exists d : R, decompose_gen (A := ARm fadd fsub fmul fdiv) false B (Model.Banded.compact B)
                     (mat_new (A := ARm fadd fsub fmul fdiv) (bn B) (bm1 B) 0%R) (repeat 0 (bn B))
                   = Ok (au, al, index, d)) /\
    ((forall k, k < bn B -> mat_at (A := ARm fadd fsub fmul fdiv) au (bm1 B + bm2 B + 1) k 0 <> 0%R) ->
     bm1 B + bm2 B + 1 <= N ->
     (forall r, r < bn B -> length (fhist (A := ARm fadd fsub fmul fdiv) (bn B) (bm1 B) al index (bn B) r) <= N) ->
     (INR N * u < 1)%R ->
     (forall r, r < bn B -> fperm index (bn B) r < bn B) /\
     (forall r r', fperm index (bn B) r = fperm index (bn B) r' -> r = r') /\
     exists dB : nat -> nat -> R,
       (forall r c, r < bn B -> c < bn B ->
          (Rabs (dB r c) <= (3 * gam u N + gam u N * gam u N)
                            * Rsum (bn B) (fun k => Rabs (Ld (fhist (A := ARm fadd fsub fmul fdiv) (bn B) (bm1 B) al index (bn B) r) r k)
                                                    * Rabs (Uc fadd fsub fmul fdiv au (bm1 B + bm2 B + 1) k c)))%R) /\
       forall r, r < bn B ->
         Rsum (bn B) (fun c => ((dense_entry B (fperm index (bn B) r) c + dB r c) * nth c x 0)%R)
         = nth (fperm index (bn B) r) b 0%R).
Proof. intros u Hu fadd fsub fmul fdiv Hs Hm Hd B b x N. exact (band_solve_single_backward_error_lemma u Hu fadd fsub fmul fdiv Hs Hm Hd B b x N). Qed.
Check band_solve_single_backward_error : forall (u : R), (0 <= u < 1)%R ->
  forall (fadd fsub fmul fdiv : R -> R -> R),
  (forall x y : R, exists d : R, (Rabs d <= u)%R /\ fsub x y = ((x - y) * (1 + d))%R) ->
  (forall x y : R, exists d : R, (Rabs d <= u)%R /\ fmul x y = (x * y * (1 + d))%R) ->
  (forall x y : R, y <> 0%R -> exists d : R, (Rabs d <= u)%R /\ fdiv x y = (x / y * (1 + d))%R) ->
  forall (B : banded (ARm fadd fsub fmul fdiv)) (b x : list R) (N : nat),
  wfB B -> length b = bn B -> bm1 B <= bn B -> band_solve B b = Ok x ->
  exists (au al : matrix (ARm fadd fsub fmul fdiv)) (index : list nat),
    (exists d : R, decompose_gen (A := ARm fadd fsub fmul fdiv) false B (Model.Banded.compact B)
                     (mat_new (A := ARm fadd fsub fmul fdiv) (bn B) (bm1 B) 0%R) (repeat 0 (bn B))
                   = Ok (au, al, index, d)) /\
    ((forall k, k < bn B -> mat_at (A := ARm fadd fsub fmul fdiv) au (bm1 B + bm2 B + 1) k 0 <> 0%R) ->
     bm1 B + bm2 B + 1 <= N ->
     (forall r, r < bn B -> length (fhist (A := ARm fadd fsub fmul fdiv) (bn B) (bm1 B) al index (bn B) r) <= N) ->
     (INR N * u < 1)%R ->
     (forall r, r < bn B -> fperm index (bn B) r < bn B) /\
     (forall r r', fperm index (bn B) r = fperm index (bn B) r' -> r = r') /\
     exists dB : nat -> nat -> R,
       (forall r c, r < bn B -> c < bn B ->
          (Rabs (dB r c) <= (3 * gam u N + gam u N * gam u N)
                            * Rsum (bn B) (fun k => Rabs (Ld (fhist (A := ARm fadd fsub fmul fdiv) (bn B) (bm1 B) al index (bn B) r) r k)
                                                    * Rabs (Uc fadd fsub fmul fdiv au (bm1 B + bm2 B + 1) k c)))%R) /\
       forall r, r < bn B ->
         Rsum (bn B) (fun c => ((dense_entry B (fperm index (bn B) r) c + dB r c) * nth c x 0)%R)
         = nth (fperm index (bn B) r) b 0%R).
Print Assumptions band_solve_single_backward_error.
Example band_solve_single_backward_error_nonvacuous :
  (0 <= ux < 1)%R /\
  (forall x y : R, exists d : R, (Rabs d <= ux)%R /\ xsub x y = ((x - y) * (1 + d))%R) /\
  (forall x y : R, exists d : R, (Rabs d <= ux)%R /\ xmul x y = (x * y * (1 + d))%R) /\
  (forall x y : R, y <> 0%R -> exists d : R, (Rabs d <= ux)%R /\ xdiv x y = (x / y * (1 + d))%R) /\
  wfB exs_B /\ length exs_b = bn exs_B /\ bm1 exs_B <= bn exs_B /\
  (exists x, band_solve exs_B exs_b = Ok x) /\
  decompose_gen false exs_B (Model.Banded.compact exs_B) (@mat_new AFlx 2 1 0%R) (repeat 0 2) = Ok (exs_au, exs_al, exs_index, (- (1))%R) /\
  (forall k, k < 2 -> mat_at (A := AFlx) exs_au 3 k 0 <> 0%R) /\
  bm1 exs_B + bm2 exs_B + 1 <= 3 /\
  (forall r, r < 2 -> length (fhist (A := AFlx) 2 1 exs_al exs_index 2 r) <= 3) /\
  (INR 3 * ux < 1)%R.
Proof.
  split; [exact ux_range|]. split; [exact xsub_ok|]. split; [exact xmul_ok|]. split; [exact xdiv_ok|].
  split; [exact exs_wf|]. split; [reflexivity|]. split; [cbn; lia|]. split; [exact exs_solve|].
  split; [exact exs_decompose|]. split; [exact exs_pivots|]. split; [cbn; lia|]. split; [exact exs_hist_le3|exact exs_size3].
Qed.

(* the classical statement when the pivot search never left the diagonal (index[k] = k+1): (B + dB) x = b with |dB| <= gam(3 (m1+m2+1)) |L||U| -- the constant depends on the bandwidth only, not on n *)
Theorem band_solve_noswap_single_backward_error : forall (u : R), (0 <= u < 1)%R ->
  forall (fadd fsub fmul fdiv : R -> R -> R),
  (forall x y : R, exists d : R, (Rabs d <= u)%R /\ fsub x y = ((x - y) * (1 + d))%R) ->
  (forall x y : R, exists d : R, (Rabs d <= u)%R /\ fmul x y = (x * y * (1 + d))%R) ->
  (forall x y : R, y <> 0%R -> exists d : R, (Rabs d <= u)%R /\ fdiv x y = (x / y * (1 + d))%R) ->
  forall (B : banded (ARm fadd fsub fmul fdiv)) (b x : list R),
  wfB B -> length b = bn B -> bm1 B <= bn B -> band_solve B b = Ok x ->
  (INR (3 * (bm1 B + bm2 B + 1)) * u < 1)%R ->
  exists (au al : matrix (ARm fadd fsub fmul fdiv)) (index : list nat),
    (exists d : R, decompose_gen (A := ARm fadd fsub fmul fdiv) false B (Model.Banded.compact B)
                     (mat_new (A := ARm fadd fsub fmul fdiv) (bn B) (bm1 B) 0%R) (repeat 0 (bn B))
                   = Ok (au, al, index, d)) /\
    ((forall k, k < bn B -> mat_at (A := ARm fadd fsub fmul fdiv) au (bm1 B + bm2 B + 1) k 0 <> 0%R) ->
     (forall k, k < bn B -> nth k index 0 = k + 1) ->
     exists dB : nat -> nat -> R,
       (forall r c, r < bn B -> c < bn B ->
          (Rabs (dB r c) <= gam u (3 * (bm1 B + bm2 B + 1))
                            * Rsum (bn B) (fun k => Rabs (Ld (fhist (A := ARm fadd fsub fmul fdiv) (bn B) (bm1 B) al index (bn B) r) r k)
                                                    * Rabs (Uc fadd fsub fmul fdiv au (bm1 B + bm2 B + 1) k c)))%R) /\
       forall r, r < bn B ->
         Rsum (bn B) (fun c => ((dense_entry B r c + dB r c) * nth c x 0)%R) = nth r b 0%R).
Proof. intros u Hu fadd fsub fmul fdiv Hs Hm Hd B b x. exact (band_solve_noswap_single_backward_error_lemma u Hu fadd fsub fmul fdiv Hs Hm Hd B b x). Qed.
Check band_solve_noswap_single_backward_error : forall (u : R), (0 <= u < 1)%R ->
  forall (fadd fsub fmul fdiv : R -> R -> R),
  (forall x y : R, exists d : R, (Rabs d <= u)%R /\ fsub x y = ((x - y) * (1 + d))%R) ->
  (forall x y : R, exists d : R, (Rabs d <= u)%R /\ fmul x y = (x * y * (1 + d))%R) ->
  (forall x y : R, y <> 0%R -> exists d : R, (Rabs d <= u)%R /\ fdiv x y = (x / y * (1 + d))%R) ->
  forall (B : banded (ARm fadd fsub fmul fdiv)) (b x : list R),
  wfB B -> length b = bn B -> bm1 B <= bn B -> band_solve B b = Ok x ->
  (INR (3 * (bm1 B + bm2 B + 1)) * u < 1)%R ->
  exists (au al : matrix (ARm fadd fsub fmul fdiv)) (index : list nat),
    (exists d : R, decompose_gen (A := ARm fadd fsub fmul fdiv) false B (Model.Banded.compact B)
                     (mat_new (A := ARm fadd fsub fmul fdiv) (bn B) (bm1 B) 0%R) (repeat 0 (bn B))
                   = Ok (au, al, index, d)) /\
    ((forall k, k < bn B -> mat_at (A := ARm fadd fsub fmul fdiv) au (bm1 B + bm2 B + 1) k 0 <> 0%R) ->
     (forall k, k < bn B -> nth k index 0 = k + 1) ->
     exists dB : nat -> nat -> R,
       (forall r c, r < bn B -> c < bn B ->
          (Rabs (dB r c) <= gam u (3 * (bm1 B + bm2 B + 1))
                            * Rsum (bn B) (fun k => Rabs (Ld (fhist (A := ARm fadd fsub fmul fdiv) (bn B) (bm1 B) al index (bn B) r) r k)
                                                    * Rabs (Uc fadd fsub fmul fdiv au (bm1 B + bm2 B + 1) k c)))%R) /\
       forall r, r < bn B ->
         Rsum (bn B) (fun c => ((dense_entry B r c + dB r c) * nth c x 0)%R) = nth r b 0%R).
Print Assumptions band_solve_noswap_single_backward_error.
(* [[2,1],[1,3]] x = [1,2]: the pivot search keeps the diagonal, the exchange record is [1; 2] *)
Example band_solve_noswap_single_backward_error_nonvacuous :
  (0 <= ux < 1)%R /\
  (forall x y : R, exists d : R, (Rabs d <= ux)%R /\ xsub x y = ((x - y) * (1 + d))%R) /\
  (forall x y : R, exists d : R, (Rabs d <= ux)%R /\ xmul x y = (x * y * (1 + d))%R) /\
  (forall x y : R, y <> 0%R -> exists d : R, (Rabs d <= ux)%R /\ xdiv x y = (x / y * (1 + d))%R) /\
  wfB exn_B /\ length exs_b = bn exn_B /\ bm1 exn_B <= bn exn_B /\
  (exists x, band_solve exn_B exs_b = Ok x) /\
  (INR (3 * (bm1 exn_B + bm2 exn_B + 1)) * ux < 1)%R /\
  decompose_gen false exn_B (Model.Banded.compact exn_B) (@mat_new AFlx 2 1 0%R) (repeat 0 2) = Ok (exn_au, exn_al, [1; 2], 1%R) /\
  (forall k, k < 2 -> mat_at (A := AFlx) exn_au 3 k 0 <> 0%R) /\
  (forall k, k < 2 -> nth k [1; 2] 0 = k + 1).
Proof.
  split; [exact ux_range|]. split; [exact xsub_ok|]. split; [exact xmul_ok|]. split; [exact xdiv_ok|].
  split; [exact exn_wf|]. split; [reflexivity|]. split; [cbn; lia|]. split; [exact exn_solve|].
  split; [exact exn_size9|]. split; [exact exn_decompose|]. split; [exact exn_pivots|].
  intros [|[|k]] Hk; try lia; reflexivity.
Qed.


(* ---- round 7 (linearity): the banded matrix-vector product (three-case loop over the compact storage) is a linear
   map of the vector through the library's own guarded vector operations, any n, any band widths, any ring. *)
From OV Require Proofs.DenseBandLinear.

Theorem band_mul_add : forall (A : Arith), RingLaws A -> forall (B : banded A) (x y : list A),
  wfB B -> length x = bn B -> length y = bn B ->
  exists xy u v uv, Model.Vector.vadd x y = Ok xy /\ band_mul B x = Ok u /\ band_mul B y = Ok v /\
                    Model.Vector.vadd u v = Ok uv /\ band_mul B xy = Ok uv.
Proof. intros A RL B x y. exact (DenseBandLinear.band_mul_add_lemma RL B x y). Qed.
Check band_mul_add : forall (A : Arith), RingLaws A -> forall (B : banded A) (x y : list A),
  wfB B -> length x = bn B -> length y = bn B ->
  exists xy u v uv, Model.Vector.vadd x y = Ok xy /\ band_mul B x = Ok u /\ band_mul B y = Ok v /\
                    Model.Vector.vadd u v = Ok uv /\ band_mul B xy = Ok uv.
Print Assumptions band_mul_add.

Theorem band_mul_sub : forall (A : Arith), RingLaws A -> forall (B : banded A) (x y : list A),
  wfB B -> length x = bn B -> length y = bn B ->
  exists xy u v uv, Model.Vector.vsub x y = Ok xy /\ band_mul B x = Ok u /\ band_mul B y = Ok v /\
                    Model.Vector.vsub u v = Ok uv /\ band_mul B xy = Ok uv.
Proof. intros A RL B x y. exact (DenseBandLinear.band_mul_sub_lemma RL B x y). Qed.
Check band_mul_sub : forall (A : Arith), RingLaws A -> forall (B : banded A) (x y : list A),
  wfB B -> length x = bn B -> length y = bn B ->
  exists xy u v uv, Model.Vector.vsub x y = Ok xy /\ band_mul B x = Ok u /\ band_mul B y = Ok v /\
                    Model.Vector.vsub u v = Ok uv /\ band_mul B xy = Ok uv.
Print Assumptions band_mul_sub.

Theorem band_mul_scale_vec : forall (A : Arith), RingLaws A -> forall (B : banded A) (x : list A) (a : A),
  wfB B -> length x = bn B ->
  exists u, band_mul B x = Ok u /\ band_mul B (Model.Vector.vscale x a) = Ok (Model.Vector.vscale u a).
Proof. intros A RL B x a. exact (DenseBandLinear.band_mul_scale_vec_lemma RL B x a). Qed.
Check band_mul_scale_vec : forall (A : Arith), RingLaws A -> forall (B : banded A) (x : list A) (a : A),
  wfB B -> length x = bn B ->
  exists u, band_mul B x = Ok u /\ band_mul B (Model.Vector.vscale x a) = Ok (Model.Vector.vscale u a).
Print Assumptions band_mul_scale_vec.

Theorem band_mul_zero : forall (A : Arith), RingLaws A -> forall (B : banded A), wfB B ->
  band_mul B (repeat (@Arith.zero A) (bn B)) = Ok (repeat (@Arith.zero A) (bn B)).
Proof. intros A RL B. exact (DenseBandLinear.band_mul_zero_lemma RL B). Qed.
Check band_mul_zero : forall (A : Arith), RingLaws A -> forall (B : banded A), wfB B ->
  band_mul B (repeat (@Arith.zero A) (bn B)) = Ok (repeat (@Arith.zero A) (bn B)).
Print Assumptions band_mul_zero.
