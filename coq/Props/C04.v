(* Props/C04.v -- stub, to be filled in *)
