(* Props/C07.v -- stub, to be filled in *)
