(* Props/C07.v -- property theorems only: Theorem / exact lemma / Check (pins the statement) / Print Assumptions.

   C07: sparse products equal dense products; transpose is the adjoint; scaling scales every product.
   All theorems are about the Gallina model Model/Sparse.v of src/sparse.rs (tied to the code by the
   correspondence check of driver/c07.py), over ANY arithmetic satisfying the ring laws, for every
   well-formed compressed-column matrix of any shape and any values (no size bound).

   [sp_entry s i j] is the (i,j) entry of the matrix the storage denotes: the sum of the values of
   column segment j whose row index is i.  Difference from DESIGN Appendix E: the pinned statements
   there use [to_dense s] on the right-hand side; that is false for storage holding one position
   twice (multiply sums duplicates, to_dense keeps the last), so the theorems are stated against
   [sp_entry], which is what the loops compute for every well-formed storage, duplicates included;
   [to_dense_entry] (below, under NoDupKeys) identifies [sp_entry] with the entries of [sp_to_dense]. *)
From Coq Require Import List Arith ZArith QArith Qcanon Lia.
From OV Require Import Base.Panic Base.Arith Base.Flat Model.Vector Model.Matrix Model.Sparse Inst.QcInst
                       Proofs.SparseBase Proofs.SparseMul Proofs.SparseWf Proofs.SparseHist
                       Proofs.SparseViews Proofs.SparseRefine Proofs.SparseTranspose Proofs.SparseFinal.
Import ListNotations.
Local Open Scope nat_scope.

Theorem sp_mul_spec : forall (A : Arith), RingLaws A -> forall (s : sparse A) (x : list A),
  wfS s -> length x = sp_cols s ->
  sp_mul s x = Ok (dmulv (sp_entry s) (sp_rows s) (sp_cols s) x).
Proof. intros A RL s x. exact (sp_mul_spec_lemma RL s x). Qed.
Check sp_mul_spec : forall (A : Arith), RingLaws A -> forall (s : sparse A) (x : list A),
  wfS s -> length x = sp_cols s ->
  sp_mul s x = Ok (dmulv (sp_entry s) (sp_rows s) (sp_cols s) x).
Print Assumptions sp_mul_spec.

Theorem sp_tmul_spec : forall (A : Arith), RingLaws A -> forall (s : sparse A) (y : list A),
  wfS s -> length y = sp_rows s ->
  sp_tmul s y = Ok (dtmulv (sp_entry s) (sp_rows s) (sp_cols s) y).
Proof. intros A RL s y. exact (sp_tmul_spec_lemma RL s y). Qed.
Check sp_tmul_spec : forall (A : Arith), RingLaws A -> forall (s : sparse A) (y : list A),
  wfS s -> length y = sp_rows s ->
  sp_tmul s y = Ok (dtmulv (sp_entry s) (sp_rows s) (sp_cols s) y).
Print Assumptions sp_tmul_spec.

(* <y, A x> = <A^T y, x> *)
Theorem sp_adjoint : forall (A : Arith), RingLaws A -> forall (s : sparse A) (x y : list A),
  wfS s -> length x = sp_cols s -> length y = sp_rows s ->
  exists u w d, sp_mul s x = Ok u /\ sp_tmul s y = Ok w /\ dot y u = Ok d /\ dot w x = Ok d.
Proof. intros A RL s x y. exact (sp_adjoint_lemma RL s x y). Qed.
Check sp_adjoint : forall (A : Arith), RingLaws A -> forall (s : sparse A) (x y : list A),
  wfS s -> length x = sp_cols s -> length y = sp_rows s ->
  exists u w d, sp_mul s x = Ok u /\ sp_tmul s y = Ok w /\ dot y u = Ok d /\ dot w x = Ok d.
Print Assumptions sp_adjoint.

(* (scale a A) x = (A x) * a *)
Theorem sp_scale_mul : forall (A : Arith), RingLaws A -> forall (s : sparse A) (a : A) (x : list A),
  wfS s -> length x = sp_cols s ->
  exists s' u, sp_scale s a = Ok s' /\ wfS s' /\ sp_mul s x = Ok u /\ sp_mul s' x = Ok (vscale u a).
Proof. intros A RL s a x. exact (sp_scale_mul_lemma RL s a x). Qed.
Check sp_scale_mul : forall (A : Arith), RingLaws A -> forall (s : sparse A) (a : A) (x : list A),
  wfS s -> length x = sp_cols s ->
  exists s' u, sp_scale s a = Ok s' /\ wfS s' /\ sp_mul s x = Ok u /\ sp_mul s' x = Ok (vscale u a).
Print Assumptions sp_scale_mul.

(* P2: multiplying by the explicit transpose equals the transposed product *)
Theorem sp_transpose_mul : forall (A : Arith), RingLaws A -> forall (s : sparse A) (y : list A),
  wfS s -> length y = sp_rows s ->
  exists s' w, sp_transpose s = Ok s' /\ sp_mul s' y = Ok w /\ sp_tmul s y = Ok w.
Proof. intros A RL s y. exact (sp_transpose_mul_lemma RL s y). Qed.
Check sp_transpose_mul : forall (A : Arith), RingLaws A -> forall (s : sparse A) (y : list A),
  wfS s -> length y = sp_rows s ->
  exists s' w, sp_transpose s = Ok s' /\ sp_mul s' y = Ok w /\ sp_tmul s y = Ok w.
Print Assumptions sp_transpose_mul.

(* the matrix the products are stated against is the dense conversion: for storage with no position
   stored twice, entry (i,j) of to_dense (read through the modelled dense index) is sp_entry s i j *)
Theorem to_dense_entry : forall (A : Arith), RingLaws A -> forall (s : sparse A), wfS s -> NoDupKeys s ->
  exists D, sp_to_dense s = Ok D /\ rows D = sp_rows s /\ cols D = sp_cols s /\
    forall i j, i < sp_rows s -> j < sp_cols s -> mget D i j = Ok (sp_entry s i j).
Proof. intros A RL s. exact (to_dense_entry_lemma RL s). Qed.
Check to_dense_entry : forall (A : Arith), RingLaws A -> forall (s : sparse A), wfS s -> NoDupKeys s ->
  exists D, sp_to_dense s = Ok D /\ rows D = sp_rows s /\ cols D = sp_cols s /\
    forall i j, i < sp_rows s -> j < sp_cols s -> mget D i j = Ok (sp_entry s i j).
Print Assumptions to_dense_entry.

(* ---- non-vacuity: the hypotheses hold for a concrete non-trivial input at the exact instance ----
   a 3x4 matrix with an empty column, a column holding two entries out of row order, and a vector
   that is not all-ones. *)
Definition ex_s : sparse AQ :=
  @mkS AQ 3 4 4 [q 2 1; q (-1) 2; q 7 1; q 5 3] [2; 0; 1; 2] [0; 0; 2; 3; 4].
Definition ex_x : list AQ := [q 1 1; q 2 1; q (-3) 1; q 1 2].
Definition ex_y : list AQ := [q 4 1; q (-1) 1; q 2 1].

Example AQ_RingLaws : RingLaws AQ.
Proof. constructor. exact Qcrt. Qed.

Example ex_s_wf : wfS ex_s.
Proof.
  unfold wfS, ex_s; cbn [sp_rows sp_cols sp_nonzero sp_val sp_row_index sp_col_start length nth Nat.add].
  repeat split; try reflexivity.
  - intros j Hj. do 4 (destruct j as [|j]; [cbn [nth Nat.add]; lia|]). lia.
  - intros k Hk. do 4 (destruct k as [|k]; [cbn [nth]; lia|]). lia.
Qed.

Example sp_mul_spec_nonvacuous : wfS ex_s /\ length ex_x = sp_cols ex_s /\
  fl_res (fl_list flat_q) (sp_mul ex_s ex_x) = [0; 3;  2; -1; 1;  2; -21; 1;  2; 29; 6]%Z.   (* [-1; -21; 29/6] *)
Proof. split; [exact ex_s_wf|]. split; [reflexivity|]. vm_compute. reflexivity. Qed.

Example sp_tmul_spec_nonvacuous : wfS ex_s /\ length ex_y = sp_rows ex_s /\
  fl_res (fl_list flat_q) (sp_tmul ex_s ex_y) = [0; 4;  2; 0; 1;  2; 2; 1;  2; -7; 1;  2; 10; 3]%Z.   (* [0; 2; -7; 10/3] *)
Proof. split; [exact ex_s_wf|]. split; [reflexivity|]. vm_compute. reflexivity. Qed.

Example sp_adjoint_nonvacuous : wfS ex_s /\ length ex_x = sp_cols ex_s /\ length ex_y = sp_rows ex_s.
Proof. split; [exact ex_s_wf|]. split; reflexivity. Qed.

Example sp_scale_mul_nonvacuous : wfS ex_s /\ length ex_x = sp_cols ex_s.
Proof. split; [exact ex_s_wf|]. reflexivity. Qed.

Example sp_transpose_mul_nonvacuous : wfS ex_s /\ length ex_y = sp_rows ex_s /\
  fl_res (fl_list flat_q) (let* t := sp_transpose ex_s in sp_mul t ex_y) = [0; 4;  2; 0; 1;  2; 2; 1;  2; -7; 1;  2; 10; 3]%Z.
Proof. split; [exact ex_s_wf|]. split; [reflexivity|]. vm_compute. reflexivity. Qed.

Example ex_s_nodup : NoDupKeys ex_s.
Proof.
  unfold NoDupKeys, ents, visits, seg, ent, ex_s, trow, tcol.
  cbn [sp_rows sp_cols sp_nonzero sp_val sp_row_index sp_col_start seq flat_map map nth Nat.add Nat.sub app fst snd].
  repeat constructor; cbn [In]; intros H; repeat (destruct H as [H|H]; [discriminate H|]); destruct H.
Qed.

Example to_dense_entry_nonvacuous : wfS ex_s /\ NoDupKeys ex_s.
Proof. split; [exact ex_s_wf|exact ex_s_nodup]. Qed.

(* ---- tie to the source by proof (package r2c): the functions regenerated from /repo/src on this run by the Rust-subset ->
   Gallina translator (driver/rust2coq.py -> gen/Src*.v) are equal, for all arguments, to the hand-written model functions
   the theorems above are about (Proofs/SrcEq*.v).  A change of a loop bound, index, operator or statement order in the
   source breaks the corresponding src_<function> lemma and with it this obligation. *)
From OV Require Proofs.SrcEqSparse.
Theorem model_is_source_C07_Sparse : forall A : Arith, @SrcEqSparse.model_is_source_Sparse A.
Proof. intros A. exact SrcEqSparse.model_is_source_Sparse_lemma. Qed.
Check model_is_source_C07_Sparse : forall A : Arith, @SrcEqSparse.model_is_source_Sparse A.
Print Assumptions model_is_source_C07_Sparse.
